import BadgerModel.Mvcc
import BadgerModel.Spec.Mvcc
import BadgerProofs.Lemmas.Order
import BadgerProofs.Lemmas.Sorted
/-!
# Frame lemmas for the transaction layer (`Db.findTxn/setTxn/modify/doneRead/discardTxn`)
and the specification of user-level scans used by C05.
-/
namespace Badger

/-! ## `findTxn` / `setTxn` -/

theorem findTxn_id {d : Db} {id : Nat} {t : TxnM} (h : d.findTxn id = some t) : t.id = id := by
  have := List.find?_some h
  simpa using this

@[simp] theorem setTxn_lsm (d : Db) (t : TxnM) : (d.setTxn t).lsm = d.lsm := rfl
@[simp] theorem setTxn_opts (d : Db) (t : TxnM) : (d.setTxn t).opts = d.opts := rfl
@[simp] theorem setTxn_nextTs (d : Db) (t : TxnM) : (d.setTxn t).nextTs = d.nextTs := rfl
@[simp] theorem setTxn_committed (d : Db) (t : TxnM) : (d.setTxn t).committed = d.committed := rfl
@[simp] theorem setTxn_readMark (d : Db) (t : TxnM) : (d.setTxn t).readMark = d.readMark := rfl
@[simp] theorem setTxn_discardTs (d : Db) (t : TxnM) : (d.setTxn t).discardTs = d.discardTs := rfl
@[simp] theorem setTxn_lastCleanupTs (d : Db) (t : TxnM) :
    (d.setTxn t).lastCleanupTs = d.lastCleanupTs := rfl
@[simp] theorem setTxn_now (d : Db) (t : TxnM) : (d.setTxn t).now = d.now := rfl

@[simp] theorem findTxn_setTxn_self (d : Db) (t : TxnM) : (d.setTxn t).findTxn t.id = some t := by
  simp [Db.setTxn, Db.findTxn]

theorem findTxn_setTxn_ne (d : Db) (t : TxnM) (id' : Nat) (h : id' ≠ t.id) :
    (d.setTxn t).findTxn id' = d.findTxn id' := by
  have h1 : (t.id == id') = false := by simpa using fun h' => h h'.symm
  simp only [Db.setTxn, Db.findTxn, List.find?_cons, h1]
  generalize d.txns = l
  induction l with
  | nil => rfl
  | cons x xs ih =>
    simp only [List.filter_cons]
    by_cases hx : x.id = t.id
    · have h2 : (x.id == id') = false := by simpa [hx] using fun h' => h h'.symm
      have h4 : (x.id != t.id) = false := by simp [hx]
      simp only [h4, List.find?_cons, h2]
      exact ih
    · have h4 : (x.id != t.id) = true := by simp [hx]
      simp only [h4, if_true, List.find?_cons]
      cases (x.id == id')
      · exact ih
      · rfl

/-! ## shape of `modify` -/

/-- the transaction record after an accepted `modify` -/
def modTxn (d : Db) (t : TxnM) (e : Ent) : TxnM :=
  { t with
    count := t.count + 1
    size := t.size + estimateSize d.opts.threshold e + 10
    dups := (match t.pending.find? (·.key == e.key) with
      | some o => if o.ver != e.ver then t.dups ++ [o] else t.dups
      | none => t.dups)
    pending := (t.pending.filter (·.key != e.key)) ++ [e]
    writes := if d.opts.detectConflicts then e.key :: t.writes else t.writes }

/-- the first validation failure of `modify` on an existing transaction, `none` if accepted. -/
def modCheck (d : Db) (t : TxnM) (e : Ent) : Option ModErr :=
  if !t.update then some .readonly
  else if t.discarded then some .discarded
  else if e.key.isEmpty then some .emptykey
  else if badgerPrefix.isPrefixOf e.key then some .invalidkey
  else if e.key.length > 65000 then some .keytoobig
  else if e.val.length > d.opts.vlogFileSize then some .valtoobig
  else if d.opts.inMemory && e.val.length > d.opts.threshold then some .valtoobig
  else if t.count + 1 ≥ d.opts.maxBatchCount ||
      t.size + estimateSize d.opts.threshold e + 10 ≥ d.opts.maxBatchSize then some .txntoobig
  else none

theorem modify_none {d : Db} {id : Nat} (e : Ent) (h : d.findTxn id = none) :
    d.modify id e = (d, some .discarded) := by
  simp [Db.modify, h]

/-- `modify` = validation (`modCheck`), then either nothing or `setTxn (modTxn …)`. -/
theorem modify_eq {d : Db} {id : Nat} {t : TxnM} (e : Ent) (h : d.findTxn id = some t) :
    d.modify id e =
      (match modCheck d t e with
       | some err => (d, some err)
       | none => (d.setTxn (modTxn d t e), none)) := by
  unfold Db.modify modCheck
  simp only [h]
  iterate 8 (split; · rfl)
  rfl

theorem modify_verdict {d : Db} {id : Nat} {t : TxnM} (e : Ent) (h : d.findTxn id = some t) :
    (d.modify id e).2 = modCheck d t e := by
  rw [modify_eq e h]; cases modCheck d t e <;> rfl

theorem modify_shape {d : Db} {id : Nat} {t : TxnM} (e : Ent) (h : d.findTxn id = some t) :
    (d.modify id e).1 = d ∨ ∃ t', t'.id = id ∧ (d.modify id e).1 = d.setTxn t' := by
  rw [modify_eq e h]
  cases modCheck d t e with
  | some err => exact .inl rfl
  | none => exact .inr ⟨modTxn d t e, (findTxn_id h : t.id = id), rfl⟩

/-- `Txn.Get` on a key with a pending write (update transaction, not discarded). -/
theorem txnGet_pending {d : Db} {id : Nat} {t : TxnM} {k : Bytes} {e : Ent}
    (ht : d.findTxn id = some t) (hk : k ≠ []) (hu : t.update = true) (hd : t.discarded = false)
    (hp : t.pending.find? (·.key == k) = some e) :
    d.txnGet id k =
      (d, if deletedOrExpired e.emeta e.exp d.now then GetRes.notfound else .found e t.readTs) := by
  unfold Db.txnGet
  have hk' : k.isEmpty = false := by cases k <;> simp_all
  simp only [ht, hk', hd, hu, hp, Bool.false_eq_true, if_false, if_true]
  split <;> rfl

/-! ## frame lemmas: `doneRead`, `discardTxn`, `cleanup` -/

@[simp] theorem doneRead_lsm (d : Db) (t : TxnM) : (d.doneRead t).1.lsm = d.lsm := by
  unfold Db.doneRead; split <;> rfl
@[simp] theorem doneRead_opts (d : Db) (t : TxnM) : (d.doneRead t).1.opts = d.opts := by
  unfold Db.doneRead; split <;> rfl
@[simp] theorem doneRead_nextTs (d : Db) (t : TxnM) : (d.doneRead t).1.nextTs = d.nextTs := by
  unfold Db.doneRead; split <;> rfl
@[simp] theorem doneRead_committed (d : Db) (t : TxnM) : (d.doneRead t).1.committed = d.committed := by
  unfold Db.doneRead; split <;> rfl
@[simp] theorem doneRead_discardTs (d : Db) (t : TxnM) : (d.doneRead t).1.discardTs = d.discardTs := by
  unfold Db.doneRead; split <;> rfl
@[simp] theorem doneRead_now (d : Db) (t : TxnM) : (d.doneRead t).1.now = d.now := by
  unfold Db.doneRead; split <;> rfl
@[simp] theorem doneRead_txns (d : Db) (t : TxnM) : (d.doneRead t).1.txns = d.txns := by
  unfold Db.doneRead; split <;> rfl
@[simp] theorem doneRead_lastCleanupTs (d : Db) (t : TxnM) :
    (d.doneRead t).1.lastCleanupTs = d.lastCleanupTs := by
  unfold Db.doneRead; split <;> rfl
theorem doneRead_txn (d : Db) (t : TxnM) : (d.doneRead t).2 = { t with doneRead := true } := by
  unfold Db.doneRead; split <;> rfl
theorem doneRead_managed (d : Db) (t : TxnM) (h : d.opts.managed = true) :
    (d.doneRead t).1 = d := by
  unfold Db.doneRead; simp [h]

@[simp] theorem cleanup_lsm (d : Db) : d.cleanup.lsm = d.lsm := by
  unfold Db.cleanup; split; · rfl
  dsimp only; split <;> rfl
@[simp] theorem cleanup_opts (d : Db) : d.cleanup.opts = d.opts := by
  unfold Db.cleanup; split; · rfl
  dsimp only; split <;> rfl
@[simp] theorem cleanup_nextTs (d : Db) : d.cleanup.nextTs = d.nextTs := by
  unfold Db.cleanup; split; · rfl
  dsimp only; split <;> rfl
@[simp] theorem cleanup_now (d : Db) : d.cleanup.now = d.now := by
  unfold Db.cleanup; split; · rfl
  dsimp only; split <;> rfl
@[simp] theorem cleanup_txns (d : Db) : d.cleanup.txns = d.txns := by
  unfold Db.cleanup; split; · rfl
  dsimp only; split <;> rfl
@[simp] theorem cleanup_readMark (d : Db) : d.cleanup.readMark = d.readMark := by
  unfold Db.cleanup; split; · rfl
  dsimp only; split <;> rfl
@[simp] theorem cleanup_discardTs (d : Db) : d.cleanup.discardTs = d.discardTs := by
  unfold Db.cleanup; split; · rfl
  dsimp only; split <;> rfl

@[simp] theorem discardTxn_lsm (d : Db) (id : Nat) : (d.discardTxn id).lsm = d.lsm := by
  unfold Db.discardTxn
  split; · rfl
  split; · rfl
  simp
@[simp] theorem discardTxn_opts (d : Db) (id : Nat) : (d.discardTxn id).opts = d.opts := by
  unfold Db.discardTxn
  split; · rfl
  split; · rfl
  simp
@[simp] theorem discardTxn_nextTs (d : Db) (id : Nat) : (d.discardTxn id).nextTs = d.nextTs := by
  unfold Db.discardTxn
  split; · rfl
  split; · rfl
  simp
@[simp] theorem discardTxn_committed (d : Db) (id : Nat) :
    (d.discardTxn id).committed = d.committed := by
  unfold Db.discardTxn
  split; · rfl
  split; · rfl
  simp
@[simp] theorem discardTxn_now (d : Db) (id : Nat) : (d.discardTxn id).now = d.now := by
  unfold Db.discardTxn
  split; · rfl
  split; · rfl
  simp
@[simp] theorem discardTxn_discardTs (d : Db) (id : Nat) :
    (d.discardTxn id).discardTs = d.discardTs := by
  unfold Db.discardTxn
  split; · rfl
  split; · rfl
  simp

theorem lsmForm_congr {d1 d2 : Db} (h : d1.opts = d2.opts) (e : Ent) : d1.lsmForm e = d2.lsmForm e := by
  unfold Db.lsmForm; rw [h]

/-! ## shape of `commit` -/

/-- the commit timestamp `commitAndSend` obtains -/
def commitTsOf (d : Db) (mts : Nat) : Nat := if d.opts.managed then mts else d.nextTs

def keepTogetherOf (t : TxnM) : Bool := (t.pending ++ t.dups).all (·.ver == 0)

/-- `commitPrecheck` looks at `pendingWrites` only -/
def keepPreOf (t : TxnM) : Bool := t.pending.all (·.ver == 0)

/-- what `commitAndSend` + `writeToLSM` make of one entry of the transaction -/
def finEnt (d : Db) (keep : Bool) (cts : Nat) (e : Ent) : Ent :=
  let e := if e.ver == 0 then { e with ver := cts } else e
  let e := if keep then { e with emeta := setBit e.emeta bitTxn } else e
  d.lsmForm e

/-- the entries a commit writes, in write order: `duplicateWrites` first, then `pendingWrites`
    (the order of `commitAndSend` since the fix of finding F8) -/
def commitEntries (d : Db) (t : TxnM) (cts : Nat) : List Ent :=
  (t.dups ++ t.pending).map (finEnt d (keepTogetherOf t) cts)

theorem mem_commitEntries {d : Db} {t : TxnM} {cts : Nat} {x : Ent} :
    x ∈ commitEntries d t cts ↔ ∃ e ∈ t.pending ++ t.dups, x = finEnt d (keepTogetherOf t) cts e := by
  simp only [commitEntries, List.mem_map, List.mem_append]
  constructor
  · rintro ⟨e, he, rfl⟩; exact ⟨e, he.symm, rfl⟩
  · rintro ⟨e, he, rfl⟩; exact ⟨e, he.symm, rfl⟩

/-- the guard under which `commit` reaches the write path -/
def commitGoes (d : Db) (t : TxnM) (mts : Nat) : Bool :=
  !t.pending.isEmpty && !t.discarded &&
    !(keepPreOf t && d.opts.managed && mts == 0) &&
    !(d.opts.detectConflicts && d.hasConflict t)

theorem commit_none {d : Db} {id : Nat} (mts : Nat) (h : d.findTxn id = none) :
    d.commit id mts = (d, .err "err:discarded") := by
  simp [Db.commit, h]

/-- the write path of `commit`, stage by stage -/
def commitApply (d : Db) (t : TxnM) (id mts : Nat) : Db × CommitRes :=
  let d1 := (d.doneRead t).1
  let t1 := (d.doneRead t).2
  let d2 := if d1.opts.managed then d1 else d1.cleanup
  let cts := if d2.opts.managed then mts else d2.nextTs
  let d3 := if d2.opts.managed then d2 else { d2 with nextTs := d2.nextTs + 1 }
  let d4 := if d3.opts.detectConflicts then { d3 with committed := (cts, t1.writes) :: d3.committed } else d3
  let entries := (t1.dups ++ t1.pending).map (finEnt d4 (keepTogetherOf t) cts)
  let d5 := { d4 with lsm := { d4.lsm with mem := entries.foldl (fun m e => memPut e m) d4.lsm.mem } }
  ((d5.setTxn t1).discardTxn id, .ok cts)

theorem commit_eq {d : Db} {id : Nat} {t : TxnM} (mts : Nat) (h : d.findTxn id = some t) :
    d.commit id mts =
      if t.pending.isEmpty then (d.discardTxn id, .noop)
      else if t.discarded then (d, .err "err:discarded")
      else if keepPreOf t && d.opts.managed && mts == 0 then (d, .err "err:zerocommitts")
      else if d.opts.detectConflicts && d.hasConflict t then (d.discardTxn id, .conflict)
      else commitApply d t id mts := by
  unfold Db.commit commitApply
  rw [h]
  dsimp -zeta only
  generalize d.doneRead t = p
  obtain ⟨a, b⟩ := p
  rfl

theorem finEnt_congr {d1 d2 : Db} (h : d1.opts = d2.opts) (keep : Bool) (cts : Nat) :
    finEnt d1 keep cts = finEnt d2 keep cts := by
  funext e; unfold finEnt; exact lsmForm_congr h _

theorem commitApply_spec (d : Db) (t : TxnM) (id mts : Nat) :
    (commitApply d t id mts).2 = .ok (commitTsOf d mts) ∧
    (commitApply d t id mts).1.lsm =
      { d.lsm with mem := (commitEntries d t (commitTsOf d mts)).foldl (fun m e => memPut e m) d.lsm.mem } ∧
    (commitApply d t id mts).1.nextTs = (if d.opts.managed then d.nextTs else d.nextTs + 1) ∧
    (commitApply d t id mts).1.opts = d.opts ∧ (commitApply d t id mts).1.now = d.now ∧
    (commitApply d t id mts).1.discardTs = d.discardTs := by
  unfold commitApply
  simp only [discardTxn_lsm, setTxn_lsm, discardTxn_nextTs, setTxn_nextTs, discardTxn_opts, setTxn_opts,
    discardTxn_now, setTxn_now, discardTxn_discardTs, setTxn_discardTs, doneRead_txn]
  cases hm : d.opts.managed <;> cases hc : d.opts.detectConflicts
  all_goals
    simp only [doneRead_opts, hm, hc, cleanup_opts, cleanup_nextTs, doneRead_nextTs, cleanup_lsm, doneRead_lsm,
      commitTsOf, commitEntries, cleanup_now, doneRead_now, cleanup_discardTs, doneRead_discardTs,
      Bool.false_eq_true, if_false, if_true, true_and]
  all_goals
    refine ⟨?_, trivial⟩
    rw [finEnt_congr (d2 := d)]
    first | rfl | simp
/-- a commit that does not reach the write path returns the database unchanged or only
    discards the transaction. -/
theorem commit_stops {d : Db} {id : Nat} {t : TxnM} (mts : Nat) (h : d.findTxn id = some t)
    (hg : commitGoes d t mts = false) :
    (d.commit id mts = (d.discardTxn id, .noop)) ∨ (∃ s, d.commit id mts = (d, .err s)) ∨
    (d.commit id mts = (d.discardTxn id, .conflict)) := by
  rw [commit_eq mts h]
  split
  · exact .inl rfl
  split
  · exact .inr (.inl ⟨_, rfl⟩)
  split
  · exact .inr (.inl ⟨_, rfl⟩)
  split
  · exact .inr (.inr rfl)
  · exfalso
    simp_all [commitGoes]

theorem commit_goes_eq {d : Db} {id : Nat} {t : TxnM} (mts : Nat) (h : d.findTxn id = some t)
    (hg : commitGoes d t mts = true) : d.commit id mts = commitApply d t id mts := by
  rw [commit_eq mts h]
  simp only [commitGoes, Bool.and_eq_true, Bool.not_eq_true'] at hg
  obtain ⟨⟨⟨h1, h2⟩, h3⟩, h4⟩ := hg
  rw [if_neg (by simp [h1]), if_neg (by simp [h2]), if_neg (by simp [h3]), if_neg (by simp [h4])]

theorem commit_goes {d : Db} {id : Nat} {t : TxnM} (mts : Nat) (h : d.findTxn id = some t)
    (hg : commitGoes d t mts = true) :
    (d.commit id mts).2 = .ok (commitTsOf d mts) ∧
    (d.commit id mts).1.lsm =
      { d.lsm with mem := (commitEntries d t (commitTsOf d mts)).foldl (fun m e => memPut e m) d.lsm.mem } ∧
    (d.commit id mts).1.nextTs = (if d.opts.managed then d.nextTs else d.nextTs + 1) ∧
    (d.commit id mts).1.opts = d.opts ∧ (d.commit id mts).1.now = d.now ∧
    (d.commit id mts).1.discardTs = d.discardTs := by
  rw [commit_goes_eq mts h hg]; exact commitApply_spec d t id mts

/-- a commit answers `ok ts` only through the write path. -/
theorem commit_ok_inv {d : Db} {id mts ts : Nat} (h : (d.commit id mts).2 = .ok ts) :
    ∃ t, d.findTxn id = some t ∧ commitGoes d t mts = true ∧ ts = commitTsOf d mts := by
  cases hf : d.findTxn id with
  | none => rw [commit_none mts hf] at h; cases h
  | some t =>
    refine ⟨t, rfl, ?_⟩
    cases hg : commitGoes d t mts with
    | false =>
      rcases commit_stops mts hf hg with h' | ⟨s, h'⟩ | h' <;> rw [h'] at h <;> cases h
    | true =>
      have := (commit_goes mts hf hg).1
      rw [this] at h
      injection h with h
      exact ⟨rfl, h.symm⟩

/-! ## meta bits -/

theorem hasBit_setBit_self_vp (m : Nat) : hasBit (setBit m bitValuePointer) bitValuePointer = true := by
  unfold setBit hasBit bitValuePointer
  split
  · assumption
  · rename_i h; simp only [beq_iff_eq] at h ⊢; omega

theorem hasBit_clearBit_self_vp (m : Nat) : hasBit (clearBit m bitValuePointer) bitValuePointer = false := by
  unfold clearBit
  split
  · rename_i h; unfold hasBit bitValuePointer at *; simp only [beq_iff_eq, beq_eq_false_iff_ne] at h ⊢; omega
  · rename_i h; simpa using h

/-- bit `2^i`, `i ≠ 1`, is untouched by setting / clearing the value-pointer bit (`2^1`). -/
theorem hasBit_add_two (m i : Nat) (hi : i ≠ 1) (h : hasBit m 2 = false) :
    hasBit (m + 2) (2 ^ i) = hasBit m (2 ^ i) := by
  unfold hasBit at *
  simp only [beq_eq_false_iff_ne] at h
  rcases i with _ | _ | i
  · simp only [Nat.pow_zero, Nat.div_one]; congr 1; omega
  · exact absurd rfl hi
  · have e : 2 ^ (i + 1 + 1) = 4 * 2 ^ i := by rw [Nat.pow_succ, Nat.pow_succ]; omega
    rw [e, ← Nat.div_div_eq_div_mul, ← Nat.div_div_eq_div_mul]
    have : (m + 2) / 4 = m / 4 := by omega
    rw [this]

theorem hasBit_sub_two (m i : Nat) (hi : i ≠ 1) (h : hasBit m 2 = true) :
    hasBit (m - 2) (2 ^ i) = hasBit m (2 ^ i) := by
  unfold hasBit at *
  simp only [beq_iff_eq] at h
  rcases i with _ | _ | i
  · simp only [Nat.pow_zero, Nat.div_one]; congr 1; omega
  · exact absurd rfl hi
  · have e : 2 ^ (i + 1 + 1) = 4 * 2 ^ i := by rw [Nat.pow_succ, Nat.pow_succ]; omega
    rw [e, ← Nat.div_div_eq_div_mul, ← Nat.div_div_eq_div_mul]
    have : (m - 2) / 4 = m / 4 := by omega
    rw [this]

theorem hasBit_setVP (m i : Nat) (hi : i ≠ 1) :
    hasBit (setBit m bitValuePointer) (2 ^ i) = hasBit m (2 ^ i) := by
  unfold setBit bitValuePointer
  split
  · rfl
  · rename_i h; exact hasBit_add_two m i hi (by simpa using h)

theorem hasBit_clearVP (m i : Nat) (hi : i ≠ 1) :
    hasBit (clearBit m bitValuePointer) (2 ^ i) = hasBit m (2 ^ i) := by
  unfold clearBit bitValuePointer
  split
  · rename_i h; exact hasBit_sub_two m i hi h
  · rfl

/-- setting the transaction bit (64) leaves the delete (1), value-pointer (2), discard-earlier (4)
    and merge (8) bits alone -/
theorem hasBit_setTxn (m b : Nat) (hb : b = 1 ∨ b = 2 ∨ b = 4 ∨ b = 8) :
    hasBit (setBit m bitTxn) b = hasBit m b := by
  unfold setBit bitTxn
  split
  · rfl
  · unfold hasBit
    rcases hb with rfl | rfl | rfl | rfl <;> (congr 1; omega)

/-! ## `memPut` -/

theorem mem_memPut_self (e : Ent) (m : List Ent) : e ∈ memPut e m := by
  induction m with
  | nil => simp [memPut]
  | cons x xs ih =>
    unfold memPut
    split <;> simp [ih]

/-- `Put` removes an entry only by overwriting its own `(key, version)` slot -/
theorem mem_memPut_of_mem {y e : Ent} {m : List Ent} (h : y ∈ m) :
    y ∈ memPut e m ∨ (y.key = e.key ∧ y.ver = e.ver) := by
  induction m with
  | nil => cases h
  | cons x xs ih =>
    unfold memPut
    split
    · exact .inl (List.mem_cons_of_mem _ h)
    · rename_i heq
      simp only [List.mem_cons] at h
      rcases h with h | h
      · subst h
        have := (entCmp_eq_iff e y).mp heq
        exact .inr ⟨this.1.symm, this.2.symm⟩
      · exact .inl (List.mem_cons_of_mem _ h)
    · simp only [List.mem_cons] at h
      rcases h with h | h
      · subst h; exact .inl (List.mem_cons_self ..)
      · rcases ih h with h | h
        · exact .inl (List.mem_cons_of_mem _ h)
        · exact .inr h

theorem mem_foldl_memPut {x : Ent} {es m : List Ent}
    (h : x ∈ es.foldl (fun m e => memPut e m) m) : x ∈ es ∨ x ∈ m := by
  induction es generalizing m with
  | nil => exact .inr h
  | cons e es ih =>
    rcases ih h with h | h
    · exact .inl (List.mem_cons_of_mem _ h)
    · rcases mem_memPut_imp h with h | h
      · exact .inl (h ▸ List.mem_cons_self ..)
      · exact .inr h

theorem mem_foldl_memPut_keep {x : Ent} {es m : List Ent} (h : x ∈ m)
    (hs : ∀ y ∈ es, ¬ (x.key = y.key ∧ x.ver = y.ver)) :
    x ∈ es.foldl (fun m e => memPut e m) m := by
  induction es generalizing m with
  | nil => exact h
  | cons e es ih =>
    apply ih
    · rcases mem_memPut_of_mem (e := e) h with h | h
      · exact h
      · exact absurd h (hs e (List.mem_cons_self ..))
    · exact fun y hy => hs y (List.mem_cons_of_mem _ hy)

/-- with pairwise different `(key, version)` slots every written entry is in the memtable
    afterwards -/
theorem mem_foldl_memPut_of_distinct {e : Ent} {es m : List Ent}
    (hd : es.Pairwise (fun a b => ¬ (a.key = b.key ∧ a.ver = b.ver))) (h : e ∈ es) :
    e ∈ es.foldl (fun m e => memPut e m) m := by
  induction es generalizing m with
  | nil => cases h
  | cons a es ih =>
    rw [List.pairwise_cons] at hd
    simp only [List.mem_cons] at h
    rcases h with h | h
    · subst h
      exact mem_foldl_memPut_keep (m := memPut e m) (mem_memPut_self e m) hd.1
    · exact ih hd.2 h

/-- every written `(key, version)` slot is occupied afterwards -/
theorem slot_foldl_memPut {e : Ent} {es m : List Ent} (h : e ∈ es ∨ e ∈ m) :
    ∃ x ∈ es.foldl (fun m e => memPut e m) m, x.key = e.key ∧ x.ver = e.ver := by
  induction es generalizing m e with
  | nil =>
    rcases h with h | h
    · cases h
    · exact ⟨e, h, rfl, rfl⟩
  | cons a es ih =>
    simp only [List.foldl_cons]
    rcases h with h | h
    · simp only [List.mem_cons] at h
      rcases h with h | h
      · subst h
        exact ih (.inr (mem_memPut_self e m))
      · exact ih (.inl h)
    · rcases mem_memPut_of_mem (e := a) h with h | h
      · exact ih (.inr h)
      · obtain ⟨x, hx, h1, h2⟩ := ih (m := memPut a m) (e := a) (.inr (mem_memPut_self a m))
        exact ⟨x, hx, by rw [h1, h.1], by rw [h2, h.2]⟩

theorem foldl_memPut_sorted {es m : List Ent} (h : SortedEnts m) :
    SortedEnts (es.foldl (fun m e => memPut e m) m) := by
  induction es generalizing m with
  | nil => exact h
  | cons e es ih => exact ih (memPut_sorted h)

/-- entries newer than `ts` are invisible to the `≤ ts` filter -/
theorem filter_le_memPut (e : Ent) (m : List Ent) (ts : Nat) (he : ts < e.ver) :
    (memPut e m).filter (fun x => decide (x.ver ≤ ts)) = m.filter (fun x => decide (x.ver ≤ ts)) := by
  induction m with
  | nil => simp [memPut]; omega
  | cons x xs ih =>
    unfold memPut
    split
    · simp [List.filter_cons]; omega
    · rename_i heq
      have := (entCmp_eq_iff e x).mp heq
      have h1 : ¬ x.ver ≤ ts := by omega
      have h2 : ¬ e.ver ≤ ts := by omega
      simp [h1, h2]
    · simp only [List.filter_cons, ih]

/-! ## `newestLE` -/

/-- the fold of `newestLE` from an arbitrary start -/
def newestFrom (best : Option Ent) (es : List Ent) (k : Bytes) (ts : Nat) : Option Ent :=
  es.foldl (fun best e => if e.key = k ∧ e.ver ≤ ts then betterOf best e else best) best

theorem newestLE_eq_from (es : List Ent) (k : Bytes) (ts : Nat) :
    newestLE es k ts = newestFrom none es k ts := rfl

theorem newestFrom_append (b : Option Ent) (l1 l2 : List Ent) (k : Bytes) (ts : Nat) :
    newestFrom b (l1 ++ l2) k ts = newestFrom (newestFrom b l1 k ts) l2 k ts := by
  simp [newestFrom, List.foldl_append]

/-- `newestLE` looks only at the entries of key `k` with version `≤ ts`. -/
theorem newestFrom_filter (b : Option Ent) (l : List Ent) (k : Bytes) (ts : Nat) :
    newestFrom b l k ts = newestFrom b (l.filter (fun x => decide (x.key = k ∧ x.ver ≤ ts))) k ts := by
  induction l generalizing b with
  | nil => rfl
  | cons x xs ih =>
    simp only [List.filter_cons]
    by_cases h : x.key = k ∧ x.ver ≤ ts
    · simp only [h, and_self, decide_true, if_true]
      show newestFrom _ xs k ts = newestFrom _ _ k ts
      simp only [newestFrom, List.foldl_cons, h, and_self, if_true] 
      exact ih _
    · simp only [h, decide_false, Bool.false_eq_true, if_false]
      show newestFrom _ xs k ts = _
      simp only [newestFrom, h, if_false]
      exact ih _

theorem newestLE_congr_filter {l1 l2 : List Ent} (k : Bytes) (ts : Nat)
    (h : l1.filter (fun x => decide (x.key = k ∧ x.ver ≤ ts)) =
         l2.filter (fun x => decide (x.key = k ∧ x.ver ≤ ts))) :
    newestLE l1 k ts = newestLE l2 k ts := by
  rw [newestLE_eq_from, newestLE_eq_from, newestFrom_filter none l1, newestFrom_filter none l2, h]

theorem filter_and_ver (l : List Ent) (k : Bytes) (ts : Nat) :
    l.filter (fun x => decide (x.key = k ∧ x.ver ≤ ts)) =
      (l.filter (fun x => decide (x.ver ≤ ts))).filter (fun x => decide (x.key = k)) := by
  rw [List.filter_filter]
  congr 1; funext x; simp

/-- an entry of `k` with version `≤ ts` that strictly dominates every *other* such entry is
    the answer. -/
theorem newestFrom_unique_max {x : Ent} {k : Bytes} {ts : Nat} (hk : x.key = k) (hv : x.ver ≤ ts)
    (l : List Ent) (b : Option Ent)
    (hb : ∀ y, b = some y → y = x ∨ y.ver < x.ver)
    (hl : ∀ y ∈ l, y.key = k → y.ver ≤ ts → y = x ∨ y.ver < x.ver)
    (hx : x ∈ l ∨ b = some x) : newestFrom b l k ts = some x := by
  induction l generalizing b with
  | nil =>
    rcases hx with hx | hx
    · cases hx
    · exact hx
  | cons y ys ih =>
    simp only [newestFrom, List.foldl_cons]
    apply ih
    · intro z hz
      split at hz
      · rename_i hq
        have hy := hl y (List.mem_cons_self ..) hq.1 hq.2
        cases b with
        | none => simp only [betterOf] at hz; injection hz with hz; subst hz; exact hy
        | some b0 =>
          simp only [betterOf] at hz
          split at hz
          · injection hz with hz; subst hz; exact hy
          · injection hz with hz; subst hz; exact hb _ rfl
      · exact hb z hz
    · exact fun z hz => hl z (List.mem_cons_of_mem _ hz)
    · simp only [List.mem_cons] at hx
      rcases hx with (hx | hx) | hx
      · subst hx
        right
        rw [if_pos ⟨hk, hv⟩]
        cases b with
        | none => rfl
        | some b0 =>
          simp only [betterOf]
          rcases hb b0 rfl with h | h
          · subst h; simp
          · simp [h]
      · exact .inl hx
      · right
        subst hx
        split
        · rename_i hq
          simp only [betterOf]
          rcases hl y (List.mem_cons_self ..) hq.1 hq.2 with h | h
          · subst h; simp
          · have : ¬ x.ver < y.ver := by omega
            simp [this]
        · rfl

theorem newestLE_unique_max {x : Ent} {k : Bytes} {ts : Nat} {l : List Ent} (hx : x ∈ l)
    (hk : x.key = k) (hv : x.ver ≤ ts)
    (hl : ∀ y ∈ l, y.key = k → y.ver ≤ ts → y = x ∨ y.ver < x.ver) :
    newestLE l k ts = some x :=
  newestFrom_unique_max hk hv l none (by intro y h; cases h) hl (.inl hx)

/-- what `newestLE` returns is an entry of the list, of key `k`, version `≤ ts`, and no
    entry of `k` with version `≤ ts` is newer. -/
theorem newestFrom_some {b : Option Ent} {l : List Ent} {k : Bytes} {ts : Nat} {r : Ent}
    (h : newestFrom b l k ts = some r) :
    (r ∈ l ∧ r.key = k ∧ r.ver ≤ ts) ∨ b = some r := by
  induction l generalizing b with
  | nil => exact .inr h
  | cons y ys ih =>
    simp only [newestFrom, List.foldl_cons] at h
    rcases ih h with h' | h'
    · exact .inl ⟨List.mem_cons_of_mem _ h'.1, h'.2⟩
    · split at h'
      · rename_i hq
        cases b with
        | none =>
          simp only [betterOf] at h'; injection h' with h'; subst h'
          exact .inl ⟨List.mem_cons_self .., hq⟩
        | some b0 =>
          simp only [betterOf] at h'
          split at h'
          · injection h' with h'; subst h'; exact .inl ⟨List.mem_cons_self .., hq⟩
          · exact .inr h'
      · exact .inr h'

theorem newestFrom_ver_ge {b : Option Ent} {l : List Ent} {k : Bytes} {ts : Nat} :
    ∃ r, newestFrom b l k ts = r ∧
      (∀ y, b = some y → ∃ r', r = some r' ∧ y.ver ≤ r'.ver) ∧
      (∀ y ∈ l, y.key = k → y.ver ≤ ts → ∃ r', r = some r' ∧ y.ver ≤ r'.ver) := by
  induction l generalizing b with
  | nil =>
    refine ⟨b, rfl, ?_, ?_⟩
    · intro y hy; exact ⟨y, hy, Nat.le_refl _⟩
    · intro y hy; cases hy
  | cons x xs ih =>
    simp only [newestFrom, List.foldl_cons]
    obtain ⟨r, hr, h1, h2⟩ := ih (b := if x.key = k ∧ x.ver ≤ ts then betterOf b x else b)
    refine ⟨r, hr, ?_, ?_⟩
    · intro y hy
      subst hy
      split at h1
      · simp only [betterOf] at h1
        split at h1
        · rename_i hlt
          obtain ⟨r', hr', hle⟩ := h1 x rfl
          exact ⟨r', hr', by omega⟩
        · exact h1 y rfl
      · exact h1 y rfl
    · intro y hy hyk hyv
      simp only [List.mem_cons] at hy
      rcases hy with hy | hy
      · subst hy
        rw [if_pos ⟨hyk, hyv⟩] at h1
        cases b with
        | none => exact h1 y rfl
        | some b0 =>
          simp only [betterOf] at h1
          split at h1
          · exact h1 y rfl
          · rename_i hnlt
            obtain ⟨r', hr', hle⟩ := h1 b0 rfl
            exact ⟨r', hr', by omega⟩
      · exact h2 y hy hyk hyv

/-- no qualifying entry is newer than the answer; in particular the answer exists when a
    qualifying entry does. -/
theorem newestLE_max {l : List Ent} {k : Bytes} {ts : Nat} {y : Ent} (hy : y ∈ l) (hk : y.key = k)
    (hv : y.ver ≤ ts) : ∃ r, newestLE l k ts = some r ∧ y.ver ≤ r.ver := by
  obtain ⟨r, hr, -, h2⟩ := newestFrom_ver_ge (b := none) (l := l) (k := k) (ts := ts)
  obtain ⟨r', hr', hle⟩ := h2 y hy hk hv
  exact ⟨r', by rw [newestLE_eq_from, hr, hr'], hle⟩

theorem newestLE_none_iff {l : List Ent} {k : Bytes} {ts : Nat} :
    newestLE l k ts = none ↔ ∀ y ∈ l, ¬ (y.key = k ∧ y.ver ≤ ts) := by
  constructor
  · intro h y hy hq
    obtain ⟨r, hr, -⟩ := newestLE_max hy hq.1 hq.2
    rw [h] at hr; cases hr
  · intro h
    cases hr : newestLE l k ts with
    | none => rfl
    | some r =>
      have := newestLE_some_mem hr
      exact absurd ⟨this.2.1, this.2.2⟩ (h r this.1)

/-! ## all entries of a state -/

/-- everything below the memtable, in read-precedence order -/
def Lsm.restEntries (s : Lsm) : List Ent :=
  (s.imm.reverse ++
    (match s.levels with
     | [] => []
     | l0 :: rest => l0.reverse.map (·.ents) ++ rest.map (fun tbls => (tbls.map (·.ents)).flatten))).flatten

theorem allEntries_eq (s : Lsm) : s.allEntries = s.mem ++ s.restEntries := by
  unfold Lsm.allEntries Lsm.sources Lsm.restEntries
  simp only [List.cons_append, List.flatten_cons]
  rfl

theorem restEntries_mem (s : Lsm) (m : List Ent) : ({ s with mem := m } : Lsm).restEntries = s.restEntries := rfl

theorem pairwise_key_inj {l : List Ent} (h : l.Pairwise (fun a b => a.key ≠ b.key)) {a b : Ent}
    (ha : a ∈ l) (hb : b ∈ l) (hk : a.key = b.key) : a = b := by
  induction l with
  | nil => cases ha
  | cons x xs ih =>
    rw [List.pairwise_cons] at h
    simp only [List.mem_cons] at ha hb
    rcases ha with ha | ha <;> rcases hb with hb | hb
    · rw [ha, hb]
    · subst ha; exact absurd hk (h.1 b hb)
    · subst hb; exact absurd hk.symm (h.1 a ha)
    · exact ih h.2 ha hb



/-! ## operations and runs (the `Db` component of `Driver.mvccStep`) -/

inductive Op
  | begin (id : Nat) (update : Bool) (mts : Nat)
  | set (id : Nat) (e : Ent)
  | get (id : Nat) (k : Bytes)
  | commit (id : Nat) (mts : Nat)
  | discard (id : Nat)
  | iter (id : Nat) (o : IterOpts) (seek : Option Bytes)
  | flush (id : Nat)
  | setNow (t : Nat)
  | setDiscard (ts : Nat)
  | compact (cd : CompactDef)
  | dropPrefix (n : Nat)   -- `DropPrefix` of `n` prefixes: one read-only `View` each
  | dropAll

/-- the reads an iteration records (`Seek(key)` and every `Item()`), as in `mvccStep` -/
def iterReads (seek : Option Bytes) (items : List Ent) : List Bytes :=
  (match seek with | some k => if k.isEmpty then [] else [k] | none => []) ++ items.map (·.key)

def Db.step (d : Db) : Op → Db
  | .begin id u m => (d.begin id u m).1
  | .set id e => (d.modify id e).1
  | .get id k => (d.txnGet id k).1
  | .commit id m => (d.commit id m).1
  | .discard id => d.discardTxn id
  | .iter id o seek =>
    match d.iterate id o seek, d.findTxn id with
    | some items, some t =>
      if t.update then d.setTxn { t with reads := iterReads seek items ++ t.reads } else d
    | _, _ => d
  | .flush id => { d with lsm := d.lsm.flush id }
  | .setNow t => { d with now := t }
  | .setDiscard ts => ({ d with discardTs := ts } : Db).cleanup
  | .compact cd =>
    match d.lsm.compact cd d.discardAtOrBelow d.opts.numKeep d.now with
    | some l => { d with lsm := l }
    | none => d
  | .dropPrefix n =>
    (List.replicate n ()).foldl (fun (d : Db) _ =>
      if d.opts.managed then d else
      let rts := d.nextTs - 1
      { d with readMark := (d.readMark.begin rts).done rts }) d
  | .dropAll =>
    let o := if d.opts.inMemory then { d.opts with threshold := 2147483647 } else d.opts
    { d with lsm := Lsm.init d.opts.maxLevels, opts := o }

def Db.run (d : Db) (ops : List Op) : Db := ops.foldl Db.step d

theorem begin_nextTs (d : Db) (id : Nat) (u : Bool) (m : Nat) : (d.begin id u m).1.nextTs = d.nextTs := by
  unfold Db.begin; simp only [setTxn_nextTs]; split <;> rfl
theorem begin_opts (d : Db) (id : Nat) (u : Bool) (m : Nat) : (d.begin id u m).1.opts = d.opts := by
  unfold Db.begin; simp only [setTxn_opts]; split <;> rfl
theorem begin_lsm (d : Db) (id : Nat) (u : Bool) (m : Nat) : (d.begin id u m).1.lsm = d.lsm := by
  unfold Db.begin; simp only [setTxn_lsm]; split <;> rfl

theorem txnGet_shape (d : Db) (id : Nat) (k : Bytes) :
    (d.txnGet id k).1 = d ∨ ∃ t', (d.txnGet id k).1 = d.setTxn t' := by
  unfold Db.txnGet
  cases hf : d.findTxn id with
  | none => exact .inl rfl
  | some t =>
    dsimp -zeta only
    split
    · exact .inl rfl
    split
    · exact .inl rfl
    split
    · split <;> exact .inl rfl
    · cases hu : t.update
      · simp only [Bool.false_eq_true, if_false]
        split
        · exact .inl rfl
        · split <;> exact .inl rfl
      · simp only [if_true]
        split
        · exact .inr ⟨_, rfl⟩
        · split <;> exact .inr ⟨_, rfl⟩

theorem txnGet_nextTs (d : Db) (id : Nat) (k : Bytes) : (d.txnGet id k).1.nextTs = d.nextTs := by
  rcases txnGet_shape d id k with h | ⟨t', h⟩ <;> rw [h] <;> rfl
theorem txnGet_opts (d : Db) (id : Nat) (k : Bytes) : (d.txnGet id k).1.opts = d.opts := by
  rcases txnGet_shape d id k with h | ⟨t', h⟩ <;> rw [h] <;> rfl
theorem txnGet_lsm (d : Db) (id : Nat) (k : Bytes) : (d.txnGet id k).1.lsm = d.lsm := by
  rcases txnGet_shape d id k with h | ⟨t', h⟩ <;> rw [h] <;> rfl

theorem modify_nextTs (d : Db) (id : Nat) (e : Ent) : (d.modify id e).1.nextTs = d.nextTs := by
  cases h : d.findTxn id with
  | none => rw [modify_none e h]
  | some t => rcases modify_shape e h with h1 | ⟨t', -, h1⟩ <;> rw [h1] <;> rfl
theorem modify_opts (d : Db) (id : Nat) (e : Ent) : (d.modify id e).1.opts = d.opts := by
  cases h : d.findTxn id with
  | none => rw [modify_none e h]
  | some t => rcases modify_shape e h with h1 | ⟨t', -, h1⟩ <;> rw [h1] <;> rfl
theorem modify_now (d : Db) (id : Nat) (e : Ent) : (d.modify id e).1.now = d.now := by
  cases h : d.findTxn id with
  | none => rw [modify_none e h]
  | some t => rcases modify_shape e h with h1 | ⟨t', -, h1⟩ <;> rw [h1] <;> rfl
theorem modify_lsm (d : Db) (id : Nat) (e : Ent) : (d.modify id e).1.lsm = d.lsm := by
  cases h : d.findTxn id with
  | none => rw [modify_none e h]
  | some t => rcases modify_shape e h with h1 | ⟨t', -, h1⟩ <;> rw [h1] <;> rfl

/-- `commit` never changes the options and never decreases `nextTs`. -/
theorem commit_opts (d : Db) (id mts : Nat) : (d.commit id mts).1.opts = d.opts := by
  cases h : d.findTxn id with
  | none => rw [commit_none mts h]
  | some t =>
    cases hg : commitGoes d t mts with
    | false =>
      rcases commit_stops mts h hg with h' | ⟨s, h'⟩ | h' <;> rw [h'] <;> simp
    | true => exact (commit_goes mts h hg).2.2.2.1

theorem commit_nextTs_ge (d : Db) (id mts : Nat) : d.nextTs ≤ (d.commit id mts).1.nextTs := by
  cases h : d.findTxn id with
  | none => rw [commit_none mts h]; exact Nat.le_refl _
  | some t =>
    cases hg : commitGoes d t mts with
    | false =>
      rcases commit_stops mts h hg with h' | ⟨s, h'⟩ | h' <;> rw [h'] <;> simp
    | true => rw [(commit_goes mts h hg).2.2.1]; split <;> omega

/-- one `View` of `DropPrefix` touches only the read mark -/
theorem dropPrefix_fields (d : Db) (n : Nat) :
    (d.step (.dropPrefix n)).opts = d.opts ∧ (d.step (.dropPrefix n)).nextTs = d.nextTs ∧
    (d.step (.dropPrefix n)).lsm = d.lsm ∧ (d.step (.dropPrefix n)).now = d.now ∧
    (d.step (.dropPrefix n)).txns = d.txns ∧ (d.step (.dropPrefix n)).committed = d.committed ∧
    (d.step (.dropPrefix n)).discardTs = d.discardTs ∧
    (d.step (.dropPrefix n)).lastCleanupTs = d.lastCleanupTs := by
  simp only [Db.step]
  induction n generalizing d with
  | zero => exact ⟨rfl, rfl, rfl, rfl, rfl, rfl, rfl, rfl⟩
  | succ n ih =>
    rw [List.replicate_succ, List.foldl_cons]
    split
    · exact ih d
    · obtain ⟨h1, h2, h3, h4, h5, h6, h7, h8⟩ :=
        ih { d with readMark := (d.readMark.begin (d.nextTs - 1)).done (d.nextTs - 1) }
      exact ⟨h1, h2, h3, h4, h5, h6, h7, h8⟩

/-- no operation switches between managed and normal mode, or between in-memory and on-disk -/
theorem step_opts (d : Db) (op : Op) :
    (d.step op).opts.managed = d.opts.managed ∧ (d.step op).opts.inMemory = d.opts.inMemory := by
  have h : ∀ d' : Db, d'.opts = d.opts →
      d'.opts.managed = d.opts.managed ∧ d'.opts.inMemory = d.opts.inMemory := by
    intro d' h; rw [h]; exact ⟨rfl, rfl⟩
  cases op with
  | begin id u m => exact h _ (begin_opts ..)
  | set id e => exact h _ (modify_opts ..)
  | get id k => exact h _ (txnGet_opts ..)
  | commit id m => exact h _ (commit_opts ..)
  | discard id => exact h _ (discardTxn_opts ..)
  | iter id o seek =>
    apply h
    simp only [Db.step]
    split
    · split <;> rfl
    · rfl
  | flush id => exact h _ rfl
  | setNow t => exact h _ rfl
  | setDiscard ts => exact h _ (by simp [Db.step])
  | compact cd => apply h; simp only [Db.step]; split <;> rfl
  | dropPrefix n => exact h _ (dropPrefix_fields d n).1
  | dropAll =>
    simp only [Db.step]
    split <;> exact ⟨rfl, rfl⟩

theorem step_nextTs_ge (d : Db) (op : Op) : d.nextTs ≤ (d.step op).nextTs := by
  cases op with
  | begin id u m => exact Nat.le_of_eq (begin_nextTs ..).symm
  | set id e => exact Nat.le_of_eq (modify_nextTs ..).symm
  | get id k => exact Nat.le_of_eq (txnGet_nextTs ..).symm
  | commit id m => exact commit_nextTs_ge ..
  | discard id => exact Nat.le_of_eq (discardTxn_nextTs ..).symm
  | iter id o seek =>
    simp only [Db.step]
    split
    · split <;> exact Nat.le_refl _
    · exact Nat.le_refl _
  | flush id => exact Nat.le_refl _
  | setNow t => exact Nat.le_refl _
  | setDiscard ts => simp [Db.step]
  | compact cd => simp only [Db.step]; split <;> exact Nat.le_refl _
  | dropPrefix n => exact Nat.le_of_eq (dropPrefix_fields d n).2.1.symm
  | dropAll => exact Nat.le_refl _

theorem run_opts (d : Db) (ops : List Op) :
    (d.run ops).opts.managed = d.opts.managed ∧ (d.run ops).opts.inMemory = d.opts.inMemory := by
  induction ops generalizing d with
  | nil => exact ⟨rfl, rfl⟩
  | cons op ops ih =>
    simp only [Db.run, List.foldl_cons] at ih ⊢
    obtain ⟨h1, h2⟩ := ih (d.step op)
    obtain ⟨g1, g2⟩ := step_opts d op
    exact ⟨h1.trans g1, h2.trans g2⟩

theorem run_nextTs_ge (d : Db) (ops : List Op) : d.nextTs ≤ (d.run ops).nextTs := by
  induction ops generalizing d with
  | nil => exact Nat.le_refl _
  | cons op ops ih =>
    simp only [Db.run, List.foldl_cons] at ih ⊢
    exact Nat.le_trans (step_nextTs_ge d op) (ih _)

/-! ## point reads ignore newer puts -/

theorem srcGet_nil (k : Bytes) (ts : Nat) : srcGet [] k ts = none := rfl

theorem srcGet_cons (x : Ent) (xs : List Ent) (k : Bytes) (ts : Nat) :
    srcGet (x :: xs) k ts =
      if kvCmp x.key x.ver k ts = .lt then srcGet xs k ts
      else if x.key = k then some x else none := by
  simp only [srcGet, seekGE]
  by_cases h : kvCmp x.key x.ver k ts = .lt
  · simp [h]
  · have : (kvCmp x.key x.ver k ts == .lt) = false := by simpa using h
    simp [h, this]

/-- a `Put` of a version newer than `ts` does not change `Seek(k@ts)`+`SameKey` on a source. -/
theorem srcGet_memPut_newer (e : Ent) (m : List Ent) (k : Bytes) (ts : Nat) (h : ts < e.ver) :
    srcGet (memPut e m) k ts = srcGet m k ts := by
  -- an entry `≥ (k, ts)` with a version `> ts` has a key strictly above `k`
  have hkey : ∀ x : Ent, ts < x.ver → kvCmp x.key x.ver k ts ≠ .lt → cmpBytes k x.key = .lt := by
    intro x hx hnl
    have h1 : ¬ (cmpBytes x.key k = .lt ∨ (x.key = k ∧ ts < x.ver)) := fun hc => hnl ((kvCmp_lt_iff ..).mpr hc)
    cases hc : cmpBytes x.key k with
    | lt => exact absurd (.inl hc) h1
    | eq => exact absurd (.inr ⟨(cmpBytes_eq_iff _ _).mp hc, hx⟩) h1
    | gt => exact (cmpBytes_gt_iff_lt _ _).mp hc
  have hne : ∀ x : Ent, ts < x.ver → kvCmp x.key x.ver k ts ≠ .lt → x.key ≠ k := by
    intro x hx hnl hh
    have := hkey x hx hnl
    rw [hh, cmpBytes_refl] at this; cases this
  induction m with
  | nil =>
    simp only [memPut, srcGet_cons, srcGet_nil]
    split
    · rfl
    · rename_i hnl
      simp [hne e h hnl]
  | cons x xs ih =>
    unfold memPut
    split
    · rename_i hlt
      rw [srcGet_cons (x := e)]
      split
      · rfl
      · rename_i hnl
        have hk1 := hkey e h hnl
        have hk2 : cmpBytes k x.key = .lt := by
          have := entCmp_lt_key_le hlt
          cases hc : cmpBytes e.key x.key with
          | lt => exact cmpBytes_lt_trans hk1 hc
          | eq => rw [← (cmpBytes_eq_iff _ _).mp hc]; exact hk1
          | gt => exact absurd hc this
        have hnx : x.key ≠ k := fun hh => by rw [hh, cmpBytes_refl] at hk2; cases hk2
        have hxnl : kvCmp x.key x.ver k ts ≠ .lt := by
          have : kvCmp x.key x.ver k ts = .gt :=
            (kvCmp_gt_iff ..).mpr (.inl ((cmpBytes_gt_iff_lt _ _).mpr hk2))
          rw [this]; simp
        rw [srcGet_cons (x := x), if_neg hxnl, if_neg hnx, if_neg (hne e h hnl)]
    · rename_i heq
      obtain ⟨hk', hv'⟩ := (entCmp_eq_iff e x).mp heq
      rw [srcGet_cons (x := e), srcGet_cons (x := x), hk', hv']
      split
      · rfl
      · rename_i hnl
        have hnx := hne x (by omega) hnl
        rw [if_neg hnx, if_neg hnx]
    · rw [srcGet_cons (x := x), srcGet_cons (x := x), ih]

theorem srcGet_foldl_memPut_newer (es m : List Ent) (k : Bytes) (ts : Nat)
    (h : ∀ e ∈ es, ts < e.ver) :
    srcGet (es.foldl (fun m e => memPut e m) m) k ts = srcGet m k ts := by
  induction es generalizing m with
  | nil => rfl
  | cons e es ih =>
    simp only [List.foldl_cons]
    rw [ih _ (fun x hx => h x (List.mem_cons_of_mem _ hx)),
      srcGet_memPut_newer e m k ts (h e (List.mem_cons_self ..))]

theorem get_mem_congr (s : Lsm) (m' : List Ent) (k : Bytes) (ts : Nat)
    (h : srcGet m' k ts = srcGet s.mem k ts) : ({ s with mem := m' } : Lsm).get k ts = s.get k ts := by
  simp [Lsm.get, h]

theorem filter_le_foldl_memPut (es m : List Ent) (ts : Nat) (h : ∀ e ∈ es, ts < e.ver) :
    (es.foldl (fun m e => memPut e m) m).filter (fun x => decide (x.ver ≤ ts)) =
      m.filter (fun x => decide (x.ver ≤ ts)) := by
  induction es generalizing m with
  | nil => rfl
  | cons e es ih =>
    simp only [List.foldl_cons]
    rw [ih _ (fun x hx => h x (List.mem_cons_of_mem _ hx)),
      filter_le_memPut e m ts (h e (List.mem_cons_self ..))]

/-! ## user-level scans (`parseItems`) -/

/-- in non-`AllVersions` mode every yielded item passed the `isDeletedOrExpired` test -/
theorem parseItems_live (o : IterOpts) (readTs now : Nat) (hall : o.allVersions = false) :
    (∀ fuel e rest, ∀ x ∈ parseItems.revFill o readTs now fuel e rest,
        deletedOrExpired x.emeta x.exp now = false) ∧
    (∀ fuel lk l, ∀ x ∈ parseItems o readTs now fuel lk l,
        deletedOrExpired x.emeta x.exp now = false) := by
  have key : ∀ fuel : Nat,
      (∀ e rest, ∀ x ∈ parseItems.revFill o readTs now fuel e rest,
        deletedOrExpired x.emeta x.exp now = false) ∧
      (∀ lk l, ∀ x ∈ parseItems o readTs now fuel lk l,
        deletedOrExpired x.emeta x.exp now = false) := by
    intro fuel
    induction fuel with
    | zero =>
      constructor
      · intro e rest x hx; simp [parseItems.revFill] at hx
      · intro lk l x hx; simp [parseItems] at hx
    | succ f ih =>
      obtain ⟨ih1, ih2⟩ := ih
      constructor
      · intro e rest x hx
        unfold parseItems.revFill at hx
        split at hx
        · exact ih2 _ _ x hx
        · rename_i hlive
          split at hx
          · simp only [List.mem_singleton] at hx; subst hx; simpa using hlive
          · split at hx
            · exact ih1 _ _ x hx
            · simp only [List.mem_cons] at hx
              rcases hx with hx | hx
              · subst hx; simpa using hlive
              · exact ih2 _ _ x hx
      · intro lk l x hx
        cases l with
        | nil => simp [parseItems] at hx
        | cons e rest =>
          rw [parseItems.eq_3] at hx
          simp only [hall, Bool.false_eq_true, if_false] at hx
          split at hx
          · cases hx
          split at hx
          · exact ih2 _ _ x hx
          split at hx
          · exact ih2 _ _ x hx
          split at hx
          · split at hx
            · exact ih2 _ _ x hx
            · split at hx
              · exact ih2 _ _ x hx
              · rename_i hlive
                simp only [List.mem_cons] at hx
                rcases hx with hx | hx
                · subst hx; simpa using hlive
                · exact ih2 _ _ x hx
          · exact ih1 _ _ x hx
  exact ⟨fun fuel => (key fuel).1, fun fuel => (key fuel).2⟩


/-- the pending write `Txn.Get` consults first -/
def pendingHit (t : TxnM) (k : Bytes) : Option Ent :=
  if t.update then t.pending.find? (·.key == k) else none

/-- answer of `Txn.Get` as a function of the transaction record, the clock and `DB.get` -/
def getAnswer (t : TxnM) (k : Bytes) (now : Nat) (snap : Option Ent) : GetRes :=
  if k.isEmpty then .err "err:emptykey"
  else if t.discarded then .err "err:discarded"
  else match pendingHit t k with
    | some e => if deletedOrExpired e.emeta e.exp now then .notfound else .found e t.readTs
    | none => match snap with
      | none => .notfound
      | some e => if deletedOrExpired e.emeta e.exp now then .notfound else .found e e.ver

theorem txnGet_eq {d : Db} {id : Nat} {t : TxnM} (k : Bytes) (h : d.findTxn id = some t) :
    d.txnGet id k =
      (if k.isEmpty || t.discarded || (pendingHit t k).isSome || !t.update then d
       else d.setTxn { t with reads := k :: t.reads },
       getAnswer t k d.now (d.lsm.get k t.readTs)) := by
  unfold Db.txnGet getAnswer pendingHit
  rw [h]
  dsimp -zeta only
  cases hk : k.isEmpty
  · cases hd : t.discarded
    · cases hu : t.update
      · simp only [Bool.false_eq_true, if_false, Bool.or_false, Bool.not_false, Bool.or_true, if_true,
          Option.isSome_none]
        cases d.lsm.get k t.readTs with
        | none => rfl
        | some e => by_cases hx : deletedOrExpired e.emeta e.exp d.now = true <;> simp [hx]
      · simp only [if_true, Bool.false_eq_true, if_false, Bool.or_false, Bool.not_true, Bool.false_or]
        cases hp : t.pending.find? (·.key == k) with
        | some e =>
          simp only [Option.isSome_some, if_true]
          by_cases hx : deletedOrExpired e.emeta e.exp d.now = true <;> simp [hx]
        | none =>
          simp only [Option.isSome_none, Bool.false_eq_true, if_false, setTxn_lsm, setTxn_now]
          cases d.lsm.get k t.readTs with
          | none => rfl
          | some e => by_cases hx : deletedOrExpired e.emeta e.exp d.now = true <;> simp [hx]
    · simp
  · simp

/-- the key `Seek`/`Rewind` positions at: the argument, or the prefix option -/
def seekKeyOf (o : IterOpts) (seek : Option Bytes) : Bytes :=
  match seek with
  | some k => if k.isEmpty then o.prefix_ else k
  | none => o.prefix_

def seekFrom (merged : List Ent) (rev : Bool) (readTs : Nat) (key : Bytes) : List Ent :=
  if key.isEmpty then (if rev then merged.reverse else merged)
  else if !rev then merged.dropWhile (fun e => kvCmp e.key e.ver key readTs == .lt)
  else merged.reverse.dropWhile (fun e => kvCmp e.key e.ver key 0 == .gt)

theorem seekList_eq (merged : List Ent) (o : IterOpts) (readTs : Nat) (seek : Option Bytes) :
    seekList merged o readTs seek = seekFrom merged o.reverse readTs (seekKeyOf o seek) := rfl



/-! ## generic facts on lists sorted by a strict order -/

section Generic
variable {α : Type} {R : α → α → Prop}

/-- two sublists of a duplicate-free sorted list with the same members are equal -/
theorem sublist_ext_of_pairwise (hirr : ∀ a, ¬ R a a) {m l1 l2 : List α} (hm : m.Pairwise R)
    (h1 : l1.Sublist m) (h2 : l2.Sublist m) (h : ∀ x, x ∈ l1 ↔ x ∈ l2) : l1 = l2 := by
  induction m generalizing l1 l2 with
  | nil =>
    rw [List.sublist_nil.mp h1, List.sublist_nil.mp h2]
  | cons a m ih =>
    rw [List.pairwise_cons] at hm
    have ha : a ∉ m := fun hmem => hirr a (hm.1 a hmem)
    have key : ∀ {l : List α}, l.Sublist (a :: m) → (l.Sublist m ∧ a ∉ l) ∨
        (∃ l', l = a :: l' ∧ l'.Sublist m) := by
      intro l hl
      cases hl with
      | cons _ h => exact .inl ⟨h, fun hal => ha (h.subset hal)⟩
      | cons_cons _ h => exact .inr ⟨_, rfl, h⟩
    rcases key h1 with ⟨s1, n1⟩ | ⟨l1', rfl, s1⟩ <;> rcases key h2 with ⟨s2, n2⟩ | ⟨l2', rfl, s2⟩
    · exact ih hm.2 s1 s2 h
    · exact absurd ((h a).mpr (List.mem_cons_self ..)) n1
    · exact absurd ((h a).mp (List.mem_cons_self ..)) n2
    · congr 1
      apply ih hm.2 s1 s2
      intro x
      constructor
      · intro hx
        have := (h x).mp (List.mem_cons_of_mem _ hx)
        rcases List.mem_cons.mp this with rfl | h'
        · exact absurd (s1.subset hx) ha
        · exact h'
      · intro hx
        have := (h x).mpr (List.mem_cons_of_mem _ hx)
        rcases List.mem_cons.mp this with rfl | h'
        · exact absurd (s2.subset hx) ha
        · exact h'

/-- `dropWhile` by a downward-closed predicate on a sorted list keeps exactly the members
    that fail it -/
theorem mem_dropWhile_of_pairwise {m : List α} (hm : m.Pairwise R) (p : α → Bool)
    (hp : ∀ a b, R a b → p b = true → p a = true) (x : α) :
    x ∈ m.dropWhile p ↔ x ∈ m ∧ p x = false := by
  induction m with
  | nil => simp
  | cons a m ih =>
    rw [List.pairwise_cons] at hm
    rw [List.dropWhile_cons]
    by_cases hpa : p a = true
    · simp only [hpa, if_true, ih hm.2, List.mem_cons]
      constructor
      · rintro ⟨h1, h2⟩; exact ⟨.inr h1, h2⟩
      · rintro ⟨h1 | h1, h2⟩
        · subst h1; rw [hpa] at h2; cases h2
        · exact ⟨h1, h2⟩
    · simp only [hpa, Bool.false_eq_true, if_false, List.mem_cons]
      have hpa' : p a = false := by simpa using hpa
      constructor
      · rintro (h1 | h1)
        · subst h1; exact ⟨.inl rfl, hpa'⟩
        · refine ⟨.inr h1, ?_⟩
          cases hx : p x with
          | false => rfl
          | true => rw [hp a x (hm.1 x h1) hx] at hpa'; cases hpa'
      · rintro ⟨h1, _⟩; exact h1

/-- `takeWhile` on a sorted list keeps the members all of whose predecessors (and themselves)
    satisfy the predicate -/
theorem mem_takeWhile_of_pairwise (hirr : ∀ a, ¬ R a a) (htr : ∀ a b c, R a b → R b c → R a c)
    {m : List α} (hm : m.Pairwise R) (q : α → Bool) (x : α) :
    x ∈ m.takeWhile q ↔ x ∈ m ∧ ∀ y ∈ m, (y = x ∨ R y x) → q y = true := by
  induction m with
  | nil => simp
  | cons a m ih =>
    rw [List.pairwise_cons] at hm
    have ha : a ∉ m := fun hmem => hirr a (hm.1 a hmem)
    rw [List.takeWhile_cons]
    by_cases hqa : q a = true
    · simp only [hqa, if_true, List.mem_cons, ih hm.2]
      constructor
      · rintro (h1 | ⟨h1, h2⟩)
        · subst h1
          refine ⟨.inl rfl, ?_⟩
          intro y hy hyx
          rcases hy with rfl | hy
          · exact hqa
          · rcases hyx with rfl | hyx
            · exact absurd hy ha
            · exact absurd (htr _ _ _ hyx (hm.1 y hy)) (hirr y)
        · refine ⟨.inr h1, ?_⟩
          intro y hy hyx
          rcases hy with rfl | hy
          · exact hqa
          · exact h2 y hy hyx
      · rintro ⟨h1 | h1, h2⟩
        · exact .inl h1
        · exact .inr ⟨h1, fun y hy hyx => h2 y (.inr hy) hyx⟩
    · simp only [hqa, Bool.false_eq_true, if_false, List.not_mem_nil, false_iff, List.mem_cons, not_and]
      intro h1 h2
      rcases h1 with rfl | h1
      · exact hqa (h2 x (.inl rfl) (.inl rfl))
      · exact hqa (h2 a (.inl rfl) (.inr (hm.1 x h1)))

end Generic


/-! ## specification of user-level scans -/

/-- the version window of a scan: `ver ≤ readTs`, and `since < ver` when `since > 0` -/
def inWindow (readTs since : Nat) (e : Ent) : Bool :=
  decide (e.ver ≤ readTs) && (since == 0 || decide (since < e.ver))

/-- the newest version of `k` inside the window, over the whole merged stream -/
def newestVisible (merged : List Ent) (readTs since : Nat) (k : Bytes) : Option Ent :=
  newestLE (merged.filter (inWindow readTs since)) k readTs

/-- what a scan yields of an entry: it must be the newest in-window version of its key, and live -/
def yieldable (merged : List Ent) (readTs since now : Nat) (e : Ent) : Bool :=
  decide (newestVisible merged readTs since e.key = some e) && !deletedOrExpired e.emeta e.exp now

/-- forward scan: from the first key `≥ seekKey`, while the keys have the prefix: each key's
    newest in-window version, unless dead — in stream (ascending key) order. -/
def specScanFwd (merged : List Ent) (readTs since now : Nat) (pfx seekKey : Bytes) : List Ent :=
  ((merged.dropWhile (fun e => cmpBytes e.key seekKey == .lt)).takeWhile
    (fun e => pfx.isPrefixOf e.key)).filter (yieldable merged readTs since now)

/-- reverse scan: descending from the last key `≤ seekKey` (an empty seek key = from the end). -/
def specScanRev (merged : List Ent) (readTs since now : Nat) (seekKey : Bytes) : List Ent :=
  (if seekKey.isEmpty then merged.reverse
   else merged.reverse.dropWhile (fun e => cmpBytes e.key seekKey == .gt)).filter
    (yieldable merged readTs since now)

/-- `AllVersions`: every entry of the stream inside the window, in stream order -/
def specAllVersions (stream : List Ent) (readTs since : Nat) : List Ent :=
  stream.filter (inWindow readTs since)

/-- `parseItem`'s version test is the window -/
theorem skip_eq_not_inWindow (o : IterOpts) (readTs : Nat) (e : Ent) :
    (decide (e.ver > readTs) || decide (o.sinceTs > 0) && decide (e.ver ≤ o.sinceTs)) =
      !inWindow readTs o.sinceTs e := by
  unfold inWindow
  have e1 : decide (e.ver ≤ readTs) = !decide (e.ver > readTs) := by
    by_cases h : e.ver ≤ readTs
    · have : ¬ e.ver > readTs := by omega
      simp [h, this]
    · have : e.ver > readTs := by omega
      simp [h, this]
  have e2 : (o.sinceTs == 0) = !decide (o.sinceTs > 0) := by
    by_cases h : o.sinceTs = 0
    · simp [h]
    · have : o.sinceTs > 0 := by omega
      simp [h, this]
  have e3 : decide (o.sinceTs < e.ver) = !decide (e.ver ≤ o.sinceTs) := by
    by_cases h : o.sinceTs < e.ver
    · have : ¬ e.ver ≤ o.sinceTs := by omega
      simp [h, this]
    · have : e.ver ≤ o.sinceTs := by omega
      simp [h, this]
  rw [e1, e2, e3]
  cases decide (e.ver > readTs) <;> cases decide (o.sinceTs > 0) <;> cases decide (e.ver ≤ o.sinceTs) <;> rfl

/-- no entry of the list is hidden as an internal key -/
def NoHidden (o : IterOpts) (l : List Ent) : Prop :=
  o.internalAccess = true ∨ ∀ e ∈ l, badgerPrefix.isPrefixOf e.ikey = false

theorem NoHidden.tail {o : IterOpts} {e : Ent} {l : List Ent} (h : NoHidden o (e :: l)) : NoHidden o l := by
  rcases h with h | h
  · exact .inl h
  · exact .inr (fun x hx => h x (List.mem_cons_of_mem _ hx))

theorem NoHidden.head {o : IterOpts} {e : Ent} {l : List Ent} (h : NoHidden o (e :: l)) :
    (!o.internalAccess && List.isPrefixOf badgerPrefix e.ikey) = false := by
  rcases h with h | h
  · simp [h]
  · simp [h e (List.mem_cons_self ..)]

theorem NoHidden.sublist {o : IterOpts} {l l' : List Ent} (h : NoHidden o l) (hs : l'.Sublist l) :
    NoHidden o l' := by
  rcases h with h | h
  · exact .inl h
  · exact .inr (fun x hx => h x (hs.subset hx))

/-! ### `AllVersions` -/

theorem parseItems_all (o : IterOpts) (readTs now : Nat) (hall : o.allVersions = true)
    (fuel : Nat) (lk : Option Bytes) (l : List Ent) (hf : l.length ≤ fuel) (hn : NoHidden o l) :
    parseItems o readTs now fuel lk l =
      (if o.reverse then l else l.takeWhile (fun e => o.prefix_.isPrefixOf e.key)).filter
        (inWindow readTs o.sinceTs) := by
  induction l generalizing fuel with
  | nil => cases fuel <;> simp [parseItems]
  | cons e rest ih =>
    cases fuel with
    | zero => simp at hf
    | succ f =>
      have hf' : rest.length ≤ f := by simpa using hf
      rw [parseItems.eq_3]
      simp only [hn.head, skip_eq_not_inWindow, hall, Bool.false_eq_true, if_false, if_true]
      have ih' := ih f hf' hn.tail
      cases hr : o.reverse
      · rw [hr] at ih'
        simp only [Bool.not_false, Bool.true_and, Bool.false_eq_true, if_false] at ih' ⊢
        by_cases hp : List.isPrefixOf o.prefix_ e.key = true
        · simp only [hp, Bool.not_true, Bool.and_false, Bool.false_eq_true, if_false,
            List.takeWhile_cons, if_true, List.filter_cons]
          by_cases hw : inWindow readTs o.sinceTs e = true
          · simp only [hw, Bool.not_true, Bool.false_eq_true, if_false, if_true, ih']
          · simp only [hw, Bool.not_false, if_true, ih', Bool.false_eq_true, if_false]
        · have hpe : o.prefix_.isEmpty = false := by
            cases hpp : o.prefix_ with
            | nil => rw [hpp] at hp; simp at hp
            | cons a b => rfl
          simp only [hpe, hp, Bool.not_false, Bool.and_self, if_true, List.takeWhile_cons,
            Bool.false_eq_true, if_false, List.filter_nil]
      · rw [hr] at ih'
        simp only [Bool.not_true, Bool.false_and, Bool.false_eq_true, if_false, if_true] at ih' ⊢
        by_cases hw : inWindow readTs o.sinceTs e = true
        · simp only [hw, Bool.not_true, Bool.false_eq_true, if_false, List.filter_cons, if_true, ih']
        · simp at hw; simp [hw, ih']


/-! ### forward scan -/

/-- the forward `parseItem` loop on a stream that was already cut at the prefix boundary and
    filtered by the window: skip the versions of `lastKey`, take the first entry of every other
    key, yield it if it is live. -/
def fwdCore (now : Nat) : Option Bytes → List Ent → List Ent
  | _, [] => []
  | lk, e :: r =>
    if lk == some e.key then fwdCore now lk r
    else if deletedOrExpired e.emeta e.exp now then fwdCore now (some e.key) r
    else e :: fwdCore now (some e.key) r

theorem parseItems_fwd (o : IterOpts) (readTs now : Nat) (hall : o.allVersions = false)
    (hrev : o.reverse = false) (fuel : Nat) (lk : Option Bytes) (l : List Ent)
    (hf : l.length ≤ fuel) (hn : NoHidden o l) :
    parseItems o readTs now fuel lk l =
      fwdCore now lk ((l.takeWhile (fun e => o.prefix_.isPrefixOf e.key)).filter
        (inWindow readTs o.sinceTs)) := by
  induction l generalizing fuel lk with
  | nil => cases fuel <;> simp [parseItems, fwdCore]
  | cons e rest ih =>
    cases fuel with
    | zero => simp at hf
    | succ f =>
      have hf' : rest.length ≤ f := by simpa using hf
      rw [parseItems.eq_3]
      simp only [hn.head, skip_eq_not_inWindow, hall, hrev, Bool.false_eq_true, if_false, if_true,
        Bool.not_false, Bool.true_and]
      by_cases hp : List.isPrefixOf o.prefix_ e.key = true
      · simp only [hp, Bool.not_true, Bool.and_false, Bool.false_eq_true, if_false,
          List.takeWhile_cons, if_true, List.filter_cons]
        by_cases hw : inWindow readTs o.sinceTs e = true
        · simp only [hw, Bool.not_true, Bool.false_eq_true, if_false, if_true, fwdCore]
          by_cases h1 : (lk == some e.key) = true
          · simp only [h1, if_true]; exact ih f lk hf' hn.tail
          · simp only [h1, Bool.false_eq_true, if_false]
            by_cases h2 : deletedOrExpired e.emeta e.exp now = true
            · simp only [h2, if_true]; exact ih f _ hf' hn.tail
            · simp only [h2, Bool.false_eq_true, if_false]; rw [ih f _ hf' hn.tail]
        · simp only [hw, Bool.not_false, if_true, Bool.false_eq_true, if_false]
          exact ih f lk hf' hn.tail
      · have hpe : o.prefix_.isEmpty = false := by
          cases hpp : o.prefix_ with
          | nil => rw [hpp] at hp; simp at hp
          | cons a b => rfl
        simp only [hpe, hp, Bool.not_false, Bool.and_self, if_true, List.takeWhile_cons,
          Bool.false_eq_true, if_false, List.filter_nil, fwdCore]

/-- on a sorted stream whose keys are all `≥ lastKey`, the loop is a filter: an entry is
    yielded iff its key is not `lastKey`, it is the first entry of its key, and it is live. -/
theorem fwdCore_sorted (now : Nat) (L : List Ent) (hs : SortedEnts L) (lk : Option Bytes)
    (hlk : ∀ k, lk = some k → ∀ e ∈ L, cmpBytes k e.key ≠ .gt) :
    fwdCore now lk L =
      L.filter (fun e => (lk != some e.key) && (L.find? (fun x => x.key == e.key) == some e) &&
        !deletedOrExpired e.emeta e.exp now) := by
  induction L generalizing lk with
  | nil => rfl
  | cons e r ih =>
    have hsr := hs.tail
    -- entries of `r` of the same key as `e` are not first; others look `e` over
    have hfind : ∀ x ∈ r, ((e :: r).find? (fun y => y.key == x.key) == some x) =
        ((x.key != e.key) && (r.find? (fun y => y.key == x.key) == some x)) := by
      intro x hx
      simp only [List.find?_cons]
      by_cases hk : e.key = x.key
      · have hne : e ≠ x := entCmp_lt_ne (hs.head_lt x hx)
        simp [hk, hne]
      · have hk' : (e.key == x.key) = false := by simpa using hk
        have hk2 : (x.key != e.key) = true := by simpa using fun h => hk h.symm
        simp [hk', hk2]
    have hge : ∀ x ∈ r, cmpBytes e.key x.key ≠ .gt := fun x hx => entCmp_lt_key_le (hs.head_lt x hx)
    unfold fwdCore
    by_cases h1 : (lk == some e.key) = true
    · have h1' : lk = some e.key := by simpa using h1
      simp only [h1, if_true]
      rw [ih hsr lk (fun k hk x hx => hlk k hk x (List.mem_cons_of_mem _ hx))]
      simp only [List.filter_cons, h1', bne_self_eq_false, Bool.false_and, Bool.false_eq_true, if_false]
      apply List.filter_congr
      intro x hx
      rw [hfind x hx]
      by_cases hxe : x.key = e.key
      · simp [hxe]
      · have : (x.key != e.key) = true := by simpa using hxe
        simp [this]
    · simp only [h1, Bool.false_eq_true, if_false]
      have h1' : (lk != some e.key) = true := by simpa [bne] using h1
      have hself : ((e :: r).find? (fun y => y.key == e.key) == some e) = true := by simp
      have hrest : fwdCore now (some e.key) r =
          r.filter (fun x => (lk != some x.key) && ((e :: r).find? (fun y => y.key == x.key) == some x) &&
            !deletedOrExpired x.emeta x.exp now) := by
        rw [ih hsr (some e.key) (fun k hk x hx => by cases hk; exact hge x hx)]
        apply List.filter_congr
        intro x hx
        rw [hfind x hx]
        by_cases hxe : x.key = e.key
        · simp [hxe]
        · have h2 : (x.key != e.key) = true := by simpa using hxe
          have h3 : (some e.key != some x.key) = true := by simpa using fun h => hxe h.symm
          have h4 : (lk != some x.key) = true := by
            cases hlkc : lk with
            | none => rfl
            | some k =>
              simp only [bne_iff_ne, ne_eq, Option.some.injEq]
              intro hkx
              have g1 := hlk k hlkc e (List.mem_cons_self ..)
              rw [hkx] at g1
              exact hxe (cmpBytes_antisymm g1 (hge x hx))
          simp [h2, h3, h4]
      by_cases h2 : deletedOrExpired e.emeta e.exp now = true
      · simp only [h2, if_true, List.filter_cons, h1', hself, Bool.true_and, Bool.not_true,
          Bool.false_eq_true, if_false]
        exact hrest
      · simp only [h2, Bool.false_eq_true, if_false, List.filter_cons, h1', hself, Bool.true_and,
          Bool.not_false, if_true]
        rw [hrest]


/-- on a sorted list the first entry of key `k` is the one with the largest version -/
theorem find?_key_sorted_iff {L : List Ent} (hs : SortedEnts L) (k : Bytes) (x : Ent) :
    L.find? (fun y => y.key == k) = some x ↔
      x ∈ L ∧ x.key = k ∧ ∀ y ∈ L, y.key = k → y.ver ≤ x.ver := by
  induction L with
  | nil => simp
  | cons a r ih =>
    rw [List.find?_cons]
    by_cases hk : a.key = k
    · have hk' : (a.key == k) = true := by simpa using hk
      simp only [hk', Option.some.injEq]
      constructor
      · rintro rfl
        refine ⟨List.mem_cons_self .., hk, ?_⟩
        intro y hy hyk
        rcases List.mem_cons.mp hy with rfl | hy
        · exact Nat.le_refl _
        · have := (entCmp_lt_same_key (hk.trans hyk.symm)).mp (hs.head_lt y hy)
          omega
      · rintro ⟨hx, hxk, hmax⟩
        rcases List.mem_cons.mp hx with rfl | hx
        · rfl
        · have h1 := (entCmp_lt_same_key (hk.trans hxk.symm)).mp (hs.head_lt x hx)
          have h2 := hmax a (List.mem_cons_self ..) hk
          omega
    · have hk' : (a.key == k) = false := by simpa using hk
      simp only [hk']
      rw [ih hs.tail]
      constructor
      · rintro ⟨hx, hxk, hmax⟩
        refine ⟨List.mem_cons_of_mem _ hx, hxk, ?_⟩
        intro y hy hyk
        rcases List.mem_cons.mp hy with rfl | hy
        · exact absurd hyk hk
        · exact hmax y hy hyk
      · rintro ⟨hx, hxk, hmax⟩
        rcases List.mem_cons.mp hx with rfl | hx
        · exact absurd hxk hk
        · exact ⟨hx, hxk, fun y hy hyk => hmax y (List.mem_cons_of_mem _ hy) hyk⟩

theorem inWindow_le {readTs since : Nat} {e : Ent} (h : inWindow readTs since e = true) :
    e.ver ≤ readTs := by
  simp only [inWindow, Bool.and_eq_true, decide_eq_true_eq] at h
  exact h.1

/-- same key, inside the window below: a newer version `≤ readTs` is inside the window too -/
theorem inWindow_newer {readTs since : Nat} {e n : Ent} (h : inWindow readTs since e = true)
    (hv : e.ver ≤ n.ver) (hn : n.ver ≤ readTs) : inWindow readTs since n = true := by
  simp only [inWindow, Bool.and_eq_true, decide_eq_true_eq, Bool.or_eq_true, beq_iff_eq] at h ⊢
  refine ⟨hn, ?_⟩
  rcases h.2 with h2 | h2
  · exact .inl h2
  · exact .inr (by omega)

/-- members of the seek-cut of a sorted stream (forward) -/
theorem mem_seekFrom_fwd {merged : List Ent} (hs : SortedEnts merged) (readTs : Nat) (sk : Bytes)
    (x : Ent) :
    x ∈ seekFrom merged false readTs sk ↔
      x ∈ merged ∧ (sk.isEmpty = true ∨ kvCmp x.key x.ver sk readTs ≠ .lt) := by
  unfold seekFrom
  by_cases he : sk.isEmpty = true
  · simp [he]
  · simp only [he, Bool.false_eq_true, if_false, Bool.not_false, if_true, false_or]
    rw [mem_dropWhile_of_pairwise hs]
    · simp
    · intro a b hab hb
      simp only [beq_iff_eq] at hb ⊢
      exact kvCmp_lt_trans hab hb


theorem entCmp_total_mem {m : List Ent} (hs : SortedEnts m) {a b : Ent} (ha : a ∈ m) (hb : b ∈ m) :
    entCmp a b = .lt ∨ a = b ∨ entCmp b a = .lt := by
  rcases entCmp_trichotomy a b with h | ⟨h1, h2⟩ | h
  · exact .inl h
  · exact .inr (.inl (hs.eq_of_key_ver ha hb h1 h2))
  · exact .inr (.inr h)

/-- **forward scan = specification** (list level): on a sorted merged stream, the `parseItem`
    loop over the `Seek` position yields exactly `specScanFwd`. The seek key must have the
    iterator's prefix (always true for `Rewind`, where the seek key *is* the prefix). -/
theorem fwdCore_spec (merged : List Ent) (hs : SortedEnts merged) (readTs since now : Nat)
    (pfx sk : Bytes) (hsk : pfx.isPrefixOf sk = true) :
    fwdCore now none (((seekFrom merged false readTs sk).takeWhile
        (fun e => pfx.isPrefixOf e.key)).filter (inWindow readTs since)) =
      specScanFwd merged readTs since now pfx sk := by
  have hirr : ∀ a : Ent, ¬ entCmp a a = .lt := entCmp_lt_irrefl
  have htr : ∀ a b c : Ent, entCmp a b = .lt → entCmp b c = .lt → entCmp a c = .lt :=
    fun _ _ _ => entCmp_lt_trans
  -- the pieces
  have hcutsub : (seekFrom merged false readTs sk).Sublist merged := by
    unfold seekFrom
    split
    · exact List.Sublist.refl _
    · exact List.dropWhile_sublist _
  have hcut : SortedEnts (seekFrom merged false readTs sk) := hs.sublist hcutsub
  have hXsub : ((seekFrom merged false readTs sk).takeWhile (fun e => pfx.isPrefixOf e.key)).Sublist merged :=
    (List.takeWhile_sublist _).trans hcutsub
  have hLsub : (((seekFrom merged false readTs sk).takeWhile (fun e => pfx.isPrefixOf e.key)).filter
      (inWindow readTs since)).Sublist merged := List.filter_sublist.trans hXsub
  have hL : SortedEnts (((seekFrom merged false readTs sk).takeWhile
      (fun e => pfx.isPrefixOf e.key)).filter (inWindow readTs since)) := hs.sublist hLsub
  have hW : SortedEnts (merged.filter (inWindow readTs since)) := hs.filter _
  have hcut' : SortedEnts (merged.dropWhile (fun e => cmpBytes e.key sk == .lt)) :=
    hs.sublist (List.dropWhile_sublist _)
  rw [fwdCore_sorted now _ hL none (by intro k hk; cases hk)]
  unfold specScanFwd
  apply sublist_ext_of_pairwise hirr hs (List.filter_sublist.trans hLsub)
    (List.filter_sublist.trans ((List.takeWhile_sublist _).trans (List.dropWhile_sublist _)))
  intro x
  -- membership in the cut lists
  have memX : ∀ z, z ∈ (seekFrom merged false readTs sk).takeWhile (fun e => pfx.isPrefixOf e.key) ↔
      (z ∈ merged ∧ (sk.isEmpty = true ∨ kvCmp z.key z.ver sk readTs ≠ .lt)) ∧
      ∀ y, (y ∈ merged ∧ (sk.isEmpty = true ∨ kvCmp y.key y.ver sk readTs ≠ .lt)) →
        (y = z ∨ entCmp y z = .lt) → pfx.isPrefixOf y.key = true := by
    intro z
    rw [mem_takeWhile_of_pairwise hirr htr hcut, mem_seekFrom_fwd hs]
    constructor
    · rintro ⟨h1, h2⟩
      exact ⟨h1, fun y hy => h2 y ((mem_seekFrom_fwd hs readTs sk y).mpr hy)⟩
    · rintro ⟨h1, h2⟩
      exact ⟨h1, fun y hy => h2 y ((mem_seekFrom_fwd hs readTs sk y).mp hy)⟩
  have memX' : ∀ z, z ∈ (merged.dropWhile (fun e => cmpBytes e.key sk == .lt)).takeWhile
        (fun e => pfx.isPrefixOf e.key) ↔
      (z ∈ merged ∧ cmpBytes z.key sk ≠ .lt) ∧
      ∀ y, (y ∈ merged ∧ cmpBytes y.key sk ≠ .lt) → (y = z ∨ entCmp y z = .lt) →
        pfx.isPrefixOf y.key = true := by
    intro z
    have hmd : ∀ y, y ∈ merged.dropWhile (fun e => cmpBytes e.key sk == .lt) ↔
        (y ∈ merged ∧ cmpBytes y.key sk ≠ .lt) := by
      intro y
      rw [mem_dropWhile_of_pairwise hs]
      · simp
      · intro a b hab hb
        simp only [beq_iff_eq] at hb ⊢
        have := entCmp_lt_key_le hab
        cases hc : cmpBytes a.key b.key with
        | lt => exact cmpBytes_lt_trans hc hb
        | eq => rw [(cmpBytes_eq_iff _ _).mp hc]; exact hb
        | gt => exact absurd hc this
    rw [mem_takeWhile_of_pairwise hirr htr hcut', hmd]
    constructor
    · rintro ⟨h1, h2⟩; exact ⟨h1, fun y hy => h2 y ((hmd y).mpr hy)⟩
    · rintro ⟨h1, h2⟩; exact ⟨h1, fun y hy => h2 y ((hmd y).mp hy)⟩
  -- relation between the two cut conditions
  have c2_imp_c1 : ∀ y : Ent, (sk.isEmpty = true ∨ kvCmp y.key y.ver sk readTs ≠ .lt) →
      cmpBytes y.key sk ≠ .lt := by
    intro y h hc
    rcases h with h | h
    · have : sk = [] := by simpa using h
      subst this
      cases hyk : y.key <;> rw [hyk] at hc <;> simp [cmpBytes] at hc
    · exact h ((kvCmp_lt_iff ..).mpr (.inl hc))
  have c1_imp_c2 : ∀ y : Ent, y.ver ≤ readTs → cmpBytes y.key sk ≠ .lt →
      (sk.isEmpty = true ∨ kvCmp y.key y.ver sk readTs ≠ .lt) := by
    intro y hv h
    right
    intro hc
    rcases (kvCmp_lt_iff ..).mp hc with hc | hc
    · exact h hc
    · omega
  have c1_not_c2_pfx : ∀ y : Ent, cmpBytes y.key sk ≠ .lt →
      ¬ (sk.isEmpty = true ∨ kvCmp y.key y.ver sk readTs ≠ .lt) → pfx.isPrefixOf y.key = true := by
    intro y h1 h2
    simp only [not_or, ne_eq, Decidable.not_not] at h2
    rcases (kvCmp_lt_iff ..).mp h2.2 with hc | hc
    · exact absurd hc h1
    · rw [hc.1]; exact hsk
  simp only [List.mem_filter, Bool.and_eq_true, beq_iff_eq, Bool.not_eq_true', bne_iff_ne, ne_eq,
    yieldable, decide_eq_true_eq]
  constructor
  · -- model ⊆ spec
    rintro ⟨⟨hxX, hxw⟩, ⟨-, hfind⟩, hlive⟩
    obtain ⟨⟨hxm, hxc2⟩, hxp⟩ := (memX x).mp hxX
    have hxL : x ∈ ((seekFrom merged false readTs sk).takeWhile (fun e => pfx.isPrefixOf e.key)).filter
        (inWindow readTs since) := List.mem_filter.mpr ⟨hxX, hxw⟩
    obtain ⟨-, -, hmax⟩ := (find?_key_sorted_iff hL x.key x).mp hfind
    refine ⟨(memX' x).mpr ⟨⟨hxm, c2_imp_c1 x hxc2⟩, ?_⟩, ?_, hlive⟩
    · intro y hy hyx
      by_cases hyc : (sk.isEmpty = true ∨ kvCmp y.key y.ver sk readTs ≠ .lt)
      · exact hxp y ⟨hy.1, hyc⟩ hyx
      · exact c1_not_c2_pfx y hy.2 hyc
    · unfold newestVisible
      rw [newestLE_sorted_some_iff hW]
      refine ⟨List.mem_filter.mpr ⟨hxm, hxw⟩, rfl, inWindow_le hxw, ?_⟩
      intro y hy hyk _
      obtain ⟨hym, hyw⟩ := List.mem_filter.mp hy
      apply hmax y _ hyk
      apply List.mem_filter.mpr ⟨?_, hyw⟩
      have hyc2 : (sk.isEmpty = true ∨ kvCmp y.key y.ver sk readTs ≠ .lt) := by
        apply c1_imp_c2 y (inWindow_le hyw)
        rw [hyk]; exact c2_imp_c1 x hxc2
      rw [memX]
      refine ⟨⟨hym, hyc2⟩, ?_⟩
      intro z hz hzy
      have hxpfx : pfx.isPrefixOf x.key = true := hxp x ⟨hxm, hxc2⟩ (.inl rfl)
      rcases entCmp_total_mem hs hz.1 hxm with h | h | h
      · exact hxp z hz (.inr h)
      · exact hxp z hz (.inl h)
      · -- x < z ≤ y, same key as x
        have hzk : z.key = x.key := by
          rcases hzy with rfl | hzy
          · exact hyk
          · exact entCmp_key_squeeze h hzy hyk.symm
        rw [hzk]; exact hxpfx
  · -- spec ⊆ model
    rintro ⟨hxX', hnew, hlive⟩
    obtain ⟨⟨hxm, hxc1⟩, hxp⟩ := (memX' x).mp hxX'
    unfold newestVisible at hnew
    obtain ⟨hxW, -, hxv, hmax⟩ := (newestLE_sorted_some_iff hW).mp hnew
    have hxw : inWindow readTs since x = true := (List.mem_filter.mp hxW).2
    have hxc2 := c1_imp_c2 x hxv hxc1
    have hxX : x ∈ (seekFrom merged false readTs sk).takeWhile (fun e => pfx.isPrefixOf e.key) := by
      rw [memX]
      exact ⟨⟨hxm, hxc2⟩, fun y hy hyx => hxp y ⟨hy.1, c2_imp_c1 y hy.2⟩ hyx⟩
    refine ⟨⟨hxX, hxw⟩, ⟨by simp, ?_⟩, hlive⟩
    rw [find?_key_sorted_iff hL]
    refine ⟨List.mem_filter.mpr ⟨hxX, hxw⟩, rfl, ?_⟩
    intro y hy hyk
    obtain ⟨hyX, hyw⟩ := List.mem_filter.mp hy
    exact hmax y (List.mem_filter.mpr ⟨hXsub.subset hyX, hyw⟩) hyk (inWindow_le hyw)


/-! ### reverse scan -/

/-- descending order of the reversed stream -/
def SortedDesc (l : List Ent) : Prop := l.Pairwise (fun a b => entCmp b a = .lt)

theorem sortedDesc_reverse {l : List Ent} (h : SortedEnts l) : SortedDesc l.reverse := by
  unfold SortedDesc
  rw [List.pairwise_reverse]
  exact h

theorem SortedDesc.sublist {l l' : List Ent} (h : SortedDesc l) (hs : l'.Sublist l) : SortedDesc l' :=
  List.Pairwise.sublist hs h

theorem SortedDesc.tail {e : Ent} {l : List Ent} (h : SortedDesc (e :: l)) : SortedDesc l :=
  (List.pairwise_cons.mp h).2

theorem SortedDesc.head_gt {e : Ent} {l : List Ent} (h : SortedDesc (e :: l)) :
    ∀ x ∈ l, entCmp x e = .lt := (List.pairwise_cons.mp h).1

/-- the reverse `parseItem`/FILL loop as a position-based filter: an entry of the descending
    stream is yielded iff it is inside the window, live, and no later (= newer) entry of the same
    key has a version `≤ readTs`. -/
def revCore (readTs since now : Nat) : List Ent → List Ent
  | [] => []
  | e :: r =>
    if inWindow readTs since e && !deletedOrExpired e.emeta e.exp now &&
        !(r.any (fun n => n.key == e.key && decide (n.ver ≤ readTs))) then e :: revCore readTs since now r
    else revCore readTs since now r

theorem parseItems_rev (o : IterOpts) (readTs now : Nat) (hall : o.allVersions = false)
    (hrev : o.reverse = true) (fuel : Nat) :
    (∀ e rest, SortedDesc (e :: rest) → NoHidden o (e :: rest) → inWindow readTs o.sinceTs e = true →
        2 * rest.length + 2 ≤ fuel →
        parseItems.revFill o readTs now fuel e rest = revCore readTs o.sinceTs now (e :: rest)) ∧
    (∀ lk l, SortedDesc l → NoHidden o l → 2 * l.length + 1 ≤ fuel →
        parseItems o readTs now fuel lk l = revCore readTs o.sinceTs now l) := by
  induction fuel with
  | zero =>
    constructor
    · intro e rest _ _ _ hf; omega
    · intro lk l _ _ hf
      have : l = [] := by cases l <;> simp at hf ⊢
      subst this; rfl
  | succ f ih =>
    obtain ⟨ih1, ih2⟩ := ih
    constructor
    · intro e rest hs hn hw hf
      cases rest with
      | nil =>
        rw [parseItems.revFill.eq_2]
        by_cases hx : deletedOrExpired e.emeta e.exp now = true
        · simp only [hx, if_true, revCore, Bool.not_true, Bool.and_false, Bool.false_and,
            Bool.false_eq_true, if_false]
          cases f <;> simp [parseItems]
        · have hx' : deletedOrExpired e.emeta e.exp now = false := by simpa using hx
          simp [hx', revCore, hw]
      | cons n rest' =>
        unfold parseItems.revFill
        have hne : entCmp n e = .lt := hs.head_gt n (List.mem_cons_self ..)
        by_cases hx : deletedOrExpired e.emeta e.exp now = true
        · simp only [hx, if_true]
          rw [ih2 none (n :: rest') hs.tail hn.tail (by simp at hf ⊢; omega)]
          simp [revCore, hx]
        · have hx' : deletedOrExpired e.emeta e.exp now = false := by simpa using hx
          simp only [hx', Bool.false_eq_true, if_false]
          by_cases hc : (decide (n.ver ≤ readTs) && n.key == e.key) = true
          · simp only [hc, if_true]
            have hc' : n.ver ≤ readTs ∧ n.key = e.key := by simpa using hc
            have hnv : e.ver < n.ver := (entCmp_lt_same_key hc'.2).mp hne
            have hwn : inWindow readTs o.sinceTs n = true := inWindow_newer hw (by omega) hc'.1
            rw [ih1 n rest' hs.tail hn.tail hwn (by simp at hf ⊢; omega)]
            have hany : ((n :: rest').any (fun m => m.key == e.key && decide (m.ver ≤ readTs))) = true := by
              simp [hc'.1, hc'.2]
            conv => rhs; unfold revCore
            simp only [hany, Bool.not_true, Bool.and_false, Bool.false_eq_true, if_false]
          · simp only [hc, Bool.false_eq_true, if_false]
            rw [ih2 none (n :: rest') hs.tail hn.tail (by simp at hf ⊢; omega)]
            have hany : ((n :: rest').any (fun m => m.key == e.key && decide (m.ver ≤ readTs))) = false := by
              rw [List.any_eq_false]
              intro m hm hmc
              simp only [Bool.and_eq_true, beq_iff_eq, decide_eq_true_eq] at hmc
              rcases List.mem_cons.mp hm with rfl | hm'
              · apply hc; simp [hmc.1, hmc.2]
              · have hmn : entCmp m n = .lt := hs.tail.head_gt m hm'
                have hnk : n.key = m.key := entCmp_key_squeeze hmn hne hmc.1
                have hmv : n.ver < m.ver := (entCmp_lt_same_key hnk.symm).mp hmn
                apply hc
                simp only [Bool.and_eq_true, decide_eq_true_eq, beq_iff_eq]
                exact ⟨by omega, hnk.trans hmc.1⟩
            conv => rhs; unfold revCore
            simp only [hw, hx', hany, Bool.not_false, Bool.and_self, if_true]
    · intro lk l hs hn hf
      cases l with
      | nil => simp [parseItems, revCore]
      | cons e rest =>
        rw [parseItems.eq_3]
        simp only [hn.head, skip_eq_not_inWindow, hall, hrev, Bool.false_eq_true, if_false,
          Bool.not_true, Bool.false_and]
        by_cases hw : inWindow readTs o.sinceTs e = true
        · simp only [hw, Bool.not_true, Bool.false_eq_true, if_false]
          exact ih1 e rest hs hn hw (by simp at hf ⊢; omega)
        · simp only [hw, Bool.not_false, if_true]
          rw [ih2 lk rest hs.tail hn.tail (by simp at hf ⊢; omega)]
          have hw' : inWindow readTs o.sinceTs e = false := by simpa using hw
          simp [revCore, hw']


theorem seekFrom_rev_eq (merged : List Ent) (readTs : Nat) (sk : Bytes) :
    seekFrom merged true readTs sk =
      (if sk.isEmpty then merged.reverse
       else merged.reverse.dropWhile (fun e => cmpBytes e.key sk == .gt)) := by
  unfold seekFrom
  have : (fun e : Ent => kvCmp e.key e.ver sk 0 == Ordering.gt) =
      (fun e : Ent => cmpBytes e.key sk == Ordering.gt) := by
    funext e
    have h := kvCmp_gt_iff e.key e.ver sk 0
    simp only [Nat.not_lt_zero, and_false, or_false] at h
    cases h1 : kvCmp e.key e.ver sk 0 <;> cases h2 : cmpBytes e.key sk <;> simp_all
  simp only [Bool.not_true, Bool.false_eq_true, if_false, this, if_true]

/-- **reverse scan = specification** (list level). -/
theorem revCore_spec (merged : List Ent) (hs : SortedEnts merged) (readTs since now : Nat) (sk : Bytes) :
    revCore readTs since now (seekFrom merged true readTs sk) = specScanRev merged readTs since now sk := by
  rw [seekFrom_rev_eq]
  unfold specScanRev
  generalize hR : (if sk.isEmpty then merged.reverse
       else merged.reverse.dropWhile (fun e => cmpBytes e.key sk == .gt)) = R
  have hdesc : SortedDesc merged.reverse := sortedDesc_reverse hs
  have hRsub : R.Sublist merged.reverse := by
    rw [← hR]; split
    · exact List.Sublist.refl _
    · exact List.dropWhile_sublist _
  have hRd : SortedDesc R := hdesc.sublist hRsub
  have hRm : ∀ x ∈ R, x ∈ merged := fun x hx => List.mem_reverse.mp (hRsub.subset hx)
  -- `R` is closed under "same key"
  have hclosed : ∀ x ∈ R, ∀ y ∈ merged, y.key = x.key → y ∈ R := by
    intro x hx y hy hk
    rw [← hR] at hx ⊢
    by_cases he : sk.isEmpty = true
    · simp only [he, if_true]; exact List.mem_reverse.mpr hy
    · simp only [he, Bool.false_eq_true, if_false] at hx ⊢
      have hp : ∀ a b : Ent, entCmp b a = .lt → (cmpBytes b.key sk == .gt) = true →
          (cmpBytes a.key sk == .gt) = true := by
        intro a b hab hb
        simp only [beq_iff_eq] at hb ⊢
        have h1 := entCmp_lt_key_le hab
        rw [cmpBytes_gt_iff_lt] at hb ⊢
        cases hc : cmpBytes b.key a.key with
        | lt => exact cmpBytes_lt_trans hb hc
        | eq => rw [← (cmpBytes_eq_iff _ _).mp hc]; exact hb
        | gt => exact absurd hc h1
      rw [mem_dropWhile_of_pairwise hdesc _ hp] at hx ⊢
      exact ⟨List.mem_reverse.mpr hy, by rw [hk]; exact hx.2⟩
  have hW : SortedEnts (merged.filter (inWindow readTs since)) := hs.filter _
  have key : ∀ suf pre, R = pre ++ suf →
      revCore readTs since now suf = suf.filter (yieldable merged readTs since now) := by
    intro suf
    induction suf with
    | nil => intro pre _; rfl
    | cons e r ih =>
      intro pre hpre
      have ihr := ih (pre ++ [e]) (by rw [hpre]; simp)
      have heR : e ∈ R := by rw [hpre]; simp
      have hpw := hRd
      rw [hpre, SortedDesc, List.pairwise_append] at hpw
      obtain ⟨-, hpw2, hpw3⟩ := hpw
      have hr_lt : ∀ n ∈ r, entCmp n e = .lt := (List.pairwise_cons.mp hpw2).1
      have hpre_gt : ∀ y ∈ pre, entCmp e y = .lt := fun y hy => hpw3 y hy e (List.mem_cons_self ..)
      have hequiv : (inWindow readTs since e && !deletedOrExpired e.emeta e.exp now &&
          !(r.any (fun n => n.key == e.key && decide (n.ver ≤ readTs)))) =
          yieldable merged readTs since now e := by
        rw [Bool.eq_iff_iff]
        simp only [yieldable, Bool.and_eq_true, Bool.not_eq_true', decide_eq_true_eq, List.any_eq_false,
          beq_iff_eq, not_and]
        unfold newestVisible
        rw [newestLE_sorted_some_iff hW]
        constructor
        · rintro ⟨⟨hw, hlive⟩, hno⟩
          refine ⟨⟨List.mem_filter.mpr ⟨hRm e heR, hw⟩, rfl, inWindow_le hw, ?_⟩, hlive⟩
          intro y hy hyk hyv
          obtain ⟨hym, -⟩ := List.mem_filter.mp hy
          have hyR := hclosed e heR y hym hyk
          rw [hpre] at hyR
          rcases List.mem_append.mp hyR with h | h
          · have := (entCmp_lt_same_key hyk.symm).mp (hpre_gt y h)
            omega
          · rcases List.mem_cons.mp h with rfl | h
            · exact Nat.le_refl _
            · exact absurd hyv (hno y h hyk)
        · rintro ⟨⟨heW, -, hev, hmax⟩, hlive⟩
          have hw : inWindow readTs since e = true := (List.mem_filter.mp heW).2
          refine ⟨⟨hw, hlive⟩, ?_⟩
          intro n hn hnk hnv
          have hlt : e.ver < n.ver := (entCmp_lt_same_key hnk).mp (hr_lt n hn)
          have hnW : n ∈ merged.filter (inWindow readTs since) :=
            List.mem_filter.mpr ⟨hRm n (by rw [hpre]; simp [hn]), inWindow_newer hw (by omega) hnv⟩
          have := hmax n hnW hnk hnv
          omega
      unfold revCore
      rw [hequiv, ihr, List.filter_cons]
  exact key R [] rfl


/-- keys with a given prefix form an interval of the byte order -/
theorem prefix_convex (p a b c : Bytes) (ha : p.isPrefixOf a = true) (hc : p.isPrefixOf c = true)
    (hab : cmpBytes a b ≠ .gt) (hbc : cmpBytes b c ≠ .gt) : p.isPrefixOf b = true := by
  induction p generalizing a b c with
  | nil => simp
  | cons x xs ih =>
    cases a with
    | nil => simp at ha
    | cons a0 as =>
      cases c with
      | nil => simp at hc
      | cons c0 cs =>
        simp only [List.isPrefixOf_cons_cons, Bool.and_eq_true, beq_iff_eq] at ha hc
        obtain ⟨ha0, ha⟩ := ha
        obtain ⟨hc0, hc⟩ := hc
        subst ha0; subst hc0
        cases b with
        | nil => simp [cmpBytes] at hab
        | cons b0 bs =>
          simp only [cmpBytes] at hab hbc
          have h1 : ¬ b0.toNat < x.toNat := by
            intro h; rw [if_neg (by omega), if_pos h] at hab; exact hab rfl
          have h2 : ¬ x.toNat < b0.toNat := by
            intro h; rw [if_neg (by omega), if_pos h] at hbc; exact hbc rfl
          have hb0 : b0 = x := UInt8.toNat_inj.mp (by omega)
          subst hb0
          simp only [Nat.lt_irrefl, if_false] at hab hbc
          simp only [List.isPrefixOf_cons_cons, beq_self_eq_true, Bool.true_and]
          exact ih as bs cs ha hc hab hbc

/-- members of the forward specification -/
theorem mem_specScanFwd {merged : List Ent} (hs : SortedEnts merged) (readTs since now : Nat)
    (pfx sk : Bytes) (x : Ent) :
    x ∈ specScanFwd merged readTs since now pfx sk ↔
      x ∈ merged ∧ cmpBytes x.key sk ≠ .lt ∧
      (∀ y ∈ merged, cmpBytes y.key sk ≠ .lt → (y = x ∨ entCmp y x = .lt) → pfx.isPrefixOf y.key = true) ∧
      newestVisible merged readTs since x.key = some x ∧ deletedOrExpired x.emeta x.exp now = false := by
  have hirr : ∀ a : Ent, ¬ entCmp a a = .lt := entCmp_lt_irrefl
  have htr : ∀ a b c : Ent, entCmp a b = .lt → entCmp b c = .lt → entCmp a c = .lt :=
    fun _ _ _ => entCmp_lt_trans
  have hcut' : SortedEnts (merged.dropWhile (fun e => cmpBytes e.key sk == .lt)) :=
    hs.sublist (List.dropWhile_sublist _)
  have hmd : ∀ y, y ∈ merged.dropWhile (fun e => cmpBytes e.key sk == .lt) ↔
      (y ∈ merged ∧ cmpBytes y.key sk ≠ .lt) := by
    intro y
    rw [mem_dropWhile_of_pairwise hs]
    · simp
    · intro a b hab hb
      simp only [beq_iff_eq] at hb ⊢
      have := entCmp_lt_key_le hab
      cases hc : cmpBytes a.key b.key with
      | lt => exact cmpBytes_lt_trans hc hb
      | eq => rw [(cmpBytes_eq_iff _ _).mp hc]; exact hb
      | gt => exact absurd hc this
  unfold specScanFwd
  simp only [List.mem_filter, yieldable, Bool.and_eq_true, decide_eq_true_eq, Bool.not_eq_true']
  rw [mem_takeWhile_of_pairwise hirr htr hcut', hmd]
  constructor
  · rintro ⟨⟨⟨h1, h2⟩, h3⟩, h4, h5⟩
    exact ⟨h1, h2, fun y hy hyc => h3 y ((hmd y).mpr ⟨hy, hyc⟩), h4, h5⟩
  · rintro ⟨h1, h2, h3, h4, h5⟩
    exact ⟨⟨⟨h1, h2⟩, fun y hy => h3 y ((hmd y).mp hy).1 ((hmd y).mp hy).2⟩, h4, h5⟩

/-- members of the reverse specification -/
theorem mem_specScanRev {merged : List Ent} (hs : SortedEnts merged) (readTs since now : Nat)
    (sk : Bytes) (x : Ent) :
    x ∈ specScanRev merged readTs since now sk ↔
      x ∈ merged ∧ (sk.isEmpty = true ∨ cmpBytes x.key sk ≠ .gt) ∧
      newestVisible merged readTs since x.key = some x ∧ deletedOrExpired x.emeta x.exp now = false := by
  unfold specScanRev
  simp only [List.mem_filter, yieldable, Bool.and_eq_true, decide_eq_true_eq, Bool.not_eq_true']
  by_cases he : sk.isEmpty = true
  · simp only [he, if_true, List.mem_reverse, true_or, true_and]
  · simp only [he, Bool.false_eq_true, if_false, false_or]
    have hdesc : SortedDesc merged.reverse := sortedDesc_reverse hs
    have hp : ∀ a b : Ent, entCmp b a = .lt → (cmpBytes b.key sk == .gt) = true →
        (cmpBytes a.key sk == .gt) = true := by
      intro a b hab hb
      simp only [beq_iff_eq] at hb ⊢
      have h1 := entCmp_lt_key_le hab
      rw [cmpBytes_gt_iff_lt] at hb ⊢
      cases hc : cmpBytes b.key a.key with
      | lt => exact cmpBytes_lt_trans hb hc
      | eq => rw [← (cmpBytes_eq_iff _ _).mp hc]; exact hb
      | gt => exact absurd hc h1
    rw [mem_dropWhile_of_pairwise hdesc _ hp]
    simp only [List.mem_reverse, beq_eq_false_iff_ne, ne_eq, and_assoc]

/-- two yieldable entries of the same key are the same entry -/
theorem yieldable_key_inj {merged : List Ent} {readTs since now : Nat} {a b : Ent}
    (ha : yieldable merged readTs since now a = true) (hb : yieldable merged readTs since now b = true)
    (hk : a.key = b.key) : a = b := by
  simp only [yieldable, Bool.and_eq_true, decide_eq_true_eq] at ha hb
  have := ha.1
  rw [hk, hb.1] at this
  exact (Option.some.inj this).symm

end Badger
