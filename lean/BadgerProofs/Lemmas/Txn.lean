import BadgerModel.Mvcc
import BadgerModel.Spec.Mvcc
/-!
# Frame lemmas for the transaction layer (`Db.findTxn/setTxn/modify/doneRead/discardTxn`)
and the specification of user-level scans used by C05.
-/
namespace Badger

/-! ## `findTxn` / `setTxn` -/

theorem findTxn_id {d : Db} {id : Nat} {t : TxnM} (h : d.findTxn id = some t) : t.id = id := by
  have := List.find?_some h
  simpa using this

@[simp] theorem setTxn_lsm (d : Db) (t : TxnM) : (d.setTxn t).lsm = d.lsm := rfl
@[simp] theorem setTxn_opts (d : Db) (t : TxnM) : (d.setTxn t).opts = d.opts := rfl
@[simp] theorem setTxn_nextTs (d : Db) (t : TxnM) : (d.setTxn t).nextTs = d.nextTs := rfl
@[simp] theorem setTxn_committed (d : Db) (t : TxnM) : (d.setTxn t).committed = d.committed := rfl
@[simp] theorem setTxn_readMark (d : Db) (t : TxnM) : (d.setTxn t).readMark = d.readMark := rfl
@[simp] theorem setTxn_discardTs (d : Db) (t : TxnM) : (d.setTxn t).discardTs = d.discardTs := rfl
@[simp] theorem setTxn_lastCleanupTs (d : Db) (t : TxnM) :
    (d.setTxn t).lastCleanupTs = d.lastCleanupTs := rfl
@[simp] theorem setTxn_now (d : Db) (t : TxnM) : (d.setTxn t).now = d.now := rfl

@[simp] theorem findTxn_setTxn_self (d : Db) (t : TxnM) : (d.setTxn t).findTxn t.id = some t := by
  simp [Db.setTxn, Db.findTxn]

theorem findTxn_setTxn_ne (d : Db) (t : TxnM) (id' : Nat) (h : id' ≠ t.id) :
    (d.setTxn t).findTxn id' = d.findTxn id' := by
  have h1 : (t.id == id') = false := by simpa using fun h' => h h'.symm
  simp only [Db.setTxn, Db.findTxn, List.find?_cons, h1]
  generalize d.txns = l
  induction l with
  | nil => rfl
  | cons x xs ih =>
    by_cases hx : x.id = t.id
    · have h2 : (x.id == id') = false := by simpa [hx] using fun h' => h h'.symm
      simp [List.filter_cons, hx, h2, ih]
    · by_cases h3 : x.id = id'
      · simp [List.filter_cons, hx, h3]
      · simp [List.filter_cons, hx, h3, ih]

/-! ## shape of `modify` -/

/-- the transaction record after an accepted `modify` -/
def modTxn (d : Db) (t : TxnM) (e : Ent) : TxnM :=
  { t with
    count := t.count + 1
    size := t.size + estimateSize d.opts.threshold e + 10
    dups := (match t.pending.find? (·.key == e.key) with
      | some o => if o.ver != e.ver then t.dups ++ [o] else t.dups
      | none => t.dups)
    pending := (t.pending.filter (·.key != e.key)) ++ [e]
    writes := if d.opts.detectConflicts then e.key :: t.writes else t.writes }

/-- the first validation failure of `modify` on an existing transaction, `none` if accepted. -/
def modCheck (d : Db) (t : TxnM) (e : Ent) : Option ModErr :=
  if !t.update then some .readonly
  else if t.discarded then some .discarded
  else if e.key.isEmpty then some .emptykey
  else if badgerPrefix.isPrefixOf e.key then some .invalidkey
  else if e.key.length > 65000 then some .keytoobig
  else if e.val.length > d.opts.vlogFileSize then some .valtoobig
  else if d.opts.inMemory && e.val.length > d.opts.threshold then some .valtoobig
  else if t.count + 1 ≥ d.opts.maxBatchCount ||
      t.size + estimateSize d.opts.threshold e + 10 ≥ d.opts.maxBatchSize then some .txntoobig
  else none

theorem modify_none {d : Db} {id : Nat} (e : Ent) (h : d.findTxn id = none) :
    d.modify id e = (d, some .discarded) := by
  simp [Db.modify, h]

/-- `modify` = validation (`modCheck`), then either nothing or `setTxn (modTxn …)`. -/
theorem modify_eq {d : Db} {id : Nat} {t : TxnM} (e : Ent) (h : d.findTxn id = some t) :
    d.modify id e =
      (match modCheck d t e with
       | some err => (d, some err)
       | none => (d.setTxn (modTxn d t e), none)) := by
  unfold Db.modify modCheck
  simp only [h]
  repeat' split
  all_goals first | rfl | simp_all [modTxn]

theorem modify_shape {d : Db} {id : Nat} {t : TxnM} (e : Ent) (h : d.findTxn id = some t) :
    (d.modify id e).1 = d ∨ ∃ t', t'.id = id ∧ (d.modify id e).1 = d.setTxn t' := by
  rw [modify_eq e h]
  cases modCheck d t e with
  | some err => exact .inl rfl
  | none => exact .inr ⟨modTxn d t e, findTxn_id h, rfl⟩

end Badger
