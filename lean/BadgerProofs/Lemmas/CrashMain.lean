import BadgerProofs.Lemmas.CrashStep4
/-!
# From the invariant to the crash theorems: the freshly opened database satisfies `Inv`, every
# history preserves it, and an image satisfying it is recovered to the logical state.
-/
namespace Badger

theorem firstOpenOps_eq : firstOpenOps =
    [.create .manifestRewrite, .append .manifestRewrite .mhdr, .sync .manifestRewrite,
     .rename .manifestRewrite .manifest, .syncDir,
     .create .keyRegistryRewrite, .append .keyRegistryRewrite .kreg,
     .rename .keyRegistryRewrite .keyRegistry, .syncDir,
     .create (.mem 1), .extend (.mem 1), .append (.mem 1) .hdr, .zero (.mem 1), .syncDir, .syncDir,
     .create (.vlog 1), .extend (.vlog 1), .append (.vlog 1) .hdr, .zero (.vlog 1), .syncDir] := by
  decide

/-- the kill view of the directory after the first `Open` -/
def F0 : KFs := fun q =>
  match q with
  | .manifest => some { chunks := [.mhdr], size := .tight }
  | .keyRegistry => some { chunks := [.kreg], size := .tight }
  | .mem n => if n = 1 then some { chunks := [.hdr], size := .alloc } else none
  | .vlog n => if n = 1 then some { chunks := [.hdr], size := .alloc } else none
  | _ => none

theorem krun_firstOpen : krun (fun _ => none) firstOpenOps = F0 := by
  rw [firstOpenOps_eq]
  funext q
  cases q with
  | mem n => by_cases h : n = 1 <;> simp [krun, kstep, F0, h, appendChunk]
  | vlog n => by_cases h : n = 1 <;> simp [krun, kstep, F0, h, appendChunk]
  | sst n => simp [krun, kstep, F0]
  | manifest => simp [krun, kstep, F0, appendChunk]
  | manifestRewrite => simp [krun, kstep, F0]
  | keyRegistry => simp [krun, kstep, F0, appendChunk]
  | keyRegistryRewrite => simp [krun, kstep, F0]

theorem Inv_init (R : ViewRel) (c : Cfg) : Inv R { cfg := c } F0 where
  logic := ⟨by simp [PState.lsmEnts, txnsEnts, PState.memEnts, PState.memTxns, aget]; exact R.refl _,
            Nat.le_refl _, Nat.le_refl _, rfl⟩
  manifest := ⟨[], .tight, rfl, rfl⟩
  mem := {
    memNZ := by
      intro n f hf
      simp only [memView, F0] at hf
      by_cases h : n = 1
      · simp [h] at hf; subst hf; simp
      · simp [h] at hf
    memKnown := by
      intro n hn
      simp only [memView, F0] at hn
      by_cases h : n = 1
      · exact Or.inr ⟨rfl, h⟩
      · simp [h] at hn
    immFiles := by intro k hk; simp at hk
    curFile := by
      intro _
      exact ⟨{ chunks := [.hdr], size := .alloc }, by simp [memView, F0], by simp [walChunks, aget, txnsChunks, PState.pts]⟩
    curTxns := by intro t ht; simp [aget] at ht
    noHdr := by intro h; cases h
    memFresh := by
      intro n hn
      have : n ≠ 1 := by have : (2 : Nat) ≤ n := hn; omega
      simp [memView, F0, this, aget]
    curLt := by show (1 : Nat) < 2; omega
    immLt := by intro k hk; simp at hk
    curNotImm := by intro _ hk; simp at hk
    immNodup := List.nodup_nil }
  sst := {
    tables := by intro x hx; simp at hx
    sstFresh := by intro n _; simp [sstView, F0, aget]
    idle := by intro _; rfl
    fsstLt := by intro h; exact absurd rfl h
    flush1 := by intro h; exact absurd rfl h
    flush2 := by intro k hk; simp at hk
    flush5 := by intro k hk; simp at hk
    koutLt := by intro o ho; simp at ho
    koutNodup := List.nodup_nil
    koutFiles := by intro o ho; simp at ho
    kview := by intro h; exact absurd rfl h
    kinsIn := by intro id hid; simp at hid }
  vlogNZ := by
    intro n f hf
    simp only [F0] at hf
    by_cases h : n = 1
    · simp [h] at hf; subst hf; simp
    · simp [h] at hf

theorem SchedHistOk_cons (R : ViewRel) (p : PState) (x : Sched) (h : List Sched) :
    SchedHistOk R p (x :: h) ↔ StepOk R p x ∧ SchedHistOk R (p.step x).2 h := by
  cases x <;> simp [SchedHistOk, StepOk]

/-- every history keeps the file system well formed and the invariant true -/
theorem exec_inv (R : ViewRel) (m : MState) (h : List Sched) (hwf : m.fs.WF) (hinv : Inv R m.p m.fs.file)
    (hok : SchedHistOk R m.p h) : (m.exec h).fs.WF ∧ Inv R (m.exec h).p (m.exec h).fs.file := by
  induction h generalizing m with
  | nil => exact ⟨hwf, hinv⟩
  | cons x h ih =>
    rw [SchedHistOk_cons] at hok
    have hs := Fs.run_spec m.fs hwf (m.p.step x).1
    have hi := Inv_step R m.p m.fs.file hinv x hok.1
    show ((m.step x).exec h).fs.WF ∧ _
    apply ih (m.step x)
    · exact hs.1
    · show Inv R (m.p.step x).2 (m.fs.run (m.p.step x).1).file
      rw [hs.2]; exact hi
    · exact hok.2

theorem init_inv (R : ViewRel) (c : Cfg) : (MState.init c).fs.WF ∧ Inv R (MState.init c).p (MState.init c).fs.file := by
  have hs := Fs.run_spec {} Fs.WF_empty firstOpenOps
  refine ⟨hs.1, ?_⟩
  show Inv R { cfg := c } (Fs.run {} firstOpenOps).file
  rw [hs.2]
  have : Fs.file ({} : Fs) = fun _ => none := by funext p; simp [Fs.file, aget]
  rw [this, krun_firstOpen]
  exact Inv_init R c

/-- an image that satisfies the invariant is opened successfully, and what `Open` finds reads
    like the logical state -/
theorem recover_of_inv (R : ViewRel) (s : PState) (fs : Fs) (h : Inv R s fs.file) :
    ∃ r, recover false (crashKill fs) = .ok r ∧ (∀ e, e ∈ r.entries ↔ e ∈ s.lsmEnts) ∧
      r.nextTxnTs = max (maxVer (r.imms.map (·.2)).flatten) (maxVer (r.tables.map (·.ents)).flatten) + 1 := by
    have hfile : Image.file (crashKill fs) = fs.file := by funext p; exact crashKill_file fs p
    obtain ⟨r, hr, ht, hi, hn⟩ := recoverF_ok fs.file (crashKill fs).bound s.tset s.tableEnts h.manifest
      h.sst.tables h.mem.memNZ h.vlogNZ
    refine ⟨r, ?_, ?_, hn⟩
    · unfold recover; rw [hfile]; exact hr
    · intro e
      unfold RState.entries PState.lsmEnts
      simp only [List.mem_append]
      rw [hi, ht]
      have hmem : (∃ n f, n < (crashKill fs).bound ∧ fs.file (.mem n) = some f ∧ e ∈ (replayLog f.chunks).ents) ↔
          e ∈ (s.imm.map s.memEnts).flatten ∨ e ∈ (if s.curOpen then s.memEnts s.cur else []) := by
        constructor
        · rintro ⟨n, f, _, hf, he⟩
          have hs : (memView fs.file n).isSome := by simp [memView, hf]
          rcases h.mem.memKnown n hs with hk | ⟨ho, hk⟩
          · obtain ⟨f', hf', hrep⟩ := h.mem.immFiles n hk
            have : f' = f := by
              have : memView fs.file n = some f := hf
              rw [hf'] at this; injection this
            subst this
            left
            rw [mem_flatten_map]
            exact ⟨n, hk, by rw [memEnts_eq, ← hrep]; exact he⟩
          · subst hk
            obtain ⟨f', hf', hc⟩ := h.mem.curFile ho
            have : f' = f := by
              have : memView fs.file s.cur = some f := hf
              rw [hf'] at this; injection this
            subst this
            right
            rw [ho]; simp only [if_true]
            rw [hc, replayLog_walChunks _ _ h.mem.curTxns _ _ (fun e => (h.mem.noHdr e).1)] at he
            exact he
        · rintro (he | he)
          · rw [mem_flatten_map] at he
            obtain ⟨k, hk, he⟩ := he
            obtain ⟨f, hf, hrep⟩ := h.mem.immFiles k hk
            have hf2 : fs.file (.mem k) = some f := hf
            refine ⟨k, f, ?_, hf2, by rw [hrep, ← memEnts_eq]; exact he⟩
            have := Image.lt_bound (crashKill fs) (.mem k) f (by rw [hfile]; exact hf2)
            exact this
          · by_cases ho : s.curOpen = true
            · rw [ho] at he; simp only [if_true] at he
              obtain ⟨f, hf, hc⟩ := h.mem.curFile ho
              have hf2 : fs.file (.mem s.cur) = some f := hf
              refine ⟨s.cur, f, ?_, hf2, ?_⟩
              · exact Image.lt_bound (crashKill fs) (.mem s.cur) f (by rw [hfile]; exact hf2)
              · rw [hc, replayLog_walChunks _ _ h.mem.curTxns _ _ (fun e => (h.mem.noHdr e).1)]
                exact he
            · have : s.curOpen = false := by simpa using ho
              rw [this] at he; simp at he
      rw [hmem]
      have htab : ((s.tset.map (fun x => ({ id := x.1, level := x.2, ents := s.tableEnts x.1 } : RTable))).map (·.ents))
          = s.tset.map (fun x => s.tableEnts x.1) := by
        rw [List.map_map]; rfl
      rw [htab]
      constructor
      · rintro ((h1 | h1) | h1)
        · exact Or.inl (Or.inr h1)
        · exact Or.inr h1
        · exact Or.inl (Or.inl h1)
      · rintro ((h1 | h1) | h1)
        · exact Or.inr h1
        · exact Or.inl (Or.inl h1)
        · exact Or.inl (Or.inr h1)

end Badger
