import BadgerProofs.Lemmas.LsmCompact
/-!
# Reads across a compaction: reads as a fold over the levels, the recency invariant `Layered`
unpacked, and the per-key argument that a compaction preserves every read at `ts ≥ discardTs`.
-/
namespace Badger
namespace LL

/-! ## reads as a fold over the levels -/

/-- the entries of level `i` in read-precedence order -/
def lvlChunk (i : Nat) (tbls : List Tbl) : List Ent :=
  if i = 0 then (tbls.reverse.map (·.ents)).flatten else (tbls.map (·.ents)).flatten

/-- the read of `k` at `ts` over the levels `i, i+1, …` -/
def readLv (k : Bytes) (ts : Nat) : Nat → List (List Tbl) → Option Ent
  | _, [] => none
  | i, l :: ls => pick (newestLE (lvlChunk i l) k ts) (readLv k ts (i + 1) ls)

def memEnts (s : Lsm) : List Ent := s.mem ++ s.imm.reverse.flatten

theorem lvl_flatten_eq (i : Nat) (ls : List (List Tbl)) (hi : 1 ≤ i) (k : Bytes) (ts : Nat) :
    newestLE (ls.map (fun tbls => (tbls.map (·.ents)).flatten)).flatten k ts = readLv k ts i ls := by
  induction ls generalizing i with
  | nil => rfl
  | cons l ls ih =>
    simp only [List.map_cons, List.flatten_cons, newestLE_append, readLv]
    rw [ih (i + 1) (by omega)]
    unfold lvlChunk
    rw [if_neg (by omega)]

theorem newestLE_allEntries (s : Lsm) (k : Bytes) (ts : Nat) :
    newestLE s.allEntries k ts = pick (newestLE (memEnts s) k ts) (readLv k ts 0 s.levels) := by
  unfold Lsm.allEntries Lsm.sources memEnts
  cases hl : s.levels with
  | nil => simp [readLv, newestLE_append]
  | cons l0 rest =>
    simp only [List.flatten_append, List.flatten_cons, newestLE_append, readLv]
    rw [lvl_flatten_eq 1 rest (by omega)]
    simp [lvlChunk, pick_assoc]

theorem readLv_append (k : Bytes) (ts : Nat) (i : Nat) (a b : List (List Tbl)) :
    readLv k ts i (a ++ b) = pick (readLv k ts i a) (readLv k ts (i + a.length) b) := by
  induction a generalizing i with
  | nil => simp [readLv]
  | cons l a ih =>
    simp only [List.cons_append, readLv, ih, pick_assoc, List.length_cons]
    congr 3; omega

/-- the levels split at one position -/
theorem levels_split {ls : List (List Tbl)} {j : Nat} (hj : j < ls.length) :
    ls = ls.take j ++ ls[j] :: ls.drop (j + 1) := by
  rw [← List.drop_eq_getElem_cons hj, List.take_append_drop]

theorem readLv_split (k : Bytes) (ts : Nat) {ls : List (List Tbl)} {j : Nat} (hj : j < ls.length) (x : List Tbl) :
    readLv k ts 0 (ls.set j x) =
      pick (readLv k ts 0 (ls.take j)) (pick (newestLE (lvlChunk j x) k ts) (readLv k ts (j + 1) (ls.drop (j + 1)))) := by
  rw [List.set_eq_take_append_cons_drop, if_pos hj, readLv_append]
  simp only [readLv, List.length_take, Nat.zero_add]
  rw [Nat.min_eq_left (by omega)]

theorem readLv_split_self (k : Bytes) (ts : Nat) {ls : List (List Tbl)} {j : Nat} (hj : j < ls.length) :
    readLv k ts 0 ls =
      pick (readLv k ts 0 (ls.take j)) (pick (newestLE (lvlChunk j ls[j]) k ts) (readLv k ts (j + 1) (ls.drop (j + 1)))) := by
  have := readLv_split k ts hj ls[j]
  rwa [List.set_getElem_self] at this


theorem newestLE_sorted_iff {L : List Ent} (hs : SortedEnts L) {k : Bytes} {ts : Nat} {e : Ent} :
    newestLE L k ts = some e ↔
      e ∈ L ∧ e.key = k ∧ e.ver ≤ ts ∧ ∀ x ∈ L, x.key = k → x.ver ≤ ts → x.ver ≤ e.ver := by
  constructor
  · exact newestLE_some
  · rintro ⟨h1, h2, h3, h4⟩
    cases hr : newestLE L k ts with
    | none => exact absurd ⟨h2, h3⟩ (newestLE_eq_none.mp hr e h1)
    | some r =>
      obtain ⟨r1, r2, r3, r4⟩ := newestLE_some hr
      have hv : r.ver = e.ver := Nat.le_antisymm (h4 r r1 r2 r3) (r4 e h1 h2 h3)
      rw [sorted_unique hs r1 h1 (r2.trans h2.symm) hv]

/-- on a sorted list the read is determined by the set of members -/
theorem newestLE_union {L A B : List Ent} (hs : SortedEnts L) (hm : ∀ e, e ∈ L ↔ e ∈ A ∨ e ∈ B)
    (k : Bytes) (ts : Nat) : newestLE L k ts = pick (newestLE A k ts) (newestLE B k ts) := by
  have hmaxA : ∀ x ∈ A, x.key = k → x.ver ≤ ts → ∃ a, newestLE A k ts = some a ∧ x.ver ≤ a.ver := by
    intro x hx hk hv
    cases hr : newestLE A k ts with
    | none => exact absurd ⟨hk, hv⟩ (newestLE_eq_none.mp hr x hx)
    | some a => exact ⟨a, rfl, (newestLE_some hr).2.2.2 x hx hk hv⟩
  have hmaxB : ∀ x ∈ B, x.key = k → x.ver ≤ ts → ∃ a, newestLE B k ts = some a ∧ x.ver ≤ a.ver := by
    intro x hx hk hv
    cases hr : newestLE B k ts with
    | none => exact absurd ⟨hk, hv⟩ (newestLE_eq_none.mp hr x hx)
    | some a => exact ⟨a, rfl, (newestLE_some hr).2.2.2 x hx hk hv⟩
  cases hp : pick (newestLE A k ts) (newestLE B k ts) with
  | none =>
    obtain ⟨ha, hb⟩ := pick_eq_none.mp hp
    apply newestLE_eq_none.mpr
    intro x hx
    rcases (hm x).mp hx with h | h
    · exact newestLE_eq_none.mp ha x h
    · exact newestLE_eq_none.mp hb x h
  | some e =>
    apply (newestLE_sorted_iff hs).mpr
    rcases pick_some hp with ⟨h1, h2⟩ | ⟨h1, h2⟩
    · obtain ⟨m1, m2, m3, _⟩ := newestLE_some h1
      refine ⟨(hm e).mpr (.inl m1), m2, m3, ?_⟩
      intro x hx hk hv
      rcases (hm x).mp hx with h | h
      · obtain ⟨a, ha, hle⟩ := hmaxA x h hk hv
        rw [h1] at ha; cases ha; exact hle
      · obtain ⟨b, hb, hle⟩ := hmaxB x h hk hv
        exact Nat.le_trans hle (h2 b hb)
    · obtain ⟨m1, m2, m3, _⟩ := newestLE_some h1
      refine ⟨(hm e).mpr (.inr m1), m2, m3, ?_⟩
      intro x hx hk hv
      rcases (hm x).mp hx with h | h
      · obtain ⟨a, ha, hle⟩ := hmaxA x h hk hv
        exact Nat.le_trans hle (Nat.le_of_lt (h2 a ha))
      · obtain ⟨b, hb, hle⟩ := hmaxB x h hk hv
        rw [h1] at hb; cases hb; exact hle

/-- a dropped dead version at the bottom of what the read can see: falling through is invisible -/
theorem read_fallthrough {now : Nat} {u v v' w : Option Ent}
    (hv : v' = v ∨ (v' = none ∧ ∃ e, v = some e ∧ deletedOrExpired e.emeta e.exp now = true ∧ w = none ∧
      ∀ x, u = some x → e.ver ≤ x.ver)) :
    visible now (pick u (pick v' w)) = visible now (pick u (pick v w)) := by
  rcases hv with rfl | ⟨rfl, e, rfl, hdead, rfl, hrec⟩
  · rfl
  · simp only [pick_none_right]
    cases u with
    | none => simp [visible, hdead]
    | some x =>
      have := hrec x rfl
      simp only [pick]
      rw [if_neg (by omega)]

/-- every version in `A` is at least as new as every version of the same key in `B` -/
def RecL (A B : List Ent) : Prop := ∀ a ∈ A, ∀ b ∈ B, a.key = b.key → b.ver ≤ a.ver

theorem layered_def (s : Lsm) : Layered s ↔ s.sources.Pairwise RecL := Iff.rfl

theorem mem_memEnts {s : Lsm} {x : Ent} : x ∈ memEnts s ↔ ∃ m ∈ s.mem :: s.imm.reverse, x ∈ m := by
  unfold memEnts
  simp only [List.mem_append, List.mem_flatten, List.mem_cons, List.mem_reverse]
  constructor
  · rintro (h | ⟨m, hm, hx⟩)
    · exact ⟨s.mem, .inl rfl, h⟩
    · exact ⟨m, .inr hm, hx⟩
  · rintro ⟨m, rfl | hm, hx⟩
    · exact .inl hx
    · exact .inr ⟨m, hm, hx⟩

/-- memtables are searched before every table -/
theorem layered_mem_level {s : Lsm} (h : Layered s) {x e : Ent} {i : Nat} {tbls : List Tbl} {t : Tbl}
    (hx : x ∈ memEnts s) (hi : s.levels[i]? = some tbls) (ht : t ∈ tbls) (he : e ∈ t.ents)
    (hk : x.key = e.key) : e.ver ≤ x.ver := by
  obtain ⟨m, hm, hxm⟩ := mem_memEnts.mp hx
  rw [layered_def] at h
  unfold Lsm.sources at h
  cases hl : s.levels with
  | nil => rw [hl] at hi; simp at hi
  | cons l0 rest =>
    rw [hl] at h hi
    simp only at h
    obtain ⟨_, _, hcross⟩ := List.pairwise_append.mp h
    cases i with
    | zero =>
      simp at hi; subst hi
      exact hcross m hm t.ents (List.mem_append_left _ (List.mem_map.mpr ⟨t, List.mem_reverse.mpr ht, rfl⟩)) x hxm e he hk
    | succ j =>
      simp at hi
      refine hcross m hm _ (List.mem_append_right _ (List.mem_map.mpr ⟨tbls, List.mem_of_getElem? hi, rfl⟩)) x hxm e ?_ hk
      exact List.mem_flatten.mpr ⟨t.ents, List.mem_map.mpr ⟨t, ht, rfl⟩, he⟩

/-- a higher level is searched before a deeper one -/
theorem layered_levels {s : Lsm} (h : Layered s) {x e : Ent} {i i' : Nat} {tbls tbls' : List Tbl} {t t' : Tbl}
    (hi : s.levels[i]? = some tbls) (hi' : s.levels[i']? = some tbls') (hlt : i < i') (ht : t ∈ tbls)
    (ht' : t' ∈ tbls') (hx : x ∈ t.ents) (he : e ∈ t'.ents) (hk : x.key = e.key) : e.ver ≤ x.ver := by
  rw [layered_def] at h
  unfold Lsm.sources at h
  cases hl : s.levels with
  | nil => rw [hl] at hi; simp at hi
  | cons l0 rest =>
    rw [hl] at h hi hi'
    simp only at h
    obtain ⟨_, hlv, _⟩ := List.pairwise_append.mp h
    obtain ⟨_, hrest, hcross⟩ := List.pairwise_append.mp hlv
    cases i' with
    | zero => omega
    | succ j' =>
      simp at hi'
      have he' : e ∈ (tbls'.map (·.ents)).flatten :=
        List.mem_flatten.mpr ⟨t'.ents, List.mem_map.mpr ⟨t', ht', rfl⟩, he⟩
      cases i with
      | zero =>
        simp at hi; subst hi
        exact hcross t.ents (List.mem_map.mpr ⟨t, List.mem_reverse.mpr ht, rfl⟩) _
          (List.mem_map.mpr ⟨tbls', List.mem_of_getElem? hi', rfl⟩) x hx e he' hk
      | succ j =>
        simp at hi
        have hx' : x ∈ (tbls.map (·.ents)).flatten :=
          List.mem_flatten.mpr ⟨t.ents, List.mem_map.mpr ⟨t, ht, rfl⟩, hx⟩
        obtain ⟨hj, hjeq⟩ := List.getElem?_eq_some_iff.mp hi
        obtain ⟨hj', hjeq'⟩ := List.getElem?_eq_some_iff.mp hi'
        have hp := List.pairwise_iff_getElem.mp hrest j j' (by simpa using hj) (by simpa using hj') (by omega)
        simp only [List.getElem_map, hjeq, hjeq'] at hp
        exact hp x hx' e he' hk

/-- within level 0 a newer table (higher index) is searched before an older one -/
theorem layered_l0 {s : Lsm} (h : Layered s) {x e : Ent} {l0 : List Tbl} {j j' : Nat} {a b : Tbl}
    (h0 : s.levels[0]? = some l0) (hj : l0[j]? = some a) (hj' : l0[j']? = some b) (hlt : j' < j)
    (hx : x ∈ a.ents) (he : e ∈ b.ents) (hk : x.key = e.key) : e.ver ≤ x.ver := by
  rw [layered_def] at h
  unfold Lsm.sources at h
  cases hl : s.levels with
  | nil => rw [hl] at h0; simp at h0
  | cons l0' rest =>
    rw [hl] at h h0
    simp at h0; subst h0
    simp only at h
    obtain ⟨_, hlv, _⟩ := List.pairwise_append.mp h
    obtain ⟨hl0, _, _⟩ := List.pairwise_append.mp hlv
    rw [List.pairwise_map, List.pairwise_reverse] at hl0
    obtain ⟨hj1, hjeq⟩ := List.getElem?_eq_some_iff.mp hj
    obtain ⟨hj1', hjeq'⟩ := List.getElem?_eq_some_iff.mp hj'
    have hp := List.pairwise_iff_getElem.mp hl0 j' j hj1' hj1 hlt
    rw [hjeq, hjeq'] at hp
    exact hp x hx e he hk

/-- `Layered` in terms of where entries are stored -/
theorem layered_iff (s : Lsm) : Layered s ↔
    (s.mem :: s.imm.reverse).Pairwise RecL ∧
    (∀ x ∈ memEnts s, ∀ (i : Nat) (tbls : List Tbl) (t : Tbl), s.levels[i]? = some tbls → t ∈ tbls →
      ∀ e ∈ t.ents, x.key = e.key → e.ver ≤ x.ver) ∧
    (∀ (i i' : Nat) (tbls tbls' : List Tbl) (t t' : Tbl), s.levels[i]? = some tbls → s.levels[i']? = some tbls' →
      i < i' → t ∈ tbls → t' ∈ tbls' → RecL t.ents t'.ents) ∧
    (∀ (l0 : List Tbl) (j j' : Nat) (a b : Tbl), s.levels[0]? = some l0 → l0[j]? = some a → l0[j']? = some b →
      j' < j → RecL a.ents b.ents) := by
  constructor
  · intro h
    refine ⟨?_, ?_, ?_, ?_⟩
    · rw [layered_def] at h
      unfold Lsm.sources at h
      exact (List.pairwise_append.mp h).1
    · intro x hx i tbls t hi ht e he hk
      exact layered_mem_level h hx hi ht he hk
    · intro i i' tbls tbls' t t' hi hi' hlt ht ht' x hx e he hk
      exact layered_levels h hi hi' hlt ht ht' hx he hk
    · intro l0 j j' a b h0 hj hj' hlt x hx e he hk
      exact layered_l0 h h0 hj hj' hlt hx he hk
  · rintro ⟨p1, p2, p3, p4⟩
    rw [layered_def]
    unfold Lsm.sources
    cases hl : s.levels with
    | nil =>
      simp only [List.append_nil]
      exact p1
    | cons l0 rest =>
      rw [hl] at p2 p3 p4
      simp only
      rw [List.pairwise_append]
      refine ⟨p1, ?_, ?_⟩
      · rw [List.pairwise_append]
        refine ⟨?_, ?_, ?_⟩
        · rw [List.pairwise_map, List.pairwise_reverse, List.pairwise_iff_getElem]
          intro j' j hj' hj hlt
          exact p4 l0 j j' l0[j] l0[j'] rfl (List.getElem?_eq_getElem hj) (List.getElem?_eq_getElem hj') hlt
        · rw [List.pairwise_map, List.pairwise_iff_getElem]
          intro i i' hi hi' hlt x hx e he hk
          obtain ⟨l, hl', hxl⟩ := List.mem_flatten.mp hx
          obtain ⟨t, ht, rfl⟩ := List.mem_map.mp hl'
          obtain ⟨l2, hl2, hel⟩ := List.mem_flatten.mp he
          obtain ⟨t', ht', rfl⟩ := List.mem_map.mp hl2
          exact p3 (i + 1) (i' + 1) rest[i] rest[i'] t t' (by simp) (by simp) (by omega) ht ht' x hxl e hel hk
        · intro a ha c hc x hx e he hk
          obtain ⟨t, ht, rfl⟩ := List.mem_map.mp ha
          obtain ⟨tbls', htb, rfl⟩ := List.mem_map.mp hc
          obtain ⟨l2, hl2, hel⟩ := List.mem_flatten.mp he
          obtain ⟨t', ht', rfl⟩ := List.mem_map.mp hl2
          obtain ⟨i', hi', rfl⟩ := List.getElem_of_mem htb
          exact p3 0 (i' + 1) l0 rest[i'] t t' rfl (by simp) (by omega) (List.mem_reverse.mp ht) ht' x hx e hel hk
      · intro m hm c hc x hx e he hk
        have hxm : x ∈ memEnts s := mem_memEnts.mpr ⟨m, hm, hx⟩
        rcases List.mem_append.mp hc with hc | hc
        · obtain ⟨t, ht, rfl⟩ := List.mem_map.mp hc
          exact p2 x hxm 0 l0 t rfl (List.mem_reverse.mp ht) e he hk
        · obtain ⟨tbls', htb, rfl⟩ := List.mem_map.mp hc
          obtain ⟨l2, hl2, hel⟩ := List.mem_flatten.mp he
          obtain ⟨t', ht', rfl⟩ := List.mem_map.mp hl2
          obtain ⟨i', hi', rfl⟩ := List.getElem_of_mem htb
          exact p2 x hxm (i' + 1) rest[i'] t' (by simp) ht' e hel hk

/-- recency ACROSS sources with level 0 regarded as ONE source: what survives an L0 → L0 compaction
    (which merges an arbitrary subset of L0 and re-sorts the level by `Smallest`). `LL.chunks s` =
    memtable, immutables newest first, all of L0, L1, L2, … -/
def _root_.Badger.LayeredX (s : Lsm) : Prop :=
  (chunks s).Pairwise (fun A B => ∀ a ∈ A, ∀ b ∈ B, a.key = b.key → b.ver ≤ a.ver)

instance (s : Lsm) : Decidable (LayeredX s) := by unfold LayeredX; infer_instance

/-- `LayeredX` in terms of where entries are stored -/
theorem layeredX_iff (s : Lsm) : LayeredX s ↔
    (s.mem :: s.imm.reverse).Pairwise RecL ∧
    (∀ x ∈ memEnts s, ∀ (i : Nat) (tbls : List Tbl) (t : Tbl), s.levels[i]? = some tbls → t ∈ tbls →
      ∀ e ∈ t.ents, x.key = e.key → e.ver ≤ x.ver) ∧
    (∀ (i i' : Nat) (tbls tbls' : List Tbl) (t t' : Tbl), s.levels[i]? = some tbls → s.levels[i']? = some tbls' →
      i < i' → t ∈ tbls → t' ∈ tbls' → RecL t.ents t'.ents) := by
  have hX : LayeredX s ↔ (chunks s).Pairwise RecL := Iff.rfl
  rw [hX]
  unfold chunks
  cases hl : s.levels with
  | nil =>
    simp only [List.append_nil]
    constructor
    · intro h; exact ⟨h, by simp, by simp⟩
    · intro h; exact h.1
  | cons l0 rest =>
    simp only
    have hmem0 : ∀ e, e ∈ (l0.reverse.map (·.ents)).flatten ↔ ∃ t ∈ l0, e ∈ t.ents := by
      intro e
      constructor
      · intro h
        obtain ⟨l, hl', hel⟩ := List.mem_flatten.mp h
        obtain ⟨t, ht, rfl⟩ := List.mem_map.mp hl'
        exact ⟨t, List.mem_reverse.mp ht, hel⟩
      · rintro ⟨t, ht, hel⟩
        exact List.mem_flatten.mpr ⟨t.ents, List.mem_map.mpr ⟨t, List.mem_reverse.mpr ht, rfl⟩, hel⟩
    have hmemR : ∀ (tbls : List Tbl) e, e ∈ (tbls.map (·.ents)).flatten ↔ ∃ t ∈ tbls, e ∈ t.ents := by
      intro tbls e
      constructor
      · intro h
        obtain ⟨l, hl', hel⟩ := List.mem_flatten.mp h
        obtain ⟨t, ht, rfl⟩ := List.mem_map.mp hl'
        exact ⟨t, ht, hel⟩
      · rintro ⟨t, ht, hel⟩
        exact List.mem_flatten.mpr ⟨t.ents, List.mem_map.mpr ⟨t, ht, rfl⟩, hel⟩
    constructor
    · intro h
      obtain ⟨p1, hlv, hcross⟩ := List.pairwise_append.mp h
      obtain ⟨h0r, hrest⟩ := List.pairwise_cons.mp hlv
      refine ⟨p1, ?_, ?_⟩
      · intro x hx i tbls t hi ht e he hk
        obtain ⟨m, hm, hxm⟩ := mem_memEnts.mp hx
        cases i with
        | zero =>
          simp at hi; subst hi
          exact hcross m hm _ (by simp) x hxm e ((hmem0 e).mpr ⟨t, ht, he⟩) hk
        | succ j =>
          simp at hi
          exact hcross m hm _ (List.mem_cons_of_mem _ (List.mem_map.mpr ⟨tbls, List.mem_of_getElem? hi, rfl⟩))
            x hxm e ((hmemR tbls e).mpr ⟨t, ht, he⟩) hk
      · intro i i' tbls tbls' t t' hi hi' hlt ht ht' x hx e he hk
        cases i' with
        | zero => omega
        | succ j' =>
          simp at hi'
          have he' := (hmemR tbls' e).mpr ⟨t', ht', he⟩
          cases i with
          | zero =>
            simp at hi; subst hi
            exact h0r _ (List.mem_map.mpr ⟨tbls', List.mem_of_getElem? hi', rfl⟩) x
              ((hmem0 x).mpr ⟨t, ht, hx⟩) e he' hk
          | succ j =>
            simp at hi
            obtain ⟨hj, hjeq⟩ := List.getElem?_eq_some_iff.mp hi
            obtain ⟨hj', hjeq'⟩ := List.getElem?_eq_some_iff.mp hi'
            have hp := List.pairwise_iff_getElem.mp hrest j j' (by simpa using hj) (by simpa using hj') (by omega)
            simp only [List.getElem_map, hjeq, hjeq'] at hp
            exact hp x ((hmemR tbls x).mpr ⟨t, ht, hx⟩) e he' hk
    · rintro ⟨p1, p2, p3⟩
      rw [List.pairwise_append]
      refine ⟨p1, ?_, ?_⟩
      · refine List.pairwise_cons.mpr ⟨?_, ?_⟩
        · intro c hc x hx e he hk
          obtain ⟨tbls', htb, rfl⟩ := List.mem_map.mp hc
          obtain ⟨t, ht, hxt⟩ := (hmem0 x).mp hx
          obtain ⟨t', ht', het⟩ := (hmemR tbls' e).mp he
          obtain ⟨i', hi', rfl⟩ := List.getElem_of_mem htb
          exact p3 0 (i' + 1) l0 rest[i'] t t' rfl (by simp) (by omega) ht ht' x hxt e het hk
        · rw [List.pairwise_map, List.pairwise_iff_getElem]
          intro i i' hi hi' hlt x hx e he hk
          obtain ⟨t, ht, hxt⟩ := (hmemR _ x).mp hx
          obtain ⟨t', ht', het⟩ := (hmemR _ e).mp he
          exact p3 (i + 1) (i' + 1) rest[i] rest[i'] t t' (by simp) (by simp) (by omega) ht ht' x hxt e het hk
      · intro m hm c hc x hx e he hk
        have hxm : x ∈ memEnts s := mem_memEnts.mpr ⟨m, hm, hx⟩
        rcases List.mem_cons.mp hc with rfl | hc
        · obtain ⟨t, ht, het⟩ := (hmem0 e).mp he
          exact p2 x hxm 0 l0 t rfl ht e het hk
        · obtain ⟨tbls', htb, rfl⟩ := List.mem_map.mp hc
          obtain ⟨t', ht', het⟩ := (hmemR tbls' e).mp he
          obtain ⟨i', hi', rfl⟩ := List.getElem_of_mem htb
          exact p2 x hxm (i' + 1) rest[i'] t' (by simp) ht' e het hk

/-- level 0 is in age order: a table with a higher index holds, per key, only versions `≥` those of
    a table with a lower index -/
def L0Aged (s : Lsm) : Prop :=
  ∀ (l0 : List Tbl) (j j' : Nat) (a b : Tbl), s.levels[0]? = some l0 → l0[j]? = some a → l0[j']? = some b →
    j' < j → RecL a.ents b.ents

theorem layered_iff_X (s : Lsm) : Layered s ↔ LayeredX s ∧ L0Aged s := by
  rw [layered_iff, layeredX_iff]
  unfold L0Aged
  constructor
  · rintro ⟨p1, p2, p3, p4⟩; exact ⟨⟨p1, p2, p3⟩, p4⟩
  · rintro ⟨⟨p1, p2, p3⟩, p4⟩; exact ⟨p1, p2, p3, p4⟩

theorem layeredX_of_layered {s : Lsm} (h : Layered s) : LayeredX s := ((layered_iff_X s).mp h).1

theorem layeredX_mem_level {s : Lsm} (h : LayeredX s) {x e : Ent} {i : Nat} {tbls : List Tbl} {t : Tbl}
    (hx : x ∈ memEnts s) (hi : s.levels[i]? = some tbls) (ht : t ∈ tbls) (he : e ∈ t.ents)
    (hk : x.key = e.key) : e.ver ≤ x.ver :=
  ((layeredX_iff s).mp h).2.1 x hx i tbls t hi ht e he hk

theorem layeredX_levels {s : Lsm} (h : LayeredX s) {x e : Ent} {i i' : Nat} {tbls tbls' : List Tbl} {t t' : Tbl}
    (hi : s.levels[i]? = some tbls) (hi' : s.levels[i']? = some tbls') (hlt : i < i') (ht : t ∈ tbls)
    (ht' : t' ∈ tbls') (hx : x ∈ t.ents) (he : e ∈ t'.ents) (hk : x.key = e.key) : e.ver ≤ x.ver :=
  ((layeredX_iff s).mp h).2.2 i i' tbls tbls' t t' hi hi' hlt ht ht' x hx e he hk

theorem mem_lvlChunk {i : Nat} {tbls : List Tbl} {x : Ent} : x ∈ lvlChunk i tbls ↔ ∃ t ∈ tbls, x ∈ t.ents := by
  unfold lvlChunk
  split
  · constructor
    · intro h
      obtain ⟨l, hl, hx⟩ := List.mem_flatten.mp h
      obtain ⟨t, ht, rfl⟩ := List.mem_map.mp hl
      exact ⟨t, List.mem_reverse.mp ht, hx⟩
    · rintro ⟨t, ht, hx⟩
      exact List.mem_flatten.mpr ⟨t.ents, List.mem_map.mpr ⟨t, List.mem_reverse.mpr ht, rfl⟩, hx⟩
  · constructor
    · intro h
      obtain ⟨l, hl, hx⟩ := List.mem_flatten.mp h
      obtain ⟨t, ht, rfl⟩ := List.mem_map.mp hl
      exact ⟨t, ht, hx⟩
    · rintro ⟨t, ht, hx⟩
      exact List.mem_flatten.mpr ⟨t.ents, List.mem_map.mpr ⟨t, ht, rfl⟩, hx⟩

theorem readLv_some {k : Bytes} {ts : Nat} {i : Nat} {ls : List (List Tbl)} {x : Ent}
    (h : readLv k ts i ls = some x) :
    ∃ (j : Nat) (tbls : List Tbl) (t : Tbl), ls[j]? = some tbls ∧ t ∈ tbls ∧ x ∈ t.ents ∧ x.key = k ∧ x.ver ≤ ts := by
  induction ls generalizing i with
  | nil => simp [readLv] at h
  | cons l ls ih =>
    simp only [readLv] at h
    rcases pick_some h with ⟨h1, _⟩ | ⟨h1, _⟩
    · obtain ⟨m1, m2, m3, _⟩ := newestLE_some h1
      obtain ⟨t, ht, hx⟩ := mem_lvlChunk.mp m1
      exact ⟨0, l, t, rfl, ht, hx, m2, m3⟩
    · obtain ⟨j, tbls, t, hj, ht, hx, hk, hv⟩ := ih h1
      exact ⟨j + 1, tbls, t, by simpa using hj, ht, hx, hk, hv⟩

theorem readLv_eq_none {k : Bytes} {ts : Nat} {i : Nat} {ls : List (List Tbl)}
    (h : ∀ tbls ∈ ls, ∀ t ∈ tbls, ∀ x ∈ t.ents, x.key ≠ k) : readLv k ts i ls = none := by
  induction ls generalizing i with
  | nil => rfl
  | cons l ls ih =>
    simp only [readLv]
    rw [ih (fun tbls ht => h tbls (List.mem_cons_of_mem _ ht))]
    rw [pick_none_right]
    apply newestLE_eq_none.mpr
    rintro x hx ⟨hk, _⟩
    obtain ⟨t, ht, hxt⟩ := mem_lvlChunk.mp hx
    exact h l (by simp) t ht x hxt hk

theorem readLv_split' (k : Bytes) (ts : Nat) (i : Nat) {ls : List (List Tbl)} {j : Nat} (hj : j < ls.length)
    (x : List Tbl) :
    readLv k ts i (ls.set j x) =
      pick (readLv k ts i (ls.take j))
        (pick (newestLE (lvlChunk (i + j) x) k ts) (readLv k ts (i + j + 1) (ls.drop (j + 1)))) := by
  rw [List.set_eq_take_append_cons_drop, if_pos hj, readLv_append]
  simp only [readLv, List.length_take]
  rw [Nat.min_eq_left (by omega)]

theorem set_set_lt {α : Type} (ls : List α) {p q : Nat} (hpq : p < q) (x y : α) (hp : p < ls.length) :
    (ls.set q y).set p x = ls.take p ++ x :: (ls.drop (p + 1)).set (q - p - 1) y := by
  induction ls generalizing p q with
  | nil => simp at hp
  | cons a ls ih =>
    cases q with
    | zero => omega
    | succ q =>
      cases p with
      | zero => simp
      | succ p =>
        simp only [List.set_cons_succ, List.take_succ_cons, List.drop_succ_cons, List.cons_append]
        rw [ih (show p < q by omega) (by simpa using hp)]
        have : q + 1 - (p + 1) - 1 = q - p - 1 := by omega
        rw [this]

/-- the read over the levels when two levels `p < q` are replaced -/
theorem readLv_two (k : Bytes) (ts : Nat) {ls : List (List Tbl)} {p q : Nat} (hpq : p < q) (hq : q < ls.length)
    (x y : List Tbl) :
    readLv k ts 0 ((ls.set q y).set p x) =
      pick (readLv k ts 0 (ls.take p)) (pick (newestLE (lvlChunk p x) k ts)
        (pick (readLv k ts (p + 1) ((ls.drop (p + 1)).take (q - p - 1)))
          (pick (newestLE (lvlChunk q y) k ts) (readLv k ts (q + 1) (ls.drop (q + 1)))))) := by
  rw [set_set_lt ls hpq x y (by omega), readLv_append]
  simp only [readLv, List.length_take, Nat.zero_add]
  rw [Nat.min_eq_left (by omega)]
  rw [readLv_split' k ts (p + 1) (by simp; omega)]
  have h1 : p + 1 + (q - p - 1) = q := by omega
  have h2 : p + 1 + (q - p - 1 + 1) = q + 1 := by omega
  rw [h1, List.drop_drop, h2]

theorem readLv_two_self (k : Bytes) (ts : Nat) {ls : List (List Tbl)} {p q : Nat} (hpq : p < q) (hq : q < ls.length) :
    readLv k ts 0 ls =
      pick (readLv k ts 0 (ls.take p)) (pick (newestLE (lvlChunk p (ls[p]'(by omega))) k ts)
        (pick (readLv k ts (p + 1) ((ls.drop (p + 1)).take (q - p - 1)))
          (pick (newestLE (lvlChunk q ls[q]) k ts) (readLv k ts (q + 1) (ls.drop (q + 1)))))) := by
  have := readLv_two k ts hpq hq (ls[p]'(by omega)) ls[q]
  rwa [List.set_getElem_self, List.set_getElem_self] at this

/-- what the compaction merges: the tops (L0: newest first) then the bottom run -/
def cdMerged (s : Lsm) (cd : CompactDef) : List Ent :=
  mergeAll ((if cd.thisLevel == 0 then (cdTops s cd).reverse.map (·.ents) else (cdTops s cd).map (·.ents)) ++
    [botEnts s cd])

/-- an L0 table that is not compacted has a user-key range overlapping the range of the L0 tables
    that are. Since the F28 repair of `fillTablesL0ToLbase` the picker never makes such a choice. -/
def cdLeftBehind (s : Lsm) (cd : CompactDef) : Bool :=
  cd.thisLevel == 0 && (removeIdx (cdThisT s cd) cd.top).any (fun t =>
    match t.keyRange with
    | some d => rangeOverlaps (rangeOfTables (cdTops s cd)) d
    | none => false)

/-- the `hasOverlap` flag of `subcompact`; since the F1 repair (badger commit d24306c) an L0 → L0
    compaction always keeps its markers -/
def cdHasOverlap (s : Lsm) (cd : CompactDef) : Bool :=
  (cd.thisLevel == 0 && cd.nextLevel == 0) || checkOverlap s (cdTops s cd ++ cdBots s cd) (cd.nextLevel + 1)

theorem cdHasOverlap_false {s : Lsm} {cd : CompactDef} (h : cdHasOverlap s cd = false) :
    ¬ (cd.thisLevel = 0 ∧ cd.nextLevel = 0) ∧
      checkOverlap s (cdTops s cd ++ cdBots s cd) (cd.nextLevel + 1) = false := by
  unfold cdHasOverlap at h
  rw [Bool.or_eq_false_iff] at h
  refine ⟨?_, h.2⟩
  rintro ⟨h1, h2⟩
  simp [h1, h2] at h

theorem compactOutput_eq {s : Lsm} {cd : CompactDef} (hdp : cd.dropPrefixes = []) (d n now : Nat) :
    compactOutput s cd d n now =
      (subcompact { discardTs := d, numKeep := n, hasOverlap := cdHasOverlap s cd, now := now, dropPrefixes := [] }
        (cdMerged s cd), cdHasOverlap s cd) := by
  have hf : ∀ (l : List Tbl), l.filter (fun _ => true) = l := fun l => by
    induction l with
    | nil => rfl
    | cons a l ih => simp
  unfold compactOutput cdMerged cdHasOverlap botEnts cdBots cdTops cdNextT cdThisT
  simp [hdp, hf]

theorem topSrcs_flatten (s : Lsm) (cd : CompactDef) :
    (if cd.thisLevel == 0 then (cdTops s cd).reverse.map (·.ents) else (cdTops s cd).map (·.ents)).flatten =
      lvlChunk cd.thisLevel (cdTops s cd) := by
  unfold lvlChunk
  by_cases h : cd.thisLevel = 0
  · simp [h]
  · simp [h]

theorem merged_sources_sorted {s : Lsm} {cd : CompactDef} (h : LsmInv s) (hc : CompactOk s cd) :
    ∀ src ∈ (if cd.thisLevel == 0 then (cdTops s cd).reverse.map (·.ents) else (cdTops s cd).map (·.ents)) ++
      [botEnts s cd], SortedEnts src := by
  intro src hsrc
  rcases List.mem_append.mp hsrc with h1 | h1
  · split at h1
    · obtain ⟨t, ht, rfl⟩ := List.mem_map.mp h1
      exact (tops_sorted h hc.1 t (List.mem_reverse.mp ht)).2
    · obtain ⟨t, ht, rfl⟩ := List.mem_map.mp h1
      exact (tops_sorted h hc.1 t ht).2
  · simp at h1; subst h1; exact botEnts_sorted h hc

theorem merged_sorted {s : Lsm} {cd : CompactDef} (h : LsmInv s) (hc : CompactOk s cd) :
    SortedEnts (cdMerged s cd) := C12_merge_sorted (merged_sources_sorted h hc)

theorem nl_merged {s : Lsm} {cd : CompactDef} (h : LsmInv s) (hc : CompactOk s cd) (k : Bytes) (ts : Nat) :
    newestLE (cdMerged s cd) k ts =
      pick (newestLE (lvlChunk cd.thisLevel (cdTops s cd)) k ts) (newestLE (botEnts s cd) k ts) := by
  unfold cdMerged
  rw [C12_merge_reads (merged_sources_sorted h hc), List.flatten_append, topSrcs_flatten, newestLE_append]
  simp

theorem mem_merged {s : Lsm} {cd : CompactDef} {e : Ent} (he : e ∈ cdMerged s cd) :
    e ∈ topEnts s cd ∨ e ∈ botEnts s cd := by
  have := C12_merge_mem_flatten he
  rw [List.flatten_append, topSrcs_flatten] at this
  rcases List.mem_append.mp this with h1 | h1
  · left
    obtain ⟨t, ht, hx⟩ := mem_lvlChunk.mp h1
    exact mem_topEnts.mpr ⟨t, ht, hx⟩
  · right; simpa using h1

theorem mem_pick_or_remove {α : Type} (l : List α) (idx : List Nat) (t : α) :
    t ∈ l ↔ t ∈ pickIdx l idx ∨ t ∈ removeIdx l idx := by
  rw [mem_pickIdx, mem_removeIdx]
  constructor
  · intro h
    obtain ⟨j, hj, rfl⟩ := List.getElem_of_mem h
    by_cases hji : j ∈ idx
    · exact .inl ⟨j, hji, List.getElem?_eq_getElem hj⟩
    · exact .inr ⟨j, List.getElem?_eq_getElem hj, hji⟩
  · rintro (⟨j, _, hj⟩ | ⟨j, hj, _⟩) <;> exact List.mem_of_getElem? hj

/-- entries of the tables that stay on the next level -/
def keptEnts (s : Lsm) (cd : CompactDef) : List Ent :=
  ((removeIdx (cdNextT s cd) (keptIdx cd)).map (·.ents)).flatten

theorem mem_keptEnts {s : Lsm} {cd : CompactDef} {e : Ent} :
    e ∈ keptEnts s cd ↔ ∃ t ∈ removeIdx (cdNextT s cd) (keptIdx cd), e ∈ t.ents := by
  unfold keptEnts
  constructor
  · intro h
    obtain ⟨l, hl, hel⟩ := List.mem_flatten.mp h
    obtain ⟨t, ht, rfl⟩ := List.mem_map.mp hl
    exact ⟨t, ht, hel⟩
  · rintro ⟨t, ht, hel⟩
    exact List.mem_flatten.mpr ⟨t.ents, List.mem_map.mpr ⟨t, ht, rfl⟩, hel⟩

/-- the next level before the compaction, `this ≠ next` -/
theorem nl_next_old {s : Lsm} {cd : CompactDef} (h : LsmInv s) (hc : CompactOk s cd) (hne : cd.thisLevel ≠ cd.nextLevel)
    (hn : 1 ≤ cd.nextLevel) (k : Bytes) (ts : Nat) :
    newestLE (lvlChunk cd.nextLevel (cdNextT s cd)) k ts =
      pick (newestLE (botEnts s cd) k ts) (newestLE (keptEnts s cd) k ts) := by
  obtain ⟨_, hnok⟩ := next_level h hc.1
  apply newestLE_union
  · unfold lvlChunk; rw [if_neg (by omega)]
    exact (levelOk_weaken hnok).2 hn
  · intro e
    rw [mem_lvlChunk, mem_botEnts, mem_keptEnts]
    unfold keptIdx cdBots; rw [if_neg hne]
    constructor
    · rintro ⟨t, ht, he⟩
      rcases (mem_pick_or_remove _ cd.bot t).mp ht with h1 | h1
      · exact .inl ⟨t, h1, he⟩
      · exact .inr ⟨t, h1, he⟩
    · rintro (⟨t, ht, he⟩ | ⟨t, ht, he⟩)
      · exact ⟨t, (mem_pick_or_remove _ cd.bot t).mpr (.inl ht), he⟩
      · exact ⟨t, (mem_pick_or_remove _ cd.bot t).mpr (.inr ht), he⟩

/-- the next level after the compaction -/
theorem nl_next_new {s : Lsm} {cd : CompactDef} {d n now : Nat} {new0 : List Tbl} (h : LsmInv s) (hv : VerBound s)
    (hc : CompactOk s cd) (hsp : splitSizes cd.outSizes (compactOutput s cd d n now).1 = some new0)
    (hn : 1 ≤ cd.nextLevel) (k : Bytes) (ts : Nat) :
    newestLE (lvlChunk cd.nextLevel (newNext s cd new0)) k ts =
      pick (newestLE (compactOutput s cd d n now).1 k ts) (newestLE (keptEnts s cd) k ts) := by
  obtain ⟨hok, hpw⟩ := newNext_level h hv hc hsp sepRel_elt (fun a b hab => .inl hab) (new_tables h hc hsp).2
  apply newestLE_union
  · unfold lvlChunk; rw [if_neg (by omega)]
    exact (flatten_sorted_iff _).mpr ⟨fun t ht => (hok t ht).2, hpw hn⟩
  · intro e
    rw [mem_lvlChunk, mem_keptEnts]
    obtain ⟨hflat, _⟩ := splitSizes_spec hsp
    have hN : e ∈ (compactOutput s cd d n now).1 ↔ ∃ t ∈ withIds new0 cd.outIds, e ∈ t.ents := by
      rw [← hflat, ← withIds_map_ents new0 cd.outIds]
      constructor
      · intro h'
        obtain ⟨l, hl, hel⟩ := List.mem_flatten.mp h'
        obtain ⟨t, ht, rfl⟩ := List.mem_map.mp hl
        exact ⟨t, ht, hel⟩
      · rintro ⟨t, ht, hel⟩
        exact List.mem_flatten.mpr ⟨t.ents, List.mem_map.mpr ⟨t, ht, rfl⟩, hel⟩
    rw [hN, newNext_eq]
    constructor
    · rintro ⟨t, ht, he⟩
      rcases List.mem_append.mp (mem_sortBySmallest.mp ht) with h1 | h1
      · exact .inr ⟨t, h1, he⟩
      · exact .inl ⟨t, h1, he⟩
    · rintro (⟨t, ht, he⟩ | ⟨t, ht, he⟩)
      · exact ⟨t, mem_sortBySmallest.mpr (List.mem_append_right _ ht), he⟩
      · exact ⟨t, mem_sortBySmallest.mpr (List.mem_append_left _ ht), he⟩

theorem lvlChunk_zero_append (a b : List Tbl) : lvlChunk 0 (a ++ b) = lvlChunk 0 b ++ lvlChunk 0 a := by
  simp [lvlChunk]

theorem top_range_le {s : Lsm} {cd : CompactDef} (hb : CdBase s cd) (hr : cd.top = List.range cd.top.length) :
    cd.top.length ≤ (cdThisT s cd).length := by
  have h3 := hb.2.2.1
  cases hn : cd.top.length with
  | zero => omega
  | succ m =>
    have : m ∈ cd.top := by rw [hr, hn]; simp
    have := h3 m this
    omega

/-- the level the tops are taken from, split into what stays and what is compacted -/
theorem nl_this_split {s : Lsm} {cd : CompactDef} (h : LsmInv s) (hc : CompactOk s cd)
    (hne : cd.thisLevel ≠ cd.nextLevel) (k : Bytes) (ts : Nat) :
    newestLE (lvlChunk cd.thisLevel (cdThisT s cd)) k ts =
      pick (newestLE (lvlChunk cd.thisLevel (removeIdx (cdThisT s cd) cd.top)) k ts)
        (newestLE (lvlChunk cd.thisLevel (cdTops s cd)) k ts) := by
  obtain ⟨hb, hcase⟩ := hc
  have hsorted : 1 ≤ cd.thisLevel → newestLE (lvlChunk cd.thisLevel (cdThisT s cd)) k ts =
      pick (newestLE (lvlChunk cd.thisLevel (removeIdx (cdThisT s cd) cd.top)) k ts)
        (newestLE (lvlChunk cd.thisLevel (cdTops s cd)) k ts) := by
    intro h1
    obtain ⟨_, htok⟩ := this_level h hb
    apply newestLE_union
    · unfold lvlChunk; rw [if_neg (by omega)]
      exact (levelOk_weaken htok).2 h1
    · intro e
      simp only [mem_lvlChunk]
      unfold cdTops
      constructor
      · rintro ⟨t, ht, he⟩
        rcases (mem_pick_or_remove _ cd.top t).mp ht with h1 | h1
        · exact .inr ⟨t, h1, he⟩
        · exact .inl ⟨t, h1, he⟩
      · rintro (⟨t, ht, he⟩ | ⟨t, ht, he⟩)
        · exact ⟨t, (mem_pick_or_remove _ cd.top t).mpr (.inr ht), he⟩
        · exact ⟨t, (mem_pick_or_remove _ cd.top t).mpr (.inl ht), he⟩
  rcases hcase with hh | hh | hh | hh
  · obtain ⟨h0, _, hr, _, _⟩ := hh
    have hle := top_range_le hb hr
    have htops : cdTops s cd = (cdThisT s cd).take cd.top.length := by
      unfold cdTops
      have : pickIdx (cdThisT s cd) cd.top = pickIdx (cdThisT s cd) (List.range cd.top.length) := by rw [← hr]
      rw [this, pickIdx_range _ _ hle]
    have hrem : removeIdx (cdThisT s cd) cd.top = (cdThisT s cd).drop cd.top.length := by
      have : removeIdx (cdThisT s cd) cd.top = removeIdx (cdThisT s cd) (List.range cd.top.length) := by rw [← hr]
      rw [this, removeIdx_range]
    rw [htops, hrem, h0, ← newestLE_append, ← lvlChunk_zero_append, List.take_append_drop]
  · exact hsorted hh.1
  · exact absurd (hh.1.trans hh.2.1.symm) hne
  · exact absurd hh.2.1.symm hne

/-- a user key the compaction reads does not occur in a table that stays on the next level -/
theorem kept_no_key {s : Lsm} {cd : CompactDef} (h : LsmInv s) (hv : VerBound s) (hc : CompactOk s cd)
    (hn : 1 ≤ cd.nextLevel) {e : Ent} (he : e ∈ topEnts s cd ++ botEnts s cd) (ts : Nat) :
    newestLE (keptEnts s cd) e.key ts = none := by
  apply newestLE_eq_none.mpr
  rintro x hx ⟨hk, _⟩
  obtain ⟨t, ht, hxt⟩ := mem_keptEnts.mp hx
  rcases kept_oneSide h hv hc hn ht with hs | hs
  · exact klt_ne (hs x hxt e he) hk
  · exact klt_ne (hs x hxt e he) hk.symm

/-- `hasOverlap = false`: nothing of the compacted key range lives below the next level -/
theorem below_no_key {s : Lsm} {cd : CompactDef} (h : LsmInv s) (hv : VerBound s) (hc : CompactOk s cd)
    (hov : cdHasOverlap s cd = false) {e : Ent} (he : e ∈ topEnts s cd ++ botEnts s cd) (ts : Nat) :
    readLv e.key ts (cd.nextLevel + 1) (s.levels.drop (cd.nextLevel + 1)) = none := by
  have hokAll : ∀ t ∈ cdTops s cd ++ cdBots s cd, TblOk t := by
    intro t ht
    rcases List.mem_append.mp ht with h1 | h1
    · exact tops_sorted h hc.1 t h1
    · exact (next_level h hc.1).2.1 t (bots_mem h1)
  obtain ⟨lo, hi, hkr⟩ := keyRangeOf_some hokAll (by
    intro hnil
    exact tops_ne_nil hc.1 (List.append_eq_nil_iff.mp hnil).1)
  obtain ⟨hlo, hhi, hcov⟩ := keyRangeOf_cover hokAll hkr
  have hecov : kle lo.key e.key ∧ kle e.key hi.key := by
    rcases List.mem_append.mp he with h1 | h1
    · obtain ⟨t, ht, het⟩ := mem_topEnts.mp h1
      exact hcov t (List.mem_append_left _ ht) e het
    · obtain ⟨t, ht, het⟩ := mem_botEnts.mp h1
      exact hcov t (List.mem_append_right _ ht) e het
  have hov := (cdHasOverlap_false hov).2
  unfold checkOverlap at hov
  rw [hkr] at hov
  simp only at hov
  apply readLv_eq_none
  intro tbls htb t ht x hx hk
  obtain ⟨j, hj, rfl⟩ := List.getElem_of_mem htb
  have hjl : cd.nextLevel + 1 + j < s.levels.length := by simp at hj; omega
  have hlv : s.levels[cd.nextLevel + 1 + j]? = some (s.levels.drop (cd.nextLevel + 1))[j] := by
    rw [List.getElem_drop]; exact List.getElem?_eq_getElem hjl
  have hnov : tblOverlaps lo hi t = false := by
    have h1 := List.any_eq_false.mp hov (cd.nextLevel + 1 + j, (s.levels.drop (cd.nextLevel + 1))[j])
      ((mem_zipIdx _ _ _).mpr hlv)
    simp only [Bool.and_eq_true, decide_eq_true_eq, not_and] at h1
    have h2 := h1 (by omega)
    have h3 := List.any_eq_false.mp (by simpa using h2) t ht
    simpa using h3
  have htok : TblOk t := (h.level hlv).1 t ht
  have hver : ∀ y ∈ t.ents, y.ver ≤ maxU64 :=
    fun y hy => hv y (mem_allEntries.mpr (.inr (.inr ⟨_, _, t, hlv, ht, hy⟩)))
  rcases not_overlap_sides htok hver hlo hhi hnov with hs | hs
  · exact hecov.1 (hk ▸ hs x hx)
  · exact hecov.2 (hk ▸ hs x hx)

/-- the per-key heart of C12: the merged-and-filtered run reads like the merged run, except that a
    dead newest version may have been dropped when nothing of its key lives further down -/
theorem reads_core {s : Lsm} {cd : CompactDef} {d n now' now ts : Nat} {k : Bytes} (h : LsmInv s)
    (hv : VerBound s) (hc : CompactOk s cd) (hdp : cd.dropPrefixes = []) (hn : 1 ≤ cd.nextLevel)
    (hts : d ≤ ts) (hnow : now' ≤ now) {U Z : Option Ent}
    (hZ : cdHasOverlap s cd = false → ∀ e ∈ topEnts s cd ++ botEnts s cd, e.key = k → Z = none)
    (hU : ∀ x e, U = some x → e ∈ topEnts s cd ++ botEnts s cd → e.key = k → e.ver ≤ x.ver) :
    visible now (pick U (pick (newestLE (compactOutput s cd d n now').1 k ts)
        (pick (newestLE (keptEnts s cd) k ts) Z))) =
      visible now (pick U (pick (newestLE (cdMerged s cd) k ts) (pick (newestLE (keptEnts s cd) k ts) Z))) := by
  rw [compactOutput_eq hdp]
  simp only
  apply read_fallthrough
  have hp : ({ discardTs := d, numKeep := n, hasOverlap := cdHasOverlap s cd, now := now', dropPrefixes := [] } : CParams).discardTs ≤ ts := hts
  rcases C12_filter_reads_refined (merged_sorted h hc) rfl hp k with heq | ⟨hnone, hov, e, he, hdead⟩
  · exact .inl heq
  · right
    obtain ⟨m1, m2, _, _⟩ := newestLE_some he
    have hin : e ∈ topEnts s cd ++ botEnts s cd := List.mem_append.mpr (mem_merged m1)
    refine ⟨hnone, e, he, deletedOrExpired_mono hnow hdead, ?_, fun x hx => hU x e hx hin m2⟩
    have h1 := kept_no_key h hv hc hn hin ts
    rw [m2] at h1
    rw [h1, hZ hov e hin m2]; rfl

/-- the tables left on the level of the tops hold, for every user key of the tops, only versions at
    least as new. Automatic for an L0 → Lbase compaction of the OLDEST tables of an age-ordered L0
    (`topsOldest_of_layered`); after an L0 → L0 compaction has re-sorted L0 by `Smallest` it is a
    genuine (decidable) side condition of L0 → Lbase. -/
def _root_.Badger.TopsOldest (s : Lsm) (cd : CompactDef) : Prop :=
  ∀ t ∈ removeIdx (cdThisT s cd) cd.top, ∀ x ∈ t.ents, ∀ t' ∈ cdTops s cd, ∀ e ∈ t'.ents,
    x.key = e.key → e.ver ≤ x.ver

instance (s : Lsm) (cd : CompactDef) : Decidable (TopsOldest s cd) := by unfold TopsOldest; infer_instance

theorem topsOldest_of_layered {s : Lsm} {cd : CompactDef} (h : LsmInv s) (hl : Layered s) (hb : CdBase s cd)
    (hh : IsL0Lbase s cd) : TopsOldest s cd := by
  intro t ht x hx t' ht' e het' hk
  obtain ⟨hthis, _⟩ := this_level h hb
  obtain ⟨j, hj, hjn⟩ := mem_removeIdx.mp ht
  obtain ⟨j', hj'm, hj'⟩ := mem_pickIdx.mp ht'
  obtain ⟨h0, _, hr, _, _⟩ := hh
  rw [h0] at hthis
  have hlt : j' < j := by
    have h1 : j' < cd.top.length := by rw [hr] at hj'm; simpa using hj'm
    have h2 : ¬ j < cd.top.length := by intro h2; apply hjn; rw [hr]; simpa using h2
    omega
  exact layered_l0 hl hthis hj hj' hlt hx het' hk

/-- `reads_core` with the "kept tables do not hold the key" fact as a hypothesis (level 0 has no
    key-disjointness to derive it from) -/
theorem reads_core' {s : Lsm} {cd : CompactDef} {d n now' now ts : Nat} {k : Bytes} (h : LsmInv s)
    (hc : CompactOk s cd) (hdp : cd.dropPrefixes = [])
    (hts : d ≤ ts) (hnow : now' ≤ now) {U Z : Option Ent}
    (hK : cdHasOverlap s cd = false → ∀ e, newestLE (cdMerged s cd) k ts = some e →
      deletedOrExpired e.emeta e.exp now' = true →
      newestLE (compactOutput s cd d n now').1 k ts = none → newestLE (keptEnts s cd) k ts = none)
    (hZ : cdHasOverlap s cd = false → ∀ e ∈ topEnts s cd ++ botEnts s cd, e.key = k → Z = none)
    (hU : cdHasOverlap s cd = false → ∀ x e, U = some x → e ∈ topEnts s cd ++ botEnts s cd → e.key = k →
      e.ver ≤ x.ver) :
    visible now (pick U (pick (newestLE (compactOutput s cd d n now').1 k ts)
        (pick (newestLE (keptEnts s cd) k ts) Z))) =
      visible now (pick U (pick (newestLE (cdMerged s cd) k ts) (pick (newestLE (keptEnts s cd) k ts) Z))) := by
  have hK' := hK
  rw [compactOutput_eq hdp] at hK' ⊢
  simp only at hK' ⊢
  apply read_fallthrough
  have hp : ({ discardTs := d, numKeep := n, hasOverlap := cdHasOverlap s cd, now := now', dropPrefixes := [] } : CParams).discardTs ≤ ts := hts
  rcases C12_filter_reads_refined (merged_sorted h hc) rfl hp k with heq | ⟨hnone, hov, e, he, hdead⟩
  · exact .inl heq
  · right
    obtain ⟨m1, m2, _, _⟩ := newestLE_some he
    have hin : e ∈ topEnts s cd ++ botEnts s cd := List.mem_append.mpr (mem_merged m1)
    refine ⟨hnone, e, he, deletedOrExpired_mono hnow hdead, ?_, fun x hx => hU hov x e hx hin m2⟩
    rw [hK' hov e he hdead hnone, hZ hov e hin m2]; rfl

/-! ### user-key ranges -/

theorem kle_antisymm {a b : Bytes} (h1 : kle a b) (h2 : kle b a) : a = b := by
  rcases kle_iff.mp h1 with h | h
  · exact absurd h h2
  · exact h

theorem kle_total (a b : Bytes) : kle a b ∨ kle b a := by
  rcases klt_tri a b with h | h | h
  · exact .inl (kle_of_klt h)
  · subst h; exact .inl (kle_refl _)
  · exact .inr (kle_of_klt h)

theorem keyRange_of_ok {t : Tbl} (h : TblOk t) :
    ∃ a b, t.smallest = some a ∧ t.biggest = some b ∧ t.keyRange = some (a.key, b.key) ∧ kle a.key b.key := by
  obtain ⟨a, ha⟩ := smallest_some h.1
  obtain ⟨b, hb⟩ := biggest_some h.1
  refine ⟨a, b, ha, hb, by unfold Tbl.keyRange; rw [ha, hb], ?_⟩
  exact tbl_keys_ge_smallest h.2 ha b (biggest_mem hb)

/-- `r` is the user-key hull of the (non-empty) tables `S` -/
def RangeOf (S : List Tbl) (r : Option (Bytes × Bytes)) : Prop :=
  match r with
  | none => S = []
  | some (lo, hi) =>
    (∀ t ∈ S, ∀ x ∈ t.ents, kle lo x.key ∧ kle x.key hi) ∧
    (∃ t ∈ S, ∃ x ∈ t.ents, x.key = lo) ∧ (∃ t ∈ S, ∃ x ∈ t.ents, x.key = hi)

theorem rangeOf_extend {S : List Tbl} {r : Option (Bytes × Bytes)} (hr : RangeOf S r) {t : Tbl} (ht : TblOk t)
    {a b : Ent} (ha : t.smallest = some a) (hb : t.biggest = some b) :
    RangeOf (S ++ [t]) (rangeExtend r (a.key, b.key)) := by
  have hin : ∀ x ∈ t.ents, kle a.key x.key ∧ kle x.key b.key :=
    fun x hx => ⟨tbl_keys_ge_smallest ht.2 ha x hx, tbl_keys_le_biggest ht.2 hb x hx⟩
  cases r with
  | none =>
    unfold RangeOf at hr; subst hr
    simp only [rangeExtend, RangeOf, List.nil_append, List.mem_singleton, forall_eq, exists_eq_left]
    exact ⟨hin, ⟨a, smallest_mem ha, rfl⟩, ⟨b, biggest_mem hb, rfl⟩⟩
  | some p =>
    obtain ⟨lo, hi⟩ := p
    obtain ⟨h1, ⟨t1, ht1, x1, hx1, e1⟩, ⟨t2, ht2, x2, hx2, e2⟩⟩ := hr
    simp only [rangeExtend, RangeOf]
    refine ⟨?_, ?_, ?_⟩
    · intro t' ht' x hx
      have hx' : (kle lo x.key ∧ kle x.key hi) ∨ (kle a.key x.key ∧ kle x.key b.key) := by
        rcases List.mem_append.mp ht' with h | h
        · exact .inl (h1 t' h x hx)
        · simp at h; subst h; exact .inr (hin x hx)
      constructor
      · by_cases hc : cmpBytes a.key lo = .lt
        · simp only [hc, beq_self_eq_true, if_true]
          rcases hx' with h | h
          · exact kle_trans (kle_of_klt hc) h.1
          · exact h.1
        · have : (cmpBytes a.key lo == .lt) = false := by simp [hc]
          simp only [this, Bool.false_eq_true, if_false]
          rcases hx' with h | h
          · exact h.1
          · exact kle_trans hc h.1
      · by_cases hc : cmpBytes b.key hi = .gt
        · simp only [hc, beq_self_eq_true, if_true]
          rcases hx' with h | h
          · exact kle_trans h.2 (kle_of_klt ((cmpBytes_gt_iff _ _).mp hc))
          · exact h.2
        · have : (cmpBytes b.key hi == .gt) = false := by simp [hc]
          simp only [this, Bool.false_eq_true, if_false]
          rcases hx' with h | h
          · exact h.2
          · exact kle_trans h.2 (fun hlt => hc ((cmpBytes_gt_iff _ _).mpr hlt))
    · by_cases hc : cmpBytes a.key lo = .lt
      · simp only [hc, beq_self_eq_true, if_true]
        exact ⟨t, by simp, a, smallest_mem ha, rfl⟩
      · have : (cmpBytes a.key lo == .lt) = false := by simp [hc]
        simp only [this, Bool.false_eq_true, if_false]
        exact ⟨t1, List.mem_append_left _ ht1, x1, hx1, e1⟩
    · by_cases hc : cmpBytes b.key hi = .gt
      · simp only [hc, beq_self_eq_true, if_true]
        exact ⟨t, by simp, b, biggest_mem hb, rfl⟩
      · have : (cmpBytes b.key hi == .gt) = false := by simp [hc]
        simp only [this, Bool.false_eq_true, if_false]
        exact ⟨t2, List.mem_append_left _ ht2, x2, hx2, e2⟩

theorem rangeOf_foldl {f : Option (Bytes × Bytes) → Tbl → Option (Bytes × Bytes)}
    (hf : ∀ r t d, t.keyRange = some d → f r t = rangeExtend r d)
    {S ts : List Tbl} {r : Option (Bytes × Bytes)} (hr : RangeOf S r) (hok : ∀ t ∈ ts, TblOk t) :
    RangeOf (S ++ ts) (ts.foldl f r) := by
  induction ts generalizing S r with
  | nil => simpa using hr
  | cons t ts ih =>
    obtain ⟨a, b, ha, hb, hkr, _⟩ := keyRange_of_ok (hok t (by simp))
    simp only [List.foldl_cons, hf r t _ hkr]
    have := ih (rangeOf_extend hr (hok t (by simp)) ha hb) (fun t' ht' => hok t' (List.mem_cons_of_mem _ ht'))
    simpa using this

theorem rangeOfTables_spec {ts : List Tbl} (hok : ∀ t ∈ ts, TblOk t) : RangeOf ts (rangeOfTables ts) := by
  unfold rangeOfTables
  have h := fun f hf => @rangeOf_foldl f hf [] ts none (by simp [RangeOf]) hok
  simp only [List.nil_append] at h
  apply h
  intro r t d hd; simp only [hd]

/-- an L0 → Lbase choice that leaves no overlapping L0 table behind: the tables left in L0 share no
    user key with the tops — whatever the order of L0 -/
theorem topsOldest_of_noLeftBehind {s : Lsm} {cd : CompactDef} (h : LsmInv s) (hth : cd.thisLevel < s.levels.length)
    (h0 : cd.thisLevel = 0) (hlb : cdLeftBehind s cd = false) : TopsOldest s cd := by
  have hthis := levels_getD hth
  have hok : ∀ t ∈ cdThisT s cd, TblOk t := (h.level hthis).1
  have htok : ∀ t ∈ cdTops s cd, TblOk t := fun t ht => hok t (tops_mem ht)
  unfold cdLeftBehind at hlb
  simp only [h0, beq_self_eq_true, Bool.true_and] at hlb
  intro t ht x hx t' ht' e he hk
  exfalso
  have hno := List.any_eq_false.mp hlb t ht
  obtain ⟨a, b, ha, hb, hkr, _⟩ := keyRange_of_ok (hok t ((removeIdx_sublist _ _).subset ht))
  rw [hkr] at hno
  simp only [Bool.not_eq_true] at hno
  have hsp := rangeOfTables_spec htok
  cases hr : rangeOfTables (cdTops s cd) with
  | none =>
    rw [hr] at hsp; unfold RangeOf at hsp; rw [hsp] at ht'; simp at ht'
  | some p =>
    obtain ⟨lo, hi⟩ := p
    rw [hr] at hsp hno
    obtain ⟨hcov, _, _⟩ := hsp
    obtain ⟨h1, h2⟩ := hcov t' ht' e he
    have hx1 := tbl_keys_ge_smallest (hok t ((removeIdx_sublist _ _).subset ht)).2 ha x hx
    have hx2 := tbl_keys_le_biggest (hok t ((removeIdx_sublist _ _).subset ht)).2 hb x hx
    unfold rangeOverlaps at hno
    simp only [Bool.and_eq_false_iff, bne_eq_false_iff_eq] at hno
    rcases hno with h3 | h3
    · -- lo > b.key, but lo ≤ e.key = x.key ≤ b.key
      exact (kle_trans h1 (hk ▸ hx2)) ((cmpBytes_gt_iff _ _).mp h3)
    · -- hi < a.key, but a.key ≤ x.key = e.key ≤ hi
      exact (kle_trans hx1 (hk ▸ h2)) h3

/-- a table that stays on the level of the tops holds newer versions (L0, by `TopsOldest`), or shares
    no user key with them (levels `≥ 1`) -/
theorem rem_vs_tops {s : Lsm} {cd : CompactDef} (h : LsmInv s) (hc : CompactOk s cd)
    (hto : cd.thisLevel = 0 → TopsOldest s cd)
    (hne : cd.thisLevel ≠ cd.nextLevel) {t : Tbl} (ht : t ∈ removeIdx (cdThisT s cd) cd.top) {x e : Ent}
    (hx : x ∈ t.ents) (he : e ∈ topEnts s cd) (hk : x.key = e.key) : e.ver ≤ x.ver := by
  obtain ⟨hb, hcase⟩ := hc
  obtain ⟨hthis, htok⟩ := this_level h hb
  obtain ⟨j, hj, hjn⟩ := mem_removeIdx.mp ht
  obtain ⟨t', ht', het'⟩ := mem_topEnts.mp he
  obtain ⟨j', hj'm, hj'⟩ := mem_pickIdx.mp ht'
  have hkd : 1 ≤ cd.thisLevel → e.ver ≤ x.ver := by
    intro h1
    exfalso
    rcases level_sep_of_ne (htok.2 h1) hj hj' (by intro e'; subst e'; exact hjn hj'm) with hs | hs
    · exact klt_ne (hs x hx e het') hk
    · exact klt_ne (hs e het' x hx) hk.symm
  rcases hcase with hh | hh | hh | hh
  · exact hto hh.1 t ht x hx t' ht' e het' hk
  · exact hkd hh.1
  · exact absurd (hh.1.trans hh.2.1.symm) hne
  · exact absurd hh.2.1.symm hne

/-- where an input entry of the compaction is stored -/
theorem input_level {s : Lsm} {cd : CompactDef} (h : LsmInv s) (hb : CdBase s cd) {e : Ent}
    (he : e ∈ topEnts s cd ++ botEnts s cd) :
    (∃ t, s.levels[cd.thisLevel]? = some (cdThisT s cd) ∧ t ∈ cdThisT s cd ∧ e ∈ t.ents ∧ e ∈ topEnts s cd) ∨
    (∃ t, s.levels[cd.nextLevel]? = some (cdNextT s cd) ∧ t ∈ cdNextT s cd ∧ e ∈ t.ents ∧ e ∈ botEnts s cd) := by
  rcases List.mem_append.mp he with h1 | h1
  · obtain ⟨t, ht, het⟩ := mem_topEnts.mp h1
    exact .inl ⟨t, (this_level h hb).1, tops_mem ht, het, h1⟩
  · obtain ⟨t, ht, het⟩ := mem_botEnts.mp h1
    exact .inr ⟨t, (next_level h hb).1, bots_mem ht, het, h1⟩

theorem thisT_eq {s : Lsm} {cd : CompactDef} (h : cd.thisLevel < s.levels.length) :
    s.levels[cd.thisLevel] = cdThisT s cd := by
  unfold cdThisT; rw [List.getD_eq_getElem?_getD, List.getElem?_eq_getElem h]; rfl

theorem nextT_eq {s : Lsm} {cd : CompactDef} (h : cd.nextLevel < s.levels.length) :
    s.levels[cd.nextLevel] = cdNextT s cd := by
  unfold cdNextT; rw [List.getD_eq_getElem?_getD, List.getElem?_eq_getElem h]; rfl

/-- the candidates of `k` found before the compacted tables are at least as new as them -/
theorem upper_rec {s : Lsm} {cd : CompactDef} (h : LsmInv s) (hl : LayeredX s) (hc : CompactOk s cd)
    (hle : cd.thisLevel ≤ cd.nextLevel) {k : Bytes} {ts : Nat} {x e : Ent}
    (hx : pick (newestLE (memEnts s) k ts) (readLv k ts 0 (s.levels.take cd.thisLevel)) = some x)
    (he : e ∈ topEnts s cd ++ botEnts s cd) (hk : e.key = k) : e.ver ≤ x.ver := by
  have hlev : ∃ (i : Nat) (tbls : List Tbl) (t : Tbl), s.levels[i]? = some tbls ∧ t ∈ tbls ∧ e ∈ t.ents ∧ cd.thisLevel ≤ i := by
    rcases input_level h hc.1 he with ⟨t, h1, h2, h3, _⟩ | ⟨t, h1, h2, h3, _⟩
    · exact ⟨_, _, t, h1, h2, h3, Nat.le_refl _⟩
    · exact ⟨_, _, t, h1, h2, h3, hle⟩
  obtain ⟨i, tbls, t, hi, ht, het, hge⟩ := hlev
  rcases pick_some hx with ⟨h1, _⟩ | ⟨h1, _⟩
  · obtain ⟨m1, m2, _, _⟩ := newestLE_some h1
    exact layeredX_mem_level hl m1 hi ht het (m2.trans hk.symm)
  · obtain ⟨j, tbls', t', hj, ht', hxt', hxk, _⟩ := readLv_some h1
    have hjlt : j < cd.thisLevel := by
      have := (List.getElem?_eq_some_iff.mp hj).1
      simp at this; omega
    have hj' : s.levels[j]? = some tbls' := by
      rw [List.getElem?_take] at hj; simpa [hjlt] using hj
    exact layeredX_levels hl hj' hi (by omega) ht' ht hxt' het (hxk.trans hk.symm)

/-- L0→Lbase and Li→Li+1: two different levels, nothing in between -/
theorem compact_reads_two {s s' : Lsm} {cd : CompactDef} {d n now' now ts : Nat} {k : Bytes} (h : LsmInv s)
    (hv : VerBound s) (hl : LayeredX s) (hc : CompactOk s cd) (hto : cd.thisLevel = 0 → TopsOldest s cd)
    (hdp : cd.dropPrefixes = [])
    (hs : s.compact cd d n now' = some s') (hts : d ≤ ts) (hnow : now' ≤ now)
    (hpq : cd.thisLevel < cd.nextLevel)
    (hM : readLv k ts (cd.thisLevel + 1)
      ((s.levels.drop (cd.thisLevel + 1)).take (cd.nextLevel - cd.thisLevel - 1)) = none) :
    visible now (s'.get k ts) = visible now (s.get k ts) := by
  have hinvW := compact_invW h hv hc hs
  obtain ⟨new0, hsp, rfl⟩ := compact_some hs
  have hne : cd.thisLevel ≠ cd.nextLevel := by omega
  have hn : 1 ≤ cd.nextLevel := by omega
  have hq := hc.1.2.1
  rw [get_eq_newestLE hinvW, get_eq_newestLE (lsmInv_weaken h), newestLE_allEntries, newestLE_allEntries]
  have hmem : memEnts ({ s with levels := newLevels s cd new0 } : Lsm) = memEnts s := rfl
  rw [hmem]
  simp only
  have hnl : newLevels s cd new0 =
      (s.levels.set cd.nextLevel (newNext s cd new0)).set cd.thisLevel (removeIdx (cdThisT s cd) cd.top) := by
    unfold newLevels; rw [if_neg hne]
  rw [hnl, readLv_two k ts hpq hq, readLv_two_self k ts hpq hq, thisT_eq (by omega), nextT_eq hq, hM,
    nl_this_split h hc hne, nl_next_old h hc hne hn, nl_next_new h hv hc hsp hn]
  have core := reads_core' (s := s) (cd := cd) (d := d) (n := n) (now' := now') (now := now) (ts := ts) (k := k)
    h hc hdp hts hnow
    (U := pick (pick (newestLE (memEnts s) k ts) (readLv k ts 0 (s.levels.take cd.thisLevel)))
      (newestLE (lvlChunk cd.thisLevel (removeIdx (cdThisT s cd) cd.top)) k ts))
    (Z := readLv k ts (cd.nextLevel + 1) (s.levels.drop (cd.nextLevel + 1)))
    (by
      intro _ e he _ _
      obtain ⟨m1, m2, _, _⟩ := newestLE_some he
      have := kept_no_key h hv hc hn (List.mem_append.mpr (mem_merged m1)) ts
      rwa [m2] at this)
    (by
      intro hov e he hk
      have := below_no_key h hv hc hov he ts
      rwa [hk] at this)
    (by
      intro _ x e hx he hk
      rcases pick_some hx with ⟨h1, _⟩ | ⟨h1, _⟩
      · exact upper_rec h hl hc (by omega) h1 he hk
      · obtain ⟨m1, m2, _, _⟩ := newestLE_some h1
        obtain ⟨t, ht, hxt⟩ := mem_lvlChunk.mp m1
        rcases input_level h hc.1 he with ⟨_, _, _, _, h5⟩ | ⟨t', h2, h3, h4, _⟩
        · exact rem_vs_tops h hc hto hne ht hxt h5 (m2.trans hk.symm)
        · exact layeredX_levels hl (this_level h hc.1).1 h2 hpq ((removeIdx_sublist _ _).subset ht) h3 hxt h4
            (m2.trans hk.symm))
  rw [nl_merged h hc] at core
  simp only [pick_assoc, pick_none_left] at core ⊢
  exact core

theorem pickIdx_append {α : Type} (l : List α) (a b : List Nat) : pickIdx l (a ++ b) = pickIdx l a ++ pickIdx l b := by
  unfold pickIdx; rw [List.filterMap_append]

/-- the last level before a same-level compaction -/
theorem nl_next_old_same {s : Lsm} {cd : CompactDef} (h : LsmInv s) (hc : CompactOk s cd)
    (heq : cd.nextLevel = cd.thisLevel) (hn : 1 ≤ cd.nextLevel) (k : Bytes) (ts : Nat) :
    newestLE (lvlChunk cd.nextLevel (cdNextT s cd)) k ts =
      pick (pick (newestLE (lvlChunk cd.thisLevel (cdTops s cd)) k ts) (newestLE (botEnts s cd) k ts))
        (newestLE (keptEnts s cd) k ts) := by
  obtain ⟨_, hnok⟩ := next_level h hc.1
  rw [← newestLE_append]
  apply newestLE_union
  · unfold lvlChunk; rw [if_neg (by omega)]
    exact (levelOk_weaken hnok).2 hn
  · intro e
    rw [List.mem_append, mem_lvlChunk, mem_lvlChunk, mem_botEnts, mem_keptEnts]
    unfold keptIdx cdBots cdTops; rw [if_pos heq.symm, ← nextT_eq_thisT (s := s) heq]
    constructor
    · rintro ⟨t, ht, he⟩
      rcases (mem_pick_or_remove _ (cd.top ++ cd.bot) t).mp ht with h1 | h1
      · rw [pickIdx_append] at h1
        rcases List.mem_append.mp h1 with h2 | h2
        · exact .inl (.inl ⟨t, h2, he⟩)
        · exact .inl (.inr ⟨t, h2, he⟩)
      · exact .inr ⟨t, h1, he⟩
    · rintro ((⟨t, ht, he⟩ | ⟨t, ht, he⟩) | ⟨t, ht, he⟩)
      · exact ⟨t, (mem_pick_or_remove _ (cd.top ++ cd.bot) t).mpr
          (.inl (by rw [pickIdx_append]; exact List.mem_append_left _ ht)), he⟩
      · exact ⟨t, (mem_pick_or_remove _ (cd.top ++ cd.bot) t).mpr
          (.inl (by rw [pickIdx_append]; exact List.mem_append_right _ ht)), he⟩
      · exact ⟨t, (mem_pick_or_remove _ (cd.top ++ cd.bot) t).mpr (.inr ht), he⟩

/-- Lmax→Lmax: one level `≥ 1`, rewritten in place -/
theorem compact_reads_same {s s' : Lsm} {cd : CompactDef} {d n now' now ts : Nat} {k : Bytes} (h : LsmInv s)
    (hv : VerBound s) (hl : LayeredX s) (hc : CompactOk s cd) (hdp : cd.dropPrefixes = [])
    (hs : s.compact cd d n now' = some s') (hts : d ≤ ts) (hnow : now' ≤ now)
    (heq : cd.nextLevel = cd.thisLevel) (hn : 1 ≤ cd.nextLevel) :
    visible now (s'.get k ts) = visible now (s.get k ts) := by
  have hinvW := compact_invW h hv hc hs
  obtain ⟨new0, hsp, rfl⟩ := compact_some hs
  have hq := hc.1.2.1
  rw [get_eq_newestLE hinvW, get_eq_newestLE (lsmInv_weaken h), newestLE_allEntries, newestLE_allEntries]
  have hmem : memEnts ({ s with levels := newLevels s cd new0 } : Lsm) = memEnts s := rfl
  rw [hmem]
  simp only
  have hnl : newLevels s cd new0 = s.levels.set cd.nextLevel (newNext s cd new0) := by
    unfold newLevels; rw [if_pos heq.symm]
  rw [hnl, readLv_split k ts hq, readLv_split_self k ts hq, nextT_eq hq, nl_next_old_same h hc heq hn,
    nl_next_new h hv hc hsp hn]
  have core := reads_core (s := s) (cd := cd) (d := d) (n := n) (now' := now') (now := now) (ts := ts) (k := k)
    h hv hc hdp hn hts hnow
    (U := pick (newestLE (memEnts s) k ts) (readLv k ts 0 (s.levels.take cd.nextLevel)))
    (Z := readLv k ts (cd.nextLevel + 1) (s.levels.drop (cd.nextLevel + 1)))
    (by
      intro hov e he hk
      have := below_no_key h hv hc hov he ts
      rwa [hk] at this)
    (by
      intro x e hx he hk
      rw [heq] at hx
      exact upper_rec h hl hc (by omega) hx he hk)
  rw [nl_merged h hc] at core
  simp only [pick_assoc] at core ⊢
  exact core

/-- where an entry of the state after a compaction was stored before it -/
theorem entry_origin {s : Lsm} {cd : CompactDef} {d n now : Nat} {new0 : List Tbl} (h : LsmInv s)
    (hc : CompactOk s cd) (hsp : splitSizes cd.outSizes (compactOutput s cd d n now).1 = some new0)
    {i : Nat} {tbls : List Tbl} {t : Tbl} {e : Ent}
    (hi : (newLevels s cd new0)[i]? = some tbls) (ht : t ∈ tbls) (he : e ∈ t.ents) :
    (i ≠ cd.thisLevel ∧ i ≠ cd.nextLevel ∧ s.levels[i]? = some tbls) ∨
    (i = cd.thisLevel ∧ cd.thisLevel ≠ cd.nextLevel ∧ t ∈ removeIdx (cdThisT s cd) cd.top) ∨
    (i = cd.nextLevel ∧ t ∈ removeIdx (cdNextT s cd) (keptIdx cd)) ∨
    (i = cd.nextLevel ∧ e ∈ topEnts s cd) ∨ (i = cd.nextLevel ∧ e ∈ botEnts s cd) := by
  rw [newLevels_get new0 hc.1.1 hc.1.2.1] at hi
  split at hi
  · rename_i hcond
    simp at hi; subst hi
    exact .inr (.inl ⟨hcond.1, hcond.2, ht⟩)
  · rename_i hcond
    split at hi
    · rename_i hnx
      simp at hi; subst hi
      rw [newNext_eq] at ht
      rcases List.mem_append.mp (mem_sortBySmallest.mp ht) with ht | ht
      · exact .inr (.inr (.inl ⟨hnx, ht⟩))
      · rcases mem_compactOutput (((new_tables h hc hsp).1 t ht).2 e he) with h1 | h1
        · exact .inr (.inr (.inr (.inl ⟨hnx, h1⟩)))
        · exact .inr (.inr (.inr (.inr ⟨hnx, h1⟩)))
    · rename_i hnx
      refine .inl ⟨?_, hnx, hi⟩
      intro hth
      by_cases hne : cd.thisLevel = cd.nextLevel
      · exact hnx (hth.trans hne)
      · exact hcond ⟨hth, hne⟩

/-- `e` is stored in a table of level `i` -/
def InLevel (s : Lsm) (i : Nat) (e : Ent) : Prop :=
  ∃ (tbls : List Tbl) (t : Tbl), s.levels[i]? = some tbls ∧ t ∈ tbls ∧ e ∈ t.ents

theorem entry_origin_level {s : Lsm} {cd : CompactDef} {d n now : Nat} {new0 : List Tbl} (h : LsmInv s)
    (hc : CompactOk s cd) (hsp : splitSizes cd.outSizes (compactOutput s cd d n now).1 = some new0)
    {i : Nat} {tbls : List Tbl} {t : Tbl} {e : Ent}
    (hi : (newLevels s cd new0)[i]? = some tbls) (ht : t ∈ tbls) (he : e ∈ t.ents) :
    InLevel s i e ∨ (i = cd.nextLevel ∧ e ∈ topEnts s cd ∧ InLevel s cd.thisLevel e) := by
  rcases entry_origin h hc hsp hi ht he with ⟨_, _, h3⟩ | ⟨h1, _, h3⟩ | ⟨h1, h3⟩ | ⟨h1, h3⟩ | ⟨h1, h3⟩
  · exact .inl ⟨tbls, t, h3, ht, he⟩
  · exact .inl ⟨_, t, h1 ▸ (this_level h hc.1).1, (removeIdx_sublist _ _).subset h3, he⟩
  · exact .inl ⟨_, t, h1 ▸ (next_level h hc.1).1, (removeIdx_sublist _ _).subset h3, he⟩
  · obtain ⟨tt, htt, hett⟩ := mem_topEnts.mp h3
    exact .inr ⟨h1, h3, _, tt, (this_level h hc.1).1, tops_mem htt, hett⟩
  · obtain ⟨tt, htt, hett⟩ := mem_botEnts.mp h3
    exact .inl ⟨_, tt, h1 ▸ (next_level h hc.1).1, bots_mem htt, hett⟩

theorem this_le_next {s : Lsm} {cd : CompactDef} (hc : CompactOk s cd) : cd.thisLevel ≤ cd.nextLevel := by
  rcases hc.2 with hh | hh | hh | hh
  · rw [hh.1]; omega
  · rw [hh.2.1]; omega
  · rw [hh.1, hh.2.1]; omega
  · rw [hh.2.1]; omega

/-- no table sits strictly between the two levels of a compaction -/
theorem between_empty {s : Lsm} {cd : CompactDef} (hc : CompactOk s cd) {i : Nat} {tbls : List Tbl}
    (h1 : cd.thisLevel < i) (h2 : i < cd.nextLevel) (hi : s.levels[i]? = some tbls) : tbls = [] := by
  rcases hc.2 with hh | hh | hh | hh
  · have := hh.2.2.2.1 i h2 (by omega)
    rw [List.getD_eq_getElem?_getD, hi] at this
    simpa using this
  · rw [hh.2.1] at h2; omega
  · rw [hh.2.1] at h2; omega
  · rw [hh.2.1] at h2; omega

theorem isL0Lbase_of {s : Lsm} {cd : CompactDef} (hc : CompactOk s cd) (h0 : cd.thisLevel = 0)
    (hne : cd.thisLevel ≠ cd.nextLevel) : IsL0Lbase s cd := by
  rcases hc.2 with hh | hh | hh | hh
  · exact hh
  · have := hh.1; omega
  · exact absurd (hh.1.trans hh.2.1.symm) hne
  · have := hh.1; omega

/-- (C) recency is preserved by every well-formed compaction other than L0 → L0 -/
theorem compact_layered {s s' : Lsm} {cd : CompactDef} {d n now : Nat} (h : LsmInv s) (hl : Layered s)
    (hc : CompactOk s cd) (hnot : ¬ IsL0L0 s cd) (hs : s.compact cd d n now = some s') : Layered s' := by
  obtain ⟨new0, hsp, rfl⟩ := compact_some hs
  obtain ⟨p1, p2, p3, p4⟩ := (layered_iff s).mp hl
  have hle := this_le_next hc
  rw [layered_iff]
  refine ⟨p1, ?_, ?_, ?_⟩
  · intro x hx i tbls t hi ht e he hk
    rcases entry_origin_level h hc hsp hi ht he with ⟨tb, t0, h1, h2, h3⟩ | ⟨_, _, tb, t0, h1, h2, h3⟩
    · exact p2 x hx _ tb t0 h1 h2 e h3 hk
    · exact p2 x hx _ tb t0 h1 h2 e h3 hk
  · intro i i' tbls tbls' t t' hi hi' hlt ht ht' x hx e he hk
    simp only at hi hi'
    rcases entry_origin_level h hc hsp hi' ht' he with ⟨tb', t0', g1, g2, g3⟩ | ⟨gnext, gtop, _⟩
    · rcases entry_origin_level h hc hsp hi ht hx with ⟨tb, t0, f1, f2, f3⟩ | ⟨fnext, _, tb, t0, f1, f2, f3⟩
      · exact p3 i i' tb tb' t0 t0' f1 g1 hlt f2 g2 x f3 e g3 hk
      · exact p3 _ i' tb tb' t0 t0' f1 g1 (by omega) f2 g2 x f3 e g3 hk
    · rcases entry_origin h hc hsp hi ht hx with ⟨n1, n2, f3⟩ | ⟨f1, f2, f3⟩ | ⟨f1, _⟩ | ⟨f1, _⟩ | ⟨f1, _⟩
      · obtain ⟨tt, htt, hett⟩ := mem_topEnts.mp gtop
        by_cases hlow : i < cd.thisLevel
        · exact p3 i _ tbls _ t tt f3 (this_level h hc.1).1 hlow ht (tops_mem htt) x hx e hett hk
        · have := between_empty hc (by omega) (by omega) f3
          rw [this] at ht; simp at ht
      · exact rem_vs_tops h hc (fun h0 => topsOldest_of_layered h hl hc.1 (isL0Lbase_of hc h0 f2)) f2 f3 hx gtop hk
      · omega
      · omega
      · omega
  · intro l0 j j' a b h0 hj hj' hlt
    simp only at h0
    rw [newLevels_get new0 hc.1.1 hc.1.2.1] at h0
    split at h0
    · rename_i hcond
      simp at h0; subst h0
      rcases hc.2 with hh | hh | hh | hh
      · obtain ⟨h0', _, hr, _, _⟩ := hh
        have hrem : removeIdx (cdThisT s cd) cd.top = (cdThisT s cd).drop cd.top.length := by
          have : removeIdx (cdThisT s cd) cd.top = removeIdx (cdThisT s cd) (List.range cd.top.length) := by rw [← hr]
          rw [this, removeIdx_range]
        rw [hrem, List.getElem?_drop] at hj hj'
        have hthis := (this_level h hc.1).1
        rw [h0'] at hthis
        exact p4 _ _ _ a b hthis hj hj' (by omega)
      · have := hh.1; omega
      · exact absurd hh hnot
      · have := hh.1; omega
    · split at h0
      · rename_i hnx
        exfalso
        rcases hc.2 with hh | hh | hh | hh
        · have := hh.2.1; omega
        · have := hh.2.1; omega
        · exact hnot hh
        · have := hh.1; have := hh.2.1; omega
      · exact p4 l0 j j' a b h0 hj hj' hlt

theorem flush_layered {s : Lsm} (hl : Layered s) (himm : s.imm = []) (id : Nat) : Layered (s.flush id) := by
  rcases flush_eq_self_or s id with he | ⟨l0, rest, hlv, _, he⟩
  · rw [he]; exact hl
  · rw [he]
    obtain ⟨p1, p2, p3, p4⟩ := (layered_iff s).mp hl
    rw [layered_iff]
    have hM : ∀ x ∈ s.mem, x ∈ memEnts s := fun x hx => mem_memEnts.mpr ⟨s.mem, by simp, hx⟩
    refine ⟨?_, ?_, ?_, ?_⟩
    · simp [himm]
    · intro x hx
      exfalso
      unfold memEnts at hx; simp [himm] at hx
    · intro i i' tbls tbls' t t' hi hi' hlt ht ht' x hx e he' hk
      simp only at hi hi'
      cases i' with
      | zero => omega
      | succ j' =>
        have hi'' : s.levels[j' + 1]? = some tbls' := by rw [hlv]; simpa using hi'
        cases i with
        | zero =>
          simp at hi; subst hi
          rcases List.mem_append.mp ht with ht | ht
          · exact p3 0 (j' + 1) l0 tbls' t t' (by rw [hlv]; rfl) hi'' (by omega) ht ht' x hx e he' hk
          · simp at ht; subst ht
            exact p2 x (hM x hx) (j' + 1) tbls' t' hi'' ht' e he' hk
        | succ j =>
          have hi2 : s.levels[j + 1]? = some tbls := by rw [hlv]; simpa using hi
          exact p3 (j + 1) (j' + 1) tbls tbls' t t' hi2 hi'' hlt ht ht' x hx e he' hk
    · intro l0' j j' a b h0 hj hj' hlt x hx e he' hk
      simp at h0; subst h0
      have h0s : s.levels[0]? = some l0 := by rw [hlv]; rfl
      have hb : l0[j']? = some b := by
        have hjl := (List.getElem?_eq_some_iff.mp hj).1
        simp at hjl
        rw [List.getElem?_append_left (by omega)] at hj'
        exact hj'
      by_cases hjl : j < l0.length
      · rw [List.getElem?_append_left hjl] at hj
        exact p4 l0 j j' a b h0s hj hb hlt x hx e he' hk
      · have hjl2 := (List.getElem?_eq_some_iff.mp hj).1
        simp at hjl2
        have : j = l0.length := by omega
        subst this
        simp at hj; subst hj
        exact p2 x (hM x hx) 0 l0 b h0s (List.mem_of_getElem? hb) e he' hk

/-- (C) cross-source recency `LayeredX` is preserved by EVERY well-formed compaction, L0 → L0
    included; for L0 → Lbase under `TopsOldest` (automatic when L0 is in age order) -/
theorem compact_layeredX {s s' : Lsm} {cd : CompactDef} {d n now : Nat} (h : LsmInv s) (hl : LayeredX s)
    (hc : CompactOk s cd) (hto : IsL0Lbase s cd → TopsOldest s cd)
    (hs : s.compact cd d n now = some s') : LayeredX s' := by
  obtain ⟨new0, hsp, rfl⟩ := compact_some hs
  obtain ⟨p1, p2, p3⟩ := (layeredX_iff s).mp hl
  have hle := this_le_next hc
  rw [layeredX_iff]
  refine ⟨p1, ?_, ?_⟩
  · intro x hx i tbls t hi ht e he hk
    rcases entry_origin_level h hc hsp hi ht he with ⟨tb, t0, h1, h2, h3⟩ | ⟨_, _, tb, t0, h1, h2, h3⟩
    · exact p2 x hx _ tb t0 h1 h2 e h3 hk
    · exact p2 x hx _ tb t0 h1 h2 e h3 hk
  · intro i i' tbls tbls' t t' hi hi' hlt ht ht' x hx e he hk
    simp only at hi hi'
    rcases entry_origin_level h hc hsp hi' ht' he with ⟨tb', t0', g1, g2, g3⟩ | ⟨gnext, gtop, _⟩
    · rcases entry_origin_level h hc hsp hi ht hx with ⟨tb, t0, f1, f2, f3⟩ | ⟨fnext, _, tb, t0, f1, f2, f3⟩
      · exact p3 i i' tb tb' t0 t0' f1 g1 hlt f2 g2 x f3 e g3 hk
      · exact p3 _ i' tb tb' t0 t0' f1 g1 (by omega) f2 g2 x f3 e g3 hk
    · rcases entry_origin h hc hsp hi ht hx with ⟨n1, n2, f3⟩ | ⟨f1, f2, f3⟩ | ⟨f1, _⟩ | ⟨f1, _⟩ | ⟨f1, _⟩
      · obtain ⟨tt, htt, hett⟩ := mem_topEnts.mp gtop
        by_cases hlow : i < cd.thisLevel
        · exact p3 i _ tbls _ t tt f3 (this_level h hc.1).1 hlow ht (tops_mem htt) x hx e hett hk
        · have := between_empty hc (by omega) (by omega) f3
          rw [this] at ht; simp at ht
      · exact rem_vs_tops h hc (fun h0 => hto (isL0Lbase_of hc h0 f2)) f2 f3 hx gtop hk
      · omega
      · omega
      · omega

theorem flush_layeredX {s : Lsm} (hl : LayeredX s) (himm : s.imm = []) (id : Nat) : LayeredX (s.flush id) := by
  rcases flush_eq_self_or s id with he | ⟨l0, rest, hlv, _, he⟩
  · rw [he]; exact hl
  · rw [he]
    obtain ⟨p1, p2, p3⟩ := (layeredX_iff s).mp hl
    rw [layeredX_iff]
    have hM : ∀ x ∈ s.mem, x ∈ memEnts s := fun x hx => mem_memEnts.mpr ⟨s.mem, by simp, hx⟩
    refine ⟨?_, ?_, ?_⟩
    · simp [himm]
    · intro x hx
      exfalso
      unfold memEnts at hx; simp [himm] at hx
    · intro i i' tbls tbls' t t' hi hi' hlt ht ht' x hx e he' hk
      simp only at hi hi'
      cases i' with
      | zero => omega
      | succ j' =>
        have hi'' : s.levels[j' + 1]? = some tbls' := by rw [hlv]; simpa using hi'
        cases i with
        | zero =>
          simp at hi; subst hi
          rcases List.mem_append.mp ht with ht | ht
          · exact p3 0 (j' + 1) l0 tbls' t t' (by rw [hlv]; rfl) hi'' (by omega) ht ht' x hx e he' hk
          · simp at ht; subst ht
            exact p2 x (hM x hx) (j' + 1) tbls' t' hi'' ht' e he' hk
        | succ j =>
          have hi2 : s.levels[j + 1]? = some tbls := by rw [hlv]; simpa using hi
          exact p3 (j + 1) (j' + 1) tbls tbls' t t' hi2 hi'' hlt ht ht' x hx e he' hk

end LL

/-- no internal key occurs in two different tables -/
def TblsDistinct (l : List Tbl) : Prop :=
  l.Pairwise (fun a b => ∀ x ∈ a.ents, ∀ y ∈ b.ents, x.key = y.key → x.ver ≠ y.ver)

instance (l : List Tbl) : Decidable (TblsDistinct l) := by unfold TblsDistinct; infer_instance

namespace LL

theorem tblsDistinct_perm {l l' : List Tbl} (hp : l.Perm l') : TblsDistinct l ↔ TblsDistinct l' := by
  unfold TblsDistinct
  apply List.Perm.pairwise_iff _ hp
  intro a b hab x hx y hy hk hv
  exact hab y hy x hx hk.symm hv.symm

theorem nl_tables_perm {l l' : List Tbl} (hp : l.Perm l') (hd : TblsDistinct l) (k : Bytes) (ts : Nat) :
    newestLE (l.map (·.ents)).flatten k ts = newestLE (l'.map (·.ents)).flatten k ts := by
  induction hp with
  | nil => rfl
  | cons a _ ih =>
    simp only [List.map_cons, List.flatten_cons, newestLE_append]
    rw [ih (List.pairwise_cons.mp hd).2]
  | swap a b l =>
    simp only [List.map_cons, List.flatten_cons, newestLE_append]
    rw [← pick_assoc, ← pick_assoc]
    congr 1
    apply pick_comm_of_ne
    intro x y hx hy
    obtain ⟨x1, x2, _, _⟩ := newestLE_some hx
    obtain ⟨y1, y2, _, _⟩ := newestLE_some hy
    have := (List.pairwise_cons.mp hd).1 a (by simp)
    exact this x x1 y y1 (x2.trans y2.symm)
  | trans p1 _ ih1 ih2 =>
    rw [ih1 hd, ih2 ((tblsDistinct_perm p1).mp hd)]

theorem nl_chunk0_perm {l l' : List Tbl} (hp : l.Perm l') (hd : TblsDistinct l) (k : Bytes) (ts : Nat) :
    newestLE (lvlChunk 0 l) k ts = newestLE (lvlChunk 0 l') k ts := by
  unfold lvlChunk
  simp only [if_true]
  have hp' : l.reverse.Perm l'.reverse := ((List.reverse_perm l).trans hp).trans (List.reverse_perm l').symm
  exact nl_tables_perm hp' ((tblsDistinct_perm (List.reverse_perm l).symm).mp hd) k ts

end LL
namespace LL

/-- an internal key determines the entry -/
def KVFun (L : List Ent) : Prop := ∀ x ∈ L, ∀ y ∈ L, x.key = y.key → x.ver = y.ver → x = y

theorem kvFun_of_sorted {L : List Ent} (hs : SortedEnts L) : KVFun L :=
  fun _ hx _ hy hk hv => sorted_unique hs hx hy hk hv

theorem newestLE_kvFun_iff {L : List Ent} (hf : KVFun L) {k : Bytes} {ts : Nat} {e : Ent} :
    newestLE L k ts = some e ↔
      e ∈ L ∧ e.key = k ∧ e.ver ≤ ts ∧ ∀ x ∈ L, x.key = k → x.ver ≤ ts → x.ver ≤ e.ver := by
  constructor
  · exact newestLE_some
  · rintro ⟨h1, h2, h3, h4⟩
    cases hr : newestLE L k ts with
    | none => exact absurd ⟨h2, h3⟩ (newestLE_eq_none.mp hr e h1)
    | some r =>
      obtain ⟨r1, r2, r3, r4⟩ := newestLE_some hr
      have hv : r.ver = e.ver := Nat.le_antisymm (h4 r r1 r2 r3) (r4 e h1 h2 h3)
      rw [hf r r1 e h1 (r2.trans h2.symm) hv]

/-- when an internal key determines the entry, the read is determined by the set of members -/
theorem newestLE_union_kv {L A B : List Ent} (hf : KVFun L) (hm : ∀ e, e ∈ L ↔ e ∈ A ∨ e ∈ B)
    (k : Bytes) (ts : Nat) : newestLE L k ts = pick (newestLE A k ts) (newestLE B k ts) := by
  have hmaxA : ∀ x ∈ A, x.key = k → x.ver ≤ ts → ∃ a, newestLE A k ts = some a ∧ x.ver ≤ a.ver := by
    intro x hx hk hv
    cases hr : newestLE A k ts with
    | none => exact absurd ⟨hk, hv⟩ (newestLE_eq_none.mp hr x hx)
    | some a => exact ⟨a, rfl, (newestLE_some hr).2.2.2 x hx hk hv⟩
  have hmaxB : ∀ x ∈ B, x.key = k → x.ver ≤ ts → ∃ a, newestLE B k ts = some a ∧ x.ver ≤ a.ver := by
    intro x hx hk hv
    cases hr : newestLE B k ts with
    | none => exact absurd ⟨hk, hv⟩ (newestLE_eq_none.mp hr x hx)
    | some a => exact ⟨a, rfl, (newestLE_some hr).2.2.2 x hx hk hv⟩
  cases hp : pick (newestLE A k ts) (newestLE B k ts) with
  | none =>
    obtain ⟨ha, hb⟩ := pick_eq_none.mp hp
    apply newestLE_eq_none.mpr
    intro x hx
    rcases (hm x).mp hx with h | h
    · exact newestLE_eq_none.mp ha x h
    · exact newestLE_eq_none.mp hb x h
  | some e =>
    apply (newestLE_kvFun_iff hf).mpr
    rcases pick_some hp with ⟨h1, h2⟩ | ⟨h1, h2⟩
    · obtain ⟨m1, m2, m3, _⟩ := newestLE_some h1
      refine ⟨(hm e).mpr (.inl m1), m2, m3, ?_⟩
      intro x hx hk hv
      rcases (hm x).mp hx with h | h
      · obtain ⟨a, ha, hle⟩ := hmaxA x h hk hv
        rw [h1] at ha; cases ha; exact hle
      · obtain ⟨b, hb, hle⟩ := hmaxB x h hk hv
        exact Nat.le_trans hle (h2 b hb)
    · obtain ⟨m1, m2, m3, _⟩ := newestLE_some h1
      refine ⟨(hm e).mpr (.inr m1), m2, m3, ?_⟩
      intro x hx hk hv
      rcases (hm x).mp hx with h | h
      · obtain ⟨a, ha, hle⟩ := hmaxA x h hk hv
        exact Nat.le_trans hle (Nat.le_of_lt (h2 a ha))
      · obtain ⟨b, hb, hle⟩ := hmaxB x h hk hv
        rw [h1] at hb; cases hb; exact hle

/-- level 0 with distinct internal keys across its (sorted) tables -/
theorem kvFun_chunk {i : Nat} {l : List Tbl} (hs : ∀ t ∈ l, SortedEnts t.ents) (hd : TblsDistinct l) :
    KVFun (lvlChunk i l) := by
  intro x hx y hy hk hv
  obtain ⟨a, ha, hxa⟩ := mem_lvlChunk.mp hx
  obtain ⟨b, hb, hyb⟩ := mem_lvlChunk.mp hy
  obtain ⟨ia, hia, rfl⟩ := List.getElem_of_mem ha
  obtain ⟨ib, hib, rfl⟩ := List.getElem_of_mem hb
  have hp := List.pairwise_iff_getElem.mp hd
  rcases Nat.lt_trichotomy ia ib with hlt | heq | hgt
  · exact absurd hv (hp ia ib hia hib hlt x hxa y hyb hk)
  · subst heq; exact sorted_unique (hs _ ha) hxa hyb hk hv
  · exact absurd hv.symm (hp ib ia hib hia hgt y hyb x hxa hk.symm)

theorem kvFun_subset {L L' : List Ent} (hf : KVFun L) (hsub : ∀ x ∈ L', x ∈ L) : KVFun L' :=
  fun x hx y hy hk hv => hf x (hsub x hx) y (hsub y hy) hk hv

/-- L0 → L0 (after the F1 repair `hasOverlap = true`, so no marker is dropped): reads are preserved
    as soon as an internal key determines the entry within L0 — the only thing needed to make the
    re-sorting of L0 by `Smallest` harmless (cf. F2). -/
theorem compact_reads_l0l0 {s s' : Lsm} {cd : CompactDef} {d n now' now ts : Nat} {k : Bytes} (h : LsmInv s)
    (hv : VerBound s) (hc : CompactOk s cd) (hk0 : IsL0L0 s cd)
    (hfun : KVFun (lvlChunk 0 (cdThisT s cd)))
    (hdp : cd.dropPrefixes = []) (hs : s.compact cd d n now' = some s') (hts : d ≤ ts) (hnow : now' ≤ now) :
    visible now (s'.get k ts) = visible now (s.get k ts) := by
  have hinvW := compact_invW h hv hc hs
  obtain ⟨new0, hsp, rfl⟩ := compact_some hs
  obtain ⟨hth, hnx, hbot⟩ := hk0
  have heq : cd.nextLevel = cd.thisLevel := hnx.trans hth.symm
  have hq := hc.1.2.1
  have hnt := nextT_eq_thisT (s := s) heq
  have hkidx : keptIdx cd = cd.top := by unfold keptIdx; rw [if_pos heq.symm, hbot]; simp
  have hbotE : botEnts s cd = [] := by unfold botEnts cdBots; rw [hbot]; simp [pickIdx]
  have hovT : cdHasOverlap s cd = true := by unfold cdHasOverlap; simp [hth, hnx]
  rw [get_eq_newestLE hinvW, get_eq_newestLE (lsmInv_weaken h), newestLE_allEntries, newestLE_allEntries]
  have hmem : memEnts ({ s with levels := newLevels s cd new0 } : Lsm) = memEnts s := rfl
  rw [hmem]
  simp only
  have hnl : newLevels s cd new0 = s.levels.set cd.nextLevel (newNext s cd new0) := by
    unfold newLevels; rw [if_pos heq.symm]
  have hkeptSub : ∀ e ∈ keptEnts s cd, e ∈ lvlChunk 0 (cdThisT s cd) := by
    intro e he
    obtain ⟨t, ht, het⟩ := mem_keptEnts.mp he
    rw [hnt] at ht
    exact mem_lvlChunk.mpr ⟨t, (removeIdx_sublist _ _).subset ht, het⟩
  have htopSub : ∀ e ∈ topEnts s cd, e ∈ lvlChunk 0 (cdThisT s cd) := by
    intro e he
    obtain ⟨t, ht, het⟩ := mem_topEnts.mp he
    exact mem_lvlChunk.mpr ⟨t, tops_mem ht, het⟩
  -- the old level 0
  have hold : newestLE (lvlChunk cd.nextLevel (cdNextT s cd)) k ts =
      pick (newestLE (lvlChunk cd.thisLevel (cdTops s cd)) k ts) (newestLE (keptEnts s cd) k ts) := by
    rw [hnt, heq, hth]
    apply newestLE_union_kv hfun
    intro e
    rw [mem_lvlChunk, mem_lvlChunk, mem_keptEnts, hkidx, hnt]
    unfold cdTops
    constructor
    · rintro ⟨t, ht, he⟩
      rcases (mem_pick_or_remove _ cd.top t).mp ht with h1 | h1
      · exact .inl ⟨t, h1, he⟩
      · exact .inr ⟨t, h1, he⟩
    · rintro (⟨t, ht, he⟩ | ⟨t, ht, he⟩)
      · exact ⟨t, (mem_pick_or_remove _ cd.top t).mpr (.inl ht), he⟩
      · exact ⟨t, (mem_pick_or_remove _ cd.top t).mpr (.inr ht), he⟩
  -- the new level 0
  obtain ⟨hflat, _⟩ := splitSizes_spec hsp
  have hN : ∀ e, e ∈ (compactOutput s cd d n now').1 ↔ ∃ t ∈ withIds new0 cd.outIds, e ∈ t.ents := by
    intro e
    rw [← hflat, ← withIds_map_ents new0 cd.outIds]
    constructor
    · intro h'
      obtain ⟨l, hl', hel⟩ := List.mem_flatten.mp h'
      obtain ⟨t, ht, rfl⟩ := List.mem_map.mp hl'
      exact ⟨t, ht, hel⟩
    · rintro ⟨t, ht, hel⟩
      exact List.mem_flatten.mpr ⟨t.ents, List.mem_map.mpr ⟨t, ht, rfl⟩, hel⟩
  have hmemNew : ∀ e, e ∈ lvlChunk cd.nextLevel (newNext s cd new0) ↔
      e ∈ (compactOutput s cd d n now').1 ∨ e ∈ keptEnts s cd := by
    intro e
    rw [mem_lvlChunk, mem_keptEnts, hN, newNext_eq]
    constructor
    · rintro ⟨t, ht, he⟩
      rcases List.mem_append.mp (mem_sortBySmallest.mp ht) with h1 | h1
      · exact .inr ⟨t, h1, he⟩
      · exact .inl ⟨t, h1, he⟩
    · rintro (⟨t, ht, he⟩ | ⟨t, ht, he⟩)
      · exact ⟨t, mem_sortBySmallest.mpr (List.mem_append_right _ ht), he⟩
      · exact ⟨t, mem_sortBySmallest.mpr (List.mem_append_left _ ht), he⟩
  have hnewFun : KVFun (lvlChunk cd.nextLevel (newNext s cd new0)) := by
    apply kvFun_subset hfun
    intro e he
    rcases (hmemNew e).mp he with h1 | h1
    · rcases mem_compactOutput h1 with h2 | h2
      · exact htopSub e h2
      · rw [hbotE] at h2; simp at h2
    · exact hkeptSub e h1
  have hnewL : newestLE (lvlChunk cd.nextLevel (newNext s cd new0)) k ts =
      pick (newestLE (compactOutput s cd d n now').1 k ts) (newestLE (keptEnts s cd) k ts) :=
    newestLE_union_kv hnewFun hmemNew k ts
  rw [hnl, readLv_split k ts hq, readLv_split_self k ts hq, nextT_eq hq, hold, hnewL]
  have core := reads_core' (s := s) (cd := cd) (d := d) (n := n) (now' := now') (now := now) (ts := ts) (k := k)
    h hc hdp hts hnow
    (U := pick (newestLE (memEnts s) k ts) (readLv k ts 0 (s.levels.take cd.nextLevel)))
    (Z := readLv k ts (cd.nextLevel + 1) (s.levels.drop (cd.nextLevel + 1)))
    (by intro hov; rw [hovT] at hov; cases hov)
    (by intro hov; rw [hovT] at hov; cases hov)
    (by intro hov; rw [hovT] at hov; cases hov)
  rw [nl_merged h hc, hbotE] at core
  simp only [newestLE_nil, pick_none_right, pick_assoc] at core ⊢
  exact core

end LL

/-- the write path's effect on the LSM state: `memPut` of one committed entry (`Db.commit` folds
    this over the entries of a transaction) -/
def Lsm.putEnt (s : Lsm) (e : Ent) : Lsm := { s with mem := memPut e s.mem }

namespace LL

theorem mem_allEntries_put {s : Lsm} {e x : Ent} (h : x ∈ (s.putEnt e).allEntries) : x = e ∨ x ∈ s.allEntries := by
  rw [mem_allEntries] at h
  rcases h with h | h | h
  · rcases mem_memPut_imp h with h | h
    · exact .inl h
    · exact .inr (mem_allEntries.mpr (.inl h))
  · exact .inr (mem_allEntries.mpr (.inr (.inl h)))
  · exact .inr (mem_allEntries.mpr (.inr (.inr h)))

theorem put_inv {s : Lsm} (h : LsmInv s) {e : Ent} (he : 0 < e.ver) : LsmInv (s.putEnt e) := by
  refine ⟨memPut_sorted h.1, h.2.1, h.2.2.1, ?_⟩
  intro x hx
  rcases mem_allEntries_put hx with rfl | hx
  · exact he
  · exact h.2.2.2 x hx

theorem put_verBound {s : Lsm} (hv : VerBound s) {e : Ent} (he : e.ver ≤ maxU64) : VerBound (s.putEnt e) := by
  intro x hx
  rcases mem_allEntries_put hx with rfl | hx
  · exact he
  · exact hv x hx

theorem nl_memEnts_put (s : Lsm) (e : Ent) (k : Bytes) (ts : Nat) :
    newestLE (memEnts (s.putEnt e)) k ts = pick (cand k ts e) (newestLE (memEnts s) k ts) := by
  unfold memEnts Lsm.putEnt
  simp only [newestLE_append]
  rw [newestLE_memPut, newestLE_cons, pick_assoc]

/-- a read after a write sees the new entry first -/
theorem put_get {s : Lsm} (h : LsmInv s) {e : Ent} (he : 0 < e.ver) (k : Bytes) (ts : Nat) :
    (s.putEnt e).get k ts = newestLE (e :: s.allEntries) k ts := by
  rw [get_eq_newestLE (lsmInv_weaken (put_inv h he)), newestLE_allEntries, nl_memEnts_put, newestLE_cons,
    newestLE_allEntries, pick_assoc]
  rfl

theorem put_layered {s : Lsm} (hl : Layered s) {e : Ent}
    (hnew : ∀ x ∈ s.allEntries, x.key = e.key → x.ver ≤ e.ver) : Layered (s.putEnt e) := by
  obtain ⟨p1, p2, p3, p4⟩ := (layered_iff s).mp hl
  rw [layered_iff]
  have hmemE : ∀ x ∈ memEnts (s.putEnt e), x = e ∨ x ∈ memEnts s := by
    intro x hx
    unfold memEnts Lsm.putEnt at hx
    rcases List.mem_append.mp hx with h1 | h1
    · rcases mem_memPut_imp h1 with h2 | h2
      · exact .inl h2
      · exact .inr (List.mem_append_left _ h2)
    · exact .inr (List.mem_append_right _ h1)
  refine ⟨?_, ?_, p3, p4⟩
  · obtain ⟨q1, q2⟩ := List.pairwise_cons.mp p1
    refine List.pairwise_cons.mpr ⟨?_, q2⟩
    intro m hm x hx y hy hk
    rcases mem_memPut_imp hx with rfl | hx
    · apply hnew y _ hk.symm
      exact mem_allEntries.mpr (.inr (.inl ⟨m, List.mem_reverse.mp hm, hy⟩))
    · exact q1 m hm x hx y hy hk
  · intro x hx i tbls t hi ht y hy hk
    rcases hmemE x hx with rfl | hx
    · exact hnew y (mem_allEntries.mpr (.inr (.inr ⟨i, tbls, t, hi, ht, hy⟩))) hk.symm
    · exact p2 x hx i tbls t hi ht y hy hk

theorem put_layeredX {s : Lsm} (hl : LayeredX s) {e : Ent}
    (hnew : ∀ x ∈ s.allEntries, x.key = e.key → x.ver ≤ e.ver) : LayeredX (s.putEnt e) := by
  obtain ⟨p1, p2, p3⟩ := (layeredX_iff s).mp hl
  rw [layeredX_iff]
  have hmemE : ∀ x ∈ memEnts (s.putEnt e), x = e ∨ x ∈ memEnts s := by
    intro x hx
    unfold memEnts Lsm.putEnt at hx
    rcases List.mem_append.mp hx with h1 | h1
    · rcases mem_memPut_imp h1 with h2 | h2
      · exact .inl h2
      · exact .inr (List.mem_append_left _ h2)
    · exact .inr (List.mem_append_right _ h1)
  refine ⟨?_, ?_, p3⟩
  · obtain ⟨q1, q2⟩ := List.pairwise_cons.mp p1
    refine List.pairwise_cons.mpr ⟨?_, q2⟩
    intro m hm x hx y hy hk
    rcases mem_memPut_imp hx with rfl | hx
    · apply hnew y _ hk.symm
      exact mem_allEntries.mpr (.inr (.inl ⟨m, List.mem_reverse.mp hm, hy⟩))
    · exact q1 m hm x hx y hy hk
  · intro x hx i tbls t hi ht y hy hk
    rcases hmemE x hx with rfl | hx
    · exact hnew y (mem_allEntries.mpr (.inr (.inr ⟨i, tbls, t, hi, ht, hy⟩))) hk.symm
    · exact p2 x hx i tbls t hi ht y hy hk

end LL

/-- an internal key (user key, version) determines the entry across the whole store: two stored
    copies of the same internal key are identical. Holds in non-managed mode (commit timestamps are
    unique and a transaction writes a key once); F2 is exactly a violation of it. -/
def KeyVerUnique (s : Lsm) : Prop := LL.KVFun s.allEntries

instance (s : Lsm) : Decidable (KeyVerUnique s) := by unfold KeyVerUnique LL.KVFun; infer_instance

namespace LL

theorem keyVerUnique_l0 {s : Lsm} {cd : CompactDef} (hu : KeyVerUnique s) (h : LsmInv s) (hb : CdBase s cd) :
    KVFun (lvlChunk 0 (cdThisT s cd)) := by
  apply kvFun_subset hu
  intro x hx
  obtain ⟨t, ht, hxt⟩ := mem_lvlChunk.mp hx
  exact mem_allEntries.mpr (.inr (.inr ⟨_, _, t, (this_level h hb).1, ht, hxt⟩))

theorem compact_keyVerUnique {s s' : Lsm} {cd : CompactDef} {d n now : Nat} (h : LsmInv s) (hu : KeyVerUnique s)
    (hc : CompactOk s cd) (hs : s.compact cd d n now = some s') : KeyVerUnique s' := by
  obtain ⟨new0, hsp, rfl⟩ := compact_some hs
  exact kvFun_subset hu (fun x hx => mem_allEntries_compact h hc hsp hx)

theorem flush_keyVerUnique {s : Lsm} (hu : KeyVerUnique s) (id : Nat) : KeyVerUnique (s.flush id) :=
  kvFun_subset hu (fun x hx => (mem_allEntries_flush s id x).mp hx)

theorem put_keyVerUnique {s : Lsm} (hu : KeyVerUnique s) {e : Ent}
    (hnew : ∀ x ∈ s.allEntries, x.key = e.key → x.ver < e.ver) : KeyVerUnique (s.putEnt e) := by
  intro x hx y hy hk hv
  rcases mem_allEntries_put hx with rfl | hx' <;> rcases mem_allEntries_put hy with rfl | hy'
  · rfl
  · have := hnew y hy' hk.symm; omega
  · have := hnew x hx' hk; omega
  · exact hu x hx' y hy' hk hv

end LL

/-- within these tables an internal key determines the entry (two copies of `key@ver` are equal) -/
def TblsFun (l : List Tbl) : Prop :=
  ∀ a ∈ l, ∀ b ∈ l, ∀ x ∈ a.ents, ∀ y ∈ b.ents, x.key = y.key → x.ver = y.ver → x = y

instance (l : List Tbl) : Decidable (TblsFun l) := by unfold TblsFun; infer_instance

namespace LL

theorem tblsFun_chunk {i : Nat} {l : List Tbl} (h : TblsFun l) : KVFun (lvlChunk i l) := by
  intro x hx y hy hk hv
  obtain ⟨a, ha, hxa⟩ := mem_lvlChunk.mp hx
  obtain ⟨b, hb, hyb⟩ := mem_lvlChunk.mp hy
  exact h a ha b hb x hxa y hyb hk hv

theorem tblsFun_of_chunk {i : Nat} {l : List Tbl} (h : KVFun (lvlChunk i l)) : TblsFun l :=
  fun a ha b hb x hx y hy hk hv =>
    h x (mem_lvlChunk.mpr ⟨a, ha, hx⟩) y (mem_lvlChunk.mpr ⟨b, hb, hy⟩) hk hv

theorem tblsFun_of_distinct {l : List Tbl} (hs : ∀ t ∈ l, SortedEnts t.ents) (hd : TblsDistinct l) : TblsFun l :=
  tblsFun_of_chunk (i := 0) (kvFun_chunk hs hd)

theorem tblsFun_of_unique {s : Lsm} {cd : CompactDef} (hu : KeyVerUnique s) (h : LsmInv s) (hb : CdBase s cd) :
    TblsFun (cdThisT s cd) := tblsFun_of_chunk (keyVerUnique_l0 hu h hb)

/-! ## re-ordering level 0 (what `Open` does: it sorts L0 by file id) -/

theorem mem_allEntries_resort {s : Lsm} {l0 l0' : List Tbl} {rest : List (List Tbl)} (hl : s.levels = l0 :: rest)
    (hp : l0'.Perm l0) (e : Ent) :
    e ∈ ({ s with levels := l0' :: rest } : Lsm).allEntries ↔ e ∈ s.allEntries := by
  rw [mem_allEntries, mem_allEntries]
  constructor
  · rintro (h | h | ⟨i, tbls, t, hi, ht, het⟩)
    · exact .inl h
    · exact .inr (.inl h)
    · right; right
      cases i with
      | zero => simp at hi; subst hi; exact ⟨0, l0, t, by rw [hl]; rfl, hp.subset ht, het⟩
      | succ j => simp at hi; exact ⟨j + 1, tbls, t, by rw [hl]; simpa using hi, ht, het⟩
  · rintro (h | h | ⟨i, tbls, t, hi, ht, het⟩)
    · exact .inl h
    · exact .inr (.inl h)
    · right; right
      rw [hl] at hi
      cases i with
      | zero => simp at hi; subst hi; exact ⟨0, l0', t, rfl, hp.symm.subset ht, het⟩
      | succ j => simp at hi; exact ⟨j + 1, tbls, t, by simpa using hi, ht, het⟩

theorem resort_inv {s : Lsm} {l0 l0' : List Tbl} {rest : List (List Tbl)} (h : LsmInv s) (hl : s.levels = l0 :: rest)
    (hp : l0'.Perm l0) : LsmInv ({ s with levels := l0' :: rest } : Lsm) := by
  have h0 := h.level (i := 0) (tbls := l0) (by rw [hl]; rfl)
  refine ⟨h.1, h.2.1, ?_, fun e he => h.2.2.2 e ((mem_allEntries_resort hl hp e).mp he)⟩
  rintro ⟨i, tbls⟩ hpz
  have hi := (mem_zipIdx _ _ _).mp hpz
  cases i with
  | zero =>
    simp at hi; subst hi
    exact ⟨fun t ht => h0.1 t (hp.subset ht), by simp⟩
  | succ j =>
    simp at hi
    exact h.level (i := j + 1) (by rw [hl]; simpa using hi)

theorem resort_layeredX {s : Lsm} {l0 l0' : List Tbl} {rest : List (List Tbl)} (h : LayeredX s)
    (hl : s.levels = l0 :: rest) (hp : l0'.Perm l0) : LayeredX ({ s with levels := l0' :: rest } : Lsm) := by
  obtain ⟨p1, p2, p3⟩ := (layeredX_iff s).mp h
  rw [layeredX_iff]
  have hmem : memEnts ({ s with levels := l0' :: rest } : Lsm) = memEnts s := rfl
  refine ⟨p1, ?_, ?_⟩
  · intro x hx i tbls t hi ht e he hk
    rw [hmem] at hx
    cases i with
    | zero => simp at hi; subst hi; exact p2 x hx 0 l0 t (by rw [hl]; rfl) (hp.subset ht) e he hk
    | succ j => simp at hi; exact p2 x hx (j + 1) tbls t (by rw [hl]; simpa using hi) ht e he hk
  · intro i i' tbls tbls' t t' hi hi' hlt ht ht'
    cases i' with
    | zero => omega
    | succ j' =>
      simp at hi'
      have hi'' : s.levels[j' + 1]? = some tbls' := by rw [hl]; simpa using hi'
      cases i with
      | zero => simp at hi; subst hi; exact p3 0 (j' + 1) l0 tbls' t t' (by rw [hl]; rfl) hi'' hlt (hp.subset ht) ht'
      | succ j => simp at hi; exact p3 (j + 1) (j' + 1) tbls tbls' t t' (by rw [hl]; simpa using hi) hi'' hlt ht ht'

theorem resort_keyVerUnique {s : Lsm} {l0 l0' : List Tbl} {rest : List (List Tbl)} (hu : KeyVerUnique s)
    (hl : s.levels = l0 :: rest) (hp : l0'.Perm l0) : KeyVerUnique ({ s with levels := l0' :: rest } : Lsm) :=
  kvFun_subset hu (fun x hx => (mem_allEntries_resort hl hp x).mp hx)

/-- reads do not depend on the order of the L0 tables when an internal key determines the entry -/
theorem resort_get {s : Lsm} {l0 l0' : List Tbl} {rest : List (List Tbl)} (h : LsmInv s) (hl : s.levels = l0 :: rest)
    (hp : l0'.Perm l0) (hf : TblsFun l0) (k : Bytes) (ts : Nat) :
    ({ s with levels := l0' :: rest } : Lsm).get k ts = s.get k ts := by
  rw [get_eq_newestLE (lsmInv_weaken (resort_inv h hl hp)), get_eq_newestLE (lsmInv_weaken h),
    newestLE_allEntries, newestLE_allEntries, hl]
  have hmem : memEnts ({ s with levels := l0' :: rest } : Lsm) = memEnts s := rfl
  rw [hmem]
  simp only [readLv]
  have hf' : TblsFun l0' := fun a ha b hb => hf a (hp.subset ha) b (hp.subset hb)
  have : newestLE (lvlChunk 0 l0') k ts = pick (newestLE (lvlChunk 0 l0) k ts) (newestLE [] k ts) := by
    apply newestLE_union_kv (tblsFun_chunk hf')
    intro e
    rw [mem_lvlChunk, mem_lvlChunk]
    constructor
    · rintro ⟨t, ht, he⟩; exact .inl ⟨t, hp.subset ht, he⟩
    · rintro (⟨t, ht, he⟩ | h0)
      · exact ⟨t, hp.symm.subset ht, he⟩
      · simp at h0
  rw [this]; simp

end LL
end Badger
