import BadgerProofs.Lemmas.LsmCompact
/-!
# Reads across a compaction: reads as a fold over the levels, the recency invariant `Layered`
unpacked, and the per-key argument that a compaction preserves every read at `ts ≥ discardTs`.
-/
namespace Badger
namespace LL

/-! ## reads as a fold over the levels -/

/-- the entries of level `i` in read-precedence order -/
def lvlChunk (i : Nat) (tbls : List Tbl) : List Ent :=
  if i = 0 then (tbls.reverse.map (·.ents)).flatten else (tbls.map (·.ents)).flatten

/-- the read of `k` at `ts` over the levels `i, i+1, …` -/
def readLv (k : Bytes) (ts : Nat) : Nat → List (List Tbl) → Option Ent
  | _, [] => none
  | i, l :: ls => pick (newestLE (lvlChunk i l) k ts) (readLv k ts (i + 1) ls)

def memEnts (s : Lsm) : List Ent := s.mem ++ s.imm.reverse.flatten

theorem lvl_flatten_eq (i : Nat) (ls : List (List Tbl)) (hi : 1 ≤ i) (k : Bytes) (ts : Nat) :
    newestLE (ls.map (fun tbls => (tbls.map (·.ents)).flatten)).flatten k ts = readLv k ts i ls := by
  induction ls generalizing i with
  | nil => rfl
  | cons l ls ih =>
    simp only [List.map_cons, List.flatten_cons, newestLE_append, readLv]
    rw [ih (i + 1) (by omega)]
    unfold lvlChunk
    rw [if_neg (by omega)]

theorem newestLE_allEntries (s : Lsm) (k : Bytes) (ts : Nat) :
    newestLE s.allEntries k ts = pick (newestLE (memEnts s) k ts) (readLv k ts 0 s.levels) := by
  unfold Lsm.allEntries Lsm.sources memEnts
  cases hl : s.levels with
  | nil => simp [readLv, newestLE_append]
  | cons l0 rest =>
    simp only [List.flatten_append, List.flatten_cons, newestLE_append, readLv]
    rw [lvl_flatten_eq 1 rest (by omega)]
    simp [lvlChunk, pick_assoc]

theorem readLv_append (k : Bytes) (ts : Nat) (i : Nat) (a b : List (List Tbl)) :
    readLv k ts i (a ++ b) = pick (readLv k ts i a) (readLv k ts (i + a.length) b) := by
  induction a generalizing i with
  | nil => simp [readLv]
  | cons l a ih =>
    simp only [List.cons_append, readLv, ih, pick_assoc, List.length_cons]
    congr 3; omega

/-- the levels split at one position -/
theorem levels_split {ls : List (List Tbl)} {j : Nat} (hj : j < ls.length) :
    ls = ls.take j ++ ls[j] :: ls.drop (j + 1) := by
  rw [← List.drop_eq_getElem_cons hj, List.take_append_drop]

theorem readLv_split (k : Bytes) (ts : Nat) {ls : List (List Tbl)} {j : Nat} (hj : j < ls.length) (x : List Tbl) :
    readLv k ts 0 (ls.set j x) =
      pick (readLv k ts 0 (ls.take j)) (pick (newestLE (lvlChunk j x) k ts) (readLv k ts (j + 1) (ls.drop (j + 1)))) := by
  rw [List.set_eq_take_append_cons_drop, if_pos hj, readLv_append]
  simp only [readLv, List.length_take, Nat.zero_add]
  rw [Nat.min_eq_left (by omega)]

theorem readLv_split_self (k : Bytes) (ts : Nat) {ls : List (List Tbl)} {j : Nat} (hj : j < ls.length) :
    readLv k ts 0 ls =
      pick (readLv k ts 0 (ls.take j)) (pick (newestLE (lvlChunk j ls[j]) k ts) (readLv k ts (j + 1) (ls.drop (j + 1)))) := by
  have := readLv_split k ts hj ls[j]
  rwa [List.set_getElem_self] at this


theorem newestLE_sorted_iff {L : List Ent} (hs : SortedEnts L) {k : Bytes} {ts : Nat} {e : Ent} :
    newestLE L k ts = some e ↔
      e ∈ L ∧ e.key = k ∧ e.ver ≤ ts ∧ ∀ x ∈ L, x.key = k → x.ver ≤ ts → x.ver ≤ e.ver := by
  constructor
  · exact newestLE_some
  · rintro ⟨h1, h2, h3, h4⟩
    cases hr : newestLE L k ts with
    | none => exact absurd ⟨h2, h3⟩ (newestLE_eq_none.mp hr e h1)
    | some r =>
      obtain ⟨r1, r2, r3, r4⟩ := newestLE_some hr
      have hv : r.ver = e.ver := Nat.le_antisymm (h4 r r1 r2 r3) (r4 e h1 h2 h3)
      rw [sorted_unique hs r1 h1 (r2.trans h2.symm) hv]

/-- on a sorted list the read is determined by the set of members -/
theorem newestLE_union {L A B : List Ent} (hs : SortedEnts L) (hm : ∀ e, e ∈ L ↔ e ∈ A ∨ e ∈ B)
    (k : Bytes) (ts : Nat) : newestLE L k ts = pick (newestLE A k ts) (newestLE B k ts) := by
  have hmaxA : ∀ x ∈ A, x.key = k → x.ver ≤ ts → ∃ a, newestLE A k ts = some a ∧ x.ver ≤ a.ver := by
    intro x hx hk hv
    cases hr : newestLE A k ts with
    | none => exact absurd ⟨hk, hv⟩ (newestLE_eq_none.mp hr x hx)
    | some a => exact ⟨a, rfl, (newestLE_some hr).2.2.2 x hx hk hv⟩
  have hmaxB : ∀ x ∈ B, x.key = k → x.ver ≤ ts → ∃ a, newestLE B k ts = some a ∧ x.ver ≤ a.ver := by
    intro x hx hk hv
    cases hr : newestLE B k ts with
    | none => exact absurd ⟨hk, hv⟩ (newestLE_eq_none.mp hr x hx)
    | some a => exact ⟨a, rfl, (newestLE_some hr).2.2.2 x hx hk hv⟩
  cases hp : pick (newestLE A k ts) (newestLE B k ts) with
  | none =>
    obtain ⟨ha, hb⟩ := pick_eq_none.mp hp
    apply newestLE_eq_none.mpr
    intro x hx
    rcases (hm x).mp hx with h | h
    · exact newestLE_eq_none.mp ha x h
    · exact newestLE_eq_none.mp hb x h
  | some e =>
    apply (newestLE_sorted_iff hs).mpr
    rcases pick_some hp with ⟨h1, h2⟩ | ⟨h1, h2⟩
    · obtain ⟨m1, m2, m3, _⟩ := newestLE_some h1
      refine ⟨(hm e).mpr (.inl m1), m2, m3, ?_⟩
      intro x hx hk hv
      rcases (hm x).mp hx with h | h
      · obtain ⟨a, ha, hle⟩ := hmaxA x h hk hv
        rw [h1] at ha; cases ha; exact hle
      · obtain ⟨b, hb, hle⟩ := hmaxB x h hk hv
        exact Nat.le_trans hle (h2 b hb)
    · obtain ⟨m1, m2, m3, _⟩ := newestLE_some h1
      refine ⟨(hm e).mpr (.inr m1), m2, m3, ?_⟩
      intro x hx hk hv
      rcases (hm x).mp hx with h | h
      · obtain ⟨a, ha, hle⟩ := hmaxA x h hk hv
        exact Nat.le_trans hle (Nat.le_of_lt (h2 a ha))
      · obtain ⟨b, hb, hle⟩ := hmaxB x h hk hv
        rw [h1] at hb; cases hb; exact hle

/-- a dropped dead version at the bottom of what the read can see: falling through is invisible -/
theorem read_fallthrough {now : Nat} {u v v' w : Option Ent}
    (hv : v' = v ∨ (v' = none ∧ ∃ e, v = some e ∧ deletedOrExpired e.emeta e.exp now = true ∧ w = none ∧
      ∀ x, u = some x → e.ver ≤ x.ver)) :
    visible now (pick u (pick v' w)) = visible now (pick u (pick v w)) := by
  rcases hv with rfl | ⟨rfl, e, rfl, hdead, rfl, hrec⟩
  · rfl
  · simp only [pick_none_right]
    cases u with
    | none => simp [visible, hdead]
    | some x =>
      have := hrec x rfl
      simp only [pick]
      rw [if_neg (by omega)]

/-- every version in `A` is at least as new as every version of the same key in `B` -/
def RecL (A B : List Ent) : Prop := ∀ a ∈ A, ∀ b ∈ B, a.key = b.key → b.ver ≤ a.ver

theorem layered_def (s : Lsm) : Layered s ↔ s.sources.Pairwise RecL := Iff.rfl

theorem mem_memEnts {s : Lsm} {x : Ent} : x ∈ memEnts s ↔ ∃ m ∈ s.mem :: s.imm.reverse, x ∈ m := by
  unfold memEnts
  simp only [List.mem_append, List.mem_flatten, List.mem_cons, List.mem_reverse]
  constructor
  · rintro (h | ⟨m, hm, hx⟩)
    · exact ⟨s.mem, .inl rfl, h⟩
    · exact ⟨m, .inr hm, hx⟩
  · rintro ⟨m, rfl | hm, hx⟩
    · exact .inl hx
    · exact .inr ⟨m, hm, hx⟩

/-- memtables are searched before every table -/
theorem layered_mem_level {s : Lsm} (h : Layered s) {x e : Ent} {i : Nat} {tbls : List Tbl} {t : Tbl}
    (hx : x ∈ memEnts s) (hi : s.levels[i]? = some tbls) (ht : t ∈ tbls) (he : e ∈ t.ents)
    (hk : x.key = e.key) : e.ver ≤ x.ver := by
  obtain ⟨m, hm, hxm⟩ := mem_memEnts.mp hx
  rw [layered_def] at h
  unfold Lsm.sources at h
  cases hl : s.levels with
  | nil => rw [hl] at hi; simp at hi
  | cons l0 rest =>
    rw [hl] at h hi
    simp only at h
    obtain ⟨_, _, hcross⟩ := List.pairwise_append.mp h
    cases i with
    | zero =>
      simp at hi; subst hi
      exact hcross m hm t.ents (List.mem_append_left _ (List.mem_map.mpr ⟨t, List.mem_reverse.mpr ht, rfl⟩)) x hxm e he hk
    | succ j =>
      simp at hi
      refine hcross m hm _ (List.mem_append_right _ (List.mem_map.mpr ⟨tbls, List.mem_of_getElem? hi, rfl⟩)) x hxm e ?_ hk
      exact List.mem_flatten.mpr ⟨t.ents, List.mem_map.mpr ⟨t, ht, rfl⟩, he⟩

/-- a higher level is searched before a deeper one -/
theorem layered_levels {s : Lsm} (h : Layered s) {x e : Ent} {i i' : Nat} {tbls tbls' : List Tbl} {t t' : Tbl}
    (hi : s.levels[i]? = some tbls) (hi' : s.levels[i']? = some tbls') (hlt : i < i') (ht : t ∈ tbls)
    (ht' : t' ∈ tbls') (hx : x ∈ t.ents) (he : e ∈ t'.ents) (hk : x.key = e.key) : e.ver ≤ x.ver := by
  rw [layered_def] at h
  unfold Lsm.sources at h
  cases hl : s.levels with
  | nil => rw [hl] at hi; simp at hi
  | cons l0 rest =>
    rw [hl] at h hi hi'
    simp only at h
    obtain ⟨_, hlv, _⟩ := List.pairwise_append.mp h
    obtain ⟨_, hrest, hcross⟩ := List.pairwise_append.mp hlv
    cases i' with
    | zero => omega
    | succ j' =>
      simp at hi'
      have he' : e ∈ (tbls'.map (·.ents)).flatten :=
        List.mem_flatten.mpr ⟨t'.ents, List.mem_map.mpr ⟨t', ht', rfl⟩, he⟩
      cases i with
      | zero =>
        simp at hi; subst hi
        exact hcross t.ents (List.mem_map.mpr ⟨t, List.mem_reverse.mpr ht, rfl⟩) _
          (List.mem_map.mpr ⟨tbls', List.mem_of_getElem? hi', rfl⟩) x hx e he' hk
      | succ j =>
        simp at hi
        have hx' : x ∈ (tbls.map (·.ents)).flatten :=
          List.mem_flatten.mpr ⟨t.ents, List.mem_map.mpr ⟨t, ht, rfl⟩, hx⟩
        obtain ⟨hj, hjeq⟩ := List.getElem?_eq_some_iff.mp hi
        obtain ⟨hj', hjeq'⟩ := List.getElem?_eq_some_iff.mp hi'
        have hp := List.pairwise_iff_getElem.mp hrest j j' (by simpa using hj) (by simpa using hj') (by omega)
        simp only [List.getElem_map, hjeq, hjeq'] at hp
        exact hp x hx' e he' hk

/-- within level 0 a newer table (higher index) is searched before an older one -/
theorem layered_l0 {s : Lsm} (h : Layered s) {x e : Ent} {l0 : List Tbl} {j j' : Nat} {a b : Tbl}
    (h0 : s.levels[0]? = some l0) (hj : l0[j]? = some a) (hj' : l0[j']? = some b) (hlt : j' < j)
    (hx : x ∈ a.ents) (he : e ∈ b.ents) (hk : x.key = e.key) : e.ver ≤ x.ver := by
  rw [layered_def] at h
  unfold Lsm.sources at h
  cases hl : s.levels with
  | nil => rw [hl] at h0; simp at h0
  | cons l0' rest =>
    rw [hl] at h h0
    simp at h0; subst h0
    simp only at h
    obtain ⟨_, hlv, _⟩ := List.pairwise_append.mp h
    obtain ⟨hl0, _, _⟩ := List.pairwise_append.mp hlv
    rw [List.pairwise_map, List.pairwise_reverse] at hl0
    obtain ⟨hj1, hjeq⟩ := List.getElem?_eq_some_iff.mp hj
    obtain ⟨hj1', hjeq'⟩ := List.getElem?_eq_some_iff.mp hj'
    have hp := List.pairwise_iff_getElem.mp hl0 j' j hj1' hj1 hlt
    rw [hjeq, hjeq'] at hp
    exact hp x hx e he hk

theorem mem_lvlChunk {i : Nat} {tbls : List Tbl} {x : Ent} : x ∈ lvlChunk i tbls ↔ ∃ t ∈ tbls, x ∈ t.ents := by
  unfold lvlChunk
  split
  · constructor
    · intro h
      obtain ⟨l, hl, hx⟩ := List.mem_flatten.mp h
      obtain ⟨t, ht, rfl⟩ := List.mem_map.mp hl
      exact ⟨t, List.mem_reverse.mp ht, hx⟩
    · rintro ⟨t, ht, hx⟩
      exact List.mem_flatten.mpr ⟨t.ents, List.mem_map.mpr ⟨t, List.mem_reverse.mpr ht, rfl⟩, hx⟩
  · constructor
    · intro h
      obtain ⟨l, hl, hx⟩ := List.mem_flatten.mp h
      obtain ⟨t, ht, rfl⟩ := List.mem_map.mp hl
      exact ⟨t, ht, hx⟩
    · rintro ⟨t, ht, hx⟩
      exact List.mem_flatten.mpr ⟨t.ents, List.mem_map.mpr ⟨t, ht, rfl⟩, hx⟩

theorem readLv_some {k : Bytes} {ts : Nat} {i : Nat} {ls : List (List Tbl)} {x : Ent}
    (h : readLv k ts i ls = some x) :
    ∃ (j : Nat) (tbls : List Tbl) (t : Tbl), ls[j]? = some tbls ∧ t ∈ tbls ∧ x ∈ t.ents ∧ x.key = k ∧ x.ver ≤ ts := by
  induction ls generalizing i with
  | nil => simp [readLv] at h
  | cons l ls ih =>
    simp only [readLv] at h
    rcases pick_some h with ⟨h1, _⟩ | ⟨h1, _⟩
    · obtain ⟨m1, m2, m3, _⟩ := newestLE_some h1
      obtain ⟨t, ht, hx⟩ := mem_lvlChunk.mp m1
      exact ⟨0, l, t, rfl, ht, hx, m2, m3⟩
    · obtain ⟨j, tbls, t, hj, ht, hx, hk, hv⟩ := ih h1
      exact ⟨j + 1, tbls, t, by simpa using hj, ht, hx, hk, hv⟩

theorem readLv_eq_none {k : Bytes} {ts : Nat} {i : Nat} {ls : List (List Tbl)}
    (h : ∀ tbls ∈ ls, ∀ t ∈ tbls, ∀ x ∈ t.ents, x.key ≠ k) : readLv k ts i ls = none := by
  induction ls generalizing i with
  | nil => rfl
  | cons l ls ih =>
    simp only [readLv]
    rw [ih (fun tbls ht => h tbls (List.mem_cons_of_mem _ ht))]
    rw [pick_none_right]
    apply newestLE_eq_none.mpr
    rintro x hx ⟨hk, _⟩
    obtain ⟨t, ht, hxt⟩ := mem_lvlChunk.mp hx
    exact h l (by simp) t ht x hxt hk

theorem readLv_split' (k : Bytes) (ts : Nat) (i : Nat) {ls : List (List Tbl)} {j : Nat} (hj : j < ls.length)
    (x : List Tbl) :
    readLv k ts i (ls.set j x) =
      pick (readLv k ts i (ls.take j))
        (pick (newestLE (lvlChunk (i + j) x) k ts) (readLv k ts (i + j + 1) (ls.drop (j + 1)))) := by
  rw [List.set_eq_take_append_cons_drop, if_pos hj, readLv_append]
  simp only [readLv, List.length_take]
  rw [Nat.min_eq_left (by omega)]

theorem set_set_lt {α : Type} (ls : List α) {p q : Nat} (hpq : p < q) (x y : α) (hp : p < ls.length) :
    (ls.set q y).set p x = ls.take p ++ x :: (ls.drop (p + 1)).set (q - p - 1) y := by
  induction ls generalizing p q with
  | nil => simp at hp
  | cons a ls ih =>
    cases q with
    | zero => omega
    | succ q =>
      cases p with
      | zero => simp
      | succ p =>
        simp only [List.set_cons_succ, List.take_succ_cons, List.drop_succ_cons, List.cons_append]
        rw [ih (show p < q by omega) (by simpa using hp)]
        have : q + 1 - (p + 1) - 1 = q - p - 1 := by omega
        rw [this]

/-- the read over the levels when two levels `p < q` are replaced -/
theorem readLv_two (k : Bytes) (ts : Nat) {ls : List (List Tbl)} {p q : Nat} (hpq : p < q) (hq : q < ls.length)
    (x y : List Tbl) :
    readLv k ts 0 ((ls.set q y).set p x) =
      pick (readLv k ts 0 (ls.take p)) (pick (newestLE (lvlChunk p x) k ts)
        (pick (readLv k ts (p + 1) ((ls.drop (p + 1)).take (q - p - 1)))
          (pick (newestLE (lvlChunk q y) k ts) (readLv k ts (q + 1) (ls.drop (q + 1)))))) := by
  rw [set_set_lt ls hpq x y (by omega), readLv_append]
  simp only [readLv, List.length_take, Nat.zero_add]
  rw [Nat.min_eq_left (by omega)]
  rw [readLv_split' k ts (p + 1) (by simp; omega)]
  have h1 : p + 1 + (q - p - 1) = q := by omega
  have h2 : p + 1 + (q - p - 1 + 1) = q + 1 := by omega
  rw [h1, List.drop_drop, h2]

theorem readLv_two_self (k : Bytes) (ts : Nat) {ls : List (List Tbl)} {p q : Nat} (hpq : p < q) (hq : q < ls.length) :
    readLv k ts 0 ls =
      pick (readLv k ts 0 (ls.take p)) (pick (newestLE (lvlChunk p (ls[p]'(by omega))) k ts)
        (pick (readLv k ts (p + 1) ((ls.drop (p + 1)).take (q - p - 1)))
          (pick (newestLE (lvlChunk q ls[q]) k ts) (readLv k ts (q + 1) (ls.drop (q + 1)))))) := by
  have := readLv_two k ts hpq hq (ls[p]'(by omega)) ls[q]
  rwa [List.set_getElem_self, List.set_getElem_self] at this

/-- what the compaction merges: the tops (L0: newest first) then the bottom run -/
def cdMerged (s : Lsm) (cd : CompactDef) : List Ent :=
  mergeAll ((if cd.thisLevel == 0 then (cdTops s cd).reverse.map (·.ents) else (cdTops s cd).map (·.ents)) ++
    [botEnts s cd])

def cdHasOverlap (s : Lsm) (cd : CompactDef) : Bool :=
  checkOverlap s (cdTops s cd ++ cdBots s cd) (cd.nextLevel + 1)

theorem compactOutput_eq {s : Lsm} {cd : CompactDef} (hdp : cd.dropPrefixes = []) (d n now : Nat) :
    compactOutput s cd d n now =
      (subcompact { discardTs := d, numKeep := n, hasOverlap := cdHasOverlap s cd, now := now, dropPrefixes := [] }
        (cdMerged s cd), cdHasOverlap s cd) := by
  have hf : ∀ (l : List Tbl), l.filter (fun _ => true) = l := fun l => by
    induction l with
    | nil => rfl
    | cons a l ih => simp
  unfold compactOutput cdMerged cdHasOverlap botEnts cdBots cdTops cdNextT cdThisT
  simp [hdp, hf]

theorem topSrcs_flatten (s : Lsm) (cd : CompactDef) :
    (if cd.thisLevel == 0 then (cdTops s cd).reverse.map (·.ents) else (cdTops s cd).map (·.ents)).flatten =
      lvlChunk cd.thisLevel (cdTops s cd) := by
  unfold lvlChunk
  by_cases h : cd.thisLevel = 0
  · simp [h]
  · simp [h]

theorem merged_sources_sorted {s : Lsm} {cd : CompactDef} (h : LsmInv s) (hc : CompactOk s cd) :
    ∀ src ∈ (if cd.thisLevel == 0 then (cdTops s cd).reverse.map (·.ents) else (cdTops s cd).map (·.ents)) ++
      [botEnts s cd], SortedEnts src := by
  intro src hsrc
  rcases List.mem_append.mp hsrc with h1 | h1
  · split at h1
    · obtain ⟨t, ht, rfl⟩ := List.mem_map.mp h1
      exact (tops_sorted h hc.1 t (List.mem_reverse.mp ht)).2
    · obtain ⟨t, ht, rfl⟩ := List.mem_map.mp h1
      exact (tops_sorted h hc.1 t ht).2
  · simp at h1; subst h1; exact botEnts_sorted h hc

theorem merged_sorted {s : Lsm} {cd : CompactDef} (h : LsmInv s) (hc : CompactOk s cd) :
    SortedEnts (cdMerged s cd) := C12_merge_sorted (merged_sources_sorted h hc)

theorem nl_merged {s : Lsm} {cd : CompactDef} (h : LsmInv s) (hc : CompactOk s cd) (k : Bytes) (ts : Nat) :
    newestLE (cdMerged s cd) k ts =
      pick (newestLE (lvlChunk cd.thisLevel (cdTops s cd)) k ts) (newestLE (botEnts s cd) k ts) := by
  unfold cdMerged
  rw [C12_merge_reads (merged_sources_sorted h hc), List.flatten_append, topSrcs_flatten, newestLE_append]
  simp

theorem mem_merged {s : Lsm} {cd : CompactDef} {e : Ent} (he : e ∈ cdMerged s cd) :
    e ∈ topEnts s cd ∨ e ∈ botEnts s cd := by
  have := C12_merge_mem_flatten he
  rw [List.flatten_append, topSrcs_flatten] at this
  rcases List.mem_append.mp this with h1 | h1
  · left
    obtain ⟨t, ht, hx⟩ := mem_lvlChunk.mp h1
    exact mem_topEnts.mpr ⟨t, ht, hx⟩
  · right; simpa using h1

theorem mem_pick_or_remove {α : Type} (l : List α) (idx : List Nat) (t : α) :
    t ∈ l ↔ t ∈ pickIdx l idx ∨ t ∈ removeIdx l idx := by
  rw [mem_pickIdx, mem_removeIdx]
  constructor
  · intro h
    obtain ⟨j, hj, rfl⟩ := List.getElem_of_mem h
    by_cases hji : j ∈ idx
    · exact .inl ⟨j, hji, List.getElem?_eq_getElem hj⟩
    · exact .inr ⟨j, List.getElem?_eq_getElem hj, hji⟩
  · rintro (⟨j, _, hj⟩ | ⟨j, hj, _⟩) <;> exact List.mem_of_getElem? hj

/-- entries of the tables that stay on the next level -/
def keptEnts (s : Lsm) (cd : CompactDef) : List Ent :=
  ((removeIdx (cdNextT s cd) (keptIdx cd)).map (·.ents)).flatten

theorem mem_keptEnts {s : Lsm} {cd : CompactDef} {e : Ent} :
    e ∈ keptEnts s cd ↔ ∃ t ∈ removeIdx (cdNextT s cd) (keptIdx cd), e ∈ t.ents := by
  unfold keptEnts
  constructor
  · intro h
    obtain ⟨l, hl, hel⟩ := List.mem_flatten.mp h
    obtain ⟨t, ht, rfl⟩ := List.mem_map.mp hl
    exact ⟨t, ht, hel⟩
  · rintro ⟨t, ht, hel⟩
    exact List.mem_flatten.mpr ⟨t.ents, List.mem_map.mpr ⟨t, ht, rfl⟩, hel⟩

/-- the next level before the compaction, `this ≠ next` -/
theorem nl_next_old {s : Lsm} {cd : CompactDef} (h : LsmInv s) (hc : CompactOk s cd) (hne : cd.thisLevel ≠ cd.nextLevel)
    (hn : 1 ≤ cd.nextLevel) (k : Bytes) (ts : Nat) :
    newestLE (lvlChunk cd.nextLevel (cdNextT s cd)) k ts =
      pick (newestLE (botEnts s cd) k ts) (newestLE (keptEnts s cd) k ts) := by
  obtain ⟨_, hnok⟩ := next_level h hc.1
  apply newestLE_union
  · unfold lvlChunk; rw [if_neg (by omega)]
    exact (levelOk_weaken hnok).2 hn
  · intro e
    rw [mem_lvlChunk, mem_botEnts, mem_keptEnts]
    unfold keptIdx cdBots; rw [if_neg hne]
    constructor
    · rintro ⟨t, ht, he⟩
      rcases (mem_pick_or_remove _ cd.bot t).mp ht with h1 | h1
      · exact .inl ⟨t, h1, he⟩
      · exact .inr ⟨t, h1, he⟩
    · rintro (⟨t, ht, he⟩ | ⟨t, ht, he⟩)
      · exact ⟨t, (mem_pick_or_remove _ cd.bot t).mpr (.inl ht), he⟩
      · exact ⟨t, (mem_pick_or_remove _ cd.bot t).mpr (.inr ht), he⟩

/-- the next level after the compaction -/
theorem nl_next_new {s : Lsm} {cd : CompactDef} {d n now : Nat} {new0 : List Tbl} (h : LsmInv s) (hv : VerBound s)
    (hc : CompactOk s cd) (hsp : splitSizes cd.outSizes (compactOutput s cd d n now).1 = some new0)
    (hn : 1 ≤ cd.nextLevel) (k : Bytes) (ts : Nat) :
    newestLE (lvlChunk cd.nextLevel (newNext s cd new0)) k ts =
      pick (newestLE (compactOutput s cd d n now).1 k ts) (newestLE (keptEnts s cd) k ts) := by
  obtain ⟨hok, hpw⟩ := newNext_level h hv hc hsp sepRel_elt (fun a b hab => .inl hab) (new_tables h hc hsp).2
  apply newestLE_union
  · unfold lvlChunk; rw [if_neg (by omega)]
    exact (flatten_sorted_iff _).mpr ⟨fun t ht => (hok t ht).2, hpw hn⟩
  · intro e
    rw [mem_lvlChunk, mem_keptEnts]
    obtain ⟨hflat, _⟩ := splitSizes_spec hsp
    have hN : e ∈ (compactOutput s cd d n now).1 ↔ ∃ t ∈ withIds new0 cd.outIds, e ∈ t.ents := by
      rw [← hflat, ← withIds_map_ents new0 cd.outIds]
      constructor
      · intro h'
        obtain ⟨l, hl, hel⟩ := List.mem_flatten.mp h'
        obtain ⟨t, ht, rfl⟩ := List.mem_map.mp hl
        exact ⟨t, ht, hel⟩
      · rintro ⟨t, ht, hel⟩
        exact List.mem_flatten.mpr ⟨t.ents, List.mem_map.mpr ⟨t, ht, rfl⟩, hel⟩
    rw [hN, newNext_eq]
    constructor
    · rintro ⟨t, ht, he⟩
      rcases List.mem_append.mp (mem_sortBySmallest.mp ht) with h1 | h1
      · exact .inr ⟨t, h1, he⟩
      · exact .inl ⟨t, h1, he⟩
    · rintro (⟨t, ht, he⟩ | ⟨t, ht, he⟩)
      · exact ⟨t, mem_sortBySmallest.mpr (List.mem_append_right _ ht), he⟩
      · exact ⟨t, mem_sortBySmallest.mpr (List.mem_append_left _ ht), he⟩

theorem lvlChunk_zero_append (a b : List Tbl) : lvlChunk 0 (a ++ b) = lvlChunk 0 b ++ lvlChunk 0 a := by
  simp [lvlChunk]

theorem top_range_le {s : Lsm} {cd : CompactDef} (hb : CdBase s cd) (hr : cd.top = List.range cd.top.length) :
    cd.top.length ≤ (cdThisT s cd).length := by
  have h3 := hb.2.2.1
  cases hn : cd.top.length with
  | zero => omega
  | succ m =>
    have : m ∈ cd.top := by rw [hr, hn]; simp
    have := h3 m this
    omega

/-- the level the tops are taken from, split into what stays and what is compacted -/
theorem nl_this_split {s : Lsm} {cd : CompactDef} (h : LsmInv s) (hc : CompactOk s cd)
    (hne : cd.thisLevel ≠ cd.nextLevel) (k : Bytes) (ts : Nat) :
    newestLE (lvlChunk cd.thisLevel (cdThisT s cd)) k ts =
      pick (newestLE (lvlChunk cd.thisLevel (removeIdx (cdThisT s cd) cd.top)) k ts)
        (newestLE (lvlChunk cd.thisLevel (cdTops s cd)) k ts) := by
  obtain ⟨hb, hcase⟩ := hc
  have hsorted : 1 ≤ cd.thisLevel → newestLE (lvlChunk cd.thisLevel (cdThisT s cd)) k ts =
      pick (newestLE (lvlChunk cd.thisLevel (removeIdx (cdThisT s cd) cd.top)) k ts)
        (newestLE (lvlChunk cd.thisLevel (cdTops s cd)) k ts) := by
    intro h1
    obtain ⟨_, htok⟩ := this_level h hb
    apply newestLE_union
    · unfold lvlChunk; rw [if_neg (by omega)]
      exact (levelOk_weaken htok).2 h1
    · intro e
      simp only [mem_lvlChunk]
      unfold cdTops
      constructor
      · rintro ⟨t, ht, he⟩
        rcases (mem_pick_or_remove _ cd.top t).mp ht with h1 | h1
        · exact .inr ⟨t, h1, he⟩
        · exact .inl ⟨t, h1, he⟩
      · rintro (⟨t, ht, he⟩ | ⟨t, ht, he⟩)
        · exact ⟨t, (mem_pick_or_remove _ cd.top t).mpr (.inr ht), he⟩
        · exact ⟨t, (mem_pick_or_remove _ cd.top t).mpr (.inl ht), he⟩
  rcases hcase with hh | hh | hh | hh
  · obtain ⟨h0, _, hr, _, _⟩ := hh
    have hle := top_range_le hb hr
    have htops : cdTops s cd = (cdThisT s cd).take cd.top.length := by
      unfold cdTops
      have : pickIdx (cdThisT s cd) cd.top = pickIdx (cdThisT s cd) (List.range cd.top.length) := by rw [← hr]
      rw [this, pickIdx_range _ _ hle]
    have hrem : removeIdx (cdThisT s cd) cd.top = (cdThisT s cd).drop cd.top.length := by
      have : removeIdx (cdThisT s cd) cd.top = removeIdx (cdThisT s cd) (List.range cd.top.length) := by rw [← hr]
      rw [this, removeIdx_range]
    rw [htops, hrem, h0, ← newestLE_append, ← lvlChunk_zero_append, List.take_append_drop]
  · exact hsorted hh.1
  · exact absurd (hh.1.trans hh.2.1.symm) hne
  · exact absurd hh.2.1.symm hne

/-- a user key the compaction reads does not occur in a table that stays on the next level -/
theorem kept_no_key {s : Lsm} {cd : CompactDef} (h : LsmInv s) (hv : VerBound s) (hc : CompactOk s cd)
    (hn : 1 ≤ cd.nextLevel) {e : Ent} (he : e ∈ topEnts s cd ++ botEnts s cd) (ts : Nat) :
    newestLE (keptEnts s cd) e.key ts = none := by
  apply newestLE_eq_none.mpr
  rintro x hx ⟨hk, _⟩
  obtain ⟨t, ht, hxt⟩ := mem_keptEnts.mp hx
  rcases kept_oneSide h hv hc hn ht with hs | hs
  · exact klt_ne (hs x hxt e he) hk
  · exact klt_ne (hs x hxt e he) hk.symm

/-- `hasOverlap = false`: nothing of the compacted key range lives below the next level -/
theorem below_no_key {s : Lsm} {cd : CompactDef} (h : LsmInv s) (hv : VerBound s) (hc : CompactOk s cd)
    (hov : cdHasOverlap s cd = false) {e : Ent} (he : e ∈ topEnts s cd ++ botEnts s cd) (ts : Nat) :
    readLv e.key ts (cd.nextLevel + 1) (s.levels.drop (cd.nextLevel + 1)) = none := by
  have hokAll : ∀ t ∈ cdTops s cd ++ cdBots s cd, TblOk t := by
    intro t ht
    rcases List.mem_append.mp ht with h1 | h1
    · exact tops_sorted h hc.1 t h1
    · exact (next_level h hc.1).2.1 t (bots_mem h1)
  obtain ⟨lo, hi, hkr⟩ := keyRangeOf_some hokAll (by
    intro hnil
    exact tops_ne_nil hc.1 (List.append_eq_nil_iff.mp hnil).1)
  obtain ⟨hlo, hhi, hcov⟩ := keyRangeOf_cover hokAll hkr
  have hecov : kle lo.key e.key ∧ kle e.key hi.key := by
    rcases List.mem_append.mp he with h1 | h1
    · obtain ⟨t, ht, het⟩ := mem_topEnts.mp h1
      exact hcov t (List.mem_append_left _ ht) e het
    · obtain ⟨t, ht, het⟩ := mem_botEnts.mp h1
      exact hcov t (List.mem_append_right _ ht) e het
  unfold cdHasOverlap checkOverlap at hov
  rw [hkr] at hov
  simp only at hov
  apply readLv_eq_none
  intro tbls htb t ht x hx hk
  obtain ⟨j, hj, rfl⟩ := List.getElem_of_mem htb
  have hjl : cd.nextLevel + 1 + j < s.levels.length := by simp at hj; omega
  have hlv : s.levels[cd.nextLevel + 1 + j]? = some (s.levels.drop (cd.nextLevel + 1))[j] := by
    rw [List.getElem_drop]; exact List.getElem?_eq_getElem hjl
  have hnov : tblOverlaps lo hi t = false := by
    have h1 := List.any_eq_false.mp hov (cd.nextLevel + 1 + j, (s.levels.drop (cd.nextLevel + 1))[j])
      ((mem_zipIdx _ _ _).mpr hlv)
    simp only [Bool.and_eq_true, decide_eq_true_eq, not_and] at h1
    have h2 := h1 (by omega)
    have h3 := List.any_eq_false.mp (by simpa using h2) t ht
    simpa using h3
  have htok : TblOk t := (h.level hlv).1 t ht
  have hver : ∀ y ∈ t.ents, y.ver ≤ maxU64 :=
    fun y hy => hv y (mem_allEntries.mpr (.inr (.inr ⟨_, _, t, hlv, ht, hy⟩)))
  rcases not_overlap_sides htok hver hlo hhi hnov with hs | hs
  · exact hecov.1 (hk ▸ hs x hx)
  · exact hecov.2 (hk ▸ hs x hx)

/-- the per-key heart of C12: the merged-and-filtered run reads like the merged run, except that a
    dead newest version may have been dropped when nothing of its key lives further down -/
theorem reads_core {s : Lsm} {cd : CompactDef} {d n now' now ts : Nat} {k : Bytes} (h : LsmInv s)
    (hv : VerBound s) (hc : CompactOk s cd) (hdp : cd.dropPrefixes = []) (hn : 1 ≤ cd.nextLevel)
    (hts : d ≤ ts) (hnow : now' ≤ now) {U Z : Option Ent}
    (hZ : cdHasOverlap s cd = false → ∀ e ∈ topEnts s cd ++ botEnts s cd, e.key = k → Z = none)
    (hU : ∀ x e, U = some x → e ∈ topEnts s cd ++ botEnts s cd → e.key = k → e.ver ≤ x.ver) :
    visible now (pick U (pick (newestLE (compactOutput s cd d n now').1 k ts)
        (pick (newestLE (keptEnts s cd) k ts) Z))) =
      visible now (pick U (pick (newestLE (cdMerged s cd) k ts) (pick (newestLE (keptEnts s cd) k ts) Z))) := by
  rw [compactOutput_eq hdp]
  simp only
  apply read_fallthrough
  have hp : ({ discardTs := d, numKeep := n, hasOverlap := cdHasOverlap s cd, now := now', dropPrefixes := [] } : CParams).discardTs ≤ ts := hts
  rcases C12_filter_reads_refined (merged_sorted h hc) rfl hp k with heq | ⟨hnone, hov, e, he, hdead⟩
  · exact .inl heq
  · right
    obtain ⟨m1, m2, _, _⟩ := newestLE_some he
    have hin : e ∈ topEnts s cd ++ botEnts s cd := List.mem_append.mpr (mem_merged m1)
    refine ⟨hnone, e, he, deletedOrExpired_mono hnow hdead, ?_, fun x hx => hU x e hx hin m2⟩
    have h1 := kept_no_key h hv hc hn hin ts
    rw [m2] at h1
    rw [h1, hZ hov e hin m2]; rfl

/-- a table that stays on the level of the tops is searched before them (L0), or shares no user
    key with them (levels `≥ 1`) -/
theorem rem_vs_tops {s : Lsm} {cd : CompactDef} (h : LsmInv s) (hl : Layered s) (hc : CompactOk s cd)
    (hne : cd.thisLevel ≠ cd.nextLevel) {t : Tbl} (ht : t ∈ removeIdx (cdThisT s cd) cd.top) {x e : Ent}
    (hx : x ∈ t.ents) (he : e ∈ topEnts s cd) (hk : x.key = e.key) : e.ver ≤ x.ver := by
  obtain ⟨hb, hcase⟩ := hc
  obtain ⟨hthis, htok⟩ := this_level h hb
  obtain ⟨j, hj, hjn⟩ := mem_removeIdx.mp ht
  obtain ⟨t', ht', het'⟩ := mem_topEnts.mp he
  obtain ⟨j', hj'm, hj'⟩ := mem_pickIdx.mp ht'
  have hkd : 1 ≤ cd.thisLevel → e.ver ≤ x.ver := by
    intro h1
    exfalso
    rcases level_sep_of_ne (htok.2 h1) hj hj' (by intro e'; subst e'; exact hjn hj'm) with hs | hs
    · exact klt_ne (hs x hx e het') hk
    · exact klt_ne (hs e het' x hx) hk.symm
  rcases hcase with hh | hh | hh | hh
  · obtain ⟨h0, _, hr, _, _⟩ := hh
    rw [h0] at hthis
    have hlt : j' < j := by
      have h1 : j' < cd.top.length := by rw [hr] at hj'm; simpa using hj'm
      have h2 : ¬ j < cd.top.length := by intro h2; apply hjn; rw [hr]; simpa using h2
      omega
    exact layered_l0 hl hthis hj hj' hlt hx het' hk
  · exact hkd hh.1
  · exact absurd (hh.1.trans hh.2.1.symm) hne
  · exact absurd hh.2.1.symm hne

/-- where an input entry of the compaction is stored -/
theorem input_level {s : Lsm} {cd : CompactDef} (h : LsmInv s) (hb : CdBase s cd) {e : Ent}
    (he : e ∈ topEnts s cd ++ botEnts s cd) :
    (∃ t, s.levels[cd.thisLevel]? = some (cdThisT s cd) ∧ t ∈ cdThisT s cd ∧ e ∈ t.ents ∧ e ∈ topEnts s cd) ∨
    (∃ t, s.levels[cd.nextLevel]? = some (cdNextT s cd) ∧ t ∈ cdNextT s cd ∧ e ∈ t.ents ∧ e ∈ botEnts s cd) := by
  rcases List.mem_append.mp he with h1 | h1
  · obtain ⟨t, ht, het⟩ := mem_topEnts.mp h1
    exact .inl ⟨t, (this_level h hb).1, tops_mem ht, het, h1⟩
  · obtain ⟨t, ht, het⟩ := mem_botEnts.mp h1
    exact .inr ⟨t, (next_level h hb).1, bots_mem ht, het, h1⟩

theorem thisT_eq {s : Lsm} {cd : CompactDef} (h : cd.thisLevel < s.levels.length) :
    s.levels[cd.thisLevel] = cdThisT s cd := by
  unfold cdThisT; rw [List.getD_eq_getElem?_getD, List.getElem?_eq_getElem h]; rfl

theorem nextT_eq {s : Lsm} {cd : CompactDef} (h : cd.nextLevel < s.levels.length) :
    s.levels[cd.nextLevel] = cdNextT s cd := by
  unfold cdNextT; rw [List.getD_eq_getElem?_getD, List.getElem?_eq_getElem h]; rfl

/-- the candidates of `k` found before the compacted tables are at least as new as them -/
theorem upper_rec {s : Lsm} {cd : CompactDef} (h : LsmInv s) (hl : Layered s) (hc : CompactOk s cd)
    (hle : cd.thisLevel ≤ cd.nextLevel) {k : Bytes} {ts : Nat} {x e : Ent}
    (hx : pick (newestLE (memEnts s) k ts) (readLv k ts 0 (s.levels.take cd.thisLevel)) = some x)
    (he : e ∈ topEnts s cd ++ botEnts s cd) (hk : e.key = k) : e.ver ≤ x.ver := by
  have hlev : ∃ (i : Nat) (tbls : List Tbl) (t : Tbl), s.levels[i]? = some tbls ∧ t ∈ tbls ∧ e ∈ t.ents ∧ cd.thisLevel ≤ i := by
    rcases input_level h hc.1 he with ⟨t, h1, h2, h3, _⟩ | ⟨t, h1, h2, h3, _⟩
    · exact ⟨_, _, t, h1, h2, h3, Nat.le_refl _⟩
    · exact ⟨_, _, t, h1, h2, h3, hle⟩
  obtain ⟨i, tbls, t, hi, ht, het, hge⟩ := hlev
  rcases pick_some hx with ⟨h1, _⟩ | ⟨h1, _⟩
  · obtain ⟨m1, m2, _, _⟩ := newestLE_some h1
    exact layered_mem_level hl m1 hi ht het (m2.trans hk.symm)
  · obtain ⟨j, tbls', t', hj, ht', hxt', hxk, _⟩ := readLv_some h1
    have hjlt : j < cd.thisLevel := by
      have := (List.getElem?_eq_some_iff.mp hj).1
      simp at this; omega
    have hj' : s.levels[j]? = some tbls' := by
      rw [List.getElem?_take] at hj; simpa [hjlt] using hj
    exact layered_levels hl hj' hi (by omega) ht' ht hxt' het (hxk.trans hk.symm)

/-- L0→Lbase and Li→Li+1: two different levels, nothing in between -/
theorem compact_reads_two {s s' : Lsm} {cd : CompactDef} {d n now' now ts : Nat} {k : Bytes} (h : LsmInv s)
    (hv : VerBound s) (hl : Layered s) (hc : CompactOk s cd) (hdp : cd.dropPrefixes = [])
    (hs : s.compact cd d n now' = some s') (hts : d ≤ ts) (hnow : now' ≤ now)
    (hpq : cd.thisLevel < cd.nextLevel)
    (hM : readLv k ts (cd.thisLevel + 1)
      ((s.levels.drop (cd.thisLevel + 1)).take (cd.nextLevel - cd.thisLevel - 1)) = none) :
    visible now (s'.get k ts) = visible now (s.get k ts) := by
  have hinvW := compact_invW h hv hc hs
  obtain ⟨new0, hsp, rfl⟩ := compact_some hs
  have hne : cd.thisLevel ≠ cd.nextLevel := by omega
  have hn : 1 ≤ cd.nextLevel := by omega
  have hq := hc.1.2.1
  rw [get_eq_newestLE hinvW, get_eq_newestLE (lsmInv_weaken h), newestLE_allEntries, newestLE_allEntries]
  have hmem : memEnts ({ s with levels := newLevels s cd new0 } : Lsm) = memEnts s := rfl
  rw [hmem]
  simp only
  have hnl : newLevels s cd new0 =
      (s.levels.set cd.nextLevel (newNext s cd new0)).set cd.thisLevel (removeIdx (cdThisT s cd) cd.top) := by
    unfold newLevels; rw [if_neg hne]
  rw [hnl, readLv_two k ts hpq hq, readLv_two_self k ts hpq hq, thisT_eq (by omega), nextT_eq hq, hM,
    nl_this_split h hc hne, nl_next_old h hc hne hn, nl_next_new h hv hc hsp hn]
  have core := reads_core (s := s) (cd := cd) (d := d) (n := n) (now' := now') (now := now) (ts := ts) (k := k)
    h hv hc hdp hn hts hnow
    (U := pick (pick (newestLE (memEnts s) k ts) (readLv k ts 0 (s.levels.take cd.thisLevel)))
      (newestLE (lvlChunk cd.thisLevel (removeIdx (cdThisT s cd) cd.top)) k ts))
    (Z := readLv k ts (cd.nextLevel + 1) (s.levels.drop (cd.nextLevel + 1)))
    (by
      intro hov e he hk
      have := below_no_key h hv hc hov he ts
      rwa [hk] at this)
    (by
      intro x e hx he hk
      rcases pick_some hx with ⟨h1, _⟩ | ⟨h1, _⟩
      · exact upper_rec h hl hc (by omega) h1 he hk
      · obtain ⟨m1, m2, _, _⟩ := newestLE_some h1
        obtain ⟨t, ht, hxt⟩ := mem_lvlChunk.mp m1
        rcases input_level h hc.1 he with ⟨_, _, _, _, h5⟩ | ⟨t', h2, h3, h4, _⟩
        · exact rem_vs_tops h hl hc hne ht hxt h5 (m2.trans hk.symm)
        · exact layered_levels hl (this_level h hc.1).1 h2 hpq ((removeIdx_sublist _ _).subset ht) h3 hxt h4
            (m2.trans hk.symm))
  rw [nl_merged h hc] at core
  simp only [pick_assoc, pick_none_left] at core ⊢
  exact core

theorem pickIdx_append {α : Type} (l : List α) (a b : List Nat) : pickIdx l (a ++ b) = pickIdx l a ++ pickIdx l b := by
  unfold pickIdx; rw [List.filterMap_append]

/-- the last level before a same-level compaction -/
theorem nl_next_old_same {s : Lsm} {cd : CompactDef} (h : LsmInv s) (hc : CompactOk s cd)
    (heq : cd.nextLevel = cd.thisLevel) (hn : 1 ≤ cd.nextLevel) (k : Bytes) (ts : Nat) :
    newestLE (lvlChunk cd.nextLevel (cdNextT s cd)) k ts =
      pick (pick (newestLE (lvlChunk cd.thisLevel (cdTops s cd)) k ts) (newestLE (botEnts s cd) k ts))
        (newestLE (keptEnts s cd) k ts) := by
  obtain ⟨_, hnok⟩ := next_level h hc.1
  rw [← newestLE_append]
  apply newestLE_union
  · unfold lvlChunk; rw [if_neg (by omega)]
    exact (levelOk_weaken hnok).2 hn
  · intro e
    rw [List.mem_append, mem_lvlChunk, mem_lvlChunk, mem_botEnts, mem_keptEnts]
    unfold keptIdx cdBots cdTops; rw [if_pos heq.symm, ← nextT_eq_thisT (s := s) heq]
    constructor
    · rintro ⟨t, ht, he⟩
      rcases (mem_pick_or_remove _ (cd.top ++ cd.bot) t).mp ht with h1 | h1
      · rw [pickIdx_append] at h1
        rcases List.mem_append.mp h1 with h2 | h2
        · exact .inl (.inl ⟨t, h2, he⟩)
        · exact .inl (.inr ⟨t, h2, he⟩)
      · exact .inr ⟨t, h1, he⟩
    · rintro ((⟨t, ht, he⟩ | ⟨t, ht, he⟩) | ⟨t, ht, he⟩)
      · exact ⟨t, (mem_pick_or_remove _ (cd.top ++ cd.bot) t).mpr
          (.inl (by rw [pickIdx_append]; exact List.mem_append_left _ ht)), he⟩
      · exact ⟨t, (mem_pick_or_remove _ (cd.top ++ cd.bot) t).mpr
          (.inl (by rw [pickIdx_append]; exact List.mem_append_right _ ht)), he⟩
      · exact ⟨t, (mem_pick_or_remove _ (cd.top ++ cd.bot) t).mpr (.inr ht), he⟩

/-- Lmax→Lmax: one level `≥ 1`, rewritten in place -/
theorem compact_reads_same {s s' : Lsm} {cd : CompactDef} {d n now' now ts : Nat} {k : Bytes} (h : LsmInv s)
    (hv : VerBound s) (hl : Layered s) (hc : CompactOk s cd) (hdp : cd.dropPrefixes = [])
    (hs : s.compact cd d n now' = some s') (hts : d ≤ ts) (hnow : now' ≤ now)
    (heq : cd.nextLevel = cd.thisLevel) (hn : 1 ≤ cd.nextLevel) :
    visible now (s'.get k ts) = visible now (s.get k ts) := by
  have hinvW := compact_invW h hv hc hs
  obtain ⟨new0, hsp, rfl⟩ := compact_some hs
  have hq := hc.1.2.1
  rw [get_eq_newestLE hinvW, get_eq_newestLE (lsmInv_weaken h), newestLE_allEntries, newestLE_allEntries]
  have hmem : memEnts ({ s with levels := newLevels s cd new0 } : Lsm) = memEnts s := rfl
  rw [hmem]
  simp only
  have hnl : newLevels s cd new0 = s.levels.set cd.nextLevel (newNext s cd new0) := by
    unfold newLevels; rw [if_pos heq.symm]
  rw [hnl, readLv_split k ts hq, readLv_split_self k ts hq, nextT_eq hq, nl_next_old_same h hc heq hn,
    nl_next_new h hv hc hsp hn]
  have core := reads_core (s := s) (cd := cd) (d := d) (n := n) (now' := now') (now := now) (ts := ts) (k := k)
    h hv hc hdp hn hts hnow
    (U := pick (newestLE (memEnts s) k ts) (readLv k ts 0 (s.levels.take cd.nextLevel)))
    (Z := readLv k ts (cd.nextLevel + 1) (s.levels.drop (cd.nextLevel + 1)))
    (by
      intro hov e he hk
      have := below_no_key h hv hc hov he ts
      rwa [hk] at this)
    (by
      intro x e hx he hk
      rw [heq] at hx
      exact upper_rec h hl hc (by omega) hx he hk)
  rw [nl_merged h hc] at core
  simp only [pick_assoc] at core ⊢
  exact core

end LL
end Badger
