import BadgerModel.WritePipe
import BadgerProofs.Lemmas.Oracle
/-!
Invariant of the write pipeline (`BadgerModel/WritePipe.lean`) used by `Props/C03Pipe.lean`.
-/
namespace Badger

theorem Sys.step_frame (s s' : Sys) (l : Label) (hl : ∀ t, l ≠ .commit t) (hl2 : ∀ t, l ≠ .doneCommit t)
    (hl3 : ∀ t u, l ≠ .commitAt t u) (hs : s.step l = some s') :
    s'.hist = s.hist ∧ s'.doneCommits = s.doneCommits := by
  cases l with
  | commit t => exact absurd rfl (hl t)
  | doneCommit t => exact absurd rfl (hl2 t)
  | commitAt t u => exact absurd rfl (hl3 t u)
  | begin u =>
    simp only [Sys.step] at hs
    split at hs
    · cases hs
    · cases hs; exact ⟨rfl, rfl⟩
  | waitCheck tid =>
    simp only [Sys.step] at hs
    split at hs
    · cases hs
    · split at hs
      · split at hs
        · cases hs
        · split at hs <;> (cases hs; exact ⟨rfl, rfl⟩)
      · cases hs
  | procTxnMark =>
    simp only [Sys.step] at hs
    split at hs
    · cases hs
    · split at hs
      · cases hs; exact ⟨rfl, rfl⟩
      · cases hs
  | procReadMark =>
    simp only [Sys.step] at hs
    split at hs
    · cases hs
    · split at hs
      · cases hs; exact ⟨rfl, rfl⟩
      · cases hs
  | read tid fp =>
    simp only [Sys.step] at hs
    split at hs
    · cases hs
    · split at hs
      · split at hs
        · cases hs
        · split at hs <;> (cases hs; exact ⟨rfl, rfl⟩)
      · cases hs
  | write tid fp =>
    simp only [Sys.step] at hs
    split at hs
    · cases hs
    · split at hs
      · split at hs
        · cases hs
        · cases hs; exact ⟨rfl, rfl⟩
      · cases hs
  | discard tid =>
    simp only [Sys.step] at hs
    split at hs
    · cases hs
    · split at hs
      · split at hs
        · cases hs
        · split at hs <;> (cases hs; exact ⟨rfl, rfl⟩)
      · cases hs
  | beginAt r u =>
    simp only [Sys.step] at hs
    split at hs
    · cases hs
    · cases hs; exact ⟨rfl, rfl⟩
  | setDiscardTs ts =>
    simp only [Sys.step] at hs
    split at hs
    · cases hs
    · split at hs <;> (cases hs; exact ⟨rfl, rfl⟩)
  | cleanup =>
    simp only [Sys.step] at hs
    split at hs
    · cases hs
    · split at hs <;> (cases hs; exact ⟨rfl, rfl⟩)

theorem Sys.step_doneCommit (s s' : Sys) (ts : Nat) (hs : s.step (.doneCommit ts) = some s') :
    s'.hist = s.hist ∧ s'.doneCommits = s.doneCommits ++ [ts] := by
  simp only [Sys.step] at hs
  split at hs
  · cases hs
  · cases hs; exact ⟨rfl, rfl⟩


/-- What the oracle step `commit` does to the ghost history (normal mode, reachable state). -/
theorem Sys.step_commit {d : Bool} {n : Nat} {s s' : Sys} (hI : SysInv d n s) (tid : Nat)
    (hs : s.step (.commit tid) = some s') :
    ∃ x, s.txns[tid]? = some x ∧ s'.doneCommits = s.doneCommits ∧
      ((s.commitResult tid = some .conflict ∧ s'.hist = s.hist) ∨
       (s.commitResult tid = some (.ok s.o.nextTxnTs) ∧
        s'.hist = s.hist ++ [⟨s.o.nextTxnTs, x.t.readTs, x.t.reads, x.t.conflictKeys, tid⟩])) := by
  have hg1 : ¬ (s.crashed = true ∨ s.o.isManaged = true) := by simp [hI.notManaged, hI.live]
  simp only [Sys.step] at hs
  rw [if_neg hg1] at hs
  cases hx : s.txns[tid]? with
  | none => rw [hx] at hs; simp at hs
  | some x =>
    rw [hx] at hs
    simp only at hs
    split at hs
    · simp at hs
    · rename_i hcond
      have hph : x.phase = .active := by
        by_cases h : x.phase = .active
        · exact h
        · exact absurd (.inl h) hcond
      have hxm := List.mem_of_getElem? hx
      refine ⟨x, rfl, ?_⟩
      cases hc : s.o.hasConflict x.t with
      | true =>
        have e : s.o.newCommitTs x.t = (s.o, x.t, .conflict) := by simp [Oracle.newCommitTs, hc]
        rw [e] at hs
        simp only [Option.some.injEq] at hs
        subst hs
        exact ⟨rfl, .inl ⟨by simp [Sys.commitResult, hx, e], rfl⟩⟩
      | false =>
        have e := hI.newCommitTs_eq x hxm (by rw [hph]; decide) hc
        rw [e] at hs
        simp only [Option.some.injEq] at hs
        subst hs
        exact ⟨rfl, .inr ⟨by simp [Sys.commitResult, hx, e], rfl⟩⟩

/-! ## list helpers -/

theorem pairwise_ts_inj {α : Type} (f : α → Nat) (l : List α) (h : l.Pairwise (fun a b => f a < f b))
    (a b : α) (ha : a ∈ l) (hb : b ∈ l) (e : f a = f b) : a = b := by
  induction l with
  | nil => cases ha
  | cons x xs ih =>
    have hp := List.pairwise_cons.mp h
    rcases List.mem_cons.mp ha with h1 | h1 <;> rcases List.mem_cons.mp hb with h2 | h2
    · rw [h1, h2]
    · have := hp.1 b h2; rw [h1] at e; omega
    · have := hp.1 a h1; rw [h2] at e; omega
    · exact ih hp.2 h1 h2

theorem pairwise_map_lt {α : Type} (f : α → Nat) (l : List α) :
    (l.map f).Pairwise (· < ·) ↔ l.Pairwise (fun a b => f a < f b) := by
  rw [List.pairwise_map]

/-- The entries of strictly ordered requests, flattened, have non-decreasing versions. -/
theorem entries_sorted (l : List Req) (h : l.Pairwise (fun a b => a.ts < b.ts)) :
    (l.flatMap Req.entries).Pairwise (fun a b => a.2 ≤ b.2) := by
  induction l with
  | nil => simp
  | cons r rs ih =>
    have hp := List.pairwise_cons.mp h
    simp only [List.flatMap_cons]
    apply List.pairwise_append.mpr
    refine ⟨?_, ih hp.2, ?_⟩
    · simp only [Req.entries]
      rw [List.pairwise_map]
      exact List.Pairwise.imp (fun _ => Nat.le_refl _) (List.pairwise_of_forall (fun _ _ => trivial))
    · intro a ha b hb
      simp only [Req.entries, List.mem_map] at ha
      obtain ⟨k, _, rfl⟩ := ha
      obtain ⟨q, hq, hbq⟩ := List.mem_flatMap.mp hb
      simp only [Req.entries, List.mem_map] at hbq
      obtain ⟨k2, _, rfl⟩ := hbq
      exact Nat.le_of_lt (hp.1 q hq)

theorem mem_entries (r : Req) (e : Nat × Nat) : e ∈ r.entries ↔ e.2 = r.ts ∧ e.1 ∈ r.keys := by
  simp only [Req.entries, List.mem_map]
  constructor
  · rintro ⟨k, hk, rfl⟩; exact ⟨rfl, hk⟩
  · rintro ⟨e1, e2⟩; exact ⟨e.1, e2, by cases e; simp at e1 ⊢; exact e1.symm⟩

/-! ## The invariant -/

/-- The commit timestamp handed out but not yet enqueued (its owner holds `writeChLock`). -/
def Pipe.stampedTs (p : Pipe) : List Nat :=
  match p.lockHolder with
  | some t => match p.cph t with
    | .stamped ts _ => [ts]
    | _ => []
  | none => []

/-- Handed-out timestamps whose commit was not rejected by `sendToWriteCh`. -/
def Pipe.liveTs (p : Pipe) : List Nat :=
  (p.sys.hist.map (·.ts)).filter (fun t => !p.rejected.contains t)

structure PInv (d : Bool) (n : Nat) (p : Pipe) : Prop where
  reach : OReach false d n p.sys
  /-- exactly the lock holder is between `lock` and `unlock` -/
  lockIff : ∀ tid, (p.cph tid).holds = true ↔ p.lockHolder = some tid
  /-- the history of handed-out timestamps = everything enqueued so far (in channel order),
      plus the one the lock holder has just been given -/
  histEnq : p.liveTs = p.enq.map (·.ts) ++ p.stampedTs
  /-- rejected timestamps were handed out and have been reported done -/
  rejHist : ∀ t ∈ p.rejected, t ∈ p.sys.hist.map (·.ts) ∧ t ∈ p.sys.doneCommits
  keysEnq : ∀ q ∈ p.enq, ∃ e ∈ p.sys.hist, e.ts = q.ts ∧ e.conflictKeys = q.keys
  keysStamped : ∀ tid ts ks, p.cph tid = .stamped ts ks → ∃ e ∈ p.sys.hist, e.ts = ts ∧ e.conflictKeys = ks
  /-- the memtable = all entries of the finished batches, then a prefix of the current batch -/
  memFlat : ∃ applied, p.memtable = p.finished.flatMap Req.entries ++ applied ∧
    applied ++ p.pending = (p.batch.getD []).flatMap Req.entries
  idle : p.batch = none → p.pending = []
  sigEq : p.signalled = p.finished.map (·.ts)
  ackSub : ∀ t ∈ p.sys.doneCommits, t ∈ p.signalled ∨ t ∈ p.rejected
  acked : ∀ tid ts, p.cph tid = .acked ts → ts ∈ p.sys.doneCommits ∧ ts ∈ p.signalled

theorem PInv.sysInv {d n p} (h : PInv d n p) : SysInv d n p.sys := h.reach.inv

/-- Everything ever enqueued is strictly ordered by commit timestamp. -/
theorem PInv.enqSorted {d n p} (h : PInv d n p) : p.enq.Pairwise (fun a b => a.ts < b.ts) := by
  have hs0 := (pairwise_map_lt (fun e : HistEntry => e.ts) p.sys.hist).mpr h.sysInv.histSorted
  have hs : p.liveTs.Pairwise (· < ·) := List.Pairwise.sublist List.filter_sublist hs0
  rw [h.histEnq] at hs
  exact (pairwise_map_lt (fun q : Req => q.ts) _).mp (List.pairwise_append.mp hs).1

theorem setPh_same (p : Pipe) (tid : Nat) (c : CPhase) : p.setPh tid c tid = c := by simp [Pipe.setPh]
theorem setPh_other (p : Pipe) (tid t : Nat) (c : CPhase) (h : t ≠ tid) : p.setPh tid c t = p.cph t := by
  simp [Pipe.setPh, h]

theorem PInv.init (d : Bool) (n : Nat) : PInv d n (Pipe.opened d n) := by
  refine ⟨OReach.init, ?_, by simp [Pipe.opened, Pipe.enq, Pipe.stampedTs, Pipe.liveTs, Sys.opened],
    by simp [Pipe.opened], by simp [Pipe.opened, Pipe.enq], by simp [Pipe.opened],
    ⟨[], by simp [Pipe.opened]⟩, by simp [Pipe.opened], by simp [Pipe.opened],
    by simp [Pipe.opened, Sys.opened], by simp [Pipe.opened]⟩
  intro tid; simp [Pipe.opened, CPhase.holds]

/-- Lock bookkeeping when the (unique) holder `tid` moves to another holding phase. -/
theorem lockIff_keep (p : Pipe) (tid : Nat) (c : CPhase) (hc : c.holds = true)
    (h : ∀ t, (p.cph t).holds = true ↔ p.lockHolder = some t) (hh : p.lockHolder = some tid) :
    ∀ t, (p.setPh tid c t).holds = true ↔ p.lockHolder = some t := by
  intro t
  by_cases ht : t = tid
  · subst ht; rw [setPh_same]; simp [hc, hh]
  · rw [setPh_other _ _ _ _ ht]; exact h t

/-- … and when the holder releases the lock. -/
theorem lockIff_release (p : Pipe) (tid : Nat) (c : CPhase) (hc : c.holds = false)
    (h : ∀ t, (p.cph t).holds = true ↔ p.lockHolder = some t) (hh : p.lockHolder = some tid) :
    ∀ t, (p.setPh tid c t).holds = true ↔ (none : Option Nat) = some t := by
  intro t
  by_cases ht : t = tid
  · subst ht; rw [setPh_same]; simp [hc]
  · rw [setPh_other _ _ _ _ ht]
    constructor
    · intro hx; have := (h t).mp hx; rw [hh] at this; cases this; exact absurd rfl ht
    · intro hx; cases hx

/-- A phase change of `tid` to a phase that is neither `stamped` nor `acked` keeps the two
    per-phase facts. -/
theorem phase_facts_keep {d n} {p : Pipe} (ih : PInv d n p) (tid : Nat) (c : CPhase)
    (h1 : ∀ ts ks, c ≠ .stamped ts ks) (h2 : ∀ ts, c ≠ .acked ts) :
    (∀ t ts ks, p.setPh tid c t = .stamped ts ks → ∃ e ∈ p.sys.hist, e.ts = ts ∧ e.conflictKeys = ks) ∧
    (∀ t ts, p.setPh tid c t = .acked ts → ts ∈ p.sys.doneCommits ∧ ts ∈ p.signalled) := by
  constructor
  · intro t ts ks hc
    by_cases ht : t = tid
    · subst ht; rw [setPh_same] at hc; exact absurd hc (h1 ts ks)
    · rw [setPh_other _ _ _ _ ht] at hc; exact ih.keysStamped t ts ks hc
  · intro t ts hc
    by_cases ht : t = tid
    · subst ht; rw [setPh_same] at hc; exact absurd hc (h2 ts)
    · rw [setPh_other _ _ _ _ ht] at hc; exact ih.acked t ts hc

theorem PReach.inv {d : Bool} {n : Nat} {p : Pipe} (h : PReach d n p) : PInv d n p := by
  induction h with
  | init => exact PInv.init d n
  | @step p p' l _ hstep ih =>
    have hI := ih.sysInv
    cases l with
    | sys l =>
      simp only [Pipe.step] at hstep
      split at hstep
      · rename_i hal
        cases hs : p.sys.step l with
        | none => rw [hs] at hstep; simp at hstep
        | some s =>
          rw [hs] at hstep
          simp only [Option.some.injEq] at hstep
          subst hstep
          have hfr := Sys.step_frame p.sys s l
            (by intro t e; subst e; simp [Pipe.sysAllowed] at hal)
            (by intro t e; subst e; simp [Pipe.sysAllowed] at hal)
            (by intro t u e; subst e; simp [Pipe.sysAllowed] at hal) hs
          refine ⟨OReach.step l ih.reach hs, ih.lockIff, ?_, ?_, ?_, ?_, ih.memFlat, ih.idle, ih.sigEq, ?_, ?_⟩
          · have := ih.histEnq
            simp only [Pipe.liveTs, hfr.1] at this ⊢; exact this
          · intro t ht; simp only [hfr.1, hfr.2]; exact ih.rejHist t ht
          · intro q hq; simp only [hfr.1]; exact ih.keysEnq q hq
          · intro t ts ks hc; simp only [hfr.1]; exact ih.keysStamped t ts ks hc
          · intro t ht; simp only [hfr.2] at ht; exact ih.ackSub t ht
          · intro t ts hc; simp only [hfr.2]; exact ih.acked t ts hc
      · cases hstep
    | lock tid =>
      simp only [Pipe.step] at hstep
      split at hstep
      · cases hstep
      · rename_i hc
        simp only [Option.some.injEq] at hstep
        subst hstep
        have hnone : p.lockHolder = none := by
          cases hl : p.lockHolder with
          | none => rfl
          | some x => exact absurd (.inl (by simp [hl])) hc
        obtain ⟨hk1, hk2⟩ := phase_facts_keep ih tid .locked (by intro _ _ h; cases h) (by intro _ h; cases h)
        refine ⟨ih.reach, ?_, ?_, ih.rejHist, ih.keysEnq, hk1, ih.memFlat, ih.idle, ih.sigEq, ih.ackSub, hk2⟩
        · intro t
          by_cases ht : t = tid
          · subst ht; simp [setPh_same, CPhase.holds]
          · simp only [setPh_other _ _ _ _ ht]
            constructor
            · intro hx; have := (ih.lockIff t).mp hx; rw [hnone] at this; cases this
            · intro hx; simp only [Option.some.injEq] at hx; exact absurd hx.symm ht
        · have := ih.histEnq
          simp only [Pipe.stampedTs, hnone] at this
          simp only [Pipe.stampedTs, setPh_same, Pipe.enq, Pipe.liveTs] at this ⊢
          exact this
    | stamp tid =>
      simp only [Pipe.step] at hstep
      split at hstep
      · cases hstep
      · rename_i hlk
        have hlocked : p.cph tid = .locked := by simpa using hlk
        have hholder : p.lockHolder = some tid := (ih.lockIff tid).mp (by simp [hlocked, CPhase.holds])
        have hst0 : p.stampedTs = [] := by simp [Pipe.stampedTs, hholder, hlocked]
        cases hs : p.sys.step (.commit tid) with
        | none => rw [hs] at hstep; simp at hstep
        | some s =>
          obtain ⟨x, hx, hdc, hcase⟩ := Sys.step_commit hI tid hs
          rw [hs, hx] at hstep
          rcases hcase with ⟨hres, hhist⟩ | ⟨hres, hhist⟩
          · rw [hres] at hstep
            simp only [Option.some.injEq] at hstep
            subst hstep
            obtain ⟨hk1, hk2⟩ := phase_facts_keep ih tid .idle (by intro _ _ h; cases h) (by intro _ h; cases h)
            refine ⟨OReach.step _ ih.reach hs, lockIff_release p tid .idle rfl ih.lockIff hholder, ?_, ?_, ?_, ?_,
              ih.memFlat, ih.idle, ih.sigEq, ?_, ?_⟩
            · have := ih.histEnq
              rw [hst0] at this
              simp only [hhist, Pipe.stampedTs, Pipe.enq, Pipe.liveTs] at this ⊢
              exact this
            · intro t ht; simp only [hhist, hdc]; exact ih.rejHist t ht
            · intro q hq; simp only [hhist]; exact ih.keysEnq q hq
            · intro t ts ks hcp; simp only [hhist]; exact hk1 t ts ks hcp
            · intro t ht; simp only [hdc] at ht; exact ih.ackSub t ht
            · intro t ts hcp; simp only [hdc]; exact hk2 t ts hcp
          · rw [hres] at hstep
            simp only [Option.some.injEq] at hstep
            subst hstep
            have hfresh : p.sys.o.nextTxnTs ∉ p.rejected := by
              intro hm
              obtain ⟨e, he, ee⟩ := List.mem_map.mp (ih.rejHist _ hm).1
              have := (hI.histLt e he).2
              omega
            refine ⟨OReach.step _ ih.reach hs,
              lockIff_keep p tid _ rfl ih.lockIff hholder, ?_, ?_, ?_, ?_,
              ih.memFlat, ih.idle, ih.sigEq, ?_, ?_⟩
            · have := ih.histEnq
              rw [hst0] at this
              simp only [Pipe.liveTs, Pipe.enq, List.append_nil] at this
              simp only [hhist, Pipe.stampedTs, hholder, setPh_same, Pipe.enq, Pipe.liveTs, List.map_append,
                List.map_cons, List.map_nil, List.filter_append, this]
              congr 1
              simp [List.filter_cons, hfresh]
            · intro t ht
              obtain ⟨h1, h2⟩ := ih.rejHist t ht
              simp only [hhist, hdc, List.map_append, List.mem_append]
              exact ⟨.inl h1, h2⟩
            · intro q hq
              obtain ⟨e, he, h1, h2⟩ := ih.keysEnq q hq
              exact ⟨e, by simp only [hhist]; exact List.mem_append.mpr (.inl he), h1, h2⟩
            · intro t ts ks hcp
              simp only [hhist]
              by_cases ht : t = tid
              · subst ht
                simp only [setPh_same] at hcp
                cases hcp
                exact ⟨_, List.mem_append.mpr (.inr (List.mem_singleton.mpr rfl)), rfl, rfl⟩
              · simp only [setPh_other _ _ _ _ ht] at hcp
                obtain ⟨e, he, h1, h2⟩ := ih.keysStamped t ts ks hcp
                exact ⟨e, List.mem_append.mpr (.inl he), h1, h2⟩
            · intro t ht; simp only [hdc] at ht; exact ih.ackSub t ht
            · intro t ts hcp
              simp only [hdc]
              by_cases ht : t = tid
              · subst ht; simp only [setPh_same] at hcp; cases hcp
              · simp only [setPh_other _ _ _ _ ht] at hcp; exact ih.acked t ts hcp
    | enqueue tid =>
      simp only [Pipe.step] at hstep
      split at hstep
      · rename_i ts keys hcp
        simp only [Option.some.injEq] at hstep
        subst hstep
        have hholder : p.lockHolder = some tid := (ih.lockIff tid).mp (by simp [hcp, CPhase.holds])
        obtain ⟨hk1, hk2⟩ := phase_facts_keep ih tid (.enqueued ts) (by intro _ _ h; cases h) (by intro _ h; cases h)
        refine ⟨ih.reach, lockIff_keep p tid _ rfl ih.lockIff hholder, ?_, ih.rejHist, ?_, hk1, ih.memFlat, ih.idle,
          ih.sigEq, ih.ackSub, hk2⟩
        · have := ih.histEnq
          simp only [Pipe.stampedTs, hholder, hcp, Pipe.enq, Pipe.liveTs] at this
          simp only [Pipe.stampedTs, hholder, setPh_same, Pipe.enq, Pipe.liveTs, List.map_append, List.map_cons,
            List.map_nil, List.append_nil] at this ⊢
          rw [this]; simp
        · intro q hq
          simp only [Pipe.enq, List.mem_append] at hq
          rcases hq with (hq | hq) | hq | hq
          · exact ih.keysEnq q (by simp [Pipe.enq, hq])
          · exact ih.keysEnq q (by simp [Pipe.enq, hq])
          · exact ih.keysEnq q (by simp [Pipe.enq, hq])
          · simp at hq; subst hq
            exact ih.keysStamped tid ts keys hcp
      · cases hstep
    | reject tid =>
      simp only [Pipe.step] at hstep
      split at hstep
      · rename_i ts keys hcp
        cases hs : p.sys.step (.doneCommit ts) with
        | none => rw [hs] at hstep; simp at hstep
        | some s =>
          rw [hs] at hstep
          simp only [Option.some.injEq] at hstep
          subst hstep
          have hfr := Sys.step_doneCommit p.sys s ts hs
          have hholder : p.lockHolder = some tid := (ih.lockIff tid).mp (by simp [hcp, CPhase.holds])
          obtain ⟨hk1, hk2⟩ := phase_facts_keep ih tid .idle (by intro _ _ h; cases h) (by intro _ h; cases h)
          obtain ⟨e0, he0, hts0, _⟩ := ih.keysStamped tid ts keys hcp
          have hlive := ih.histEnq
          simp only [Pipe.stampedTs, hholder, hcp] at hlive
          -- ts is above everything enqueued
          have hsorted : (p.enq.map (·.ts) ++ [ts]).Pairwise (· < ·) := by
            rw [← hlive]
            exact List.Pairwise.sublist List.filter_sublist
              ((pairwise_map_lt (fun e : HistEntry => e.ts) p.sys.hist).mpr hI.histSorted)
          have hlt : ∀ a ∈ p.enq.map (·.ts), a < ts := by
            intro a ha
            exact (List.pairwise_append.mp hsorted).2.2 a ha ts (List.mem_singleton.mpr rfl)
          refine ⟨OReach.step _ ih.reach hs, lockIff_release p tid .idle rfl ih.lockIff hholder, ?_, ?_, ?_, ?_,
            ih.memFlat, ih.idle, ih.sigEq, ?_, ?_⟩
          · -- the live timestamps lose exactly `ts`
            have e1 : (p.sys.hist.map (·.ts)).filter (fun t => !(p.rejected ++ [ts]).contains t) =
                ((p.sys.hist.map (·.ts)).filter (fun t => !p.rejected.contains t)).filter (fun t => t != ts) := by
              rw [List.filter_filter]
              apply List.filter_congr
              intro t _
              by_cases h1 : t ∈ p.rejected <;> by_cases h2 : t = ts <;> simp [h1, h2]
            simp only [Pipe.liveTs, hfr.1, Pipe.stampedTs, Pipe.enq, List.append_nil]
            simp only [Pipe.liveTs] at hlive
            rw [e1, hlive, List.filter_append]
            have e2 : (p.enq.map (·.ts)).filter (fun t => t != ts) = p.enq.map (·.ts) := by
              apply List.filter_eq_self.mpr
              intro a ha; have := hlt a ha; simp; omega
            rw [e2]; simp [Pipe.enq]
          · intro t ht
            simp only [hfr.1, hfr.2]
            rcases List.mem_append.mp ht with ht | ht
            · obtain ⟨h1, h2⟩ := ih.rejHist t ht
              exact ⟨h1, List.mem_append.mpr (.inl h2)⟩
            · simp at ht; subst ht
              exact ⟨List.mem_map.mpr ⟨e0, he0, hts0⟩, List.mem_append.mpr (.inr (List.mem_singleton.mpr rfl))⟩
          · intro q hq; simp only [hfr.1]; exact ih.keysEnq q hq
          · intro t ts' ks hc; simp only [hfr.1]; exact hk1 t ts' ks hc
          · intro t ht
            simp only [hfr.2] at ht
            rcases List.mem_append.mp ht with ht | ht
            · rcases ih.ackSub t ht with h1 | h1
              · exact .inl h1
              · exact .inr (List.mem_append.mpr (.inl h1))
            · right; exact List.mem_append.mpr (.inr ht)
          · intro t ts' hc
            obtain ⟨h1, h2⟩ := hk2 t ts' hc
            simp only [hfr.2]
            exact ⟨List.mem_append.mpr (.inl h1), h2⟩
      · cases hstep
    | unlock tid =>
      simp only [Pipe.step] at hstep
      split at hstep
      · rename_i ts hcp
        simp only [Option.some.injEq] at hstep
        subst hstep
        have hholder : p.lockHolder = some tid := (ih.lockIff tid).mp (by simp [hcp, CPhase.holds])
        obtain ⟨hk1, hk2⟩ := phase_facts_keep ih tid (.waiting ts) (by intro _ _ h; cases h) (by intro _ h; cases h)
        refine ⟨ih.reach, lockIff_release p tid _ rfl ih.lockIff hholder, ?_, ih.rejHist, ih.keysEnq, hk1, ih.memFlat,
          ih.idle, ih.sigEq, ih.ackSub, hk2⟩
        have := ih.histEnq
        simp only [Pipe.stampedTs, hholder, hcp] at this
        simp only [Pipe.stampedTs, Pipe.enq, Pipe.liveTs] at this ⊢
        exact this
      · cases hstep
    | dequeue k =>
      simp only [Pipe.step] at hstep
      split at hstep
      · cases hstep
      · rename_i hc
        simp only [Option.some.injEq] at hstep
        subst hstep
        have hb : p.batch = none := by
          cases hbb : p.batch with
          | none => rfl
          | some b => exact absurd (.inl (by simp [hbb])) hc
        have hpend := ih.idle hb
        obtain ⟨applied, hm1, hm2⟩ := ih.memFlat
        rw [hb, hpend] at hm2
        simp at hm2
        subst hm2
        refine ⟨ih.reach, ih.lockIff, ?_, ih.rejHist, ?_, ih.keysStamped, ⟨[], by simpa using hm1, by simp⟩,
          (by intro h; cases h), ih.sigEq, ih.ackSub, ih.acked⟩
        · have := ih.histEnq
          simp only [Pipe.stampedTs, Pipe.enq, Pipe.liveTs] at this ⊢
          simp only [Option.getD_some]
          rw [this, hb]; simp [← List.map_append, List.append_assoc]
        · intro q hq
          apply ih.keysEnq q
          simp only [Pipe.enq] at hq ⊢
          rw [hb]
          simp only [Option.getD_some, Option.getD_none, List.append_nil, List.mem_append] at hq ⊢
          rcases hq with (hq | hq) | hq
          · exact .inl hq
          · exact .inr (List.mem_of_mem_take hq)
          · exact .inr (List.mem_of_mem_drop hq)
    | put =>
      simp only [Pipe.step] at hstep
      split at hstep
      · rename_i b e rest hb hp
        simp only [Option.some.injEq] at hstep
        subst hstep
        obtain ⟨applied, hm1, hm2⟩ := ih.memFlat
        refine ⟨ih.reach, ih.lockIff, ih.histEnq, ih.rejHist, ih.keysEnq, ih.keysStamped,
          ⟨applied ++ [e], by simp [hm1], by rw [hp] at hm2; simpa using hm2⟩,
          (by intro h; rw [hb] at h; cases h), ih.sigEq, ih.ackSub, ih.acked⟩
      · cases hstep
    | signal =>
      simp only [Pipe.step] at hstep
      split at hstep
      · rename_i b hb hp
        simp only [Option.some.injEq] at hstep
        subst hstep
        obtain ⟨applied, hm1, hm2⟩ := ih.memFlat
        rw [hp, hb] at hm2
        simp only [List.append_nil, Option.getD_some] at hm2
        refine ⟨ih.reach, ih.lockIff, ?_, ih.rejHist, ?_, ih.keysStamped,
          ⟨[], by simp [hm1, hm2], by simp [hp]⟩, fun _ => hp, by simp [ih.sigEq], ?_, ?_⟩
        · have := ih.histEnq
          simp only [Pipe.stampedTs, Pipe.enq, hb, Option.getD_some, Pipe.liveTs] at this
          simp only [Pipe.stampedTs, Pipe.enq, Option.getD_none, List.append_nil, Pipe.liveTs]
          exact this
        · intro q hq
          apply ih.keysEnq q
          simp only [Pipe.enq, hb, Option.getD_some]
          simpa [Pipe.enq] using hq
        · intro t ht
          rcases ih.ackSub t ht with h1 | h1
          · exact .inl (List.mem_append.mpr (.inl h1))
          · exact .inr h1
        · intro t ts hc
          obtain ⟨h1, h2⟩ := ih.acked t ts hc
          exact ⟨h1, List.mem_append.mpr (.inl h2)⟩
      · cases hstep
    | ack tid =>
      simp only [Pipe.step] at hstep
      split at hstep
      · rename_i ts hcp
        split at hstep
        · cases hstep
        · rename_i hsig
          cases hs : p.sys.step (.doneCommit ts) with
          | none => rw [hs] at hstep; simp at hstep
          | some s =>
            rw [hs] at hstep
            simp only [Option.some.injEq] at hstep
            subst hstep
            have hfr := Sys.step_doneCommit p.sys s ts hs
            have hsig' : ts ∈ p.signalled := by simpa using hsig
            have hne : ∀ t, p.lockHolder = some t → t ≠ tid := by
              intro t hl e
              subst e
              have := (ih.lockIff t).mpr hl
              rw [hcp] at this; simp [CPhase.holds] at this
            refine ⟨OReach.step _ ih.reach hs, ?_, ?_, ?_, ?_, ?_, ih.memFlat, ih.idle, ih.sigEq, ?_, ?_⟩
            · intro t
              by_cases ht : t = tid
              · subst ht
                simp only [setPh_same]
                have := ih.lockIff t
                rw [hcp] at this
                simpa [CPhase.holds] using this
              · simp only [setPh_other _ _ _ _ ht]; exact ih.lockIff t
            · have := ih.histEnq
              simp only [Pipe.liveTs, hfr.1, Pipe.enq]
              simp only [Pipe.liveTs, Pipe.enq] at this
              rw [this]
              congr 1
              simp only [Pipe.stampedTs]
              cases hl : p.lockHolder with
              | none => rfl
              | some t => simp only [setPh_other _ _ _ _ (hne t hl)]
            · intro t ht
              obtain ⟨h1, h2⟩ := ih.rejHist t ht
              simp only [hfr.1, hfr.2]
              exact ⟨h1, List.mem_append.mpr (.inl h2)⟩
            · intro q hq; simp only [hfr.1]; exact ih.keysEnq q hq
            · intro t ts' ks hc
              simp only [hfr.1]
              by_cases ht : t = tid
              · subst ht; simp only [setPh_same] at hc; cases hc
              · simp only [setPh_other _ _ _ _ ht] at hc; exact ih.keysStamped t ts' ks hc
            · intro t ht
              simp only [hfr.2] at ht
              rcases List.mem_append.mp ht with ht | ht
              · exact ih.ackSub t ht
              · simp at ht; subst ht; exact .inl hsig'
            · intro t ts' hc
              simp only [hfr.2]
              by_cases ht : t = tid
              · subst ht; simp only [setPh_same] at hc; cases hc
                exact ⟨List.mem_append.mpr (.inr (List.mem_singleton.mpr rfl)), hsig'⟩
              · simp only [setPh_other _ _ _ _ ht] at hc
                obtain ⟨h1, h2⟩ := ih.acked t ts' hc
                exact ⟨List.mem_append.mpr (.inl h1), h2⟩
      · cases hstep

end Badger
