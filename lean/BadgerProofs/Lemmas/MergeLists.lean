import BadgerModel.Merge
import BadgerProofs.Lemmas.IterOrder
/-!
# List-level facts for C21: two-way merge of sorted entry lists, `mergeSpecG`,
uniqueness of strictly sorted lists.
-/
namespace Badger

/-- strictly sorted by key under `cmp` (hence duplicate-free keys) -/
def SortedBy (cmp : Bytes → Bytes → Ordering) (l : List ItEntry) : Prop :=
  l.Pairwise (fun a b => cmp a.key b.key = .lt)

def keysOf (l : List ItEntry) : List Bytes := l.map ItEntry.key

@[simp] theorem keysOf_nil : keysOf [] = [] := rfl
@[simp] theorem keysOf_cons (a : ItEntry) (l : List ItEntry) : keysOf (a :: l) = a.key :: keysOf l := rfl
@[simp] theorem keysOf_append (a b : List ItEntry) : keysOf (a ++ b) = keysOf a ++ keysOf b := by
  simp [keysOf]
theorem mem_keysOf {k : Bytes} {l : List ItEntry} : k ∈ keysOf l ↔ ∃ e ∈ l, e.key = k := by
  simp [keysOf]
theorem key_mem_keysOf {e : ItEntry} {l : List ItEntry} (h : e ∈ l) : e.key ∈ keysOf l :=
  mem_keysOf.mpr ⟨e, h, rfl⟩

/-- Two-way merge; on equal keys the left entry is kept and the right one dropped. -/
def mergeLists (cmp : Bytes → Bytes → Ordering) : List ItEntry → List ItEntry → List ItEntry
  | [], r => r
  | a :: l, [] => a :: l
  | a :: l, b :: r =>
    match cmp a.key b.key with
    | .lt => a :: mergeLists cmp l (b :: r)
    | .eq => a :: mergeLists cmp l r
    | .gt => b :: mergeLists cmp (a :: l) r
termination_by l r => l.length + r.length

section
variable {cmp : Bytes → Bytes → Ordering}

@[simp] theorem mergeLists_nil_left (r : List ItEntry) : mergeLists cmp [] r = r := by
  simp [mergeLists]

@[simp] theorem mergeLists_nil_right (l : List ItEntry) : mergeLists cmp l [] = l := by
  cases l <;> simp [mergeLists]

theorem mergeLists_cons_lt {a b : ItEntry} {l r : List ItEntry} (h : cmp a.key b.key = .lt) :
    mergeLists cmp (a :: l) (b :: r) = a :: mergeLists cmp l (b :: r) := by
  rw [mergeLists]; simp [h]

theorem mergeLists_cons_eq {a b : ItEntry} {l r : List ItEntry} (h : cmp a.key b.key = .eq) :
    mergeLists cmp (a :: l) (b :: r) = a :: mergeLists cmp l r := by
  rw [mergeLists]; simp [h]

theorem mergeLists_cons_gt {a b : ItEntry} {l r : List ItEntry} (h : cmp a.key b.key = .gt) :
    mergeLists cmp (a :: l) (b :: r) = b :: mergeLists cmp (a :: l) r := by
  rw [mergeLists]; simp [h]

theorem SortedBy.tail {a : ItEntry} {l : List ItEntry} (h : SortedBy cmp (a :: l)) : SortedBy cmp l :=
  (List.pairwise_cons.mp h).2

theorem SortedBy.head_lt {a : ItEntry} {l : List ItEntry} (h : SortedBy cmp (a :: l)) :
    ∀ x ∈ l, cmp a.key x.key = .lt := (List.pairwise_cons.mp h).1

theorem SortedBy.nil : SortedBy cmp [] := List.Pairwise.nil

theorem mem_mergeLists {e : ItEntry} {l r : List ItEntry} (h : e ∈ mergeLists cmp l r) :
    e ∈ l ∨ e ∈ r := by
  fun_induction mergeLists cmp l r with
  | case1 r => exact .inr h
  | case2 a l => exact .inl h
  | case3 a l b r hc ih =>
    rcases List.mem_cons.mp h with h | h
    · subst h; simp
    · rcases ih h with h | h
      · exact .inl (List.mem_cons_of_mem _ h)
      · exact .inr h
  | case4 a l b r hc ih =>
    rcases List.mem_cons.mp h with h | h
    · subst h; simp
    · rcases ih h with h | h
      · exact .inl (List.mem_cons_of_mem _ h)
      · exact .inr (List.mem_cons_of_mem _ h)
  | case5 a l b r hc ih =>
    rcases List.mem_cons.mp h with h | h
    · subst h; simp
    · rcases ih h with h | h
      · exact .inl h
      · exact .inr (List.mem_cons_of_mem _ h)

theorem sortedBy_mergeLists (T : TotalCmp cmp) {l r : List ItEntry} (hl : SortedBy cmp l)
    (hr : SortedBy cmp r) : SortedBy cmp (mergeLists cmp l r) := by
  fun_induction mergeLists cmp l r with
  | case1 r => exact hr
  | case2 a l => exact hl
  | case3 a l b r hc ih =>
    refine List.pairwise_cons.mpr ⟨?_, ih hl.tail hr⟩
    intro x hx
    rcases mem_mergeLists hx with hx | hx
    · exact hl.head_lt x hx
    · rcases List.mem_cons.mp hx with hx | hx
      · subst hx; exact hc
      · exact T.trans hc (hr.head_lt x hx)
  | case4 a l b r hc ih =>
    refine List.pairwise_cons.mpr ⟨?_, ih hl.tail hr.tail⟩
    intro x hx
    rcases mem_mergeLists hx with hx | hx
    · exact hl.head_lt x hx
    · have := hr.head_lt x hx
      rwa [← (T.eq_iff _ _).mp hc] at this
  | case5 a l b r hc ih =>
    have hba : cmp b.key a.key = .lt := (T.gt_iff _ _).mp hc
    refine List.pairwise_cons.mpr ⟨?_, ih hl hr.tail⟩
    intro x hx
    rcases mem_mergeLists hx with hx | hx
    · rcases List.mem_cons.mp hx with hx | hx
      · subst hx; exact hba
      · exact T.trans hba (hl.head_lt x hx)
    · exact hr.head_lt x hx

/-- Keys of the merge are the union of the keys. -/
theorem mem_keysOf_mergeLists (T : TotalCmp cmp) {k : Bytes} {l r : List ItEntry} :
    k ∈ keysOf (mergeLists cmp l r) ↔ k ∈ keysOf l ∨ k ∈ keysOf r := by
  fun_induction mergeLists cmp l r with
  | case1 r => simp
  | case2 a l => simp
  | case3 a l b r hc ih => simp only [keysOf_cons, List.mem_cons, ih]; grind
  | case4 a l b r hc ih =>
    have := (T.eq_iff _ _).mp hc
    simp only [keysOf_cons, List.mem_cons, ih]; grind
  | case5 a l b r hc ih => simp only [keysOf_cons, List.mem_cons, ih]; grind

theorem SortedBy.key_not_mem (T : TotalCmp cmp) {a : ItEntry} {l : List ItEntry}
    (h : SortedBy cmp (a :: l)) : a.key ∉ keysOf l := by
  intro hm
  obtain ⟨e, he, hk⟩ := mem_keysOf.mp hm
  have := h.head_lt e he
  rw [hk] at this
  exact T.lt_irrefl _ this

/-- Entries of the merge: everything from the left, and from the right what has no
    equal key on the left. -/
theorem mem_mergeLists_iff (T : TotalCmp cmp) {e : ItEntry} {l r : List ItEntry}
    (hl : SortedBy cmp l) (hr : SortedBy cmp r) :
    e ∈ mergeLists cmp l r ↔ e ∈ l ∨ (e ∈ r ∧ e.key ∉ keysOf l) := by
  fun_induction mergeLists cmp l r with
  | case1 r => simp
  | case2 a l => simp
  | case3 a l b r hc ih =>
    rw [List.mem_cons, ih hl.tail hr]
    have hne : ∀ x ∈ b :: r, x.key ≠ a.key := by
      intro x hx
      have : cmp a.key x.key = .lt := by
        rcases List.mem_cons.mp hx with hx | hx
        · subst hx; exact hc
        · exact T.trans hc (hr.head_lt x hx)
      exact fun e => T.ne_of_lt this e.symm
    simp only [keysOf_cons, List.mem_cons, not_or]
    constructor
    · rintro (h | h | ⟨h1, h2⟩)
      · exact .inl (.inl h)
      · exact .inl (.inr h)
      · exact .inr ⟨h1, hne e (List.mem_cons.mpr h1), h2⟩
    · rintro ((h | h) | ⟨h1, _, h2⟩)
      · exact .inl h
      · exact .inr (.inl h)
      · exact .inr (.inr ⟨h1, h2⟩)
  | case4 a l b r hc ih =>
    rw [List.mem_cons, ih hl.tail hr.tail]
    have hk : a.key = b.key := (T.eq_iff _ _).mp hc
    have hne : ∀ x ∈ r, x.key ≠ a.key := by
      intro x hx
      have := hr.head_lt x hx
      rw [← hk] at this
      exact fun e => T.ne_of_lt this e.symm
    simp only [keysOf_cons, List.mem_cons, not_or]
    constructor
    · rintro (h | h | ⟨h1, h2⟩)
      · exact .inl (.inl h)
      · exact .inl (.inr h)
      · exact .inr ⟨.inr h1, hne e h1, h2⟩
    · rintro ((h | h) | ⟨h1 | h1, h3, h2⟩)
      · exact .inl h
      · exact .inr (.inl h)
      · subst h1; exact absurd hk.symm h3
      · exact .inr (.inr ⟨h1, h2⟩)
  | case5 a l b r hc ih =>
    rw [List.mem_cons, ih hl hr.tail]
    have hba : cmp b.key a.key = .lt := (T.gt_iff _ _).mp hc
    have hb : b.key ∉ keysOf (a :: l) := by
      intro hm
      obtain ⟨x, hx, hk⟩ := mem_keysOf.mp hm
      have : cmp b.key x.key = .lt := by
        rcases List.mem_cons.mp hx with hx | hx
        · subst hx; exact hba
        · exact T.trans hba (hl.head_lt x hx)
      rw [hk] at this
      exact T.lt_irrefl _ this
    constructor
    · rintro (h | h | ⟨h1, h2⟩)
      · subst h; exact .inr ⟨by simp, hb⟩
      · exact .inl h
      · exact .inr ⟨List.mem_cons_of_mem _ h1, h2⟩
    · rintro (h | ⟨h1, h2⟩)
      · exact .inr (.inl h)
      · rcases List.mem_cons.mp h1 with h1 | h1
        · exact .inl h1
        · exact .inr (.inr ⟨h1, h2⟩)

/-- In the equal-keys case dropping the right head first (what `fix` does) does not
    change the merge. -/
theorem mergeLists_drop_right_eq (T : TotalCmp cmp) {a b : ItEntry} {l r : List ItEntry}
    (hc : cmp a.key b.key = .eq) (hr : SortedBy cmp (b :: r)) :
    mergeLists cmp (a :: l) (b :: r) = mergeLists cmp (a :: l) r := by
  rw [mergeLists_cons_eq hc]
  cases r with
  | nil => simp
  | cons b' r' =>
    have : cmp a.key b'.key = .lt := by
      rw [(T.eq_iff _ _).mp hc]; exact hr.head_lt b' (by simp)
    rw [mergeLists_cons_lt this]

theorem dw_pos {k : Bytes} (a : ItEntry) (l : List ItEntry) (h : cmp a.key k = .lt) :
    (a :: l).dropWhile (fun e => cmp e.key k == .lt) = l.dropWhile (fun e => cmp e.key k == .lt) :=
  List.dropWhile_cons_of_pos (by simp [h])

theorem dw_neg {k : Bytes} (a : ItEntry) (l : List ItEntry) (h : cmp a.key k ≠ .lt) :
    (a :: l).dropWhile (fun e => cmp e.key k == .lt) = a :: l :=
  List.dropWhile_cons_of_neg (by simp [h])

/-- `Seek` commutes with merging. -/
theorem dropWhile_mergeLists (T : TotalCmp cmp) (k : Bytes) (l r : List ItEntry) :
    (mergeLists cmp l r).dropWhile (fun e => cmp e.key k == .lt) =
      mergeLists cmp (l.dropWhile (fun e => cmp e.key k == .lt))
        (r.dropWhile (fun e => cmp e.key k == .lt)) := by
  fun_induction mergeLists cmp l r with
  | case1 r => simp
  | case2 a l => simp
  | case3 a l b r hc ih =>
    by_cases ha : cmp a.key k = .lt
    · rw [dw_pos a _ ha, ih, dw_pos a l ha]
    · have hb : cmp b.key k ≠ .lt := fun hb => ha (T.trans hc hb)
      rw [dw_neg a _ ha, dw_neg a l ha, dw_neg b r hb, mergeLists_cons_lt hc]
  | case4 a l b r hc ih =>
    have hk : a.key = b.key := (T.eq_iff _ _).mp hc
    by_cases ha : cmp a.key k = .lt
    · have hb : cmp b.key k = .lt := hk ▸ ha
      rw [dw_pos a _ ha, ih, dw_pos a l ha, dw_pos b r hb]
    · have hb : cmp b.key k ≠ .lt := hk ▸ ha
      rw [dw_neg a _ ha, dw_neg a l ha, dw_neg b r hb, mergeLists_cons_eq hc]
  | case5 a l b r hc ih =>
    have hba : cmp b.key a.key = .lt := (T.gt_iff _ _).mp hc
    by_cases hb : cmp b.key k = .lt
    · rw [dw_pos b _ hb, ih, dw_pos b r hb]
    · have ha : cmp a.key k ≠ .lt := fun ha => hb (T.trans hba ha)
      rw [dw_neg b _ hb, dw_neg a l ha, dw_neg b r hb, mergeLists_cons_gt hc]

/-- A strictly sorted list is determined by its members. -/
theorem sortedBy_ext (T : TotalCmp cmp) {l l' : List ItEntry} (hl : SortedBy cmp l)
    (hl' : SortedBy cmp l') (h : ∀ e, e ∈ l ↔ e ∈ l') : l = l' := by
  induction l generalizing l' with
  | nil =>
    cases l' with
    | nil => rfl
    | cons b _ => exact absurd ((h b).mpr (by simp)) (by simp)
  | cons a l ih =>
    cases l' with
    | nil => exact absurd ((h a).mp (by simp)) (by simp)
    | cons b l' =>
      have hab : a = b := by
        by_cases hab : a = b
        · exact hab
        · have h1 : a ∈ l' := by
            rcases List.mem_cons.mp ((h a).mp (by simp)) with h1 | h1
            · exact absurd h1 hab
            · exact h1
          have h2 : b ∈ l := by
            rcases List.mem_cons.mp ((h b).mpr (by simp)) with h2 | h2
            · exact absurd h2.symm hab
            · exact h2
          exact absurd (hl.head_lt b h2) (T.lt_asymm (hl'.head_lt a h1))
      subst hab
      congr 1
      apply ih hl.tail hl'.tail
      intro e
      constructor
      · intro he
        rcases List.mem_cons.mp ((h e).mp (List.mem_cons_of_mem _ he)) with h1 | h1
        · subst h1; exact absurd (hl.head_lt e he) (T.lt_irrefl _)
        · exact h1
      · intro he
        rcases List.mem_cons.mp ((h e).mpr (List.mem_cons_of_mem _ he)) with h1 | h1
        · subst h1; exact absurd (hl'.head_lt e he) (T.lt_irrefl _)
        · exact h1

/-! ## `insertIfAbsent` / `mergeSpecG` -/

theorem mem_insertIfAbsent (T : TotalCmp cmp) {e x : ItEntry} {acc : List ItEntry}
    (hs : SortedBy cmp acc) :
    x ∈ insertIfAbsent cmp e acc ↔ x ∈ acc ∨ (x = e ∧ e.key ∉ keysOf acc) := by
  induction acc with
  | nil => simp [insertIfAbsent]
  | cons y ys ih =>
    simp only [insertIfAbsent]
    split
    · rename_i hc
      have : e.key ∉ keysOf (y :: ys) := by
        intro hm
        obtain ⟨z, hz, hk⟩ := mem_keysOf.mp hm
        have : cmp e.key z.key = .lt := by
          rcases List.mem_cons.mp hz with hz | hz
          · subst hz; exact hc
          · exact T.trans hc (hs.head_lt z hz)
        rw [hk] at this
        exact T.lt_irrefl _ this
      simp only [List.mem_cons] at *
      grind
    · rename_i hc
      have : e.key = y.key := (T.eq_iff _ _).mp hc
      simp only [keysOf_cons, List.mem_cons]
      grind
    · rename_i hc
      have hne : e.key ≠ y.key := fun h => by rw [h, T.refl] at hc; cases hc
      simp only [List.mem_cons, ih hs.tail, keysOf_cons]
      grind

theorem sortedBy_insertIfAbsent (T : TotalCmp cmp) {e : ItEntry} {acc : List ItEntry}
    (hs : SortedBy cmp acc) : SortedBy cmp (insertIfAbsent cmp e acc) := by
  induction acc with
  | nil => simp [insertIfAbsent, SortedBy]
  | cons y ys ih =>
    simp only [insertIfAbsent]
    split
    · rename_i hc
      refine List.pairwise_cons.mpr ⟨?_, hs⟩
      intro z hz
      rcases List.mem_cons.mp hz with hz | hz
      · subst hz; exact hc
      · exact T.trans hc (hs.head_lt z hz)
    · exact hs
    · rename_i hc
      refine List.pairwise_cons.mpr ⟨?_, ih hs.tail⟩
      intro z hz
      rcases (mem_insertIfAbsent T hs.tail).mp hz with hz | ⟨hz, _⟩
      · exact hs.head_lt z hz
      · subst hz; exact (T.gt_iff _ _).mp hc

/-- `x` is the first entry of `es` carrying its key. -/
def FirstIn (x : ItEntry) : List ItEntry → Prop
  | [] => False
  | e :: es => x = e ∨ (x.key ≠ e.key ∧ FirstIn x es)

theorem firstIn_append (x : ItEntry) (a b : List ItEntry) :
    FirstIn x (a ++ b) ↔ FirstIn x a ∨ (x.key ∉ keysOf a ∧ FirstIn x b) := by
  induction a with
  | nil => simp [FirstIn]
  | cons e es ih => simp only [List.cons_append, FirstIn, ih, keysOf_cons, List.mem_cons]; grind

theorem firstIn_of_sorted (T : TotalCmp cmp) {x : ItEntry} {l : List ItEntry} (hs : SortedBy cmp l) :
    FirstIn x l ↔ x ∈ l := by
  induction l with
  | nil => simp [FirstIn]
  | cons e es ih =>
    simp only [FirstIn, ih hs.tail, List.mem_cons]
    constructor
    · rintro (h | ⟨_, h⟩)
      · exact .inl h
      · exact .inr h
    · rintro (h | h)
      · exact .inl h
      · exact .inr ⟨fun hk => T.lt_irrefl _ (hk ▸ hs.head_lt x h), h⟩

theorem foldl_insertIfAbsent (T : TotalCmp cmp) (es acc : List ItEntry) (hs : SortedBy cmp acc) :
    SortedBy cmp (es.foldl (fun acc e => insertIfAbsent cmp e acc) acc) ∧
    ∀ x, x ∈ es.foldl (fun acc e => insertIfAbsent cmp e acc) acc ↔
      x ∈ acc ∨ (x.key ∉ keysOf acc ∧ FirstIn x es) := by
  induction es generalizing acc with
  | nil => simp [FirstIn, hs]
  | cons e es ih =>
    have hs' := sortedBy_insertIfAbsent T (e := e) hs
    refine ⟨(ih _ hs').1, ?_⟩
    intro x
    simp only [List.foldl_cons]
    rw [(ih _ hs').2 x, mem_insertIfAbsent T hs]
    have hk : x.key ∈ keysOf (insertIfAbsent cmp e acc) ↔ x.key ∈ keysOf acc ∨ x.key = e.key := by
      constructor
      · intro h
        obtain ⟨z, hz, hk⟩ := mem_keysOf.mp h
        rcases (mem_insertIfAbsent T hs).mp hz with hz | ⟨hz, _⟩
        · exact .inl (mem_keysOf.mpr ⟨z, hz, hk⟩)
        · subst hz; exact .inr hk.symm
      · rintro (h | hk)
        · obtain ⟨z, hz, hk⟩ := mem_keysOf.mp h
          exact mem_keysOf.mpr ⟨z, (mem_insertIfAbsent T hs).mpr (.inl hz), hk⟩
        · by_cases hm : e.key ∈ keysOf acc
          · obtain ⟨z, hz, hzk⟩ := mem_keysOf.mp hm
            exact mem_keysOf.mpr ⟨z, (mem_insertIfAbsent T hs).mpr (.inl hz), hzk.trans hk.symm⟩
          · exact mem_keysOf.mpr ⟨e, (mem_insertIfAbsent T hs).mpr (.inr ⟨rfl, hm⟩), hk.symm⟩
    rw [hk]
    simp only [FirstIn]
    by_cases hxe : x = e
    · subst hxe; grind
    · grind

/-- `x` occurs in the earliest input that has an entry with `x`'s key. -/
def FirstWith (x : ItEntry) : List (List ItEntry) → Prop
  | [] => False
  | l :: rest => x ∈ l ∨ (x.key ∉ keysOf l ∧ FirstWith x rest)

theorem firstIn_flatten (T : TotalCmp cmp) (x : ItEntry) (inputs : List (List ItEntry))
    (hs : ∀ l ∈ inputs, SortedBy cmp l) : FirstIn x inputs.flatten ↔ FirstWith x inputs := by
  induction inputs with
  | nil => simp [FirstIn, FirstWith]
  | cons l rest ih =>
    simp only [List.flatten_cons, firstIn_append, FirstWith]
    rw [firstIn_of_sorted T (hs l (by simp)), ih (fun l hl => hs l (List.mem_cons_of_mem _ hl))]

theorem firstWith_append (x : ItEntry) (a b : List (List ItEntry)) :
    FirstWith x (a ++ b) ↔ FirstWith x a ∨ ((∀ l ∈ a, x.key ∉ keysOf l) ∧ FirstWith x b) := by
  induction a with
  | nil => simp [FirstWith]
  | cons l rest ih => simp only [List.cons_append, FirstWith, ih, List.mem_cons]; grind

theorem firstWith_mem {x : ItEntry} {inputs : List (List ItEntry)} (h : FirstWith x inputs) :
    ∃ l ∈ inputs, x ∈ l := by
  induction inputs with
  | nil => exact absurd h (by simp [FirstWith])
  | cons l rest ih =>
    rcases h with h | ⟨_, h⟩
    · exact ⟨l, by simp, h⟩
    · obtain ⟨l', h1, h2⟩ := ih h
      exact ⟨l', List.mem_cons_of_mem _ h1, h2⟩

theorem sortedBy_mergeSpecG (T : TotalCmp cmp) (inputs : List (List ItEntry)) :
    SortedBy cmp (mergeSpecG cmp inputs) :=
  (foldl_insertIfAbsent T inputs.flatten [] SortedBy.nil).1

theorem mem_mergeSpecG (T : TotalCmp cmp) (inputs : List (List ItEntry))
    (hs : ∀ l ∈ inputs, SortedBy cmp l) (x : ItEntry) :
    x ∈ mergeSpecG cmp inputs ↔ FirstWith x inputs := by
  unfold mergeSpecG
  rw [(foldl_insertIfAbsent T inputs.flatten [] SortedBy.nil).2 x, firstIn_flatten T x inputs hs]
  simp

/-- keys of the spec = union of the input keys -/
theorem mem_keysOf_mergeSpecG (T : TotalCmp cmp) (inputs : List (List ItEntry))
    (hs : ∀ l ∈ inputs, SortedBy cmp l) (k : Bytes) :
    k ∈ keysOf (mergeSpecG cmp inputs) ↔ ∃ l ∈ inputs, k ∈ keysOf l := by
  induction inputs with
  | nil => simp [mergeSpecG]
  | cons l rest ih =>
    have hs2 : ∀ l ∈ rest, SortedBy cmp l := fun l hl => hs l (List.mem_cons_of_mem _ hl)
    have ih := ih hs2
    constructor
    · intro h
      obtain ⟨e, he, hk⟩ := mem_keysOf.mp h
      rcases (mem_mergeSpecG T _ hs e).mp he with he | ⟨_, he⟩
      · exact ⟨l, by simp, mem_keysOf.mpr ⟨e, he, hk⟩⟩
      · obtain ⟨l', h1, h2⟩ := ih.mp (mem_keysOf.mpr ⟨e, (mem_mergeSpecG T _ hs2 e).mpr he, hk⟩)
        exact ⟨l', List.mem_cons_of_mem _ h1, h2⟩
    · rintro ⟨l', hl', hkl'⟩
      by_cases hkl : k ∈ keysOf l
      · obtain ⟨e', he', hk'⟩ := mem_keysOf.mp hkl
        exact mem_keysOf.mpr ⟨e', (mem_mergeSpecG T _ hs e').mpr (.inl he'), hk'⟩
      · rcases List.mem_cons.mp hl' with h | h
        · subst h; exact absurd hkl' hkl
        · obtain ⟨e', he', hk'⟩ := mem_keysOf.mp (ih.mpr ⟨l', h, hkl'⟩)
          refine mem_keysOf.mpr ⟨e', (mem_mergeSpecG T _ hs e').mpr (.inr ⟨?_, ?_⟩), hk'⟩
          · rw [hk']; exact hkl
          · exact (mem_mergeSpecG T _ hs2 e').mp he'

/-- The spec splits like the balanced tree of `NewMergeIterator`. -/
theorem mergeSpecG_append (T : TotalCmp cmp) (a b : List (List ItEntry))
    (ha : ∀ l ∈ a, SortedBy cmp l) (hb : ∀ l ∈ b, SortedBy cmp l) :
    mergeSpecG cmp (a ++ b) = mergeLists cmp (mergeSpecG cmp a) (mergeSpecG cmp b) := by
  have hab : ∀ l ∈ a ++ b, SortedBy cmp l := by
    intro l hl
    rcases List.mem_append.mp hl with h | h
    · exact ha l h
    · exact hb l h
  apply sortedBy_ext T (sortedBy_mergeSpecG T _)
    (sortedBy_mergeLists T (sortedBy_mergeSpecG T _) (sortedBy_mergeSpecG T _))
  intro e
  rw [mem_mergeSpecG T _ hab, firstWith_append,
    mem_mergeLists_iff T (sortedBy_mergeSpecG T _) (sortedBy_mergeSpecG T _),
    mem_mergeSpecG T _ ha, mem_mergeSpecG T _ hb, mem_keysOf_mergeSpecG T _ ha]
  grind

theorem mergeSpecG_singleton (T : TotalCmp cmp) (l : List ItEntry) (hl : SortedBy cmp l) :
    mergeSpecG cmp [l] = l := by
  apply sortedBy_ext T (sortedBy_mergeSpecG T _) hl
  intro e
  rw [mem_mergeSpecG T _ (by simpa using hl)]
  simp [FirstWith]

theorem sortedBy_reverse {l : List ItEntry} :
    SortedBy (fun a b => cmp b a) l.reverse ↔ SortedBy cmp l := by
  unfold SortedBy
  rw [List.pairwise_reverse]

/-- Reverse iteration: the spec over the reversed inputs under the flipped order is the
    reversed spec. -/
theorem mergeSpecG_reverse (T : TotalCmp cmp) (inputs : List (List ItEntry))
    (hs : ∀ l ∈ inputs, SortedBy cmp l) :
    mergeSpecG (fun a b => cmp b a) (inputs.map List.reverse) = (mergeSpecG cmp inputs).reverse := by
  have hs' : ∀ l ∈ inputs.map List.reverse, SortedBy (fun a b => cmp b a) l := by
    intro l hl
    obtain ⟨l0, h0, rfl⟩ := List.mem_map.mp hl
    exact sortedBy_reverse.mpr (hs l0 h0)
  apply sortedBy_ext T.flip (sortedBy_mergeSpecG T.flip _)
    (sortedBy_reverse.mpr (sortedBy_mergeSpecG T _))
  intro e
  rw [mem_mergeSpecG T.flip _ hs', List.mem_reverse, mem_mergeSpecG T _ hs]
  clear hs hs'
  induction inputs with
  | nil => simp [FirstWith]
  | cons l rest ih => simp [FirstWith, ih, keysOf]

end
end Badger
