import BadgerProofs.Lemmas.Block
/-!
Order facts for `compareKeys`, correctness of the stateful `sort.Search` model, and
`blockIterator.seek` on a block built from a sorted entry list.
-/
namespace Badger.Tbl
open Badger

/-! ## `cmpBytes` / `compareKeys` as a strict total order -/

theorem cmpBytes_lt_trans : ∀ (a b c : Bytes), cmpBytes a b = .lt → cmpBytes b c = .lt →
    cmpBytes a c = .lt := by
  intro a
  induction a with
  | nil =>
    intro b c h1 h2
    cases b with
    | nil => simp [cmpBytes] at h1
    | cons y ys =>
      cases c with
      | nil => simp [cmpBytes] at h2
      | cons z zs => simp [cmpBytes]
  | cons x xs ih =>
    intro b c h1 h2
    cases b with
    | nil => simp [cmpBytes] at h1
    | cons y ys =>
      cases c with
      | nil => simp [cmpBytes] at h2
      | cons z zs =>
        simp only [cmpBytes] at h1 h2 ⊢
        by_cases hxy : x.toNat < y.toNat
        · by_cases hyz : y.toNat < z.toNat
          · have : x.toNat < z.toNat := by omega
            simp [this]
          · simp only [hyz, if_false] at h2
            by_cases hzy : z.toNat < y.toNat
            · simp [hzy] at h2
            · have : x.toNat < z.toNat := by omega
              simp [this]
        · simp only [hxy, if_false] at h1
          by_cases hyx : y.toNat < x.toNat
          · simp [hyx] at h1
          · simp only [hyx, if_false] at h1
            have hxy' : x.toNat = y.toNat := by omega
            by_cases hyz : y.toNat < z.toNat
            · have : x.toNat < z.toNat := by omega
              simp [this]
            · simp only [hyz, if_false] at h2
              by_cases hzy : z.toNat < y.toNat
              · simp [hzy] at h2
              · simp only [hzy, if_false] at h2
                have h3 : ¬ x.toNat < z.toNat := by omega
                have h4 : ¬ z.toNat < x.toNat := by omega
                simp only [h3, h4, if_false]
                exact ih ys zs h1 h2

/-- The pair `compareKeys` looks at: all but the last 8 bytes, and the last 8 bytes. -/
def ksplit (k : Bytes) : Bytes × Bytes := (k.take (k.length - 8), k.drop (k.length - 8))

theorem ksplit_inj {a b : Bytes} (h : ksplit a = ksplit b) : a = b := by
  have h1 : a.take (a.length - 8) = b.take (b.length - 8) := congrArg Prod.fst h
  have h2 : a.drop (a.length - 8) = b.drop (b.length - 8) := congrArg Prod.snd h
  rw [← List.take_append_drop (a.length - 8) a, ← List.take_append_drop (b.length - 8) b, h1, h2]

theorem compareKeys_eq_iff (a b : Bytes) : compareKeys a b = .eq ↔ a = b := by
  constructor
  · intro h
    unfold compareKeys at h
    apply ksplit_inj
    unfold ksplit
    cases h1 : cmpBytes (a.take (a.length - 8)) (b.take (b.length - 8)) with
    | lt => simp [h1] at h
    | gt => simp [h1] at h
    | eq =>
      simp only [h1] at h
      rw [(cmpBytes_eq_iff _ _).mp h1, (cmpBytes_eq_iff _ _).mp h]
  · intro h; subst h
    unfold compareKeys
    simp [cmpBytes_refl]

theorem compareKeys_swap (a b : Bytes) : (compareKeys a b).swap = compareKeys b a := by
  unfold compareKeys
  have h1 := cmpBytes_swap (a.take (a.length - 8)) (b.take (b.length - 8))
  have h2 := cmpBytes_swap (a.drop (a.length - 8)) (b.drop (b.length - 8))
  cases h : cmpBytes (a.take (a.length - 8)) (b.take (b.length - 8)) with
  | lt => rw [h] at h1; simp [← h1]
  | gt => rw [h] at h1; simp [← h1]
  | eq => rw [h] at h1; simp [← h1, h2]

theorem compareKeys_gt_iff (a b : Bytes) : compareKeys a b = .gt ↔ compareKeys b a = .lt := by
  have := compareKeys_swap a b
  constructor
  · intro h; rw [h] at this; exact this.symm
  · intro h; rw [h] at this
    cases h' : compareKeys a b with
    | lt => rw [h'] at this; cases this
    | eq => rw [h'] at this; cases this
    | gt => rfl

theorem compareKeys_lt_trans (a b c : Bytes) (h1 : compareKeys a b = .lt) (h2 : compareKeys b c = .lt) :
    compareKeys a c = .lt := by
  unfold compareKeys at *
  cases hab : cmpBytes (a.take (a.length - 8)) (b.take (b.length - 8)) with
  | gt => simp [hab] at h1
  | lt =>
    cases hbc : cmpBytes (b.take (b.length - 8)) (c.take (c.length - 8)) with
    | gt => simp [hbc] at h2
    | lt => simp [cmpBytes_lt_trans _ _ _ hab hbc]
    | eq =>
      rw [(cmpBytes_eq_iff _ _).mp hbc] at hab
      simp [hab]
  | eq =>
    simp only [hab] at h1
    rw [(cmpBytes_eq_iff _ _).mp hab]
    cases hbc : cmpBytes (b.take (b.length - 8)) (c.take (c.length - 8)) with
    | gt => simp [hbc] at h2
    | lt => simp
    | eq =>
      simp only [hbc] at h2 ⊢
      exact cmpBytes_lt_trans _ _ _ h1 h2

theorem compareKeys_irrefl (a : Bytes) : compareKeys a a ≠ .lt := by
  rw [(compareKeys_eq_iff a a).mpr rfl]; decide

/-- `a < b`, `¬ (c < b)` (i.e. `b ≤ c`) give `a < c`. -/
theorem compareKeys_lt_of_lt_of_not_lt (a b c : Bytes) (h1 : compareKeys a b = .lt)
    (h2 : compareKeys c b ≠ .lt) : compareKeys a c = .lt := by
  cases h : compareKeys b c with
  | lt => exact compareKeys_lt_trans a b c h1 h
  | eq => rw [(compareKeys_eq_iff b c).mp h] at h1; exact h1
  | gt => exact absurd ((compareKeys_gt_iff b c).mp h) h2

/-- `¬ (b < a)` (i.e. `a ≤ b`), `b < c` give `a < c`. -/
theorem compareKeys_lt_of_not_lt_of_lt (a b c : Bytes) (h1 : compareKeys b a ≠ .lt)
    (h2 : compareKeys b c = .lt) : compareKeys a c = .lt := by
  cases h : compareKeys a b with
  | lt => exact compareKeys_lt_trans a b c h h2
  | eq => rw [← (compareKeys_eq_iff a b).mp h] at h2; exact h2
  | gt => exact absurd ((compareKeys_gt_iff a b).mp h) h1

/-- Strictly increasing entry lists (every earlier key is `<` every later key). -/
def Sorted (es : List Entry) : Prop := es.Pairwise (fun a b => compareKeys a.key b.key = .lt)

theorem Sorted.lt {es : List Entry} (hs : Sorted es) {i j : Nat} {a b : Entry} (hij : i < j)
    (ha : es[i]? = some a) (hb : es[j]? = some b) : compareKeys a.key b.key = .lt := by
  have hi : i < es.length := by
    rcases Nat.lt_or_ge i es.length with h | h
    · exact h
    · rw [List.getElem?_eq_none h] at ha; cases ha
  have hj : j < es.length := by
    rcases Nat.lt_or_ge j es.length with h | h
    · exact h
    · rw [List.getElem?_eq_none h] at hb; cases hb
  have := List.pairwise_iff_getElem.mp hs i j hi hj hij
  rw [List.getElem?_eq_getElem hi] at ha
  rw [List.getElem?_eq_getElem hj] at hb
  cases ha; cases hb; exact this

/-! ## `sort.Search` -/

/-- Correctness of the binary search with a stateful probe function: if every probe `h < n`
    from a state satisfying `P` answers the pure monotone predicate `p h` and re-establishes
    `P` (and `L h`, "the last probe was `h`"), the result is the least index in `[i, j]`
    from which `p` holds. -/
theorem searchM_spec {σ : Type} (f : Nat → σ → Option (Bool × σ)) (P : σ → Prop)
    (L : Nat → σ → Prop) (p : Nat → Bool) (n : Nat)
    (hf : ∀ h s, h < n → P s → ∃ s', f h s = some (p h, s') ∧ P s' ∧ L h s')
    (hmono : ∀ a b, a ≤ b → b < n → p a = true → p b = true) :
    ∀ (d i j : Nat) (s : σ), j - i = d → i ≤ j → j ≤ n → P s →
      (∀ k, k < i → p k = false) → (∀ k, j ≤ k → k < n → p k = true) →
      ∃ r s', searchM f i j s = some (r, s') ∧ P s' ∧ i ≤ r ∧ r ≤ j ∧
        (∀ k, k < r → p k = false) ∧ (∀ k, r ≤ k → k < n → p k = true) ∧
        (i < j → r = j → L (j - 1) s') := by
  intro d
  induction d using Nat.strongRecOn with
  | _ d ih =>
    intro i j s hd hij hjn hP hlo hhi
    rw [searchM]
    by_cases hlt : i < j
    · simp only [hlt, dite_true]
      have hm : (i + j) / 2 < n := by omega
      obtain ⟨s', hfs, hP', hL'⟩ := hf ((i + j) / 2) s hm hP
      rw [hfs]
      cases hp : p ((i + j) / 2) with
      | false =>
        simp only [Bool.not_false, if_true]
        have hlo' : ∀ k, k < (i + j) / 2 + 1 → p k = false := by
          intro k hk
          cases hpk : p k with
          | false => rfl
          | true =>
            have := hmono k ((i + j) / 2) (by omega) hm hpk
            rw [hp] at this; cases this
        obtain ⟨r, s'', hs, hP'', h1, h2, h3, h4, h5⟩ :=
          ih (j - ((i + j) / 2 + 1)) (by omega) ((i + j) / 2 + 1) j s' rfl (by omega) hjn hP' hlo' hhi
        refine ⟨r, s'', hs, hP'', by omega, h2, h3, h4, ?_⟩
        intro _ hrj
        by_cases hmj : (i + j) / 2 + 1 < j
        · exact h5 hmj hrj
        · have hmeq : (i + j) / 2 + 1 = j := by omega
          -- the recursive call returned immediately
          rw [searchM] at hs
          have : ¬ ((i + j) / 2 + 1 < j) := hmj
          simp only [this, dite_false, Option.some.injEq, Prod.mk.injEq] at hs
          rw [← hs.2]
          have : j - 1 = (i + j) / 2 := by omega
          rw [this]; exact hL'
      | true =>
        simp only [Bool.not_true, Bool.false_eq_true, if_false]
        have hhi' : ∀ k, (i + j) / 2 ≤ k → k < n → p k = true := by
          intro k hk hkn
          exact hmono _ k hk hkn hp
        obtain ⟨r, s'', hs, hP'', h1, h2, h3, h4, _⟩ :=
          ih ((i + j) / 2 - i) (by omega) i ((i + j) / 2) s' rfl (by omega) (by omega) hP' hlo hhi'
        refine ⟨r, s'', hs, hP'', h1, by omega, h3, h4, ?_⟩
        intro _ hrj; omega
    · have hije : i = j := by omega
      simp only [hlt, dite_false]
      refine ⟨i, s, rfl, hP, Nat.le_refl _, hij, hlo, ?_, ?_⟩
      · intro k hk hkn; exact hhi k (by omega) hkn
      · intro h; exact False.elim h

/-! ## `blockIterator.seek` -/

theorem getElem?_some_of_lt {α : Type} (l : List α) (i : Nat) (h : i < l.length) :
    ∃ a, l[i]? = some a := ⟨l[i], List.getElem?_eq_getElem h⟩

theorem lt_of_getElem?_some {α : Type} {l : List α} {i : Nat} {a : α} (h : l[i]? = some a) :
    i < l.length := by
  rcases Nat.lt_or_ge i l.length with h' | h'
  · exact h'
  · rw [List.getElem?_eq_none h'] at h; cases h

/-- `seek(key, origin)` on a block built from a sorted `es`: the binary search with its
    `setIdx` probes (in any order they happen) ends on the first entry `≥ key`, or past the
    end with the key buffer holding the last key of the block. -/
theorem blockSeek_ok {es : List Entry} {it : BlockIter} (wf : BlockWF es) (hs : Sorted es)
    (hk8 : ∀ e ∈ es, 8 ≤ e.key.length) (inv : BlockInv es it) (key : Bytes) (hkey : 8 ≤ key.length) :
    ∃ r it', it.seek key false = some it' ∧ BlockInv es it' ∧ r ≤ es.length ∧
      (∀ k e, k < r → es[k]? = some e → compareKeys e.key key = .lt) ∧
      (∀ k e, r ≤ k → es[k]? = some e → compareKeys e.key key ≠ .lt) ∧
      it'.idx = r ∧
      (r < es.length → ∃ e, es[r]? = some e ∧ it'.key = e.key ∧ it'.val = encVS e.vs ∧ it'.err = none) ∧
      (r = es.length → it'.err = some .eof ∧ ∃ e, es[es.length - 1]? = some e ∧ it'.key = e.key) := by
  unfold BlockIter.seek
  simp only [Bool.false_eq_true, if_false]
  let p : Nat → Bool := fun h =>
    match es[h]? with
    | some e => compareKeys e.key key != .lt
    | none => true
  let f : Nat → BlockIter → Option (Bool × BlockIter) := fun idx (it : BlockIter) =>
      if (idx : Int) < 0 then some (false, it)
      else
        (it.setIdx idx).bind fun it =>
        (compareKeysP it.key key).bind fun o => some (o != .lt, it)
  have hlen : ({ it with err := none } : BlockIter).entryOffsets.length = es.length := by
    show it.entryOffsets.length = es.length
    rw [inv.offs]; simp [blockOffs]
  have hf : ∀ h s, h < es.length → BlockInv es s →
      ∃ s', f h s = some (p h, s') ∧ BlockInv es s' ∧ (∃ e, es[h]? = some e ∧ s'.key = e.key) := by
    intro h s hh hinv
    obtain ⟨e, he⟩ := getElem?_some_of_lt es h hh
    obtain ⟨s', hset, hinv', hk, _, _, _⟩ := setIdx_ok wf hinv h e he
    refine ⟨s', ?_, hinv', e, he, hk⟩
    have hneg : ¬ ((h : Int) < 0) := by omega
    have h8 := hk8 e (List.mem_of_getElem? he)
    have hcp : compareKeysP s'.key key = some (compareKeys e.key key) := by
      unfold compareKeysP; rw [hk]
      have : ¬ (e.key.length < 8 ∨ key.length < 8) := by omega
      simp [this]
    simp only [f, hneg, if_false, hset, Option.bind_some, hcp, p, he]
  have hmono : ∀ a b, a ≤ b → b < es.length → p a = true → p b = true := by
    intro a b hab hb hpa
    obtain ⟨eb, heb⟩ := getElem?_some_of_lt es b hb
    obtain ⟨ea, hea⟩ := getElem?_some_of_lt es a (by omega)
    simp only [p, hea, heb] at hpa ⊢
    rcases Nat.lt_or_ge a b with hlt | hge
    · have hab' := hs.lt hlt hea heb
      simp only [bne_iff_ne, ne_eq] at hpa ⊢
      intro hbk
      exact hpa (compareKeys_lt_trans _ _ _ hab' hbk)
    · have : a = b := by omega
      subst this; rw [hea] at heb; cases heb; exact hpa
  obtain ⟨r, s', hsearch, hinv', _, hrn, hlo, hhi, hlast⟩ :=
    searchM_spec f (BlockInv es) (fun h s => ∃ e, es[h]? = some e ∧ s.key = e.key) p es.length hf hmono
      es.length 0 es.length { it with err := none } rfl (Nat.zero_le _) (Nat.le_refl _)
      ⟨inv.data, inv.offs, inv.base, inv.pre, inv.le_base, inv.le_key⟩
      (by intro k hk; omega) (by intro k hk hk'; omega)
  rw [hlen]
  show ∃ r it', ((searchM f 0 es.length { it with err := none }).bind fun x => x.2.setIdx x.1) = some it' ∧ _
  rw [hsearch, Option.bind_some]
  have hlo' : ∀ k e, k < r → es[k]? = some e → compareKeys e.key key = .lt := by
    intro k e hk he
    have := hlo k hk
    simp only [p, he] at this
    simpa using this
  have hhi' : ∀ k e, r ≤ k → es[k]? = some e → compareKeys e.key key ≠ .lt := by
    intro k e hk he
    have := hhi k hk (lt_of_getElem?_some he)
    simp only [p, he] at this
    simpa using this
  rcases Nat.lt_or_ge r es.length with hr | hr
  · obtain ⟨e, he⟩ := getElem?_some_of_lt es r hr
    obtain ⟨it', hset, hinv'', hk, hv, hidx, herr⟩ := setIdx_ok wf hinv' r e he
    refine ⟨r, it', hset, hinv'', hrn, hlo', hhi', hidx, ?_, ?_⟩
    · intro _; exact ⟨e, he, hk, hv, herr⟩
    · intro h; omega
  · have hre : r = es.length := by omega
    have hoob := setIdx_oob hinv' (r : Int) (Or.inl (by omega))
    refine ⟨r, _, hoob.1, hoob.2, hrn, hlo', hhi', rfl, ?_, ?_⟩
    · intro h; omega
    · intro _
      have hpos : 0 < es.length := List.length_pos_iff.mpr wf.ne_nil
      exact ⟨rfl, hlast hpos hre⟩

end Badger.Tbl
