import BadgerModel.Oracle
import BadgerProofs.Lemmas.Oracle
/-!
Liveness side of C34 at the oracle level: a transaction parked in `WaitForMark` is released once
every commit at or below its read timestamp has been reported done and `txnMark`'s channel has
been drained. Extra invariant on top of `SysInv` (normal mode).
-/
namespace Badger

theorem WM.runW_append (s : WM) (ms ns : List Mark) :
    (s.runW (ms ++ ns)).2 = (s.runW ms).2 ++ ((s.run ms).runW ns).2 := by
  induction ms generalizing s with
  | nil => simp [WM.runW, WM.run]
  | cons m ms ih =>
    simp only [List.cons_append, WM.runW_cons, WM.run_cons]
    rw [ih, List.append_assoc]

theorem WM.runW_single (s : WM) (m : Mark) : (s.runW [m]).2 = (s.step m).2 := by
  simp [WM.runW]

structure LiveInv (n : Nat) (s : Sys) : Prop where
  /-- a parked transaction has sent its waiter mark -/
  parkedSent : ∀ tid x, s.txns[tid]? = some x → x.phase = .parked → Mark.wait x.t.readTs tid ∈ s.tmSent
  /-- whoever sent a waiter mark is past the `started` phase -/
  notStarted : ∀ idx w, Mark.wait idx w ∈ s.tmSent → ∀ x, s.txns[w]? = some x → x.phase ≠ .started
  /-- a wake-up already emitted by `process` has been delivered: that transaction is not parked -/
  emitted : ∀ pre, Mark.done n :: s.tmSent = pre ++ s.o.txnMark.q → ∀ k ∈ (WM.init.runW pre).2,
    ∀ x, s.txns[k.waiter]? = some x → x.phase ≠ .parked
  /-- read timestamps are `n` or a commit timestamp that was handed out -/
  readTsSeen : ∀ x ∈ s.txns, x.t.readTs = n ∨ x.t.readTs ∈ s.hist.map (·.ts)
  nextSeen : s.o.nextTxnTs - 1 = n ∨ (s.o.nextTxnTs - 1) ∈ s.hist.map (·.ts)
  /-- every handed-out commit timestamp was begun on `txnMark` -/
  begun : ∀ e ∈ s.hist, Mark.begin e.ts ∈ s.tmSent

theorem LiveInv.init (d : Bool) (n : Nat) : LiveInv n (Sys.opened false d n) := by
  refine ⟨by simp [Sys.opened], by simp [Sys.opened], ?_, by simp [Sys.opened],
    by simp [Sys.opened, Oracle.opened], by simp [Sys.opened]⟩
  intro pre hpre k hk
  simp only [Sys.opened, Oracle.opened, AWM.send, List.nil_append] at hpre
  -- pre ++ [done n] = [done n]  ⇒  pre = []
  have : pre = [] := by
    cases pre with
    | nil => rfl
    | cons a as =>
      have := congrArg List.length hpre
      simp at this
  subst this
  simp [WM.runW] at hk

/-- The processed prefix is determined by the queue. -/
theorem pre_unique {α : Type} (l pre1 pre2 q : List α) (h1 : l = pre1 ++ q) (h2 : l = pre2 ++ q) :
    pre1 = pre2 := List.append_cancel_right (h1.symm.trans h2)

/-- Generic preservation: the `txnMark` side (`tmSent`, queue) unchanged, transaction phases never
    move into `parked`/`started` and never leave `parked`, read timestamps unchanged. -/
theorem LiveInv.frame {n : Nat} {s s' : Sys} (h : LiveInv n s)
    (e1 : s'.tmSent = s.tmSent) (e2 : s'.o.txnMark.q = s.o.txnMark.q)
    (e3 : s'.hist = s.hist) (e4 : s'.o.nextTxnTs = s.o.nextTxnTs)
    (ht : ∀ (tid : Nat) (x' : TxnSt), s'.txns[tid]? = some x' → ∃ x : TxnSt, s.txns[tid]? = some x ∧ x'.t.readTs = x.t.readTs ∧
      (x'.phase = .parked → x.phase = .parked) ∧ (x'.phase = .started → x.phase = .started)) :
    LiveInv n s' := by
  refine ⟨?_, ?_, ?_, ?_, by rw [e3, e4]; exact h.nextSeen, by rw [e1, e3]; exact h.begun⟩
  · intro tid x' hx' hp
    obtain ⟨x, hx, er, hpk, _⟩ := ht tid x' hx'
    rw [e1, er]; exact h.parkedSent tid x hx (hpk hp)
  · intro idx w hw x' hx' hst
    obtain ⟨x, hx, _, _, hs⟩ := ht w x' hx'
    rw [e1] at hw
    exact h.notStarted idx w hw x hx (hs hst)
  · intro pre hpre k hk x' hx' hp
    obtain ⟨x, hx, _, hpk, _⟩ := ht k.waiter x' hx'
    rw [e1, e2] at hpre
    exact h.emitted pre hpre k hk x hx (hpk hp)
  · intro x' hx'
    obtain ⟨tid, htid⟩ := List.mem_iff_getElem?.mp hx'
    obtain ⟨x, hx, er, _, _⟩ := ht tid x' htid
    rw [er, e3]; exact h.readTsSeen x (List.mem_of_getElem? hx)

/-- `frame` for the replacement of one transaction (anything else may change except the `txnMark`
    channel, `tmSent`, the history and `nextTxnTs`). -/
theorem LiveInv.setTxn {n : Nat} {s s' : Sys} (h : LiveInv n s) (tid : Nat) (x x' : TxnSt)
    (hx : s.txns[tid]? = some x) (et : s'.txns = s.txns.set tid x')
    (e1 : s'.tmSent = s.tmSent) (e2 : s'.o.txnMark.q = s.o.txnMark.q)
    (e3 : s'.hist = s.hist) (e4 : s'.o.nextTxnTs = s.o.nextTxnTs)
    (er : x'.t.readTs = x.t.readTs)
    (hp : x'.phase = .parked → x.phase = .parked) (hs : x'.phase = .started → x.phase = .started) :
    LiveInv n s' := by
  apply h.frame e1 e2 e3 e4
  intro t y hy
  rw [et] at hy
  by_cases ht : tid = t
  · subst ht
    rw [getElem?_set_same _ _ _ _ hx] at hy
    cases hy
    exact ⟨x, hx, er, hp, hs⟩
  · rw [getElem?_set_other _ _ _ _ ht] at hy
    exact ⟨y, hy, rfl, id, id⟩

/-- Appending a `begin`/`done` mark to `txnMark`; the history may grow, `nextTxnTs` may grow by the
    new entry. -/
theorem LiveInv.sendTm {n : Nat} {s s' : Sys} (h : LiveInv n s) (m : Mark) (hm : ∀ idx w, m ≠ .wait idx w)
    (et : s'.txns = s.txns) (e1 : s'.tmSent = s.tmSent ++ [m])
    (e2 : s'.o.txnMark.q = s.o.txnMark.q ++ [m])
    (e3 : ∃ l, s'.hist = s.hist ++ l ∧ ∀ e ∈ l, m = .begin e.ts)
    (e4 : s'.o.nextTxnTs - 1 = n ∨ (s'.o.nextTxnTs - 1) ∈ s'.hist.map (·.ts)) :
    LiveInv n s' := by
  obtain ⟨l, el, hl⟩ := e3
  refine ⟨?_, ?_, ?_, ?_, e4, ?_⟩
  · intro tid x hx hp
    rw [et] at hx; rw [e1]
    exact List.mem_append.mpr (.inl (h.parkedSent tid x hx hp))
  · intro idx w hw x hx
    rw [et] at hx; rw [e1] at hw
    rcases List.mem_append.mp hw with hw | hw
    · exact h.notStarted idx w hw x hx
    · simp at hw; exact absurd hw.symm (hm idx w)
  · intro pre hpre k hk x hx
    rw [et] at hx
    rw [e1, e2] at hpre
    rw [← List.cons_append, ← List.append_assoc] at hpre
    have := List.append_cancel_right hpre
    exact h.emitted pre this k hk x hx
  · intro x hx
    rw [et] at hx; rw [el]
    rcases h.readTsSeen x hx with e | e
    · exact .inl e
    · right; simp only [List.map_append, List.mem_append]; exact .inl e
  · intro e he
    rw [el] at he; rw [e1]
    rcases List.mem_append.mp he with he | he
    · exact List.mem_append.mpr (.inl (h.begun e he))
    · rw [← hl e he]; simp

theorem getElem?_snoc {α : Type} (l : List α) (a x : α) (i : Nat) (h : (l ++ [a])[i]? = some x) :
    l[i]? = some x ∨ (i = l.length ∧ x = a) := by
  rcases Nat.lt_or_ge i l.length with hlt | hge
  · left; rw [List.getElem?_append_left hlt] at h; exact h
  · right
    rw [List.getElem?_append_right hge] at h
    cases hi : i - l.length with
    | zero => rw [hi] at h; simp at h; exact ⟨by omega, h.symm⟩
    | succ j => rw [hi] at h; simp at h

/-- `begin`: a new transaction in phase `started`. -/
theorem LiveInv.begin {d : Bool} {n : Nat} {s s' : Sys} (h : LiveInv n s) (hI : SysInv d n s) (x0 : TxnSt)
    (et : s'.txns = s.txns ++ [x0]) (hph : x0.phase = .started) (hr : x0.t.readTs = s.o.nextTxnTs - 1)
    (e1 : s'.tmSent = s.tmSent) (e2 : s'.o.txnMark.q = s.o.txnMark.q)
    (e3 : s'.hist = s.hist) (e4 : s'.o.nextTxnTs = s.o.nextTxnTs) : LiveInv n s' := by
  refine ⟨?_, ?_, ?_, ?_, by rw [e3, e4]; exact h.nextSeen, by rw [e1, e3]; exact h.begun⟩
  · intro tid x hx hp
    rw [et] at hx; rw [e1]
    rcases getElem?_snoc _ _ _ _ hx with hx | ⟨_, rfl⟩
    · exact h.parkedSent tid x hx hp
    · rw [hph] at hp; cases hp
  · intro idx w hw x hx
    rw [et] at hx; rw [e1] at hw
    obtain ⟨y, hy, _⟩ := hI.waitIdx idx w hw
    rw [getElem?_append_some _ _ _ _ hy] at hx
    cases hx
    exact h.notStarted idx w hw _ hy
  · intro pre hpre k hk x hx
    rw [et] at hx; rw [e1, e2] at hpre
    rcases getElem?_snoc _ _ _ _ hx with hx | ⟨_, rfl⟩
    · exact h.emitted pre hpre k hk x hx
    · rw [hph]; decide
  · intro x hx
    rw [et] at hx; rw [e3]
    rcases List.mem_append.mp hx with hx | hx
    · exact h.readTsSeen x hx
    · simp at hx; subst hx; rw [hr]; exact h.nextSeen

/-- `waitCheck`, slow path: the transaction sends its waiter mark and parks. -/
theorem LiveInv.park {d : Bool} {n : Nat} {s s' : Sys} (h : LiveInv n s) (hI : SysInv d n s) (tid : Nat)
    (x x' : TxnSt) (hx : s.txns[tid]? = some x) (hph : x.phase = .started) (hph' : x'.phase = .parked)
    (er : x'.t.readTs = x.t.readTs)
    (et : s'.txns = s.txns.set tid x') (e1 : s'.tmSent = s.tmSent ++ [.wait x.t.readTs tid])
    (e2 : s'.o.txnMark.q = s.o.txnMark.q ++ [.wait x.t.readTs tid])
    (e3 : s'.hist = s.hist) (e4 : s'.o.nextTxnTs = s.o.nextTxnTs) : LiveInv n s' := by
  have hget : ∀ t y, s'.txns[t]? = some y → (t = tid ∧ y = x') ∨ (t ≠ tid ∧ s.txns[t]? = some y) := by
    intro t y hy
    rw [et] at hy
    by_cases ht : tid = t
    · subst ht
      rw [getElem?_set_same _ _ _ _ hx] at hy
      cases hy; exact .inl ⟨rfl, rfl⟩
    · rw [getElem?_set_other _ _ _ _ ht] at hy
      exact .inr ⟨fun e => ht e.symm, hy⟩
  refine ⟨?_, ?_, ?_, ?_, by rw [e3, e4]; exact h.nextSeen, ?_⟩
  · intro t y hy hp
    rw [e1]
    rcases hget t y hy with ⟨rfl, rfl⟩ | ⟨_, hy⟩
    · rw [er]; simp
    · exact List.mem_append.mpr (.inl (h.parkedSent t y hy hp))
  · intro idx w hw y hy
    rcases hget w y hy with ⟨rfl, rfl⟩ | ⟨hne, hy⟩
    · rw [hph']; decide
    · rw [e1] at hw
      rcases List.mem_append.mp hw with hw | hw
      · exact h.notStarted idx w hw y hy
      · simp at hw; exact absurd hw.2 hne
  · intro pre hpre k hk y hy
    rw [e1, e2] at hpre
    rw [← List.cons_append, ← List.append_assoc] at hpre
    have hpre' := List.append_cancel_right hpre
    rcases hget k.waiter y hy with ⟨hk', rfl⟩ | ⟨_, hy⟩
    · -- a wake-up for `tid` would stem from a waiter mark sent while `tid` was still `started`
      exfalso
      rcases WM.runW_src _ WM.init_inv pre k (.inl hk) with h0 | h0
      · simp [WM.init, Waiters.flat] at h0
      · have hin : Mark.wait k.idx k.waiter ∈ Mark.done n :: s.tmSent := by
          rw [hpre']; exact List.mem_append.mpr (.inl h0)
        rcases List.mem_cons.mp hin with h1 | h1
        · cases h1
        · rw [hk'] at h1
          exact h.notStarted _ _ h1 x hx hph
    · exact h.emitted pre hpre' k hk y hy
  · intro y hy
    rw [et] at hy; rw [e3]
    rcases List.mem_or_eq_of_mem_set hy with hy | rfl
    · exact h.readTsSeen y hy
    · rw [er]; exact h.readTsSeen x (List.mem_of_getElem? hx)
  · intro e he
    rw [e3] at he; rw [e1]
    exact List.mem_append.mpr (.inl (h.begun e he))

theorem wakeOne_parked (i : Nat) (wk : List Wakeup) (x : TxnSt) (h : (wakeOne i wk x).phase = .parked) :
    x.phase = .parked ∧ wk.any (fun k => k.waiter == i) = false := by
  unfold wakeOne at h
  split at h
  · simp at h
  · rename_i hc
    refine ⟨h, ?_⟩
    cases hv : wk.any (fun k => k.waiter == i) with
    | false => rfl
    | true => exact absurd ⟨h, hv⟩ hc

theorem wakeOne_started (i : Nat) (wk : List Wakeup) (x : TxnSt) (h : (wakeOne i wk x).phase = .started) :
    x.phase = .started := by
  unfold wakeOne at h
  split at h
  · simp at h
  · exact h

/-- One iteration of `txnMark.process`: wake-ups are delivered. -/
theorem LiveInv.procTxnMark {d : Bool} {n : Nat} {s s' : Sys} (h : LiveInv n s) (hI : SysInv d n s)
    (a : AWM) (wk : List Wakeup) (hp : s.o.txnMark.process = some (a, wk))
    (et : s'.txns = wakeTxns s.txns wk) (e1 : s'.tmSent = s.tmSent) (e2 : s'.o.txnMark = a)
    (e3 : s'.hist = s.hist) (e4 : s'.o.nextTxnTs = s.o.nextTxnTs) : LiveInv n s' := by
  obtain ⟨_, m, ea, ewk, eq⟩ := hI.tmTracks.process hp
  obtain ⟨pre0, epre0, hwm⟩ := hI.tmTracks
  have hget : ∀ t y, s'.txns[t]? = some y → ∃ x, s.txns[t]? = some x ∧ y = wakeOne t wk x := by
    intro t y hy
    rw [et] at hy
    simp only [wakeTxns] at hy
    rw [wakeFrom_getElem?] at hy
    cases hx : s.txns[t]? with
    | none => rw [hx] at hy; simp at hy
    | some x => rw [hx] at hy; simp at hy; exact ⟨x, rfl, hy.symm⟩
  refine ⟨?_, ?_, ?_, ?_, by rw [e3, e4]; exact h.nextSeen, by rw [e1, e3]; exact h.begun⟩
  · intro t y hy hpk
    obtain ⟨x, hx, rfl⟩ := hget t y hy
    rw [e1, wakeOne_t]
    exact h.parkedSent t x hx (wakeOne_parked _ _ _ hpk).1
  · intro idx w hw y hy hst
    obtain ⟨x, hx, rfl⟩ := hget w y hy
    rw [e1] at hw
    exact h.notStarted idx w hw x hx (wakeOne_started _ _ _ hst)
  · intro pre hpre k hk y hy hpk
    obtain ⟨x, hx, rfl⟩ := hget k.waiter y hy
    obtain ⟨hxp, hany⟩ := wakeOne_parked _ _ _ hpk
    rw [e1, e2] at hpre
    -- pre = pre0 ++ [m]
    have hpre2 : pre = pre0 ++ [m] := by
      rw [epre0, eq] at hpre
      have : pre0 ++ m :: a.q = (pre0 ++ [m]) ++ a.q := by simp
      rw [this] at hpre
      exact (List.append_cancel_right hpre).symm
    rw [hpre2, WM.runW_append, List.mem_append] at hk
    rcases hk with hk | hk
    · exact h.emitted pre0 epre0 k hk x hx hxp
    · have : k ∈ wk := by
        rw [ewk, hwm]
        simpa [WM.runW_single, WM.run] using hk
      have : wk.any (fun k' => k'.waiter == k.waiter) = true :=
        List.any_eq_true.mpr ⟨k, this, by simp⟩
      rw [this] at hany; cases hany
  · intro y hy
    obtain ⟨t, ht⟩ := List.mem_iff_getElem?.mp hy
    obtain ⟨x, hx, rfl⟩ := hget t y ht
    rw [wakeOne_t, e3]; exact h.readTsSeen x (List.mem_of_getElem? hx)

/-- `C34_progress` for either discipline (`strict` or not). -/
theorem C34_progress_core (n : Nat) (ms : List Mark) {strict : Bool}
    (hok : marksOK strict (Ghost.opened n) ms) (t : Nat)
    (hseen : t = n ∨ ∃ p ∈ ms.flatMap Mark.procs, p.1 = t)
    (hdone : ∀ i ≤ t, netCount (ms.flatMap Mark.procs) i = 0) :
    t ≤ ((WM.opened n).run ms).doneUntil := by
  have hI : ((WM.opened n).run ms).Inv := (WM.runW_trans _ (WM.opened_inv n) ms).inv
  have h := (WM.run_ghost _ _ (WM.opened_inv n) (WM.opened_grel n) ms strict hok
    (fun _ => WM.opened_strict n)).1
  have hs : (Ghost.run (Ghost.opened n) ms).seen t := by
    rw [Ghost.run_seen]
    rcases hseen with e | e
    · right; simp [Ghost.opened, e]
    · left; exact e
  rcases h.seen t hs with hm | hl
  · exfalso
    cases hh : ((WM.opened n).run ms).heap with
    | nil => rw [hh] at hm; simp at hm
    | cons x rest =>
      have hpos := hI.headPos x rest hh
      have hxt : x ≤ t := by
        have hs := hI.heapSorted
        have hm' : t ∈ ((WM.opened n).run ms).heap := hm
        rw [hh] at hs hm'
        rcases List.mem_cons.mp hm' with e | hm'
        · omega
        · exact Nat.le_of_lt ((List.pairwise_cons.mp hs).1 t hm')
      have : ((WM.opened n).run ms).pending.val x = 0 := by
        rw [h.cnt, Ghost.run_cnt]; simp [Ghost.opened]; exact hdone x hxt
      omega
  · exact hl

theorem OReach.live {d : Bool} {n : Nat} {s : Sys} (h : OReach false d n s) : LiveInv n s := by
  induction h with
  | init => exact LiveInv.init d n
  | @step s s' l hr hstep ih =>
    have hI := hr.inv
    have hnm := hI.notManaged
    have hlive := hI.live
    have hg1 : ¬ (s.crashed = true ∨ s.o.isManaged = true) := by simp [hnm, hlive]
    have hg2 : ¬ (s.crashed = true) := by simp [hlive]
    cases l with
    | begin upd =>
      simp only [Sys.step] at hstep
      rw [if_neg hg1] at hstep
      simp only [Option.some.injEq] at hstep
      subst hstep
      exact ih.begin hI _ rfl rfl rfl rfl rfl rfl rfl
    | waitCheck tid =>
      simp only [Sys.step] at hstep
      rw [if_neg hg2] at hstep
      cases hx : s.txns[tid]? with
      | none => rw [hx] at hstep; simp at hstep
      | some x =>
        rw [hx] at hstep
        simp only at hstep
        split at hstep
        · simp at hstep
        · rename_i hph
          have hph' : x.phase = .started := by simpa using hph
          simp only [Oracle.readTsWait] at hstep
          split at hstep
          · simp only [if_true, Option.some.injEq] at hstep
            subst hstep
            exact ih.setTxn tid x { x with phase := .active } hx rfl rfl rfl rfl rfl rfl
              (fun h => by simp at h) (fun h => by simp at h)
          · simp only [Bool.false_eq_true, if_false, Option.some.injEq] at hstep
            subst hstep
            exact ih.park hI tid x { x with phase := .parked } hx hph' rfl rfl rfl rfl
              (by simp [AWM.send]) rfl rfl
    | procTxnMark =>
      simp only [Sys.step] at hstep
      rw [if_neg hg2] at hstep
      cases hp : s.o.txnMark.process with
      | none => rw [hp] at hstep; simp at hstep
      | some r =>
        obtain ⟨a, wk⟩ := r
        rw [hp] at hstep
        simp only [Option.some.injEq] at hstep
        subst hstep
        exact ih.procTxnMark hI a wk hp rfl rfl rfl rfl rfl
    | procReadMark =>
      simp only [Sys.step] at hstep
      rw [if_neg hg2] at hstep
      cases hp : s.o.readMark.process with
      | none => rw [hp] at hstep; simp at hstep
      | some r =>
        obtain ⟨a, wk⟩ := r
        rw [hp] at hstep
        simp only [Option.some.injEq] at hstep
        subst hstep
        exact ih.frame rfl rfl rfl rfl (fun t y hy => ⟨y, hy, rfl, id, id⟩)
    | read tid fp =>
      simp only [Sys.step] at hstep
      rw [if_neg hg2] at hstep
      cases hx : s.txns[tid]? with
      | none => rw [hx] at hstep; simp at hstep
      | some x =>
        rw [hx] at hstep
        simp only at hstep
        split at hstep
        · simp at hstep
        · split at hstep
          · simp only [Option.some.injEq] at hstep
            subst hstep
            exact ih.setTxn tid x _ hx rfl rfl rfl rfl rfl rfl id id
          · simp only [Option.some.injEq] at hstep
            subst hstep; exact ih
    | write tid fp =>
      simp only [Sys.step] at hstep
      rw [if_neg hg2] at hstep
      cases hx : s.txns[tid]? with
      | none => rw [hx] at hstep; simp at hstep
      | some x =>
        rw [hx] at hstep
        simp only at hstep
        split at hstep
        · simp at hstep
        · simp only [Option.some.injEq] at hstep
          subst hstep
          exact ih.setTxn tid x _ hx rfl rfl rfl rfl rfl rfl id id
    | commit tid =>
      simp only [Sys.step] at hstep
      rw [if_neg hg1] at hstep
      cases hx : s.txns[tid]? with
      | none => rw [hx] at hstep; simp at hstep
      | some x =>
        rw [hx] at hstep
        simp only at hstep
        split at hstep
        · simp at hstep
        · rename_i hcond
          have hph : x.phase = .active := by
            by_cases h : x.phase = .active
            · exact h
            · exact absurd (.inl h) hcond
          have hxm := List.mem_of_getElem? hx
          cases hc : s.o.hasConflict x.t with
          | true =>
            have e : s.o.newCommitTs x.t = (s.o, x.t, .conflict) := by simp [Oracle.newCommitTs, hc]
            rw [e] at hstep
            simp only [Option.some.injEq] at hstep
            subst hstep
            exact ih.setTxn tid x { x with t := x.t, phase := .closing } hx rfl rfl rfl rfl rfl rfl
              (fun h => by simp at h) (fun h => by simp at h)
          | false =>
            rw [hI.newCommitTs_eq x hxm (by rw [hph]; decide) hc] at hstep
            simp only [Option.some.injEq] at hstep
            subst hstep
            -- first the transaction is closed, then `txnMark.Begin(ts)` is sent
            have h1 := ih.setTxn (s' := { s with txns := s.txns.set tid ⟨{ x.t with doneRead := true }, .closed, some s.o.nextTxnTs⟩ }) tid x _ hx rfl rfl rfl rfl rfl rfl (fun h => by simp at h) (fun h => by simp at h)
            apply h1.sendTm (.begin s.o.nextTxnTs) (by intro idx w; simp)
            · rfl
            · rfl
            · simp [commitO, AWM.send]
            · exact ⟨[⟨s.o.nextTxnTs, x.t.readTs, x.t.reads, x.t.conflictKeys, tid⟩], rfl, by simp⟩
            · right
              simp [commitO]
    | discard tid =>
      simp only [Sys.step] at hstep
      rw [if_neg hg2] at hstep
      cases hx : s.txns[tid]? with
      | none => rw [hx] at hstep; simp at hstep
      | some x =>
        rw [hx] at hstep
        simp only at hstep
        split at hstep
        · simp at hstep
        · rw [if_neg (by simp [hnm])] at hstep
          simp only [Option.some.injEq] at hstep
          subst hstep
          apply ih.setTxn tid x _ hx
          · rfl
          · rfl
          · simp only [Oracle.doneRead]; split <;> rfl
          · rfl
          · simp only [Oracle.doneRead]; split <;> rfl
          · simp only [Oracle.doneRead]; split <;> rfl
          · intro h; simp at h
          · intro h; simp at h
    | doneCommit ts =>
      simp only [Sys.step] at hstep
      split at hstep
      · simp at hstep
      · have ho : s.o.doneCommit ts = { s.o with txnMark := s.o.txnMark.send (.done ts) } := by
          unfold Oracle.doneCommit; rw [if_neg (by simp [hnm])]
        rw [ho, if_neg (by simp [hnm])] at hstep
        simp only [Option.some.injEq] at hstep
        subst hstep
        apply ih.sendTm (.done ts) (by intro idx w; simp)
        · rfl
        · rfl
        · simp [AWM.send]
        · exact ⟨[], by simp, by simp⟩
        · exact ih.nextSeen
    | beginAt r u => simp [Sys.step, hnm] at hstep
    | commitAt tid ts => simp [Sys.step, hnm] at hstep
    | setDiscardTs ts => simp [Sys.step, hnm] at hstep
    | cleanup =>
      simp only [Sys.step] at hstep
      rw [if_neg hg2, hI.cleanup_eq] at hstep
      simp only [Option.some.injEq] at hstep
      subst hstep
      apply ih.frame
      · rfl
      · simp only; split <;> rfl
      · rfl
      · simp only; split <;> rfl
      · exact fun t y hy => ⟨y, hy, rfl, id, id⟩

/-- **No reader is stranded (oracle level).** In every reachable state in which `txnMark`'s channel
    is drained, a transaction parked in `WaitForMark` with read timestamp `r` is waiting for a
    commit `≤ r` that has been handed out and not yet reported done. Contrapositive: once every
    commit at or below its read timestamp is done (and `process` has caught up) the transaction has
    been released. -/
theorem SysInv.parked_has_reason {d : Bool} {n : Nat} {s : Sys} (h : OReach false d n s)
    (hq : s.o.txnMark.q = []) (tid : Nat) (x : TxnSt) (hx : s.txns[tid]? = some x)
    (hp : x.phase = .parked) : ∃ e ∈ s.hist, e.ts ≤ x.t.readTs ∧ e.ts ∉ s.doneCommits := by
  have hI := h.inv
  have hL := h.live
  apply Classical.byContradiction
  intro hno
  have hall : ∀ e ∈ s.hist, e.ts ≤ x.t.readTs → e.ts ∈ s.doneCommits := by
    intro e he hle
    apply Classical.byContradiction
    intro hnd; exact hno ⟨e, he, hle, hnd⟩
  obtain ⟨pre, epre, hwm⟩ := hI.tmTracks
  rw [hq, List.append_nil] at epre
  -- the waiter was registered …
  have hsent := hL.parkedSent tid x hx hp
  have hnf : (WM.init.run pre).failed = false := by rw [← hwm]; exact hI.tmTracks.live true hI.tmOK
  have hreg : Mark.wait x.t.readTs tid ∈ pre := by rw [← epre]; exact List.mem_cons_of_mem _ hsent
  rcases WM.runW_conserve _ WM.init_inv pre hnf ⟨tid, x.t.readTs⟩ (.inl hreg) with hst | hem
  · -- … still stored: then doneUntil < readTs, but progress says readTs ≤ doneUntil
    obtain ⟨p, hpm, e1, _⟩ := (Waiters.mem_flat _ _).mp hst
    have hlt := (WM.run_inv pre).wAhead p hpm
    simp only at e1
    have hvirt : WM.init.run pre = (WM.opened n).run s.tmSent := by rw [← epre, WM.opened_run]
    have hprog : x.t.readTs ≤ ((WM.opened n).run s.tmSent).doneUntil := by
      apply C34_progress_core n s.tmSent hI.tmOK
      · rcases hL.readTsSeen x (List.mem_of_getElem? hx) with e | e
        · exact .inl e
        · right
          obtain ⟨e0, he0, ee⟩ := List.mem_map.mp e
          refine ⟨(e0.ts, false), ?_, ee⟩
          apply List.mem_flatMap.mpr
          exact ⟨.begin e0.ts, hL.begun e0 he0, by simp [Mark.procs]⟩
      · intro i hi
        have hc := hI.tmCnt i
        simp only [tmGhost, Ghost.run_cnt, Ghost.opened] at hc
        by_cases hmem : i ∈ s.allocatedNotDone
        · exfalso
          obtain ⟨hm1, hm2⟩ := (mem_allocatedNotDone s i).mp hmem
          obtain ⟨e0, he0, ee⟩ := List.mem_map.mp hm1
          exact hm2 (ee ▸ hall e0 he0 (by rw [ee]; exact hi))
        · rw [if_neg hmem] at hc; omega
    rw [hvirt] at hlt
    omega
  · -- … or already released: then the transaction is not parked
    exact hL.emitted pre (by rw [hq, List.append_nil]; exact epre) _ hem x hx hp

end Badger
