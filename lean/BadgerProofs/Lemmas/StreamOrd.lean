import BadgerModel.Spec.Mvcc
import BadgerProofs.Lemmas.Bytes
/-!
# Order facts on byte strings and entries used by the stream / backup / stream-writer proofs
(C24, C25, C26). Namespace `Badger.SO`; self-contained (depends on `Lemmas/Bytes.lean` only) so
that these proofs do not move when other lemma files do.
-/
namespace Badger
namespace SO

/-! ## Order facts: `cmpBytes`, `kvCmp`, `entCmp` -/

theorem cmpBytes_trans {a b c : Bytes} (h1 : cmpBytes a b = .lt) (h2 : cmpBytes b c = .lt) :
    cmpBytes a c = .lt := by
  induction a generalizing b c with
  | nil =>
    cases b with
    | nil => simp [cmpBytes] at h1
    | cons y ys => cases c with
      | nil => simp [cmpBytes] at h2
      | cons z zs => simp [cmpBytes]
  | cons x xs ih =>
    cases b with
    | nil => simp [cmpBytes] at h1
    | cons y ys =>
      cases c with
      | nil => simp [cmpBytes] at h2
      | cons z zs =>
        simp only [cmpBytes] at h1 h2 ⊢
        split at h1
        · split at h2
          · rw [if_pos (by omega)]
          · split at h2
            · cases h2
            · rw [if_pos (by omega)]
        · split at h1
          · cases h1
          · split at h2
            · rw [if_pos (by omega)]
            · split at h2
              · cases h2
              · rw [if_neg (by omega), if_neg (by omega)]
                exact ih h1 h2

/-- strict byte order on user keys -/
def klt (a b : Bytes) : Prop := cmpBytes a b = .lt

theorem klt_trans {a b c : Bytes} (h1 : klt a b) (h2 : klt b c) : klt a c := cmpBytes_trans h1 h2

theorem klt_irrefl (a : Bytes) : ¬ klt a a := by
  unfold klt; rw [cmpBytes_refl]; simp

theorem klt_asymm {a b : Bytes} (h : klt a b) : ¬ klt b a := fun h' => klt_irrefl a (klt_trans h h')

theorem klt_ne {a b : Bytes} (h : klt a b) : a ≠ b := fun e => klt_irrefl a (e ▸ h)

theorem cmpBytes_gt_iff (a b : Bytes) : cmpBytes a b = .gt ↔ klt b a := by
  unfold klt; rw [← cmpBytes_swap a b]; cases cmpBytes a b <;> simp [Ordering.swap]

theorem klt_tri (a b : Bytes) : klt a b ∨ a = b ∨ klt b a := by
  cases h : cmpBytes a b with
  | lt => exact .inl h
  | eq => exact .inr (.inl ((cmpBytes_eq_iff a b).mp h))
  | gt => exact .inr (.inr ((cmpBytes_gt_iff a b).mp h))

theorem kvCmp_lt_iff (k1 : Bytes) (v1 : Nat) (k2 : Bytes) (v2 : Nat) :
    kvCmp k1 v1 k2 v2 = .lt ↔ klt k1 k2 ∨ (k1 = k2 ∧ v2 < v1) := by
  unfold kvCmp
  rcases klt_tri k1 k2 with h | h | h
  · have h' : cmpBytes k1 k2 = .lt := h
    rw [h']; simp [h]
  · subst h
    rw [cmpBytes_refl]; simp [klt_irrefl, Nat.compare_eq_lt]
  · have h' : cmpBytes k1 k2 = .gt := (cmpBytes_gt_iff _ _).mpr h
    rw [h']; simp [klt_asymm h]
    intro e; exact absurd h (e ▸ klt_irrefl k1)

theorem kvCmp_eq_iff (k1 : Bytes) (v1 : Nat) (k2 : Bytes) (v2 : Nat) :
    kvCmp k1 v1 k2 v2 = .eq ↔ k1 = k2 ∧ v1 = v2 := by
  unfold kvCmp
  rcases klt_tri k1 k2 with h | h | h
  · have h' : cmpBytes k1 k2 = .lt := h
    rw [h']; simp [klt_ne h]
  · subst h
    rw [cmpBytes_refl]; simp; exact eq_comm
  · have h' : cmpBytes k1 k2 = .gt := (cmpBytes_gt_iff _ _).mpr h
    rw [h']; simp
    intro e; exact absurd h (e ▸ klt_irrefl k1)

theorem kvCmp_gt_iff (k1 : Bytes) (v1 : Nat) (k2 : Bytes) (v2 : Nat) :
    kvCmp k1 v1 k2 v2 = .gt ↔ klt k2 k1 ∨ (k1 = k2 ∧ v1 < v2) := by
  unfold kvCmp
  rcases klt_tri k1 k2 with h | h | h
  · have h' : cmpBytes k1 k2 = .lt := h
    rw [h']; simp [klt_asymm h, klt_ne h]
  · subst h
    rw [cmpBytes_refl]; simp [klt_irrefl, Nat.compare_eq_gt]
  · have h' : cmpBytes k1 k2 = .gt := (cmpBytes_gt_iff _ _).mpr h
    rw [h']; simp [h]

/-- `(k1,v1)` strictly before `(k2,v2)` in the internal-key order -/
def kvlt (k1 : Bytes) (v1 : Nat) (k2 : Bytes) (v2 : Nat) : Prop := klt k1 k2 ∨ (k1 = k2 ∧ v2 < v1)

theorem kvlt_trans {k1 k2 k3 : Bytes} {v1 v2 v3 : Nat} (h1 : kvlt k1 v1 k2 v2) (h2 : kvlt k2 v2 k3 v3) :
    kvlt k1 v1 k3 v3 := by
  rcases h1 with h1 | ⟨rfl, h1⟩ <;> rcases h2 with h2 | ⟨rfl, h2⟩
  · exact .inl (klt_trans h1 h2)
  · exact .inl h1
  · exact .inl h2
  · exact .inr ⟨rfl, by omega⟩

theorem kvlt_irrefl (k : Bytes) (v : Nat) : ¬ kvlt k v k v := by
  rintro (h | ⟨_, h⟩)
  · exact klt_irrefl k h
  · omega

theorem kvlt_tri (k1 : Bytes) (v1 : Nat) (k2 : Bytes) (v2 : Nat) :
    kvlt k1 v1 k2 v2 ∨ (k1 = k2 ∧ v1 = v2) ∨ kvlt k2 v2 k1 v1 := by
  rcases klt_tri k1 k2 with h | h | h
  · exact .inl (.inl h)
  · subst h
    rcases Nat.lt_trichotomy v1 v2 with h | h | h
    · exact .inr (.inr (.inr ⟨rfl, h⟩))
    · exact .inr (.inl ⟨rfl, h⟩)
    · exact .inl (.inr ⟨rfl, h⟩)
  · exact .inr (.inr (.inl h))

/-- strict internal-key order on entries -/
def elt (a b : Ent) : Prop := kvlt a.key a.ver b.key b.ver

theorem entCmp_lt_iff (a b : Ent) : entCmp a b = .lt ↔ elt a b := kvCmp_lt_iff _ _ _ _
theorem entCmp_gt_iff (a b : Ent) : entCmp a b = .gt ↔ elt b a := by
  unfold entCmp elt kvlt; rw [kvCmp_gt_iff]
  constructor
  · rintro (h | ⟨h1, h2⟩)
    · exact .inl h
    · exact .inr ⟨h1.symm, h2⟩
  · rintro (h | ⟨h1, h2⟩)
    · exact .inl h
    · exact .inr ⟨h1.symm, h2⟩
theorem entCmp_eq_iff (a b : Ent) : entCmp a b = .eq ↔ a.key = b.key ∧ a.ver = b.ver :=
  kvCmp_eq_iff _ _ _ _

theorem elt_trans {a b c : Ent} (h1 : elt a b) (h2 : elt b c) : elt a c := kvlt_trans h1 h2
theorem elt_irrefl (a : Ent) : ¬ elt a a := kvlt_irrefl _ _
theorem elt_asymm {a b : Ent} (h : elt a b) : ¬ elt b a := fun h' => elt_irrefl a (elt_trans h h')

/-! ## `pick`: left-biased maximum by version; `newestLE` is a `pick`-fold -/

/-- the better of two candidates: larger version, the left one on ties -/
def pick : Option Ent → Option Ent → Option Ent
  | none, y => y
  | some a, none => some a
  | some a, some b => if a.ver < b.ver then some b else some a

@[simp] theorem pick_none_left (y : Option Ent) : pick none y = y := rfl
@[simp] theorem pick_none_right (x : Option Ent) : pick x none = x := by cases x <;> rfl

theorem pick_assoc (x y z : Option Ent) : pick (pick x y) z = pick x (pick y z) := by
  cases x with
  | none => rfl
  | some a =>
    cases y with
    | none => rfl
    | some b =>
      cases z with
      | none => rw [pick_none_right, pick_none_right]
      | some c =>
        simp only [pick]
        by_cases h1 : a.ver < b.ver <;> by_cases h2 : b.ver < c.ver <;> simp [h1, h2]
        · intro h; omega
        · omega

/-- the candidate an entry contributes to a read of `k` at `ts` -/
def cand (k : Bytes) (ts : Nat) (e : Ent) : Option Ent := if e.key = k ∧ e.ver ≤ ts then some e else none

theorem newestLE_eq_foldl (es : List Ent) (k : Bytes) (ts : Nat) :
    newestLE es k ts = es.foldl (fun b e => pick b (cand k ts e)) none := by
  unfold newestLE
  congr 1
  funext b e
  unfold cand
  split
  · cases b <;> simp [betterOf, pick]
  · simp

theorem foldl_pick_init (k : Bytes) (ts : Nat) (es : List Ent) (init : Option Ent) :
    es.foldl (fun b e => pick b (cand k ts e)) init =
      pick init (es.foldl (fun b e => pick b (cand k ts e)) none) := by
  induction es generalizing init with
  | nil => simp
  | cons x xs ih =>
    simp only [List.foldl_cons, pick_none_left]
    rw [ih (pick init (cand k ts x)), ih (cand k ts x), pick_assoc]

@[simp] theorem newestLE_nil (k : Bytes) (ts : Nat) : newestLE [] k ts = none := rfl

theorem newestLE_cons (x : Ent) (xs : List Ent) (k : Bytes) (ts : Nat) :
    newestLE (x :: xs) k ts = pick (cand k ts x) (newestLE xs k ts) := by
  simp only [newestLE_eq_foldl, List.foldl_cons, pick_none_left]
  rw [foldl_pick_init]

theorem newestLE_append (a b : List Ent) (k : Bytes) (ts : Nat) :
    newestLE (a ++ b) k ts = pick (newestLE a k ts) (newestLE b k ts) := by
  induction a with
  | nil => simp
  | cons x xs ih => simp only [List.cons_append, newestLE_cons, ih, pick_assoc]

theorem newestLE_flatten_foldl (ls : List (List Ent)) (k : Bytes) (ts : Nat) (init : Option Ent) :
    ls.foldl (fun b l => pick b (newestLE l k ts)) init = pick init (newestLE ls.flatten k ts) := by
  induction ls generalizing init with
  | nil => simp
  | cons l ls ih => simp only [List.foldl_cons, List.flatten_cons, newestLE_append, ih, pick_assoc]

theorem pick_eq_none {x y : Option Ent} : pick x y = none ↔ x = none ∧ y = none := by
  cases x <;> cases y <;> simp [pick]
  split <;> simp

theorem pick_some {x y : Option Ent} {e : Ent} (h : pick x y = some e) :
    (x = some e ∧ ∀ b, y = some b → b.ver ≤ e.ver) ∨ (y = some e ∧ ∀ a, x = some a → a.ver < e.ver) := by
  cases x with
  | none => simp at h; exact .inr ⟨h, by simp⟩
  | some a =>
    cases y with
    | none => simp at h; exact .inl ⟨by simp [h], by simp⟩
    | some b =>
      simp only [pick] at h
      split at h
      · simp at h; subst h; right; simpa
      · simp at h; subst h; left; simp; omega

theorem cand_some {k : Bytes} {ts : Nat} {x e : Ent} (h : cand k ts x = some e) :
    e = x ∧ x.key = k ∧ x.ver ≤ ts := by
  unfold cand at h
  split at h
  · simp at h; rename_i hc; exact ⟨h.symm, hc⟩
  · simp at h

theorem newestLE_eq_none {es : List Ent} {k : Bytes} {ts : Nat} :
    newestLE es k ts = none ↔ ∀ x ∈ es, ¬ (x.key = k ∧ x.ver ≤ ts) := by
  induction es with
  | nil => simp
  | cons x xs ih =>
    rw [newestLE_cons, pick_eq_none, ih]
    unfold cand
    by_cases hx : x.key = k ∧ x.ver ≤ ts
    · rw [if_pos hx]; simp
      intro h; have := h hx.1; omega
    · rw [if_neg hx]; simp
      intro _ hk; exact Nat.lt_of_not_le (fun h => hx ⟨hk, h⟩)

/-- the result of `newestLE`, when present, is a maximal admissible member -/
theorem newestLE_some {es : List Ent} {k : Bytes} {ts : Nat} {e : Ent} (h : newestLE es k ts = some e) :
    e ∈ es ∧ e.key = k ∧ e.ver ≤ ts ∧ ∀ x ∈ es, x.key = k → x.ver ≤ ts → x.ver ≤ e.ver := by
  induction es generalizing e with
  | nil => simp at h
  | cons x xs ih =>
    rw [newestLE_cons] at h
    rcases pick_some h with ⟨h1, h2⟩ | ⟨h1, h2⟩
    · obtain ⟨rfl, hk, hv⟩ := cand_some h1
      refine ⟨by simp, hk, hv, ?_⟩
      intro y hy hyk hyv
      rcases List.mem_cons.mp hy with rfl | hy
      · exact Nat.le_refl _
      · cases hr : newestLE xs k ts with
        | none => exact absurd ⟨hyk, hyv⟩ (newestLE_eq_none.mp hr y hy)
        | some r =>
          have := (ih hr).2.2.2 y hy hyk hyv
          have := h2 r hr
          omega
    · obtain ⟨m1, m2, m3, m4⟩ := ih h1
      refine ⟨List.mem_cons_of_mem _ m1, m2, m3, ?_⟩
      intro y hy hyk hyv
      rcases List.mem_cons.mp hy with rfl | hy
      · have : cand k ts y = some y := by simp [cand, hyk, hyv]
        have := h2 y this
        omega
      · exact m4 y hy hyk hyv

/-! ## sorted sources -/

theorem sorted_iff (es : List Ent) : SortedEnts es ↔ es.Pairwise elt := by
  unfold SortedEnts
  constructor <;> intro h <;> exact h.imp (fun h => by first | exact (entCmp_lt_iff _ _).mp h | exact (entCmp_lt_iff _ _).mpr h)

theorem sorted_cons {x : Ent} {xs : List Ent} :
    SortedEnts (x :: xs) ↔ (∀ y ∈ xs, elt x y) ∧ SortedEnts xs := by
  simp only [sorted_iff, List.pairwise_cons]

theorem sorted_append {a b : List Ent} :
    SortedEnts (a ++ b) ↔ SortedEnts a ∧ SortedEnts b ∧ ∀ x ∈ a, ∀ y ∈ b, elt x y := by
  simp only [sorted_iff, List.pairwise_append]

theorem sorted_nil : SortedEnts [] := List.Pairwise.nil

/-- in a sorted source an internal key occurs once -/
theorem sorted_unique {es : List Ent} (hs : SortedEnts es) {x y : Ent} (hx : x ∈ es) (hy : y ∈ es)
    (hk : x.key = y.key) (hv : x.ver = y.ver) : x = y := by
  induction es with
  | nil => simp at hx
  | cons z zs ih =>
    obtain ⟨h1, h2⟩ := sorted_cons.mp hs
    rcases List.mem_cons.mp hx with hxz | hxz <;> rcases List.mem_cons.mp hy with hyz | hyz
    · rw [hxz, hyz]
    · exfalso; have := h1 y hyz; rw [← hxz] at this; unfold elt at this; rw [hk, hv] at this; exact kvlt_irrefl _ _ this
    · exfalso; have := h1 x hxz; rw [← hyz] at this; unfold elt at this; rw [hk, hv] at this; exact kvlt_irrefl _ _ this
    · exact ih h2 hxz hyz

theorem seekGE_append_lt {k : Bytes} {ts : Nat} {a b : List Ent}
    (h : ∀ x ∈ a, kvlt x.key x.ver k ts) : seekGE k ts (a ++ b) = seekGE k ts b := by
  induction a with
  | nil => rfl
  | cons x xs ih =>
    have hx : kvCmp x.key x.ver k ts = .lt := (kvCmp_lt_iff _ _ _ _).mpr (h x (by simp))
    simp only [List.cons_append, seekGE, hx, beq_self_eq_true, if_true]
    exact ih (fun y hy => h y (List.mem_cons_of_mem _ hy))

theorem seekGE_append_ge {k : Bytes} {ts : Nat} {a b : List Ent}
    (h : ∃ x ∈ a, ¬ kvlt x.key x.ver k ts) : seekGE k ts (a ++ b) = seekGE k ts a := by
  induction a with
  | nil => simp at h
  | cons x xs ih =>
    by_cases hx : kvlt x.key x.ver k ts
    · have hx' : kvCmp x.key x.ver k ts = .lt := (kvCmp_lt_iff _ _ _ _).mpr hx
      simp only [List.cons_append, seekGE, hx', beq_self_eq_true, if_true]
      apply ih
      obtain ⟨y, hy, hny⟩ := h
      rcases List.mem_cons.mp hy with rfl | hy
      · exact absurd hx hny
      · exact ⟨y, hy, hny⟩
    · have hx' : ¬ kvCmp x.key x.ver k ts = .lt := fun h => hx ((kvCmp_lt_iff _ _ _ _).mp h)
      simp [seekGE, hx']

/-- Seek + SameKey on a sorted source is the newest version `≤ ts`. -/
theorem srcGet_eq_newestLE {es : List Ent} (hs : SortedEnts es) (k : Bytes) (ts : Nat) :
    srcGet es k ts = newestLE es k ts := by
  induction es with
  | nil => rfl
  | cons x xs ih =>
    obtain ⟨h1, h2⟩ := sorted_cons.mp hs
    rw [newestLE_cons]
    by_cases hx : kvlt x.key x.ver k ts
    · have hx' : kvCmp x.key x.ver k ts = .lt := (kvCmp_lt_iff _ _ _ _).mpr hx
      have hc : cand k ts x = none := by
        unfold cand; rw [if_neg]
        rintro ⟨hk, hv⟩
        rcases hx with hx | ⟨_, hx⟩
        · exact klt_irrefl _ (hk ▸ hx)
        · omega
      rw [hc, pick_none_left, ← ih h2]
      simp [srcGet, seekGE, hx']
    · have hx' : ¬ kvCmp x.key x.ver k ts = .lt := fun h => hx ((kvCmp_lt_iff _ _ _ _).mp h)
      have hsrc : srcGet (x :: xs) k ts = if x.key == k then some x else none := by
        simp [srcGet, seekGE, hx']
      rw [hsrc]
      by_cases hk : x.key = k
      · have hv : x.ver ≤ ts := by
          apply Nat.le_of_not_lt; intro hlt; exact hx (.inr ⟨hk, hlt⟩)
        have hc : cand k ts x = some x := by simp [cand, hk, hv]
        rw [hc]; simp [hk]
        cases hr : newestLE xs k ts with
        | none => simp
        | some r =>
          obtain ⟨m1, m2, _, _⟩ := newestLE_some hr
          have := h1 r m1
          rcases this with h | ⟨_, h⟩
          · exact absurd h (by rw [hk, m2]; exact klt_irrefl _)
          · simp [pick]; omega
      · have hkx : klt k x.key := by
          rcases kvlt_tri x.key x.ver k ts with h | ⟨h, _⟩ | h
          · exact absurd h hx
          · exact absurd h hk
          · rcases h with h | ⟨h, _⟩
            · exact h
            · exact absurd h.symm hk
        have hc : cand k ts x = none := by simp [cand, hk]
        have hn : newestLE xs k ts = none := by
          apply newestLE_eq_none.mpr
          rintro y hy ⟨hyk, _⟩
          rcases h1 y hy with h | ⟨h, _⟩
          · exact klt_irrefl _ (klt_trans hkx (hyk ▸ h))
          · exact klt_irrefl _ (hyk ▸ h ▸ hkx)
        rw [hc, hn]; simp [hk]

theorem mem_zip_range' {α : Type} (l : List α) (n i : Nat) (t : α) :
    (i, t) ∈ (List.range' n l.length).zip l ↔ n ≤ i ∧ l[i - n]? = some t := by
  induction l generalizing n with
  | nil => simp
  | cons x xs ih =>
    simp only [List.length_cons, List.range'_succ, List.zip_cons_cons, List.mem_cons, Prod.mk.injEq, ih]
    constructor
    · rintro (⟨rfl, rfl⟩ | ⟨h1, h2⟩)
      · simp
      · refine ⟨by omega, ?_⟩
        have : i - n = (i - (n + 1)) + 1 := by omega
        rw [this]; simpa using h2
    · rintro ⟨h1, h2⟩
      by_cases hi : i = n
      · subst hi; simp at h2; exact .inl ⟨rfl, h2.symm⟩
      · right
        refine ⟨by omega, ?_⟩
        have : i - n = (i - (n + 1)) + 1 := by omega
        rw [this] at h2; simpa using h2

theorem mem_zipIdx {α : Type} (l : List α) (i : Nat) (t : α) : (i, t) ∈ zipIdx l ↔ l[i]? = some t := by
  unfold zipIdx
  rw [List.range_eq_range', mem_zip_range']
  simp

end SO
end Badger
