import BadgerProofs.Lemmas.Log
/-!
Write units of a log (what badger writes: a non-transactional record, or the records of one
transaction closed by its end marker) and the behaviour of the `iterate` loop over them.
-/
namespace Badger

/-- A unit of a WAL / value log as written by badger. -/
inductive LogUnit where
  /-- one record outside any transaction (`meta` has neither `bitTxn` nor `bitFinTxn`) -/
  | single (e : Entry)
  /-- the records of one transaction with commit timestamp `ts`, then the end marker `fin` -/
  | txn (ts : Nat) (es : List Entry) (fin : Entry)

/-- The records of a unit in write order. -/
def LogUnit.entries : LogUnit → List Entry
  | .single e => [e]
  | .txn _ es fin => es ++ [fin]

/-- The records of a unit that `iterate` hands to the callback (the end marker is not). -/
def LogUnit.payload : LogUnit → List Entry
  | .single e => [e]
  | .txn _ es _ => es

/-- A transaction record: `bitTxn` set, key carries the commit timestamp `ts`. -/
def TxnEntry (ts : Nat) (e : Entry) : Prop :=
  e.WF ∧ e.metaB &&& bitTxn ≠ 0 ∧ parseTs e.key = ts

def LogUnit.WF : LogUnit → Prop
  | .single e => e.WF ∧ e.key ≠ [] ∧ e.metaB &&& bitTxn = 0 ∧ e.metaB &&& bitFinTxn = 0
  | .txn ts es fin =>
    ts ≠ 0 ∧ es ≠ [] ∧ (∀ e ∈ es, TxnEntry ts e) ∧
    fin.WF ∧ fin.key ≠ [] ∧ fin.metaB &&& bitTxn = 0 ∧ fin.metaB &&& bitFinTxn ≠ 0 ∧
    parseUintDec fin.value = some ts

def unitsEntries (us : List LogUnit) : List Entry := us.flatMap LogUnit.entries

/-- Records with the value pointers `(fid, offset, len)` of their positions when written in
    order starting at `off`. -/
def withVptrs (fid : Nat) (cipher : Nat → Nat → UInt8) : Nat → List Entry → Delivered
  | _, [] => []
  | off, e :: es =>
    (e, ⟨fid, (encodeEntry (cipher off) e).length, off⟩) ::
      withVptrs fid cipher (off + (encodeEntry (cipher off) e).length) es

/-- Size of the encoding of `es` written from `off`. -/
def encLen (cipher : Nat → Nat → UInt8) (off : Nat) (es : List Entry) : Nat :=
  (encodeAll cipher off es).length

/-- What `iterate` must deliver for the units `us` written from `off`: every payload record, in
    write order, with its value pointer. -/
def deliveredUnits (fid : Nat) (cipher : Nat → Nat → UInt8) : Nat → List LogUnit → Delivered
  | _, [] => []
  | off, u :: us =>
    withVptrs fid cipher off u.payload ++
      deliveredUnits fid cipher (off + encLen cipher off u.entries) us

theorem encodeAll_append (cipher : Nat → Nat → UInt8) (a b : List Entry) : ∀ off,
    encodeAll cipher off (a ++ b) =
      encodeAll cipher off a ++ encodeAll cipher (off + encLen cipher off a) b := by
  induction a with
  | nil => intro off; simp [encodeAll, encLen]
  | cons e es ih =>
    intro off
    simp only [List.cons_append, encodeAll, ih, encLen, List.append_assoc, List.length_append]
    congr 3
    omega

theorem parseTs_ne_zero_key {k : Bytes} (h : parseTs k ≠ 0) : k ≠ [] := by
  intro hk; subst hk; simp [parseTs] at h

section
variable (fid : Nat) (cipher : Nat → Nat → UInt8)

/-- Transaction records of timestamp `ts` read while `lastCommit = ts` are buffered. -/
theorem iterGo_txnEntries (ts : Nat) (hts : ts ≠ 0) (es : List Entry) :
    ∀ (f off ve : Nat) (pend : Delivered) (rest : Bytes), (∀ e ∈ es, TxnEntry ts e) →
    iterGo fid cipher (es.length + f) off ts ve pend (encodeAll cipher off es ++ rest) =
      iterGo fid cipher f (off + encLen cipher off es) ts ve
        (pend ++ withVptrs fid cipher off es) rest := by
  induction es with
  | nil => intro f off ve pend rest _; simp [encodeAll, encLen, withVptrs]
  | cons e es ih =>
    intro f off ve pend rest h
    obtain ⟨wf, hb, hk⟩ := h e (by simp)
    have hkey : e.key ≠ [] := parseTs_ne_zero_key (by rw [hk]; exact hts)
    have hf : (e :: es).length + f = (es.length + f) + 1 := by simp; omega
    simp only [encodeAll, List.append_assoc]
    rw [hf, iterGo_txn fid cipher _ off ts ve pend e _ wf hkey hb (Or.inr hk.symm), hk,
      ih _ _ _ _ _ (fun x hx => h x (by simp [hx]))]
    simp only [withVptrs, encLen, encodeAll, List.length_append, List.append_assoc,
      List.cons_append, List.nil_append]
    congr 1
    omega

/-- One complete unit read in the idle state (`lastCommit = 0`, nothing buffered, everything
    before it valid) is delivered, and the loop is idle again right after it. -/
theorem iterGo_unit (u : LogUnit) (wf : u.WF) (f off : Nat) (rest : Bytes) :
    iterGo fid cipher (u.entries.length + f) off 0 off [] (encodeAll cipher off u.entries ++ rest) =
      (iterGo fid cipher f (off + encLen cipher off u.entries) 0
        (off + encLen cipher off u.entries) [] rest).prepend (withVptrs fid cipher off u.payload) := by
  cases u with
  | single e =>
    obtain ⟨wfe, hk, hb, hfin⟩ := wf
    simp only [LogUnit.entries, LogUnit.payload, encodeAll, List.append_nil, List.length_cons,
      List.length_nil, encLen, withVptrs]
    rw [show 0 + 1 + f = f + 1 by omega, iterGo_single fid cipher f off off [] e rest wfe hk hb hfin]
  | txn ts es fin =>
    obtain ⟨hts, hne, hes, wff, hk, hb, hfin, hv⟩ := wf
    cases es with
    | nil => exact absurd rfl hne
    | cons e es =>
      obtain ⟨wfe, hbe, hke⟩ := hes e (by simp)
      have hkey : e.key ≠ [] := parseTs_ne_zero_key (by rw [hke]; exact hts)
      simp only [LogUnit.entries, LogUnit.payload, List.cons_append, encodeAll, List.append_assoc]
      rw [show (e :: (es ++ [fin])).length + f = (es.length + (f + 1)) + 1 by simp; omega,
        iterGo_txn fid cipher _ off 0 off [] e _ wfe hkey hbe (Or.inl rfl), hke,
        encodeAll_append, List.append_assoc,
        iterGo_txnEntries fid cipher ts hts es _ _ _ _ _ (fun x hx => hes x (by simp [hx]))]
      simp only [encodeAll, List.append_nil]
      rw [iterGo_fin fid cipher f _ ts off _ fin rest wff hk hb hfin hv]
      simp only [withVptrs, encLen, encodeAll, encodeAll_append, List.length_append,
        List.nil_append, List.append_nil]
      congr 2 <;> omega

theorem prepend_prepend (a b : Delivered) (r : IterResult) :
    (r.prepend b).prepend a = r.prepend (a ++ b) := by
  simp [IterResult.prepend]

theorem prepend_nil (r : IterResult) : r.prepend [] = r := by
  simp [IterResult.prepend]

theorem unitsEntries_cons (u : LogUnit) (us : List LogUnit) :
    unitsEntries (u :: us) = u.entries ++ unitsEntries us := by
  simp [unitsEntries]

/-- Complete units read in the idle state are all delivered, in order. -/
theorem iterGo_units (us : List LogUnit) : ∀ (f off : Nat) (rest : Bytes), (∀ u ∈ us, u.WF) →
    iterGo fid cipher ((unitsEntries us).length + f) off 0 off []
        (encodeAll cipher off (unitsEntries us) ++ rest) =
      (iterGo fid cipher f (off + encLen cipher off (unitsEntries us)) 0
        (off + encLen cipher off (unitsEntries us)) [] rest).prepend
        (deliveredUnits fid cipher off us) := by
  induction us with
  | nil => intro f off rest _; simp [unitsEntries, encodeAll, encLen, deliveredUnits, prepend_nil]
  | cons u us ih =>
    intro f off rest h
    rw [unitsEntries_cons, encodeAll_append, List.append_assoc, List.length_append,
      Nat.add_assoc, iterGo_unit fid cipher u (h u (by simp)), ih _ _ _ (fun x hx => h x (by simp [hx])),
      prepend_prepend]
    simp only [deliveredUnits, encLen, encodeAll_append, List.length_append, Nat.add_assoc]

/-- What makes the loop stop without delivering anything more, when `lastCommit = lc`: a short
    read, a zero entry, or a record that does not continue / close the open transaction. -/
def Breaks (ks : Nat → UInt8) (lc : Nat) (b : Bytes) : Prop :=
  Torn (safeReadEntry ks b) ∨
  ∃ e hlen, safeReadEntry ks b = .ok (e, hlen) ∧
    (e.key = [] ∨
     (e.metaB &&& bitTxn ≠ 0 ∧ (if lc = 0 then parseTs e.key else lc) ≠ parseTs e.key) ∨
     (e.metaB &&& bitTxn = 0 ∧ e.metaB &&& bitFinTxn ≠ 0 ∧ parseUintDec e.value ≠ some lc) ∨
     (e.metaB &&& bitTxn = 0 ∧ e.metaB &&& bitFinTxn = 0 ∧ lc ≠ 0))

theorem iterGo_breaks (f off lc ve : Nat) (pend : Delivered) (b : Bytes)
    (h : Breaks (cipher off) lc b) :
    iterGo fid cipher (f + 1) off lc ve pend b = ⟨none, [], ve⟩ := by
  rcases h with h | ⟨e, hlen, hr, h⟩
  · exact iterGo_torn fid cipher f off lc ve pend b h
  · simp only [iterGo, hr]
    by_cases hk : e.key = []
    · rw [if_pos hk]
    · rw [if_neg hk]
      rcases h with h | ⟨hb, h⟩ | ⟨hb, hf, h⟩ | ⟨hb, hf, h⟩
      · exact absurd h hk
      · rw [if_pos hb, if_pos h]
      · rw [if_neg (by simp [hb]), if_pos hf]
        cases hv : parseUintDec e.value with
        | none => rfl
        | some t =>
          simp only
          rw [if_pos (by intro heq; apply h; rw [hv, heq])]
      · rw [if_neg (by simp [hb]), if_neg (by simp [hf]), if_pos h]

/-- Records of an open transaction followed by anything that breaks it: nothing is delivered,
    the valid end stays where it was. -/
theorem iterGo_partial (ts : Nat) (hts : ts ≠ 0) (p : List Entry) (hp : ∀ e ∈ p, TxnEntry ts e)
    (f off ve : Nat) (tail : Bytes)
    (hb : Breaks (cipher (off + encLen cipher off p)) (if p = [] then 0 else ts) tail) :
    iterGo fid cipher (p.length + (f + 1)) off 0 ve [] (encodeAll cipher off p ++ tail) =
      ⟨none, [], ve⟩ := by
  cases p with
  | nil =>
    simp only [encodeAll, List.nil_append, List.length_nil, Nat.zero_add]
    simp only [encLen, encodeAll, List.length_nil, Nat.add_zero, if_true] at hb
    exact iterGo_breaks fid cipher f off 0 ve [] tail hb
  | cons e es =>
    obtain ⟨wfe, hbe, hke⟩ := hp e (by simp)
    have hkey : e.key ≠ [] := parseTs_ne_zero_key (by rw [hke]; exact hts)
    simp only [encodeAll, List.append_assoc]
    rw [show (e :: es).length + (f + 1) = (es.length + (f + 1)) + 1 by simp; omega,
      iterGo_txn fid cipher _ off 0 ve [] e _ wfe hkey hbe (Or.inl rfl), hke,
      iterGo_txnEntries fid cipher ts hts es _ _ _ _ _ (fun x hx => hp x (by simp [hx]))]
    apply iterGo_breaks
    simp only [encLen, encodeAll, List.length_append, reduceCtorEq, if_false] at hb
    simpa [encLen, Nat.add_assoc] using hb

theorem encodeEntry_length_pos (ks : Nat → UInt8) (e : Entry) : 0 < (encodeEntry ks e).length := by
  rw [encodeEntry_length]; omega

theorem length_le_encLen (es : List Entry) : ∀ off, es.length ≤ encLen cipher off es := by
  induction es with
  | nil => intro off; simp [encLen, encodeAll]
  | cons e es ih =>
    intro off
    have := ih (off + (encodeEntry (cipher off) e).length)
    have := encodeEntry_length_pos (cipher off) e
    simp only [encLen, encodeAll, List.length_append, List.length_cons] at *
    omega

theorem iterGo_nil (f off lc ve : Nat) (pend : Delivered) :
    iterGo fid cipher (f + 1) off lc ve pend [] = ⟨none, [], ve⟩ := by
  simp [iterGo, safeReadEntry, headerDecodeFrom, readByte]

end
theorem withVptrs_points (fid : Nat) (cipher : Nat → Nat → UInt8) (es : List Entry) :
    ∀ (off : Nat) (more : Bytes), ∀ d ∈ withVptrs fid cipher off es,
      d.2.fid = fid ∧ off ≤ d.2.offset ∧
      ((encodeAll cipher off es ++ more).drop (d.2.offset - off)).take d.2.len =
        encodeEntry (cipher d.2.offset) d.1 := by
  induction es with
  | nil => intro off more d hd; simp [withVptrs] at hd
  | cons x xs ih =>
    intro off more d hd
    simp only [withVptrs, List.mem_cons] at hd
    rcases hd with rfl | hd
    · refine ⟨rfl, Nat.le_refl _, ?_⟩
      simp [encodeAll]
    · obtain ⟨h1, h2, h3⟩ := ih (off + (encodeEntry (cipher off) x).length) more d hd
      refine ⟨h1, by omega, ?_⟩
      simp only [encodeAll, List.append_assoc]
      rw [show d.2.offset - off = (encodeEntry (cipher off) x).length +
          (d.2.offset - (off + (encodeEntry (cipher off) x).length)) by omega,
        ← List.drop_drop, List.drop_left' rfl]
      exact h3

theorem LogUnit.entries_eq_payload (u : LogUnit) : ∃ t, u.entries = u.payload ++ t := by
  cases u with
  | single e => exact ⟨[], by simp [LogUnit.entries, LogUnit.payload]⟩
  | txn ts es fin => exact ⟨[fin], rfl⟩

/-- **Value pointers point at the records.** Every delivered `(entry, vptr)` has `vptr.Fid = fid`
    and the `vptr.Len` bytes at file offset `vptr.Offset` are exactly the encoding of that entry
    (so `decodeEntry` / `valueLog.Read` at the pointer returns it, by `C16_roundtrip`). -/
theorem deliveredUnits_points (fid : Nat) (cipher : Nat → Nat → UInt8) (us : List LogUnit) :
    ∀ (off : Nat) (more : Bytes), ∀ d ∈ deliveredUnits fid cipher off us,
      d.2.fid = fid ∧ off ≤ d.2.offset ∧
      ((encodeAll cipher off (unitsEntries us) ++ more).drop (d.2.offset - off)).take d.2.len =
        encodeEntry (cipher d.2.offset) d.1 := by
  induction us with
  | nil => intro off more d hd; simp [deliveredUnits] at hd
  | cons u us ih =>
    intro off more d hd
    simp only [deliveredUnits, List.mem_append] at hd
    rw [unitsEntries_cons, encodeAll_append, List.append_assoc]
    rcases hd with hd | hd
    · obtain ⟨t, ht⟩ := LogUnit.entries_eq_payload u
      rw [ht, encodeAll_append, List.append_assoc]
      exact withVptrs_points fid cipher u.payload off _ d hd
    · obtain ⟨h1, h2, h3⟩ := ih (off + encLen cipher off u.entries) more d hd
      refine ⟨h1, by omega, ?_⟩
      rw [show d.2.offset - off = encLen cipher off u.entries +
          (d.2.offset - (off + encLen cipher off u.entries)) by omega,
        ← List.drop_drop, List.drop_left' (by rfl : (encodeAll cipher off u.entries).length = encLen cipher off u.entries)]
      exact h3

end Badger
