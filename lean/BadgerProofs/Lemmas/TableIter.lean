import BadgerProofs.Lemmas.Table
/-!
Reader side of C18: the table iterator on a table satisfying `TableOK`.
-/
namespace Badger.Tbl
open Badger

/-- The iterator is positioned on entry `r` of block `j`. -/
structure At (G : List (List Entry)) (it : TIter) (j r : Nat) (g : List Entry) (e : Entry) : Prop where
  gj : G[j]? = some g
  gr : g[r]? = some e
  bpos : it.bpos = j
  inv : BlockInv g it.bi
  idx : it.bi.idx = r
  key : it.bi.key = e.key
  val : it.bi.val = encVS e.vs
  err : it.err = none
  bierr : it.bi.err = none

theorem blockData_length_pos {g : List Entry} (wf : BlockWF g) : (blockData g).length ≠ 0 := by
  obtain ⟨e0, r, rfl⟩ := List.exists_cons_of_ne_nil wf.ne_nil
  simp [blockData, chunks, entryChunk, hdr_length]

/-- `load`: block `j` is read and handed to `op` in a state satisfying the block invariant. -/
theorem load_ok {env : Env} {t : TableCore} {G : List (List Entry)} (ok : TableOK env t G)
    (it : TIter) (j : Nat) (g : List Entry) (hg : G[j]? = some g) (hb : it.bpos = j)
    (op : BlockIter → Option BlockIter) :
    ∃ bi0, BlockInv g bi0 ∧
      it.load env t op = (op bi0).bind fun bi => some { it with bi := bi, err := bi.err } := by
  obtain ⟨b, hblk, hsl, hoffs, _⟩ := ok.blocks j g hg
  unfold TIter.load
  rw [hb, hblk]
  simp only
  unfold BlockIter.setBlock
  rw [hsl]
  simp only [Option.bind_some]
  refine ⟨_, ?_, rfl⟩
  exact ⟨rfl, hoffs, Or.inl rfl, by simp, by simp, by simp⟩

theorem blockOffs_length (g : List Entry) : (blockOffs g).length = g.length := by simp [blockOffs]

/-! ## seekToFirst / seekToLast -/

theorem load_first_ok {env : Env} {t : TableCore} {G : List (List Entry)} (ok : TableOK env t G)
    (it : TIter) (j : Nat) (g : List Entry) (e : Entry) (hg : G[j]? = some g) (he : g[0]? = some e)
    (hb : it.bpos = j) :
    ∃ it', it.load env t BlockIter.seekToFirst = some it' ∧ At G it' j 0 g e ∧
      it'.reversed = it.reversed := by
  obtain ⟨bi0, hinv, hload⟩ := load_ok ok it j g hg hb BlockIter.seekToFirst
  rw [hload]
  have wf := ok.wf g (List.mem_of_getElem? hg)
  obtain ⟨bi', hset, hinv', hk, hv, hidx, herr⟩ := setIdx_ok wf hinv 0 e he
  have : bi0.seekToFirst = some bi' := hset
  rw [this, Option.bind_some]
  exact ⟨_, rfl, ⟨hg, he, hb, hinv', hidx, hk, hv, herr, herr⟩, rfl⟩

theorem load_last_ok {env : Env} {t : TableCore} {G : List (List Entry)} (ok : TableOK env t G)
    (it : TIter) (j : Nat) (g : List Entry) (e : Entry) (hg : G[j]? = some g)
    (he : g[g.length - 1]? = some e) (hb : it.bpos = j) :
    ∃ it', it.load env t BlockIter.seekToLast = some it' ∧ At G it' j (g.length - 1) g e ∧
      it'.reversed = it.reversed := by
  obtain ⟨bi0, hinv, hload⟩ := load_ok ok it j g hg hb BlockIter.seekToLast
  rw [hload]
  have wf := ok.wf g (List.mem_of_getElem? hg)
  obtain ⟨bi', hset, hinv', hk, hv, hidx, herr⟩ := setIdx_ok wf hinv (g.length - 1) e he
  have hgl := lt_of_getElem?_some he
  have : bi0.seekToLast = some bi' := by
    unfold BlockIter.seekToLast
    have : ((bi0.entryOffsets.length : Int) - 1) = ((g.length - 1 : Nat) : Int) := by
      rw [hinv.offs, blockOffs_length]; omega
    rw [this, hset]
  rw [this, Option.bind_some]
  exact ⟨_, rfl, ⟨hg, he, hb, hinv', hidx, hk, hv, herr, herr⟩, rfl⟩

theorem seekToFirst_ok {env : Env} {t : TableCore} {G : List (List Entry)} (ok : TableOK env t G)
    (it : TIter) (g : List Entry) (e : Entry) (hg : G[0]? = some g) (he : g[0]? = some e) :
    ∃ it', it.seekToFirst env t = some it' ∧ At G it' 0 0 g e ∧ it'.reversed = it.reversed := by
  unfold TIter.seekToFirst
  have hnb : ¬ (t.offsetsLength = 0) := by
    rw [ok.nb]; have := lt_of_getElem?_some hg; omega
  simp only [hnb, if_false]
  exact load_first_ok ok _ 0 g e hg he rfl

theorem seekToLast_ok {env : Env} {t : TableCore} {G : List (List Entry)} (ok : TableOK env t G)
    (it : TIter) (g : List Entry) (e : Entry) (hg : G[G.length - 1]? = some g)
    (he : g[g.length - 1]? = some e) :
    ∃ it', it.seekToLast env t = some it' ∧ At G it' (G.length - 1) (g.length - 1) g e ∧
      it'.reversed = it.reversed := by
  unfold TIter.seekToLast
  have hlt := lt_of_getElem?_some hg
  have hnb : ¬ (t.offsetsLength = 0) := by rw [ok.nb]; omega
  simp only [hnb, if_false]
  have hbp : ((t.offsetsLength : Int) - 1) = ((G.length - 1 : Nat) : Int) := by rw [ok.nb]; omega
  exact load_last_ok ok _ (G.length - 1) g e hg he hbp

/-! ## next / prev -/

theorem next_in_block {env : Env} {t : TableCore} {G : List (List Entry)} (ok : TableOK env t G)
    {it : TIter} {j r : Nat} {g : List Entry} {e e' : Entry} (hat : At G it j r g e)
    (he' : g[r + 1]? = some e') :
    ∃ it', it.next env t = some it' ∧ At G it' j (r + 1) g e' ∧ it'.reversed = it.reversed := by
  unfold TIter.next
  have wf := ok.wf g (List.mem_of_getElem? hat.gj)
  have hjl := lt_of_getElem?_some hat.gj
  have h1 : ¬ (it.bpos ≥ (t.offsetsLength : Int)) := by rw [hat.bpos, ok.nb]; omega
  have h2 : ¬ (it.bi.data.length = 0) := by rw [hat.inv.data]; exact blockData_length_pos wf
  simp only [h1, h2, if_false]
  obtain ⟨bi', hset, hinv', hk, hv, hidx, herr⟩ := setIdx_ok wf hat.inv (r + 1) e' he'
  unfold BlockIter.next
  rw [hat.idx]
  have : ((r : Int) + 1) = ((r + 1 : Nat) : Int) := by omega
  rw [this, hset, Option.bind_some]
  have hvalid : bi'.valid = true := by simp [BlockIter.valid, herr]
  simp only [hvalid, Bool.not_true, Bool.false_eq_true, if_false]
  exact ⟨_, rfl, ⟨hat.gj, he', hat.bpos, hinv', hidx, hk, hv, rfl, herr⟩, rfl⟩

theorem next_cross_block {env : Env} {t : TableCore} {G : List (List Entry)} (ok : TableOK env t G)
    {it : TIter} {j r : Nat} {g g' : List Entry} {e e' : Entry} (hat : At G it j r g e)
    (hr : r + 1 = g.length) (hg' : G[j + 1]? = some g') (he' : g'[0]? = some e') :
    ∃ it', it.next env t = some it' ∧ At G it' (j + 1) 0 g' e' ∧ it'.reversed = it.reversed := by
  unfold TIter.next
  have wf := ok.wf g (List.mem_of_getElem? hat.gj)
  have wf' := ok.wf g' (List.mem_of_getElem? hg')
  have hjl := lt_of_getElem?_some hg'
  have h1 : ¬ (it.bpos ≥ (t.offsetsLength : Int)) := by rw [hat.bpos, ok.nb]; omega
  have h2 : ¬ (it.bi.data.length = 0) := by rw [hat.inv.data]; exact blockData_length_pos wf
  simp only [h1, h2, if_false]
  have hoob := setIdx_oob hat.inv ((r : Int) + 1) (Or.inl (by omega))
  unfold BlockIter.next
  rw [hat.idx, hoob.1, Option.bind_some]
  simp only [BlockIter.valid, Option.isNone_some, Bool.not_false, if_true]
  unfold TIter.nextReenter
  have h3 : ¬ (it.bpos + 1 ≥ (t.offsetsLength : Int)) := by rw [hat.bpos, ok.nb]; omega
  simp only [h3, if_false]
  exact load_first_ok ok _ (j + 1) g' e' hg' he' (by simp [hat.bpos])

theorem next_at_end {env : Env} {t : TableCore} {G : List (List Entry)} (ok : TableOK env t G)
    {it : TIter} {j r : Nat} {g : List Entry} {e : Entry} (hat : At G it j r g e)
    (hr : r + 1 = g.length) (hj : j + 1 = G.length) :
    ∃ it', it.next env t = some it' ∧ it'.err = some .eof ∧ it'.reversed = it.reversed := by
  unfold TIter.next
  have wf := ok.wf g (List.mem_of_getElem? hat.gj)
  have h1 : ¬ (it.bpos ≥ (t.offsetsLength : Int)) := by rw [hat.bpos, ok.nb]; omega
  have h2 : ¬ (it.bi.data.length = 0) := by rw [hat.inv.data]; exact blockData_length_pos wf
  simp only [h1, h2, if_false]
  have hoob := setIdx_oob hat.inv ((r : Int) + 1) (Or.inl (by omega))
  unfold BlockIter.next
  rw [hat.idx, hoob.1, Option.bind_some]
  simp only [BlockIter.valid, Option.isNone_some, Bool.not_false, if_true]
  unfold TIter.nextReenter
  have h3 : (it.bpos + 1 ≥ (t.offsetsLength : Int)) := by rw [hat.bpos, ok.nb]; omega
  simp only [h3, if_true]
  exact ⟨_, rfl, rfl, rfl⟩

theorem prev_in_block {env : Env} {t : TableCore} {G : List (List Entry)} (ok : TableOK env t G)
    {it : TIter} {j r : Nat} {g : List Entry} {e e' : Entry} (hat : At G it j (r + 1) g e)
    (he' : g[r]? = some e') :
    ∃ it', it.prev env t = some it' ∧ At G it' j r g e' ∧ it'.reversed = it.reversed := by
  unfold TIter.prev
  have wf := ok.wf g (List.mem_of_getElem? hat.gj)
  have h1 : ¬ (it.bpos < 0) := by rw [hat.bpos]; omega
  have h2 : ¬ (it.bi.data.length = 0) := by rw [hat.inv.data]; exact blockData_length_pos wf
  simp only [h1, h2, if_false]
  obtain ⟨bi', hset, hinv', hk, hv, hidx, herr⟩ := setIdx_ok wf hat.inv r e' he'
  unfold BlockIter.prev
  rw [hat.idx]
  have : (((r + 1 : Nat) : Int) - 1) = (r : Int) := by omega
  rw [this, hset, Option.bind_some]
  have hvalid : bi'.valid = true := by simp [BlockIter.valid, herr]
  simp only [hvalid, Bool.not_true, Bool.false_eq_true, if_false]
  exact ⟨_, rfl, ⟨hat.gj, he', hat.bpos, hinv', hidx, hk, hv, rfl, herr⟩, rfl⟩

theorem prev_cross_block {env : Env} {t : TableCore} {G : List (List Entry)} (ok : TableOK env t G)
    {it : TIter} {j : Nat} {g g' : List Entry} {e e' : Entry} (hat : At G it (j + 1) 0 g e)
    (hg' : G[j]? = some g') (he' : g'[g'.length - 1]? = some e') :
    ∃ it', it.prev env t = some it' ∧ At G it' j (g'.length - 1) g' e' ∧ it'.reversed = it.reversed := by
  unfold TIter.prev
  have wf := ok.wf g (List.mem_of_getElem? hat.gj)
  have wf' := ok.wf g' (List.mem_of_getElem? hg')
  have h1 : ¬ (it.bpos < 0) := by rw [hat.bpos]; omega
  have h2 : ¬ (it.bi.data.length = 0) := by rw [hat.inv.data]; exact blockData_length_pos wf
  simp only [h1, h2, if_false]
  have hoob := setIdx_oob hat.inv (((0 : Nat) : Int) - 1) (Or.inr (by omega))
  unfold BlockIter.prev
  rw [hat.idx, hoob.1, Option.bind_some]
  simp only [BlockIter.valid, Option.isNone_some, Bool.not_false, if_true]
  unfold TIter.prevReenter
  have h3 : ¬ (it.bpos - 1 < 0) := by rw [hat.bpos]; omega
  simp only [h3, if_false]
  have := load_last_ok ok
    ({ it with err := none, bi := { it.bi with idx := ((0 : Nat) : Int) - 1, err := some Err.eof, data := [] },
               bpos := it.bpos - 1 } : TIter) j g' e' hg' he' (by simp [hat.bpos])
  exact this

theorem prev_at_start {env : Env} {t : TableCore} {G : List (List Entry)} (ok : TableOK env t G)
    {it : TIter} {g : List Entry} {e : Entry} (hat : At G it 0 0 g e) :
    ∃ it', it.prev env t = some it' ∧ it'.err = some .eof ∧ it'.reversed = it.reversed := by
  unfold TIter.prev
  have wf := ok.wf g (List.mem_of_getElem? hat.gj)
  have h1 : ¬ (it.bpos < 0) := by rw [hat.bpos]; omega
  have h2 : ¬ (it.bi.data.length = 0) := by rw [hat.inv.data]; exact blockData_length_pos wf
  simp only [h1, h2, if_false]
  have hoob := setIdx_oob hat.inv (((0 : Nat) : Int) - 1) (Or.inr (by omega))
  unfold BlockIter.prev
  rw [hat.idx, hoob.1, Option.bind_some]
  simp only [BlockIter.valid, Option.isNone_some, Bool.not_false, if_true]
  unfold TIter.prevReenter
  have h3 : (it.bpos - 1 < 0) := by rw [hat.bpos]; omega
  simp only [h3, if_true]
  exact ⟨_, rfl, rfl, rfl⟩

end Badger.Tbl

namespace Badger.Tbl
open Badger

/-! ## probe sequences, checksum verification, opening -/

theorem probeAll_inv {es : List Entry} (wf : BlockWF es) : ∀ (ps : List Int) (it : BlockIter),
    BlockInv es it → ∃ it', it.probeAll ps = some it' ∧ BlockInv es it' := by
  intro ps
  induction ps with
  | nil => intro it inv; exact ⟨it, rfl, inv⟩
  | cons p ps ih =>
    intro it inv
    simp only [BlockIter.probeAll]
    by_cases hp : p ≥ es.length ∨ p < 0
    · have := setIdx_oob inv p hp
      rw [this.1]
      exact ih _ this.2
    · have hp0 : 0 ≤ p := by omega
      have hpn : p.toNat < es.length := by omega
      obtain ⟨e, he⟩ := getElem?_some_of_lt es p.toNat hpn
      obtain ⟨it', hset, hinv', _⟩ := setIdx_ok wf inv p.toNat e he
      have : ((p.toNat : Nat) : Int) = p := Int.toNat_of_nonneg hp0
      rw [this] at hset
      rw [hset]
      exact ih _ hinv'

theorem probeAll_append (it : BlockIter) (ps qs : List Int) :
    it.probeAll (ps ++ qs) = (it.probeAll ps).bind fun it' => it'.probeAll qs := by
  induction ps generalizing it with
  | nil => rfl
  | cons p ps ih =>
    simp only [List.cons_append, BlockIter.probeAll]
    cases it.setIdx p with
    | none => rfl
    | some it' => exact ih it'

theorem addEntries_spec : ∀ (es pre : List Entry) (cur : BBlock), (∀ e ∈ pre ++ es, e.key ≠ []) →
    (specBlock pre).addEntries es = some cur → cur = specBlock (pre ++ es) := by
  intro es
  induction es with
  | nil => intro pre cur _ h; simp only [BBlock.addEntries, Option.some.injEq] at h; simp [← h]
  | cons e es ih =>
    intro pre cur hk h
    simp only [BBlock.addEntries] at h
    cases hadd : (specBlock pre).addEntry e.key e.vs with
    | none => simp [hadd] at h
    | some c =>
      simp only [hadd] at h
      have hb : pre = [] ∨ baseOf pre ≠ [] := by
        cases pre with
        | nil => exact Or.inl rfl
        | cons e0 r => exact Or.inr (by simpa [baseOf] using hk e0 (by simp))
      have hc := addEntry_spec pre e hb c hadd
      subst hc
      have := ih (pre ++ [e]) cur (by simpa using hk) h
      simpa using this

theorem verifyChecksum_go_ok {env : Env} {t : TableCore} {G : List (List Entry)} (ok : TableOK env t G) :
    ∀ (fuel i : Nat), TableCore.verifyChecksum.go env t fuel i = some true := by
  intro fuel
  induction fuel with
  | zero => intro i; rfl
  | succ f ih =>
    intro i
    simp only [TableCore.verifyChecksum.go]
    by_cases hi : i ≥ t.offsetsLength
    · simp [hi]
    · simp only [hi, if_false]
      obtain ⟨g, hg⟩ := getElem?_some_of_lt G i (by rw [← ok.nb]; omega)
      obtain ⟨b, hb, _, _, hver⟩ := ok.blocks i g hg
      rw [hb]
      simp only [hver, Bool.not_true, Bool.and_false, Bool.false_eq_true, if_false]
      exact ih (i + 1)

theorem verifyChecksum_ok {env : Env} {t : TableCore} {G : List (List Entry)} (ok : TableOK env t G) :
    t.verifyChecksum env = some true := verifyChecksum_go_ok ok _ _

end Badger.Tbl
