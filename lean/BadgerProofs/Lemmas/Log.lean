import BadgerModel.Log
import BadgerProofs.Lemmas.Varint
import BadgerProofs.Lemmas.Crc
import BadgerProofs.Props.C20Enc
/-!
Lemmas on the log-record model: key-stream XOR is an involution, `safeRead.Entry` accepts an
encoded record (whatever follows it) and rejects every strict prefix of one with a short-read
error, and the one-record steps of the `logFile.iterate` loop.
-/
namespace Badger

theorem xorFrom_length (ks : Nat → UInt8) (b : Bytes) : ∀ i, (xorFrom ks i b).length = b.length := by
  induction b with
  | nil => intro i; rfl
  | cons x xs ih => intro i; simp [xorFrom, ih]

theorem u8_xor_cancel (a k : UInt8) : a ^^^ k ^^^ k = a := by
  rw [UInt8.xor_assoc, UInt8.xor_self, UInt8.xor_zero]

theorem xorFrom_invol (ks : Nat → UInt8) (b : Bytes) : ∀ i, xorFrom ks i (xorFrom ks i b) = b := by
  induction b with
  | nil => intro i; rfl
  | cons x xs ih => intro i; simp [xorFrom, ih, u8_xor_cancel]

theorem xorFrom_noKs (b : Bytes) : ∀ i, xorFrom noKs i b = b := by
  induction b with
  | nil => intro i; rfl
  | cons x xs ih => intro i; simp [xorFrom, ih, noKs]

theorem xorFrom_append (ks : Nat → UInt8) (a b : Bytes) : ∀ i,
    xorFrom ks i (a ++ b) = xorFrom ks i a ++ xorFrom ks (i + a.length) b := by
  induction a with
  | nil => intro i; simp [xorFrom]
  | cons x xs ih => intro i; simp [xorFrom, ih]; congr 1; omega

def Entry.WF (e : Entry) : Prop :=
  e.key.length ≤ 65536 ∧ e.key.length + e.value.length < 2 ^ 32 ∧ e.expiresAt < 2 ^ 64

def hdrLen (e : Entry) : Nat := (headerEncode (entryHeader e)).length

theorem entryHeader_WF (e : Entry) (_h1 : e.key.length + e.value.length < 2 ^ 32)
    (h2 : e.expiresAt < 2 ^ 64) : (entryHeader e).WF := by
  refine ⟨?_, ?_, h2⟩ <;> simp only [entryHeader] <;> apply Nat.mod_lt <;> decide

theorem encodeBody_length (ks : Nat → UInt8) (e : Entry) :
    (encodeBody ks e).length = hdrLen e + e.key.length + e.value.length := by
  simp [encodeBody, hdrLen, xorFrom_length]; omega

theorem encodeEntry_length (ks : Nat → UInt8) (e : Entry) :
    (encodeEntry ks e).length = hdrLen e + e.key.length + e.value.length + 4 := by
  simp [encodeEntry, encodeBody_length]

theorem readFull_append (a r : Bytes) : readFull a.length (a ++ r) = .ok (a, r) := by
  unfold readFull
  cases a with
  | nil => simp
  | cons x xs => simp

theorem beNat_crc (d : Bytes) : beNat (beBytes (crc32c d) 4) = crc32c d :=
  beNat_beBytes _ 4 (by have := crc32c_lt d; have : (256:Nat)^4 = 2^32 := by decide
                        omega)

theorem safeRead_encode (ks : Nat → UInt8) (e : Entry) (rest : Bytes) (wf : e.WF) :
    safeReadEntry ks (encodeEntry ks e ++ rest) = .ok (e, hdrLen e) := by
  obtain ⟨hk, hkv, hexp⟩ := wf
  have hwf := entryHeader_WF e hkv hexp
  have eb : encodeEntry ks e ++ rest = headerEncode (entryHeader e) ++
      (xorFrom ks 0 (e.key ++ e.value) ++ (beBytes (crc32c (encodeBody ks e)) 4 ++ rest)) := by
    simp [encodeEntry, encodeBody]
  have hkl : (entryHeader e).klen = e.key.length := by
    simp only [entryHeader]; exact Nat.mod_eq_of_lt (by omega)
  have hvl : (entryHeader e).vlen = e.value.length := by
    simp only [entryHeader]; exact Nat.mod_eq_of_lt (by omega)
  have hn : ((entryHeader e).klen + (entryHeader e).vlen) % 2 ^ 32 = (xorFrom ks 0 (e.key ++ e.value)).length := by
    rw [hkl, hvl, xorFrom_length, List.length_append]; exact Nat.mod_eq_of_lt hkv
  unfold safeReadEntry
  rw [eb, C20_header_decodeFrom _ _ hwf]
  simp only
  rw [if_neg (by rw [hkl]; omega), hn, readFull_append]
  simp only
  rw [if_neg (by rw [hkl, xorFrom_length, List.length_append]; omega)]
  have h4 : (beBytes (crc32c (encodeBody ks e)) 4).length = 4 := by simp
  have rf := readFull_append (beBytes (crc32c (encodeBody ks e)) 4) rest
  rw [h4] at rf
  rw [rf]
  simp only
  have htake : List.take
      ((headerEncode (entryHeader e) ++ (xorFrom ks 0 (e.key ++ e.value) ++
        (beBytes (crc32c (encodeBody ks e)) 4 ++ rest))).length -
        (xorFrom ks 0 (e.key ++ e.value) ++ (beBytes (crc32c (encodeBody ks e)) 4 ++ rest)).length +
        (xorFrom ks 0 (e.key ++ e.value)).length)
      (headerEncode (entryHeader e) ++ (xorFrom ks 0 (e.key ++ e.value) ++
        (beBytes (crc32c (encodeBody ks e)) 4 ++ rest))) = encodeBody ks e := by
    rw [← List.append_assoc]
    unfold encodeBody
    apply List.take_left'
    simp
  rw [htake, beNat_crc, if_neg (by simp), xorFrom_invol, hkl]
  simp [hdrLen, entryHeader]

theorem take_append_cases (a b : Bytes) (j : Nat) :
    (j < a.length ∧ (a ++ b).take j = a.take j) ∨
    (a.length ≤ j ∧ (a ++ b).take j = a ++ b.take (j - a.length)) := by
  by_cases h : j < a.length
  · exact Or.inl ⟨h, List.take_append_of_le_length (by omega)⟩
  · refine Or.inr ⟨by omega, ?_⟩
    rw [List.take_append, List.take_of_length_le (by omega)]

/-- A strict prefix of an encoded header makes `DecodeFrom` fail with EOF / unexpected EOF. -/
theorem headerDecodeFrom_take (h : Header) (wf : h.WF) (j : Nat) (hj : j < (headerEncode h).length) :
    Torn (headerDecodeFrom ((headerEncode h).take j)) := by
  obtain ⟨hk, hv, he⟩ := wf
  obtain ⟨klen, vlen, exp, m, um⟩ := h
  rw [headerEncode_length] at hj
  simp only at hj hk hv he
  simp only [headerEncode, List.append_assoc]
  match j, hj with
  | 0, _ => exact ⟨.eof, Or.inl rfl, by simp [headerDecodeFrom, readByte]⟩
  | 1, _ => exact ⟨.eof, Or.inl rfl, by simp [headerDecodeFrom, readByte]⟩
  | j + 2, hj =>
    simp only [List.take_succ_cons, headerDecodeFrom, readByte]
    rcases take_append_cases (putUvarint klen) (putUvarint vlen ++ putUvarint exp) j with ⟨h1, e1⟩ | ⟨h1, e1⟩
    · rw [e1]
      obtain ⟨e, te, he⟩ := readUvarint_take klen j h1
      rw [he]; exact ⟨e, te, rfl⟩
    · rw [e1, readUvarint_put klen _ (by omega)]
      simp only
      rcases take_append_cases (putUvarint vlen) (putUvarint exp) (j - (putUvarint klen).length) with ⟨h2, e2⟩ | ⟨h2, e2⟩
      · rw [e2]
        obtain ⟨e, te, he⟩ := readUvarint_take vlen _ h2
        rw [he]; exact ⟨e, te, rfl⟩
      · rw [e2, readUvarint_put vlen _ (by omega)]
        simp only
        obtain ⟨e, te, he⟩ := readUvarint_take exp (j - (putUvarint klen).length - (putUvarint vlen).length) (by omega)
        rw [he]; exact ⟨e, te, rfl⟩

theorem readFull_short (n : Nat) (r : Bytes) (h : r.length < n) : Torn (readFull n r) := by
  unfold readFull
  rw [if_neg (by omega)]
  by_cases h0 : r.length = 0
  · rw [if_pos h0]; exact ⟨.truncate, Or.inr (Or.inr rfl), rfl⟩
  · rw [if_neg h0, if_pos h]; exact ⟨.unexpectedEof, Or.inr (Or.inl rfl), rfl⟩

/-- Every strict prefix of an encoded record is rejected by `safeRead.Entry` with one of the
    short-read errors (never accepted, never an overflow error, never a panic). -/
theorem safeRead_take (ks ks' : Nat → UInt8) (e : Entry) (wf : e.WF) (j : Nat)
    (hj : j < (encodeEntry ks e).length) :
    Torn (safeReadEntry ks' ((encodeEntry ks e).take j)) := by
  obtain ⟨hk, hkv, hexp⟩ := wf
  have hwf := entryHeader_WF e hkv hexp
  rw [encodeEntry_length] at hj
  have eb : encodeEntry ks e = headerEncode (entryHeader e) ++
      (xorFrom ks 0 (e.key ++ e.value) ++ beBytes (crc32c (encodeBody ks e)) 4) := by
    simp [encodeEntry, encodeBody]
  have hkl : (entryHeader e).klen = e.key.length := by
    simp only [entryHeader]; exact Nat.mod_eq_of_lt (by omega)
  have hvl : (entryHeader e).vlen = e.value.length := by
    simp only [entryHeader]; exact Nat.mod_eq_of_lt (by omega)
  have hxl : (xorFrom ks 0 (e.key ++ e.value)).length = e.key.length + e.value.length := by
    rw [xorFrom_length, List.length_append]
  have hn : ((entryHeader e).klen + (entryHeader e).vlen) % 2 ^ 32 = (xorFrom ks 0 (e.key ++ e.value)).length := by
    rw [hkl, hvl, hxl]; exact Nat.mod_eq_of_lt hkv
  rw [eb]
  unfold safeReadEntry
  rcases take_append_cases (headerEncode (entryHeader e)) _ j with ⟨h1, e1⟩ | ⟨h1, e1⟩
  · rw [e1]
    obtain ⟨er, te, he⟩ := headerDecodeFrom_take _ hwf j h1
    rw [he]; exact ⟨er, te, rfl⟩
  · rw [e1, C20_header_decodeFrom _ _ hwf]
    simp only
    rw [if_neg (by rw [hkl]; omega), hn]
    unfold hdrLen at hj
    rcases take_append_cases (xorFrom ks 0 (e.key ++ e.value)) (beBytes (crc32c (encodeBody ks e)) 4)
      (j - (headerEncode (entryHeader e)).length) with ⟨h2, e2⟩ | ⟨h2, e2⟩
    · rw [e2]
      obtain ⟨er, te, he⟩ := readFull_short (xorFrom ks 0 (e.key ++ e.value)).length
        ((xorFrom ks 0 (e.key ++ e.value)).take (j - (headerEncode (entryHeader e)).length))
        (by rw [List.length_take]; omega)
      rw [he]; exact ⟨er, te, rfl⟩
    · rw [e2, readFull_append]
      simp only
      rw [if_neg (by rw [hkl, hxl]; omega)]
      obtain ⟨er, te, he⟩ := readFull_short 4
        ((beBytes (crc32c (encodeBody ks e)) 4).take
          (j - (headerEncode (entryHeader e)).length - (xorFrom ks 0 (e.key ++ e.value)).length))
        (by rw [List.length_take]; simp; omega)
      rw [he]; exact ⟨er, te, rfl⟩

theorem drop_encode (ks : Nat → UInt8) (e : Entry) (rest : Bytes) :
    (encodeEntry ks e ++ rest).drop (hdrLen e + e.key.length + e.value.length + 4) = rest := by
  apply List.drop_left'
  exact encodeEntry_length ks e

section iter
variable (fid : Nat) (cipher : Nat → Nat → UInt8)

theorem iterGo_txn (f off lc ve : Nat) (pend : Delivered) (e : Entry) (rest : Bytes)
    (wf : e.WF) (hk : e.key ≠ []) (hb : e.metaB &&& bitTxn ≠ 0) (hlc : lc = 0 ∨ lc = parseTs e.key) :
    iterGo fid cipher (f + 1) off lc ve pend (encodeEntry (cipher off) e ++ rest) =
      iterGo fid cipher f (off + (encodeEntry (cipher off) e).length) (parseTs e.key) ve
        (pend ++ [(e, ⟨fid, (encodeEntry (cipher off) e).length, off⟩)]) rest := by
  have hlc' : (if lc = 0 then parseTs e.key else lc) = parseTs e.key := by
    rcases hlc with h | h
    · rw [if_pos h]
    · split <;> simp [*]
  simp only [iterGo, safeRead_encode _ e rest wf, if_neg hk, drop_encode, hlc']
  rw [if_pos hb, if_neg (by simp), encodeEntry_length]

theorem iterGo_fin (f off lc ve : Nat) (pend : Delivered) (e : Entry) (rest : Bytes)
    (wf : e.WF) (hk : e.key ≠ []) (hb : e.metaB &&& bitTxn = 0) (hf : e.metaB &&& bitFinTxn ≠ 0)
    (hv : parseUintDec e.value = some lc) :
    iterGo fid cipher (f + 1) off lc ve pend (encodeEntry (cipher off) e ++ rest) =
      (iterGo fid cipher f (off + (encodeEntry (cipher off) e).length) 0
        (off + (encodeEntry (cipher off) e).length) [] rest).prepend pend := by
  simp only [iterGo, safeRead_encode _ e rest wf, if_neg hk, drop_encode]
  rw [if_neg (by simp [hb]), if_pos hf, hv]
  simp only
  rw [if_neg (by simp), encodeEntry_length]

theorem iterGo_single (f off ve : Nat) (pend : Delivered) (e : Entry) (rest : Bytes)
    (wf : e.WF) (hk : e.key ≠ []) (hb : e.metaB &&& bitTxn = 0) (hf : e.metaB &&& bitFinTxn = 0) :
    iterGo fid cipher (f + 1) off 0 ve pend (encodeEntry (cipher off) e ++ rest) =
      (iterGo fid cipher f (off + (encodeEntry (cipher off) e).length) 0
        (off + (encodeEntry (cipher off) e).length) pend rest).prepend
        [(e, ⟨fid, (encodeEntry (cipher off) e).length, off⟩)] := by
  simp only [iterGo, safeRead_encode _ e rest wf, if_neg hk, drop_encode]
  rw [if_neg (by simp [hb]), if_neg (by simp [hf]), if_neg (by simp), encodeEntry_length]

theorem iterGo_torn (f off lc ve : Nat) (pend : Delivered) (b : Bytes)
    (h : Torn (safeReadEntry (cipher off) b)) :
    iterGo fid cipher (f + 1) off lc ve pend b = ⟨none, [], ve⟩ := by
  obtain ⟨e, te, he⟩ := h
  simp only [iterGo, he]
  rcases te with h | h | h <;> subst h <;> rfl

end iter

theorem xorFrom_kv (ks : Nat → UInt8) (a z : Bytes) :
    xorFrom ks 0 (xorFrom ks 0 a ++ z) = a ++ xorFrom ks a.length z := by
  rw [xorFrom_append, xorFrom_invol, xorFrom_length]; simp

/-- `decodeEntry (encodeEntry e) = e`, for the unencrypted file (`ks = noKs`) and for any key
    stream, whatever follows the record in the buffer. -/
theorem decodeEntry_encode (ks : Nat → UInt8) (e : Entry) (rest : Bytes)
    (hkv : e.key.length + e.value.length < 2 ^ 32) (hexp : e.expiresAt < 2 ^ 64) :
    decodeEntry ks (encodeEntry ks e ++ rest) = some e := by
  have hwf := entryHeader_WF e hkv hexp
  have eb : encodeEntry ks e ++ rest = headerEncode (entryHeader e) ++
      (xorFrom ks 0 (e.key ++ e.value) ++ (beBytes (crc32c (encodeBody ks e)) 4 ++ rest)) := by
    simp [encodeEntry, encodeBody]
  have hkl : (entryHeader e).klen = e.key.length := by
    simp only [entryHeader]; exact Nat.mod_eq_of_lt (by omega)
  have hvl : (entryHeader e).vlen = e.value.length := by
    simp only [entryHeader]; exact Nat.mod_eq_of_lt (by omega)
  unfold decodeEntry
  rw [eb, C20_header_roundtrip _ _ hwf]
  simp only
  rw [sliceFrom_append_length _ _ _ rfl]
  simp only
  rw [xorFrom_kv, hkl, hvl, Nat.mod_eq_of_lt hkv]
  rw [if_neg (by simp)]
  have hv : List.drop e.key.length (List.take (e.key.length + e.value.length)
      ((e.key ++ e.value) ++ xorFrom ks (e.key ++ e.value).length
        (beBytes (crc32c (encodeBody ks e)) 4 ++ rest))) = e.value := by
    rw [List.take_left' (by simp)]; simp
  have hkk : List.take e.key.length ((e.key ++ e.value) ++ xorFrom ks (e.key ++ e.value).length
        (beBytes (crc32c (encodeBody ks e)) 4 ++ rest)) = e.key := by
    rw [List.append_assoc]; simp
  rw [hv, hkk]
  simp [entryHeader]

/-- A record whose key‖value region (as stored, i.e. after encryption) was replaced by other
    bytes of the same length, with the stored checksum kept, is rejected with `errTruncate`
    as soon as the CRC of the altered bytes differs from the CRC of the original ones. -/
theorem safeRead_badcrc (ks ks' : Nat → UInt8) (e : Entry) (x' rest : Bytes) (wf : e.WF)
    (hlen : x'.length = e.key.length + e.value.length)
    (hcrc : crc32c (headerEncode (entryHeader e) ++ x') ≠ crc32c (encodeBody ks e)) :
    safeReadEntry ks' (headerEncode (entryHeader e) ++ x' ++
      beBytes (crc32c (encodeBody ks e)) 4 ++ rest) = .error .truncate := by
  obtain ⟨hk, hkv, hexp⟩ := wf
  have hwf := entryHeader_WF e hkv hexp
  have hkl : (entryHeader e).klen = e.key.length := by
    simp only [entryHeader]; exact Nat.mod_eq_of_lt (by omega)
  have hvl : (entryHeader e).vlen = e.value.length := by
    simp only [entryHeader]; exact Nat.mod_eq_of_lt (by omega)
  have hn : ((entryHeader e).klen + (entryHeader e).vlen) % 2 ^ 32 = x'.length := by
    rw [hkl, hvl, hlen]; exact Nat.mod_eq_of_lt hkv
  unfold safeReadEntry
  rw [List.append_assoc, List.append_assoc, C20_header_decodeFrom _ _ hwf]
  simp only
  rw [if_neg (by rw [hkl]; omega), hn, readFull_append]
  simp only
  rw [if_neg (by rw [hkl]; omega)]
  have rf := readFull_append (beBytes (crc32c (encodeBody ks e)) 4) rest
  rw [show (beBytes (crc32c (encodeBody ks e)) 4).length = 4 by simp] at rf
  rw [rf]
  simp only
  have htake : List.take
      ((headerEncode (entryHeader e) ++ (x' ++ (beBytes (crc32c (encodeBody ks e)) 4 ++ rest))).length -
        (x' ++ (beBytes (crc32c (encodeBody ks e)) 4 ++ rest)).length + x'.length)
      (headerEncode (entryHeader e) ++ (x' ++ (beBytes (crc32c (encodeBody ks e)) 4 ++ rest))) =
        headerEncode (entryHeader e) ++ x' := by
    rw [← List.append_assoc]
    apply List.take_left'
    simp
  rw [htake, beNat_crc, if_pos (Ne.symm hcrc)]

/-- Position form: the encoded record is `pre ++ a :: suf` with the byte `a` inside the
    key‖value region; replacing `a` by any other byte gives a record that is rejected. No CRC
    hypothesis: a single-byte change always changes CRC32-C (`crc32c_single_byte`). -/
theorem safeRead_single_byte (ks ks' : Nat → UInt8) (e : Entry) (wf : e.WF)
    (pre suf rest : Bytes) (a b : UInt8) (henc : encodeEntry ks e = pre ++ a :: suf)
    (hlo : hdrLen e ≤ pre.length) (hhi : pre.length < hdrLen e + e.key.length + e.value.length)
    (hab : b ≠ a) :
    safeReadEntry ks' (pre ++ b :: suf ++ rest) = .error .truncate := by
  -- split the key‖value region at the position
  let H := headerEncode (entryHeader e)
  let X := xorFrom ks 0 (e.key ++ e.value)
  let C := beBytes (crc32c (encodeBody ks e)) 4
  have hX : X.length = e.key.length + e.value.length := by simp [X, xorFrom_length]
  have hH : H.length = hdrLen e := rfl
  have eb : encodeEntry ks e = H ++ (X ++ C) := by simp [encodeEntry, encodeBody, H, X, C]
  let i := pre.length - H.length
  have hi : i < X.length := by simp only [i]; omega
  have hpre : pre = H ++ X.take i := by
    have h1 : pre = (encodeEntry ks e).take pre.length := by rw [henc]; simp
    rw [h1, eb]
    rcases take_append_cases H (X ++ C) pre.length with ⟨h, _⟩ | ⟨_, e2⟩
    · omega
    · rw [e2, List.take_append_of_le_length (by omega)]
  have hdrop : a :: suf = X.drop i ++ C := by
    have h1 : a :: suf = (encodeEntry ks e).drop pre.length := by rw [henc]; simp
    rw [h1, eb, List.drop_append, List.drop_of_length_le (by omega : H.length ≤ pre.length)]
    simp only [List.nil_append]
    rw [List.drop_append_of_le_length (by omega)]
  have hXi : X.drop i = X[i] :: X.drop (i + 1) := List.drop_eq_getElem_cons hi
  rw [hXi] at hdrop
  simp only [List.cons_append, List.cons.injEq] at hdrop
  obtain ⟨ha, hsuf⟩ := hdrop
  have hXsplit : X = X.take i ++ a :: X.drop (i + 1) := by
    rw [ha, ← hXi]; simp
  have hbody : encodeBody ks e = (H ++ X.take i) ++ a :: X.drop (i + 1) := by
    have : encodeBody ks e = H ++ X := rfl
    rw [this, List.append_assoc, ← hXsplit]
  have key := safeRead_badcrc ks ks' e (X.take i ++ b :: X.drop (i + 1)) rest wf
    (by simp [List.length_take]; omega)
    (by
      rw [hbody, ← List.append_assoc]
      exact crc32c_single_byte _ _ b a hab)
  have : pre ++ b :: suf ++ rest =
      headerEncode (entryHeader e) ++ (X.take i ++ b :: X.drop (i + 1)) ++
        beBytes (crc32c (encodeBody ks e)) 4 ++ rest := by
    rw [hpre, hsuf]; simp [H, C]
  rw [this]; exact key

end Badger
