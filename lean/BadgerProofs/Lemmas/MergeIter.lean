import BadgerModel.Merge
import BadgerProofs.Lemmas.MergeLists
/-!
# One `MergeIterator` level over arbitrary children (C21 core lemma)

`IterSpec ops cmp all`: the iterator with method table `ops` behaves as a cursor over the list
`all` (entries in *iteration order*, strictly sorted under `cmp`): there is a relation
`R s L` ("state `s` is positioned with remaining entries `L`") that every method respects.

`mergeIterSpec`: if both children of a `MergeIterator` satisfy `IterSpec` (for `allA`, `allB`)
then so does the `MergeIterator`, for `mergeLists cmp allA allB`.  Children are arbitrary,
in particular other `MergeIterator`s, so nesting depth is unbounded.
-/
namespace Badger

structure IterSpec {σ : Type} (ops : IterOps σ) (cmp : Bytes → Bytes → Ordering)
    (all : List ItEntry) where
  R : σ → List ItEntry → Prop
  sorted_all : SortedBy cmp all
  R_sorted : ∀ {s L}, R s L → SortedBy cmp L
  rewind : ∀ {s L}, R s L → R (ops.rewind s) all
  seek : ∀ {s L} (k : Bytes), R s L → R (ops.seek k s) (all.dropWhile (fun e => cmp e.key k == .lt))
  next : ∀ {s e L}, R s (e :: L) → R (ops.next s) L
  next_nil : ∀ {s}, R s [] → R (ops.next s) []
  valid : ∀ {s L}, R s L → ops.valid s = !L.isEmpty
  key : ∀ {s e L}, R s (e :: L) → ops.key s = e.key
  value : ∀ {s e L}, R s (e :: L) → ops.value s = e.val

/-! ## Sources -/

theorem dcmp_true : dcmp true = fun a b => compareKeys b a := by
  funext a b; simp [dcmp]

theorem dcmp_false : dcmp false = compareKeys := by
  funext a b; simp [dcmp]

theorem sortedBy_dirItems (items : List ItEntry) (rev : Bool) (hs : SortedBy compareKeys items) :
    SortedBy (dcmp rev) (if rev then items.reverse else items) := by
  cases rev
  · simpa [dcmp_false] using hs
  · rw [dcmp_true]; simpa using sortedBy_reverse.mpr hs

theorem SortedBy.sublist {cmp : Bytes → Bytes → Ordering} {l l' : List ItEntry}
    (h : SortedBy cmp l) (hs : l'.Sublist l) : SortedBy cmp l' :=
  List.Pairwise.sublist hs h

/-- A slice-backed source over a strictly sorted list is a cursor over it. -/
def sourceSpec (items : List ItEntry) (rev : Bool) (hs : SortedBy compareKeys items) :
    IterSpec Source.ops (dcmp rev) (if rev then items.reverse else items) where
  R s L := s.items = items ∧ s.reverse = rev ∧ s.rest = L ∧ SortedBy (dcmp rev) L
  sorted_all := sortedBy_dirItems items rev hs
  R_sorted h := h.2.2.2
  rewind := by
    rintro ⟨i, r, rest⟩ L ⟨h1, h2, _, _⟩
    simp only at h1 h2; subst h1; subst h2
    exact ⟨rfl, rfl, rfl, sortedBy_dirItems _ _ hs⟩
  seek := by
    rintro ⟨i, r, rest⟩ L k ⟨h1, h2, _, _⟩
    simp only at h1 h2; subst h1; subst h2
    exact ⟨rfl, rfl, rfl, (sortedBy_dirItems _ _ hs).sublist (List.dropWhile_sublist _)⟩
  next := by
    rintro ⟨i, r, rest⟩ e L ⟨h1, h2, h3, h4⟩
    simp only at h1 h2 h3; subst h1; subst h2; subst h3
    exact ⟨rfl, rfl, rfl, h4.tail⟩
  next_nil := by
    rintro ⟨i, r, rest⟩ ⟨h1, h2, h3, h4⟩
    simp only at h1 h2 h3; subst h1; subst h2; subst h3
    exact ⟨rfl, rfl, rfl, h4⟩
  valid := by
    rintro ⟨i, r, rest⟩ L ⟨_, _, h3, _⟩
    simp only at h3; subst h3; rfl
  key := by
    rintro ⟨i, r, rest⟩ e L ⟨_, _, h3, _⟩
    simp only at h3; subst h3; rfl
  value := by
    rintro ⟨i, r, rest⟩ e L ⟨_, _, h3, _⟩
    simp only at h3; subst h3; rfl

/-! ## One merge level -/

section Level
variable {α β : Type} {A : IterOps α} {B : IterOps β} {cmp : Bytes → Bytes → Ordering}
  {allA allB : List ItEntry}

/-- the cached `valid`/`key` of a node agree with a child positioned at `L` -/
def NodeOK {σ : Type} (n : MNode σ) (L : List ItEntry) : Prop :=
  n.valid = !L.isEmpty ∧ ∀ e L', L = e :: L' → n.key = e.key

theorem nodeOK_setKey {σ : Type} {o : IterOps σ} {all : List ItEntry} (S : IterSpec o cmp all)
    (n : MNode σ) {L : List ItEntry} (h : S.R n.iter L) : NodeOK (n.setKey o) L := by
  unfold MNode.setKey NodeOK
  cases L with
  | nil => simp [S.valid h]
  | cons e L' => simp [S.valid h, S.key h]

@[simp] theorem setKey_iter {σ : Type} (o : IterOps σ) (n : MNode σ) : (n.setKey o).iter = n.iter := rfl

/-- `small` points to the node that comes first in iteration order; heads differ. -/
def Fixed (cmp : Bytes → Bytes → Ordering) (sl : Bool) : List ItEntry → List ItEntry → Prop
  | [], [] => True
  | _ :: _, [] => sl = true
  | [], _ :: _ => sl = false
  | a :: _, b :: _ => (sl = true ∧ cmp a.key b.key = .lt) ∨ (sl = false ∧ cmp a.key b.key = .gt)

/-- children positioned at `Ll`, `Lr`; node caches consistent; direction flag right -/
structure Pre (SA : IterSpec A cmp allA) (SB : IterSpec B cmp allB) (rev : Bool)
    (m : MergeSt α β) (Ll Lr : List ItEntry) : Prop where
  hl : SA.R m.left.iter Ll
  hr : SB.R m.right.iter Lr
  nl : NodeOK m.left Ll
  nr : NodeOK m.right Lr
  hrev : m.reverse = rev

def MergeR (SA : IterSpec A cmp allA) (SB : IterSpec B cmp allB) (rev : Bool)
    (m : MergeSt α β) (L : List ItEntry) : Prop :=
  ∃ Ll Lr, Pre SA SB rev m Ll Lr ∧ Fixed cmp m.smallLeft Ll Lr ∧ m.curKey = m.smallKey ∧
    L = mergeLists cmp Ll Lr

/-- `fix` with the two direction-dependent arms folded into one comparison under `dcmp`. -/
theorem fix_eq (m : MergeSt α β) :
    MergeSt.fix A B m =
      if !m.biggerValid then m
      else if !m.smallValid then m.swapSmall
      else match dcmp m.reverse m.smallKey m.biggerKey with
        | .eq =>
          let m' := { m with right := m.right.next B }
          if !m'.smallLeft then m'.swapSmall else m'
        | .lt => m
        | .gt => m.swapSmall := by
  unfold MergeSt.fix dcmp
  have hsw := compareKeys_total.swap m.smallKey m.biggerKey
  cases hr : m.reverse <;> simp only [Bool.false_eq_true, if_false, if_true]
  · rfl
  · rw [← hsw]
    split <;> try rfl
    split <;> try rfl
    cases compareKeys m.smallKey m.biggerKey <;> simp [Ordering.swap]

variable (T : TotalCmp cmp) (SA : IterSpec A cmp allA) (SB : IterSpec B cmp allB) (rev : Bool)
  (hcmp : cmp = dcmp rev)
include T hcmp

/-- `fix` re-establishes `Fixed` from any position of `small`, without changing the merge. -/
theorem fix_spec {m : MergeSt α β} {Ll Lr : List ItEntry} (hp : Pre SA SB rev m Ll Lr) :
    ∃ Ll' Lr', Pre SA SB rev (MergeSt.fix A B m) Ll' Lr' ∧
      Fixed cmp (MergeSt.fix A B m).smallLeft Ll' Lr' ∧
      mergeLists cmp Ll' Lr' = mergeLists cmp Ll Lr ∧
      (MergeSt.fix A B m).curKey = m.curKey := by
  obtain ⟨hl, hr, ⟨nlv, nlk⟩, ⟨nrv, nrk⟩, hrev⟩ := hp
  subst hrev
  rw [fix_eq, ← hcmp]
  obtain ⟨left, right, sl, ck, rv⟩ := m
  simp only at hl hr nlv nlk nrv nrk hcmp ⊢
  cases Ll with
  | nil =>
    cases Lr with
    | nil =>
      refine ⟨[], [], ?_, ?_, rfl, ?_⟩ <;>
        cases sl <;> simp_all [MergeSt.biggerValid, Fixed] <;>
        exact ⟨hl, hr, ⟨by simp [nlv], by simp⟩, ⟨by simp [nrv], by simp⟩, rfl⟩
    | cons b r =>
      refine ⟨[], b :: r, ?_, ?_, rfl, ?_⟩ <;>
        cases sl <;>
        simp_all [MergeSt.biggerValid, MergeSt.smallValid, Fixed, MergeSt.swapSmall] <;>
        exact ⟨hl, hr, ⟨by simp [nlv], by simp⟩, ⟨by simp [nrv], by simpa using nrk⟩, rfl⟩
  | cons a l =>
    cases Lr with
    | nil =>
      refine ⟨a :: l, [], ?_, ?_, rfl, ?_⟩ <;>
        cases sl <;>
        simp_all [MergeSt.biggerValid, MergeSt.smallValid, Fixed, MergeSt.swapSmall] <;>
        exact ⟨hl, hr, ⟨by simp [nlv], by simpa using nlk⟩, ⟨by simp [nrv], by simp⟩, rfl⟩
    | cons b r =>
      have hlk : left.key = a.key := nlk a l rfl
      have hrk : right.key = b.key := nrk b r rfl
      have hlv : left.valid = true := by simp [nlv]
      have hrv : right.valid = true := by simp [nrv]
      have hpre : Pre SA SB rv ⟨left, right, sl, ck, rv⟩ (a :: l) (b :: r) :=
        ⟨hl, hr, ⟨nlv, nlk⟩, ⟨nrv, nrk⟩, rfl⟩
      have hpre' : ∀ sl', Pre SA SB rv ⟨left, right, sl', ck, rv⟩ (a :: l) (b :: r) :=
        fun _ => ⟨hl, hr, ⟨nlv, nlk⟩, ⟨nrv, nrk⟩, rfl⟩
      -- the state after `mi.right.next()`
      have hnext : ∀ sl', Pre SA SB rv ⟨left, right.next B, sl', ck, rv⟩ (a :: l) r :=
        fun _ => ⟨hl, SB.next hr, ⟨nlv, nlk⟩, nodeOK_setKey SB _ (SB.next hr), rfl⟩
      have hfix_eq : ∀ (h : cmp a.key b.key = .eq), Fixed cmp true (a :: l) r := by
        intro h
        cases r with
        | nil => simp [Fixed]
        | cons b' r' =>
          have : cmp a.key b'.key = .lt := by
            rw [(T.eq_iff _ _).mp h]; exact (SB.R_sorted hr).head_lt b' (by simp)
          simp [Fixed, this]
      cases sl
      · -- small = right: compare b with a
        simp only [MergeSt.biggerValid, MergeSt.smallValid, MergeSt.smallKey, MergeSt.biggerKey,
          hlv, hrv, hlk, hrk, Bool.false_eq_true, if_false, Bool.not_true, MergeSt.swapSmall,
          Bool.not_false, if_true]
        cases hc : cmp b.key a.key
        · -- b < a: stay
          refine ⟨a :: l, b :: r, hpre' _, ?_, rfl, rfl⟩
          simp [Fixed, (T.gt_iff _ _).mpr hc]
        · -- equal
          dsimp only
          have hab : cmp a.key b.key = .eq := by rw [(T.eq_iff _ _).mp hc]; exact T.refl _
          exact ⟨a :: l, r, hnext _, hfix_eq hab,
            (mergeLists_drop_right_eq T hab (SB.R_sorted hr)).symm, rfl⟩
        · -- b > a: swap
          refine ⟨a :: l, b :: r, hpre' _, ?_, rfl, rfl⟩
          simp [Fixed, (T.gt_iff _ _).mp hc]
      · simp only [MergeSt.biggerValid, MergeSt.smallValid, MergeSt.smallKey, MergeSt.biggerKey,
          hlv, hrv, hlk, hrk, if_true, Bool.not_true, Bool.false_eq_true, if_false,
          MergeSt.swapSmall]
        cases hc : cmp a.key b.key
        · refine ⟨a :: l, b :: r, hpre' _, ?_, rfl, rfl⟩
          simp [Fixed, hc]
        · dsimp only
          exact ⟨a :: l, r, hnext _, hfix_eq hc,
            (mergeLists_drop_right_eq T hc (SB.R_sorted hr)).symm, rfl⟩
        · refine ⟨a :: l, b :: r, hpre' _, ?_, rfl, rfl⟩
          simp [Fixed, hc]

omit T hcmp in
theorem pre_of_fields {m m' : MergeSt α β} {Ll Lr : List ItEntry} (hp : Pre SA SB rev m Ll Lr)
    (h1 : m'.left = m.left) (h2 : m'.right = m.right) (h3 : m'.reverse = m.reverse) :
    Pre SA SB rev m' Ll Lr :=
  ⟨h1 ▸ hp.hl, h2 ▸ hp.hr, h1 ▸ hp.nl, h2 ▸ hp.nr, h3 ▸ hp.hrev⟩

omit T hcmp in
/-- In a fixed state the `small` node shows the head of the merge. -/
theorem small_head {m : MergeSt α β} {Ll Lr : List ItEntry} (hp : Pre SA SB rev m Ll Lr)
    (hf : Fixed cmp m.smallLeft Ll Lr) :
    m.smallValid = !(mergeLists cmp Ll Lr).isEmpty ∧
    ∀ e L, mergeLists cmp Ll Lr = e :: L →
      m.smallKey = e.key ∧ MergeSt.value A B m = e.val := by
  obtain ⟨hl, hr, ⟨nlv, nlk⟩, ⟨nrv, nrk⟩, hrev⟩ := hp
  unfold MergeSt.smallValid MergeSt.smallKey MergeSt.value
  cases Ll with
  | nil =>
    cases Lr with
    | nil => cases h : m.smallLeft <;> simp_all
    | cons b r =>
      have hsl : m.smallLeft = false := by simpa [Fixed] using hf
      simp only [hsl, Bool.false_eq_true, if_false, mergeLists_nil_left]
      refine ⟨by simp [nrv], ?_⟩
      intro e L he
      injection he with h1 h2; subst h1
      exact ⟨nrk _ _ rfl, SB.value hr⟩
  | cons a l =>
    cases Lr with
    | nil =>
      have hsl : m.smallLeft = true := by simpa [Fixed] using hf
      simp only [hsl, if_true, mergeLists_nil_right]
      refine ⟨by simp [nlv], ?_⟩
      intro e L he
      injection he with h1 h2; subst h1
      exact ⟨nlk _ _ rfl, SA.value hl⟩
    | cons b r =>
      rcases hf with ⟨hsl, hc⟩ | ⟨hsl, hc⟩
      · simp only [hsl, if_true, mergeLists_cons_lt hc]
        refine ⟨by simp [nlv], ?_⟩
        intro e L he
        injection he with h1 h2; subst h1
        exact ⟨nlk _ _ rfl, SA.value hl⟩
      · simp only [hsl, Bool.false_eq_true, if_false, mergeLists_cons_gt hc]
        refine ⟨by simp [nrv], ?_⟩
        intro e L he
        injection he with h1 h2; subst h1
        exact ⟨nrk _ _ rfl, SB.value hr⟩

omit T hcmp in
/-- `mi.small.next()` in a fixed state pops the head of the merge. -/
theorem smallNext_pre {m : MergeSt α β} {Ll Lr : List ItEntry} {e : ItEntry} {L : List ItEntry}
    (hp : Pre SA SB rev m Ll Lr) (hf : Fixed cmp m.smallLeft Ll Lr)
    (hm : mergeLists cmp Ll Lr = e :: L) :
    ∃ Ll' Lr', Pre SA SB rev (MergeSt.smallNext A B m) Ll' Lr' ∧ mergeLists cmp Ll' Lr' = L ∧
      (MergeSt.smallNext A B m).curKey = m.curKey := by
  obtain ⟨hl, hr, nl, nr, hrev⟩ := hp
  unfold MergeSt.smallNext
  cases Ll with
  | nil =>
    cases Lr with
    | nil => simp at hm
    | cons b r =>
      have hsl : m.smallLeft = false := by simpa [Fixed] using hf
      simp only [hsl, Bool.false_eq_true, if_false]
      simp only [mergeLists_nil_left] at hm
      injection hm with h1 h2; subst h1; subst h2
      exact ⟨[], r, ⟨hl, SB.next hr, nl, nodeOK_setKey SB _ (SB.next hr), hrev⟩, by simp, trivial⟩
  | cons a l =>
    cases Lr with
    | nil =>
      have hsl : m.smallLeft = true := by simpa [Fixed] using hf
      simp only [hsl, if_true]
      simp only [mergeLists_nil_right] at hm
      injection hm with h1 h2; subst h1; subst h2
      exact ⟨l, [], ⟨SA.next hl, hr, nodeOK_setKey SA _ (SA.next hl), nr, hrev⟩, by simp, trivial⟩
    | cons b r =>
      rcases hf with ⟨hsl, hc⟩ | ⟨hsl, hc⟩
      · simp only [hsl, if_true]
        rw [mergeLists_cons_lt hc] at hm
        injection hm with h1 h2; subst h1; subst h2
        exact ⟨l, b :: r, ⟨SA.next hl, hr, nodeOK_setKey SA _ (SA.next hl), nr, hrev⟩, rfl, trivial⟩
      · simp only [hsl, Bool.false_eq_true, if_false]
        rw [mergeLists_cons_gt hc] at hm
        injection hm with h1 h2; subst h1; subst h2
        exact ⟨a :: l, r, ⟨hl, SB.next hr, nl, nodeOK_setKey SB _ (SB.next hr), hrev⟩, rfl, trivial⟩

omit T hcmp in
theorem nextLoop_of_not_cond {m : MergeSt α β} (h : m.loopCond = false) (n : Nat) :
    MergeSt.nextLoop A B n m = m := by
  cases n <;> simp [MergeSt.nextLoop, h]

omit T hcmp in
theorem mergeR_setCurrent {m : MergeSt α β} {Ll Lr : List ItEntry} (hp : Pre SA SB rev m Ll Lr)
    (hf : Fixed cmp m.smallLeft Ll Lr) :
    MergeR SA SB rev m.setCurrent (mergeLists cmp Ll Lr) :=
  ⟨Ll, Lr, pre_of_fields SA SB rev hp rfl rfl rfl, hf, rfl, rfl⟩

/-- One call of `Next` in a positioned state: the loop body runs exactly once and the loop
    is left through its own condition. -/
theorem nextLoop_cons {m : MergeSt α β} {e : ItEntry} {L : List ItEntry}
    (h : MergeR SA SB rev m (e :: L)) (n : Nat) :
    ∃ Ll Lr, Pre SA SB rev (MergeSt.nextLoop A B (n + 1) m) Ll Lr ∧
      Fixed cmp (MergeSt.nextLoop A B (n + 1) m).smallLeft Ll Lr ∧
      mergeLists cmp Ll Lr = L ∧ (MergeSt.nextLoop A B (n + 1) m).loopCond = false := by
  obtain ⟨Ll, Lr, hp, hf, hck, hL⟩ := h
  have hsorted : SortedBy cmp (e :: L) := by
    rw [hL]; exact sortedBy_mergeLists T (SA.R_sorted hp.hl) (SB.R_sorted hp.hr)
  have sh := small_head SA SB rev hp hf
  rw [← hL] at sh
  have hcond : m.loopCond = true := by
    unfold MergeSt.loopCond
    rw [sh.1, hck]; simp
  obtain ⟨Ll1, Lr1, hp1, hm1, hck1⟩ := smallNext_pre SA SB rev hp hf hL.symm
  obtain ⟨Ll2, Lr2, hp2, hf2, hm2, hck2⟩ := fix_spec T SA SB rev hcmp hp1
  have hstep : MergeSt.nextLoop A B (n + 1) m =
      MergeSt.nextLoop A B n (MergeSt.fix A B (MergeSt.smallNext A B m)) := by
    simp [MergeSt.nextLoop, hcond]
  have hexit : (MergeSt.fix A B (MergeSt.smallNext A B m)).loopCond = false := by
    have sh2 := small_head SA SB rev hp2 hf2
    rw [hm2, hm1] at sh2
    unfold MergeSt.loopCond
    cases L with
    | nil => simp [sh2.1]
    | cons x L' =>
      have hk := (sh2.2 x L' rfl).1
      have hlt := hsorted.head_lt x (by simp)
      have hne : x.key ≠ e.key := fun h => T.lt_irrefl _ (h ▸ hlt)
      rw [hk, hck2, hck1, hck, (sh.2 e (x :: L') rfl).1]
      simp [hne]
  rw [hstep, nextLoop_of_not_cond hexit]
  exact ⟨Ll2, Lr2, hp2, hf2, hm2.trans hm1, hexit⟩

/-- **C21 core**: a `MergeIterator` whose children are cursors over `allA`, `allB`
    (strictly sorted in iteration order) is a cursor over `mergeLists cmp allA allB`. -/
def mergeIterSpec : IterSpec (MergeSt.ops A B) cmp (mergeLists cmp allA allB) where
  R := MergeR SA SB rev
  sorted_all := sortedBy_mergeLists T SA.sorted_all SB.sorted_all
  R_sorted := by
    rintro m L ⟨Ll, Lr, hp, _, _, rfl⟩
    exact sortedBy_mergeLists T (SA.R_sorted hp.hl) (SB.R_sorted hp.hr)
  rewind := by
    rintro m L ⟨Ll, Lr, hp, _, _, _⟩
    have hp1 : Pre SA SB rev { m with left := m.left.rewind A, right := m.right.rewind B }
        allA allB :=
      ⟨SA.rewind hp.hl, SB.rewind hp.hr, nodeOK_setKey SA _ (SA.rewind hp.hl),
        nodeOK_setKey SB _ (SB.rewind hp.hr), hp.hrev⟩
    obtain ⟨Ll2, Lr2, hp2, hf2, hm2, _⟩ := fix_spec T SA SB rev hcmp hp1
    rw [← hm2]
    exact mergeR_setCurrent SA SB rev hp2 hf2
  seek := by
    rintro m L k ⟨Ll, Lr, hp, _, _, _⟩
    have hp1 : Pre SA SB rev { m with left := m.left.seek A k, right := m.right.seek B k }
        (allA.dropWhile (fun e => cmp e.key k == .lt))
        (allB.dropWhile (fun e => cmp e.key k == .lt)) :=
      ⟨SA.seek k hp.hl, SB.seek k hp.hr, nodeOK_setKey SA _ (SA.seek k hp.hl),
        nodeOK_setKey SB _ (SB.seek k hp.hr), hp.hrev⟩
    obtain ⟨Ll2, Lr2, hp2, hf2, hm2, _⟩ := fix_spec T SA SB rev hcmp hp1
    rw [dropWhile_mergeLists T, ← hm2]
    exact mergeR_setCurrent SA SB rev hp2 hf2
  next := by
    intro m e L h
    obtain ⟨Ll, Lr, hp, hf, hm, _⟩ := nextLoop_cons T SA SB rev hcmp h (MergeSt.size A B m)
    rw [← hm]
    exact mergeR_setCurrent SA SB rev hp hf
  next_nil := by
    rintro m ⟨Ll, Lr, hp, hf, hck, hL⟩
    have sh := small_head SA SB rev hp hf
    rw [← hL] at sh
    have hcond : m.loopCond = false := by unfold MergeSt.loopCond; simp [sh.1]
    show MergeR SA SB rev (MergeSt.next A B m) []
    unfold MergeSt.next
    rw [nextLoop_of_not_cond hcond, hL]
    exact mergeR_setCurrent SA SB rev hp hf
  valid := by
    rintro m L ⟨Ll, Lr, hp, hf, _, rfl⟩
    exact (small_head SA SB rev hp hf).1
  key := by
    rintro m e L ⟨Ll, Lr, hp, hf, _, hL⟩
    exact ((small_head SA SB rev hp hf).2 e L hL.symm).1
  value := by
    rintro m e L ⟨Ll, Lr, hp, hf, _, hL⟩
    exact ((small_head SA SB rev hp hf).2 e L hL.symm).2

/-- The freshly constructed `MergeIterator` (`small = &left`, zero nodes) over children that
    are positioned at the end is itself positioned at the end. -/
theorem mergeR_init {a : α} {b : β} (ha : SA.R a []) (hb : SB.R b []) :
    (mergeIterSpec T SA SB rev hcmp).R
      { left := ⟨false, [], a⟩, right := ⟨false, [], b⟩, smallLeft := true, curKey := [],
        reverse := rev } [] :=
  ⟨[], [], ⟨ha, hb, ⟨rfl, by simp⟩, ⟨rfl, by simp⟩, rfl⟩, by simp [Fixed], rfl, by simp⟩

end Level
end Badger
