import BadgerProofs.Lemmas.PowerStep3
/-!
# Preservation of `PInv` by every scheduler step
-/
namespace Badger

/-- a file that is neither a `.mem`, a `.sst` nor the MANIFEST changes -/
theorem PCore_qupd_frame (R : ViewRel) (s : PState) (Q : QFs) (h : PCore R s Q) (p : Path) (v : PV)
    (h1 : ∀ n, p ≠ .mem n) (h2 : ∀ n, p ≠ .sst n) (h3 : p ≠ .manifest) : PCore R s (qupd Q p v) := by
  have hm : memQ (qupd Q p v) = memQ Q := by
    funext n; simp only [memQ, qupd]; rw [if_neg (fun e => h1 n e.symm)]
  have hs : sstQ (qupd Q p v) = sstQ Q := by
    funext n; simp only [sstQ, qupd]; rw [if_neg (fun e => h2 n e.symm)]
  exact ⟨by rw [qupd_ne _ _ _ _ (fun e => h3 e.symm)]; exact h.man, by rw [hs]; exact h.sst, by rw [hm]; exact h.mem, h.logic⟩

def noRen (ops : List FsOp) : Bool := ops.all (fun o => !o.isRename)

theorem noRen_spec (ops : List FsOp) (h : noRen ops = true) : ∀ op ∈ ops, op.isRename = false := by
  intro op hop
  have := List.all_eq_true.mp h op hop
  simpa using this

theorem Atom.ops_noRen (s : PState) (a : Atom) : noRen (a.ops s) = true := by
  unfold Atom.ops
  split
  · cases a <;> simp [Atom.rawOps, mkFile, delFile, noRen, FsOp.isRename]
    split <;> simp [FsOp.isRename]
  · rfl

theorem Atom.eff_cfg (s : PState) (a : Atom) : (a.eff s).cfg = s.cfg := by
  unfold Atom.eff
  split
  · cases a with
    | sync p => cases p <;> simp only [Atom.rawEff] <;> (try split) <;> rfl
    | fin => simp only [Atom.rawEff]; split <;> rfl
    | _ => rfl
  · rfl

theorem PC_atom (R : ViewRel) (s : PState) (Q : QFs) (hI : Inv R s (fvOf Q)) (hP : PInv R s Q) (a : Atom) :
    PCore R (a.eff s) (qrun Q (a.ops s)) := by
  have hC := hP.core
  have hq := hP.qok
  unfold Atom.eff Atom.ops
  by_cases hg : a.guard s = true
  case neg => simp only [hg]; exact hC
  simp only [hg, if_true]
  cases a with
  | sync p =>
    simp only [Atom.rawOps, Atom.rawEff, qrun_sync1]
    cases p with
    | mem fid =>
      show PCore R (if fid = s.cur ∧ s.curOpen = true then _ else s) _
      by_cases hc : fid = s.cur ∧ s.curOpen = true
      · rw [if_pos hc]; exact PC_syncMem R s Q hI hC hq fid false (Or.inl hc)
      · rw [if_neg hc]; exact PC_syncMem R s Q hI hC hq fid s.curDirty (Or.inr rfl)
    | manifest => exact PC_syncManifest R s Q hI hC
    | sst id => exact PC_syncSst R s Q hI hC id
    | vlog n => exact PCore_qupd_frame R s Q hC _ _ (by simp) (by simp) (by simp)
    | manifestRewrite => exact PCore_qupd_frame R s Q hC _ _ (by simp) (by simp) (by simp)
    | keyRegistry => exact PCore_qupd_frame R s Q hC _ _ (by simp) (by simp) (by simp)
    | keyRegistryRewrite => exact PCore_qupd_frame R s Q hC _ _ (by simp) (by simp) (by simp)
  | syncDir =>
    simp only [Atom.rawOps, Atom.rawEff, qrun_syncDir1]
    exact PC_syncDir R s Q hI hC hq
  | zero p => exact hC
  | vput k v =>
    simp only [Atom.rawOps, Atom.rawEff, qrun_append1]
    exact PCore_of_eq R s _ _ (PCore_qupd_frame R s Q hC _ _ (by simp) (by simp) (by simp)) (by constructor <;> rfl)
  | vtrunc =>
    simp only [Atom.rawOps, Atom.rawEff, qrun_truncate1]
    exact PCore_qupd_frame R s Q hC _ _ (by simp) (by simp) (by simp)
  | vrot =>
    simp only [Atom.rawOps, Atom.rawEff, qrun_mkFile]
    exact PCore_of_eq R s _ _ (PCore_qupd_frame R s Q hC _ _ (by simp) (by simp) (by simp)) (by constructor <;> rfl)
  | vhdr =>
    simp only [Atom.rawOps, Atom.rawEff, qrun_append1]
    exact PCore_of_eq R s _ _ (PCore_qupd_frame R s Q hC _ _ (by simp) (by simp) (by simp)) (by constructor <;> rfl)
  | pushImm =>
    simp only [Atom.rawOps, Atom.rawEff, qrun_nil]
    have hg' : s.curOpen = true ∧ s.curDirty = false ∧ s.curDurEntry = true := by
      simp only [Atom.guard, hP.sw, hP.fix, Bool.and_eq_true, Bool.not_true, Bool.false_or] at hg
      exact ⟨hg.1.1, by simpa using hg.2.1, hg.2.2⟩
    exact PC_pushImm R s Q hI hC hg'.1 hg'.2.1 hg'.2.2
  | newMem =>
    simp only [Atom.rawOps, Atom.rawEff, qrun_mkFile]
    have hg' : s.curOpen = false ∧ s.pending = [] := by simpa [Atom.guard] using hg
    exact PC_newMem R s Q hI hC hg'.1
  | mhdr =>
    simp only [Atom.rawOps, Atom.rawEff, qrun_append1]
    have hg' : s.curOpen = true ∧ s.curHdr = false := by simpa [Atom.guard] using hg
    exact PC_curAppend R s _ Q hI hC hg'.1 _ (by constructor <;> rfl) (fun e => e)
  | wput e =>
    simp only [Atom.rawOps, Atom.rawEff, qrun_append1]
    have hg' : (s.curOpen = true ∧ s.curHdr = true) ∧ s.inflight.isSome = true := by simpa [Atom.guard] using hg
    exact PC_curAppend R s _ Q hI hC hg'.1.1 _ (by constructor <;> rfl) (by intro e; cases e)
  | fin =>
    simp only [Atom.rawOps, Atom.rawEff, qrun_append1]
    cases hinf : s.inflight with
    | none => simp [Atom.guard, hinf] at hg
    | some t =>
      have hg' : (((s.curOpen = true ∧ s.curHdr = true) ∧ s.pending = t.ents) ∧ ¬ t.ents = []) ∧ ¬ t.ts = 0 := by
        simpa [Atom.guard, hinf] using hg
      exact PC_fin R s Q hI hC t hinf hg'.1.1.1.1 _
  | ack =>
    simp only [Atom.rawOps, Atom.rawEff, qrun_nil]
    have hg' : s.acked < s.done ∧ s.curOpen = true ∧ s.curDirty = false ∧ s.curDurEntry = true := by
      simp only [Atom.guard, hP.sw, hP.fix, Bool.and_eq_true, Bool.not_true, Bool.false_or] at hg
      exact ⟨by simpa using hg.1, hg.2.1.1, by simpa using hg.2.1.2, hg.2.2⟩
    exact PC_ack R s Q hC hg'.1 hg'.2.1 hg'.2.2.1 hg'.2.2.2
  | kmk id =>
    simp only [Atom.rawOps, Atom.rawEff, qrun_mkFile]
    have hg' : ((s.kout.any (fun o => o.id == id && o.stage == 0) = true ∧ s.flusherHolds id = false) ∧
        (aget id s.tset).isNone = true) ∧ (aget id s.tsetD).isNone = true := by simpa [Atom.guard] using hg
    exact PC_kmk R s Q hI hC id hg'.1.1.1 hg'.1.1.2 (by simpa using hg'.1.2) (by simpa using hg'.2) _
  | kwrite id =>
    have hg' : ((s.kout.any (fun o => o.id == id && o.stage == 1) = true ∧ s.flusherHolds id = false) ∧
        (aget id s.tset).isNone = true) ∧ (aget id s.tsetD).isNone = true := by simpa [Atom.guard] using hg
    obtain ⟨o, ho, hoid⟩ := List.any_eq_true.mp hg'.1.1.1
    have hoid' : o.id = id ∧ o.stage = 1 := by simpa using hoid
    have hfind : s.kout.find? (fun x => x.id == id) = some o := by
      rw [← hoid'.1]; exact find?_id_of_nodup _ hI.sst.koutNodup o ho
    simp only [Atom.rawOps, Atom.rawEff, hfind, qrun_append1]
    exact PC_kwrite R s Q hI hC id hg'.1.1.1 hg'.1.1.2 (by simpa using hg'.1.2) (by simpa using hg'.2) _
  | kmset =>
    simp only [Atom.rawOps, Atom.rawEff, qrun_append1]
    have hg1 : s.kins ≠ [] := by
      intro e; simp [Atom.guard, e] at hg
    cases happ : applyMSet s.tset (kmsetChanges s) with
    | none => simp [Atom.guard, happ] at hg
    | some t' =>
      simp only [Atom.guard, Bool.and_eq_true] at hg
      have hst : ∀ o ∈ s.kout, o.stage = 3 ∧ aget o.id s.tset = none := by
        intro o ho
        have := List.all_eq_true.mp hg.1.1.1.1.1.1.1.1.2 o ho
        simpa using this
      have hmd : s.mdirty = false := by simpa using hg.1.1.1.1.1.1.1.2
      have hkd : s.kdir = true := hg.1.1.1.1.1.1.2
      have hpe : ∀ x ∈ s.pendU, x.2 ∉ s.kins := by
        intro x hx
        have := List.all_eq_true.mp hg.1.1.1.1.1.2 x hx
        simpa using this
      have := PC_kmset R s Q hI hC t' hg1 hst happ hmd hkd hpe
      simp only [Option.getD_some]
      exact this
  | kdel id =>
    simp only [Atom.rawOps, Atom.rawEff, qrun_delFile]
    have hg' : (((s.kdelq.contains id = true ∧ (aget id s.tset).isNone = true) ∧ s.flusherHolds id = false) ∧
        s.kout.any (fun o => o.id == id) = false) ∧ s.mdirty = false := by simpa [Atom.guard] using hg
    exact PC_kdel R s Q hC id (by simpa using hg'.1.1.1.2) hg'.2 hg'.1.1.2 hg'.1.2 _

theorem PC_flushAtom (R : ViewRel) (s s' : PState) (Q : QFs) (hI : Inv R s (fvOf Q)) (hP : PInv R s Q) (ops : List FsOp)
    (hf : flushAtom s = some (ops, s')) :
    PCore R s' (qrun Q ops) ∧ noRen ops = true ∧ s'.cfg = s.cfg := by
  have hC := hP.core
  have hq := hP.qok
  unfold flushAtom at hf
  cases hi : s.imm with
  | nil => rw [hi] at hf; cases hf
  | cons k rest =>
    rw [hi] at hf
    simp only at hf
    have hne : s.imm ≠ [] := by rw [hi]; simp
    have hhead : s.imm.head? = some k := by rw [hi]; rfl
    by_cases hE : (s.memEnts k).isEmpty = true
    · rw [if_pos hE] at hf
      injection hf with hf; injection hf with h1 h2
      subst h1; subst h2
      refine ⟨?_, rfl, rfl⟩
      rw [qrun_delFile]
      exact PC_flushDel R s Q hI hC hq k rest hi (by
        intro e he
        have : s.memEnts k = [] := by simpa using hE
        rw [this] at he; simp at he)
    · rw [if_neg hE] at hf
      rcases Nat.lt_or_ge s.fpc 6 with hlt | hge
      · have : s.fpc = 0 ∨ s.fpc = 1 ∨ s.fpc = 2 ∨ s.fpc = 3 ∨ s.fpc = 4 ∨ s.fpc = 5 := by omega
        rcases this with hp | hp | hp | hp | hp | hp
        · rw [hp] at hf
          injection hf with hf; injection hf with h1 h2
          subst h1; subst h2
          refine ⟨?_, rfl, rfl⟩
          rw [qrun_mkFile]
          rw [← hi]
          exact PC_flush0 R s Q hI hC hp _
        · rw [hp] at hf
          simp only at hf
          by_cases hgd : ((aget s.fsst s.tset).isNone = true ∧ (!s.kout.any (fun o => o.id == s.fsst)) = true) ∧ (aget s.fsst s.tsetD).isNone = true
          · rw [if_pos hgd] at hf
            injection hf with hf; injection hf with h1 h2
            subst h1; subst h2
            refine ⟨?_, rfl, rfl⟩
            rw [qrun_append1]
            have hko : ∀ o ∈ s.kout, o.id ≠ s.fsst := by
              intro o ho e
              have : s.kout.any (fun o => o.id == s.fsst) = true := List.any_eq_true.mpr ⟨o, ho, by simp [e]⟩
              have h2 := hgd.1.2; rw [this] at h2; cases h2
            rw [← hi]
            exact PC_flush1 R s Q hC hp (by simpa using hgd.1.1) (by simpa using hgd.2) hko _
          · rw [if_neg hgd] at hf; cases hf
        · rw [hp] at hf
          injection hf with hf; injection hf with h1 h2
          subst h1; subst h2
          refine ⟨?_, rfl, rfl⟩
          rw [qrun_sync1]
          have := PC_flush2 R s Q hI hC hp
          simp only [hP.fix, if_true]
          rw [← hi]
          exact this
        · rw [hp] at hf
          injection hf with hf; injection hf with h1 h2
          subst h1; subst h2
          refine ⟨?_, rfl, rfl⟩
          rw [qrun_syncDir1]
          exact PC_flush3 R s Q hI hC hq hp
        · rw [hp] at hf
          simp only at hf
          by_cases hgd : (aget s.fsst s.tset).isNone = true ∧ (!s.mdirty) = true
          · rw [if_pos hgd] at hf
            injection hf with hf; injection hf with h1 h2
            subst h1; subst h2
            refine ⟨?_, rfl, rfl⟩
            rw [qrun_append1]
            rw [← hi]
            exact PC_flush4 R s Q hI hC k rest hi hp (by simpa using hgd.1) (by simpa using hgd.2)
          · rw [if_neg hgd] at hf; cases hf
        · rw [hp] at hf
          injection hf with hf; injection hf with h1 h2
          subst h1; subst h2
          refine ⟨?_, rfl, rfl⟩
          rw [qrun_sync1]
          rw [← hi]
          exact PC_flush5 R s Q hI hC hp
      · have hf' : some (delFile (.mem k), { s with imm := rest, fpc := 0, pendU := (k, s.fsst) :: s.pendU }) = some (ops, s') := by
          have : ∃ m, s.fpc = m + 6 := ⟨s.fpc - 6, by omega⟩
          obtain ⟨m, hm⟩ := this
          rw [hm] at hf
          exact hf
        injection hf' with hf'; injection hf' with h1 h2
        subst h1; subst h2
        refine ⟨?_, rfl, rfl⟩
        rw [qrun_delFile]
        obtain ⟨h5a, h5b⟩ := hI.sst.flush5 k hhead (by omega)
        refine PC_flushDel R s Q hI hC hq k rest hi ?_
        intro e he
        exact ⟨h5a, hC.sst.fl6 hne hge, by rw [h5b]; exact he⟩

theorem PInv_step (R : ViewRel) (s : PState) (Q : QFs) (hI : Inv R s (fvOf Q)) (hP : PInv R s Q) (x : Sched) :
    PInv R (s.step x).2 (qrun Q (s.step x).1) ∧ noRen (s.step x).1 = true := by
  cases x with
  | commit ents rot =>
    simp only [PState.step]
    split
    · refine ⟨⟨hP.fix, hP.sw, hP.qok, ?_⟩, rfl⟩
      exact PC_commitStart R s _ Q hI hP.core _ (by constructor <;> rfl) rfl
    · exact ⟨hP, rfl⟩
  | flushReq =>
    simp only [PState.step]
    split
    · exact ⟨⟨hP.fix, hP.sw, hP.qok, PCore_of_eq R s _ Q hP.core (by constructor <;> rfl)⟩, rfl⟩
    · exact ⟨hP, rfl⟩
  | compact ins outs =>
    simp only [PState.step]
    split
    · refine ⟨⟨hP.fix, hP.sw, hP.qok, ?_⟩, rfl⟩
      refine PC_compactStart R s _ Q hP.core (by constructor <;> rfl) (by show s.nextSst ≤ s.nextSst + outs.length; omega) rfl ?_
      intro o ho
      obtain ⟨x, _, he⟩ := List.mem_map.mp ho
      subst he; rfl
    · exact ⟨hP, rfl⟩
  | w =>
    simp only [PState.step]
    cases hw : s.wq with
    | nil => exact ⟨hP, rfl⟩
    | cons a rest =>
      simp only
      have hn := Atom.ops_noRen s a
      have hc := Atom.eff_cfg s a
      refine ⟨⟨?_, ?_, QOk_qrun Q hP.qok _ (noRen_spec _ hn), ?_⟩, hn⟩
      · show (a.eff s).cfg.dirSyncFix = true; rw [hc]; exact hP.fix
      · show (a.eff s).cfg.syncWrites = true; rw [hc]; exact hP.sw
      · exact PCore_of_eq R _ _ _ (PC_atom R s Q hI hP a) (by constructor <;> rfl)
  | f =>
    simp only [PState.step]
    cases hf : flushAtom s with
    | none => exact ⟨hP, rfl⟩
    | some r =>
      obtain ⟨ops, s'⟩ := r
      obtain ⟨h1, h2, h3⟩ := PC_flushAtom R s s' Q hI hP ops hf
      exact ⟨⟨by rw [h3]; exact hP.fix, by rw [h3]; exact hP.sw, QOk_qrun Q hP.qok _ (noRen_spec _ h2), h1⟩, h2⟩

end Badger
