import BadgerModel.Oracle
import BadgerProofs.Lemmas.WatermarkInv
/-!
The invariant of the oracle transition system (`BadgerModel/Oracle.lean`, normal mode) and its
preservation by every label. Used by `Props/C34.lean` (`C34_readTs_sees_applied`), `Props/C02.lean`,
`Props/C03.lean`.
-/
namespace Badger

/-! ## A watermark and its channel -/

/-- The pair (process state, channel) has received exactly `Done(n)` followed by `sent`:
    `process` has handled a prefix, the rest is still queued. -/
def AWM.Tracks (a : AWM) (n : Nat) (sent : List Mark) : Prop :=
  ∃ pre, Mark.done n :: sent = pre ++ a.q ∧ a.wm = WM.init.run pre

theorem AWM.Tracks.opened (n : Nat) : (({} : AWM).send (.done n)).Tracks n [] :=
  ⟨[], by simp [AWM.send], rfl⟩

theorem AWM.Tracks.send {a : AWM} {n : Nat} {sent : List Mark} (h : a.Tracks n sent) (m : Mark) :
    (a.send m).Tracks n (sent ++ [m]) := by
  obtain ⟨pre, e, hw⟩ := h
  refine ⟨pre, ?_, hw⟩
  simp only [AWM.send]
  rw [← List.append_assoc, ← e]; rfl

theorem AWM.Tracks.process {a a' : AWM} {n : Nat} {sent : List Mark} {wk : List Wakeup}
    (h : a.Tracks n sent) (hp : a.process = some (a', wk)) :
    a'.Tracks n sent ∧ ∃ m, a' = { wm := (a.wm.step m).1, q := a.q.tail } ∧ wk = (a.wm.step m).2 ∧
      a.q = m :: a'.q := by
  obtain ⟨pre, e, hw⟩ := h
  unfold AWM.process at hp
  cases hq : a.q with
  | nil => rw [hq] at hp; simp at hp
  | cons m q =>
    rw [hq] at hp
    simp only [Option.some.injEq, Prod.mk.injEq] at hp
    obtain ⟨e1, e2⟩ := hp
    subst e1 e2
    refine ⟨⟨pre ++ [m], ?_, ?_⟩, m, ?_, rfl, rfl⟩
    · rw [e, hq]; simp
    · simp only [hw, WM.run_append]; rfl
    · simp

theorem AWM.Tracks.inv {a : AWM} {n : Nat} {sent : List Mark} (h : a.Tracks n sent) : a.wm.Inv := by
  obtain ⟨pre, _, hw⟩ := h
  rw [hw]; exact WM.run_inv pre

/-- The state `process` will reach once the channel is drained. -/
theorem AWM.Tracks.virt {a : AWM} {n : Nat} {sent : List Mark} (h : a.Tracks n sent) :
    a.virt = (WM.opened n).run sent := by
  obtain ⟨pre, e, hw⟩ := h
  rw [WM.opened_run, e, WM.run_append, ← hw]; rfl

/-- What `DoneUntil()` returns now is at most what it will return once the channel is drained. -/
theorem AWM.Tracks.le_virt {a : AWM} {n : Nat} {sent : List Mark} (h : a.Tracks n sent) :
    a.wm.doneUntil ≤ ((WM.opened n).run sent).doneUntil := by
  rw [← h.virt]
  exact (WM.runW_trans _ h.inv a.q).mono

/-- `process` has not asserted, as long as the marks sent follow the discipline. -/
theorem AWM.Tracks.live {a : AWM} {n : Nat} {sent : List Mark} (h : a.Tracks n sent) (strict : Bool)
    (hok : marksOK strict (Ghost.opened n) sent) : a.wm.failed = false := by
  obtain ⟨pre, e, hw⟩ := h
  cases pre with
  | nil => rw [hw]; rfl
  | cons m pre' =>
    simp only [List.cons_append, List.cons.injEq] at e
    obtain ⟨e1, e2⟩ := e
    subst e1
    rw [e2] at hok
    have hok' := ((marksOK_append strict _ pre' a.q).mp hok).1
    rw [hw, ← WM.opened_run]
    have hS : strict = true → (WM.opened n).StrictInv := fun _ => WM.opened_strict n
    exact (WM.run_ghost _ _ (WM.opened_inv n) (WM.opened_grel n) pre' strict hok' hS).1.live

/-! ## list helpers -/

theorem countP_set_balance {α : Type} (p : α → Bool) (l : List α) (i : Nat) (a x : α)
    (hx : l[i]? = some x) :
    (l.set i a).countP p + (if p x then 1 else 0) = l.countP p + (if p a then 1 else 0) := by
  induction l generalizing i with
  | nil => simp at hx
  | cons y ys ih =>
    cases i with
    | zero =>
      simp only [List.getElem?_cons_zero, Option.some.injEq] at hx
      subst hx
      simp only [List.set_cons_zero, List.countP_cons]; omega
    | succ i =>
      simp only [List.getElem?_cons_succ] at hx
      simp only [List.set_cons_succ, List.countP_cons]
      have := ih i hx; omega

theorem countP_set_same {α : Type} (p : α → Bool) (l : List α) (i : Nat) (a x : α)
    (hx : l[i]? = some x) (hp : p a = p x) : (l.set i a).countP p = l.countP p := by
  have := countP_set_balance p l i a x hx
  rw [hp] at this; omega

theorem getElem?_set_same {α : Type} (l : List α) (i : Nat) (a x : α) (hx : l[i]? = some x) :
    (l.set i a)[i]? = some a := by
  rw [List.getElem?_set]
  have : i < l.length := by
    rcases Nat.lt_or_ge i l.length with h | h
    · exact h
    · rw [List.getElem?_eq_none h] at hx; simp at hx
  simp [this]

theorem getElem?_set_other {α : Type} (l : List α) (i j : Nat) (a : α) (h : i ≠ j) :
    (l.set i a)[j]? = l[j]? := by
  rw [List.getElem?_set]; simp [h]

/-! ## wake-ups delivered to transactions -/

/-- What `wakeFrom` does to the entry at position `j`. -/
def wakeOne (i : Nat) (wk : List Wakeup) (x : TxnSt) : TxnSt :=
  if x.phase = .parked ∧ wk.any (fun k => k.waiter == i) then { x with phase := .active } else x

theorem wakeFrom_getElem? (i : Nat) (wk : List Wakeup) (l : List TxnSt) (j : Nat) :
    (wakeFrom i wk l)[j]? = (l[j]?).map (wakeOne (i + j) wk) := by
  induction l generalizing i j with
  | nil => simp [wakeFrom]
  | cons x xs ih =>
    cases j with
    | zero => simp [wakeFrom, wakeOne]
    | succ j =>
      simp only [wakeFrom, List.getElem?_cons_succ]
      rw [ih (i + 1) j]
      have : i + 1 + j = i + (j + 1) := by omega
      rw [this]

theorem wakeOne_t (i : Nat) (wk : List Wakeup) (x : TxnSt) : (wakeOne i wk x).t = x.t := by
  unfold wakeOne; split <;> rfl

theorem wakeOne_holdsRead (i : Nat) (wk : List Wakeup) (x : TxnSt) :
    (wakeOne i wk x).holdsRead = x.holdsRead := by
  unfold wakeOne; split
  · rename_i h
    have e1 : (Phase.active != Phase.closed) = true := by decide
    have e2 : (Phase.parked != Phase.closed) = true := by decide
    simp only [TxnSt.holdsRead, h.1, e1, e2]
  · rfl

theorem wakeOne_closed (i : Nat) (wk : List Wakeup) (x : TxnSt) :
    (wakeOne i wk x).phase = .closed ↔ x.phase = .closed := by
  unfold wakeOne; split
  · rename_i h; simp [h.1]
  · rfl

theorem wakeFrom_countP (p : TxnSt → Bool) (hp : ∀ i wk x, p (wakeOne i wk x) = p x)
    (i : Nat) (wk : List Wakeup) (l : List TxnSt) : (wakeFrom i wk l).countP p = l.countP p := by
  induction l generalizing i with
  | nil => rfl
  | cons x xs ih =>
    simp only [wakeFrom, List.countP_cons, ih]
    have := hp i wk x
    unfold wakeOne at this
    rw [this]

theorem mem_wakeFrom (i : Nat) (wk : List Wakeup) (l : List TxnSt) (y : TxnSt) (h : y ∈ wakeFrom i wk l) :
    ∃ j x, l[j]? = some x ∧ y = wakeOne (i + j) wk x := by
  obtain ⟨j, hj⟩ := List.mem_iff_getElem?.mp h
  rw [wakeFrom_getElem?] at hj
  cases hl : l[j]? with
  | none => rw [hl] at hj; simp at hj
  | some x => rw [hl] at hj; simp at hj; exact ⟨j, x, hl, hj.symm⟩

/-! ## The invariant (normal mode) -/

/-- The predicate counted by the read mark: transaction holds `readMark` at read timestamp `r`. -/
def holdsAt (r : Nat) (x : TxnSt) : Bool := x.holdsRead && x.t.readTs == r

def rmGhost (n : Nat) (s : Sys) : Ghost := (Ghost.opened n).run s.rmSent
def tmGhost (n : Nat) (s : Sys) : Ghost := (Ghost.opened n).run s.tmSent

def toCommitted (h : HistEntry) : CommittedTxn := ⟨h.ts, h.conflictKeys⟩

/-- Phases in which `NewTransaction` has returned. -/
def Phase.returned (p : Phase) : Prop := p = .active ∨ p = .closing ∨ p = .closed

structure SysInv (d : Bool) (n : Nat) (s : Sys) : Prop where
  notManaged : s.o.isManaged = false
  detect : s.o.detectConflicts = d
  live : s.crashed = false
  nextGt : n < s.o.nextTxnTs
  histSorted : s.hist.Pairwise (fun a b => a.ts < b.ts)
  histLt : ∀ h ∈ s.hist, n < h.ts ∧ h.ts < s.o.nextTxnTs
  /-- `committedTxns` is the part of the history above `lastCleanupTs` (nothing else is pruned) -/
  committed : s.o.committedTxns =
    if d then (s.hist.filter (fun h => decide (s.o.lastCleanupTs < h.ts))).map toCommitted
    else []
  cleanupLe : s.o.lastCleanupTs ≤ s.o.readMark.wm.doneUntil
  doneSub : ∀ t ∈ s.doneCommits, t ∈ s.hist.map (·.ts)
  rmTracks : s.o.readMark.Tracks n s.rmSent
  tmTracks : s.o.txnMark.Tracks n s.tmSent
  rmOK : marksOK false (Ghost.opened n) s.rmSent
  tmOK : marksOK true (Ghost.opened n) s.tmSent
  /-- the read mark's pending count of `r` = number of transactions holding it at `r` -/
  rmCnt : ∀ r, (rmGhost n s).cnt r = ((s.txns.countP (holdsAt r) : Nat) : Int)
  rmMax : (rmGhost n s).maxSeen < s.o.nextTxnTs
  /-- the txn mark's pending count of `t` is 1 while `t` is allocated and not reported done -/
  tmCnt : ∀ t, (tmGhost n s).cnt t = if t ∈ s.allocatedNotDone then 1 else 0
  tmMax : (tmGhost n s).maxSeen < s.o.nextTxnTs
  readTsLt : ∀ x ∈ s.txns, x.t.readTs < s.o.nextTxnTs
  closedIff : ∀ x ∈ s.txns, (x.t.doneRead = true ↔ x.phase = .closed)
  waitIdx : ∀ idx w, Mark.wait idx w ∈ s.tmSent → ∃ x, s.txns[w]? = some x ∧ x.t.readTs = idx
  /-- **C34 at the oracle**: once `readTs` has returned `r`, every allocated commit timestamp
      `≤ r` has been reported done -/
  applied : ∀ x ∈ s.txns, x.phase.returned → ∀ h ∈ s.hist, h.ts ≤ x.t.readTs → h.ts ∈ s.doneCommits
  /-- **C02 on the history**: with conflict detection, no transaction that obtained a commit
      timestamp inside `(h.readTs, h.ts)` wrote a fingerprint that `h` read -/
  ssi : d = true → ∀ h ∈ s.hist, ∀ c ∈ s.hist, h.readTs < c.ts → c.ts < h.ts →
    ∀ fp ∈ h.reads, fp ∉ c.conflictKeys

theorem mem_allocatedNotDone (s : Sys) (t : Nat) :
    t ∈ s.allocatedNotDone ↔ t ∈ s.hist.map (·.ts) ∧ t ∉ s.doneCommits := by
  simp [Sys.allocatedNotDone, List.mem_filter]

/-- The virtual (drained) read mark and its ghost. -/
theorem SysInv.rmVirt {d n s} (hI : SysInv d n s) :
    GRel ((WM.opened n).run s.rmSent) (rmGhost n s) :=
  (WM.run_ghost _ _ (WM.opened_inv n) (WM.opened_grel n) s.rmSent false hI.rmOK (by simp)).1

theorem SysInv.tmVirt {d n s} (hI : SysInv d n s) :
    GRel ((WM.opened n).run s.tmSent) (tmGhost n s) ∧ ((WM.opened n).run s.tmSent).StrictInv := by
  have h := WM.run_ghost _ _ (WM.opened_inv n) (WM.opened_grel n) s.tmSent true hI.tmOK
    (fun _ => WM.opened_strict n)
  exact ⟨h.1, h.2 rfl⟩

/-- **Key lemma for C02**: `readMark.DoneUntil()` never exceeds the read timestamp of a
    transaction that still holds the read mark. -/
theorem SysInv.readMark_le {d n s} (hI : SysInv d n s) (x : TxnSt) (hx : x ∈ s.txns)
    (hh : x.holdsRead = true) : s.o.readMark.wm.doneUntil ≤ x.t.readTs := by
  have hv := hI.rmVirt
  have hcnt : (rmGhost n s).cnt x.t.readTs > 0 := by
    rw [hI.rmCnt]
    have : 0 < s.txns.countP (holdsAt x.t.readTs) :=
      List.countP_pos_iff.mpr ⟨x, hx, by simp [holdsAt, hh]⟩
    omega
  have hp : ((WM.opened n).run s.rmSent).pending.val x.t.readTs > 0 := by rw [hv.cnt]; exact hcnt
  have hvI : ((WM.opened n).run s.rmSent).Inv := (WM.runW_trans _ (WM.opened_inv n) s.rmSent).inv
  have h1 := hvI.heapGe _ ((hvI.sync _).mpr (Pending.val_pos_isSome _ _ hp))
  exact Nat.le_trans hI.rmTracks.le_virt h1

/-- **Key lemma for C34**: if `txnMark.DoneUntil() ≥ r` now, every allocated commit timestamp
    `≤ r` has been reported done. -/
theorem SysInv.applied_of_doneUntil {d n s} (hI : SysInv d n s) (r : Nat)
    (hr : r ≤ s.o.txnMark.wm.doneUntil) : ∀ h ∈ s.hist, h.ts ≤ r → h.ts ∈ s.doneCommits := by
  intro h hh hle
  apply Classical.byContradiction
  intro hnd
  have hmem : h.ts ∈ s.allocatedNotDone :=
    (mem_allocatedNotDone s h.ts).mpr ⟨List.mem_map.mpr ⟨h, hh, rfl⟩, hnd⟩
  obtain ⟨hv, hS⟩ := hI.tmVirt
  have hp : ((WM.opened n).run s.tmSent).pending.val h.ts > 0 := by
    rw [hv.cnt, hI.tmCnt, if_pos hmem]; decide
  have h1 := hS _ hp
  have h2 := hI.tmTracks.le_virt
  omega

/-- Core of `applied_of_doneUntil`, stated on the pieces it needs. -/
theorem applied_core {n : Nat} {a : AWM} {sent : List Mark} (hT : a.Tracks n sent)
    (hok : marksOK true (Ghost.opened n) sent) (r : Nat) (hr : r ≤ a.wm.doneUntil) (t : Nat)
    (ht : ((Ghost.opened n).run sent).cnt t > 0) : r < t := by
  have h := WM.run_ghost _ _ (WM.opened_inv n) (WM.opened_grel n) sent true hok (fun _ => WM.opened_strict n)
  have hp : ((WM.opened n).run sent).pending.val t > 0 := by rw [h.1.cnt]; exact ht
  have h1 := h.2 rfl _ hp
  have h2 := hT.le_virt
  omega

/-! ## Initial state -/

theorem SysInv.init (d : Bool) (n : Nat) : SysInv d n (Sys.opened false d n) := by
  refine { notManaged := rfl, detect := rfl, live := rfl, nextGt := by simp [Sys.opened, Oracle.opened],
           histSorted := by simp [Sys.opened], histLt := by simp [Sys.opened],
           committed := by cases d <;> simp [Sys.opened, Oracle.opened],
           cleanupLe := by simp [Sys.opened, Oracle.opened],
           doneSub := by simp [Sys.opened],
           rmTracks := AWM.Tracks.opened n, tmTracks := AWM.Tracks.opened n,
           rmOK := by simp [Sys.opened, marksOK], tmOK := by simp [Sys.opened, marksOK],
           rmCnt := by intro r; simp [rmGhost, Sys.opened, Ghost.run, Ghost.opened],
           rmMax := by simp [rmGhost, Sys.opened, Ghost.run, Ghost.opened, Oracle.opened],
           tmCnt := by intro t; simp [tmGhost, Sys.opened, Ghost.run, Ghost.opened, Sys.allocatedNotDone],
           tmMax := by simp [tmGhost, Sys.opened, Ghost.run, Ghost.opened, Oracle.opened],
           readTsLt := by simp [Sys.opened], closedIff := by simp [Sys.opened],
           waitIdx := by simp [Sys.opened], applied := by simp [Sys.opened],
           ssi := by simp [Sys.opened] }

/-! ## Updating one transaction without touching the oracle -/

theorem holdsAt_congr (r : Nat) (x x' : TxnSt) (h1 : x'.t.readTs = x.t.readTs)
    (h2 : x'.holdsRead = x.holdsRead) : holdsAt r x' = holdsAt r x := by
  simp [holdsAt, h1, h2]

theorem SysInv.setTxn {d n s} (hI : SysInv d n s) (tid : Nat) (x x' : TxnSt)
    (hx : s.txns[tid]? = some x) (h1 : x'.t.readTs = x.t.readTs) (h2 : x'.holdsRead = x.holdsRead)
    (h3 : x'.t.doneRead = true ↔ x'.phase = .closed)
    (h4 : x'.phase.returned → x.phase.returned ∨
      ∀ h ∈ s.hist, h.ts ≤ x.t.readTs → h.ts ∈ s.doneCommits) :
    SysInv d n { s with txns := s.txns.set tid x' } := by
  have hxm : x ∈ s.txns := List.mem_of_getElem? hx
  refine { notManaged := hI.notManaged, detect := hI.detect, live := hI.live, nextGt := hI.nextGt,
           histSorted := hI.histSorted, histLt := hI.histLt, committed := hI.committed,
           cleanupLe := hI.cleanupLe, doneSub := hI.doneSub, rmTracks := hI.rmTracks,
           tmTracks := hI.tmTracks, rmOK := hI.rmOK, tmOK := hI.tmOK,
           rmCnt := ?_, rmMax := hI.rmMax, tmCnt := hI.tmCnt, tmMax := hI.tmMax,
           readTsLt := ?_, closedIff := ?_, waitIdx := ?_, applied := ?_, ssi := hI.ssi }
  · intro r
    have := hI.rmCnt r
    simp only [rmGhost] at this ⊢
    rw [this, countP_set_same _ _ _ _ _ hx (holdsAt_congr r x x' h1 h2)]
  · intro y hy
    rcases List.mem_or_eq_of_mem_set hy with hy | rfl
    · exact hI.readTsLt y hy
    · rw [h1]; exact hI.readTsLt x hxm
  · intro y hy
    rcases List.mem_or_eq_of_mem_set hy with hy | rfl
    · exact hI.closedIff y hy
    · exact h3
  · intro idx w hw
    obtain ⟨y, hy, e⟩ := hI.waitIdx idx w hw
    by_cases hwt : tid = w
    · subst hwt
      rw [hx] at hy; cases hy
      exact ⟨x', getElem?_set_same _ _ _ _ hx, by rw [h1]; exact e⟩
    · exact ⟨y, by simp only; rw [getElem?_set_other _ _ _ _ hwt]; exact hy, e⟩
  · intro y hy hret h hh hle
    rcases List.mem_or_eq_of_mem_set hy with hy | rfl
    · exact hI.applied y hy hret h hh hle
    · rw [h1] at hle
      rcases h4 hret with hr | ha
      · exact hI.applied x hxm hr h hh hle
      · exact ha h hh hle

/-! ## `begin` -/

theorem getElem?_append_some {α : Type} (l l' : List α) (i : Nat) (x : α) (h : l[i]? = some x) :
    (l ++ l')[i]? = some x := by
  have : i < l.length := by
    rcases Nat.lt_or_ge i l.length with h' | h'
    · exact h'
    · rw [List.getElem?_eq_none h'] at h; simp at h
  rw [List.getElem?_append_left this]; exact h

theorem SysInv.begin {d n s} (hI : SysInv d n s) (upd : Bool) :
    SysInv d n { s with o := s.o.readTsBegin.1,
                        txns := s.txns ++ [{ t := { readTs := s.o.readTsBegin.2, update := upd }, phase := .started }],
                        rmSent := s.rmSent ++ [.begin s.o.readTsBegin.2] } := by
  have hn := hI.nextGt
  have hmax := hI.rmMax
  refine { notManaged := hI.notManaged, detect := hI.detect, live := hI.live, nextGt := hI.nextGt,
           histSorted := hI.histSorted, histLt := hI.histLt, committed := hI.committed,
           cleanupLe := hI.cleanupLe, doneSub := hI.doneSub, rmTracks := hI.rmTracks.send _,
           tmTracks := hI.tmTracks, rmOK := ?_, tmOK := hI.tmOK,
           rmCnt := ?_, rmMax := ?_, tmCnt := hI.tmCnt, tmMax := hI.tmMax,
           readTsLt := ?_, closedIff := ?_, waitIdx := ?_, applied := ?_, ssi := hI.ssi }
  · apply (marksOK_snoc _ _ _ _).mpr
    refine ⟨hI.rmOK, ?_⟩
    simp only [Mark.procs, procsOK, Oracle.readTsBegin, Bool.false_eq_true, if_false, and_true]
    simp only [rmGhost] at hmax; omega
  · intro r
    have := hI.rmCnt r
    simp only [rmGhost, Ghost.run_snoc, Mark.procs, Ghost.procs, List.foldl_cons, List.foldl_nil,
      Ghost.proc, List.countP_append, List.countP_cons, List.countP_nil] at this ⊢
    rw [this]
    simp only [holdsAt, TxnSt.holdsRead, Oracle.readTsBegin]
    have e1 : (Phase.started != Phase.closed) = true := by decide
    simp only [e1, Bool.not_false, Bool.and_self, Bool.true_and, beq_iff_eq, Bool.false_eq_true, if_false]
    split <;> simp <;> omega
  · simp only [rmGhost, Ghost.run_snoc, Mark.procs, Ghost.procs, List.foldl_cons, List.foldl_nil,
      Ghost.proc, Oracle.readTsBegin] at hmax ⊢
    omega
  · intro y hy
    rcases List.mem_append.mp hy with hy | hy
    · exact hI.readTsLt y hy
    · simp at hy; subst hy; simp [Oracle.readTsBegin]; omega
  · intro y hy
    rcases List.mem_append.mp hy with hy | hy
    · exact hI.closedIff y hy
    · simp at hy; subst hy; simp
  · intro idx w hw
    obtain ⟨y, hy, e⟩ := hI.waitIdx idx w hw
    exact ⟨y, getElem?_append_some _ _ _ _ hy, e⟩
  · intro y hy hret h hh hle
    rcases List.mem_append.mp hy with hy | hy
    · exact hI.applied y hy hret h hh hle
    · simp at hy; subst hy
      rcases hret with h' | h' | h' <;> simp at h'

/-! ## `waitCheck`, slow path: the waiter mark is sent -/

theorem SysInv.sendWait {d n s} (hI : SysInv d n s) (tid : Nat) (x : TxnSt)
    (hx : s.txns[tid]? = some x) :
    SysInv d n { s with o := { s.o with txnMark := s.o.txnMark.send (.wait x.t.readTs tid) },
                        tmSent := s.tmSent ++ [.wait x.t.readTs tid] } := by
  refine { notManaged := hI.notManaged, detect := hI.detect, live := hI.live, nextGt := hI.nextGt,
           histSorted := hI.histSorted, histLt := hI.histLt, committed := hI.committed,
           cleanupLe := hI.cleanupLe, doneSub := hI.doneSub, rmTracks := hI.rmTracks,
           tmTracks := hI.tmTracks.send _, rmOK := hI.rmOK, tmOK := ?_,
           rmCnt := hI.rmCnt, rmMax := hI.rmMax, tmCnt := ?_, tmMax := ?_,
           readTsLt := hI.readTsLt, closedIff := hI.closedIff, waitIdx := ?_, applied := hI.applied, ssi := hI.ssi }
  · apply (marksOK_snoc _ _ _ _).mpr
    exact ⟨hI.tmOK, by simp [Mark.procs, procsOK]⟩
  · intro t
    have := hI.tmCnt t
    simp only [tmGhost, Ghost.run_snoc, Mark.procs, Ghost.procs, List.foldl_nil] at this ⊢
    exact this
  · have := hI.tmMax
    simp only [tmGhost, Ghost.run_snoc, Mark.procs, Ghost.procs, List.foldl_nil] at this ⊢
    exact this
  · intro idx w hw
    rcases List.mem_append.mp hw with hw | hw
    · exact hI.waitIdx idx w hw
    · simp at hw; obtain ⟨e1, e2⟩ := hw; subst e1 e2; exact ⟨x, hx, rfl⟩

/-! ## the `process` goroutines -/

theorem SysInv.procReadMark {d n s} (hI : SysInv d n s) (a : AWM) (wk : List Wakeup)
    (hp : s.o.readMark.process = some (a, wk)) :
    SysInv d n { s with o := { s.o with readMark := a }, crashed := a.wm.failed } := by
  obtain ⟨hT, m, ea, _, _⟩ := hI.rmTracks.process hp
  refine { notManaged := hI.notManaged, detect := hI.detect, live := hT.live false hI.rmOK,
           nextGt := hI.nextGt,
           histSorted := hI.histSorted, histLt := hI.histLt, committed := hI.committed,
           cleanupLe := ?_, doneSub := hI.doneSub, rmTracks := hT,
           tmTracks := hI.tmTracks, rmOK := hI.rmOK, tmOK := hI.tmOK,
           rmCnt := hI.rmCnt, rmMax := hI.rmMax, tmCnt := hI.tmCnt, tmMax := hI.tmMax,
           readTsLt := hI.readTsLt, closedIff := hI.closedIff, waitIdx := hI.waitIdx, applied := hI.applied, ssi := hI.ssi }
  have h1 := hI.cleanupLe
  have h2 := (WM.step_trans _ hI.rmTracks.inv m).mono
  simp only [ea]; omega

theorem SysInv.procTxnMark {d n s} (hI : SysInv d n s) (a : AWM) (wk : List Wakeup)
    (hp : s.o.txnMark.process = some (a, wk)) :
    SysInv d n { s with o := { s.o with txnMark := a }, txns := wakeTxns s.txns wk, crashed := a.wm.failed } := by
  obtain ⟨hT, m, ea, ewk, eq⟩ := hI.tmTracks.process hp
  have hpred : ∀ r i wk x, holdsAt r (wakeOne i wk x) = holdsAt r x := by
    intro r i wk x; simp [holdsAt, wakeOne_holdsRead, wakeOne_t]
  refine { notManaged := hI.notManaged, detect := hI.detect, live := hT.live true hI.tmOK,
           nextGt := hI.nextGt,
           histSorted := hI.histSorted, histLt := hI.histLt, committed := hI.committed,
           cleanupLe := hI.cleanupLe, doneSub := hI.doneSub, rmTracks := hI.rmTracks,
           tmTracks := hT, rmOK := hI.rmOK, tmOK := hI.tmOK,
           rmCnt := ?_, rmMax := hI.rmMax, tmCnt := hI.tmCnt, tmMax := hI.tmMax,
           readTsLt := ?_, closedIff := ?_, waitIdx := ?_, applied := ?_, ssi := hI.ssi }
  · intro r
    have := hI.rmCnt r
    simp only [rmGhost, wakeTxns] at this ⊢
    rw [this, wakeFrom_countP _ (hpred r)]
  · intro y hy
    obtain ⟨j, x, hx, e⟩ := mem_wakeFrom _ _ _ _ hy
    rw [e, wakeOne_t]; exact hI.readTsLt x (List.mem_of_getElem? hx)
  · intro y hy
    obtain ⟨j, x, hx, e⟩ := mem_wakeFrom _ _ _ _ hy
    rw [e, wakeOne_t, wakeOne_closed]; exact hI.closedIff x (List.mem_of_getElem? hx)
  · intro idx w hw
    obtain ⟨y, hy, e⟩ := hI.waitIdx idx w hw
    refine ⟨wakeOne (0 + w) wk y, ?_, by rw [wakeOne_t]; exact e⟩
    simp only [wakeTxns]
    rw [wakeFrom_getElem?, hy]; rfl
  · intro y hy hret h hh hle
    obtain ⟨j, x, hx, e⟩ := mem_wakeFrom _ _ _ _ hy
    have hxm := List.mem_of_getElem? hx
    rw [e, wakeOne_t] at hle
    by_cases hxr : x.phase.returned
    · exact hI.applied x hxm hxr h hh hle
    · -- `x` was parked and has just been woken by some `k ∈ wk` with `k.waiter = j`
      have hw : x.phase = .parked ∧ wk.any (fun k => k.waiter == 0 + j) = true := by
        rw [e] at hret
        unfold wakeOne at hret
        split at hret
        · rename_i hc; exact hc
        · exact absurd hret hxr
      obtain ⟨k, hk, hkw⟩ := List.any_eq_true.mp hw.2
      simp only [Nat.zero_add, beq_iff_eq] at hkw
      -- the wake-up stems from a `wait` mark that was sent
      have hstep := WM.step_trans _ hI.tmTracks.inv m
      have hwoke := hstep.woke k (by rw [← ewk]; exact hk)
      have hsrc := WM.step_src _ hI.tmTracks.inv m k (.inl (by rw [← ewk]; exact hk))
      obtain ⟨pre, epre, hwm⟩ := hI.tmTracks
      have hmark : Mark.wait k.idx k.waiter ∈ s.tmSent := by
        have hin : Mark.wait k.idx k.waiter ∈ pre ++ s.o.txnMark.q := by
          rcases hsrc with hs | hs
          · rw [hwm] at hs
            rcases WM.runW_src _ WM.init_inv pre k (.inr hs) with h0 | h0
            · simp [WM.init, Waiters.flat] at h0
            · exact List.mem_append.mpr (.inl h0)
          · rw [eq]; rw [hs]; simp
        rw [← epre] at hin
        rcases List.mem_cons.mp hin with h0 | h0
        · cases h0
        · exact h0
      obtain ⟨x2, hx2, e2⟩ := hI.waitIdx _ _ hmark
      rw [hkw, hx] at hx2; cases hx2
      -- so `readTs ≤ doneUntil` of the new `txnMark`
      apply Classical.byContradiction
      intro hnd
      have hmem : h.ts ∈ s.allocatedNotDone :=
        (mem_allocatedNotDone s h.ts).mpr ⟨List.mem_map.mpr ⟨h, hh, rfl⟩, hnd⟩
      have hc : ((Ghost.opened n).run s.tmSent).cnt h.ts > 0 := by
        have := hI.tmCnt h.ts
        simp only [tmGhost] at this
        rw [this, if_pos hmem]; decide
      have hr : x.t.readTs ≤ a.wm.doneUntil := by rw [e2, ea]; exact hwoke
      have := applied_core hT hI.tmOK x.t.readTs hr h.ts hc
      omega

/-! ## `cleanupCommittedTransactions` -/

theorem committed_filter (hist : List HistEntry) (lc m : Nat) (hle : lc ≤ m) :
    ((hist.filter (fun h => decide (lc < h.ts))).map toCommitted).filter (fun c => !(decide (c.ts ≤ m))) =
      (hist.filter (fun h => decide (m < h.ts))).map toCommitted := by
  induction hist with
  | nil => rfl
  | cons h hs ih =>
    by_cases h1 : m < h.ts
    · have h2 : lc < h.ts := by omega
      have h3 : ¬ h.ts ≤ m := by omega
      simp [List.filter_cons, h1, h2, h3, toCommitted] at ih ⊢
      exact ih
    · by_cases h2 : lc < h.ts
      · have h3 : h.ts ≤ m := by omega
        simp [List.filter_cons, h1, h2, h3, toCommitted] at ih ⊢
        exact ih
      · simp [List.filter_cons, h1, h2] at ih ⊢
        exact ih

/-- `cleanupCommittedTransactions` in normal mode, as a case table. -/
theorem Oracle.cleanup_normal (o : Oracle) (hm : o.isManaged = false) :
    o.cleanup =
      if o.detectConflicts = false then some o
      else if o.readMark.wm.doneUntil < o.lastCleanupTs then none
      else if o.readMark.wm.doneUntil = o.lastCleanupTs then some o
      else some { o with lastCleanupTs := o.readMark.wm.doneUntil,
                         committedTxns := o.committedTxns.filter
                           (fun c => !(decide (c.ts ≤ o.readMark.wm.doneUntil))) } := by
  obtain ⟨m, dc, nx, tm, rm, dt, ct, lc⟩ := o
  simp only at hm
  subst hm
  cases dc <;> simp [Oracle.cleanup, AWM.doneUntil]

/-- `cleanup` never asserts in a reachable state, and what it computes. -/
theorem SysInv.cleanup_eq {d n s} (hI : SysInv d n s) :
    s.o.cleanup = some (if d then
        { s.o with lastCleanupTs := s.o.readMark.wm.doneUntil,
                   committedTxns := s.o.committedTxns.filter
                     (fun c => !(decide (c.ts ≤ s.o.readMark.wm.doneUntil))) }
      else s.o) := by
  have hc := hI.cleanupLe
  have hd := hI.detect
  rw [Oracle.cleanup_normal _ hI.notManaged]
  cases d with
  | false => simp [hd]
  | true =>
    have hcm := hI.committed
    simp only [if_true] at hcm
    rw [if_neg (by simp [hd]), if_neg (by omega)]
    split
    · rename_i heq
      -- nothing to prune: every entry is above `lastCleanupTs = doneUntil`
      have hf : s.o.committedTxns.filter (fun c => !(decide (c.ts ≤ s.o.readMark.wm.doneUntil))) =
          s.o.committedTxns := by
        rw [hcm, committed_filter s.hist s.o.lastCleanupTs s.o.readMark.wm.doneUntil (by omega), heq]
      simp only [if_true]
      rw [hf, heq]
    · rfl

theorem SysInv.cleanup {d n s} (hI : SysInv d n s) (o' : Oracle) (ho : s.o.cleanup = some o') :
    SysInv d n { s with o := o' } := by
  rw [hI.cleanup_eq] at ho
  simp only [Option.some.injEq] at ho
  subst ho
  cases d with
  | false => exact hI
  | true =>
    simp only [if_true]
    refine { notManaged := hI.notManaged, detect := hI.detect, live := hI.live, nextGt := hI.nextGt,
             histSorted := hI.histSorted, histLt := hI.histLt, committed := ?_,
             cleanupLe := Nat.le_refl _, doneSub := hI.doneSub, rmTracks := hI.rmTracks,
             tmTracks := hI.tmTracks, rmOK := hI.rmOK, tmOK := hI.tmOK,
             rmCnt := hI.rmCnt, rmMax := hI.rmMax, tmCnt := hI.tmCnt, tmMax := hI.tmMax,
             readTsLt := hI.readTsLt, closedIff := hI.closedIff, waitIdx := hI.waitIdx,
             applied := hI.applied, ssi := hI.ssi }
    have hcm := hI.committed
    simp only [if_true] at hcm ⊢
    rw [hcm]
    exact committed_filter s.hist _ _ hI.cleanupLe

/-! ## `discard` -/

theorem SysInv.rmDone {d n s} (hI : SysInv d n s) (tid : Nat) (x x' : TxnSt)
    (hx : s.txns[tid]? = some x) (hh : x.holdsRead = true)
    (h1 : x'.t.readTs = x.t.readTs) (h2 : x'.phase = .closed) (h3 : x'.t.doneRead = true)
    (h4 : x.phase.returned) :
    SysInv d n { s with o := { s.o with readMark := s.o.readMark.send (.done x.t.readTs) },
                        txns := s.txns.set tid x', rmSent := s.rmSent ++ [.done x.t.readTs] } := by
  have hxm : x ∈ s.txns := List.mem_of_getElem? hx
  have hpos : 0 < s.txns.countP (holdsAt x.t.readTs) :=
    List.countP_pos_iff.mpr ⟨x, hxm, by simp [holdsAt, hh]⟩
  have hx'h : x'.holdsRead = false := by simp [TxnSt.holdsRead, h2]
  refine { notManaged := hI.notManaged, detect := hI.detect, live := hI.live, nextGt := hI.nextGt,
           histSorted := hI.histSorted, histLt := hI.histLt, committed := hI.committed,
           cleanupLe := hI.cleanupLe, doneSub := hI.doneSub, rmTracks := hI.rmTracks.send _,
           tmTracks := hI.tmTracks, rmOK := ?_, tmOK := hI.tmOK,
           rmCnt := ?_, rmMax := ?_, tmCnt := hI.tmCnt, tmMax := hI.tmMax,
           readTsLt := ?_, closedIff := ?_, waitIdx := ?_, applied := ?_, ssi := hI.ssi }
  · apply (marksOK_snoc _ _ _ _).mpr
    refine ⟨hI.rmOK, ?_⟩
    simp only [Mark.procs, procsOK, if_true, and_true]
    have := hI.rmCnt x.t.readTs
    simp only [rmGhost] at this
    rw [this]; omega
  · intro r
    have := hI.rmCnt r
    have hb := countP_set_balance (holdsAt r) s.txns tid x' x hx
    simp only [rmGhost, Ghost.run_snoc, Mark.procs, Ghost.procs, List.foldl_cons, List.foldl_nil,
      Ghost.proc] at this ⊢
    rw [this]
    have e1 : holdsAt r x' = false := by simp [holdsAt, hx'h]
    by_cases hr : x.t.readTs = r
    · have e2 : holdsAt r x = true := by simp [holdsAt, hh, hr]
      rw [e1, e2] at hb
      simp [hr] at hb ⊢; omega
    · have e2 : holdsAt r x = false := by simp [holdsAt, hh, hr]
      rw [e1, e2] at hb
      simp [hr] at hb ⊢; omega
  · have h := hI.rmMax
    have h' := hI.readTsLt x hxm
    simp only [rmGhost, Ghost.run_snoc, Mark.procs, Ghost.procs, List.foldl_cons, List.foldl_nil,
      Ghost.proc] at h ⊢
    omega
  · intro y hy
    rcases List.mem_or_eq_of_mem_set hy with hy | rfl
    · exact hI.readTsLt y hy
    · rw [h1]; exact hI.readTsLt x hxm
  · intro y hy
    rcases List.mem_or_eq_of_mem_set hy with hy | rfl
    · exact hI.closedIff y hy
    · simp [h2, h3]
  · intro idx w hw
    obtain ⟨y, hy, e⟩ := hI.waitIdx idx w hw
    by_cases hwt : tid = w
    · subst hwt
      rw [hx] at hy; cases hy
      exact ⟨x', getElem?_set_same _ _ _ _ hx, by rw [h1]; exact e⟩
    · exact ⟨y, by simp only; rw [getElem?_set_other _ _ _ _ hwt]; exact hy, e⟩
  · intro y hy hret h hh' hle
    rcases List.mem_or_eq_of_mem_set hy with hy | rfl
    · exact hI.applied y hy hret h hh' hle
    · rw [h1] at hle; exact hI.applied x hxm h4 h hh' hle

/-! ## `doneCommit` -/

theorem SysInv.doneCommit {d n s} (hI : SysInv d n s) (ts : Nat) (hts : ts ∈ s.allocatedNotDone) :
    SysInv d n { s with o := { s.o with txnMark := s.o.txnMark.send (.done ts) },
                        doneCommits := s.doneCommits ++ [ts], tmSent := s.tmSent ++ [.done ts] } := by
  obtain ⟨hm1, hm2⟩ := (mem_allocatedNotDone s ts).mp hts
  obtain ⟨h0, hh0, e0⟩ := List.mem_map.mp hm1
  have hlt : ts < s.o.nextTxnTs := by rw [← e0]; exact (hI.histLt h0 hh0).2
  have hiff : ∀ (s' : Sys) (t : Nat), s'.hist = s.hist → s'.doneCommits = s.doneCommits ++ [ts] →
      (t ∈ s'.allocatedNotDone ↔ t ∈ s.allocatedNotDone ∧ t ≠ ts) := by
    intro s' t e1 e2
    simp only [mem_allocatedNotDone, e1, e2, List.mem_append, List.mem_singleton]
    constructor
    · rintro ⟨a, b⟩; exact ⟨⟨a, fun h => b (.inl h)⟩, fun h => b (.inr h)⟩
    · rintro ⟨⟨a, b⟩, c⟩; exact ⟨a, fun h => h.elim b c⟩
  refine { notManaged := hI.notManaged, detect := hI.detect, live := hI.live, nextGt := hI.nextGt,
           histSorted := hI.histSorted, histLt := hI.histLt, committed := hI.committed,
           cleanupLe := hI.cleanupLe, doneSub := ?_, rmTracks := hI.rmTracks,
           tmTracks := hI.tmTracks.send _, rmOK := hI.rmOK, tmOK := ?_,
           rmCnt := hI.rmCnt, rmMax := hI.rmMax, tmCnt := ?_, tmMax := ?_,
           readTsLt := hI.readTsLt, closedIff := hI.closedIff, waitIdx := ?_, applied := ?_, ssi := hI.ssi }
  · intro t ht
    rcases List.mem_append.mp ht with ht | ht
    · exact hI.doneSub t ht
    · simp at ht; subst ht; exact hm1
  · apply (marksOK_snoc _ _ _ _).mpr
    refine ⟨hI.tmOK, ?_⟩
    simp only [Mark.procs, procsOK, if_true, and_true]
    have := hI.tmCnt ts
    simp only [tmGhost] at this
    rw [this, if_pos hts]; decide
  · intro t
    have := hI.tmCnt t
    have hi := hiff { s with o := { s.o with txnMark := s.o.txnMark.send (.done ts) },
                             doneCommits := s.doneCommits ++ [ts],
                             tmSent := s.tmSent ++ [.done ts] } t rfl rfl
    simp only [tmGhost, Ghost.run_snoc, Mark.procs, Ghost.procs, List.foldl_cons, List.foldl_nil,
      Ghost.proc] at this ⊢
    rw [this]
    by_cases hts' : ts = t
    · subst hts'
      rw [if_pos hts, if_neg (fun h => (hi.mp h).2 rfl)]; simp
    · have hne : t ≠ ts := fun h => hts' h.symm
      by_cases hta : t ∈ s.allocatedNotDone
      · rw [if_pos hta, if_pos (hi.mpr ⟨hta, hne⟩)]; simp [hts']
      · rw [if_neg hta, if_neg (fun h => hta (hi.mp h).1)]; simp [hts']
  · have h := hI.tmMax
    simp only [tmGhost, Ghost.run_snoc, Mark.procs, Ghost.procs, List.foldl_cons, List.foldl_nil,
      Ghost.proc] at h ⊢
    omega
  · intro idx w hw
    rcases List.mem_append.mp hw with hw | hw
    · exact hI.waitIdx idx w hw
    · simp at hw
  · intro y hy hret h hh hle
    exact List.mem_append.mpr (.inl (hI.applied y hy hret h hh hle))

/-! ## `commit` -/

theorem Oracle.hasConflict_eq_true (o : Oracle) (t : Txn) :
    o.hasConflict t = true ↔
      ∃ c ∈ o.committedTxns, t.readTs < c.ts ∧ ∃ fp ∈ t.reads, fp ∈ c.conflictKeys := by
  unfold Oracle.hasConflict
  split
  · rename_i he
    have : t.reads = [] := by simpa using he
    simp [this]
  · simp only [List.any_eq_true]
    constructor
    · rintro ⟨c, hc, h⟩
      split at h
      · simp at h
      · rename_i hlt
        simp only [List.any_eq_true, List.contains_eq_mem, decide_eq_true_eq] at h
        exact ⟨c, hc, by omega, h⟩
    · rintro ⟨c, hc, hlt, h⟩
      refine ⟨c, hc, ?_⟩
      rw [if_neg (by omega)]
      simp only [List.any_eq_true, List.contains_eq_mem, decide_eq_true_eq]
      exact h

theorem Oracle.hasConflict_eq_false (o : Oracle) (t : Txn) :
    o.hasConflict t = false ↔
      ∀ c ∈ o.committedTxns, t.readTs < c.ts → ∀ fp ∈ t.reads, fp ∉ c.conflictKeys := by
  have := Oracle.hasConflict_eq_true o t
  constructor
  · intro h c hc hlt fp hfp hmem
    have : o.hasConflict t = true := this.mpr ⟨c, hc, hlt, fp, hfp, hmem⟩
    rw [h] at this; cases this
  · intro h
    cases hv : o.hasConflict t with
    | false => rfl
    | true =>
      obtain ⟨c, hc, hlt, fp, hfp, hmem⟩ := this.mp hv
      exact absurd hmem (h c hc hlt fp hfp)

/-- **Cleanup is safe** (the crux of C02): an entry that a transaction still holding the read
    mark could conflict with has not been pruned from `committedTxns`. -/
theorem SysInv.cleanup_safe {n s} (hI : SysInv true n s) (x : TxnSt) (hx : x ∈ s.txns)
    (hh : x.holdsRead = true) (c : HistEntry) (hc : c ∈ s.hist) (hlt : x.t.readTs < c.ts) :
    toCommitted c ∈ s.o.committedTxns := by
  have h1 := hI.readMark_le x hx hh
  have h2 := hI.cleanupLe
  have hcm := hI.committed
  simp only [if_true] at hcm
  rw [hcm]
  apply List.mem_map.mpr
  refine ⟨c, List.mem_filter.mpr ⟨hc, ?_⟩, rfl⟩
  simp; omega


/-- The oracle after a successful `newCommitTs` in normal mode. -/
def commitO (o : Oracle) (t : Txn) : Oracle :=
  { o with readMark := o.readMark.send (.done t.readTs),
           lastCleanupTs := if o.detectConflicts then o.readMark.wm.doneUntil else o.lastCleanupTs,
           committedTxns := if o.detectConflicts then
               o.committedTxns.filter (fun c => !(decide (c.ts ≤ o.readMark.wm.doneUntil))) ++
                 [⟨o.nextTxnTs, t.conflictKeys⟩]
             else o.committedTxns,
           nextTxnTs := o.nextTxnTs + 1,
           txnMark := o.txnMark.send (.begin o.nextTxnTs) }

theorem Oracle.newCommitTs_normal (o : Oracle) (t : Txn) (hm : o.isManaged = false)
    (hc : o.hasConflict t = false) (hdr : t.doneRead = false)
    (h1 : o.lastCleanupTs ≤ o.readMark.wm.doneUntil) (h2 : o.readMark.wm.doneUntil < o.nextTxnTs)
    (h3 : o.readMark.wm.doneUntil = o.lastCleanupTs →
      o.committedTxns.filter (fun c => !(decide (c.ts ≤ o.readMark.wm.doneUntil))) = o.committedTxns) :
    o.newCommitTs t = (commitO o t, { t with doneRead := true }, .ok o.nextTxnTs) := by
  have hcl := Oracle.cleanup_normal ({ o with readMark := o.readMark.send (.done t.readTs) }) hm
  unfold Oracle.newCommitTs
  rw [if_neg (by simp [hc]), if_pos (by simp [hm])]
  simp only [Oracle.doneRead, hdr, Bool.not_false, if_true]
  rw [hcl]
  simp only [AWM.send]
  cases hd : o.detectConflicts with
  | false =>
    have hlt3 : ¬ o.nextTxnTs < o.lastCleanupTs := by omega
    simp [commitO, hd, AWM.send, hlt3]
  | true =>
    have hlt : ¬ o.readMark.wm.doneUntil < o.lastCleanupTs := by omega
    have hlt2 : ¬ o.nextTxnTs < o.readMark.wm.doneUntil := by omega
    have hlt3 : ¬ o.nextTxnTs < o.lastCleanupTs := by omega
    by_cases heq : o.readMark.wm.doneUntil = o.lastCleanupTs
    · have h3' := h3 heq
      rw [heq] at h3'
      simp [commitO, hd, AWM.send, heq, hlt3]
      exact h3'.symm
    · simp [commitO, hd, AWM.send, heq, hlt, hlt2]
      rfl

theorem SysInv.doneRead_false {d n s} (hI : SysInv d n s) (x : TxnSt) (hx : x ∈ s.txns)
    (hp : x.phase ≠ .closed) : x.t.doneRead = false := by
  have := hI.closedIff x hx
  cases h : x.t.doneRead with
  | false => rfl
  | true => exact absurd (this.mp h) hp

theorem SysInv.readDoneUntil_lt {d n s} (hI : SysInv d n s) :
    s.o.readMark.wm.doneUntil < s.o.nextTxnTs := by
  have h1 := hI.rmTracks.le_virt
  have h2 := hI.rmVirt.duLe
  have h3 := hI.rmMax
  omega

/-- In a reachable state `newCommitTs` of an open transaction without conflict never asserts and
    returns `nextTxnTs`. -/
theorem SysInv.newCommitTs_eq {d n s} (hI : SysInv d n s) (x : TxnSt) (hx : x ∈ s.txns)
    (hp : x.phase ≠ .closed) (hc : s.o.hasConflict x.t = false) :
    s.o.newCommitTs x.t = (commitO s.o x.t, { x.t with doneRead := true }, .ok s.o.nextTxnTs) := by
  apply Oracle.newCommitTs_normal _ _ hI.notManaged hc (hI.doneRead_false x hx hp) hI.cleanupLe
    hI.readDoneUntil_lt
  intro heq
  have hcm := hI.committed
  cases d with
  | false => simp at hcm; rw [hcm]; rfl
  | true =>
    simp only [if_true] at hcm
    rw [hcm, committed_filter s.hist s.o.lastCleanupTs s.o.readMark.wm.doneUntil hI.cleanupLe, heq]

theorem SysInv.commitOk {d n s} (hI : SysInv d n s) (tid : Nat) (x : TxnSt)
    (hx : s.txns[tid]? = some x) (hp : x.phase = .active) (hc : s.o.hasConflict x.t = false) :
    SysInv d n { s with o := commitO s.o x.t,
                        txns := s.txns.set tid (TxnSt.mk { x.t with doneRead := true } .closed (some s.o.nextTxnTs)),
                        hist := s.hist ++ [⟨s.o.nextTxnTs, x.t.readTs, x.t.reads, x.t.conflictKeys, tid⟩],
                        rmSent := s.rmSent ++ [.done x.t.readTs],
                        tmSent := s.tmSent ++ [.begin s.o.nextTxnTs] } := by
  have hxm : x ∈ s.txns := List.mem_of_getElem? hx
  have hh : x.holdsRead = true := by
    have := hI.doneRead_false x hxm (by rw [hp]; decide)
    simp [TxnSt.holdsRead, hp, this]
  have hpos : 0 < s.txns.countP (holdsAt x.t.readTs) :=
    List.countP_pos_iff.mpr ⟨x, hxm, by simp [holdsAt, hh]⟩
  have hdu := hI.readDoneUntil_lt
  have hrt := hI.readTsLt x hxm
  have hnotin : s.o.nextTxnTs ∉ s.hist.map (·.ts) := by
    intro hm
    obtain ⟨h0, hh0, e0⟩ := List.mem_map.mp hm
    have := (hI.histLt h0 hh0).2
    omega
  have hiff : ∀ (s' : Sys) (t : Nat),
      s'.hist = s.hist ++ [⟨s.o.nextTxnTs, x.t.readTs, x.t.reads, x.t.conflictKeys, tid⟩] →
      s'.doneCommits = s.doneCommits →
      (t ∈ s'.allocatedNotDone ↔ t ∈ s.allocatedNotDone ∨ t = s.o.nextTxnTs) := by
    intro s' t e1 e2
    simp only [mem_allocatedNotDone, e1, e2, List.map_append, List.mem_append, List.map_cons,
      List.map_nil, List.mem_singleton]
    constructor
    · rintro ⟨a | a, b⟩
      · exact .inl ⟨a, b⟩
      · exact .inr a
    · rintro (⟨a, b⟩ | a)
      · exact ⟨.inl a, b⟩
      · refine ⟨.inr a, ?_⟩
        intro hdn; rw [a] at hdn; exact hnotin (hI.doneSub _ hdn)
  refine { notManaged := hI.notManaged, detect := hI.detect, live := hI.live, nextGt := ?_,
           histSorted := ?_, histLt := ?_, committed := ?_,
           cleanupLe := ?_, doneSub := ?_, rmTracks := hI.rmTracks.send _,
           tmTracks := hI.tmTracks.send _, rmOK := ?_, tmOK := ?_,
           rmCnt := ?_, rmMax := ?_, tmCnt := ?_, tmMax := ?_,
           readTsLt := ?_, closedIff := ?_, waitIdx := ?_, applied := ?_, ssi := ?_ }
  · have := hI.nextGt; simp only [commitO]; omega
  · apply List.pairwise_append.mpr
    refine ⟨hI.histSorted, by simp, ?_⟩
    intro a ha b hb
    simp at hb; subst hb
    exact (hI.histLt a ha).2
  · intro h hh'
    simp only [commitO]
    rcases List.mem_append.mp hh' with hh' | hh'
    · have := hI.histLt h hh'; omega
    · simp at hh'; subst hh'; simp only; have := hI.nextGt; omega
  · have hcm := hI.committed
    have hd := hI.detect
    simp only [commitO, hd]
    cases d with
    | false => simp at hcm ⊢; exact hcm
    | true =>
      simp only [if_true] at hcm ⊢
      rw [hcm, committed_filter s.hist s.o.lastCleanupTs s.o.readMark.wm.doneUntil hI.cleanupLe,
        List.filter_append, List.map_append]
      congr 1
      simp [toCommitted, hdu]
  · have := hI.cleanupLe
    simp only [commitO, AWM.send]
    split <;> omega
  · intro t ht
    simp only [List.map_append, List.mem_append]
    exact .inl (hI.doneSub t ht)
  · apply (marksOK_snoc _ _ _ _).mpr
    refine ⟨hI.rmOK, ?_⟩
    simp only [Mark.procs, procsOK, if_true, and_true]
    have := hI.rmCnt x.t.readTs
    simp only [rmGhost] at this
    rw [this]; omega
  · apply (marksOK_snoc _ _ _ _).mpr
    refine ⟨hI.tmOK, ?_⟩
    have := hI.tmMax
    simp only [tmGhost] at this
    simp only [Mark.procs, procsOK, Bool.false_eq_true, if_false, if_true, and_true]
    exact this
  · intro r
    have := hI.rmCnt r
    have hb := countP_set_balance (holdsAt r) s.txns tid
      (TxnSt.mk { x.t with doneRead := true } .closed (some s.o.nextTxnTs)) x hx
    simp only [rmGhost, Ghost.run_snoc, Mark.procs, Ghost.procs, List.foldl_cons, List.foldl_nil,
      Ghost.proc] at this ⊢
    rw [this]
    have e1 : holdsAt r (TxnSt.mk { x.t with doneRead := true } .closed (some s.o.nextTxnTs)) = false := by
      simp [holdsAt, TxnSt.holdsRead]
    by_cases hr : x.t.readTs = r
    · have e2 : holdsAt r x = true := by simp [holdsAt, hh, hr]
      rw [e1, e2] at hb
      simp [hr] at hb ⊢; omega
    · have e2 : holdsAt r x = false := by simp [holdsAt, hh, hr]
      rw [e1, e2] at hb
      simp [hr] at hb ⊢; omega
  · have h := hI.rmMax
    simp only [rmGhost, Ghost.run_snoc, Mark.procs, Ghost.procs, List.foldl_cons, List.foldl_nil,
      Ghost.proc, commitO] at h ⊢
    omega
  · intro t
    have := hI.tmCnt t
    have hi := hiff { s with o := commitO s.o x.t,
                             txns := s.txns.set tid (TxnSt.mk { x.t with doneRead := true } .closed (some s.o.nextTxnTs)),
                             hist := s.hist ++ [⟨s.o.nextTxnTs, x.t.readTs, x.t.reads, x.t.conflictKeys, tid⟩],
                             rmSent := s.rmSent ++ [.done x.t.readTs],
                             tmSent := s.tmSent ++ [.begin s.o.nextTxnTs] } t rfl rfl
    simp only [tmGhost, Ghost.run_snoc, Mark.procs, Ghost.procs, List.foldl_cons, List.foldl_nil,
      Ghost.proc] at this ⊢
    rw [this]
    have hna : s.o.nextTxnTs ∉ s.allocatedNotDone := fun h => hnotin ((mem_allocatedNotDone _ _).mp h).1
    by_cases hts' : s.o.nextTxnTs = t
    · subst hts'
      rw [if_neg hna, if_pos (hi.mpr (.inr rfl))]; simp
    · have hne : t ≠ s.o.nextTxnTs := fun h => hts' h.symm
      by_cases hta : t ∈ s.allocatedNotDone
      · rw [if_pos hta, if_pos (hi.mpr (.inl hta))]; simp [hts']
      · rw [if_neg hta, if_neg (fun h => (hi.mp h).elim hta hne)]; simp [hts']
  · have h := hI.tmMax
    simp only [tmGhost, Ghost.run_snoc, Mark.procs, Ghost.procs, List.foldl_cons, List.foldl_nil,
      Ghost.proc, commitO] at h ⊢
    omega
  · intro y hy
    simp only [commitO]
    rcases List.mem_or_eq_of_mem_set hy with hy | rfl
    · have := hI.readTsLt y hy; omega
    · simp only; omega
  · intro y hy
    rcases List.mem_or_eq_of_mem_set hy with hy | rfl
    · exact hI.closedIff y hy
    · simp
  · intro idx w hw
    rcases List.mem_append.mp hw with hw | hw
    · obtain ⟨y, hy, e⟩ := hI.waitIdx idx w hw
      by_cases hwt : tid = w
      · subst hwt
        rw [hx] at hy; cases hy
        exact ⟨_, getElem?_set_same _ _ _ _ hx, e⟩
      · exact ⟨y, by simp only; rw [getElem?_set_other _ _ _ _ hwt]; exact hy, e⟩
    · simp at hw
  · intro y hy hret h hh' hle
    have hyl : y.t.readTs < s.o.nextTxnTs := by
      rcases List.mem_or_eq_of_mem_set hy with hy | rfl
      · exact hI.readTsLt y hy
      · exact hrt
    rcases List.mem_append.mp hh' with hh' | hh'
    · rcases List.mem_or_eq_of_mem_set hy with hy | rfl
      · exact hI.applied y hy hret h hh' hle
      · exact hI.applied x hxm (by rw [hp]; exact .inl rfl) h hh' hle
    · simp at hh'; subst hh'; simp only at hle; omega
  · intro hd h hh' c hc' hlt1 hlt2 fp hfp
    subst hd
    rcases List.mem_append.mp hh' with hh' | hh'
    · rcases List.mem_append.mp hc' with hc' | hc'
      · exact hI.ssi rfl h hh' c hc' hlt1 hlt2 fp hfp
      · simp at hc'; subst hc'
        have := (hI.histLt h hh').2
        simp only at hlt2; omega
    · simp at hh'; subst hh'
      simp only at hlt1 hlt2 hfp
      rcases List.mem_append.mp hc' with hc' | hc'
      · have hin := hI.cleanup_safe x hxm hh c hc' hlt1
        exact (Oracle.hasConflict_eq_false _ _).mp hc (toCommitted c) hin hlt1 fp hfp
      · simp at hc'; subst hc'; simp only at hlt2; omega

/-! ## Every reachable state satisfies the invariant -/

theorem OReach.inv {d : Bool} {n : Nat} {s : Sys} (h : OReach false d n s) : SysInv d n s := by
  induction h with
  | init => exact SysInv.init d n
  | @step s s' l _ hstep ih =>
    have hnm := ih.notManaged
    have hlive := ih.live
    have hg1 : ¬ (s.crashed = true ∨ s.o.isManaged = true) := by simp [hnm, hlive]
    have hg2 : ¬ (s.crashed = true) := by simp [hlive]
    cases l with
    | begin upd =>
      simp only [Sys.step] at hstep
      rw [if_neg hg1] at hstep
      simp only [Option.some.injEq] at hstep
      subst hstep
      exact ih.begin upd
    | waitCheck tid =>
      simp only [Sys.step] at hstep
      rw [if_neg hg2] at hstep
      cases hx : s.txns[tid]? with
      | none => rw [hx] at hstep; simp at hstep
      | some x =>
        rw [hx] at hstep
        simp only at hstep
        split at hstep
        · simp at hstep
        · rename_i hph
          have hph' : x.phase = .started := by simpa using hph
          have hdr : x.t.doneRead = false :=
            ih.doneRead_false x (List.mem_of_getElem? hx) (by rw [hph']; decide)
          simp only [Oracle.readTsWait] at hstep
          split at hstep
          · rename_i hge
            simp only [if_true, Option.some.injEq] at hstep
            subst hstep
            exact ih.setTxn tid x { x with phase := .active } hx rfl
              (by simp only [TxnSt.holdsRead, hph']; rfl) (by simp [hdr])
              (fun _ => .inr (ih.applied_of_doneUntil x.t.readTs hge))
          · simp only [Bool.false_eq_true, if_false, Option.some.injEq] at hstep
            subst hstep
            have h1 : SysInv d n { s with txns := s.txns.set tid { x with phase := .parked } } :=
              ih.setTxn tid x { x with phase := .parked } hx rfl
                (by simp only [TxnSt.holdsRead, hph']; rfl) (by simp [hdr])
                (fun hr => by rcases hr with h' | h' | h' <;> simp at h')
            exact h1.sendWait tid { x with phase := .parked } (getElem?_set_same _ _ _ _ hx)
    | procTxnMark =>
      simp only [Sys.step] at hstep
      rw [if_neg hg2] at hstep
      cases hp : s.o.txnMark.process with
      | none => rw [hp] at hstep; simp at hstep
      | some r =>
        obtain ⟨a, wk⟩ := r
        rw [hp] at hstep
        simp only [Option.some.injEq] at hstep
        subst hstep
        exact ih.procTxnMark a wk hp
    | procReadMark =>
      simp only [Sys.step] at hstep
      rw [if_neg hg2] at hstep
      cases hp : s.o.readMark.process with
      | none => rw [hp] at hstep; simp at hstep
      | some r =>
        obtain ⟨a, wk⟩ := r
        rw [hp] at hstep
        simp only [Option.some.injEq] at hstep
        subst hstep
        exact ih.procReadMark a wk hp
    | read tid fp =>
      simp only [Sys.step] at hstep
      rw [if_neg hg2] at hstep
      cases hx : s.txns[tid]? with
      | none => rw [hx] at hstep; simp at hstep
      | some x =>
        rw [hx] at hstep
        simp only at hstep
        split at hstep
        · simp at hstep
        · split at hstep
          · simp only [Option.some.injEq] at hstep
            subst hstep
            exact ih.setTxn tid x { x with t := { x.t with reads := x.t.reads ++ [fp] } } hx rfl rfl
              (ih.closedIff x (List.mem_of_getElem? hx)) (fun hr => .inl hr)
          · simp only [Option.some.injEq] at hstep
            subst hstep; exact ih
    | write tid fp =>
      simp only [Sys.step] at hstep
      rw [if_neg hg2] at hstep
      cases hx : s.txns[tid]? with
      | none => rw [hx] at hstep; simp at hstep
      | some x =>
        rw [hx] at hstep
        simp only at hstep
        split at hstep
        · simp at hstep
        · simp only [Option.some.injEq] at hstep
          subst hstep
          exact ih.setTxn tid x _ hx (by rfl) (by rfl)
            (ih.closedIff x (List.mem_of_getElem? hx)) (fun hr => .inl hr)
    | commit tid =>
      simp only [Sys.step] at hstep
      rw [if_neg hg1] at hstep
      cases hx : s.txns[tid]? with
      | none => rw [hx] at hstep; simp at hstep
      | some x =>
        rw [hx] at hstep
        simp only at hstep
        split at hstep
        · simp at hstep
        · rename_i hcond
          have hph : x.phase = .active := by
            by_cases h : x.phase = .active
            · exact h
            · exact absurd (.inl h) hcond
          have hxm := List.mem_of_getElem? hx
          cases hc : s.o.hasConflict x.t with
          | true =>
            have e : s.o.newCommitTs x.t = (s.o, x.t, .conflict) := by simp [Oracle.newCommitTs, hc]
            rw [e] at hstep
            simp only [Option.some.injEq] at hstep
            subst hstep
            exact ih.setTxn tid x { x with t := x.t, phase := .closing } hx rfl
              (by simp only [TxnSt.holdsRead, hph]; rfl) (by
                have := ih.doneRead_false x hxm (by rw [hph]; decide)
                simp [this]) (fun _ => .inl (by rw [hph]; exact .inl rfl))
          | false =>
            rw [ih.newCommitTs_eq x hxm (by rw [hph]; decide) hc] at hstep
            simp only [Option.some.injEq] at hstep
            subst hstep
            exact ih.commitOk tid x hx hph hc
    | discard tid =>
      simp only [Sys.step] at hstep
      rw [if_neg hg2] at hstep
      cases hx : s.txns[tid]? with
      | none => rw [hx] at hstep; simp at hstep
      | some x =>
        rw [hx] at hstep
        simp only at hstep
        split at hstep
        · simp at hstep
        · rename_i hcond
          have hxm := List.mem_of_getElem? hx
          have hnc : x.phase ≠ .closed := by
            intro hcl; apply hcond; rw [hcl]; exact ⟨by decide, by decide⟩
          have hdr := ih.doneRead_false x hxm hnc
          have hret : x.phase.returned := by
            by_cases h1 : x.phase = .active
            · exact .inl h1
            · by_cases h2 : x.phase = .closing
              · exact .inr (.inl h2)
              · exact absurd ⟨h1, h2⟩ hcond
          rw [if_neg (by simp [hnm])] at hstep
          simp only [Oracle.doneRead, hdr, Bool.not_false, if_true, Bool.false_eq_true, if_false,
            Option.some.injEq] at hstep
          subst hstep
          exact ih.rmDone tid x _ hx (by simp [TxnSt.holdsRead, hdr, hnc]) (by rfl) (by rfl) (by rfl) hret
    | doneCommit ts =>
      simp only [Sys.step] at hstep
      split at hstep
      · simp at hstep
      · rename_i hc
        have hts : ts ∈ s.allocatedNotDone := by
          have : ¬ ((!s.allocatedNotDone.contains ts) = true) := fun h => hc (.inr h)
          simpa using this
        have ho : s.o.doneCommit ts = { s.o with txnMark := s.o.txnMark.send (.done ts) } := by
          unfold Oracle.doneCommit; rw [if_neg (by simp [hnm])]
        rw [ho, if_neg (by simp [hnm])] at hstep
        simp only [Option.some.injEq] at hstep
        subst hstep
        exact ih.doneCommit ts hts
    | beginAt r u => simp [Sys.step, hnm] at hstep
    | commitAt tid ts => simp [Sys.step, hnm] at hstep
    | setDiscardTs ts => simp [Sys.step, hnm] at hstep
    | cleanup =>
      simp only [Sys.step] at hstep
      rw [if_neg hg2, ih.cleanup_eq] at hstep
      simp only [Option.some.injEq] at hstep
      subst hstep
      exact ih.cleanup _ ih.cleanup_eq

/-! ## Executing a list of labels (for concrete, non-vacuity instances) -/

def Sys.runLabels (s : Sys) : List Label → Option Sys
  | [] => some s
  | l :: ls => (s.step l).bind (fun s' => s'.runLabels ls)

theorem OReach.ofRun {m d : Bool} {n : Nat} {s s' : Sys} (h : OReach m d n s) (ls : List Label)
    (hr : s.runLabels ls = some s') : OReach m d n s' := by
  induction ls generalizing s with
  | nil => simp [Sys.runLabels] at hr; subst hr; exact h
  | cons l ls ih =>
    simp only [Sys.runLabels] at hr
    cases hs : s.step l with
    | none => rw [hs] at hr; simp at hr
    | some s1 =>
      rw [hs] at hr
      exact ih (OReach.step l h hs) hr

end Badger
