import BadgerModel.Block
import BadgerProofs.Lemmas.Bytes
/-!
Lemmas for the table block format (C18): uvarint / ValueStruct round trip, entry header,
chunked byte strings and their offsets, the `setIdx` invariant, `sort.Search`.
-/
namespace Badger.Tbl
open Badger

/-! ## uvarint, ValueStruct -/

theorem u8_toNat_ofNat_lt (n : Nat) (h : n < 256) : (UInt8.ofNat n).toNat = n :=
  u8_ofNat_toNat n h

theorem uvarintF_putUvarintF (f : Nat) : ∀ (i x n : Nat) (rest : Bytes),
    i + f = 9 → n < 2 ^ (64 - 7 * i) →
    uvarintF i (7 * i) x (putUvarintF f n ++ rest) =
      (x + n * 2 ^ (7 * i), (i : Int) + (putUvarintF f n).length) := by
  induction f with
  | zero =>
    intro i x n rest hi hn
    have hi9 : i = 9 := by omega
    subst hi9
    have hn2 : n < 2 := by simpa using hn
    simp only [putUvarintF, List.cons_append, List.nil_append, uvarintF]
    have : (UInt8.ofNat n).toNat = n := u8_ofNat_toNat n (by omega)
    rw [this]
    have h1 : n < 128 := by omega
    simp [h1]
    omega
  | succ f ih =>
    intro i x n rest hi hn
    have hi8 : i ≤ 8 := by omega
    unfold putUvarintF
    by_cases h128 : n < 128
    · simp only [h128, if_true, List.cons_append, List.nil_append, uvarintF]
      have : (UInt8.ofNat n).toNat = n := u8_ofNat_toNat n (by omega)
      have hne10 : ¬ i = 10 := by omega
      have hne9 : ¬ i = 9 := by omega
      rw [this]
      simp [hne10, hne9, h128]
    · simp only [h128, if_false, List.cons_append, uvarintF]
      have hb : (UInt8.ofNat (n % 128 + 128)).toNat = n % 128 + 128 :=
        u8_ofNat_toNat _ (by omega)
      have hne10 : ¬ i = 10 := by omega
      have hnlt : ¬ (n % 128 + 128 < 128) := by omega
      rw [hb]
      simp only [hne10, if_false, hnlt]
      have hmod : (n % 128 + 128) % 128 = n % 128 := by omega
      rw [hmod]
      have h7 : 7 * (i + 1) = 7 * i + 7 := by omega
      have hpow : (2:Nat) ^ (64 - 7 * i) = 128 * 2 ^ (64 - 7 * (i + 1)) := by
        have : 64 - 7 * i = (64 - 7 * (i + 1)) + 7 := by omega
        rw [this, Nat.pow_add]; omega
      have hdiv : n / 128 < 2 ^ (64 - 7 * (i + 1)) := by
        rw [Nat.div_lt_iff_lt_mul (by decide)]; omega
      have := ih (i + 1) (x + n % 128 * 2 ^ (7 * i)) (n / 128) rest (by omega) hdiv
      rw [h7] at this
      rw [this]
      have hp : (2:Nat) ^ (7 * i + 7) = 2 ^ (7 * i) * 128 := by rw [Nat.pow_add]
      have hnm : n = 128 * (n / 128) + n % 128 := (Nat.div_add_mod n 128).symm
      refine Prod.ext ?_ ?_
      · simp only [hp]
        generalize 2 ^ (7 * i) = P
        have : n * P = (128 * (n / 128) + n % 128) * P := by rw [← hnm]
        rw [this, Nat.add_mul, Nat.add_assoc]
        congr 1
        rw [Nat.add_comm]
        congr 1
        rw [Nat.mul_comm 128, Nat.mul_assoc, Nat.mul_comm 128 P]
      · simp only [List.length_cons]
        push_cast
        omega

theorem uvarint_putUvarint (n : Nat) (rest : Bytes) (h : n < 2 ^ 64) :
    uvarint (putUvarint n ++ rest) = (n, ((putUvarint n).length : Int)) := by
  have := uvarintF_putUvarintF 9 0 0 n rest (by omega) (by simpa using h)
  simpa [uvarint, putUvarint] using this

theorem decodeVS_encVS (v : VS) (h : v.expiresAt < 2 ^ 64) : decodeVS (encVS v) = some v := by
  unfold decodeVS encVS
  simp only [uvarint_putUvarint _ _ h]
  have : ¬ ((putUvarint v.expiresAt).length : Int) < 0 := by omega
  simp

/-! ## slices -/

theorem slice_eq_some {b : Bytes} {lo hi : Nat} (h1 : lo ≤ hi) (h2 : hi ≤ b.length) :
    slice b lo hi = some ((b.take hi).drop lo) := by
  simp [slice, h1, h2]

/-- `(p ++ c ++ r)[|p| : |p|+|c|] = c` -/
theorem slice_mid (p c r : Bytes) :
    slice (p ++ (c ++ r)) p.length (p.length + c.length) = some c := by
  rw [slice_eq_some (by omega) (by simp)]
  rw [← List.append_assoc, List.take_append_of_le_length (by simp)]
  have : (p ++ c).take (p.length + c.length) = p ++ c := List.take_of_length_le (by simp)
  rw [this]; simp

theorem slice_mid' (p c r : Bytes) (lo hi : Nat) (hlo : lo = p.length) (hhi : hi = p.length + c.length) :
    slice (p ++ (c ++ r)) lo hi = some c := by
  subst hlo; subst hhi; exact slice_mid p c r

theorem slice_prefix (c r : Bytes) (n : Nat) (h : n = c.length) : slice (c ++ r) 0 n = some c := by
  subst h
  have := slice_mid [] c r
  simpa using this

theorem slice_suffix (p c : Bytes) (lo hi : Nat) (hlo : lo = p.length) (hhi : hi = (p ++ c).length) :
    slice (p ++ c) lo hi = some c := by
  have := slice_mid' p c [] lo hi hlo (by simpa using hhi)
  simpa using this

theorem slice_take (b : Bytes) (n : Nat) (h : n ≤ b.length) : slice b 0 n = some (b.take n) := by
  rw [slice_eq_some (by omega) h]; simp

/-! ## header -/

theorem leNat_leBytes2 (n : Nat) (h : n < 65536) : leNat (leBytes n 2) = n :=
  leNat_leBytes n 2 (by simpa using h)

theorem hdr_length (a b : Nat) : (hdr a b).length = 4 := by simp [hdr]

theorem hdr_take2 (a b : Nat) (h : a < 65536) : leNat ((hdr a b).take 2) = a := by
  simp [hdr, leNat_leBytes2 a h]

theorem hdr_drop2 (a b : Nat) (h : b < 65536) : leNat ((hdr a b).drop 2) = b := by
  simp [hdr, leNat_leBytes2 b h]

/-! ## common prefix -/

theorem commonPrefixLen_le_left (a b : Bytes) : commonPrefixLen a b ≤ a.length := by
  induction a generalizing b with
  | nil => simp [commonPrefixLen]
  | cons x xs ih =>
    cases b with
    | nil => simp [commonPrefixLen]
    | cons y ys =>
      simp only [commonPrefixLen]
      split
      · have := ih ys; simp; omega
      · simp

theorem commonPrefixLen_le_right (a b : Bytes) : commonPrefixLen a b ≤ b.length := by
  induction a generalizing b with
  | nil => simp [commonPrefixLen]
  | cons x xs ih =>
    cases b with
    | nil => simp [commonPrefixLen]
    | cons y ys =>
      simp only [commonPrefixLen]
      split
      · have := ih ys; simp; omega
      · simp

theorem take_commonPrefixLen (a b : Bytes) :
    a.take (commonPrefixLen a b) = b.take (commonPrefixLen a b) := by
  induction a generalizing b with
  | nil => simp [commonPrefixLen]
  | cons x xs ih =>
    cases b with
    | nil => simp [commonPrefixLen]
    | cons y ys =>
      simp only [commonPrefixLen]
      split
      · rename_i h; subst h; simp [ih ys]
      · simp

/-- The key is the base-key prefix of length `overlap` followed by the stored diff. -/
theorem key_eq_take_append_keyDiff (key base : Bytes) :
    key = base.take (key.length - (keyDiff key base).length) ++ keyDiff key base := by
  have hle := commonPrefixLen_le_left key base
  have hlen : key.length - (keyDiff key base).length = commonPrefixLen key base := by
    simp [keyDiff]; omega
  rw [hlen, ← take_commonPrefixLen, keyDiff, List.take_append_drop]

theorem overlap_le_base (key base : Bytes) :
    key.length - (keyDiff key base).length ≤ base.length := by
  have hle := commonPrefixLen_le_left key base
  have := commonPrefixLen_le_right key base
  simp [keyDiff]; omega

/-! ## little-endian u32 lists -/

theorem u32sLE_length (xs : List Nat) : (u32sLE xs).length = 4 * xs.length := by
  induction xs with
  | nil => rfl
  | cons x xs ih => simp [u32sLE, ih]; omega

theorem u32sLE_append (xs ys : List Nat) : u32sLE (xs ++ ys) = u32sLE xs ++ u32sLE ys := by
  induction xs with
  | nil => rfl
  | cons x xs ih => simp [u32sLE, ih]

theorem leBytes4_eq (x : Nat) : ∃ a b c d, leBytes x 4 = [a, b, c, d] := by
  simp [leBytes]

theorem bytesToU32s_u32sLE (xs : List Nat) (h : ∀ x ∈ xs, x < 4294967296) :
    bytesToU32s (u32sLE xs) = xs := by
  induction xs with
  | nil => rfl
  | cons x xs ih =>
    obtain ⟨a, b, c, d, hx⟩ := leBytes4_eq x
    have hx4 : leNat (leBytes x 4) = x := leNat_leBytes x 4 (by simpa using h x (by simp))
    simp only [u32sLE, hx, List.cons_append, List.nil_append, bytesToU32s]
    rw [← hx, hx4, ih (fun y hy => h y (by simp [hy]))]

/-! ## Specification of the entries region of a block -/

/-- Bytes of one entry as `addHelper` writes them (`base = []`: first entry of the block). -/
def entryChunk (base : Bytes) (e : Entry) : Bytes :=
  hdr (e.key.length - (if base.length = 0 then e.key else keyDiff e.key base).length)
      (if base.length = 0 then e.key else keyDiff e.key base).length ++
    (if base.length = 0 then e.key else keyDiff e.key base) ++ encVS e.vs

def chunks : List Entry → List Bytes
  | [] => []
  | e :: es => entryChunk [] e :: es.map (entryChunk e.key)

def offsFrom : Nat → List Bytes → List Nat
  | _, [] => []
  | s, c :: cs => s :: offsFrom (s + c.length) cs

def baseOf : List Entry → Bytes
  | [] => []
  | e :: _ => e.key

def blockData (es : List Entry) : Bytes := (chunks es).flatten
def blockOffs (es : List Entry) : List Nat := offsFrom 0 (chunks es)

@[simp] theorem chunks_length (es : List Entry) : (chunks es).length = es.length := by
  cases es <;> simp [chunks]

@[simp] theorem offsFrom_length (s : Nat) (cs : List Bytes) : (offsFrom s cs).length = cs.length := by
  induction cs generalizing s with
  | nil => rfl
  | cons c cs ih => simp [offsFrom, ih]

theorem offsFrom_append (s : Nat) (cs : List Bytes) (c : Bytes) :
    offsFrom s (cs ++ [c]) = offsFrom s cs ++ [s + cs.flatten.length] := by
  induction cs generalizing s with
  | nil => simp [offsFrom]
  | cons x xs ih => simp [offsFrom, ih, Nat.add_assoc]

theorem offsFrom_le (s : Nat) (cs : List Bytes) : ∀ x ∈ offsFrom s cs, x ≤ s + cs.flatten.length := by
  induction cs generalizing s with
  | nil => simp [offsFrom]
  | cons c cs ih =>
    intro x hx
    simp only [offsFrom, List.mem_cons] at hx
    rcases hx with rfl | hx
    · omega
    · have := ih _ x hx
      simp only [List.flatten_cons, List.length_append]; omega

theorem chunks_append (e0 : Entry) (r : List Entry) (e : Entry) :
    chunks ((e0 :: r) ++ [e]) = chunks (e0 :: r) ++ [entryChunk e0.key e] := by
  simp [chunks]

/-- Slicing the concatenation of chunks at the recorded offsets gives back the chunks. -/
theorem slice_chunk (cs : List Bytes) : ∀ (pre : Bytes) (i : Nat) (c : Bytes), cs[i]? = some c →
    slice (pre ++ cs.flatten) ((offsFrom pre.length cs).getD i 0)
      (if i + 1 = cs.length then (pre ++ cs.flatten).length else (offsFrom pre.length cs).getD (i + 1) 0)
      = some c := by
  induction cs with
  | nil => intro pre i c h; simp at h
  | cons x xs ih =>
    intro pre i c h
    cases i with
    | zero =>
      simp only [List.getElem?_cons_zero, Option.some.injEq] at h
      subst h
      simp only [offsFrom, List.getD_cons_zero, List.flatten_cons]
      cases xs with
      | nil =>
        simp only [List.length_cons, List.length_nil, List.flatten_nil, if_true]
        exact slice_mid' pre x [] _ _ rfl (by simp)
      | cons y ys =>
        have : ¬ (0 + 1 = (x :: y :: ys).length) := by simp
        simp only [this, if_false, offsFrom, List.getD_cons_succ, List.getD_cons_zero]
        exact slice_mid' pre x _ _ _ rfl rfl
    | succ j =>
      simp only [List.getElem?_cons_succ] at h
      have := ih (pre ++ x) j c h
      simp only [offsFrom, List.getD_cons_succ, List.flatten_cons, List.length_cons]
      simp only [List.length_append, List.append_assoc] at this
      by_cases hj : j + 1 = xs.length
      · have h2 : j + 1 + 1 = xs.length + 1 := by omega
        simp only [hj, if_true] at this ⊢
        simpa [List.length_append, Nat.add_assoc] using this
      · have h2 : ¬ (j + 1 + 1 = xs.length + 1) := by omega
        simp only [hj, h2, if_false] at this ⊢
        exact this

/-- Shape of the `i`-th chunk of a block: header `(overlap, |diff|)`, diff, value, with the
    key equal to the base-key prefix of length `overlap` followed by `diff`. -/
theorem chunk_facts (es : List Entry) (hb : baseOf es ≠ []) (i : Nat) (e : Entry)
    (he : es[i]? = some e) :
    ∃ ov d, (chunks es)[i]? = some (hdr ov d.length ++ (d ++ encVS e.vs)) ∧
      e.key = (baseOf es).take ov ++ d ∧ ov ≤ (baseOf es).length ∧
      ov + d.length = e.key.length ∧ (i = 0 → ov = 0) := by
  cases es with
  | nil => simp at he
  | cons e0 r =>
    cases i with
    | zero =>
      simp only [List.getElem?_cons_zero, Option.some.injEq] at he
      subst he
      refine ⟨0, e0.key, ?_, ?_, ?_, ?_, ?_⟩ <;> simp [chunks, entryChunk, baseOf]
    | succ j =>
      simp only [List.getElem?_cons_succ] at he
      have hb' : ¬ (e0.key.length = 0) := by
        intro h; apply hb; simpa [baseOf] using List.eq_nil_of_length_eq_zero h
      refine ⟨e.key.length - (keyDiff e.key e0.key).length, keyDiff e.key e0.key, ?_, ?_, ?_, ?_, ?_⟩
      · simp [chunks, entryChunk, he, hb']
      · exact key_eq_take_append_keyDiff e.key e0.key
      · exact overlap_le_base e.key e0.key
      · have : (keyDiff e.key e0.key).length ≤ e.key.length := by simp [keyDiff]
        omega
      · intro h; omega

/-! ## The `setIdx` invariant -/

structure BlockWF (es : List Entry) : Prop where
  base_ne : baseOf es ≠ []
  key_le : ∀ e ∈ es, e.key.length ≤ 65531
  size : (blockData es).length < 4294967296

/-- What holds of a block iterator positioned anywhere on the block built from `es`:
    the first `prevOverlap` bytes of the key buffer are those of the base key. -/
structure BlockInv (es : List Entry) (it : BlockIter) : Prop where
  data : it.data = blockData es
  offs : it.entryOffsets = blockOffs es
  base : it.baseKey = [] ∨ it.baseKey = baseOf es
  pre : it.key.take it.prevOverlap = (baseOf es).take it.prevOverlap
  le_base : it.prevOverlap ≤ (baseOf es).length
  le_key : it.prevOverlap ≤ it.key.length

theorem BlockWF.ne_nil {es : List Entry} (wf : BlockWF es) : es ≠ [] := by
  intro h; subst h; exact wf.base_ne rfl

theorem decodeBase_ok {es : List Entry} {it : BlockIter} (wf : BlockWF es) (inv : BlockInv es it) :
    it.decodeBase = some (baseOf es) := by
  unfold BlockIter.decodeBase
  by_cases h0 : it.baseKey.length = 0
  · simp only [h0, if_true]
    obtain ⟨e0, r, rfl⟩ := List.exists_cons_of_ne_nil wf.ne_nil
    have hk : e0.key.length ≤ 65531 := wf.key_le e0 (by simp)
    have hd : it.data = hdr 0 e0.key.length ++ (e0.key ++ (encVS e0.vs ++ (r.map (entryChunk e0.key)).flatten)) := by
      rw [inv.data]; simp [blockData, chunks, entryChunk]
    rw [hd, slice_prefix _ _ 4 (by simp [hdr_length])]
    simp only [Option.bind_some]
    rw [hdr_drop2 _ _ (by omega)]
    have : u16 (4 + e0.key.length) = 4 + e0.key.length := by unfold u16; omega
    rw [this]
    exact slice_mid' _ _ _ _ _ (by simp [hdr_length]) (by simp [hdr_length])
  · simp only [h0, if_false]
    rcases inv.base with h | h
    · rw [h] at h0; simp at h0
    · rw [h]

theorem entryData_ok {es : List Entry} {it : BlockIter} (inv : BlockInv es it) (i : Nat) (c : Bytes)
    (hc : (chunks es)[i]? = some c) : it.entryData i = some c := by
  unfold BlockIter.entryData
  have := slice_chunk (chunks es) [] i c hc
  simp only [List.length_nil, List.nil_append, chunks_length] at this
  rw [inv.data, inv.offs]
  simpa [blockData, blockOffs] using this

theorem reuseKey_ok (key base : Bytes) (prev ov : Nat) (d : Bytes)
    (hpre : key.take prev = base.take prev) (_hpb : prev ≤ base.length) (hpk : prev ≤ key.length)
    (hov : ov ≤ base.length) :
    reuseKey key base prev ov d = some (base.take ov ++ d) := by
  unfold reuseKey
  by_cases h : ov > prev
  · simp only [h, if_true]
    rw [slice_take key prev hpk, Option.bind_some, slice_eq_some (by omega) hov, Option.bind_some,
      Option.bind_some]
    have hk1 : key.take prev ++ (base.take ov).drop prev = base.take ov := by
      rw [hpre]
      have : base.take prev = (base.take ov).take prev := by
        rw [List.take_take]; congr 1; omega
      rw [this, List.take_append_drop]
    rw [hk1, slice_take _ ov (by simp; omega)]
    simp [List.take_take]
  · simp only [h, if_false, Option.bind_some]
    have hle : ov ≤ prev := by omega
    rw [slice_take key ov (by omega)]
    have : key.take ov = base.take ov := by
      have h1 : key.take ov = (key.take prev).take ov := by
        rw [List.take_take]; congr 1; omega
      have h2 : base.take ov = (base.take prev).take ov := by
        rw [List.take_take]; congr 1; omega
      rw [h1, h2, hpre]
    simp [this]

/-- `setIdx i` on a block built from `es` (any previous probe history): the key buffer is
    exactly the `i`-th key, the value slice is the encoded `i`-th value, no panic. -/
theorem setIdx_ok {es : List Entry} {it : BlockIter} (wf : BlockWF es) (inv : BlockInv es it)
    (i : Nat) (e : Entry) (he : es[i]? = some e) :
    ∃ it', it.setIdx (i : Int) = some it' ∧ BlockInv es it' ∧ it'.key = e.key ∧
      it'.val = encVS e.vs ∧ it'.idx = i ∧ it'.err = none := by
  have hi : i < es.length := by
    rcases Nat.lt_or_ge i es.length with h | h
    · exact h
    · rw [List.getElem?_eq_none h] at he; cases he
  have hmem : e ∈ es := List.mem_of_getElem? he
  have hkl := wf.key_le e hmem
  obtain ⟨ov, d, hchunk, hkey, hovb, hlen, _⟩ := chunk_facts es wf.base_ne i e he
  have hov : ov < 65536 := by omega
  have hdl : d.length < 65536 := by omega
  unfold BlockIter.setIdx
  have hrange : ¬ ((i : Int) ≥ ((it.entryOffsets.length : Nat) : Int) ∨ (i : Int) < 0) := by
    rw [inv.offs]; simp [blockOffs]; omega
  simp only [hrange, if_false, Int.toNat_natCast]
  have hdb : ({ it with idx := (i : Int), err := none } : BlockIter).decodeBase = some (baseOf es) :=
    decodeBase_ok (it := { it with idx := (i : Int), err := none }) wf
      ⟨inv.data, inv.offs, inv.base, inv.pre, inv.le_base, inv.le_key⟩
  rw [hdb, Option.bind_some]
  have hed : ({ it with idx := (i : Int), err := none, baseKey := baseOf es } : BlockIter).entryData i
      = some (hdr ov d.length ++ (d ++ encVS e.vs)) :=
    entryData_ok (it := { it with idx := (i : Int), err := none, baseKey := baseOf es })
      ⟨inv.data, inv.offs, Or.inr rfl, inv.pre, inv.le_base, inv.le_key⟩ i _ hchunk
  rw [hed, Option.bind_some, slice_prefix _ _ 4 (by simp [hdr_length]), Option.bind_some,
    hdr_take2 _ _ hov, hdr_drop2 _ _ hdl]
  have hvo : u16 (4 + d.length) = 4 + d.length := by unfold u16; omega
  rw [hvo, slice_mid' (hdr ov d.length) d (encVS e.vs) 4 (4 + d.length) (by simp [hdr_length])
    (by simp [hdr_length]), Option.bind_some]
  rw [reuseKey_ok it.key (baseOf es) it.prevOverlap ov d inv.pre inv.le_base inv.le_key hovb,
    Option.bind_some]
  have hval : slice (hdr ov d.length ++ (d ++ encVS e.vs)) (4 + d.length)
      (hdr ov d.length ++ (d ++ encVS e.vs)).length = some (encVS e.vs) := by
    have := slice_suffix (hdr ov d.length ++ d) (encVS e.vs) (4 + d.length)
      ((hdr ov d.length ++ d) ++ encVS e.vs).length (by simp [hdr_length]) rfl
    simpa [List.append_assoc] using this
  rw [hval, Option.bind_some]
  refine ⟨_, rfl, ⟨inv.data, inv.offs, Or.inr rfl, ?_, hovb, ?_⟩, hkey.symm, rfl, rfl, rfl⟩
  · simp [hovb]
  · simp; omega

/-- Out-of-range `setIdx`: only `idx` and `err` change. -/
theorem setIdx_oob {es : List Entry} {it : BlockIter} (inv : BlockInv es it) (i : Int)
    (h : i ≥ es.length ∨ i < 0) :
    it.setIdx i = some { it with idx := i, err := some .eof } ∧
      BlockInv es { it with idx := i, err := some .eof } := by
  constructor
  · unfold BlockIter.setIdx
    have : (i ≥ ((it.entryOffsets.length : Nat) : Int) ∨ i < 0) := by
      rw [inv.offs]; simpa [blockOffs] using h
    simp [this]
  · exact ⟨inv.data, inv.offs, inv.base, inv.pre, inv.le_base, inv.le_key⟩

end Badger.Tbl
