import BadgerModel.Watermark
import BadgerProofs.Lemmas.Watermark
/-!
The invariant of the watermark `process` loop, the transition summary `WM.Trans`, and the
ghost bookkeeping (`Ghost`, `procsOK`, `marksOK`, `GRel`) used to state and prove the C34
theorems (`Props/C34.lean`) and the oracle invariants (`Lemmas/Oracle.lean`).
-/
namespace Badger

structure WM.Inv (s : WM) : Prop where
  heapSorted : s.heap.Pairwise (· < ·)
  /-- the heap holds exactly the keys of `pending` -/
  sync : ∀ x, x ∈ s.heap ↔ (s.pending x).isSome
  heapGe : ∀ x ∈ s.heap, s.doneUntil ≤ x
  /-- the loop stopped at an index that is still pending -/
  headPos : ∀ x rest, s.heap = x :: rest → s.pending.val x > 0
  wSorted : s.waiters.Sorted
  /-- no stored waiter at or below `doneUntil` -/
  wAhead : ∀ p ∈ s.waiters, s.doneUntil < p.1

theorem WM.init_inv : WM.init.Inv := by
  refine ⟨?_, ?_, ?_, ?_, ?_, ?_⟩ <;> simp [WM.init, Pending.empty, Waiters.Sorted]

/-- What one transition (one `processOne`, one mark, or a sequence of marks) guarantees. -/
structure WM.Trans (s : WM) (r : WM × List Wakeup) : Prop where
  inv : r.1.Inv
  mono : s.doneUntil ≤ r.1.doneUntil
  /-- every released waiter is released with `doneUntil ≥` its index -/
  woke : ∀ k ∈ r.2, k.idx ≤ r.1.doneUntil
  /-- no waiter is lost: it is still stored or it was released -/
  conserve : ∀ k ∈ s.waiters.flat, k ∈ r.1.waiters.flat ∨ k ∈ r.2
  failedMono : s.failed = true → r.1.failed = true

theorem WM.Trans.refl (s : WM) (h : s.Inv) : WM.Trans s (s, []) :=
  ⟨h, Nat.le_refl _, by simp, fun k hk => .inl hk, id⟩

theorem WM.Trans.comp {s : WM} {r1 r2 : WM × List Wakeup} (h1 : WM.Trans s r1) (h2 : WM.Trans r1.1 r2) :
    WM.Trans s (r2.1, r1.2 ++ r2.2) := by
  refine ⟨h2.inv, Nat.le_trans h1.mono h2.mono, ?_, ?_, fun h => h2.failedMono (h1.failedMono h)⟩
  · intro k hk
    rcases List.mem_append.mp hk with hk | hk
    · exact Nat.le_trans (h1.woke k hk) h2.mono
    · exact h2.woke k hk
  · intro k hk
    rcases h1.conserve k hk with h | h
    · rcases h2.conserve k h with h | h
      · exact .inl h
      · exact .inr (List.mem_append.mpr (.inr h))
    · exact .inr (List.mem_append.mpr (.inl h))

/-- The pop loop of `processOne i d` runs on a heap/pending pair that satisfies its preconditions. -/
theorem WM.processOne_popSpec (s : WM) (hI : s.Inv) (i : Nat) (d : Bool) (hle : s.doneUntil ≤ i) :
    PopSpec (s.pending.set i (s.pending.val i + (if d then -1 else 1)))
      (if (s.pending i).isSome then s.heap else heapPush i s.heap) s.doneUntil
      (popLoop (s.pending.set i (s.pending.val i + (if d then -1 else 1)))
        (if (s.pending i).isSome then s.heap else heapPush i s.heap) s.doneUntil) := by
  apply popLoop_spec
  · split
    · exact hI.heapSorted
    · rename_i hn
      apply heapPush_sorted _ _ hI.heapSorted
      intro hm; exact hn ((hI.sync i).mp hm)
  · intro x
    by_cases hx : x = i
    · subst hx
      simp only [Pending.set_same, Option.isSome_some, iff_true]
      split
      · rename_i hp; exact (hI.sync x).mpr hp
      · exact (mem_heapPush _ _ _).mpr (.inl rfl)
    · rw [Pending.set_other _ _ _ _ hx]
      split
      · exact hI.sync x
      · rw [mem_heapPush, ← hI.sync x]; simp [hx]
  · intro x hx
    split at hx
    · exact hI.heapGe x hx
    · rcases (mem_heapPush _ _ _).mp hx with rfl | hx
      · exact hle
      · exact hI.heapGe x hx

/-- The state after `processOne` on a live state whose index is not behind the watermark:
    both notification paths have been replaced by the map path (`notify_eq_notifyMap`). -/
theorem WM.processOne_eq (s : WM) (hI : s.Inv) (i : Nat) (d : Bool) (hf : s.failed = false)
    (hle : s.doneUntil ≤ i) :
    ∃ h1 p1, h1 = (if (s.pending i).isSome then s.heap else heapPush i s.heap) ∧
      p1 = s.pending.set i (s.pending.val i + (if d then -1 else 1)) ∧
      PopSpec p1 h1 s.doneUntil (popLoop p1 h1 s.doneUntil) ∧
      s.processOne i d =
        ({ s with doneUntil := (popLoop p1 h1 s.doneUntil).2.2, heap := (popLoop p1 h1 s.doneUntil).1,
                  pending := (popLoop p1 h1 s.doneUntil).2.1,
                  waiters := (notifyMap s.waiters (popLoop p1 h1 s.doneUntil).2.2).1 },
         (notifyMap s.waiters (popLoop p1 h1 s.doneUntil).2.2).2) := by
  have hspec := WM.processOne_popSpec s hI i d hle
  refine ⟨_, _, rfl, rfl, hspec, ?_⟩
  unfold WM.processOne
  rw [if_neg (by simp [hf]), if_neg (by omega)]
  simp only
  rw [notify_eq_notifyMap _ _ _ hI.wSorted hI.wAhead hspec.mono]

theorem mem_notifyMap_kept (ws : Waiters) (til : Nat) (p : Nat × List Nat) :
    p ∈ (notifyMap ws til).1 ↔ p ∈ ws ∧ til < p.1 := by
  simp [notifyMap, List.mem_filter]

theorem mem_notifyMap_woke (ws : Waiters) (til : Nat) (k : Wakeup) :
    k ∈ (notifyMap ws til).2 ↔ k ∈ ws.flat ∧ k.idx ≤ til := by
  simp only [notifyMap, List.mem_flatMap, List.mem_filter, mem_wakeAll, Waiters.mem_flat, decide_eq_true_eq]
  constructor
  · rintro ⟨p, ⟨hp, hle⟩, e, hw⟩; exact ⟨⟨p, hp, e.symm, hw⟩, by omega⟩
  · rintro ⟨⟨p, hp, e, hw⟩, hle⟩; exact ⟨p, ⟨hp, by omega⟩, e.symm, hw⟩

theorem WM.processOne_trans (s : WM) (hI : s.Inv) (i : Nat) (d : Bool) : WM.Trans s (s.processOne i d) := by
  by_cases hf : s.failed = true
  · have : s.processOne i d = (s, []) := by simp [WM.processOne, hf]
    rw [this]; exact WM.Trans.refl s hI
  · have hf' : s.failed = false := by simpa using hf
    by_cases hle : s.doneUntil ≤ i
    · obtain ⟨h1, p1, _, _, sp, e⟩ := WM.processOne_eq s hI i d hf' hle
      rw [e]
      refine ⟨⟨sp.sorted, sp.sync, sp.ge, sp.headPos, ?_, ?_⟩, sp.mono, ?_, ?_, ?_⟩
      · exact List.Pairwise.sublist List.filter_sublist hI.wSorted
      · intro p hp; exact ((mem_notifyMap_kept _ _ _).mp hp).2
      · intro k hk; exact ((mem_notifyMap_woke _ _ _).mp hk).2
      · intro k hk
        by_cases hk2 : k.idx ≤ (popLoop p1 h1 s.doneUntil).2.2
        · exact .inr ((mem_notifyMap_woke _ _ _).mpr ⟨hk, hk2⟩)
        · left
          obtain ⟨p, hp, e1, hw⟩ := (Waiters.mem_flat _ _).mp hk
          exact (Waiters.mem_flat _ _).mpr ⟨p, (mem_notifyMap_kept _ _ _).mpr ⟨hp, by omega⟩, e1, hw⟩
      · intro h; simp [hf'] at h
    · have : s.processOne i d = ({ s with failed := true }, []) := by
        unfold WM.processOne
        rw [if_neg (by simp [hf']), if_pos (by omega)]
      rw [this]
      exact ⟨⟨hI.heapSorted, hI.sync, hI.heapGe, hI.headPos, hI.wSorted, hI.wAhead⟩, Nat.le_refl _,
        by simp, fun k hk => .inl hk, fun _ => rfl⟩

theorem WM.processMany_trans (s : WM) (hI : s.Inv) (d : Bool) (is : List Nat) :
    WM.Trans s (s.processMany d is) := by
  induction is generalizing s with
  | nil => exact WM.Trans.refl s hI
  | cons i is ih =>
    have h1 := WM.processOne_trans s hI i d
    have h2 := ih (s.processOne i d).1 h1.inv
    exact WM.Trans.comp h1 h2

theorem WM.setLast_inv (s : WM) (hI : s.Inv) (l : Nat) : ({ s with lastIndex := l } : WM).Inv :=
  ⟨hI.heapSorted, hI.sync, hI.heapGe, hI.headPos, hI.wSorted, hI.wAhead⟩

theorem WM.Trans.ofSetLast {s : WM} {l : Nat} {r : WM × List Wakeup}
    (h : WM.Trans ({ s with lastIndex := l } : WM) r) : WM.Trans s r :=
  ⟨h.inv, h.mono, h.woke, h.conserve, h.failedMono⟩

/-- One mark. Besides `Trans`: a `wait` mark is either answered at once or stored. -/
theorem WM.step_trans (s : WM) (hI : s.Inv) (m : Mark) : WM.Trans s (s.step m) := by
  unfold WM.step
  split
  · exact WM.Trans.refl s hI
  · rename_i hf
    cases m with
    | wait idx w =>
      simp only
      split
      · rename_i hge
        exact ⟨hI, Nat.le_refl _, by intro k hk; simp at hk; subst hk; exact hge, fun k hk => .inl hk, id⟩
      · rename_i hlt
        refine ⟨⟨hI.heapSorted, hI.sync, hI.heapGe, hI.headPos, Waiters.add_sorted _ _ _ hI.wSorted, ?_⟩,
          Nat.le_refl _, by simp, ?_, id⟩
        · intro p hp
          rcases Waiters.mem_add _ _ _ _ hp with e | hm
          · simp only at e ⊢; omega
          · exact hI.wAhead p hm
        · intro k hk; exact .inl ((Waiters.flat_add _ _ _ _).mpr (.inr hk))
    | begin idx => exact (WM.processOne_trans _ (WM.setLast_inv s hI idx) idx false).ofSetLast
    | done idx => exact WM.processOne_trans s hI idx true
    | beginMany is =>
      cases is with
      | nil => exact WM.Trans.refl s hI
      | cons i is => exact (WM.processMany_trans _ (WM.setLast_inv s hI _) false (i :: is)).ofSetLast
    | doneMany is =>
      cases is with
      | nil => exact WM.processOne_trans s hI 0 true
      | cons i is => exact WM.processMany_trans s hI true (i :: is)

theorem WM.runW_cons (s : WM) (m : Mark) (ms : List Mark) :
    s.runW (m :: ms) = ((s.step m).1.runW ms |>.1, (s.step m).2 ++ ((s.step m).1.runW ms).2) := rfl

theorem WM.run_cons (s : WM) (m : Mark) (ms : List Mark) : s.run (m :: ms) = (s.step m).1.run ms := rfl

theorem WM.run_nil (s : WM) : s.run [] = s := rfl

theorem WM.runW_trans (s : WM) (hI : s.Inv) (ms : List Mark) : WM.Trans s (s.runW ms) := by
  induction ms generalizing s with
  | nil => exact WM.Trans.refl s hI
  | cons m ms ih =>
    have h1 := WM.step_trans s hI m
    exact WM.Trans.comp h1 (ih _ h1.inv)

theorem WM.run_append (s : WM) (ms ns : List Mark) : s.run (ms ++ ns) = (s.run ms).run ns := by
  induction ms generalizing s with
  | nil => rfl
  | cons m ms ih => simp only [List.cons_append, WM.run_cons]; exact ih _

/-- Every reachable state satisfies the loop invariant. -/
theorem WM.run_inv (ms : List Mark) : (WM.init.run ms).Inv := (WM.runW_trans _ WM.init_inv ms).inv

/-! ## Trace discipline (what badger's oracle guarantees about the marks it sends)

`C34_not_ahead` with a strict `<`, the absence of the `doneUntil > index` assertion and progress
depend on *how* the watermark is used. The discipline is stated on the sequence of
`processOne(index, done)` calls the marks expand to (`Mark.procs`):

* a `Done(i)` is sent only for an index with an unfinished `Begin(i)` (`cnt i > 0`);
* `Begin`s arrive in non-decreasing index order (`maxSeen ≤ i`; the oracle sends them under
  `o.Lock` with `readTs = nextTxnTs-1`, `ts = nextTxnTs++`), *strictly* increasing for the strict
  variant (txnMark: each commit timestamp is begun exactly once).

`DB.Open` positions both watermarks with one `Done(n)` without `Begin`; that is the start state
`WM.opened n`. Why each hypothesis is needed: `begin 5, done 5, begin 3` fires the assertion
(order); `begin 5, done 5, begin 5` has `pending 5 > 0` with `doneUntil = 5` (strictness needs
"begun once"); `done 7` without `begin` moves `doneUntil` to 7 although nothing was begun
(progress/`cnt` bookkeeping needs matched `Done`s).
-/

/-- The `processOne(index, done)` calls a mark expands to, in order. -/
def Mark.procs : Mark → List (Nat × Bool)
  | .begin i => [(i, false)]
  | .done i => [(i, true)]
  | .beginMany is => is.map (fun i => (i, false))
  | .doneMany [] => [(0, true)]
  | .doneMany (i :: is) => (i :: is).map (fun i => (i, true))
  | .wait _ _ => []

/-- Number of `Begin(i)` minus number of `Done(i)` in a sequence of calls. -/
def netCount : List (Nat × Bool) → Nat → Int
  | [], _ => 0
  | p :: ps, i => (if p.1 = i then (if p.2 then -1 else 1) else 0) + netCount ps i

/-- Ghost bookkeeping along a trace. -/
structure Ghost where
  cnt : Nat → Int
  maxSeen : Nat
  seen : Nat → Prop

def Ghost.proc (g : Ghost) (p : Nat × Bool) : Ghost :=
  { cnt := fun j => (if p.1 = j then (if p.2 then -1 else 1) else 0) + g.cnt j
    maxSeen := max g.maxSeen p.1
    seen := fun j => j = p.1 ∨ g.seen j }

def Ghost.procs (g : Ghost) (ps : List (Nat × Bool)) : Ghost := ps.foldl Ghost.proc g

def Ghost.run (g : Ghost) (ms : List Mark) : Ghost := ms.foldl (fun g m => g.procs m.procs) g

/-- The discipline on a sequence of `processOne` calls (`strict`: begins strictly increasing). -/
def procsOK (strict : Bool) (g : Ghost) : List (Nat × Bool) → Prop
  | [] => True
  | p :: ps =>
    (if p.2 then g.cnt p.1 > 0 else (if strict then g.maxSeen < p.1 else g.maxSeen ≤ p.1)) ∧
    procsOK strict (g.proc p) ps

def marksOK (strict : Bool) (g : Ghost) : List Mark → Prop
  | [] => True
  | m :: ms => procsOK strict g m.procs ∧ marksOK strict (g.procs m.procs) ms

instance decProcsOK (strict : Bool) : (g : Ghost) → (ps : List (Nat × Bool)) → Decidable (procsOK strict g ps)
  | _, [] => isTrue True.intro
  | g, p :: ps => @instDecidableAnd _ _ inferInstance (decProcsOK strict (g.proc p) ps)

instance decMarksOK (strict : Bool) : (g : Ghost) → (ms : List Mark) → Decidable (marksOK strict g ms)
  | _, [] => isTrue True.intro
  | g, m :: ms => @instDecidableAnd _ _ (decProcsOK strict g m.procs) (decMarksOK strict (g.procs m.procs) ms)

/-- Watermark as `DB.Open` leaves it: `Done(n)` on a fresh watermark. -/
def WM.opened (n : Nat) : WM := WM.init.run [.done n]

def Ghost.opened (n : Nat) : Ghost := { cnt := fun _ => 0, maxSeen := n, seen := fun j => j = n }

/-- Link between a live watermark state and the ghost bookkeeping. -/
structure GRel (s : WM) (g : Ghost) : Prop where
  live : s.failed = false
  cnt : ∀ i, s.pending.val i = g.cnt i
  nonneg : ∀ i, 0 ≤ g.cnt i
  duLe : s.doneUntil ≤ g.maxSeen
  heapLe : ∀ x ∈ s.heap, x ≤ g.maxSeen
  seen : ∀ i, g.seen i → i ∈ s.heap ∨ i ≤ s.doneUntil

/-- `pending > 0 ⇒ doneUntil < index` (strict). -/
def WM.StrictInv (s : WM) : Prop := ∀ x, s.pending.val x > 0 → s.doneUntil < x

theorem GRel.setLast {s : WM} {g : Ghost} (h : GRel s g) (l : Nat) : GRel ({ s with lastIndex := l } : WM) g :=
  ⟨h.live, h.cnt, h.nonneg, h.duLe, h.heapLe, h.seen⟩

theorem WM.processOne_ghost (s : WM) (g : Ghost) (hI : s.Inv) (hG : GRel s g) (i : Nat) (d : Bool)
    (strict : Bool) (hok : if d then g.cnt i > 0 else (if strict then g.maxSeen < i else g.maxSeen ≤ i))
    (hS : strict = true → s.StrictInv) :
    GRel (s.processOne i d).1 (g.proc (i, d)) ∧ (strict = true → (s.processOne i d).1.StrictInv) := by
  have hle : s.doneUntil ≤ i := by
    cases d with
    | true =>
      simp only [if_true] at hok
      have : s.pending.val i > 0 := by rw [hG.cnt]; exact hok
      exact hI.heapGe i ((hI.sync i).mpr (Pending.val_pos_isSome _ _ this))
    | false =>
      simp only [Bool.false_eq_true, if_false] at hok
      have := hG.duLe
      split at hok <;> omega
  obtain ⟨h1, p1, e1, e2, sp, e⟩ := WM.processOne_eq s hI i d hG.live hle
  have hp1 : ∀ x, p1.val x = (g.proc (i, d)).cnt x := by
    intro x
    subst e2
    by_cases hx : x = i
    · subst hx; rw [Pending.val_set_same, hG.cnt]; simp [Ghost.proc]; omega
    · rw [Pending.val_set_other _ _ _ _ hx, hG.cnt]
      have : ¬ i = x := fun h => hx h.symm
      simp [Ghost.proc, this]
  have hnn : ∀ x, 0 ≤ (g.proc (i, d)).cnt x := by
    intro x
    have := hG.nonneg x
    by_cases hx : i = x
    · subst hx
      cases d with
      | true => simp only [if_true] at hok; simp [Ghost.proc]; omega
      | false => simp [Ghost.proc]; omega
    · simp [Ghost.proc, hx]; exact this
  have hh1 : ∀ x ∈ h1, x = i ∨ x ∈ s.heap := by
    intro x hx; subst e1
    split at hx
    · exact .inr hx
    · exact (mem_heapPush _ _ _).mp hx
  have hh1' : ∀ x, x = i ∨ x ∈ s.heap → x ∈ h1 := by
    intro x hx; subst e1
    split
    · rename_i hp
      rcases hx with rfl | hx
      · exact (hI.sync x).mpr hp
      · exact hx
    · exact (mem_heapPush _ _ _).mpr hx
  rw [e]
  refine ⟨⟨hG.live, ?_, hnn, ?_, ?_, ?_⟩, ?_⟩
  · intro x
    simp only
    rcases sp.vals x with ev | ⟨e0, ev⟩
    · rw [ev, hp1]
    · rw [ev]; have := hnn x; rw [← hp1] at this ⊢; omega
  · simp only [Ghost.proc]
    rcases sp.tilFrom with et | hm
    · rw [et]; have := hG.duLe; omega
    · rcases hh1 _ hm with ei | hm
      · rw [ei]; omega
      · have := hG.heapLe _ hm; omega
  · intro x hx
    simp only [Ghost.proc]
    rcases hh1 _ (sp.sub x hx) with ei | hm
    · rw [ei]; omega
    · have := hG.heapLe _ hm; omega
  · intro j hj
    simp only [Ghost.proc] at hj
    simp only
    rcases hj with rfl | hj
    · exact sp.popped j (hh1' j (.inl rfl))
    · rcases hG.seen j hj with hm | hl
      · exact sp.popped j (hh1' j (.inr hm))
      · right; exact Nat.le_trans hl sp.mono
  · intro hst x hx
    simp only at hx ⊢
    have hxs : ((popLoop p1 h1 s.doneUntil).2.1 x).isSome := Pending.val_pos_isSome _ _ hx
    have hxm := (sp.sync x).mpr hxs
    rcases sp.strict with ⟨eh, et⟩ | hlt
    · rw [et]
      have hv : (popLoop p1 h1 s.doneUntil).2.1.val x = p1.val x := by
        simp only [Pending.val, sp.keep x hxm]
      rw [hv] at hx
      by_cases hxi : x = i
      · subst hxi
        cases d with
        | true =>
          subst e2
          rw [Pending.val_set_same] at hx
          exact hS hst x (by simp at hx; omega)
        | false =>
          simp only [Bool.false_eq_true, if_false, hst, if_true] at hok
          have := hG.duLe; omega
      · subst e2
        rw [Pending.val_set_other _ _ _ _ hxi] at hx
        exact hS hst x hx
    · exact hlt x hxm

theorem WM.processMany_ghost (s : WM) (g : Ghost) (hI : s.Inv) (hG : GRel s g) (d : Bool) (is : List Nat)
    (strict : Bool) (hok : procsOK strict g (is.map (fun i => (i, d))))
    (hS : strict = true → s.StrictInv) :
    GRel (s.processMany d is).1 (g.procs (is.map (fun i => (i, d)))) ∧
      (strict = true → (s.processMany d is).1.StrictInv) := by
  induction is generalizing s g with
  | nil => exact ⟨hG, hS⟩
  | cons i is ih =>
    simp only [List.map_cons, procsOK] at hok
    have h1 := WM.processOne_ghost s g hI hG i d strict hok.1 hS
    have hI1 := (WM.processOne_trans s hI i d).inv
    exact ih (s.processOne i d).1 (g.proc (i, d)) hI1 h1.1 hok.2 h1.2

theorem WM.step_ghost (s : WM) (g : Ghost) (hI : s.Inv) (hG : GRel s g) (m : Mark) (strict : Bool)
    (hok : procsOK strict g m.procs) (hS : strict = true → s.StrictInv) :
    GRel (s.step m).1 (g.procs m.procs) ∧ (strict = true → (s.step m).1.StrictInv) := by
  unfold WM.step
  rw [if_neg (by simp [hG.live])]
  cases m with
  | wait idx w =>
    simp only [Mark.procs, Ghost.procs, List.foldl_nil]
    split
    · exact ⟨hG, hS⟩
    · exact ⟨⟨hG.live, hG.cnt, hG.nonneg, hG.duLe, hG.heapLe, hG.seen⟩, hS⟩
  | begin idx =>
    simp only [Mark.procs, procsOK] at hok
    exact WM.processOne_ghost _ g (WM.setLast_inv s hI idx) (hG.setLast idx) idx false strict hok.1 hS
  | done idx =>
    simp only [Mark.procs, procsOK] at hok
    exact WM.processOne_ghost s g hI hG idx true strict hok.1 hS
  | beginMany is =>
    cases is with
    | nil => exact ⟨hG, hS⟩
    | cons i is =>
      exact WM.processMany_ghost _ g (WM.setLast_inv s hI _) (hG.setLast _) false (i :: is) strict hok hS
  | doneMany is =>
    cases is with
    | nil =>
      simp only [Mark.procs, procsOK] at hok
      exact WM.processOne_ghost s g hI hG 0 true strict hok.1 hS
    | cons i is => exact WM.processMany_ghost s g hI hG true (i :: is) strict hok hS

theorem WM.run_ghost (s : WM) (g : Ghost) (hI : s.Inv) (hG : GRel s g) (ms : List Mark) (strict : Bool)
    (hok : marksOK strict g ms) (hS : strict = true → s.StrictInv) :
    GRel (s.run ms) (g.run ms) ∧ (strict = true → (s.run ms).StrictInv) := by
  induction ms generalizing s g with
  | nil => exact ⟨hG, hS⟩
  | cons m ms ih =>
    simp only [marksOK] at hok
    have h1 := WM.step_ghost s g hI hG m strict hok.1 hS
    exact ih (s.step m).1 (g.procs m.procs) (WM.step_trans s hI m).inv h1.1 hok.2 h1.2

theorem WM.opened_inv (n : Nat) : (WM.opened n).Inv := WM.run_inv [.done n]

theorem WM.opened_state (n : Nat) :
    (WM.opened n).doneUntil = n ∧ (WM.opened n).heap = [] ∧ (WM.opened n).failed = false ∧
    (∀ i, (WM.opened n).pending i = none) ∧ (WM.opened n).waiters = [] := by
  obtain ⟨h1, p1, e1, e2, _, e⟩ := WM.processOne_eq WM.init WM.init_inv n true rfl (Nat.zero_le _)
  have h : WM.opened n = (WM.init.processOne n true).1 := rfl
  have hh : h1 = [n] := by rw [e1]; rfl
  have hv : ¬ p1.val n > 0 := by
    rw [e2, Pending.val_set_same]; simp [Pending.val, WM.init, Pending.empty]
  have hp : popLoop p1 h1 WM.init.doneUntil = ([], p1.del n, n) := by
    rw [hh]; simp only [popLoop, if_neg hv]
  rw [h, e, hp]
  refine ⟨rfl, rfl, rfl, ?_, rfl⟩
  intro i
  simp only [e2, Pending.del, Pending.set, WM.init, Pending.empty]
  split <;> rfl

theorem WM.opened_grel (n : Nat) : GRel (WM.opened n) (Ghost.opened n) := by
  obtain ⟨h1, h2, h3, h4, _⟩ := WM.opened_state n
  refine ⟨h3, ?_, by simp [Ghost.opened], by simp [Ghost.opened, h1], by simp [h2], ?_⟩
  · intro i; simp [Pending.val, h4, Ghost.opened]
  · intro i hi; simp only [Ghost.opened] at hi; right; rw [h1, hi]; exact Nat.le_refl _

theorem WM.opened_strict (n : Nat) : (WM.opened n).StrictInv := by
  intro x hx
  have := (WM.opened_state n).2.2.2.1 x
  simp [Pending.val, this] at hx

theorem Ghost.procs_cnt (g : Ghost) (ps : List (Nat × Bool)) (i : Nat) :
    (g.procs ps).cnt i = netCount ps i + g.cnt i := by
  induction ps generalizing g with
  | nil => simp [Ghost.procs, netCount]
  | cons p ps ih =>
    have : g.procs (p :: ps) = (g.proc p).procs ps := rfl
    rw [this, ih]; simp only [Ghost.proc, netCount]; omega

theorem netCount_append (ps qs : List (Nat × Bool)) (i : Nat) :
    netCount (ps ++ qs) i = netCount ps i + netCount qs i := by
  induction ps with
  | nil => simp [netCount]
  | cons p ps ih => simp only [List.cons_append, netCount, ih]; omega

theorem Ghost.run_cnt (g : Ghost) (ms : List Mark) (i : Nat) :
    (g.run ms).cnt i = netCount (ms.flatMap Mark.procs) i + g.cnt i := by
  induction ms generalizing g with
  | nil => simp [Ghost.run, netCount]
  | cons m ms ih =>
    have : g.run (m :: ms) = (g.procs m.procs).run ms := rfl
    rw [this, ih, Ghost.procs_cnt, List.flatMap_cons, netCount_append]; omega

theorem Ghost.procs_seen (g : Ghost) (ps : List (Nat × Bool)) (i : Nat) :
    (g.procs ps).seen i ↔ (∃ p ∈ ps, p.1 = i) ∨ g.seen i := by
  induction ps generalizing g with
  | nil => simp [Ghost.procs]
  | cons p ps ih =>
    have : g.procs (p :: ps) = (g.proc p).procs ps := rfl
    rw [this, ih]; simp only [Ghost.proc, List.mem_cons]
    constructor
    · rintro (⟨q, hq, e⟩ | e | h)
      · exact .inl ⟨q, .inr hq, e⟩
      · exact .inl ⟨p, .inl rfl, e.symm⟩
      · exact .inr h
    · rintro (⟨q, rfl | hq, e⟩ | h)
      · exact .inr (.inl e.symm)
      · exact .inl ⟨q, hq, e⟩
      · exact .inr (.inr h)

theorem Ghost.run_seen (g : Ghost) (ms : List Mark) (i : Nat) :
    (g.run ms).seen i ↔ (∃ p ∈ ms.flatMap Mark.procs, p.1 = i) ∨ g.seen i := by
  induction ms generalizing g with
  | nil => simp [Ghost.run]
  | cons m ms ih =>
    have : g.run (m :: ms) = (g.procs m.procs).run ms := rfl
    rw [this, ih, Ghost.procs_seen, List.flatMap_cons]
    simp only [List.mem_append]
    constructor
    · rintro (⟨q, hq, e⟩ | ⟨q, hq, e⟩ | h)
      · exact .inl ⟨q, .inr hq, e⟩
      · exact .inl ⟨q, .inl hq, e⟩
      · exact .inr h
    · rintro (⟨q, hq | hq, e⟩ | h)
      · exact .inr (.inl ⟨q, hq, e⟩)
      · exact .inl ⟨q, hq, e⟩
      · exact .inr (.inr h)

/-- Waiters are never lost along a run: a waiter registered by a `wait` mark of the run (or
    stored before) is, at the end, still stored or among the released ones. -/
theorem WM.runW_conserve (s : WM) (hI : s.Inv) (ms : List Mark) (hnf : (s.run ms).failed = false)
    (k : Wakeup) (hk : Mark.wait k.idx k.waiter ∈ ms ∨ k ∈ s.waiters.flat) :
    k ∈ (s.run ms).waiters.flat ∨ k ∈ (s.runW ms).2 := by
  induction ms generalizing s with
  | nil =>
    rcases hk with hk | hk
    · simp at hk
    · exact .inl hk
  | cons m ms ih =>
    have t := WM.step_trans s hI m
    have hnf' : ((s.step m).1.run ms).failed = false := hnf
    have hsf : s.failed = false := by
      cases hf : s.failed with
      | false => rfl
      | true =>
        have h1 := t.failedMono hf
        have h2 := (WM.runW_trans _ t.inv ms).failedMono h1
        have h3 : ((s.step m).1.run ms).failed = true := h2
        rw [h3] at hnf'; exact absurd hnf' (by simp)
    rw [WM.runW_cons]
    simp only [List.mem_append]
    have key : k ∈ (s.step m).1.waiters.flat ∨ k ∈ (s.step m).2 ∨ Mark.wait k.idx k.waiter ∈ ms := by
      rcases hk with hk | hk
      · rcases List.mem_cons.mp hk with e | hk
        · subst e
          simp only [WM.step]
          rw [if_neg (by simp [hsf])]
          split
          · right; left; simp
          · left; exact (Waiters.flat_add _ _ _ _).mpr (.inl rfl)
        · right; right; exact hk
      · rcases t.conserve k hk with h | h
        · exact .inl h
        · exact .inr (.inl h)
    rcases key with h | h | h
    · rcases ih (s.step m).1 t.inv hnf' (.inr h) with h | h
      · exact .inl h
      · exact .inr (.inr h)
    · exact .inr (.inl h)
    · rcases ih (s.step m).1 t.inv hnf' (.inl h) with h | h
      · exact .inl h
      · exact .inr (.inr h)

/-! ## No spurious wake-ups: whoever is released or stored was registered by a `wait` mark -/

theorem WM.processOne_src (s : WM) (hI : s.Inv) (i : Nat) (d : Bool) (k : Wakeup)
    (h : k ∈ (s.processOne i d).2 ∨ k ∈ (s.processOne i d).1.waiters.flat) : k ∈ s.waiters.flat := by
  by_cases hf : s.failed = true
  · have e : s.processOne i d = (s, []) := by simp [WM.processOne, hf]
    rw [e] at h; simpa using h
  · have hf' : s.failed = false := by simpa using hf
    by_cases hle : s.doneUntil ≤ i
    · obtain ⟨h1, p1, _, _, _, e⟩ := WM.processOne_eq s hI i d hf' hle
      rw [e] at h
      rcases h with h | h
      · exact ((mem_notifyMap_woke _ _ _).mp h).1
      · obtain ⟨p, hp, e1, hw⟩ := (Waiters.mem_flat _ _).mp h
        exact (Waiters.mem_flat _ _).mpr ⟨p, ((mem_notifyMap_kept _ _ _).mp hp).1, e1, hw⟩
    · have e : s.processOne i d = ({ s with failed := true }, []) := by
        unfold WM.processOne
        rw [if_neg (by simp [hf']), if_pos (by omega)]
      rw [e] at h; simpa using h

theorem WM.processMany_src (s : WM) (hI : s.Inv) (d : Bool) (is : List Nat) (k : Wakeup)
    (h : k ∈ (s.processMany d is).2 ∨ k ∈ (s.processMany d is).1.waiters.flat) : k ∈ s.waiters.flat := by
  induction is generalizing s with
  | nil => simpa [WM.processMany] using h
  | cons i is ih =>
    have hI1 := (WM.processOne_trans s hI i d).inv
    simp only [WM.processMany, List.mem_append] at h
    rcases h with (h | h) | h
    · exact WM.processOne_src s hI i d k (.inl h)
    · exact WM.processOne_src s hI i d k (.inr (ih _ hI1 (.inl h)))
    · exact WM.processOne_src s hI i d k (.inr (ih _ hI1 (.inr h)))

theorem WM.step_src (s : WM) (hI : s.Inv) (m : Mark) (k : Wakeup)
    (h : k ∈ (s.step m).2 ∨ k ∈ (s.step m).1.waiters.flat) :
    k ∈ s.waiters.flat ∨ m = .wait k.idx k.waiter := by
  unfold WM.step at h
  split at h
  · left; simpa using h
  · cases m with
    | wait idx w =>
      simp only at h
      split at h
      · rcases h with h | h
        · right; simp at h; subst h; rfl
        · left; exact h
      · rcases h with h | h
        · simp at h
        · rcases (Waiters.flat_add _ _ _ _).mp h with e | h
          · right; subst e; rfl
          · left; exact h
    | begin idx => left; exact WM.processOne_src _ (WM.setLast_inv s hI idx) idx false k h
    | done idx => left; exact WM.processOne_src s hI idx true k h
    | beginMany is =>
      cases is with
      | nil => left; simpa using h
      | cons i is =>
        simp only at h
        left; exact WM.processMany_src _ (WM.setLast_inv s hI ((i :: is).getLast?.getD 0)) false (i :: is) k h
    | doneMany is =>
      cases is with
      | nil => simp only at h; left; exact WM.processOne_src s hI 0 true k h
      | cons i is => simp only at h; left; exact WM.processMany_src s hI true (i :: is) k h

theorem WM.runW_src (s : WM) (hI : s.Inv) (ms : List Mark) (k : Wakeup)
    (h : k ∈ (s.runW ms).2 ∨ k ∈ (s.run ms).waiters.flat) :
    k ∈ s.waiters.flat ∨ Mark.wait k.idx k.waiter ∈ ms := by
  induction ms generalizing s with
  | nil => left; simpa [WM.runW, WM.run] using h
  | cons m ms ih =>
    have t := WM.step_trans s hI m
    rw [WM.runW_cons, WM.run_cons] at h
    simp only [List.mem_append] at h
    have lift : k ∈ (s.step m).1.waiters.flat ∨ Mark.wait k.idx k.waiter ∈ ms →
        k ∈ s.waiters.flat ∨ Mark.wait k.idx k.waiter ∈ m :: ms := by
      rintro (h | h)
      · rcases WM.step_src s hI m k (.inr h) with h | e
        · exact .inl h
        · right; rw [e]; simp
      · right; exact List.mem_cons_of_mem _ h
    rcases h with (h | h) | h
    · rcases WM.step_src s hI m k (.inl h) with h | e
      · exact .inl h
      · right; rw [e]; simp
    · exact lift (ih _ t.inv (.inl h))
    · exact lift (ih _ t.inv (.inr h))

/-! ## Appending to a trace -/

theorem Ghost.run_cons (g : Ghost) (m : Mark) (ms : List Mark) :
    g.run (m :: ms) = (g.procs m.procs).run ms := rfl

theorem Ghost.run_append (g : Ghost) (ms ns : List Mark) : g.run (ms ++ ns) = (g.run ms).run ns := by
  simp [Ghost.run, List.foldl_append]

theorem Ghost.run_snoc (g : Ghost) (ms : List Mark) (m : Mark) :
    g.run (ms ++ [m]) = (g.run ms).procs m.procs := by
  rw [Ghost.run_append]; rfl

theorem marksOK_append (strict : Bool) (g : Ghost) (ms ns : List Mark) :
    marksOK strict g (ms ++ ns) ↔ marksOK strict g ms ∧ marksOK strict (g.run ms) ns := by
  induction ms generalizing g with
  | nil => simp [marksOK, Ghost.run]
  | cons m ms ih =>
    simp only [List.cons_append, marksOK, Ghost.run_cons, ih]
    constructor
    · rintro ⟨a, b, c⟩; exact ⟨⟨a, b⟩, c⟩
    · rintro ⟨⟨a, b⟩, c⟩; exact ⟨a, b, c⟩

theorem marksOK_snoc (strict : Bool) (g : Ghost) (ms : List Mark) (m : Mark) :
    marksOK strict g (ms ++ [m]) ↔ marksOK strict g ms ∧ procsOK strict (g.run ms) m.procs := by
  rw [marksOK_append]; simp [marksOK]

theorem WM.opened_run (n : Nat) (ms : List Mark) : (WM.opened n).run ms = WM.init.run (.done n :: ms) := by
  unfold WM.opened
  rw [← WM.run_append]; rfl

end Badger
