import BadgerProofs.Lemmas.CrashRecover
/-!
# `Open` (after the repair of F22) never fails on a log file: zero-length `.mem` / `.vlog`
# files are empty logs. What remains are the MANIFEST and the tables it lists.
-/
namespace Badger

theorem replayLog_nil : (replayLog []).ents = [] := rfl

theorem openMems_total (l : List (Nat × Inode)) (hz : ∀ x ∈ l, x.2.size = .zero → x.2.chunks = []) :
    ∃ imms ops, openMems false false l = .ok (imms, ops) ∧
      ∀ e, e ∈ (imms.map (·.2)).flatten ↔ ∃ x ∈ l, e ∈ (replayLog x.2.chunks).ents := by
  induction l with
  | nil => exact ⟨[], [], rfl, by simp⟩
  | cons x xs ih =>
    obtain ⟨fid, f⟩ := x
    obtain ⟨imms, ops, he, hm⟩ := ih (fun y hy => hz y (List.mem_cons_of_mem _ hy))
    by_cases hx : f.size = .zero
    · have hc : f.chunks = [] := hz (fid, f) List.mem_cons_self hx
      simp only [openMems, hx, if_true, Bool.false_eq_true, or_self, if_false, he]
      refine ⟨_, _, rfl, ?_⟩
      intro e
      rw [hm]
      simp [hc, replayLog_nil]
    · by_cases hE : (replayLog f.chunks).ents.isEmpty
      · simp only [openMems, hx, if_false, Bool.false_eq_true, false_and, he, hE, if_true]
        refine ⟨_, _, rfl, ?_⟩
        intro e
        rw [hm]
        have : (replayLog f.chunks).ents = [] := by simpa using hE
        simp [this]
      · simp only [openMems, hx, if_false, Bool.false_eq_true, false_and, he, hE]
        refine ⟨_, _, rfl, ?_⟩
        intro e
        simp only [List.map, List.flatten_cons, List.mem_append, hm, List.mem_cons, exists_eq_or_imp]

theorem openVlogs_total (m : Nat) (l : List (Nat × Inode)) : ∃ ops, openVlogs false false m l = .ok ops := by
  induction l with
  | nil => exact ⟨[], rfl⟩
  | cons x xs ih =>
    obtain ⟨fid, f⟩ := x
    obtain ⟨ops, he⟩ := ih
    by_cases hx : f.size = .zero
    · simp only [openVlogs, hx, if_true, Bool.false_eq_true, or_self, if_false, he]
      exact ⟨_, rfl⟩
    · simp only [openVlogs, hx, if_false, he]
      exact ⟨_, rfl⟩

/-- `Open` succeeds whenever the MANIFEST replays and the tables it lists are there; it returns
    those tables and the complete transactions of every `.mem` file. -/
theorem recoverF_total (F : KFs) (B : Nat) (tset : List (Nat × Nat)) (cont : Nat → List CEnt)
    (hm : ManifestOk F tset)
    (ht : ∀ x ∈ tset, ∃ f, F (.sst x.1) = some f ∧ f.chunks = [.table (cont x.1)])
    (hz : ∀ n f, F (.mem n) = some f → f.size = .zero → f.chunks = []) :
    ∃ r, recoverF false F B = .ok r ∧
      r.tables = tset.map (fun x => { id := x.1, level := x.2, ents := cont x.1 }) ∧
      (∀ e, e ∈ (r.imms.map (·.2)).flatten ↔
        ∃ n f, n < B ∧ F (.mem n) = some f ∧ e ∈ (replayLog f.chunks).ents) := by
  obtain ⟨sets, sz, hf, hr⟩ := hm
  have hmem : ∀ x ∈ listFiles F .mem B, x.2.size = .zero → x.2.chunks = [] := by
    intro x hx; exact hz x.1 x.2 ((mem_listFiles F .mem B x).mp hx).2
  obtain ⟨imms, mops, hom, himm⟩ := openMems_total _ hmem
  obtain ⟨vops, hov⟩ := openVlogs_total (lastFid (listFiles F .vlog B)) (listFiles F .vlog B)
  have hot := openTables_ok F cont tset ht
  unfold recoverF recoverG
  simp only [hf, replayManifest, hr, hom, hot, hov]
  refine ⟨_, rfl, rfl, ?_⟩
  intro e
  rw [himm]
  constructor
  · rintro ⟨x, hx, he⟩
    have := (mem_listFiles F .mem B x).mp hx
    exact ⟨x.1, x.2, this.1, this.2, he⟩
  · rintro ⟨n, f, hn, hF, he⟩
    exact ⟨(n, f), (mem_listFiles F .mem B (n, f)).mpr ⟨hn, hF⟩, he⟩

end Badger
