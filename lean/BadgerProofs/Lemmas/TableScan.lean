import BadgerProofs.Lemmas.TableIter
/-!
Forward and reverse scans of a table satisfying `TableOK`; positions in the flattened list.
-/
namespace Badger.Tbl
open Badger

/-! ## positions in `G.flatten` -/

theorem take_succ_flatten_length {α : Type} (G : List (List α)) (j : Nat) (g : List α)
    (hg : G[j]? = some g) :
    (G.take (j + 1)).flatten.length = (G.take j).flatten.length + g.length := by
  induction G generalizing j with
  | nil => simp at hg
  | cons x xs ih =>
    cases j with
    | zero => simp at hg; subst hg; simp
    | succ j =>
      simp only [List.getElem?_cons_succ] at hg
      have := ih j hg
      simp only [List.take_succ_cons, List.flatten_cons, List.length_append] at this ⊢
      omega

theorem take_flatten_length_mono {α : Type} (G : List (List α)) (j j' : Nat) (h : j ≤ j') :
    (G.take j).flatten.length ≤ (G.take j').flatten.length := by
  induction G generalizing j j' with
  | nil => simp
  | cons x xs ih =>
    cases j with
    | zero => simp
    | succ j =>
      cases j' with
      | zero => omega
      | succ j' =>
        have := ih j j' (by omega)
        simp only [List.take_succ_cons, List.flatten_cons, List.length_append]
        omega

theorem flatten_getElem? {α : Type} (G : List (List α)) (j r : Nat) (g : List α) (e : α)
    (hg : G[j]? = some g) (he : g[r]? = some e) :
    G.flatten[(G.take j).flatten.length + r]? = some e := by
  induction G generalizing j with
  | nil => simp at hg
  | cons x xs ih =>
    cases j with
    | zero =>
      simp at hg; subst hg
      simp only [List.take_zero, List.flatten_nil, List.length_nil, Nat.zero_add, List.flatten_cons]
      rw [List.getElem?_append_left (lt_of_getElem?_some he)]
      exact he
    | succ j =>
      simp only [List.getElem?_cons_succ] at hg
      have := ih j hg
      simp only [List.take_succ_cons, List.flatten_cons, List.length_append]
      rw [Nat.add_assoc, List.getElem?_append_right (by omega)]
      simpa using this

theorem drop_flatten_of_get {α : Type} (G : List (List α)) (j : Nat) (g : List α) (hg : G[j]? = some g) :
    (G.drop j).flatten = g ++ (G.drop (j + 1)).flatten := by
  have hj := lt_of_getElem?_some hg
  rw [List.getElem?_eq_getElem hj] at hg
  cases hg
  rw [List.drop_eq_getElem_cons hj, List.flatten_cons]

theorem take_succ_flatten_of_get {α : Type} (G : List (List α)) (j : Nat) (g : List α) (hg : G[j]? = some g) :
    (G.take (j + 1)).flatten = (G.take j).flatten ++ g := by
  have hj := lt_of_getElem?_some hg
  rw [List.take_succ, hg]
  simp

/-! ## scans -/

theorem at_entry {G : List (List Entry)} {it : TIter} {j r : Nat} {g : List Entry} {e : Entry}
    (hat : At G it j r g e) (hexp : e.vs.expiresAt < 2 ^ 64) :
    it.valid = true ∧ decodeVS it.val = some e.vs ∧ (⟨it.key, e.vs⟩ : Entry) = e := by
  refine ⟨by simp [TIter.valid, hat.err], ?_, ?_⟩
  · show decodeVS it.bi.val = _
    rw [hat.val]; exact decodeVS_encVS _ hexp
  · show (⟨it.bi.key, e.vs⟩ : Entry) = e
    rw [hat.key]

theorem scan_invalid (step : TIter → Option TIter) (fuel : Nat) (it : TIter) (h : it.err = some .eof) :
    TIter.scan step fuel it = some [] := by
  cases fuel with
  | zero => rfl
  | succ f => simp [TIter.scan, TIter.valid, h]

/-- Forward scan from entry `r` of block `j`: the rest of the block, then the later blocks. -/
theorem scan_fwd {env : Env} {t : TableCore} {G : List (List Entry)} (ok : TableOK env t G)
    (hne : ∀ g ∈ G, g ≠ []) (hexp : ∀ g ∈ G, ∀ e ∈ g, e.vs.expiresAt < 2 ^ 64) :
    ∀ (n : Nat) (j r : Nat) (g : List Entry) (e : Entry) (it : TIter), At G it j r g e →
      it.reversed = false →
      (g.drop r ++ (G.drop (j + 1)).flatten).length = n → ∀ fuel, n < fuel →
      TIter.scan (fun it => it.apiNext env t) fuel it = some (g.drop r ++ (G.drop (j + 1)).flatten) := by
  intro n
  induction n with
  | zero =>
    intro j r g e it hat _ hlen
    have hr := lt_of_getElem?_some hat.gr
    simp only [List.length_append, List.length_drop] at hlen
    omega
  | succ n ih =>
    intro j r g e it hat hrev hlen fuel hfuel
    have hr := lt_of_getElem?_some hat.gr
    have hgm : g ∈ G := List.mem_of_getElem? hat.gj
    have hem : e ∈ g := List.mem_of_getElem? hat.gr
    obtain ⟨hv, hd, hent⟩ := at_entry hat (hexp g hgm e hem)
    obtain ⟨f, rfl⟩ : ∃ f, fuel = f + 1 := ⟨fuel - 1, by omega⟩
    have hdrop : g.drop r = e :: g.drop (r + 1) := by
      have hge : g[r] = e := by
        have h := hat.gr
        rw [List.getElem?_eq_getElem hr] at h
        exact Option.some.inj h
      rw [List.drop_eq_getElem_cons hr, hge]
    have hap : it.apiNext env t = it.next env t := by simp [TIter.apiNext, hrev]
    simp only [TIter.scan, hv, if_true, hd, Option.bind_some]
    rw [hap]
    rw [hdrop, List.cons_append, hent]
    rw [hdrop] at hlen
    simp only [List.cons_append, List.length_cons] at hlen
    rcases Nat.lt_or_ge (r + 1) g.length with hlt | hge
    · obtain ⟨e', he'⟩ := getElem?_some_of_lt g (r + 1) hlt
      obtain ⟨it', hnext, hat', hrev'⟩ := next_in_block ok hat he'
      rw [hnext, Option.bind_some, ih j (r + 1) g e' it' hat' (by rw [hrev', hrev]) (by omega) f (by omega)]
      rfl
    · have hre : r + 1 = g.length := by omega
      have hnil : g.drop (r + 1) = [] := List.drop_of_length_le (by omega)
      rcases Nat.lt_or_ge (j + 1) G.length with hjl | hjg
      · obtain ⟨g', hg'⟩ := getElem?_some_of_lt G (j + 1) hjl
        have hg'ne := hne g' (List.mem_of_getElem? hg')
        obtain ⟨e', he'⟩ := getElem?_some_of_lt g' 0 (List.length_pos_iff.mpr hg'ne)
        obtain ⟨it', hnext, hat', hrev'⟩ := next_cross_block ok hat hre hg' he'
        have hsplit := drop_flatten_of_get G (j + 1) g' hg'
        rw [hnext, Option.bind_some, hnil, List.nil_append, hsplit]
        rw [hnil, hsplit] at hlen
        have := ih (j + 1) 0 g' e' it' hat' (by rw [hrev', hrev]) (by simpa using hlen) f (by omega)
        simp only [List.drop_zero] at this
        rw [this]; rfl
      · have hje : j + 1 = G.length := by
          have := lt_of_getElem?_some hat.gj; omega
        obtain ⟨it', hnext, herr', _⟩ := next_at_end ok hat hre hje
        rw [hnext, Option.bind_some, scan_invalid _ _ _ herr', Option.bind_some, hnil,
          List.drop_of_length_le (by omega)]
        rfl

/-- Reverse scan from entry `r` of block `j`. -/
theorem scan_rev {env : Env} {t : TableCore} {G : List (List Entry)} (ok : TableOK env t G)
    (hne : ∀ g ∈ G, g ≠ []) (hexp : ∀ g ∈ G, ∀ e ∈ g, e.vs.expiresAt < 2 ^ 64) :
    ∀ (n : Nat) (j r : Nat) (g : List Entry) (e : Entry) (it : TIter), At G it j r g e →
      it.reversed = true →
      ((G.take j).flatten ++ g.take (r + 1)).length = n → ∀ fuel, n < fuel →
      TIter.scan (fun it => it.apiNext env t) fuel it =
        some ((G.take j).flatten ++ g.take (r + 1)).reverse := by
  intro n
  induction n with
  | zero =>
    intro j r g e it hat _ hlen
    have hr := lt_of_getElem?_some hat.gr
    simp only [List.length_append, List.length_take] at hlen
    omega
  | succ n ih =>
    intro j r g e it hat hrev hlen fuel hfuel
    have hr := lt_of_getElem?_some hat.gr
    have hgm : g ∈ G := List.mem_of_getElem? hat.gj
    have hem : e ∈ g := List.mem_of_getElem? hat.gr
    obtain ⟨hv, hd, hent⟩ := at_entry hat (hexp g hgm e hem)
    obtain ⟨f, rfl⟩ : ∃ f, fuel = f + 1 := ⟨fuel - 1, by omega⟩
    have htake : g.take (r + 1) = g.take r ++ [e] := by
      rw [List.take_succ, hat.gr]; rfl
    have hap : it.apiNext env t = it.prev env t := by simp [TIter.apiNext, hrev]
    simp only [TIter.scan, hv, if_true, hd, Option.bind_some]
    rw [hap]
    rw [htake, ← List.append_assoc, List.reverse_append, List.reverse_singleton, List.singleton_append,
      hent]
    rw [htake, ← List.append_assoc, List.length_append] at hlen
    simp only [List.length_singleton] at hlen
    cases r with
    | succ r' =>
      obtain ⟨e', he'⟩ := getElem?_some_of_lt g r' (by omega)
      obtain ⟨it', hprev, hat', hrev'⟩ := prev_in_block ok hat he'
      rw [hprev, Option.bind_some, ih j r' g e' it' hat' (by rw [hrev', hrev]) (by omega) f (by omega)]
      rfl
    | zero =>
      simp only [List.take_zero, List.append_nil] at hlen ⊢
      cases j with
      | succ j' =>
        obtain ⟨g', hg'⟩ := getElem?_some_of_lt G j' (by have := lt_of_getElem?_some hat.gj; omega)
        have hg'ne := hne g' (List.mem_of_getElem? hg')
        have hg'pos := List.length_pos_iff.mpr hg'ne
        obtain ⟨e', he'⟩ := getElem?_some_of_lt g' (g'.length - 1) (by omega)
        obtain ⟨it', hprev, hat', hrev'⟩ := prev_cross_block ok hat hg' he'
        have hsplit := take_succ_flatten_of_get G j' g' hg'
        have htk : g'.take (g'.length - 1 + 1) = g' := List.take_of_length_le (by omega)
        have := ih j' (g'.length - 1) g' e' it' hat' (by rw [hrev', hrev])
          (by rw [htk, ← hsplit]; omega) f (by omega)
        rw [hprev, Option.bind_some, this, htk, ← hsplit]
        rfl
      | zero =>
        obtain ⟨it', hprev, herr', _⟩ := prev_at_start ok hat
        rw [hprev, Option.bind_some, scan_invalid _ _ _ herr']
        rfl

end Badger.Tbl
