import BadgerModel.Spec.Mvcc
import BadgerProofs.Lemmas.Order
/-!
# Sorted entry lists: `SortedEnts`, `memPut`, `merge2`/`mergeAll`, `newestLE`

* `SortedEnts` is `Pairwise (entCmp · · = .lt)`; sublists/filters stay sorted; a sorted list
  holds at most one entry per `(key, ver)`.
* `memPut` is insert-or-replace and preserves sortedness.
* `merge2`/`mergeAll` of sorted lists are sorted; membership with "left/earliest source wins".
* `newestLE` is a fold of the associative, left-biased "max by version" operation `pick`;
  on a sorted list it is `find?` of the first entry with `key = k ∧ ver ≤ ts`.
-/
namespace Badger

/-! ## `SortedEnts` -/

instance (es : List Ent) : Decidable (SortedEnts es) := by unfold SortedEnts; infer_instance

theorem sortedEnts_nil : SortedEnts [] := List.Pairwise.nil

theorem sortedEnts_singleton (a : Ent) : SortedEnts [a] := List.pairwise_singleton _ _

theorem sortedEnts_cons {a : Ent} {l : List Ent} :
    SortedEnts (a :: l) ↔ (∀ b ∈ l, entCmp a b = .lt) ∧ SortedEnts l := List.pairwise_cons

theorem SortedEnts.tail {a : Ent} {l : List Ent} (h : SortedEnts (a :: l)) : SortedEnts l :=
  (sortedEnts_cons.mp h).2

theorem SortedEnts.head_lt {a : Ent} {l : List Ent} (h : SortedEnts (a :: l)) :
    ∀ b ∈ l, entCmp a b = .lt := (sortedEnts_cons.mp h).1

theorem SortedEnts.sublist {l' l : List Ent} (hs : l'.Sublist l) (h : SortedEnts l) : SortedEnts l' :=
  List.Pairwise.sublist hs h

theorem SortedEnts.filter {l : List Ent} (q : Ent → Bool) (h : SortedEnts l) : SortedEnts (l.filter q) :=
  h.sublist List.filter_sublist

theorem sortedEnts_append {a b : List Ent} :
    SortedEnts (a ++ b) ↔ SortedEnts a ∧ SortedEnts b ∧ ∀ x ∈ a, ∀ y ∈ b, entCmp x y = .lt :=
  List.pairwise_append

/-- thanks to transitivity it is enough to compare neighbours -/
theorem sortedEnts_cons_cons {a b : Ent} {l : List Ent} :
    SortedEnts (a :: b :: l) ↔ entCmp a b = .lt ∧ SortedEnts (b :: l) := by
  constructor
  · intro h; exact ⟨h.head_lt b (List.mem_cons_self), h.tail⟩
  · intro ⟨hab, hs⟩
    refine sortedEnts_cons.mpr ⟨?_, hs⟩
    intro c hc
    rcases List.mem_cons.mp hc with rfl | hc
    · exact hab
    · exact entCmp_lt_trans hab (hs.head_lt c hc)

/-- everything in a sorted list is `≥` its head -/
theorem SortedEnts.head_le {a : Ent} {l : List Ent} (h : SortedEnts (a :: l)) {x : Ent}
    (hx : x ∈ a :: l) : entCmp x a ≠ .lt := by
  rcases List.mem_cons.mp hx with rfl | hx
  · exact entCmp_lt_irrefl _
  · exact entCmp_lt_asymm (h.head_lt x hx)

/-- a sorted list holds at most one entry per `(key, ver)` -/
theorem SortedEnts.eq_of_key_ver {l : List Ent} (h : SortedEnts l) {x y : Ent} (hx : x ∈ l)
    (hy : y ∈ l) (hk : x.key = y.key) (hv : x.ver = y.ver) : x = y := by
  induction l with
  | nil => cases hx
  | cons a l ih =>
    have heq : entCmp x y = .eq := (entCmp_eq_iff x y).mpr ⟨hk, hv⟩
    rcases List.mem_cons.mp hx with hxa | hx' <;> rcases List.mem_cons.mp hy with hya | hy'
    · rw [hxa, hya]
    · have := h.head_lt y hy'; rw [← hxa, heq] at this; cases this
    · have := h.head_lt x hx'; rw [← hya, entCmp_eq_symm heq] at this; cases this
    · exact ih h.tail hx' hy'

/-- in a sorted list, an entry of the same key with a larger version comes first: everything
    after `e` in `pre ++ e :: rest` is not "same key, newer" -/
theorem SortedEnts.newer_mem_prefix {pre rest : List Ent} {e x : Ent}
    (h : SortedEnts (pre ++ e :: rest)) (hx : x ∈ pre ++ e :: rest) (hk : x.key = e.key)
    (hv : e.ver < x.ver) : x ∈ pre := by
  rw [sortedEnts_append] at h
  rcases List.mem_append.mp hx with hx | hx
  · exact hx
  · exfalso
    have hlt : entCmp x e = .lt := (entCmp_lt_same_key hk).mpr hv
    exact h.2.1.head_le hx hlt

/-- conversely every same-key entry before `e` is newer -/
theorem SortedEnts.prefix_newer {pre rest : List Ent} {e x : Ent}
    (h : SortedEnts (pre ++ e :: rest)) (hx : x ∈ pre) (hk : x.key = e.key) : e.ver < x.ver := by
  rw [sortedEnts_append] at h
  exact (entCmp_lt_same_key hk).mp (h.2.2 x hx e List.mem_cons_self)

/-! ## `memPut` -/

theorem mem_memPut_imp {e x : Ent} {m : List Ent} (h : x ∈ memPut e m) : x = e ∨ x ∈ m := by
  induction m with
  | nil => simp [memPut] at h; exact .inl h
  | cons y ys ih =>
    simp only [memPut] at h
    split at h
    · rcases List.mem_cons.mp h with h | h
      · exact .inl h
      · exact .inr h
    · rcases List.mem_cons.mp h with h | h
      · exact .inl h
      · exact .inr (List.mem_cons_of_mem _ h)
    · rcases List.mem_cons.mp h with h | h
      · exact .inr (h ▸ List.mem_cons_self)
      · rcases ih h with h | h
        · exact .inl h
        · exact .inr (List.mem_cons_of_mem _ h)

theorem memPut_sorted {e : Ent} {m : List Ent} (hs : SortedEnts m) : SortedEnts (memPut e m) := by
  induction m with
  | nil => exact sortedEnts_singleton e
  | cons y ys ih =>
    simp only [memPut]
    split
    · rename_i hlt
      exact sortedEnts_cons_cons.mpr ⟨hlt, hs⟩
    · rename_i heq
      refine sortedEnts_cons.mpr ⟨?_, hs.tail⟩
      intro b hb
      exact entCmp_lt_of_eq_of_lt heq (hs.head_lt b hb)
    · rename_i hgt
      refine sortedEnts_cons.mpr ⟨?_, ih hs.tail⟩
      intro b hb
      rcases mem_memPut_imp hb with rfl | hb
      · exact (entCmp_gt_iff_lt _ _).mp hgt
      · exact hs.head_lt b hb

theorem mem_memPut' {e x : Ent} {m : List Ent} (hs : SortedEnts m) :
    x ∈ memPut e m ↔ x = e ∨ (x ∈ m ∧ entCmp e x ≠ .eq) := by
  induction m with
  | nil => simp [memPut]
  | cons y ys ih =>
    simp only [memPut]
    split
    · rename_i hlt
      constructor
      · intro h
        rcases List.mem_cons.mp h with h | h
        · exact .inl h
        · refine .inr ⟨h, ?_⟩
          have : entCmp e x = .lt := by
            rcases List.mem_cons.mp h with rfl | h
            · exact hlt
            · exact entCmp_lt_trans hlt (hs.head_lt x h)
          rw [this]; simp
      · rintro (h | h)
        · exact h ▸ List.mem_cons_self
        · exact List.mem_cons_of_mem _ h.1
    · rename_i heq
      constructor
      · intro h
        rcases List.mem_cons.mp h with h | h
        · exact .inl h
        · refine .inr ⟨List.mem_cons_of_mem _ h, ?_⟩
          rw [entCmp_lt_of_eq_of_lt heq (hs.head_lt x h)]; simp
      · rintro (h | ⟨h, hne⟩)
        · exact h ▸ List.mem_cons_self
        · rcases List.mem_cons.mp h with rfl | h
          · exact absurd heq hne
          · exact List.mem_cons_of_mem _ h
    · rename_i hgt
      rw [List.mem_cons, ih hs.tail]
      constructor
      · rintro (h | h | ⟨h, hne⟩)
        · subst h; exact .inr ⟨List.mem_cons_self, by rw [hgt]; simp⟩
        · exact .inl h
        · exact .inr ⟨List.mem_cons_of_mem _ h, hne⟩
      · rintro (h | ⟨h, hne⟩)
        · exact .inr (.inl h)
        · rcases List.mem_cons.mp h with h | h
          · exact .inl h
          · exact .inr (.inr ⟨h, hne⟩)

/-- `memPut` is insert-or-replace: the new entry, plus every old entry with a different
    `(key, ver)`. -/
theorem mem_memPut {e x : Ent} {m : List Ent} (hs : SortedEnts m) :
    x ∈ memPut e m ↔ x = e ∨ (x ∈ m ∧ ¬(x.key = e.key ∧ x.ver = e.ver)) := by
  rw [mem_memPut' hs, Ne, entCmp_eq_iff]
  constructor
  · rintro (h | ⟨h, hne⟩)
    · exact .inl h
    · exact .inr ⟨h, fun h' => hne ⟨h'.1.symm, h'.2.symm⟩⟩
  · rintro (h | ⟨h, hne⟩)
    · exact .inl h
    · exact .inr ⟨h, fun h' => hne ⟨h'.1.symm, h'.2.symm⟩⟩

/-! ## `merge2`, `mergeAll` -/

@[simp] theorem merge2_nil_left (ys : List Ent) : merge2 [] ys = ys := by
  cases ys <;> simp [merge2]

@[simp] theorem merge2_nil_right (xs : List Ent) : merge2 xs [] = xs := by
  cases xs <;> simp [merge2]

theorem merge2_cons_cons (x y : Ent) (xs ys : List Ent) :
    merge2 (x :: xs) (y :: ys) =
      match entCmp x y with
      | .lt => x :: merge2 xs (y :: ys)
      | .eq => x :: merge2 xs ys
      | .gt => y :: merge2 (x :: xs) ys := by
  rw [merge2]; cases entCmp x y <;> rfl

theorem mem_merge2_imp {x : Ent} {a b : List Ent} (h : x ∈ merge2 a b) : x ∈ a ∨ x ∈ b := by
  fun_induction merge2 a b with
  | case1 ys => exact .inr h
  | case2 xs _ => exact .inl h
  | case3 a as b bs hc ih =>
    rcases List.mem_cons.mp h with h | h
    · exact .inl (h ▸ List.mem_cons_self)
    · rcases ih h with h | h
      · exact .inl (List.mem_cons_of_mem _ h)
      · exact .inr h
  | case4 a as b bs hc ih =>
    rcases List.mem_cons.mp h with h | h
    · exact .inl (h ▸ List.mem_cons_self)
    · rcases ih h with h | h
      · exact .inl (List.mem_cons_of_mem _ h)
      · exact .inr (List.mem_cons_of_mem _ h)
  | case5 a as b bs hc ih =>
    rcases List.mem_cons.mp h with h | h
    · exact .inr (h ▸ List.mem_cons_self)
    · rcases ih h with h | h
      · exact .inl h
      · exact .inr (List.mem_cons_of_mem _ h)

theorem merge2_sorted {a b : List Ent} (ha : SortedEnts a) (hb : SortedEnts b) :
    SortedEnts (merge2 a b) := by
  fun_induction merge2 a b with
  | case1 ys => exact hb
  | case2 xs _ => exact ha
  | case3 x xs y ys hc ih =>
    refine sortedEnts_cons.mpr ⟨?_, ih ha.tail hb⟩
    intro z hz
    rcases mem_merge2_imp hz with hz | hz
    · exact ha.head_lt z hz
    · rcases List.mem_cons.mp hz with rfl | hz
      · exact hc
      · exact entCmp_lt_trans hc (hb.head_lt z hz)
  | case4 x xs y ys hc ih =>
    refine sortedEnts_cons.mpr ⟨?_, ih ha.tail hb.tail⟩
    intro z hz
    rcases mem_merge2_imp hz with hz | hz
    · exact ha.head_lt z hz
    · exact entCmp_lt_of_eq_of_lt hc (hb.head_lt z hz)
  | case5 x xs y ys hc ih =>
    have hyx : entCmp y x = .lt := (entCmp_gt_iff_lt _ _).mp hc
    refine sortedEnts_cons.mpr ⟨?_, ih ha hb.tail⟩
    intro z hz
    rcases mem_merge2_imp hz with hz | hz
    · rcases List.mem_cons.mp hz with rfl | hz
      · exact hyx
      · exact entCmp_lt_trans hyx (ha.head_lt z hz)
    · exact hb.head_lt z hz

theorem mem_merge2' {x : Ent} {a b : List Ent} (ha : SortedEnts a) (hb : SortedEnts b) :
    x ∈ merge2 a b ↔ x ∈ a ∨ (x ∈ b ∧ ∀ y ∈ a, entCmp y x ≠ .eq) := by
  fun_induction merge2 a b with
  | case1 ys => simp
  | case2 xs _ => simp
  | case3 a as b bs hc ih =>
    rw [List.mem_cons, ih ha.tail hb]
    constructor
    · rintro (h | h | ⟨h, hne⟩)
      · exact .inl (h ▸ List.mem_cons_self)
      · exact .inl (List.mem_cons_of_mem _ h)
      · refine .inr ⟨h, ?_⟩
        intro y hy
        rcases List.mem_cons.mp hy with rfl | hy
        · have : entCmp y x = .lt := by
            rcases List.mem_cons.mp h with rfl | h
            · exact hc
            · exact entCmp_lt_trans hc (hb.head_lt x h)
          rw [this]; simp
        · exact hne y hy
    · rintro (h | ⟨h, hne⟩)
      · rcases List.mem_cons.mp h with h | h
        · exact .inl h
        · exact .inr (.inl h)
      · exact .inr (.inr ⟨h, fun y hy => hne y (List.mem_cons_of_mem _ hy)⟩)
  | case4 a as b bs hc ih =>
    rw [List.mem_cons, ih ha.tail hb.tail]
    constructor
    · rintro (h | h | ⟨h, hne⟩)
      · exact .inl (h ▸ List.mem_cons_self)
      · exact .inl (List.mem_cons_of_mem _ h)
      · refine .inr ⟨List.mem_cons_of_mem _ h, ?_⟩
        intro y hy
        rcases List.mem_cons.mp hy with rfl | hy
        · rw [entCmp_lt_of_eq_of_lt hc (hb.head_lt x h)]; simp
        · exact hne y hy
    · rintro (h | ⟨h, hne⟩)
      · rcases List.mem_cons.mp h with h | h
        · exact .inl h
        · exact .inr (.inl h)
      · rcases List.mem_cons.mp h with rfl | h
        · exact absurd hc (hne a List.mem_cons_self)
        · exact .inr (.inr ⟨h, fun y hy => hne y (List.mem_cons_of_mem _ hy)⟩)
  | case5 a as b bs hc ih =>
    have hba : entCmp b a = .lt := (entCmp_gt_iff_lt _ _).mp hc
    rw [List.mem_cons, ih ha hb.tail]
    constructor
    · rintro (h | h | ⟨h, hne⟩)
      · subst h
        refine .inr ⟨List.mem_cons_self, ?_⟩
        intro y hy
        have : entCmp x y = .lt := by
          rcases List.mem_cons.mp hy with rfl | hy
          · exact hba
          · exact entCmp_lt_trans hba (ha.head_lt y hy)
        intro h'; rw [entCmp_eq_symm h'] at this; cases this
      · exact .inl h
      · exact .inr ⟨List.mem_cons_of_mem _ h, hne⟩
    · rintro (h | ⟨h, hne⟩)
      · exact .inr (.inl h)
      · rcases List.mem_cons.mp h with h | h
        · exact .inl h
        · exact .inr (.inr ⟨h, hne⟩)

/-- membership in a two-way merge of sorted lists: everything of the left input, and those
    entries of the right input whose `(key, ver)` does not occur on the left. -/
theorem mem_merge2 {x : Ent} {a b : List Ent} (ha : SortedEnts a) (hb : SortedEnts b) :
    x ∈ merge2 a b ↔ x ∈ a ∨ (x ∈ b ∧ ∀ y ∈ a, ¬(y.key = x.key ∧ y.ver = x.ver)) := by
  rw [mem_merge2' ha hb]
  simp only [Ne, entCmp_eq_iff]

@[simp] theorem mergeAll_nil : mergeAll [] = [] := rfl

@[simp] theorem mergeAll_cons (s : List Ent) (srcs : List (List Ent)) :
    mergeAll (s :: srcs) = merge2 s (mergeAll srcs) := rfl

theorem mergeAll_sorted {srcs : List (List Ent)} (h : ∀ s ∈ srcs, SortedEnts s) :
    SortedEnts (mergeAll srcs) := by
  induction srcs with
  | nil => exact sortedEnts_nil
  | cons s rest ih =>
    exact merge2_sorted (h s List.mem_cons_self) (ih fun s' hs' => h s' (List.mem_cons_of_mem _ hs'))

theorem mem_mergeAll_imp {e : Ent} {srcs : List (List Ent)} (h : e ∈ mergeAll srcs) :
    ∃ s ∈ srcs, e ∈ s := by
  induction srcs with
  | nil => cases h
  | cons s rest ih =>
    rcases mem_merge2_imp h with h | h
    · exact ⟨s, List.mem_cons_self, h⟩
    · obtain ⟨s', hs', he⟩ := ih h
      exact ⟨s', List.mem_cons_of_mem _ hs', he⟩

/-- membership in the merge: `e` comes from some source and no *earlier* source holds an entry
    with the same `(key, ver)`. -/
theorem mem_mergeAll {e : Ent} {srcs : List (List Ent)} (h : ∀ s ∈ srcs, SortedEnts s) :
    e ∈ mergeAll srcs ↔
      ∃ pre s post, srcs = pre ++ s :: post ∧ e ∈ s ∧
        ∀ s' ∈ pre, ∀ y ∈ s', ¬(y.key = e.key ∧ y.ver = e.ver) := by
  induction srcs with
  | nil => simp
  | cons s rest ih =>
    have hrest : ∀ s' ∈ rest, SortedEnts s' := fun s' hs' => h s' (List.mem_cons_of_mem _ hs')
    rw [mergeAll_cons, mem_merge2 (h s List.mem_cons_self) (mergeAll_sorted hrest), ih hrest]
    constructor
    · rintro (he | ⟨⟨pre, s', post, heq, he, hne⟩, hs⟩)
      · exact ⟨[], s, rest, rfl, he, by simp⟩
      · refine ⟨s :: pre, s', post, by rw [heq]; rfl, he, ?_⟩
        intro t ht y hy
        rcases List.mem_cons.mp ht with rfl | ht
        · exact hs y hy
        · exact hne t ht y hy
    · rintro ⟨pre, s', post, heq, he, hne⟩
      cases pre with
      | nil =>
        simp only [List.nil_append, List.cons.injEq] at heq
        exact .inl (heq.1 ▸ he)
      | cons p pre =>
        simp only [List.cons_append, List.cons.injEq] at heq
        refine .inr ⟨⟨pre, s', post, heq.2, he, fun t ht => hne t (List.mem_cons_of_mem _ ht)⟩, ?_⟩
        rw [heq.1]
        exact hne p List.mem_cons_self

/-! ## `newestLE` as a fold of `pick` -/

/-- left-biased maximum by version (`none` is the unit) -/
def pick : Option Ent → Option Ent → Option Ent
  | none, b => b
  | some a, none => some a
  | some a, some b => if a.ver < b.ver then some b else some a

/-- the entry as a candidate for a read of `k` at `ts` -/
def cand (k : Bytes) (ts : Nat) (e : Ent) : Option Ent :=
  if e.key = k ∧ e.ver ≤ ts then some e else none

@[simp] theorem pick_none_left (b : Option Ent) : pick none b = b := rfl

@[simp] theorem pick_none_right (a : Option Ent) : pick a none = a := by cases a <;> rfl

theorem pick_some_some (a b : Ent) :
    pick (some a) (some b) = if a.ver < b.ver then some b else some a := rfl

theorem pick_assoc (a b c : Option Ent) : pick (pick a b) c = pick a (pick b c) := by
  rcases a with _ | a <;> rcases b with _ | b <;> rcases c with _ | c <;> try rfl
  · simp only [pick_none_right]
  · show pick (if a.ver < b.ver then some b else some a) (some c) =
      pick (some a) (if b.ver < c.ver then some c else some b)
    by_cases h1 : a.ver < b.ver <;> by_cases h2 : b.ver < c.ver <;>
      simp only [h1, h2, if_true, if_false, pick_some_some] <;>
      (try split) <;> first | rfl | omega

/-- `pick` commutes on entries with different versions -/
theorem pick_comm_of_ver_ne {a b : Ent} (h : a.ver ≠ b.ver) :
    pick (some a) (some b) = pick (some b) (some a) := by
  simp only [pick]; split <;> split <;> first | rfl | omega

/-- an entry of at most the version already held is absorbed -/
theorem pick_absorb {a b : Ent} (h : b.ver ≤ a.ver) : pick (some a) (some b) = some a := by
  simp only [pick]; rw [if_neg (by omega)]

theorem betterOf_eq_pick (best : Option Ent) (e : Ent) : betterOf best e = pick best (some e) := by
  cases best <;> rfl

theorem newestLE_step_eq (k : Bytes) (ts : Nat) (best : Option Ent) (e : Ent) :
    (if e.key = k ∧ e.ver ≤ ts then betterOf best e else best) = pick best (cand k ts e) := by
  unfold cand; split
  · exact betterOf_eq_pick _ _
  · simp

theorem newestLE_foldl (k : Bytes) (ts : Nat) (init : Option Ent) (es : List Ent) :
    es.foldl (fun best e => if e.key = k ∧ e.ver ≤ ts then betterOf best e else best) init =
      pick init (newestLE es k ts) := by
  unfold newestLE
  induction es generalizing init with
  | nil => simp
  | cons e es ih =>
    simp only [List.foldl_cons]
    rw [ih, ih (if e.key = k ∧ e.ver ≤ ts then betterOf none e else none)]
    rw [newestLE_step_eq, newestLE_step_eq, pick_none_left, pick_assoc]

@[simp] theorem newestLE_nil (k : Bytes) (ts : Nat) : newestLE [] k ts = none := rfl

theorem newestLE_cons (e : Ent) (es : List Ent) (k : Bytes) (ts : Nat) :
    newestLE (e :: es) k ts = pick (cand k ts e) (newestLE es k ts) := by
  show List.foldl _ _ (e :: es) = _
  rw [List.foldl_cons, newestLE_foldl, newestLE_step_eq, pick_none_left]

theorem newestLE_append (a b : List Ent) (k : Bytes) (ts : Nat) :
    newestLE (a ++ b) k ts = pick (newestLE a k ts) (newestLE b k ts) := by
  induction a with
  | nil => simp
  | cons e a ih => rw [List.cons_append, newestLE_cons, newestLE_cons, ih, pick_assoc]

theorem newestLE_flatten_cons (s : List Ent) (srcs : List (List Ent)) (k : Bytes) (ts : Nat) :
    newestLE (s :: srcs).flatten k ts = pick (newestLE s k ts) (newestLE srcs.flatten k ts) := by
  rw [List.flatten_cons, newestLE_append]

theorem pick_eq_some {a b : Option Ent} {e : Ent} (h : pick a b = some e) : a = some e ∨ b = some e := by
  cases a <;> cases b <;> simp only [pick] at h
  · cases h
  · exact .inr h
  · exact .inl h
  · split at h
    · exact .inr h
    · exact .inl h

theorem cand_eq_some {k : Bytes} {ts : Nat} {x e : Ent} (h : cand k ts x = some e) :
    x = e ∧ e.key = k ∧ e.ver ≤ ts := by
  unfold cand at h; split at h
  · cases h; rename_i hc; exact ⟨rfl, hc⟩
  · cases h

theorem cand_pos {k : Bytes} {ts : Nat} {x : Ent} (hk : x.key = k) (hv : x.ver ≤ ts) :
    cand k ts x = some x := by unfold cand; rw [if_pos ⟨hk, hv⟩]

theorem cand_neg {k : Bytes} {ts : Nat} {x : Ent} (h : ¬(x.key = k ∧ x.ver ≤ ts)) :
    cand k ts x = none := by unfold cand; rw [if_neg h]

/-- what `newestLE` returns is a member, of the right key, with version `≤ ts` -/
theorem newestLE_some_mem {es : List Ent} {k : Bytes} {ts : Nat} {e : Ent}
    (h : newestLE es k ts = some e) : e ∈ es ∧ e.key = k ∧ e.ver ≤ ts := by
  induction es with
  | nil => cases h
  | cons x xs ih =>
    rw [newestLE_cons] at h
    rcases pick_eq_some h with h | h
    · obtain ⟨rfl, h2⟩ := cand_eq_some h
      exact ⟨List.mem_cons_self, h2⟩
    · obtain ⟨h1, h2⟩ := ih h
      exact ⟨List.mem_cons_of_mem _ h1, h2⟩

theorem pick_eq_none {a b : Option Ent} : pick a b = none ↔ a = none ∧ b = none := by
  cases a <;> cases b <;> simp [pick]
  split <;> simp

theorem newestLE_eq_none_iff {es : List Ent} {k : Bytes} {ts : Nat} :
    newestLE es k ts = none ↔ ∀ x ∈ es, ¬(x.key = k ∧ x.ver ≤ ts) := by
  induction es with
  | nil => simp
  | cons x xs ih =>
    rw [newestLE_cons, pick_eq_none, ih]
    simp only [List.mem_cons, forall_eq_or_imp]
    refine and_congr ?_ Iff.rfl
    unfold cand; split <;> simp_all

/-- the version returned is maximal among the candidates -/
theorem pick_ver_ge {a b : Option Ent} {e : Ent} (h : pick a b = some e) :
    (∀ x, a = some x → x.ver ≤ e.ver) ∧ (∀ x, b = some x → x.ver ≤ e.ver) := by
  cases a <;> cases b <;> simp only [pick] at h
  · cases h
  · cases h; simp
  · cases h; simp
  · split at h <;> cases h <;> simp <;> omega

theorem newestLE_ver_max {es : List Ent} {k : Bytes} {ts : Nat} {e : Ent}
    (h : newestLE es k ts = some e) : ∀ x ∈ es, x.key = k → x.ver ≤ ts → x.ver ≤ e.ver := by
  induction es generalizing e with
  | nil => intro x hx; cases hx
  | cons y ys ih =>
    rw [newestLE_cons] at h
    have hp := pick_ver_ge h
    intro x hx hk hv
    rcases List.mem_cons.mp hx with rfl | hx
    · exact hp.1 x (cand_pos hk hv)
    · cases hn : newestLE ys k ts with
      | none => exact absurd ⟨hk, hv⟩ (newestLE_eq_none_iff.mp hn x hx)
      | some e' => exact Nat.le_trans (ih hn x hx hk hv) (hp.2 e' hn)

/-- on a sorted list `newestLE` is the *first* entry with `key = k ∧ ver ≤ ts` -/
theorem newestLE_sorted_eq_find? {es : List Ent} (hs : SortedEnts es) (k : Bytes) (ts : Nat) :
    newestLE es k ts = es.find? (fun e => decide (e.key = k ∧ e.ver ≤ ts)) := by
  induction es with
  | nil => rfl
  | cons x xs ih =>
    rw [newestLE_cons, List.find?_cons, ← ih hs.tail]
    by_cases hc : x.key = k ∧ x.ver ≤ ts
    · rw [cand_pos hc.1 hc.2]; simp only [hc, and_self, decide_true]
      cases hn : newestLE xs k ts with
      | none => rfl
      | some e' =>
        obtain ⟨hm, hk, _⟩ := newestLE_some_mem hn
        have := (entCmp_lt_same_key (hc.1.trans hk.symm)).mp (hs.head_lt e' hm)
        exact pick_absorb (by omega)
    · rw [cand_neg hc]; simp [hc]

/-- on a sorted list: `newestLE` returns `e` iff `e` is the member of key `k` with the largest
    version `≤ ts`. -/
theorem newestLE_sorted_some_iff {es : List Ent} (hs : SortedEnts es) {k : Bytes} {ts : Nat} {e : Ent} :
    newestLE es k ts = some e ↔
      e ∈ es ∧ e.key = k ∧ e.ver ≤ ts ∧ ∀ x ∈ es, x.key = k → x.ver ≤ ts → x.ver ≤ e.ver := by
  constructor
  · intro h
    obtain ⟨h1, h2, h3⟩ := newestLE_some_mem h
    exact ⟨h1, h2, h3, newestLE_ver_max h⟩
  · intro ⟨hm, hk, hv, hmax⟩
    cases hn : newestLE es k ts with
    | none => exact absurd ⟨hk, hv⟩ (newestLE_eq_none_iff.mp hn e hm)
    | some e' =>
      obtain ⟨hm', hk', hv'⟩ := newestLE_some_mem hn
      have h1 := newestLE_ver_max hn e hm hk hv
      have h2 := hmax e' hm' hk' hv'
      rw [hs.eq_of_key_ver hm' hm (hk'.trans hk.symm) (by omega)]

/-- reads only see the `(key, ver)`-first copy: the two-way merge serves the same reads as
    the concatenation of its (sorted) inputs. -/
theorem newestLE_merge2 {a b : List Ent} (ha : SortedEnts a) (k : Bytes) (ts : Nat) :
    newestLE (merge2 a b) k ts = pick (newestLE a k ts) (newestLE b k ts) := by
  fun_induction merge2 a b with
  | case1 ys => simp
  | case2 xs _ => simp
  | case3 x xs y ys hc ih =>
    rw [newestLE_cons, ih ha.tail, newestLE_cons x xs, pick_assoc]
  | case4 x xs y ys hc ih =>
    rw [newestLE_cons, ih ha.tail, newestLE_cons x xs, newestLE_cons y ys]
    have hxy := (entCmp_eq_iff x y).mp hc
    by_cases hq : x.key = k ∧ x.ver ≤ ts
    · have hq' : y.key = k ∧ y.ver ≤ ts := by rw [← hxy.1, ← hxy.2]; exact hq
      rw [cand_pos hq.1 hq.2, cand_pos hq'.1 hq'.2]
      -- (some x ⊔ A) absorbs y
      have : pick (pick (some x) (newestLE xs k ts)) (some y) = pick (some x) (newestLE xs k ts) := by
        cases hA : pick (some x) (newestLE xs k ts) with
        | none => rw [pick_eq_none] at hA; cases hA.1
        | some a =>
          have := (pick_ver_ge hA).1 x rfl
          exact pick_absorb (by omega)
      rw [← pick_assoc (pick (some x) (newestLE xs k ts)) (some y), this, pick_assoc]
    · have hq' : ¬(y.key = k ∧ y.ver ≤ ts) := by rw [← hxy.1, ← hxy.2]; exact hq
      rw [cand_neg hq, cand_neg hq']; simp
  | case5 x xs y ys hc ih =>
    have hyx : entCmp y x = .lt := (entCmp_gt_iff_lt _ _).mp hc
    rw [newestLE_cons, ih ha, newestLE_cons y ys]
    by_cases hq : y.key = k ∧ y.ver ≤ ts
    · rw [cand_pos hq.1 hq.2]
      cases hA : newestLE (x :: xs) k ts with
      | none => simp
      | some a =>
        obtain ⟨hm, hk, _⟩ := newestLE_some_mem hA
        have hya : entCmp y a = .lt := by
          rcases List.mem_cons.mp hm with rfl | hm
          · exact hyx
          · exact entCmp_lt_trans hyx (ha.head_lt a hm)
        have hv := (entCmp_lt_same_key (hq.1.trans hk.symm)).mp hya
        rw [← pick_assoc, ← pick_assoc, pick_comm_of_ver_ne (by omega)]
    · rw [cand_neg hq]; simp

theorem newestLE_mergeAll {srcs : List (List Ent)} (h : ∀ s ∈ srcs, SortedEnts s) (k : Bytes) (ts : Nat) :
    newestLE (mergeAll srcs) k ts = newestLE srcs.flatten k ts := by
  induction srcs with
  | nil => rfl
  | cons s rest ih =>
    rw [mergeAll_cons, newestLE_merge2 (h s List.mem_cons_self), newestLE_flatten_cons,
      ih fun s' hs' => h s' (List.mem_cons_of_mem _ hs')]

/-- `memPut e m` serves the same reads as `e :: m` (the new entry first, so it wins the tie
    against the entry it replaces). No sortedness needed. -/
theorem newestLE_memPut (e : Ent) (m : List Ent) (k : Bytes) (ts : Nat) :
    newestLE (memPut e m) k ts = newestLE (e :: m) k ts := by
  induction m with
  | nil => rfl
  | cons x xs ih =>
    simp only [memPut]
    split
    · rfl
    · rename_i heq
      have hex := (entCmp_eq_iff e x).mp heq
      rw [newestLE_cons, newestLE_cons e, newestLE_cons x]
      by_cases hq : e.key = k ∧ e.ver ≤ ts
      · have hq' : x.key = k ∧ x.ver ≤ ts := by rw [← hex.1, ← hex.2]; exact hq
        rw [cand_pos hq.1 hq.2, cand_pos hq'.1 hq'.2, ← pick_assoc, pick_absorb (by omega)]
      · have hq' : ¬(x.key = k ∧ x.ver ≤ ts) := by rw [← hex.1, ← hex.2]; exact hq
        rw [cand_neg hq, cand_neg hq']; simp
    · rename_i hgt
      have hxe : entCmp x e = .lt := (entCmp_gt_iff_lt _ _).mp hgt
      rw [newestLE_cons, ih, newestLE_cons e, newestLE_cons e, newestLE_cons x, ← pick_assoc,
        ← pick_assoc]
      congr 1
      by_cases hq : e.key = k ∧ e.ver ≤ ts
      · by_cases hq' : x.key = k ∧ x.ver ≤ ts
        · rw [cand_pos hq.1 hq.2, cand_pos hq'.1 hq'.2]
          have := (entCmp_lt_same_key (hq'.1.trans hq.1.symm)).mp hxe
          exact pick_comm_of_ver_ne (by omega)
        · rw [cand_neg hq']; simp
      · rw [cand_neg hq]; simp

end Badger
