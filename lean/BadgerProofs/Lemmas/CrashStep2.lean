import BadgerProofs.Lemmas.CrashStep
/-!
# Preservation of `Inv` (part 2: compaction atoms)
-/
namespace Badger

/-- the stage update the compaction atoms perform on `kout` -/
def setStage (id st : Nat) (o : KOut) : KOut := if o.id == id then { o with stage := st } else o

@[simp] theorem setStage_id (id st : Nat) (o : KOut) : (setStage id st o).id = o.id := by
  unfold setStage; split <;> rfl
@[simp] theorem setStage_ents (id st : Nat) (o : KOut) : (setStage id st o).ents = o.ents := by
  unfold setStage; split <;> rfl
theorem setStage_stage (id st : Nat) (o : KOut) :
    (setStage id st o).stage = if o.id = id then st else o.stage := by
  unfold setStage
  by_cases h : o.id = id <;> simp [h]

theorem map_setStage_id (id st : Nat) (l : List KOut) : (l.map (setStage id st)).map (·.id) = l.map (·.id) := by
  simp [List.map_map, Function.comp_def]
theorem map_setStage_ents (id st : Nat) (l : List KOut) : (l.map (setStage id st)).map (·.ents) = l.map (·.ents) := by
  simp [List.map_map, Function.comp_def]

theorem eq_of_id_eq (l : List KOut) (hn : (l.map (·.id)).Nodup) (a b : KOut) (ha : a ∈ l) (hb : b ∈ l)
    (h : a.id = b.id) : a = b := by
  induction l with
  | nil => simp at ha
  | cons x xs ih =>
    simp only [List.map, List.nodup_cons, List.mem_map, not_exists, not_and] at hn
    rcases List.mem_cons.mp ha with ha | ha <;> rcases List.mem_cons.mp hb with hb | hb
    · rw [ha, hb]
    · subst ha; exact absurd h.symm (hn.1 b hb)
    · subst hb; exact absurd h (hn.1 a ha)
    · exact ih hn.2 ha hb

theorem find?_id_of_nodup (l : List KOut) (hn : (l.map (·.id)).Nodup) (o : KOut) (ho : o ∈ l) :
    l.find? (fun x => x.id == o.id) = some o := by
  induction l with
  | nil => simp at ho
  | cons x xs ih =>
    simp only [List.map, List.nodup_cons, List.mem_map, not_exists, not_and] at hn
    rcases List.mem_cons.mp ho with ho | ho
    · subst ho; simp [List.find?]
    · have : x.id ≠ o.id := fun e => hn.1 o ho e.symm
      simp [List.find?, this, ih hn.2 ho]

theorem not_holds_ne (imm : List Nat) (fpc fsst id : Nat)
    (h : (!imm.isEmpty && decide (1 ≤ fpc) && decide (fpc ≤ 4) && fsst == id) = false) :
    imm ≠ [] → 1 ≤ fpc → fpc ≤ 4 → fsst ≠ id := by
  intro h1 h2 h3 h4
  have : imm.isEmpty = false := by cases imm with
    | nil => exact absurd rfl h1
    | cons _ _ => rfl
  simp [this, h2, h3, h4] at h

/-- an update of the table file `id` that no live reader depends on -/
theorem InvSst_upd_file (R : ViewRel) (tset : List (Nat × Nat)) (tcont : List (Nat × List CEnt))
    (imm : List Nat) (mtxns : List (Nat × List Txn)) (fpc fsst nextSst : Nat)
    (kins : List Nat) (kout kout' : List KOut) (Fs : Nat → Option Inode) (id : Nat) (v : Option Inode)
    (h : InvSst R tset tcont imm mtxns fpc fsst nextSst kins kout Fs)
    (hts : aget id tset = none)
    (hfresh : id < nextSst ∨ v = none)
    (hfl : imm ≠ [] → 1 ≤ fpc → fpc ≤ 4 → fsst ≠ id)
    (hids : kout'.map (·.id) = kout.map (·.id))
    (hents : kout'.map (·.ents) = kout.map (·.ents))
    (hfiles : ∀ o ∈ kout', o.fileOk (fun n => if n = id then v else Fs n)) :
    InvSst R tset tcont imm mtxns fpc fsst nextSst kins kout' (fun n => if n = id then v else Fs n) where
  tables := by
    intro x hx
    have : x.1 ≠ id := (aget_none_iff id tset).mp hts x hx
    simp only [this, if_false]; exact h.tables x hx
  sstFresh := by
    intro n hn
    have h1 := h.sstFresh n hn
    refine ⟨?_, h1.2⟩
    by_cases hnid : n = id
    · rcases hfresh with hf | hf
      · omega
      · simp [hnid, hf]
    · simp [hnid, h1.1]
  idle := h.idle
  fsstLt := h.fsstLt
  flush1 := by
    intro h1 h2
    have : fsst ≠ id := hfl h1 (by omega) (by omega)
    simp only [this, if_false]; exact h.flush1 h1 h2
  flush2 := by
    intro k hk h2 h4
    have hi : imm ≠ [] := by intro e; simp [e] at hk
    have : fsst ≠ id := hfl hi (by omega) h4
    simp only [this, if_false]; exact h.flush2 k hk h2 h4
  flush5 := h.flush5
  koutLt := by
    intro o ho
    have : o.id ∈ kout'.map (·.id) := List.mem_map_of_mem ho
    rw [hids] at this
    obtain ⟨o2, ho2, he⟩ := List.mem_map.mp this
    rw [← he]; exact h.koutLt o2 ho2
  koutNodup := by rw [hids]; exact h.koutNodup
  koutFiles := hfiles
  kview := by intro hk; rw [hents]; exact h.kview hk
  kinsIn := h.kinsIn

theorem Inv_kmk (R : ViewRel) (s : PState) (F : KFs) (h : Inv R s F) (id : Nat)
    (hg : s.kout.any (fun o => o.id == id && o.stage == 0) = true)
    (hnh : s.flusherHolds id = false) (hts : (aget id s.tset).isNone = true) :
    Inv R { s with kout := s.kout.map (setStage id 1) }
      (upd F (.sst id) (some { chunks := [], size := .alloc })) where
  logic := h.logic
  manifest := ManifestOk_upd F _ _ _ (by simp) h.manifest
  mem := by rw [memView_upd_sst]; exact h.mem
  sst := by
    rw [sstView_upd_sst]
    obtain ⟨o, ho, hoid⟩ := List.any_eq_true.mp hg
    have hoid' : o.id = id ∧ o.stage = 0 := by simpa using hoid
    have hnone : aget id s.tset = none := by simpa using hts
    apply InvSst_upd_file R _ _ _ _ _ _ _ _ s.kout _ _ id _ h.sst hnone
      (Or.inl (hoid'.1 ▸ h.sst.koutLt o ho))
      (not_holds_ne _ _ _ _ hnh) (map_setStage_id _ _ _) (map_setStage_ents _ _ _)
    intro o' ho'
    obtain ⟨o2, ho2, he⟩ := List.mem_map.mp ho'
    subst he
    constructor
    · intro hs
      by_cases hid : o2.id = id
      · simp [hid]
      · rw [setStage_stage] at hs; simp only [hid, if_false] at hs
        simp only [setStage_id, hid, if_false]
        exact (h.sst.koutFiles o2 ho2).1 hs
    · intro hs
      by_cases hid : o2.id = id
      · rw [setStage_stage] at hs; simp [hid] at hs
      · rw [setStage_stage] at hs; simp only [hid, if_false] at hs
        simp only [setStage_id, setStage_ents, hid, if_false]
        exact (h.sst.koutFiles o2 ho2).2 hs
  vlogNZ := by
    intro n f hf
    rw [upd_ne _ _ _ _ (by simp)] at hf
    exact h.vlogNZ n f hf

theorem Inv_kwrite (R : ViewRel) (s : PState) (F : KFs) (h : Inv R s F) (id : Nat) (o : KOut)
    (ho : o ∈ s.kout) (hoid : o.id = id) (host : o.stage = 1)
    (hnh : s.flusherHolds id = false) (hts : (aget id s.tset).isNone = true) :
    Inv R { s with kout := s.kout.map (setStage id 2) }
      (upd F (.sst id) ((F (.sst id)).map (appendChunk (.table o.ents)))) where
  logic := h.logic
  manifest := ManifestOk_upd F _ _ _ (by simp) h.manifest
  mem := by rw [memView_upd_sst]; exact h.mem
  sst := by
    rw [sstView_upd_sst]
    have hnone : aget id s.tset = none := by simpa using hts
    apply InvSst_upd_file R _ _ _ _ _ _ _ _ s.kout _ _ id _ h.sst hnone
      (Or.inl (hoid ▸ h.sst.koutLt o ho))
      (not_holds_ne _ _ _ _ hnh) (map_setStage_id _ _ _) (map_setStage_ents _ _ _)
    intro o' ho'
    obtain ⟨o2, ho2, he⟩ := List.mem_map.mp ho'
    subst he
    by_cases hid : o2.id = id
    · have : o2 = o := eq_of_id_eq _ h.sst.koutNodup o2 o ho2 ho (hid.trans hoid.symm)
      subst this
      constructor
      · intro hs; rw [setStage_stage] at hs; simp [hid] at hs
      · intro _
        obtain ⟨f, hf, hc⟩ := (h.sst.koutFiles o2 ho2).1 host
        simp only [setStage_id, setStage_ents, hid, if_true]
        rw [hid] at hf
        exact ⟨appendChunk (.table o2.ents) f, by simp [sstView, hf] at *; simp [sstView] at hf; simp [hf], by simp [appendChunk, hc]⟩
    · constructor
      · intro hs
        rw [setStage_stage] at hs; simp only [hid, if_false] at hs
        simp only [setStage_id, hid, if_false]
        exact (h.sst.koutFiles o2 ho2).1 hs
      · intro hs
        rw [setStage_stage] at hs; simp only [hid, if_false] at hs
        simp only [setStage_id, setStage_ents, hid, if_false]
        exact (h.sst.koutFiles o2 ho2).2 hs
  vlogNZ := by
    intro n f hf
    rw [upd_ne _ _ _ _ (by simp)] at hf
    exact h.vlogNZ n f hf

theorem Inv_kdel (R : ViewRel) (s : PState) (F : KFs) (h : Inv R s F) (id : Nat)
    (hts : (aget id s.tset).isNone = true) (hnh : s.flusherHolds id = false)
    (hk : s.kout.any (fun o => o.id == id) = false) :
    Inv R { s with kdelq := s.kdelq.filter (· ≠ id) } (upd F (.sst id) none) where
  logic := h.logic
  manifest := ManifestOk_upd F _ _ _ (by simp) h.manifest
  mem := by rw [memView_upd_sst]; exact h.mem
  sst := by
    rw [sstView_upd_sst]
    have hnone : aget id s.tset = none := by simpa using hts
    apply InvSst_upd_file R _ _ _ _ _ _ _ _ s.kout _ _ id _ h.sst hnone (Or.inr rfl)
      (not_holds_ne _ _ _ _ hnh) rfl rfl
    intro o ho
    have hne : o.id ≠ id := by
      intro e
      have : s.kout.any (fun o => o.id == id) = true := List.any_eq_true.mpr ⟨o, ho, by simp [e]⟩
      rw [hk] at this; cases this
    constructor
    · intro hs; simp only [hne, if_false]; exact (h.sst.koutFiles o ho).1 hs
    · intro hs; simp only [hne, if_false]; exact (h.sst.koutFiles o ho).2 hs
  vlogNZ := by
    intro n f hf
    rw [upd_ne _ _ _ _ (by simp)] at hf
    exact h.vlogNZ n f hf

end Badger
