import BadgerProofs.Lemmas.CrashStep
/-!
# Preservation of `Inv` (part 2: compaction atoms)
-/
namespace Badger

/-- the stage update the compaction atoms perform on `kout` -/
def setStage (id st : Nat) (o : KOut) : KOut := if o.id == id then { o with stage := st } else o

@[simp] theorem setStage_id (id st : Nat) (o : KOut) : (setStage id st o).id = o.id := by
  unfold setStage; split <;> rfl
@[simp] theorem setStage_ents (id st : Nat) (o : KOut) : (setStage id st o).ents = o.ents := by
  unfold setStage; split <;> rfl
theorem setStage_stage (id st : Nat) (o : KOut) :
    (setStage id st o).stage = if o.id = id then st else o.stage := by
  unfold setStage
  by_cases h : o.id = id <;> simp [h]

theorem map_setStage_id (id st : Nat) (l : List KOut) : (l.map (setStage id st)).map (·.id) = l.map (·.id) := by
  simp [List.map_map, Function.comp_def]
theorem map_setStage_ents (id st : Nat) (l : List KOut) : (l.map (setStage id st)).map (·.ents) = l.map (·.ents) := by
  simp [List.map_map, Function.comp_def]

theorem eq_of_id_eq (l : List KOut) (hn : (l.map (·.id)).Nodup) (a b : KOut) (ha : a ∈ l) (hb : b ∈ l)
    (h : a.id = b.id) : a = b := by
  induction l with
  | nil => simp at ha
  | cons x xs ih =>
    simp only [List.map, List.nodup_cons, List.mem_map, not_exists, not_and] at hn
    rcases List.mem_cons.mp ha with ha | ha <;> rcases List.mem_cons.mp hb with hb | hb
    · rw [ha, hb]
    · rw [ha] at h; exact absurd h.symm (hn.1 b hb)
    · rw [hb] at h; exact absurd h (hn.1 a ha)
    · exact ih hn.2 ha hb

theorem find?_id_of_nodup (l : List KOut) (hn : (l.map (·.id)).Nodup) (o : KOut) (ho : o ∈ l) :
    l.find? (fun x => x.id == o.id) = some o := by
  induction l with
  | nil => simp at ho
  | cons x xs ih =>
    simp only [List.map, List.nodup_cons, List.mem_map, not_exists, not_and] at hn
    rcases List.mem_cons.mp ho with ho | ho
    · subst ho; simp [List.find?]
    · have : (x.id == o.id) = false := by
        have : x.id ≠ o.id := fun e => hn.1 o ho e.symm
        simp [this]
      simp [List.find?, this, ih hn.2 ho]

theorem not_holds_ne (imm : List Nat) (fpc fsst id : Nat)
    (h : (!imm.isEmpty && decide (1 ≤ fpc) && decide (fpc ≤ 4) && fsst == id) = false) :
    imm ≠ [] → 1 ≤ fpc → fpc ≤ 4 → fsst ≠ id := by
  intro h1 h2 h3 h4
  have : imm.isEmpty = false := by cases imm with
    | nil => exact absurd rfl h1
    | cons _ _ => rfl
  simp [this, h2, h3, h4] at h

/-- an update of the table file `id` that no live reader depends on -/
theorem InvSst_upd_file (R : ViewRel) (tset : List (Nat × Nat)) (tcont : List (Nat × List CEnt))
    (imm : List Nat) (mtxns : List (Nat × List Txn)) (fpc fsst nextSst : Nat)
    (kins : List Nat) (kout kout' : List KOut) (Fs : Nat → Option Inode) (id : Nat) (v : Option Inode)
    (h : InvSst R tset tcont imm mtxns fpc fsst nextSst kins kout Fs)
    (hts : aget id tset = none)
    (hfresh : id < nextSst ∨ v = none)
    (hfl : imm ≠ [] → 1 ≤ fpc → fpc ≤ 4 → fsst ≠ id)
    (hids : kout'.map (·.id) = kout.map (·.id))
    (hents : kout'.map (·.ents) = kout.map (·.ents))
    (hfiles : ∀ o ∈ kout', o.fileOk (fun n => if n = id then v else Fs n)) :
    InvSst R tset tcont imm mtxns fpc fsst nextSst kins kout' (fun n => if n = id then v else Fs n) where
  tables := by
    intro x hx
    have : x.1 ≠ id := (aget_none_iff id tset).mp hts x hx
    simp only [this, if_false]; exact h.tables x hx
  sstFresh := by
    intro n hn
    have h1 := h.sstFresh n hn
    refine ⟨?_, h1.2⟩
    by_cases hnid : n = id
    · rcases hfresh with hf | hf
      · omega
      · simp [hnid, hf]
    · simp [hnid, h1.1]
  idle := h.idle
  fsstLt := h.fsstLt
  flush1 := by
    intro h1 h2
    have : fsst ≠ id := hfl h1 (by omega) (by omega)
    simp only [this, if_false]; exact h.flush1 h1 h2
  flush2 := by
    intro k hk h2 h4
    have hi : imm ≠ [] := by intro e; simp [e] at hk
    have : fsst ≠ id := hfl hi (by omega) h4
    simp only [this, if_false]; exact h.flush2 k hk h2 h4
  flush5 := h.flush5
  koutLt := by
    intro o ho
    have : o.id ∈ kout'.map (·.id) := List.mem_map_of_mem ho
    rw [hids] at this
    obtain ⟨o2, ho2, he⟩ := List.mem_map.mp this
    rw [← he]; exact h.koutLt o2 ho2
  koutNodup := by rw [hids]; exact h.koutNodup
  koutFiles := hfiles
  kview := by intro hk; rw [hents]; exact h.kview hk
  kinsIn := h.kinsIn

theorem Inv_kmk (R : ViewRel) (s : PState) (F : KFs) (h : Inv R s F) (id : Nat)
    (hg : s.kout.any (fun o => o.id == id && o.stage == 0) = true)
    (hnh : s.flusherHolds id = false) (hts : (aget id s.tset).isNone = true) :
    Inv R { s with kout := s.kout.map (setStage id 1) }
      (upd F (.sst id) (some { chunks := [], size := .alloc })) where
  logic := h.logic
  manifest := ManifestOk_upd F _ _ _ (by simp) h.manifest
  mem := by rw [memView_upd_sst]; exact h.mem
  sst := by
    rw [sstView_upd_sst]
    obtain ⟨o, ho, hoid⟩ := List.any_eq_true.mp hg
    have hoid' : o.id = id ∧ o.stage = 0 := by simpa using hoid
    have hnone : aget id s.tset = none := by simpa using hts
    apply InvSst_upd_file R _ _ _ _ _ _ _ _ s.kout _ _ id _ h.sst hnone
      (Or.inl (hoid'.1 ▸ h.sst.koutLt o ho))
      (not_holds_ne _ _ _ _ hnh) (map_setStage_id _ _ _) (map_setStage_ents _ _ _)
    intro o' ho'
    obtain ⟨o2, ho2, he⟩ := List.mem_map.mp ho'
    subst he
    constructor
    · intro hs
      by_cases hid : o2.id = id
      · simp [hid]
      · rw [setStage_stage] at hs; simp only [hid, if_false] at hs
        simp only [setStage_id, hid, if_false]
        exact (h.sst.koutFiles o2 ho2).1 hs
    · intro hs
      by_cases hid : o2.id = id
      · rw [setStage_stage] at hs; simp [hid] at hs
      · rw [setStage_stage] at hs; simp only [hid, if_false] at hs
        simp only [setStage_id, setStage_ents, hid, if_false]
        exact (h.sst.koutFiles o2 ho2).2 hs
  vlogNZ := by
    intro n f hf
    rw [upd_ne _ _ _ _ (by simp)] at hf
    exact h.vlogNZ n f hf

theorem Inv_kwrite (R : ViewRel) (s : PState) (F : KFs) (h : Inv R s F) (id : Nat) (o : KOut)
    (ho : o ∈ s.kout) (hoid : o.id = id) (host : o.stage = 1)
    (hnh : s.flusherHolds id = false) (hts : (aget id s.tset).isNone = true) :
    Inv R { s with kout := s.kout.map (setStage id 2) }
      (upd F (.sst id) ((F (.sst id)).map (appendChunk (.table o.ents)))) where
  logic := h.logic
  manifest := ManifestOk_upd F _ _ _ (by simp) h.manifest
  mem := by rw [memView_upd_sst]; exact h.mem
  sst := by
    rw [sstView_upd_sst]
    have hnone : aget id s.tset = none := by simpa using hts
    apply InvSst_upd_file R _ _ _ _ _ _ _ _ s.kout _ _ id _ h.sst hnone
      (Or.inl (hoid ▸ h.sst.koutLt o ho))
      (not_holds_ne _ _ _ _ hnh) (map_setStage_id _ _ _) (map_setStage_ents _ _ _)
    intro o' ho'
    obtain ⟨o2, ho2, he⟩ := List.mem_map.mp ho'
    subst he
    by_cases hid : o2.id = id
    · have : o2 = o := eq_of_id_eq _ h.sst.koutNodup o2 o ho2 ho (hid.trans hoid.symm)
      subst this
      constructor
      · intro hs; rw [setStage_stage] at hs; simp [hid] at hs
      · intro _
        obtain ⟨f, hf, hc⟩ := (h.sst.koutFiles o2 ho2).1 host
        simp only [setStage_id, setStage_ents, hid, if_true]
        rw [hid] at hf
        have hf' : F (.sst id) = some f := hf
        exact ⟨appendChunk (.table o2.ents) f, by simp [hf'], by simp [appendChunk, hc]⟩
    · constructor
      · intro hs
        rw [setStage_stage] at hs; simp only [hid, if_false] at hs
        simp only [setStage_id, hid, if_false]
        exact (h.sst.koutFiles o2 ho2).1 hs
      · intro hs
        rw [setStage_stage] at hs; simp only [hid, if_false] at hs
        simp only [setStage_id, setStage_ents, hid, if_false]
        exact (h.sst.koutFiles o2 ho2).2 hs
  vlogNZ := by
    intro n f hf
    rw [upd_ne _ _ _ _ (by simp)] at hf
    exact h.vlogNZ n f hf

theorem Inv_kdel (R : ViewRel) (s : PState) (F : KFs) (h : Inv R s F) (id : Nat)
    (hts : (aget id s.tset).isNone = true) (hnh : s.flusherHolds id = false)
    (hk : s.kout.any (fun o => o.id == id) = false) :
    Inv R { s with kdelq := s.kdelq.filter (· ≠ id) } (upd F (.sst id) none) where
  logic := h.logic
  manifest := ManifestOk_upd F _ _ _ (by simp) h.manifest
  mem := by rw [memView_upd_sst]; exact h.mem
  sst := by
    rw [sstView_upd_sst]
    have hnone : aget id s.tset = none := by simpa using hts
    apply InvSst_upd_file R _ _ _ _ _ _ _ _ s.kout _ _ id _ h.sst hnone (Or.inr rfl)
      (not_holds_ne _ _ _ _ hnh) rfl rfl
    intro o ho
    have hne : o.id ≠ id := by
      intro e
      have : s.kout.any (fun o => o.id == id) = true := List.any_eq_true.mpr ⟨o, ho, by simp [e]⟩
      rw [hk] at this; cases this
    constructor
    · intro hs; simp only [hne, if_false]; exact (h.sst.koutFiles o ho).1 hs
    · intro hs; simp only [hne, if_false]; exact (h.sst.koutFiles o ho).2 hs
  vlogNZ := by
    intro n f hf
    rw [upd_ne _ _ _ _ (by simp)] at hf
    exact h.vlogNZ n f hf

/-! ### `kmset`: the MANIFEST change set of a compaction -/

theorem mem_flatten_map {α β : Type} (f : α → List β) (l : List α) (e : β) :
    e ∈ (l.map f).flatten ↔ ∃ x ∈ l, e ∈ f x := by
  simp only [List.mem_flatten, List.mem_map]
  constructor
  · rintro ⟨l', ⟨x, hx, rfl⟩, he⟩; exact ⟨x, hx, he⟩
  · rintro ⟨x, hx, he⟩; exact ⟨f x, ⟨x, hx, rfl⟩, he⟩

theorem applyMSet_creates (os : List KOut) (rest : List MChange) (t t' : List (Nat × Nat))
    (h : applyMSet t (os.map (fun o => MChange.create o.id o.level) ++ rest) = some t') :
    ∃ t1, applyMSet t1 rest = some t' ∧
      ∀ x, x ∈ t1 ↔ (∃ o ∈ os, x = (o.id, o.level)) ∨ x ∈ t := by
  induction os generalizing t with
  | nil => exact ⟨t, h, by simp⟩
  | cons o os ih =>
    simp only [List.map, List.cons_append, applyMSet, applyMChange] at h
    by_cases hs : (aget o.id t).isSome
    · simp [hs] at h
    · simp only [hs, if_false] at h
      obtain ⟨t1, h1, hm⟩ := ih _ h
      refine ⟨t1, h1, ?_⟩
      intro x
      have hnone : aget o.id t = none := by simpa using hs
      rw [hm, mem_aset_of_none _ _ _ _ hnone]
      simp only [List.mem_cons, exists_eq_or_imp]
      constructor
      · rintro (h2 | h2 | h2)
        · exact Or.inl (Or.inr h2)
        · exact Or.inl (Or.inl h2)
        · exact Or.inr h2
      · rintro ((h2 | h2) | h2)
        · exact Or.inr (Or.inl h2)
        · exact Or.inl h2
        · exact Or.inr (Or.inr h2)

theorem applyMSet_deletes (ids : List Nat) (t t' : List (Nat × Nat))
    (h : applyMSet t (ids.map MChange.delete) = some t') :
    ∀ x, x ∈ t' ↔ x ∈ t ∧ x.1 ∉ ids := by
  induction ids generalizing t with
  | nil =>
    simp only [List.map, applyMSet] at h
    injection h with h; subst h; simp
  | cons id ids ih =>
    simp only [List.map, applyMSet, applyMChange] at h
    by_cases hs : (aget id t).isSome
    · simp only [hs, if_true] at h
      intro x
      rw [ih _ h, mem_aerase]
      simp only [List.mem_cons, not_or]
      constructor
      · rintro ⟨⟨h1, h2⟩, h3⟩; exact ⟨h1, h2, h3⟩
      · rintro ⟨h1, h2, h3⟩; exact ⟨⟨h1, h2⟩, h3⟩
    · simp [hs] at h

theorem aget_append_left_some {α β : Type} [DecidableEq α] (k : α) (v : β) (a b : List (α × β))
    (h : aget k a = some v) : aget k (a ++ b) = some v := by
  induction a with
  | nil => simp [aget] at h
  | cons x xs ih =>
    obtain ⟨a', b'⟩ := x
    simp only [aget] at h
    by_cases h2 : a' = k
    · simp [h2] at h; simp [aget, h2, h]
    · simp only [h2, if_false] at h
      simp [aget, h2, ih h]

theorem aget_conts_of_nodup (l : List KOut) (hn : (l.map (·.id)).Nodup) (o : KOut) (ho : o ∈ l) :
    aget o.id (l.map (fun o => (o.id, o.ents))) = some o.ents := by
  induction l with
  | nil => simp at ho
  | cons x xs ih =>
    simp only [List.map, List.nodup_cons, List.mem_map, not_exists, not_and] at hn
    rcases List.mem_cons.mp ho with ho | ho
    · subst ho; simp [aget]
    · have : x.id ≠ o.id := fun e => hn.1 o ho e.symm
      simp [aget, this, ih hn.2 ho]

theorem aget_conts_none (l : List KOut) (id : Nat) (h : ∀ o ∈ l, o.id ≠ id) :
    aget id (l.map (fun o => (o.id, o.ents))) = none := by
  rw [aget_none_iff]
  intro x hx
  obtain ⟨o, ho, he⟩ := List.mem_map.mp hx
  subst he; exact h o ho

theorem Inv_kmset (R : ViewRel) (s : PState) (F : KFs) (h : Inv R s F) (t' : List (Nat × Nat))
    (hk : s.kins ≠ [])
    (hstage : ∀ o ∈ s.kout, o.stage = 3 ∧ aget o.id s.tset = none)
    (happ : applyMSet s.tset (kmsetChanges s) = some t')
    (hf5 : s.imm ≠ [] → 5 ≤ s.fpc → s.fsst ∉ s.kins) :
    Inv R { s with tset := t', tcont := s.kout.map (fun o => (o.id, o.ents)) ++ s.tcont,
                   kdelq := s.kins, kins := [], kout := [] }
      (upd F .manifest ((F .manifest).map (appendChunk (.mset (kmsetChanges s))))) := by
  -- membership in the new table set
  have hmem : ∀ x, x ∈ t' ↔ ((∃ o ∈ s.kout, x = (o.id, o.level)) ∨ x ∈ s.tset) ∧ x.1 ∉ s.kins := by
    unfold kmsetChanges at happ
    obtain ⟨t1, h1, hm1⟩ := applyMSet_creates _ _ _ _ happ
    intro x
    rw [applyMSet_deletes _ _ _ h1 x, hm1]
  have hkoutNotIns : ∀ o ∈ s.kout, o.id ∉ s.kins := by
    intro o ho hin
    have := h.sst.kinsIn o.id hin
    rw [(hstage o ho).2] at this; cases this
  have hmem' : ∀ x, x ∈ t' ↔ (∃ o ∈ s.kout, x = (o.id, o.level)) ∨ (x ∈ s.tset ∧ x.1 ∉ s.kins) := by
    intro x
    rw [hmem]
    constructor
    · rintro ⟨h1 | h1, h2⟩
      · exact Or.inl h1
      · exact Or.inr ⟨h1, h2⟩
    · rintro (⟨o, ho, he⟩ | ⟨h1, h2⟩)
      · exact ⟨Or.inl ⟨o, ho, he⟩, by rw [he]; exact hkoutNotIns o ho⟩
      · exact ⟨Or.inr h1, h2⟩
  let tcont' := s.kout.map (fun o => (o.id, o.ents)) ++ s.tcont
  have hcontOut : ∀ o ∈ s.kout, entsOfTable tcont' o.id = o.ents := by
    intro o ho
    simp only [entsOfTable, tcont']
    rw [aget_append_left_some _ _ _ _ (aget_conts_of_nodup _ h.sst.koutNodup o ho)]
    rfl
  have hcontOld : ∀ x ∈ s.tset, entsOfTable tcont' x.1 = entsOfTable s.tcont x.1 := by
    intro x hx
    simp only [entsOfTable, tcont']
    rw [aget_append_left_none]
    apply aget_conts_none
    intro o ho e
    have := (aget_none_iff o.id s.tset).mp (hstage o ho).2 x hx
    exact this e.symm
  refine ⟨?_, ?_, ?_, ?_, ?_⟩
  · -- logic
    have hT : R.r ((t'.map (fun x => entsOfTable tcont' x.1)).flatten)
        ((s.tset.map (fun x => entsOfTable s.tcont x.1)).flatten) := by
      let keep := ((s.tset.filter (fun x => !s.kins.contains x.1)).map (fun x => entsOfTable s.tcont x.1)).flatten
      have e1 : R.r ((t'.map (fun x => entsOfTable tcont' x.1)).flatten) ((s.kout.map (·.ents)).flatten ++ keep) := by
        apply R.of_mem_iff
        intro e
        simp only [List.mem_append, mem_flatten_map, keep, List.mem_filter]
        constructor
        · rintro ⟨x, hx, he⟩
          rcases (hmem' x).mp hx with ⟨o, ho, hxe⟩ | ⟨h1, h2⟩
          · subst hxe; rw [hcontOut o ho] at he; exact Or.inl ⟨o, ho, he⟩
          · rw [hcontOld x h1] at he
            exact Or.inr ⟨x, ⟨h1, by simpa using h2⟩, he⟩
        · rintro (⟨o, ho, he⟩ | ⟨x, ⟨h1, h2⟩, he⟩)
          · exact ⟨(o.id, o.level), (hmem' _).mpr (Or.inl ⟨o, ho, rfl⟩), by rw [hcontOut o ho]; exact he⟩
          · exact ⟨x, (hmem' _).mpr (Or.inr ⟨h1, by simpa using h2⟩), by rw [hcontOld x h1]; exact he⟩
      have e2 : R.r ((s.kins.map (entsOfTable s.tcont)).flatten ++ keep)
          ((s.tset.map (fun x => entsOfTable s.tcont x.1)).flatten) := by
        apply R.of_mem_iff
        intro e
        simp only [List.mem_append, mem_flatten_map, keep, List.mem_filter]
        constructor
        · rintro (⟨id, hid, he⟩ | ⟨x, ⟨h1, _⟩, he⟩)
          · have := h.sst.kinsIn id hid
            cases hg : aget id s.tset with
            | none => rw [hg] at this; cases this
            | some lvl => exact ⟨(id, lvl), aget_mem _ _ _ hg, he⟩
          · exact ⟨x, h1, he⟩
        · rintro ⟨x, hx, he⟩
          by_cases hin : x.1 ∈ s.kins
          · exact Or.inl ⟨x.1, hin, he⟩
          · exact Or.inr ⟨x, ⟨hx, by simpa using hin⟩, he⟩
      exact R.trans _ _ _ e1 (R.trans _ _ _ (R.app_congr _ _ _ _ (h.sst.kview hk) (R.refl _)) e2)
    have hl := h.logic
    refine ⟨?_, hl.acked_le, hl.done_le, hl.infl⟩
    show R.r ((t'.map (fun x => entsOfTable tcont' x.1)).flatten ++ (s.imm.map s.memEnts).flatten ++
      (if s.curOpen then s.memEnts s.cur else [])) _
    have : R.r ((t'.map (fun x => entsOfTable tcont' x.1)).flatten ++ ((s.imm.map s.memEnts).flatten ++
        (if s.curOpen then s.memEnts s.cur else []))) s.lsmEnts := by
      unfold PState.lsmEnts
      rw [List.append_assoc]
      exact R.app_congr _ _ _ _ hT (R.refl _)
    rw [List.append_assoc]
    exact R.trans _ _ _ this hl.view
  · -- manifest
    have := ManifestOk_append F s.tset t' (kmsetChanges s) h.manifest happ
    rw [← krun_append1]
    exact this
  · rw [memView_upd_manifest]; exact h.mem
  · rw [sstView_upd_manifest]
    exact {
      tables := by
        intro x hx
        rcases (hmem' x).mp hx with ⟨o, ho, hxe⟩ | ⟨h1, h2⟩
        · subst hxe
          obtain ⟨f, hf, hc⟩ := (h.sst.koutFiles o ho).2 (by rw [(hstage o ho).1]; omega)
          exact ⟨f, hf, by rw [hc]; show _ = [Chunk.table (entsOfTable tcont' o.id)]; rw [hcontOut o ho]⟩
        · obtain ⟨f, hf, hc⟩ := h.sst.tables x h1
          exact ⟨f, hf, by rw [hc]; show _ = [Chunk.table (entsOfTable tcont' x.1)]; rw [hcontOld x h1]⟩
      sstFresh := by
        intro n hn
        refine ⟨(h.sst.sstFresh n hn).1, ?_⟩
        rw [aget_none_iff]
        intro x hx
        rcases (hmem' x).mp hx with ⟨o, ho, hxe⟩ | ⟨h1, _⟩
        · subst hxe; have := h.sst.koutLt o ho; have hn' : s.nextSst ≤ n := hn; show o.id ≠ n; omega
        · exact (aget_none_iff n s.tset).mp (h.sst.sstFresh n hn).2 x h1
      idle := h.sst.idle
      fsstLt := h.sst.fsstLt
      flush1 := h.sst.flush1
      flush2 := h.sst.flush2
      flush5 := by
        intro k hk5 h5
        obtain ⟨h1, h2⟩ := h.sst.flush5 k hk5 h5
        have hi : s.imm ≠ [] := by intro e; simp [e] at hk5
        cases hg : aget s.fsst s.tset with
        | none => rw [hg] at h1; cases h1
        | some lvl =>
          have hm := aget_mem _ _ _ hg
          have hin : (s.fsst, lvl) ∈ t' := (hmem' _).mpr (Or.inr ⟨hm, hf5 hi h5⟩)
          refine ⟨aget_isSome_of_mem _ _ hin, ?_⟩
          show entsOfTable tcont' s.fsst = _
          rw [hcontOld (s.fsst, lvl) hm]; exact h2
      koutLt := by intro o ho; simp at ho
      koutNodup := by simp
      koutFiles := by intro o ho; simp at ho
      kview := by intro e; exact absurd rfl e
      kinsIn := by intro id hid; simp at hid }
  · intro n f hf
    rw [upd_ne _ _ _ _ (by simp)] at hf
    exact h.vlogNZ n f hf

end Badger
