import BadgerProofs.Lemmas.TableScan
/-!
`Iterator.seekFrom` / `seek` / `seekForPrev` on a table satisfying `TableOK` whose entries are
strictly increasing.
-/
namespace Badger.Tbl
open Badger

/-- Past the end after a seek: the last block is loaded, the block iterator is at EOF and
    the key buffer still holds the last key of the table. -/
structure PastEnd (G : List (List Entry)) (it : TIter) (g : List Entry) (e : Entry) : Prop where
  gj : G[G.length - 1]? = some g
  ge : g[g.length - 1]? = some e
  bpos : it.bpos = ((G.length - 1 : Nat) : Int)
  inv : BlockInv g it.bi
  idx : it.bi.idx = g.length
  key : it.bi.key = e.key
  err : it.err = some .eof

theorem flatten_index_split {α : Type} (G : List (List α)) (k : Nat) (hk : k < G.flatten.length) :
    ∃ j r g, G[j]? = some g ∧ r < g.length ∧ k = (G.take j).flatten.length + r := by
  induction G generalizing k with
  | nil => simp at hk
  | cons x xs ih =>
    simp only [List.flatten_cons, List.length_append] at hk
    rcases Nat.lt_or_ge k x.length with h | h
    · exact ⟨0, k, x, by simp, h, by simp⟩
    · obtain ⟨j, r, g, hg, hr, hkk⟩ := ih (k - x.length) (by omega)
      refine ⟨j + 1, r, g, by simpa using hg, hr, ?_⟩
      simp only [List.take_succ_cons, List.flatten_cons, List.length_append]
      omega

theorem sorted_of_mem_flatten {G : List (List Entry)} (hs : Sorted G.flatten) {g : List Entry}
    (hg : g ∈ G) : Sorted g :=
  List.Pairwise.sublist (List.sublist_flatten_of_mem hg) hs

theorem seekHelper_ok {env : Env} {t : TableCore} {G : List (List Entry)} (ok : TableOK env t G)
    (hs : Sorted G.flatten) (h8 : ∀ g ∈ G, ∀ e ∈ g, 8 ≤ e.key.length)
    (it : TIter) (j : Nat) (g : List Entry) (hg : G[j]? = some g) (key : Bytes) (hkey : 8 ≤ key.length) :
    ∃ r it', it.seekHelper env t (j : Int) key = some it' ∧ it'.reversed = it.reversed ∧
      it'.bpos = j ∧ BlockInv g it'.bi ∧ r ≤ g.length ∧
      (∀ k e, k < r → g[k]? = some e → compareKeys e.key key = .lt) ∧
      (∀ k e, r ≤ k → g[k]? = some e → compareKeys e.key key ≠ .lt) ∧
      it'.bi.idx = r ∧
      (r < g.length → ∃ e, At G it' j r g e) ∧
      (r = g.length → it'.err = some .eof ∧ ∃ e, g[g.length - 1]? = some e ∧ it'.bi.key = e.key) := by
  unfold TIter.seekHelper
  have hgm := List.mem_of_getElem? hg
  obtain ⟨bi0, hinv0, hload⟩ := load_ok ok ({ it with bpos := (j : Int) } : TIter) j g hg rfl
    (fun bi => bi.seek key false)
  rw [hload]
  obtain ⟨r, bi', hseek, hinv', hrn, hlo, hhi, hidx, hin, hout⟩ :=
    blockSeek_ok (ok.wf g hgm) (sorted_of_mem_flatten hs hgm) (h8 g hgm) hinv0 key hkey
  simp only [hseek, Option.bind_some]
  refine ⟨r, _, rfl, rfl, rfl, hinv', hrn, hlo, hhi, hidx, ?_, ?_⟩
  · intro hr
    obtain ⟨e, he, hk, hv, herr⟩ := hin hr
    exact ⟨e, ⟨hg, he, rfl, hinv', hidx, hk, hv, herr, herr⟩⟩
  · intro hr
    obtain ⟨herr, e, he, hk⟩ := hout hr
    exact ⟨herr, e, he, hk⟩

/-- Base keys of the blocks, as entries of the flattened list. -/
theorem base_get {G : List (List Entry)} (hne : ∀ g ∈ G, g ≠ []) {j : Nat} {g : List Entry}
    (hg : G[j]? = some g) :
    ∃ e0, g[0]? = some e0 ∧ baseOf g = e0.key ∧ G.flatten[(G.take j).flatten.length]? = some e0 := by
  obtain ⟨e0, r, rfl⟩ := List.exists_cons_of_ne_nil (hne g (List.mem_of_getElem? hg))
  refine ⟨e0, rfl, rfl, ?_⟩
  have := flatten_getElem? G j 0 (e0 :: r) e0 hg rfl
  simpa using this

/-- `seekFrom(key, origin)`: the iterator lands on global position `p`, the first entry `≥ key`
    (or past the end). -/
theorem seekFrom_ok {env : Env} {t : TableCore} {G : List (List Entry)} (ok : TableOK env t G)
    (hne : ∀ g ∈ G, g ≠ []) (hG : G ≠ [])
    (hs : Sorted G.flatten) (h8 : ∀ g ∈ G, ∀ e ∈ g, 8 ≤ e.key.length)
    (it : TIter) (key : Bytes) (hkey : 8 ≤ key.length) :
    ∃ p it', it.seekFrom env t key false = some it' ∧ it'.reversed = it.reversed ∧
      p ≤ G.flatten.length ∧
      (∀ k e, k < p → G.flatten[k]? = some e → compareKeys e.key key = .lt) ∧
      (∀ e, G.flatten[p]? = some e → compareKeys e.key key ≠ .lt) ∧
      (p < G.flatten.length → ∃ j r g e, At G it' j r g e ∧ p = (G.take j).flatten.length + r) ∧
      (p = G.flatten.length → ∃ g e, PastEnd G it' g e) := by
  unfold TIter.seekFrom
  simp only [Bool.false_eq_true, if_false]
  -- the search over the block index
  let q : Nat → Bool := fun idx =>
    match G[idx]? with
    | some g => compareKeys (baseOf g) key == .gt
    | none => true
  let f : Nat → Unit → Option (Bool × Unit) := fun idx (u : Unit) =>
      match t.file.index.offsets[idx]? with
      | none => none
      | some ko => (compareKeysP ko.key key).bind fun o => some (o == .gt, u)
  have hf : ∀ h (s : Unit), h < G.length → True → ∃ s', f h s = some (q h, s') ∧ True ∧ True := by
    intro h s hh _
    obtain ⟨g, hg⟩ := getElem?_some_of_lt G h hh
    obtain ⟨ko, hko, hkk⟩ := ok.keys h g hg
    obtain ⟨e0, he0, hb0, _⟩ := base_get hne hg
    have hb8 : 8 ≤ (baseOf g).length := by
      rw [hb0]; exact h8 g (List.mem_of_getElem? hg) e0 (List.mem_of_getElem? he0)
    refine ⟨(), ?_, trivial, trivial⟩
    simp only [f, hko, hkk, q, hg, compareKeysP]
    have : ¬ ((baseOf g).length < 8 ∨ key.length < 8) := by omega
    simp [this]
  have hmono : ∀ a b, a ≤ b → b < G.length → q a = true → q b = true := by
    intro a b hab hb hqa
    obtain ⟨gb, hgb⟩ := getElem?_some_of_lt G b hb
    obtain ⟨ga, hga⟩ := getElem?_some_of_lt G a (by omega)
    simp only [q, hga, hgb, beq_iff_eq] at hqa ⊢
    rcases Nat.lt_or_ge a b with hlt | hge
    · obtain ⟨ea, _, hba, hfa⟩ := base_get hne hga
      obtain ⟨eb, _, hbb, hfb⟩ := base_get hne hgb
      have hlt' : (G.take a).flatten.length < (G.take b).flatten.length := by
        have h1 := take_succ_flatten_length G a ga hga
        have h2 := take_flatten_length_mono G (a + 1) b (by omega)
        have h3 : 0 < ga.length := List.length_pos_iff.mpr (hne ga (List.mem_of_getElem? hga))
        omega
      have hab' := hs.lt hlt' hfa hfb
      rw [hba] at hqa; rw [hbb]
      rw [compareKeys_gt_iff] at hqa ⊢
      exact compareKeys_lt_trans _ _ _ hqa hab'
    · have : a = b := by omega
      subst this; rw [hga] at hgb; cases hgb; exact hqa
  obtain ⟨idx, _, hsearch, _, _, hidxn, hlo, hhi, _⟩ :=
    searchM_spec f (fun _ => True) (fun _ _ => True) q G.length hf hmono
      G.length 0 G.length () rfl (Nat.zero_le _) (Nat.le_refl _) trivial
      (by intro k hk; omega) (by intro k hk hk'; omega)
  rw [ok.nb]
  show ∃ p it', ((searchM f 0 G.length ()).bind fun x => _) = some it' ∧ _
  rw [hsearch, Option.bind_some]
  simp only
  -- facts about the index search
  have hbase_le : ∀ j g, j < idx → G[j]? = some g → compareKeys key (baseOf g) ≠ .lt := by
    intro j g hj hg
    have := hlo j hj
    simp only [q, hg, beq_eq_false_iff_ne, ne_eq] at this
    intro h; exact this ((compareKeys_gt_iff _ _).mpr h)
  have hbase_gt : ∀ j g, idx ≤ j → G[j]? = some g → compareKeys key (baseOf g) = .lt := by
    intro j g hj hg
    have := hhi j hj (lt_of_getElem?_some hg)
    simp only [q, hg, beq_iff_eq] at this
    exact (compareKeys_gt_iff _ _).mp this
  -- entries of blocks before block `j0` are below `key` when `base j0 ≤ key`
  have hbefore : ∀ j0 g0, G[j0]? = some g0 → compareKeys key (baseOf g0) ≠ .lt →
      ∀ k e, k < (G.take j0).flatten.length → G.flatten[k]? = some e → compareKeys e.key key = .lt := by
    intro j0 g0 hg0 hle k e hk he
    obtain ⟨e0, _, hb0, hf0⟩ := base_get hne hg0
    have := hs.lt hk he hf0
    rw [hb0] at hle
    exact compareKeys_lt_of_lt_of_not_lt _ _ _ this hle
  -- a block whose base key is above `key`: its seek ends on its first entry
  have hfirst : ∀ (it0 : TIter) (j : Nat) g, G[j]? = some g → compareKeys key (baseOf g) = .lt →
      ∃ it' e, it0.seekHelper env t (j : Int) key = some it' ∧ it'.reversed = it0.reversed ∧
        At G it' j 0 g e ∧ compareKeys e.key key ≠ .lt := by
    intro it0 j g hg hgt
    obtain ⟨r, it', hsh, hrev, _, _, _, hlo', _, _, hin, _⟩ := seekHelper_ok ok hs h8 it0 j g hg key hkey
    obtain ⟨e0, he0, hb0, _⟩ := base_get hne hg
    have hr0 : r = 0 := by
      rcases Nat.eq_zero_or_pos r with h | h
      · exact h
      · have := hlo' 0 e0 h he0
        rw [hb0] at hgt
        have h2 := compareKeys_lt_trans _ _ _ hgt this
        exact absurd h2 (compareKeys_irrefl key)
    subst hr0
    have hpos : 0 < g.length := lt_of_getElem?_some he0
    obtain ⟨e, hat⟩ := hin hpos
    refine ⟨it', e, hsh, hrev, hat, ?_⟩
    have : e = e0 := by have := hat.gr; rw [he0] at this; exact (Option.some.inj this).symm
    subst this
    rw [hb0] at hgt
    intro h
    exact absurd (compareKeys_lt_trans _ _ _ hgt h) (compareKeys_irrefl key)
  have hGpos : 0 < G.length := List.length_pos_iff.mpr hG
  by_cases hidx0 : idx = 0
  · -- the smallest key of the table is already > key
    subst hidx0
    simp only [if_true]
    obtain ⟨g, hg⟩ := getElem?_some_of_lt G 0 hGpos
    obtain ⟨it', e, hsh, hrev, hat, hge⟩ :=
      hfirst ({ it with err := none, bpos := 0 } : TIter) 0 g hg (hbase_gt 0 g (Nat.le_refl _) hg)
    have hfe := flatten_getElem? G 0 0 g e hg hat.gr
    simp only [List.take_zero, List.flatten_nil, List.length_nil, Nat.add_zero] at hfe
    refine ⟨0, it', hsh, hrev, Nat.zero_le _, by intro k e hk; omega, ?_, ?_, ?_⟩
    · intro e' he'; rw [hfe] at he'; cases he'; exact hge
    · intro _; exact ⟨0, 0, g, e, hat, by simp⟩
    · intro h
      have := lt_of_getElem?_some hfe
      omega
  · simp only [hidx0, if_false]
    have hidxpos : 0 < idx := Nat.pos_of_ne_zero hidx0
    obtain ⟨g, hg⟩ := getElem?_some_of_lt G (idx - 1) (by omega)
    have hcast : ((idx : Int) - 1) = ((idx - 1 : Nat) : Int) := by omega
    rw [hcast]
    obtain ⟨r, it1, hsh, hrev1, hbpos1, hinv1, hrn, hlo', hhi', hidx1, hin, hout⟩ :=
      seekHelper_ok ok hs h8 ({ it with err := none, bpos := 0 } : TIter) (idx - 1) g hg key hkey
    rw [hsh, Option.bind_some]
    have hle := hbase_le (idx - 1) g (by omega) hg
    have hbef := hbefore (idx - 1) g hg hle
    -- every entry before position `off + r` is below key
    have hA : ∀ k e, k < (G.take (idx - 1)).flatten.length + r → G.flatten[k]? = some e →
        compareKeys e.key key = .lt := by
      intro k e hk he
      rcases Nat.lt_or_ge k (G.take (idx - 1)).flatten.length with h | h
      · exact hbef k e h he
      · have hk' : g[k - (G.take (idx - 1)).flatten.length]? = some e := by
          have hrl : k - (G.take (idx - 1)).flatten.length < g.length := by omega
          obtain ⟨e', he'⟩ := getElem?_some_of_lt g _ hrl
          have := flatten_getElem? G (idx - 1) _ g e' hg he'
          have hkk : (G.take (idx - 1)).flatten.length + (k - (G.take (idx - 1)).flatten.length) = k := by omega
          rw [hkk, he] at this
          cases this; exact he'
        exact hlo' _ e (by omega) hk'
    rcases Nat.lt_or_ge r g.length with hr | hr
    · -- case 2: found inside block idx-1
      obtain ⟨e, hat⟩ := hin hr
      have herr : ¬ (it1.err = some Err.eof) := by rw [hat.err]; simp
      simp only [herr, if_false]
      have hfe := flatten_getElem? G (idx - 1) r g e hg hat.gr
      refine ⟨(G.take (idx - 1)).flatten.length + r, it1, rfl, hrev1, ?_, hA, ?_, ?_, ?_⟩
      · have := lt_of_getElem?_some hfe; omega
      · intro e' he'; rw [hfe] at he'; cases he'; exact hhi' r e (Nat.le_refl _) hat.gr
      · intro _; exact ⟨idx - 1, r, g, e, hat, rfl⟩
      · intro h; have := lt_of_getElem?_some hfe; omega
    · -- case 1: everything in block idx-1 is < key
      have hre : r = g.length := by omega
      obtain ⟨herr, e, he, hk⟩ := hout hre
      simp only [herr, if_true]
      have hoff : (G.take (idx - 1)).flatten.length + r = (G.take idx).flatten.length := by
        have := take_succ_flatten_length G (idx - 1) g hg
        have h2 : idx - 1 + 1 = idx := by omega
        rw [h2] at this; omega
      by_cases hend : idx = G.length
      · simp only [hend, if_true]
        have hall : (G.take idx).flatten.length = G.flatten.length := by
          rw [hend, List.take_length]
        refine ⟨G.flatten.length, it1, rfl, hrev1, Nat.le_refl _, ?_, ?_, ?_, ?_⟩
        · intro k e' hk' he'; exact hA k e' (by omega) he'
        · intro e' he'; have := lt_of_getElem?_some he'; omega
        · intro h; omega
        · intro _
          have hgl : G[G.length - 1]? = some g := by rw [← hend]; exact hg
          exact ⟨g, e, ⟨hgl, he, by rw [hbpos1, hend], hinv1, by rw [hidx1, hre], hk, herr⟩⟩
      · simp only [hend, if_false]
        obtain ⟨g', hg'⟩ := getElem?_some_of_lt G idx (by omega)
        obtain ⟨it', e', hsh', hrev', hat', hge'⟩ := hfirst it1 idx g' hg' (hbase_gt idx g' (Nat.le_refl _) hg')
        have hfe := flatten_getElem? G idx 0 g' e' hg' hat'.gr
        refine ⟨(G.take idx).flatten.length, it', hsh', by rw [hrev', hrev1], ?_, ?_, ?_, ?_, ?_⟩
        · have := lt_of_getElem?_some hfe; omega
        · intro k e'' hk' he''; exact hA k e'' (by omega) he''
        · intro e'' he''; rw [Nat.add_zero] at hfe; rw [hfe] at he''; cases he''; exact hge'
        · intro _; exact ⟨idx, 0, g', e', hat', by simp⟩
        · intro h; have := lt_of_getElem?_some hfe; omega

/-! ## seekForPrev -/

theorem prev_pastEnd {env : Env} {t : TableCore} {G : List (List Entry)} (ok : TableOK env t G)
    (hG : G ≠ []) {it : TIter} {g : List Entry} {e : Entry} (hp : PastEnd G it g e) :
    ∃ it', it.prev env t = some it' ∧ At G it' (G.length - 1) (g.length - 1) g e ∧
      it'.reversed = it.reversed := by
  unfold TIter.prev
  have wf := ok.wf g (List.mem_of_getElem? hp.gj)
  have h1 : ¬ (it.bpos < 0) := by rw [hp.bpos]; omega
  have h2 : ¬ (it.bi.data.length = 0) := by rw [hp.inv.data]; exact blockData_length_pos wf
  simp only [h1, h2, if_false]
  obtain ⟨bi', hset, hinv', hk, hv, hidx, herr⟩ := setIdx_ok wf hp.inv (g.length - 1) e hp.ge
  have hgl := lt_of_getElem?_some hp.ge
  unfold BlockIter.prev
  rw [hp.idx]
  have : ((g.length : Int) - 1) = ((g.length - 1 : Nat) : Int) := by omega
  rw [this, hset, Option.bind_some]
  have hvalid : bi'.valid = true := by simp [BlockIter.valid, herr]
  simp only [hvalid, Bool.not_true, Bool.false_eq_true, if_false]
  exact ⟨_, rfl, ⟨hp.gj, hp.ge, hp.bpos, hinv', hidx, hk, hv, rfl, herr⟩, rfl⟩

/-- One step back from global position `p`. -/
theorem prev_global {env : Env} {t : TableCore} {G : List (List Entry)} (ok : TableOK env t G)
    (hne : ∀ g ∈ G, g ≠ []) {it : TIter} {j r : Nat} {g : List Entry} {e : Entry}
    (hat : At G it j r g e) :
    ((G.take j).flatten.length + r = 0 ∧
      ∃ it', it.prev env t = some it' ∧ it'.err = some .eof ∧ it'.reversed = it.reversed) ∨
    (∃ it' j' r' g' e', it.prev env t = some it' ∧ it'.reversed = it.reversed ∧ At G it' j' r' g' e' ∧
      (G.take j').flatten.length + r' + 1 = (G.take j).flatten.length + r) := by
  cases r with
  | succ r' =>
    obtain ⟨e', he'⟩ := getElem?_some_of_lt g r' (by have := lt_of_getElem?_some hat.gr; omega)
    obtain ⟨it', hprev, hat', hrev'⟩ := prev_in_block ok hat he'
    exact Or.inr ⟨it', j, r', g, e', hprev, hrev', hat', by omega⟩
  | zero =>
    cases j with
    | succ j' =>
      obtain ⟨g', hg'⟩ := getElem?_some_of_lt G j' (by have := lt_of_getElem?_some hat.gj; omega)
      have hg'pos := List.length_pos_iff.mpr (hne g' (List.mem_of_getElem? hg'))
      obtain ⟨e', he'⟩ := getElem?_some_of_lt g' (g'.length - 1) (by omega)
      obtain ⟨it', hprev, hat', hrev'⟩ := prev_cross_block ok hat hg' he'
      refine Or.inr ⟨it', j', g'.length - 1, g', e', hprev, hrev', hat', ?_⟩
      have := take_succ_flatten_length G j' g' hg'
      omega
    | zero =>
      obtain ⟨it', hprev, herr', hrev'⟩ := prev_at_start ok hat
      exact Or.inl ⟨by simp, it', hprev, herr', hrev'⟩

/-- `seekForPrev(key)`: the last entry `≤ key`, or invalid when every entry is `> key`. -/
theorem seekForPrev_ok {env : Env} {t : TableCore} {G : List (List Entry)} (ok : TableOK env t G)
    (hne : ∀ g ∈ G, g ≠ []) (hG : G ≠ [])
    (hs : Sorted G.flatten) (h8 : ∀ g ∈ G, ∀ e ∈ g, 8 ≤ e.key.length)
    (it : TIter) (key : Bytes) (hkey : 8 ≤ key.length) :
    ∃ it', it.seekForPrev env t key = some it' ∧ it'.reversed = it.reversed ∧
      ((∃ q e j r g, G.flatten[q]? = some e ∧ compareKeys key e.key ≠ .lt ∧
          (∀ k e', q < k → G.flatten[k]? = some e' → compareKeys key e'.key = .lt) ∧
          At G it' j r g e ∧ q = (G.take j).flatten.length + r) ∨
       ((∀ e ∈ G.flatten, compareKeys key e.key = .lt) ∧ it'.err = some .eof)) := by
  unfold TIter.seekForPrev
  obtain ⟨p, it1, hseek, hrev1, hpn, hA, hB, hin, hout⟩ := seekFrom_ok ok hne hG hs h8 it key hkey
  rw [hseek, Option.bind_some]
  -- everything from p on is ≥ key, strictly above p it is > key when es[p] ≥ key
  have hafter : ∀ e, G.flatten[p]? = some e → ∀ k e', p < k → G.flatten[k]? = some e' →
      compareKeys key e'.key = .lt := by
    intro e he k e' hk he'
    have h1 := hs.lt hk he he'
    exact compareKeys_lt_of_not_lt_of_lt _ _ _ (hB e he) h1
  rcases Nat.lt_or_ge p G.flatten.length with hp | hp
  · obtain ⟨j, r, g, e, hat, hpe⟩ := hin hp
    have hfe : G.flatten[p]? = some e := by rw [hpe]; exact flatten_getElem? G j r g e hat.gj hat.gr
    by_cases hkeq : it1.key = key
    · have : ¬ (it1.key ≠ key) := by simp [hkeq]
      simp only [this, if_false]
      refine ⟨it1, rfl, hrev1, Or.inl ⟨p, e, j, r, g, hfe, ?_, hafter e hfe, hat, hpe⟩⟩
      have : e.key = key := by rw [← hat.key]; exact hkeq
      rw [this]; exact compareKeys_irrefl key
    · simp only [ne_eq, hkeq, not_false_eq_true, if_true]
      have hne' : e.key ≠ key := by rw [← hat.key]; exact hkeq
      have hgt : compareKeys key e.key = .lt := by
        cases h : compareKeys e.key key with
        | lt => exact absurd h (hB e hfe)
        | eq => exact absurd ((compareKeys_eq_iff _ _).mp h) hne'
        | gt => exact (compareKeys_gt_iff _ _).mp h
      rcases prev_global ok hne hat with ⟨h0, it', hprev, herr', hrev'⟩ | ⟨it', j', r', g', e', hprev, hrev', hat', hpos⟩
      · refine ⟨it', hprev, by rw [hrev', hrev1], Or.inr ⟨?_, herr'⟩⟩
        intro e' he'
        obtain ⟨k, hk⟩ := List.getElem?_of_mem he'
        rcases Nat.eq_zero_or_pos k with hk0 | hk0
        · subst hk0
          have : p = 0 := by omega
          subst this
          rw [hfe] at hk; cases hk; exact hgt
        · exact hafter e hfe k e' (by omega) hk
      · have hfe' := flatten_getElem? G j' r' g' e' hat'.gj hat'.gr
        refine ⟨it', hprev, by rw [hrev', hrev1], Or.inl ⟨_, e', j', r', g', hfe', ?_, ?_, hat', rfl⟩⟩
        · have hlt := hA _ e' (by omega) hfe'
          intro h
          exact absurd (compareKeys_lt_trans _ _ _ h hlt) (compareKeys_irrefl key)
        · intro k e'' hk he''
          rcases Nat.lt_or_ge p k with h | h
          · exact hafter e hfe k e'' h he''
          · have : k = p := by omega
            subst this
            rw [hfe] at he''; cases he''; exact hgt
  · have hpe : p = G.flatten.length := by omega
    obtain ⟨g, e, hpast⟩ := hout hpe
    have hgl := lt_of_getElem?_some hpast.ge
    have hGl := lt_of_getElem?_some hpast.gj
    have hfe := flatten_getElem? G (G.length - 1) (g.length - 1) g e hpast.gj hpast.ge
    have hlast : (G.take (G.length - 1)).flatten.length + (g.length - 1) + 1 = G.flatten.length := by
      have := take_succ_flatten_length G (G.length - 1) g hpast.gj
      have h2 : G.length - 1 + 1 = G.length := by omega
      rw [h2, List.take_length] at this
      omega
    have hlt := hA _ e (by omega) hfe
    have hkne : it1.key ≠ key := by
      show it1.bi.key ≠ key
      rw [hpast.key]
      intro h; rw [h] at hlt; exact absurd hlt (compareKeys_irrefl key)
    simp only [ne_eq, hkne, not_false_eq_true, if_true]
    obtain ⟨it', hprev, hat', hrev'⟩ := prev_pastEnd ok hG hpast
    refine ⟨it', hprev, by rw [hrev', hrev1], Or.inl ⟨_, e, _, _, g, hfe, ?_, ?_, hat', rfl⟩⟩
    · intro h
      exact absurd (compareKeys_lt_trans _ _ _ h hlt) (compareKeys_irrefl key)
    · intro k e' hk he'
      have := lt_of_getElem?_some he'
      omega

/-! ## naive `find?` specifications from index characterisations -/

theorem find?_index {α : Type} (P : α → Bool) : ∀ (es : List α) (p : Nat),
    (∀ k e, k < p → es[k]? = some e → P e = false) → (∀ e, es[p]? = some e → P e = true) →
    es.find? P = es[p]? := by
  intro es
  induction es with
  | nil => intro p _ _; simp
  | cons x xs ih =>
    intro p hlo hhi
    cases p with
    | zero =>
      have := hhi x (by simp)
      simp [List.find?_cons, this]
    | succ p =>
      have hx := hlo 0 x (by omega) (by simp)
      simp only [List.find?_cons, hx, List.getElem?_cons_succ]
      exact ih p (fun k e hk he => hlo (k + 1) e (by omega) (by simpa using he))
        (fun e he => hhi e (by simpa using he))

theorem find?_reverse_index {α : Type} (P : α → Bool) (es : List α) (q : Nat) (e : α)
    (he : es[q]? = some e) (hP : P e = true)
    (hhi : ∀ k e', q < k → es[k]? = some e' → P e' = false) :
    es.reverse.find? P = some e := by
  have hq := lt_of_getElem?_some he
  have hsplit : es = es.take q ++ e :: es.drop (q + 1) := by
    have h1 : es.drop q = e :: es.drop (q + 1) := by
      rw [List.drop_eq_getElem_cons hq]
      rw [List.getElem?_eq_getElem hq] at he
      rw [Option.some.inj he]
    rw [← h1, List.take_append_drop]
  rw [List.find?_eq_some_iff_append]
  refine ⟨hP, (es.drop (q + 1)).reverse, (es.take q).reverse, ?_, ?_⟩
  · conv => lhs; rw [hsplit]
    simp
  · intro a ha
    rw [List.mem_reverse] at ha
    obtain ⟨k, hk⟩ := List.getElem?_of_mem ha
    rw [List.getElem?_drop] at hk
    simp [hhi (q + 1 + k) a (by omega) hk]


end Badger.Tbl
