import BadgerProofs.Lemmas.PowerStep2
/-!
# Preservation of `PCore` (part 3: the flusher)
-/
namespace Badger

/-- the flusher's program counter is (re)set to a value below 3 -/
theorem PSst_fpc_low (tset tsetD : List (Nat × Nat)) (tcont : List (Nat × List CEnt)) (imm imm' : List Nat)
    (mtxns : List (Nat × List Txn)) (fpc fsst nextSst fpc' fsst' nextSst' : Nat) (kout : List KOut) (kdir : Bool)
    (Qs : Nat → PV) (h : PSst tset tsetD tcont imm mtxns fpc fsst nextSst kout kdir Qs)
    (hp : fpc' ≤ 2) (hn : nextSst ≤ nextSst') :
    PSst tset tsetD tcont imm' mtxns fpc' fsst' nextSst' kout kdir Qs where
  tables := h.tables
  dLt := fun n hn' => h.dLt n (Nat.le_trans hn hn')
  fl3 := by intro k _ a _; omega
  fl4 := by intro _ a; omega
  fl6 := by intro _ a; omega
  kout3 := h.kout3
  kdirOk := h.kdirOk

theorem PC_flush0 (R : ViewRel) (s : PState) (Q : QFs) (hI : Inv R s (fvOf Q)) (hP : PCore R s Q)
    (hp : s.fpc = 0) (v : PV) :
    PCore R { s with fpc := 1, fsst := s.nextSst, nextSst := s.nextSst + 1 } (qupd Q (.sst s.nextSst) v) := by
  refine ⟨?_, ?_, ?_, hP.logic⟩
  · rw [qupd_ne _ _ _ _ (by simp)]; exact hP.man
  · rw [sstQ_qupd_sst]
    have hs := hP.sst
    have := PSst_upd_free _ _ _ _ _ _ _ _ _ _ _ s.nextSst v hs (hI.sst.sstFresh _ (Nat.le_refl _)).2
      (hs.dLt _ (Nat.le_refl _)) (by intro _ a _; omega)
      (by intro o ho he; have := hI.sst.koutLt o ho; omega)
    exact PSst_fpc_low _ _ _ _ _ _ _ _ _ 1 s.nextSst (s.nextSst + 1) _ _ _ this (by omega) (by omega)
  · rw [memQ_qupd_sst]; exact hP.mem

theorem PC_flush1 (R : ViewRel) (s : PState) (Q : QFs) (hP : PCore R s Q)
    (hp : s.fpc = 1) (h1 : aget s.fsst s.tset = none) (h2 : aget s.fsst s.tsetD = none)
    (hko : ∀ o ∈ s.kout, o.id ≠ s.fsst) (v : PV) :
    PCore R { s with fpc := 2 } (qupd Q (.sst s.fsst) v) := by
  refine ⟨?_, ?_, ?_, hP.logic⟩
  · rw [qupd_ne _ _ _ _ (by simp)]; exact hP.man
  · rw [sstQ_qupd_sst]
    have hs := hP.sst
    have := PSst_upd_free _ _ _ _ _ _ _ _ _ _ _ s.fsst v hs h1 h2 (by intro _ a _; omega)
      (by intro o ho he; exact absurd he (hko o ho))
    exact PSst_fpc_low _ _ _ _ _ _ _ _ _ 2 s.fsst s.nextSst _ _ _ this (by omega) (Nat.le_refl _)
  · rw [memQ_qupd_sst]; exact hP.mem

/-- msync of the flushed table -/
theorem PC_flush2 (R : ViewRel) (s : PState) (Q : QFs) (hI : Inv R s (fvOf Q)) (hP : PCore R s Q)
    (hp : s.fpc = 2) :
    PCore R { s with fpc := 3 } (qupd Q (.sst s.fsst) ((Q (.sst s.fsst)).setD (Q (.sst s.fsst)).fv)) := by
  have h := PC_syncSst R s Q hI hP s.fsst
  refine ⟨h.man, ?_, h.mem, h.logic⟩
  have hs := h.sst
  have hs0 : PSst s.tset s.tsetD s.tcont s.imm s.mtxns s.fpc s.fsst s.nextSst (s.kout.map (syncStage s.fsst)) s.kdir
    (sstQ (qupd Q (.sst s.fsst) ((Q (.sst s.fsst)).setD (Q (.sst s.fsst)).fv))) := hs
  -- the flusher's table is not a compaction output: the stages are unchanged
  have hko : s.kout.map (syncStage s.fsst) = s.kout ∨ True := Or.inr trivial
  show PSst s.tset s.tsetD s.tcont s.imm s.mtxns 3 s.fsst s.nextSst s.kout s.kdir _
  have hP0 := hP.sst
  rw [sstQ_qupd_sst] at hs0 ⊢
  exact {
    tables := hs0.tables
    dLt := hs0.dLt
    fl3 := by
      intro k hk _ _
      simp only [if_true]
      obtain ⟨f, hf, hc⟩ := hI.sst.flush2 k hk (by omega) (by omega)
      have hf' : (Q (.sst s.fsst)).fv = some f := hf
      exact ⟨f, by simpa [PV.setD, sstQ] using hf', hc⟩
    fl4 := by intro _ a; omega
    fl6 := by intro _ a; omega
    kout3 := by
      intro o ho h3
      by_cases hn : o.id = s.fsst
      · simp only [hn, if_true]
        obtain ⟨f, hf, hc⟩ := (hI.sst.koutFiles o ho).2 (by omega)
        have hf' : (Q (.sst o.id)).fv = some f := hf
        rw [hn] at hf'
        exact ⟨f, by simpa [PV.setD, sstQ] using hf', hc⟩
      · simp only [hn, if_false]; exact hP0.kout3 o ho h3
    kdirOk := by
      intro hk o ho
      obtain ⟨a, b⟩ := hP0.kdirOk hk o ho
      refine ⟨a, ?_⟩
      by_cases hn : o.id = s.fsst
      · simp only [hn, if_true]
        rw [hn] at b
        simpa [PV.setD, sstQ] using b
      · simp only [hn, if_false]; exact b }

/-- the directory fsync between the msync of the table and its MANIFEST record -/
theorem PC_flush3 (R : ViewRel) (s : PState) (Q : QFs) (hI : Inv R s (fvOf Q)) (hP : PCore R s Q) (hq : QOk Q)
    (hp : s.fpc = 3) :
    PCore R { (Atom.rawEff s .syncDir) with fpc := 4 } (syncDirQ Q) := by
  have h := PC_syncDir R s Q hI hP hq
  refine ⟨h.man, ?_, h.mem, h.logic⟩
  have hs := h.sst
  show PSst s.tset s.tsetD s.tcont s.imm s.mtxns 4 s.fsst s.nextSst s.kout
    (s.kdir || s.kout.all (fun o => 1 ≤ o.stage)) (sstQ (syncDirQ Q))
  have hs' : PSst s.tset s.tsetD s.tcont s.imm s.mtxns s.fpc s.fsst s.nextSst s.kout
    (s.kdir || s.kout.all (fun o => 1 ≤ o.stage)) (sstQ (syncDirQ Q)) := hs
  exact {
    tables := hs'.tables
    dLt := hs'.dLt
    fl3 := by intro k hk _ _; exact hs'.fl3 k hk (by omega) (by omega)
    fl4 := fun _ _ => rfl
    fl6 := by intro _ a; omega
    kout3 := hs'.kout3
    kdirOk := hs'.kdirOk }

theorem tablesEnts_cons_other (tcont : List (Nat × List CEnt)) (id : Nat) (es : List CEnt) (t : List (Nat × Nat))
    (h : aget id t = none) : tablesEnts ((id, es) :: tcont) t = tablesEnts tcont t := by
  unfold tablesEnts
  congr 1
  apply List.map_congr_left
  intro x hx
  have : id ≠ x.1 := fun e => (aget_none_iff id t).mp h x hx e.symm
  simp [entsOfTable, aget, this]

theorem aset_of_none {α β : Type} [DecidableEq α] (k : α) (v : β) (l : List (α × β)) (h : aget k l = none) :
    aset k v l = (k, v) :: l := by
  unfold aset
  congr 1
  rw [List.filter_eq_self]
  intro x hx
  have := (aget_none_iff k l).mp h x hx
  simpa using this

/-- the MANIFEST record of the flushed table -/
theorem PC_flush4 (R : ViewRel) (s : PState) (Q : QFs) (hI : Inv R s (fvOf Q)) (hP : PCore R s Q)
    (k : Nat) (rest : List Nat) (hi : s.imm = k :: rest) (hp : s.fpc = 4)
    (h1 : aget s.fsst s.tset = none) (hmd : s.mdirty = false) :
    PCore R { s with fpc := 5, tset := aset s.fsst 0 s.tset, tcont := (s.fsst, s.memEnts k) :: s.tcont, mdirty := true }
      (qupd Q .manifest ((Q .manifest).setV ((Q .manifest).fv.map (appendChunk (.mset [.create s.fsst 0]))))) := by
  have hD : s.tsetD = s.tset := hP.man.clean hmd
  have hne : s.imm ≠ [] := by rw [hi]; simp
  have hhead : s.imm.head? = some k := by rw [hi]; rfl
  have hcontNew : entsOfTable ((s.fsst, s.memEnts k) :: s.tcont) s.fsst = s.memEnts k := by simp [entsOfTable, aget]
  have hcontOld : ∀ id, id ≠ s.fsst → entsOfTable ((s.fsst, s.memEnts k) :: s.tcont) id = entsOfTable s.tcont id := by
    intro id hid
    have : ¬ s.fsst = id := fun e => hid e.symm
    simp [entsOfTable, aget, this]
  refine ⟨?_, ?_, ?_, ?_⟩
  · rw [qupd_same]
    have h := hP.man
    obtain ⟨sets, sz, hf, hr⟩ := h.vol
    refine ⟨by simpa [PV.setV] using h.lk, ?_, by simpa [PV.setV] using h.dur, by intro e; cases e⟩
    refine ⟨sets ++ [.mset [.create s.fsst 0]], (if sz = .alloc then .alloc else .tight), ?_, ?_⟩
    · simp [PV.setV, hf, appendChunk]
    · rw [replayMSets_append, hr]
      simp [replayMSets, applyMSet, applyMChange, h1]
  · rw [sstQ_qupd_manifest]
    have hs := hP.sst
    show PSst (aset s.fsst 0 s.tset) s.tsetD ((s.fsst, s.memEnts k) :: s.tcont) s.imm s.mtxns 5 s.fsst s.nextSst
      s.kout s.kdir (sstQ Q)
    exact {
      tables := by
        intro id hid
        by_cases hf : id = s.fsst
        · subst hf
          rw [hcontNew]
          exact ⟨hs.fl4 hne hp, hI.sst.flush2 k hhead (by omega) (by omega), hs.fl3 k hhead (by omega) (by omega)⟩
        · rw [hcontOld id hf]
          apply hs.tables id
          rcases hid with hid | hid
          · left
            have : ¬ s.fsst = id := fun e => hf e.symm
            simpa [aget_aset, this] using hid
          · right; exact hid
      dLt := hs.dLt
      fl3 := by intro _ _ _ a; omega
      fl4 := by intro _ a; omega
      fl6 := by intro _ a; omega
      kout3 := hs.kout3
      kdirOk := hs.kdirOk }
  · rw [memQ_qupd_manifest]
    have hm := hP.mem
    show PMem s.imm s.curOpen s.cur s.nextMem s.mtxns s.curDirty s.curDurEntry s.pendU s.acked s.done
      (aset s.fsst 0 s.tset) s.tsetD ((s.fsst, s.memEnts k) :: s.tcont) (memQ Q)
    exact {
      immP := hm.immP
      curP := hm.curP
      deadP := hm.deadP
      pend := by
        intro x hx
        obtain ⟨a, b, c, d⟩ := hm.pend x hx
        refine ⟨a, b, c, ?_⟩
        intro e he
        obtain ⟨d1, d2, d3⟩ := d e he
        have hxf : x.2 ≠ s.fsst := by
          intro e'; rw [e', h1] at d1; cases d1
        have : ¬ s.fsst = x.2 := fun e => hxf e.symm
        exact ⟨by simpa [aget_aset, this] using d1, d2, by rw [hcontOld _ hxf]; exact d3⟩ }
  · have hl := hP.logic
    show PLogic R s.commits s.done s.curT ((s.fsst, s.memEnts k) :: s.tcont) (aset s.fsst 0 s.tset) s.tsetD s.mtxns s.imm
    refine ⟨hl.curLe, hl.link, ?_, ?_⟩
    · refine R.trans _ _ _ (R.of_mem_iff _ _ ?_) hl.baseV
      intro e
      rw [aset_of_none _ _ _ h1]
      have : tablesEnts ((s.fsst, s.memEnts k) :: s.tcont) ((s.fsst, 0) :: s.tset) =
          s.memEnts k ++ tablesEnts s.tcont s.tset := by
        have := tablesEnts_cons_other s.tcont s.fsst (s.memEnts k) s.tset h1
        unfold tablesEnts at this ⊢
        simp only [List.map, List.flatten_cons]
        rw [this, hcontNew]
      rw [this]
      simp only [List.mem_append]
      constructor
      · rintro ((h | h) | h)
        · right
          unfold immsEnts
          rw [mem_flatten_map]
          exact ⟨k, by rw [hi]; simp, h⟩
        · exact Or.inl h
        · exact Or.inr h
      · rintro (h | h)
        · exact Or.inl (Or.inr h)
        · exact Or.inr h
    · rw [tablesEnts_cons_other _ _ _ _ (by rw [hD]; exact h1)]
      exact hl.baseD

/-- fsync of the MANIFEST by the flusher -/
theorem PC_flush5 (R : ViewRel) (s : PState) (Q : QFs) (hI : Inv R s (fvOf Q)) (hP : PCore R s Q) (hp : s.fpc = 5) :
    PCore R { s with fpc := 6, mdirty := false, tsetD := s.tset }
      (qupd Q .manifest ((Q .manifest).setD (Q .manifest).fv)) := by
  have h := PC_syncManifest R s Q hI hP
  refine ⟨h.man, ?_, h.mem, h.logic⟩
  have hs : PSst s.tset s.tset s.tcont s.imm s.mtxns s.fpc s.fsst s.nextSst s.kout s.kdir
    (sstQ (qupd Q .manifest ((Q .manifest).setD (Q .manifest).fv))) := h.sst
  show PSst s.tset s.tset s.tcont s.imm s.mtxns 6 s.fsst s.nextSst s.kout s.kdir _
  exact {
    tables := hs.tables
    dLt := hs.dLt
    fl3 := by intro _ _ _ a; omega
    fl4 := by intro _ a; omega
    fl6 := by
      intro hne _
      cases hi : s.imm with
      | nil => exact absurd hi hne
      | cons k rest => exact (hI.sst.flush5 k (by rw [hi]; rfl) (by omega)).1
    kout3 := hs.kout3
    kdirOk := hs.kdirOk }

/-- the WAL of the flushed (or empty) memtable is deleted -/
theorem PC_flushDel (R : ViewRel) (s : PState) (Q : QFs) (hI : Inv R s (fvOf Q)) (hP : PCore R s Q) (hq : QOk Q)
    (k : Nat) (rest : List Nat) (hi : s.imm = k :: rest)
    (hsub : ∀ e ∈ s.memEnts k, (aget s.fsst s.tset).isSome ∧ (aget s.fsst s.tsetD).isSome ∧
      e ∈ entsOfTable s.tcont s.fsst) :
    PCore R { s with imm := rest, fpc := 0, pendU := (k, s.fsst) :: s.pendU }
      (qupd Q (.mem k) (delPV (Q (.mem k)))) := by
  have hkin : k ∈ s.imm := by rw [hi]; simp
  have hnd : k ∉ rest := by
    have := hI.mem.immNodup; rw [hi] at this
    exact (List.nodup_cons.mp this).1
  have hrest : ∀ n, n ∈ rest → n ∈ s.imm := by intro n hn; rw [hi]; exact List.mem_cons_of_mem _ hn
  have hnotin : ∀ n, n ∉ rest → n ≠ k → n ∉ s.imm := by
    intro n h1 h2 h3; rw [hi] at h3
    rcases List.mem_cons.mp h3 with h | h
    · exact h2 h
    · exact h1 h
  refine ⟨?_, ?_, ?_, ?_⟩
  · rw [qupd_ne _ _ _ _ (by simp)]; exact hP.man
  · rw [sstQ_qupd_mem]
    exact PSst_fpc_low _ _ _ _ rest _ _ _ _ 0 s.fsst s.nextSst _ _ _ hP.sst (by omega) (Nat.le_refl _)
  · rw [memQ_qupd_mem]
    have hm := hP.mem
    show PMem rest s.curOpen s.cur s.nextMem s.mtxns s.curDirty s.curDurEntry ((k, s.fsst) :: s.pendU) s.acked s.done
      s.tset s.tsetD s.tcont _
    exact {
      immP := by
        intro n hn
        have : n ≠ k := fun e => hnd (e ▸ hn)
        simp only [this, if_false]
        exact hm.immP n (hrest n hn)
      curP := by
        intro ho
        have : s.cur ≠ k := fun e => hI.mem.curNotImm ho (e ▸ hkin)
        simp only [this, if_false]
        exact hm.curP ho
      deadP := by
        intro n h1 h2
        by_cases hn : n = k
        · subst hn
          simp only [if_true]
          right
          refine ⟨⟨s.fsst, List.mem_cons_self⟩, ?_⟩
          obtain ⟨hl, f', hf', hr⟩ := hm.immP n hkin
          have hl' : (Q (.mem n)).lk = true := hl
          have hdd : (Q (.mem n)).dd = some f' := by rw [(hq (.mem n)).lkd hl']; exact hf'
          intro f hf e he
          rcases hf with hf | hf
          · simp only [delPV, hl', if_true] at hf
            cases hfv : (Q (.mem n)).fv with
            | none => rw [hfv] at hf; cases hf
            | some g =>
              rw [hfv] at hf
              simp only [Option.map_some, Option.some.injEq] at hf
              subst hf
              simp [truncChunks, replayLog] at he
          · simp only [delPV] at hf
            rw [hdd] at hf
            injection hf with hf
            subst hf
            rw [hr] at he; exact he
        · simp only [hn, if_false]
          rcases hm.deadP n (hnotin n h1 hn) h2 with h | ⟨⟨t, ht⟩, h⟩
          · exact Or.inl h
          · exact Or.inr ⟨⟨t, List.mem_cons_of_mem _ ht⟩, h⟩
      pend := by
        intro x hx
        rcases List.mem_cons.mp hx with hx | hx
        · subst hx
          exact ⟨hI.mem.immLt k hkin, hnd, fun ho e => hI.mem.curNotImm ho (e ▸ hkin), hsub⟩
        · obtain ⟨a, b, c, d⟩ := hm.pend x hx
          exact ⟨a, fun h => b (hrest _ h), c, d⟩ }
  · have hl := hP.logic
    show PLogic R s.commits s.done s.curT s.tcont s.tset s.tsetD s.mtxns rest
    have himm : immsEnts s.mtxns s.imm = s.memEnts k ++ immsEnts s.mtxns rest := by
      rw [hi]; simp [immsEnts, PState.memEnts, entsOfMem, PState.memTxns]
    have key : ∀ T : List (Nat × Nat), (∀ e ∈ s.memEnts k, (aget s.fsst T).isSome ∧ e ∈ entsOfTable s.tcont s.fsst) →
        ∀ e, e ∈ tablesEnts s.tcont T ++ immsEnts s.mtxns rest ↔ e ∈ tablesEnts s.tcont T ++ immsEnts s.mtxns s.imm := by
      intro T hT e
      rw [himm]
      simp only [List.mem_append]
      constructor
      · rintro (h | h)
        · exact Or.inl h
        · exact Or.inr (Or.inr h)
      · rintro (h | h | h)
        · exact Or.inl h
        · left
          obtain ⟨h1, h2⟩ := hT e h
          cases hg : aget s.fsst T with
          | none => rw [hg] at h1; cases h1
          | some lvl =>
            unfold tablesEnts
            rw [mem_flatten_map]
            exact ⟨(s.fsst, lvl), aget_mem _ _ _ hg, h2⟩
        · exact Or.inr h
    refine ⟨hl.curLe, hl.link, ?_, ?_⟩
    · exact R.trans _ _ _ (R.of_mem_iff _ _ (key s.tset (fun e he => ⟨(hsub e he).1, (hsub e he).2.2⟩))) hl.baseV
    · exact R.trans _ _ _ (R.of_mem_iff _ _ (key s.tsetD (fun e he => ⟨(hsub e he).2.1, (hsub e he).2.2⟩))) hl.baseD

end Badger
