import BadgerModel.ManifestPb
import BadgerProofs.Lemmas.Bytes
import BadgerProofs.Lemmas.Crc
/-!
The concrete codec of the driver (`pbCodec`: protobuf wire format, bit-level CRC32-C, ids in
ascending order) satisfies the contracts `Codec.Valid` assumed by the C17 / C09 theorems.
-/
namespace Badger

/-! ## varints -/

theorem pbConsumeVarintAux_pbVarintF (k i acc n : Nat) (rest : Bytes) (hik : i + k = 9)
    (hn : n * 128 ^ i < 2 ^ 64) :
    pbConsumeVarintAux i acc (pbVarintF k n ++ rest) = some (acc + n * 128 ^ i, rest) := by
  induction k generalizing i acc n with
  | zero =>
    have hi : i = 9 := by omega
    subst hi
    have h2 : n < 2 := by
      have : (128 : Nat) ^ 9 = 2 ^ 63 := by decide
      rw [this] at hn
      omega
    have hb : (UInt8.ofNat n).toNat = n := u8_ofNat_toNat n (by omega)
    have h63 : (128 : Nat) ^ 9 = 2 ^ 63 := by decide
    simp only [pbVarintF, List.cons_append, List.nil_append, pbConsumeVarintAux, hb, if_true, if_pos h2, h63]
  | succ k ih =>
    have hi9 : i ≠ 9 := by omega
    simp only [pbVarintF]
    by_cases h128 : n < 128
    · have hb : (UInt8.ofNat n).toNat = n := u8_ofNat_toNat n (by omega)
      simp only [if_pos h128, List.cons_append, List.nil_append, pbConsumeVarintAux, hb, if_neg hi9]
    · have hb : (UInt8.ofNat (n % 128 + 128)).toNat = n % 128 + 128 := u8_ofNat_toNat _ (by omega)
      simp only [if_neg h128, List.cons_append, pbConsumeVarintAux, hb, if_neg hi9]
      have hge : ¬ (n % 128 + 128 < 128) := by omega
      rw [if_neg hge]
      have hle : n / 128 * 128 ^ (i + 1) ≤ n * 128 ^ i := by
        have := Nat.div_mul_le_self n 128
        calc n / 128 * 128 ^ (i + 1) = (n / 128 * 128) * 128 ^ i := by
              rw [Nat.pow_succ, Nat.mul_comm (128 ^ i) 128, Nat.mul_assoc]
          _ ≤ n * 128 ^ i := Nat.mul_le_mul_right _ this
      rw [ih (i + 1) _ (n / 128) (by omega) (by omega)]
      congr 2
      have hdm := Nat.div_add_mod n 128
      have e1 : n % 128 + 128 - 128 = n % 128 := by omega
      rw [e1, Nat.pow_succ]
      calc acc + n % 128 * 128 ^ i + n / 128 * (128 ^ i * 128)
          = acc + (128 * (n / 128) + n % 128) * 128 ^ i := by
            rw [Nat.add_mul, Nat.mul_comm (128 ^ i) 128, ← Nat.mul_assoc, Nat.mul_comm (n / 128) 128]
            omega
        _ = acc + n * 128 ^ i := by rw [hdm]

/-- `ConsumeVarint(AppendVarint(nil, n) ++ rest) = (n, rest)` for every `uint64`. -/
theorem pbConsumeVarint_pbVarint (n : Nat) (rest : Bytes) (hn : n < 2 ^ 64) :
    pbConsumeVarint (pbVarint n ++ rest) = some (n, rest) := by
  unfold pbConsumeVarint pbVarint
  rw [pbConsumeVarintAux_pbVarintF 9 0 0 n rest rfl (by simpa using hn)]
  simp

theorem pbVarintF_ne_nil (k n : Nat) : pbVarintF k n ≠ [] := by
  cases k with
  | zero => simp [pbVarintF]
  | succ k => simp only [pbVarintF]; split <;> simp

theorem pbVarint_length_pos (n : Nat) : 0 < (pbVarint n).length := by
  have := pbVarintF_ne_nil 9 n
  unfold pbVarint
  exact List.length_pos_iff.mpr this

/-! ## one `ManifestChange` -/

/-- What the decoder stores for a varint `v` read for field `num`. -/
def pbSetField (num v : Nat) (c : Change) : Change :=
  if num = 1 then { c with id := v }
  else if num = 2 then { c with op := v % 2 ^ 32 }
  else if num = 3 then { c with level := v % 2 ^ 32 }
  else if num = 4 then { c with keyId := v }
  else if num = 5 then { c with encAlgo := v % 2 ^ 32 }
  else { c with compression := v % 2 ^ 32 }

def nz (v : Nat) : Nat := if v = 0 then 0 else 1

/-- A proto3 scalar: written (and then decoded) only when non-zero. -/
def pbUpd (num v : Nat) (c : Change) : Change := if v = 0 then c else pbSetField num v c

/-- One scalar field at the head of the buffer: consumed in one iteration (none if omitted). -/
theorem pbDecodeChangeLoop_field (num v fuel : Nat) (rest : Bytes) (c : Change)
    (h1 : 1 ≤ num) (h6 : num ≤ 6) (hv : v < 2 ^ 64) :
    pbDecodeChangeLoop (fuel + nz v) (pbField num v ++ rest) c =
      pbDecodeChangeLoop fuel rest (pbUpd num v c) := by
  by_cases h0 : v = 0
  · simp [h0, nz, pbField, pbUpd]
  · simp only [nz, if_neg h0, pbField, pbUpd]
    have hne : pbVarint (num * 8) ++ pbVarint v ++ rest ≠ [] := by
      have hp := pbVarint_length_pos (num * 8)
      intro h
      have h2 := congrArg List.length h
      simp only [List.length_append, List.length_nil] at h2
      omega
    rw [pbDecodeChangeLoop]
    · rw [List.append_assoc, pbConsumeVarint_pbVarint (num * 8) _ (by omega)]
      simp only
      have hd : num * 8 / 8 = num := by omega
      have hm : num * 8 % 8 = 0 := by omega
      rw [hd, hm]
      have hmax : ¬ (num < 1 ∨ num > pbMaxValidNumber) := by
        unfold pbMaxValidNumber; omega
      rw [if_neg hmax, if_neg (by decide), if_pos ⟨h1, h6, rfl⟩, pbConsumeVarint_pbVarint v rest hv]
      rfl
    · exact hne

theorem signExtend32_mod (v : Nat) (hv : v < 2 ^ 32) : signExtend32 v % 2 ^ 32 = v := by
  unfold signExtend32
  split <;> omega

theorem signExtend32_lt (v : Nat) (hv : v < 2 ^ 32) : signExtend32 v < 2 ^ 64 := by
  unfold signExtend32
  split <;> omega

theorem pbField_length_ge (num v : Nat) : nz v ≤ (pbField num v).length := by
  unfold nz pbField
  split
  · omega
  · have := pbVarint_length_pos (num * 8)
    simp only [List.length_append]
    omega

/-- Number of fields `proto.Marshal` writes for a change. -/
def pbFieldCount (c : Change) : Nat :=
  nz c.id + nz (signExtend32 c.op) + nz c.level + nz c.keyId + nz (signExtend32 c.encAlgo) + nz c.compression

theorem pbFieldCount_le (c : Change) : pbFieldCount c ≤ (pbEncodeChange c).length := by
  unfold pbFieldCount pbEncodeChange
  simp only [List.length_append]
  have := pbField_length_ge 1 c.id
  have := pbField_length_ge 2 (signExtend32 c.op)
  have := pbField_length_ge 3 c.level
  have := pbField_length_ge 4 c.keyId
  have := pbField_length_ge 5 (signExtend32 c.encAlgo)
  have := pbField_length_ge 6 c.compression
  omega

/-- Decoding the six optional fields in order rebuilds the change. -/
theorem pbUpd_chain (c : Change) (hr : c.InRange) :
    pbUpd 6 c.compression (pbUpd 5 (signExtend32 c.encAlgo) (pbUpd 4 c.keyId (pbUpd 3 c.level
      (pbUpd 2 (signExtend32 c.op) (pbUpd 1 c.id Change.zero))))) = c := by
  obtain ⟨h_id, h_op, h_lv, h_kid, h_enc, h_comp⟩ := hr
  obtain ⟨id, op, level, keyId, encAlgo, compression⟩ := c
  simp only at h_id h_op h_lv h_kid h_enc h_comp
  have s1 : pbUpd 1 id Change.zero = { Change.zero with id := id } := by
    unfold pbUpd; split
    · next h => subst h; rfl
    · rfl
  have s2 : ∀ x : Change, x.op = 0 → pbUpd 2 (signExtend32 op) x = { x with op := op } := by
    intro x hx
    unfold pbUpd; split
    · next h =>
      have : op = 0 := by unfold signExtend32 at h; split at h <;> omega
      subst this; cases x; simp_all
    · simp [pbSetField, signExtend32_mod op h_op]
  have s3 : ∀ x : Change, x.level = 0 → pbUpd 3 level x = { x with level := level } := by
    intro x hx
    unfold pbUpd; split
    · next h => subst h; cases x; simp_all
    · simp [pbSetField, Nat.mod_eq_of_lt h_lv]
  have s4 : ∀ x : Change, x.keyId = 0 → pbUpd 4 keyId x = { x with keyId := keyId } := by
    intro x hx
    unfold pbUpd; split
    · next h => subst h; cases x; simp_all
    · simp [pbSetField]
  have s5 : ∀ x : Change, x.encAlgo = 0 → pbUpd 5 (signExtend32 encAlgo) x = { x with encAlgo := encAlgo } := by
    intro x hx
    unfold pbUpd; split
    · next h =>
      have : encAlgo = 0 := by unfold signExtend32 at h; split at h <;> omega
      subst this; cases x; simp_all
    · simp [pbSetField, signExtend32_mod encAlgo h_enc]
  have s6 : ∀ x : Change, x.compression = 0 → pbUpd 6 compression x = { x with compression := compression } := by
    intro x hx
    unfold pbUpd; split
    · next h => subst h; cases x; simp_all
    · simp [pbSetField, Nat.mod_eq_of_lt h_comp]
  simp only
  rw [s1, s2 _ rfl, s3 _ rfl, s4 _ rfl, s5 _ rfl, s6 _ rfl]

theorem pbDecodeChangeLoop_encode (c : Change) (hr : c.InRange) (g : Nat) :
    pbDecodeChangeLoop (g + 1 + pbFieldCount c) (pbEncodeChange c) Change.zero = some c := by
  have hr' := hr
  obtain ⟨h_id, h_op, h_lv, h_kid, h_enc, h_comp⟩ := hr
  unfold pbFieldCount pbEncodeChange
  have e1 : g + 1 + (nz c.id + nz (signExtend32 c.op) + nz c.level + nz c.keyId + nz (signExtend32 c.encAlgo) + nz c.compression)
      = (g + 1 + nz (signExtend32 c.op) + nz c.level + nz c.keyId + nz (signExtend32 c.encAlgo) + nz c.compression) + nz c.id := by omega
  rw [e1]
  simp only [List.append_assoc]
  rw [pbDecodeChangeLoop_field 1 c.id _ _ _ (by decide) (by decide) h_id]
  have e2 : g + 1 + nz (signExtend32 c.op) + nz c.level + nz c.keyId + nz (signExtend32 c.encAlgo) + nz c.compression
      = (g + 1 + nz c.level + nz c.keyId + nz (signExtend32 c.encAlgo) + nz c.compression) + nz (signExtend32 c.op) := by omega
  rw [e2, pbDecodeChangeLoop_field 2 _ _ _ _ (by decide) (by decide) (signExtend32_lt _ h_op)]
  have e3 : g + 1 + nz c.level + nz c.keyId + nz (signExtend32 c.encAlgo) + nz c.compression
      = (g + 1 + nz c.keyId + nz (signExtend32 c.encAlgo) + nz c.compression) + nz c.level := by omega
  rw [e3, pbDecodeChangeLoop_field 3 _ _ _ _ (by decide) (by decide) (by omega)]
  have e4 : g + 1 + nz c.keyId + nz (signExtend32 c.encAlgo) + nz c.compression
      = (g + 1 + nz (signExtend32 c.encAlgo) + nz c.compression) + nz c.keyId := by omega
  rw [e4, pbDecodeChangeLoop_field 4 _ _ _ _ (by decide) (by decide) h_kid]
  have e5 : g + 1 + nz (signExtend32 c.encAlgo) + nz c.compression
      = (g + 1 + nz c.compression) + nz (signExtend32 c.encAlgo) := by omega
  rw [e5, pbDecodeChangeLoop_field 5 _ _ _ _ (by decide) (by decide) (signExtend32_lt _ h_enc)]
  rw [← List.append_nil (pbField 6 c.compression),
    pbDecodeChangeLoop_field 6 _ _ _ _ (by decide) (by decide) (by omega)]
  rw [pbUpd_chain c hr']
  rfl

/-- `Unmarshal(Marshal(change)) = change` for a single `ManifestChange`. -/
theorem pbDecodeChange_encode (c : Change) (hr : c.InRange) :
    pbDecodeChange (pbEncodeChange c) = some c := by
  unfold pbDecodeChange
  have hle := pbFieldCount_le c
  have : (pbEncodeChange c).length + 1 = ((pbEncodeChange c).length - pbFieldCount c) + 1 + pbFieldCount c := by
    omega
  rw [this]
  exact pbDecodeChangeLoop_encode c hr _

/-! ## a `ManifestChangeSet` -/

theorem pbVarintF_length_le (k n : Nat) : (pbVarintF k n).length ≤ k + 1 := by
  induction k generalizing n with
  | zero => simp [pbVarintF]
  | succ k ih =>
    simp only [pbVarintF]
    split
    · simp
    · simp only [List.length_cons]; have := ih (n / 128); omega

theorem pbField_length_le (num v : Nat) : (pbField num v).length ≤ 20 := by
  unfold pbField
  split
  · simp
  · have h1 := pbVarintF_length_le 9 (num * 8)
    have h2 := pbVarintF_length_le 9 v
    simp only [List.length_append, pbVarint]
    omega

theorem pbEncodeChange_length_le (c : Change) : (pbEncodeChange c).length ≤ 120 := by
  unfold pbEncodeChange
  simp only [List.length_append]
  have := pbField_length_le 1 c.id
  have := pbField_length_le 2 (signExtend32 c.op)
  have := pbField_length_le 3 c.level
  have := pbField_length_le 4 c.keyId
  have := pbField_length_le 5 (signExtend32 c.encAlgo)
  have := pbField_length_le 6 c.compression
  omega

theorem pbEncodeSet_cons (c : Change) (cs : ChangeSet) :
    pbEncodeSet (c :: cs) =
      pbVarint 10 ++ (pbVarint (pbEncodeChange c).length ++ (pbEncodeChange c ++ pbEncodeSet cs)) := by
  have h10 : pbVarint 10 = [0x0a] := by decide
  simp [pbEncodeSet, h10]

theorem pbEncodeSet_length_ge (cs : ChangeSet) : cs.length ≤ (pbEncodeSet cs).length := by
  induction cs with
  | nil => simp [pbEncodeSet]
  | cons c cs ih =>
    rw [pbEncodeSet_cons]
    have := pbVarint_length_pos 10
    simp only [List.length_append, List.length_cons]
    omega

theorem pbDecodeSetLoop_encode (cs : ChangeSet) (hr : ChangeSet.InRange cs) (acc : List Change) (fuel : Nat)
    (hf : cs.length + 1 ≤ fuel) :
    pbDecodeSetLoop fuel (pbEncodeSet cs) acc = some (acc.reverse ++ cs) := by
  induction cs generalizing acc fuel with
  | nil =>
    obtain ⟨f, rfl⟩ : ∃ f, fuel = f + 1 := ⟨fuel - 1, by simp at hf; omega⟩
    simp [pbEncodeSet, pbDecodeSetLoop]
  | cons c cs ih =>
    obtain ⟨f, rfl⟩ : ∃ f, fuel = f + 1 := ⟨fuel - 1, by simp at hf; omega⟩
    rw [pbEncodeSet_cons]
    have hne : pbVarint 10 ++ (pbVarint (pbEncodeChange c).length ++ (pbEncodeChange c ++ pbEncodeSet cs)) ≠ [] := by
      have hp := pbVarint_length_pos 10
      intro h
      have h2 := congrArg List.length h
      simp only [List.length_append, List.length_nil] at h2
      omega
    rw [pbDecodeSetLoop]
    · rw [pbConsumeVarint_pbVarint 10 _ (by decide)]
      simp only
      have hmax : ¬ ((10 : Nat) / 8 < 1 ∨ 10 / 8 > pbMaxValidNumber) := by decide
      rw [if_neg hmax, if_neg (by decide), if_pos (by decide)]
      have hlen := pbEncodeChange_length_le c
      rw [pbConsumeVarint_pbVarint _ _ (by omega)]
      simp only
      rw [if_neg (by simp), List.take_left' rfl, List.drop_left' rfl,
        pbDecodeChange_encode c (hr c (by simp))]
      simp only
      rw [ih (fun x hx => hr x (by simp [hx])) (c :: acc) f (by simp at hf; omega)]
      simp
    · exact hne

/-- `proto.Unmarshal(proto.Marshal(set)) = set` for change sets whose fields fit their Go types. -/
theorem pbDecodeSet_encode (cs : ChangeSet) (hr : ChangeSet.InRange cs) :
    pbDecodeSet (pbEncodeSet cs) = some cs := by
  unfold pbDecodeSet
  have := pbDecodeSetLoop_encode cs hr [] ((pbEncodeSet cs).length + 1)
    (by have := pbEncodeSet_length_ge cs; omega)
  simpa using this

/-! ## CRC and map order -/

theorem insertById_perm (e : Nat × TableManifest) (l : List (Nat × TableManifest)) :
    (insertById e l).Perm (e :: l) := by
  induction l with
  | nil => exact List.Perm.refl _
  | cons x xs ih =>
    simp only [insertById]
    split
    · exact List.Perm.refl _
    · exact (List.Perm.cons x ih).trans (List.Perm.swap e x xs)

theorem sortById_perm (l : List (Nat × TableManifest)) : (sortById l).Perm l := by
  induction l with
  | nil => exact List.Perm.refl _
  | cons x xs ih =>
    simp only [sortById, List.foldr_cons]
    exact (insertById_perm x _).trans (List.Perm.cons x ih)

/-- The concrete codec of the driver satisfies every contract assumed by the C17/C09 theorems. -/
theorem pbCodec_valid : pbCodec.Valid where
  crc_lt := crc32c_lt
  dec_enc := pbDecodeSet_encode
  ord_perm := sortById_perm

end Badger
