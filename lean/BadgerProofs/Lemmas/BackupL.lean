import BadgerModel.Backup
import BadgerProofs.Lemmas.StreamOrd
/-!
# Lemmas for C24 (Backup / Load): meta bits, the `KVLoader` loop, `memPut` on sorted memtables,
the producer's iterator from the start of the key space, and the backup's producer loop as a
`flatMap` over the iterator's items. Namespace `Badger.BL`.
-/
namespace Badger
namespace BL
open SO

/-! ## meta bits -/

theorem hasBit_iff (m b : Nat) : hasBit m b = true ↔ (m / b) % 2 = 1 := by
  unfold hasBit; simp

theorem hasBit_false_iff (m b : Nat) : hasBit m b = false ↔ (m / b) % 2 = 0 := by
  unfold hasBit; simp

/-- the meta bits a reader can observe (same as `normMeta` of C24) -/
def nmeta (m : Nat) : Nat := clearBit (clearBit (clearBit m bitValuePointer) bitTxn) bitFinTxn

theorem clearBit_eq (m b : Nat) : clearBit m b = if (m / b) % 2 = 1 then m - b else m := by
  unfold clearBit; by_cases h : (m / b) % 2 = 1
  · rw [if_pos h, if_pos ((hasBit_iff _ _).mpr h)]
  · rw [if_neg h, if_neg (by rw [hasBit_iff]; exact h)]

theorem setBit_eq (m b : Nat) : setBit m b = if (m / b) % 2 = 1 then m else m + b := by
  unfold setBit; by_cases h : (m / b) % 2 = 1
  · rw [if_pos h, if_pos ((hasBit_iff _ _).mpr h)]
  · rw [if_neg h, if_neg (by rw [hasBit_iff]; exact h)]

theorem nmeta_clearVP (m : Nat) : nmeta (clearBit m bitValuePointer) = nmeta m := by
  unfold nmeta bitValuePointer bitTxn bitFinTxn
  simp only [clearBit_eq]
  repeat' split
  all_goals omega

theorem nmeta_setVP (m : Nat) : nmeta (setBit m bitValuePointer) = nmeta m := by
  unfold nmeta bitValuePointer bitTxn bitFinTxn
  simp only [clearBit_eq, setBit_eq]
  repeat' split
  all_goals omega

theorem nmeta_clearTxn (m : Nat) : nmeta (clearBit (clearBit m bitTxn) bitFinTxn) = nmeta m := by
  unfold nmeta bitValuePointer bitTxn bitFinTxn
  simp only [clearBit_eq]
  repeat' split
  all_goals omega

theorem hasBit_one_congr {a b : Nat} (h : a % 2 = b % 2) : hasBit a bitDelete = hasBit b bitDelete := by
  unfold hasBit bitDelete; rw [Nat.div_one, Nat.div_one, h]

theorem hasDelete_clearVP (m : Nat) : hasBit (clearBit m bitValuePointer) bitDelete = hasBit m bitDelete := by
  apply hasBit_one_congr; unfold bitValuePointer; rw [clearBit_eq]; split <;> omega

theorem hasDelete_setVP (m : Nat) : hasBit (setBit m bitValuePointer) bitDelete = hasBit m bitDelete := by
  apply hasBit_one_congr; unfold bitValuePointer; rw [setBit_eq]; split <;> omega

theorem hasDelete_clearTxn (m : Nat) :
    hasBit (clearBit (clearBit m bitTxn) bitFinTxn) bitDelete = hasBit m bitDelete := by
  have h1 : ∀ m, hasBit (clearBit m bitTxn) bitDelete = hasBit m bitDelete := by
    intro m; apply hasBit_one_congr; unfold bitTxn; rw [clearBit_eq]; split <;> omega
  have h2 : ∀ m, hasBit (clearBit m bitFinTxn) bitDelete = hasBit m bitDelete := by
    intro m; apply hasBit_one_congr; unfold bitFinTxn; rw [clearBit_eq]; split <;> omega
  rw [h2, h1]

/-! ## Load -/

def estSum (th : Nat) (l : List Ent) : Nat := (l.map (loadEstimate th)).foldl (· + ·) 0

theorem foldl_add_init (l : List Nat) (a : Nat) : l.foldl (· + ·) a = a + l.foldl (· + ·) 0 := by
  induction l generalizing a with
  | nil => simp
  | cons x xs ih => simp only [List.foldl_cons]; rw [ih (a + x), ih (0 + x)]; omega

theorem estSum_nil (th : Nat) : estSum th [] = 0 := rfl

theorem estSum_snoc (th : Nat) (l : List Ent) (e : Ent) :
    estSum th (l ++ [e]) = estSum th l + loadEstimate th e := by
  unfold estSum
  rw [List.map_append, List.foldl_append]
  simp

/-- the database with memtable `m` and `nextTxnTs = t`, everything else as in `d` -/
def mk (d : Db) (m : List Ent) (t : Nat) : Db := { d with lsm := { d.lsm with mem := m }, nextTs := t }

/-- one `writeToLSM` step -/
def put (d : Db) : List Ent → Ent → List Ent := fun m e => memPut (d.lsmForm e) m

theorem mk_self (d : Db) : mk d d.lsm.mem d.nextTs = d := rfl
theorem mk_opts (d : Db) (m : List Ent) (t : Nat) : (mk d m t).opts = d.opts := rfl
theorem mk_mem (d : Db) (m : List Ent) (t : Nat) : (mk d m t).lsm.mem = m := rfl
theorem mk_imm (d : Db) (m : List Ent) (t : Nat) : (mk d m t).lsm.imm = d.lsm.imm := rfl
theorem mk_levels (d : Db) (m : List Ent) (t : Nat) : (mk d m t).lsm.levels = d.lsm.levels := rfl
theorem mk_nextTs (d : Db) (m : List Ent) (t : Nat) : (mk d m t).nextTs = t := rfl

theorem lsmForm_mk (d : Db) (m : List Ent) (t : Nat) : (mk d m t).lsmForm = d.lsmForm := rfl

theorem loaderSend_eq (d : Db) (l : KVLoader) : d.loaderSend l =
    if l.entries.length ≥ d.opts.maxBatchCount || estSum d.opts.threshold l.entries ≥ d.opts.maxBatchSize then none
    else some (mk d (l.entries.foldl (put d) d.lsm.mem) d.nextTs, {}) := rfl

theorem loaderSet_eq (d : Db) (l : KVLoader) (kv : Ent) : d.loaderSet l kv =
    match (if l.entries.length + 1 ≥ d.opts.maxBatchCount
              || l.entriesSize + loadEstimate d.opts.threshold kv ≥ d.opts.maxBatchSize
              || l.totalSize ≥ flushThreshold
           then d.loaderSend l else some (d, l)) with
    | none => none
    | some (d', l') =>
      some (d', { entries := l'.entries ++ [kv], entriesSize := l'.entriesSize + loadEstimate d.opts.threshold kv,
                  totalSize := l'.totalSize + loadEstimate d.opts.threshold kv + kv.val.length }) := rfl

/-- the loader invariant: the pending batch is below both limits of `sendToWriteCh` -/
def LInv (o : Opts) (l : KVLoader) : Prop :=
  l.entries.length < o.maxBatchCount ∧ l.entriesSize = estSum o.threshold l.entries ∧
  (l.entries = [] ∨ l.entriesSize < o.maxBatchSize)

theorem loaderSend_ok (d : Db) (m : List Ent) (t : Nat) (l : KVLoader) (hi : LInv d.opts l)
    (hpos : 0 < d.opts.maxBatchSize) :
    (mk d m t).loaderSend l = some (mk d (l.entries.foldl (put d) m) t, {}) := by
  obtain ⟨h1, h2, h3⟩ := hi
  rw [loaderSend_eq, mk_opts]
  have hsz : estSum d.opts.threshold l.entries < d.opts.maxBatchSize := by
    rcases h3 with h3 | h3
    · rw [h3, estSum_nil]; exact hpos
    · omega
  rw [if_neg (by simp; omega)]
  rfl

theorem loaderSet_ok (d : Db) (m : List Ent) (t : Nat) (l : KVLoader) (kv : Ent) (hi : LInv d.opts l)
    (hc : 2 ≤ d.opts.maxBatchCount) (he : loadEstimate d.opts.threshold kv < d.opts.maxBatchSize) :
    ∃ m' l', (mk d m t).loaderSet l kv = some (mk d m' t, l') ∧ LInv d.opts l' ∧
      l'.entries.foldl (put d) m' = (l.entries ++ [kv]).foldl (put d) m := by
  obtain ⟨h1, h2, h3⟩ := hi
  have hi : LInv d.opts l := ⟨h1, h2, h3⟩
  rw [loaderSet_eq, mk_opts]
  by_cases hcond : (decide (l.entries.length + 1 ≥ d.opts.maxBatchCount)
      || decide (l.entriesSize + loadEstimate d.opts.threshold kv ≥ d.opts.maxBatchSize)
      || decide (l.totalSize ≥ flushThreshold)) = true
  · rw [if_pos hcond, loaderSend_ok d m t l hi (by omega)]
    refine ⟨l.entries.foldl (put d) m,
      { entries := [] ++ [kv], entriesSize := 0 + loadEstimate d.opts.threshold kv,
        totalSize := 0 + loadEstimate d.opts.threshold kv + kv.val.length }, rfl, ⟨?_, ?_, ?_⟩, ?_⟩
    · show ([] ++ [kv]).length < _
      simp; omega
    · show 0 + _ = estSum _ ([] ++ [kv])
      rw [estSum_snoc, estSum_nil]
    · right; show 0 + _ < _
      omega
    · simp [List.foldl_append]
  · rw [if_neg hcond]
    simp only [ge_iff_le, Bool.or_eq_true, decide_eq_true_eq] at hcond
    refine ⟨m,
      { entries := l.entries ++ [kv], entriesSize := l.entriesSize + loadEstimate d.opts.threshold kv,
        totalSize := l.totalSize + loadEstimate d.opts.threshold kv + kv.val.length }, rfl, ⟨?_, ?_, ?_⟩, rfl⟩
    · show (l.entries ++ [kv]).length < _
      simp; omega
    · show l.entriesSize + _ = estSum _ (l.entries ++ [kv])
      rw [estSum_snoc, h2]
    · right; show l.entriesSize + _ < _
      omega

theorem loadKV_eq (d : Db) (l : KVLoader) (kv : Ent) : d.loadKV l kv =
    match d.loaderSet l kv with
    | none => none
    | some (d, l) => some (if kv.ver ≥ d.nextTs then { d with nextTs := kv.ver + 1 } else d, l) := rfl

theorem loadKV_ok (d : Db) (m : List Ent) (t : Nat) (l : KVLoader) (kv : Ent) (hi : LInv d.opts l)
    (hc : 2 ≤ d.opts.maxBatchCount) (he : loadEstimate d.opts.threshold kv < d.opts.maxBatchSize) :
    ∃ m' t' l', (mk d m t).loadKV l kv = some (mk d m' t', l') ∧ LInv d.opts l' ∧
      l'.entries.foldl (put d) m' = (l.entries ++ [kv]).foldl (put d) m := by
  obtain ⟨m', l', h1, h2, h3⟩ := loaderSet_ok d m t l kv hi hc he
  rw [loadKV_eq, h1]
  simp only []
  split
  · exact ⟨m', kv.ver + 1, l', rfl, h2, h3⟩
  · exact ⟨m', t, l', rfl, h2, h3⟩

theorem loadLoop_ok (d : Db) (hc : 2 ≤ d.opts.maxBatchCount) (rest : List Ent) :
    ∀ (m : List Ent) (t : Nat) (l : KVLoader), LInv d.opts l →
    (∀ e ∈ rest, loadEstimate d.opts.threshold e < d.opts.maxBatchSize) →
    ∃ m' t' l', (mk d m t).loadLoop l rest = (mk d m' t', l', true) ∧ LInv d.opts l' ∧
      l'.entries.foldl (put d) m' = (l.entries ++ rest).foldl (put d) m := by
  induction rest with
  | nil => intro m t l hi _; exact ⟨m, t, l, rfl, hi, by simp⟩
  | cons kv rest ih =>
    intro m t l hi he
    obtain ⟨m1, t1, l1, h1, h2, h3⟩ := loadKV_ok d m t l kv hi hc (he kv (by simp))
    obtain ⟨m2, t2, l2, g1, g2, g3⟩ := ih m1 t1 l1 h2 (fun e h => he e (List.mem_cons_of_mem _ h))
    refine ⟨m2, t2, l2, ?_, g2, ?_⟩
    · simp only [Db.loadLoop, h1]; exact g1
    · rw [g3, List.foldl_append, h3, ← List.foldl_append, List.append_assoc]; rfl

/-- the general load lemma: when no batch can be too big, `Load` succeeds and the memtable is
    the old one with every KV applied in order (in its `writeToLSM` form); only `nextTxnTs`
    changes besides. -/
theorem load_ok (d : Db) (kvs : List Ent) (hc : 2 ≤ d.opts.maxBatchCount)
    (he : ∀ e ∈ kvs, loadEstimate d.opts.threshold e < d.opts.maxBatchSize) :
    ∃ t, d.load kvs = (mk d (kvs.foldl (put d) d.lsm.mem) t, true) := by
  have hi : LInv d.opts {} := ⟨by show 0 < _; omega, rfl, .inl rfl⟩
  obtain ⟨m', t', l', h1, h2, h3⟩ := loadLoop_ok d hc kvs d.lsm.mem d.nextTs {} hi he
  rw [mk_self] at h1
  have h3' : l'.entries.foldl (put d) m' = kvs.foldl (put d) d.lsm.mem := h3
  simp only [Db.load, h1]
  by_cases hem : l'.entries = []
  · refine ⟨t', ?_⟩
    rw [hem] at h3'
    simp [hem, ← h3']
  · have hpos : 0 < d.opts.maxBatchSize := by
      rcases h2.2.2 with h | h
      · exact absurd h hem
      · omega
    refine ⟨t', ?_⟩
    have : l'.entries.isEmpty = false := by simpa using hem
    simp [this, loaderSend_ok d m' t' l' h2 hpos, h3']

/-! ### `nextTxnTs` -/

theorem loaderSend_nextTs {d d' : Db} {l l' : KVLoader} (h : d.loaderSend l = some (d', l')) :
    d'.nextTs = d.nextTs := by
  rw [loaderSend_eq] at h
  split at h
  · simp at h
  · simp only [Option.some.injEq, Prod.mk.injEq] at h
    rw [← h.1]; rfl

theorem loaderSet_nextTs {d d' : Db} {l l' : KVLoader} {kv : Ent} (h : d.loaderSet l kv = some (d', l')) :
    d'.nextTs = d.nextTs := by
  rw [loaderSet_eq] at h
  split at h
  · simp at h
  · rename_i d1 l1 heq
    simp only [Option.some.injEq, Prod.mk.injEq] at h
    rw [← h.1]
    split at heq
    · exact loaderSend_nextTs heq
    · simp only [Option.some.injEq, Prod.mk.injEq] at heq
      rw [← heq.1]

theorem loadKV_nextTs {d d' : Db} {l l' : KVLoader} {kv : Ent} (h : d.loadKV l kv = some (d', l')) :
    d.nextTs ≤ d'.nextTs ∧ kv.ver < d'.nextTs := by
  rw [loadKV_eq] at h
  split at h
  · simp at h
  · rename_i d1 l1 heq
    have h1 := loaderSet_nextTs heq
    simp only [Option.some.injEq, Prod.mk.injEq] at h
    rw [← h.1]
    split
    · show d.nextTs ≤ kv.ver + 1 ∧ kv.ver < kv.ver + 1
      omega
    · omega

theorem loadLoop_nextTs (rest : List Ent) : ∀ (d : Db) (l : KVLoader) (d' : Db) (l' : KVLoader),
    d.loadLoop l rest = (d', l', true) → d.nextTs ≤ d'.nextTs ∧ ∀ e ∈ rest, e.ver < d'.nextTs := by
  induction rest with
  | nil =>
    intro d l d' l' h
    simp only [Db.loadLoop, Prod.mk.injEq] at h
    rw [h.1]; simp
  | cons kv rest ih =>
    intro d l d' l' h
    simp only [Db.loadLoop] at h
    split at h
    · simp at h
    · rename_i d1 l1 heq
      obtain ⟨a1, a2⟩ := loadKV_nextTs heq
      obtain ⟨b1, b2⟩ := ih d1 l1 d' l' h
      refine ⟨by omega, ?_⟩
      intro e he
      rcases List.mem_cons.mp he with rfl | he
      · omega
      · exact b2 e he

theorem load_nextTs (d : Db) (kvs : List Ent) (h : (d.load kvs).2 = true) :
    d.nextTs ≤ (d.load kvs).1.nextTs ∧ ∀ e ∈ kvs, e.ver < (d.load kvs).1.nextTs := by
  rcases hl : d.loadLoop {} kvs with ⟨d1, l1, ok⟩
  simp only [Db.load, hl] at h ⊢
  cases ok with
  | false => simp at h
  | true =>
    have h0 := loadLoop_nextTs kvs d {} d1 l1 hl
    by_cases hem : l1.entries.isEmpty = true
    · simpa [hem] using h0
    · simp only [hem] at h ⊢
      cases hs : d1.loaderSend l1 with
      | none => simp [hs] at h
      | some p =>
        obtain ⟨d2, l2⟩ := p
        have := loaderSend_nextTs hs
        simp only []
        simpa [this] using h0

/-! ## `memPut` on sorted memtables -/

/-- same internal key -/
def sameKV (x y : Ent) : Prop := x.key = y.key ∧ x.ver = y.ver

theorem elt_not_same {a b : Ent} (h : elt a b) : ¬ sameKV a b := by
  rintro ⟨hk, hv⟩
  rcases h with h | ⟨_, h⟩
  · rw [hk] at h; exact klt_irrefl _ h
  · omega

theorem elt_not_same' {a b : Ent} (h : elt a b) : ¬ sameKV b a := by
  rintro ⟨hk, hv⟩
  exact elt_not_same h ⟨hk.symm, hv.symm⟩

theorem elt_congr_left {a a' b : Ent} (h : sameKV a a') : elt a b ↔ elt a' b := by
  unfold elt; rw [h.1, h.2]

theorem elt_congr_right {a b b' : Ent} (h : sameKV b b') : elt a b ↔ elt a b' := by
  unfold elt; rw [h.1, h.2]

theorem mem_memPut {e : Ent} {m : List Ent} (hs : SortedEnts m) {x : Ent} :
    x ∈ memPut e m ↔ x = e ∨ (x ∈ m ∧ ¬ sameKV x e) := by
  induction m with
  | nil => simp [memPut]
  | cons a m ih =>
    obtain ⟨h1, h2⟩ := sorted_cons.mp hs
    unfold memPut
    cases hc : entCmp e a with
    | lt =>
      have hea : elt e a := (entCmp_lt_iff _ _).mp hc
      simp only [List.mem_cons]
      constructor
      · rintro (h | h | h)
        · exact .inl h
        · subst h; exact .inr ⟨.inl rfl, elt_not_same' hea⟩
        · exact .inr ⟨.inr h, elt_not_same' (elt_trans hea (h1 x h))⟩
      · rintro (h | ⟨h, _⟩)
        · exact .inl h
        · exact .inr h
    | eq =>
      have hea : sameKV e a := (entCmp_eq_iff _ _).mp hc
      simp only [List.mem_cons]
      constructor
      · rintro (h | h)
        · exact .inl h
        · refine .inr ⟨.inr h, ?_⟩
          intro hx
          exact elt_not_same' (h1 x h) ⟨hx.1.trans hea.1, hx.2.trans hea.2⟩
      · rintro (h | ⟨h | h, hn⟩)
        · exact .inl h
        · subst h; exact absurd ⟨hea.1.symm, hea.2.symm⟩ hn
        · exact .inr h
    | gt =>
      have hae : elt a e := (entCmp_gt_iff _ _).mp hc
      simp only [List.mem_cons, ih h2]
      constructor
      · rintro (h | h | ⟨h, hn⟩)
        · subst h; exact .inr ⟨.inl rfl, elt_not_same hae⟩
        · exact .inl h
        · exact .inr ⟨.inr h, hn⟩
      · rintro (h | ⟨h | h, hn⟩)
        · exact .inr (.inl h)
        · exact .inl h
        · exact .inr (.inr ⟨h, hn⟩)

theorem sorted_memPut {e : Ent} {m : List Ent} (hs : SortedEnts m) : SortedEnts (memPut e m) := by
  induction m with
  | nil => simp [memPut, SortedEnts]
  | cons a m ih =>
    obtain ⟨h1, h2⟩ := sorted_cons.mp hs
    unfold memPut
    cases hc : entCmp e a with
    | lt =>
      have hea : elt e a := (entCmp_lt_iff _ _).mp hc
      simp only
      refine sorted_cons.mpr ⟨?_, hs⟩
      intro y hy
      rcases List.mem_cons.mp hy with rfl | hy
      · exact hea
      · exact elt_trans hea (h1 y hy)
    | eq =>
      have hea : sameKV e a := (entCmp_eq_iff _ _).mp hc
      simp only
      refine sorted_cons.mpr ⟨?_, h2⟩
      intro y hy
      exact (elt_congr_left hea).mpr (h1 y hy)
    | gt =>
      have hae : elt a e := (entCmp_gt_iff _ _).mp hc
      simp only
      refine sorted_cons.mpr ⟨?_, ih h2⟩
      intro y hy
      rcases (mem_memPut h2).mp hy with rfl | ⟨hy, _⟩
      · exact hae
      · exact h1 y hy

abbrev putAll (L m : List Ent) : List Ent := L.foldl (fun m e => memPut e m) m

theorem sorted_putAll (L : List Ent) : ∀ m, SortedEnts m → SortedEnts (putAll L m) := by
  induction L with
  | nil => intro m h; exact h
  | cons e L ih => intro m h; exact ih _ (sorted_memPut h)

theorem mem_putAll_sub (L : List Ent) : ∀ m, SortedEnts m → ∀ x, x ∈ putAll L m → x ∈ L ∨ x ∈ m := by
  induction L with
  | nil => intro m _ x h; exact .inr h
  | cons e L ih =>
    intro m hs x h
    rcases ih _ (sorted_memPut hs) x h with h | h
    · exact .inl (List.mem_cons_of_mem _ h)
    · rcases (mem_memPut hs).mp h with rfl | ⟨h, _⟩
      · exact .inl (by simp)
      · exact .inr h

/-- an entry stays in the memtable as long as its internal key is not written again -/
theorem mem_putAll_old (L : List Ent) : ∀ m, SortedEnts m → ∀ x, x ∈ m → (∀ y ∈ L, ¬ sameKV x y) →
    x ∈ putAll L m := by
  induction L with
  | nil => intro m _ x h _; exact h
  | cons e L ih =>
    intro m hs x h hn
    apply ih _ (sorted_memPut hs) x
    · exact (mem_memPut hs).mpr (.inr ⟨h, hn e (by simp)⟩)
    · exact fun y hy => hn y (List.mem_cons_of_mem _ hy)

/-- every entry of a sorted (hence duplicate-free) batch is in the memtable afterwards -/
theorem mem_putAll_new (L : List Ent) : ∀ m, SortedEnts m → SortedEnts L → ∀ x, x ∈ L → x ∈ putAll L m := by
  induction L with
  | nil => intro m _ _ x h; simp at h
  | cons e L ih =>
    intro m hs hL x h
    obtain ⟨g1, g2⟩ := sorted_cons.mp hL
    rcases List.mem_cons.mp h with rfl | h
    · apply mem_putAll_old L _ (sorted_memPut hs) x
      · exact (mem_memPut hs).mpr (.inl rfl)
      · exact fun y hy => elt_not_same (g1 y hy)
    · exact ih _ (sorted_memPut hs) g2 x h

theorem memPut_last {e : Ent} (acc : List Ent) (h : ∀ a ∈ acc, elt a e) : memPut e acc = acc ++ [e] := by
  induction acc with
  | nil => rfl
  | cons a acc ih =>
    have : entCmp e a = .gt := (entCmp_gt_iff _ _).mpr (h a (by simp))
    unfold memPut
    rw [this]
    simp only [List.cons_append]
    rw [ih (fun b hb => h b (List.mem_cons_of_mem _ hb))]

/-- inserting a sorted batch whose keys are all above the memtable appends it -/
theorem putAll_append (L : List Ent) : ∀ acc, (∀ a ∈ acc, ∀ x ∈ L, elt a x) → SortedEnts L →
    putAll L acc = acc ++ L := by
  induction L with
  | nil => intro acc _ _; simp [putAll]
  | cons e L ih =>
    intro acc h hL
    obtain ⟨g1, g2⟩ := sorted_cons.mp hL
    show putAll L (memPut e acc) = _
    rw [memPut_last acc (fun a ha => h a ha e (by simp)), ih _ _ g2]
    · simp
    · intro a ha x hx
      rcases List.mem_append.mp ha with ha | ha
      · exact h a ha x (List.mem_cons_of_mem _ hx)
      · simp at ha; subst ha; exact g1 x hx

/-! ## `lsmForm` keeps the internal key -/

theorem lsmForm_key (d : Db) (e : Ent) : (d.lsmForm e).key = e.key := by
  unfold Db.lsmForm; split <;> rfl
theorem lsmForm_ver (d : Db) (e : Ent) : (d.lsmForm e).ver = e.ver := by
  unfold Db.lsmForm; split <;> rfl
theorem lsmForm_umeta (d : Db) (e : Ent) : (d.lsmForm e).umeta = e.umeta := by
  unfold Db.lsmForm; split <;> rfl
theorem lsmForm_exp (d : Db) (e : Ent) : (d.lsmForm e).exp = e.exp := by
  unfold Db.lsmForm; split <;> rfl
theorem lsmForm_val (d : Db) (e : Ent) : (d.lsmForm e).val = e.val := by
  unfold Db.lsmForm; split <;> rfl

theorem sorted_map (f : Ent → Ent) (hk : ∀ e, (f e).key = e.key) (hv : ∀ e, (f e).ver = e.ver)
    {l : List Ent} (h : SortedEnts l) : SortedEnts (l.map f) := by
  unfold SortedEnts at *
  rw [List.pairwise_map]
  refine h.imp ?_
  intro a b hab
  unfold entCmp at *
  rw [hk, hk, hv, hv]; exact hab

/-! ## the producer's iterator from the start, with an empty prefix -/

/-- what the `AllVersions` iterator at read timestamp `R` with `SinceTs = since` lets through -/
def keepP (since R : Nat) (e : Ent) : Bool :=
  !(decide (e.ver > R) || (decide (since > 0) && decide (e.ver ≤ since)))

theorem keepP_iff (since R : Nat) (e : Ent) :
    keepP since R e = true ↔ e.ver ≤ R ∧ (since = 0 ∨ since < e.ver) := by
  unfold keepP; simp

theorem parseItems_nil (o : IterOpts) (R now fuel : Nat) (lk : Option Bytes) :
    parseItems o R now fuel lk [] = [] := by
  cases fuel <;> simp [parseItems]

theorem parseItems_all (o : IterOpts) (R now : Nat) (hall : o.allVersions = true) (hrev : o.reverse = false)
    (hpfx : o.prefix_ = []) (hia : o.internalAccess = false) :
    ∀ (l : List Ent) (fuel : Nat) (lk : Option Bytes), l.length ≤ fuel →
      (∀ e ∈ l, badgerPrefix.isPrefixOf e.ikey = false) →
      parseItems o R now fuel lk l = l.filter (keepP o.sinceTs R) := by
  intro l
  induction l with
  | nil => intro fuel lk _ _; rw [parseItems_nil]; rfl
  | cons e rest ih =>
    intro fuel lk hlen hint
    cases fuel with
    | zero => simp at hlen
    | succ f =>
      have hl : rest.length ≤ f := by simp at hlen; omega
      have hi := hint e (by simp)
      have ih' := ih f lk hl (fun x hx => hint x (List.mem_cons_of_mem _ hx))
      by_cases hc : (decide (e.ver > R) || (decide (o.sinceTs > 0) && decide (e.ver ≤ o.sinceTs))) = true
      · have hk : keepP o.sinceTs R e = false := by unfold keepP; rw [hc]; rfl
        rw [List.filter_cons, hk]
        simp only [parseItems, hrev, hpfx, hia, hi]
        simp only [hc]
        simpa using ih'
      · have hk : keepP o.sinceTs R e = true := by
          unfold keepP; simp only [Bool.not_eq_true] at hc; rw [hc]; rfl
        rw [List.filter_cons, hk]
        simp only [parseItems, hrev, hpfx, hia, hi, hall]
        simp only [hc]
        simpa using ih'

theorem takeWhile_true {α : Type} (l : List α) (p : α → Bool) (h : ∀ x ∈ l, p x = true) : l.takeWhile p = l := by
  induction l with
  | nil => rfl
  | cons a l ih =>
    rw [List.takeWhile_cons, h a (by simp)]
    simp only [if_true]
    rw [ih (fun x hx => h x (List.mem_cons_of_mem _ hx))]

theorem rangeItems_start (view : List Ent) (since R now : Nat)
    (hint : ∀ e ∈ view, badgerPrefix.isPrefixOf e.ikey = false) :
    rangeItems view [] since R now [] = view.filter (keepP since R) := by
  unfold rangeItems
  simp only [seekList, List.isEmpty_nil, if_true, Bool.false_eq_true, if_false]
  rw [parseItems_all _ R now rfl rfl rfl rfl view _ none (by omega) hint]
  unfold validPrefix
  apply takeWhile_true
  intro x _
  simp

/-! ## the backup's `KeyToList` and the producer loop as one linear pass -/

/-- a retention boundary: `Backup` stops after it -/
def bdry (now : Nat) (e : Ent) : Bool := deletedOrExpired e.emeta e.exp now || hasBit e.emeta bitDiscardEarlier

/-- the KV `Backup` emits for a version: transaction bits cleared, no value when dead -/
def strip (now : Nat) (e : Ent) : Ent :=
  { key := e.key, ver := e.ver, emeta := clearBit (clearBit e.emeta bitTxn) bitFinTxn,
    umeta := e.umeta, exp := e.exp, val := if deletedOrExpired e.emeta e.exp now then [] else e.val }

/-- the delete marker written just below a discard-earlier version -/
def synth (e : Ent) : Ent :=
  { key := e.key, ver := verPred e.ver, emeta := bitDelete, umeta := 0, exp := 0, val := [] }

def emit (now : Nat) (e : Ent) : List Ent :=
  if hasBit e.emeta bitDiscardEarlier then [strip now e, synth e] else [strip now e]

theorem mem_emit {now : Nat} {e x : Ent} :
    x ∈ emit now e ↔ x = strip now e ∨ (hasBit e.emeta bitDiscardEarlier = true ∧ x = synth e) := by
  unfold emit
  split
  · rename_i h; simp [h]
  · rename_i h; simp [h]

/-- `backupKtl` without the error case -/
def ktlOut (now : Nat) (key : Bytes) : List Ent → List Ent
  | [] => []
  | e :: rest => if e.key != key then [] else emit now e ++ (if bdry now e then [] else ktlOut now key rest)

theorem backupKtl_eq (since now : Nat) (key : Bytes) : ∀ l : List Ent, (∀ e ∈ l, since ≤ e.ver) →
    backupKtl since now key l = some (ktlOut now key l) := by
  intro l
  induction l with
  | nil => intro _; rfl
  | cons e rest ih =>
    intro h
    have hv : ¬ e.ver < since := by have := h e (by simp); omega
    have ih' := ih (fun x hx => h x (List.mem_cons_of_mem _ hx))
    by_cases hk : e.key = key
    · subst hk
      by_cases hde : hasBit e.emeta bitDiscardEarlier = true
      · simp [backupKtl, ktlOut, hv, hde, emit, bdry, strip, synth]
      · by_cases hd : deletedOrExpired e.emeta e.exp now = true
        · simp [backupKtl, ktlOut, hv, hde, hd, emit, bdry, strip]
        · simp [backupKtl, ktlOut, hv, hde, hd, emit, bdry, strip, ih']
    · simp [backupKtl, ktlOut, hk]

/-- the producer loop of a backup as a single pass with the state (current key, stopped) -/
def lin (now : Nat) : Option Bytes → Bool → List Ent → List Ent
  | _, _, [] => []
  | cur, stopped, e :: rest =>
    if cur == some e.key then
      if stopped then lin now cur true rest else emit now e ++ lin now cur (bdry now e) rest
    else emit now e ++ lin now (some e.key) (bdry now e) rest

theorem ktlOut_lin (now : Nat) (key : Bytes) : ∀ rest : List Ent,
    ktlOut now key rest ++ lin now (some key) true rest = lin now (some key) false rest := by
  intro rest
  induction rest with
  | nil => simp [ktlOut, lin]
  | cons e r ih =>
    by_cases hk : e.key = key
    · subst hk
      cases hb : bdry now e with
      | true => simp [ktlOut, lin, hb]
      | false => simp [ktlOut, lin, hb, ih]
    · have hk' : ¬ key = e.key := fun h => hk h.symm
      simp [ktlOut, lin, hk, hk']

theorem produceLoop_lin (since sinceTs now : Nat) : ∀ (l : List Ent) (prev : Option Bytes),
    (∀ e ∈ l, since ≤ e.ver) →
    produceLoop (backupCfg [] since sinceTs now) [] prev l = lin now prev true l := by
  intro l
  induction l with
  | nil => intro prev _; simp [produceLoop, lin]
  | cons e rest ih =>
    intro prev h
    have ih' := fun p => ih p (fun x hx => h x (List.mem_cons_of_mem _ hx))
    by_cases hp : prev = some e.key
    · subst hp
      simp [produceLoop, lin, ih']
    · have hp' : (prev == some e.key) = false := by simpa using hp
      have hk := backupKtl_eq since now e.key (e :: rest) h
      simp only [produceLoop, lin, hp', backupCfg, hk]
      simp only [ktlOut, bne_self_eq_false, Bool.false_eq_true, if_false, List.isEmpty_nil, Bool.not_true,
        Bool.false_and]
      have ih'' := ih' (some e.key)
      simp only [backupCfg] at ih''
      rw [ih'']
      cases hb : bdry now e with
      | true => simp
      | false => simp [ktlOut_lin]

/-! ## … and as a `flatMap` over the iterator's items -/

/-- a version is emitted iff no boundary of the same key lies above it -/
def live (now : Nat) (whole : List Ent) (e : Ent) : Bool :=
  !(whole.any (fun x => x.key == e.key && decide (e.ver < x.ver) && bdry now x))

theorem live_iff (now : Nat) (whole : List Ent) (e : Ent) :
    live now whole e = true ↔ ∀ x ∈ whole, x.key = e.key → e.ver < x.ver → bdry now x = false := by
  unfold live
  simp only [Bool.not_eq_true', List.any_eq_false, Bool.and_eq_true, beq_iff_eq, decide_eq_true_eq,
    not_and, Bool.not_eq_true]
  constructor
  · intro h x hx hk hv; exact h x hx ⟨hk, hv⟩
  · intro h x hx hkv; exact h x hx hkv.1 hkv.2

theorem live_false_iff (now : Nat) (whole : List Ent) (e : Ent) :
    live now whole e = false ↔ ∃ x ∈ whole, x.key = e.key ∧ e.ver < x.ver ∧ bdry now x = true := by
  rw [← Bool.not_eq_true, live_iff]
  constructor
  · intro h
    apply Classical.byContradiction
    intro hn
    apply h
    intro x hx hk hv
    cases hb : bdry now x with
    | false => rfl
    | true => exact absurd ⟨x, hx, hk, hv, hb⟩ hn
  · rintro ⟨x, hx, hk, hv, hb⟩ h
    rw [h x hx hk hv] at hb; cases hb

/-- the backup's KVs for the iterator items `items` -/
def bk (now : Nat) (items : List Ent) : List Ent :=
  items.flatMap (fun e => if live now items e then emit now e else [])

theorem elt_key_le {a b : Ent} (h : elt a b) : klt a.key b.key ∨ a.key = b.key := by
  rcases h with h | ⟨h, _⟩
  · exact .inl h
  · exact .inr h

theorem key_mid {a b c : Ent} (h1 : elt a b) (h2 : elt b c) (h : a.key = c.key) : b.key = c.key := by
  rcases elt_key_le h2 with g2 | g2
  · exfalso
    rcases elt_key_le h1 with g1 | g1
    · exact klt_irrefl _ (h ▸ klt_trans g1 g2)
    · rw [← g1, h] at g2; exact klt_irrefl _ g2
  · exact g2

theorem elt_same_key_ver {a b : Ent} (h : elt a b) (hk : a.key = b.key) : b.ver < a.ver := by
  rcases h with h | ⟨_, h⟩
  · rw [hk] at h; exact absurd h (klt_irrefl _)
  · exact h

theorem lin_flatMap (now : Nat) (whole : List Ent) (hs : SortedEnts whole) :
    ∀ (l pre : List Ent) (cur : Option Bytes) (stopped : Bool),
      whole = pre ++ l →
      (∀ x ∈ pre, ∀ y ∈ l, x.key = y.key → cur = some y.key) →
      (∀ c, cur = some c → stopped = pre.any (fun x => x.key == c && bdry now x)) →
      lin now cur stopped l = l.flatMap (fun e => if live now whole e then emit now e else []) := by
  intro l
  induction l with
  | nil => intro pre cur stopped _ _ _; simp [lin]
  | cons e rest ih =>
    intro pre cur stopped hw h1 h2
    have hs' := hs
    rw [hw] at hs'
    obtain ⟨_, s2, s3⟩ := sorted_append.mp hs'
    obtain ⟨s4, _⟩ := sorted_cons.mp s2
    -- entries of `whole` above `e` with the same key are in `pre`
    have habove : ∀ x ∈ whole, x.key = e.key → e.ver < x.ver → x ∈ pre := by
      intro x hx hk hv
      rw [hw] at hx
      rcases List.mem_append.mp hx with hx | hx
      · exact hx
      · rcases List.mem_cons.mp hx with rfl | hx
        · omega
        · have := elt_same_key_ver (s4 x hx) hk.symm; omega
    have hw' : whole = (pre ++ [e]) ++ rest := by rw [hw]; simp
    have h1' : ∀ x ∈ pre ++ [e], ∀ y ∈ rest, x.key = y.key → some e.key = some y.key := by
      intro x hx y hy hk
      rcases List.mem_append.mp hx with hx | hx
      · have := key_mid (s3 x hx e (by simp)) (s4 y hy) hk
        rw [this]
      · simp at hx; subst hx; rw [hk]
    rw [List.flatMap_cons]
    by_cases hc : cur = some e.key
    · have hst := h2 e.key hc
      cases stopped with
      | true =>
        have hl : live now whole e = false := by
          rw [live_false_iff]
          obtain ⟨x, hx, hxb⟩ := List.any_eq_true.mp hst.symm
          simp only [Bool.and_eq_true, beq_iff_eq] at hxb
          refine ⟨x, by rw [hw]; exact List.mem_append_left _ hx, hxb.1, ?_, hxb.2⟩
          exact elt_same_key_ver (s3 x hx e (by simp)) hxb.1
        rw [hl]
        simp only [lin, hc, beq_self_eq_true, if_true, Bool.false_eq_true, if_false, List.nil_append]
        rw [← hc]
        apply ih (pre ++ [e]) cur true hw'
        · rw [hc]; exact h1'
        · intro c hcc
          rw [hc] at hcc; cases hcc
          rw [List.any_append, ← hst]; rfl
      | false =>
        have hpre : ∀ x ∈ pre, x.key = e.key → bdry now x = false := by
          intro x hx hk
          have := List.any_eq_false.mp hst.symm x hx
          simpa [hk] using this
        have hl : live now whole e = true := by
          rw [live_iff]
          intro x hx hk hv
          exact hpre x (habove x hx hk hv) hk
        rw [hl]
        simp only [lin, hc, beq_self_eq_true, if_true, Bool.false_eq_true, if_false]
        congr 1
        rw [← hc]
        apply ih (pre ++ [e]) cur (bdry now e) hw'
        · rw [hc]; exact h1'
        · intro c hcc
          rw [hc] at hcc; cases hcc
          rw [List.any_append, ← hst]; simp
    · have hnone : ∀ x ∈ pre, x.key ≠ e.key := by
        intro x hx hk
        exact hc (h1 x hx e (by simp) hk)
      have hl : live now whole e = true := by
        rw [live_iff]
        intro x hx hk hv
        exact absurd hk (hnone x (habove x hx hk hv))
      have hc' : (cur == some e.key) = false := by simpa using hc
      rw [hl]
      simp only [lin, hc', Bool.false_eq_true, if_false, if_true]
      congr 1
      apply ih (pre ++ [e]) (some e.key) (bdry now e) hw' h1'
      intro c hcc
      cases hcc
      rw [List.any_append]
      have : pre.any (fun x => x.key == e.key && bdry now x) = false := by
        apply List.any_eq_false.mpr
        intro x hx
        simp [hnone x hx]
      rw [this]; simp

/-- the KVs of a one-snapshot backup from the start of the key space, as a `flatMap` -/
theorem produceRange_bk (view : List Ent) (hs : SortedEnts view)
    (hint : ∀ e ∈ view, badgerPrefix.isPrefixOf e.ikey = false) (since R now : Nat) :
    produceRange view (backupCfg [] since since now) R now { left := [], right := [] } =
      bk now (view.filter (keepP since R)) := by
  unfold produceRange
  show produceLoop (backupCfg [] since since now) [] none (rangeItems view [] since R now []) = _
  rw [rangeItems_start view since R now hint, produceLoop_lin]
  · unfold bk
    apply lin_flatMap now _ (List.Pairwise.filter _ hs) _ [] none true rfl
    · intro x hx; simp at hx
    · intro c hc; cases hc
  · intro e he
    have := (keepP_iff since R e).mp (List.mem_filter.mp he).2
    omega

/-! ## membership and order of `bk` -/

theorem mem_bk {now : Nat} {items : List Ent} {x : Ent} :
    x ∈ bk now items ↔ ∃ e ∈ items, live now items e = true ∧ x ∈ emit now e := by
  unfold bk
  rw [List.mem_flatMap]
  constructor
  · rintro ⟨e, he, hx⟩
    split at hx
    · rename_i hl; exact ⟨e, he, hl, hx⟩
    · simp at hx
  · rintro ⟨e, he, hl, hx⟩
    exact ⟨e, he, by rw [if_pos hl]; exact hx⟩

theorem verPred_lt {v : Nat} (h : 1 ≤ v) : verPred v < v := by
  unfold verPred
  rw [if_neg (by simp; omega)]; omega

theorem verPred_eq {v : Nat} (h : 1 ≤ v) : verPred v = v - 1 := by
  unfold verPred
  rw [if_neg (by simp; omega)]

theorem sorted_bk (now : Nat) (items : List Ent) (hs : SortedEnts items) (hv : ∀ e ∈ items, 1 ≤ e.ver) :
    SortedEnts (bk now items) := by
  rw [sorted_iff]
  unfold bk
  rw [List.pairwise_flatMap]
  constructor
  · intro a ha
    split
    · unfold emit
      split
      · simp only [List.pairwise_cons, List.mem_singleton, List.not_mem_nil, false_imp_iff, implies_true,
          List.Pairwise.nil, and_true, forall_eq]
        exact .inr ⟨rfl, verPred_lt (hv a ha)⟩
      · simp
    · exact List.Pairwise.nil
  · refine List.Pairwise.imp_of_mem ?_ ((sorted_iff _).mp hs)
    intro a b ha hb hab x hx y hy
    split at hx
    · split at hy
      · rename_i hlb
        have hxk : x.key = a.key := by
          rcases mem_emit.mp hx with rfl | ⟨_, rfl⟩ <;> rfl
        have hyk : y.key = b.key := by
          rcases mem_emit.mp hy with rfl | ⟨_, rfl⟩ <;> rfl
        have hyv : y.ver ≤ b.ver := by
          rcases mem_emit.mp hy with rfl | ⟨_, rfl⟩
          · exact Nat.le_refl _
          · exact Nat.le_of_lt (verPred_lt (hv b hb))
        rcases hab with hab | ⟨hk, hvab⟩
        · exact .inl (by rw [hxk, hyk]; exact hab)
        · refine .inr ⟨by rw [hxk, hyk, hk], ?_⟩
          rcases mem_emit.mp hx with rfl | ⟨hde, rfl⟩
          · show y.ver < a.ver
            omega
          · exfalso
            have hb' : bdry now a = true := by unfold bdry; rw [hde]; simp
            have := (live_iff now items b).mp hlb a ha hk hvab
            rw [this] at hb'; cases hb'
      · simp at hy
    · simp at hx

end BL
end Badger
