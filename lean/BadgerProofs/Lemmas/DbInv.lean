import BadgerProofs.Lemmas.WmMvcc
/-!
# Invariants of the transaction bookkeeping of `Db` in normal (non-managed) mode

`InvW w n ts` relates the read watermark `w`, the next timestamp `n` and the transaction table
`ts`: every transaction that has not yet released its read mark is counted in the watermark, so
`doneUntil` (= `discardAtOrBelow` in normal mode) cannot pass its read timestamp.
-/
namespace Badger
namespace DbL

/-- a transaction still holds its read mark -/
def isOpen (i : Nat) (t : TxnM) : Bool := !t.doneRead && t.readTs == i

def openCount (ts : List TxnM) (i : Nat) : Int := (ts.countP (isOpen i) : Int)

structure TxnOk (n : Nat) (t : TxnM) : Prop where
  lt : t.readTs < n
  doneDisc : t.doneRead = true → t.discarded = true
  keys : t.pending.Pairwise (fun a b => a.key ≠ b.key)
  vers : ∀ e ∈ t.pending, e.ver = 0
  nodups : t.dups = []

structure InvW (w : Wm) (n : Nat) (ts : List TxnM) : Prop where
  ok : WmL.Ok w
  untilLt : w.doneUntil < n
  pendLt : ∀ x ∈ w.pend, x.1 < n
  count : ∀ i, openCount ts i ≤ WmL.pendSum w.pend i
  txns : ∀ t ∈ ts, TxnOk n t

theorem TxnOk.mono {n m : Nat} {t : TxnM} (h : TxnOk n t) (hnm : n ≤ m) : TxnOk m t :=
  ⟨by have := h.lt; omega, h.doneDisc, h.keys, h.vers, h.nodups⟩

theorem InvW.mono {w : Wm} {n m : Nat} {ts : List TxnM} (h : InvW w n ts) (hnm : n ≤ m) : InvW w m ts :=
  ⟨h.ok, by have := h.untilLt; omega, fun x hx => by have := h.pendLt x hx; omega, h.count,
    fun t ht => (h.txns t ht).mono hnm⟩

/-- the table after `setTxn t'` -/
def replaced (ts : List TxnM) (t' : TxnM) : List TxnM := t' :: ts.filter (·.id != t'.id)

theorem countP_filter_le {α : Type} (l : List α) (p q : α → Bool) : (l.filter p).countP q ≤ l.countP q := by
  induction l with
  | nil => simp
  | cons x xs ih =>
    by_cases hp : p x
    · simp only [List.filter_cons, hp, if_true, List.countP_cons]; omega
    · simp only [List.filter_cons, hp, List.countP_cons]; simp; omega

theorem countP_filter_mem {α : Type} (l : List α) (p q : α → Bool) (t : α) (ht : t ∈ l) (hp : p t = false) :
    (l.filter p).countP q + (if q t then 1 else 0) ≤ l.countP q := by
  induction l with
  | nil => simp at ht
  | cons x xs ih =>
    rcases List.mem_cons.mp ht with rfl | ht'
    · have := countP_filter_le xs p q
      simp only [List.filter_cons, hp, List.countP_cons]
      simp; omega
    · have := ih ht'
      by_cases hpx : p x
      · simp only [List.filter_cons, hpx, if_true, List.countP_cons]; omega
      · simp only [List.filter_cons, hpx, List.countP_cons]; simp; omega

theorem openCount_replaced_le (ts : List TxnM) (t' : TxnM) (i : Nat) :
    openCount (replaced ts t') i ≤ (if isOpen i t' then 1 else 0) + openCount ts i := by
  unfold openCount replaced
  have := countP_filter_le ts (fun x => x.id != t'.id) (isOpen i)
  rw [List.countP_cons]
  split <;> omega

theorem openCount_replaced_mem (ts : List TxnM) (t t' : TxnM) (i : Nat) (ht : t ∈ ts) (hid : t.id = t'.id) :
    openCount (replaced ts t') i + (if isOpen i t then 1 else 0) ≤ (if isOpen i t' then 1 else 0) + openCount ts i := by
  unfold openCount replaced
  have := countP_filter_mem ts (fun x => x.id != t'.id) (isOpen i) t ht (by simp [hid])
  rw [List.countP_cons]
  split <;> split <;> split at this <;> omega

theorem mem_replaced {ts : List TxnM} {t' x : TxnM} (h : x ∈ replaced ts t') : x = t' ∨ x ∈ ts := by
  unfold replaced at h
  rcases List.mem_cons.mp h with h | h
  · left; exact h
  · right; exact (List.mem_filter.mp h).1

/-- replacing a transaction by one that holds no more of the read mark than before -/
theorem InvW.replace {w : Wm} {n : Nat} {ts : List TxnM} (h : InvW w n ts) {t t' : TxnM} (ht : t ∈ ts)
    (hid : t.id = t'.id) (hok : TxnOk n t') (hopen : ∀ i, isOpen i t' = true → isOpen i t = true) :
    InvW w n (replaced ts t') := by
  refine ⟨h.ok, h.untilLt, h.pendLt, ?_, ?_⟩
  · intro i
    have h1 := openCount_replaced_mem ts t t' i ht hid
    have h2 := h.count i
    by_cases ho : isOpen i t' = true
    · have := hopen i ho
      simp only [ho, this, if_true] at h1; omega
    · have ho : isOpen i t' = false := by simpa using ho
      simp only [ho] at h1
      split at h1 <;> simp at h1 <;> omega
  · intro x hx
    rcases mem_replaced hx with rfl | hx
    · exact hok
    · exact h.txns x hx

theorem until_lt_of {w w' : Wm} {n : Nat} (hu : w'.doneUntil = w.doneUntil ∨ ∃ x ∈ w.pend, x.1 = w'.doneUntil)
    (h1 : w.doneUntil < n) (h2 : ∀ x ∈ w.pend, x.1 < n) : w'.doneUntil < n := by
  rcases hu with h | ⟨x, hx, he⟩
  · omega
  · have := h2 x hx; omega

/-- `newTransaction`: a new transaction at `n - 1` takes a read mark -/
theorem InvW.begin {w : Wm} {n : Nat} {ts : List TxnM} (h : InvW w n ts) (hn : 0 < n) (t' : TxnM)
    (hrt : t'.readTs = n - 1) (hok : TxnOk n t') : InvW (w.begin (n - 1)) n (replaced ts t') := by
  have hle : w.doneUntil ≤ n - 1 := by have := h.untilLt; omega
  have hb : ∀ x ∈ (w.bump (n - 1) 1).pend, x.1 < n := by
    intro x hx
    rcases WmL.ins_mem hx with h1 | h1
    · omega
    · exact h.pendLt x h1
  refine ⟨WmL.begin_ok h.ok _ hle, ?_, ?_, ?_, ?_⟩
  · exact until_lt_of (WmL.advance_until (w.bump (n - 1) 1)) h.untilLt hb
  · intro x hx
    rcases WmL.begin_mem h.ok _ hle hx with h1 | h1
    · omega
    · exact h.pendLt x h1
  · intro i
    have h1 := openCount_replaced_le ts t' i
    have h2 := h.count i
    have h3 := WmL.begin_sum h.ok (n - 1) hle i
    by_cases ho : isOpen i t' = true
    · have : i = n - 1 := by
        unfold isOpen at ho
        simp at ho
        omega
      simp only [ho, if_true] at h1
      simp only [this, if_true] at h3 h2 h1 ⊢
      omega
    · have ho : isOpen i t' = false := by simpa using ho
      simp only [ho] at h1
      split at h3 <;> simp at h1 <;> omega
  · intro x hx
    rcases mem_replaced hx with rfl | hx
    · exact hok
    · exact h.txns x hx

/-- a transaction that still held its read mark releases it (`doneRead`) and is replaced -/
theorem InvW.finish {w : Wm} {n : Nat} {ts : List TxnM} (h : InvW w n ts) {t t' : TxnM} (ht : t ∈ ts)
    (hid : t.id = t'.id) (hopen : t.doneRead = false) (hdone : t'.doneRead = true) (hok : TxnOk n t') :
    InvW (w.done t.readTs) n (replaced ts t') := by
  have hpos : 0 < WmL.pendSum w.pend t.readTs := by
    have h1 := h.count t.readTs
    have : 1 ≤ openCount ts t.readTs := by
      unfold openCount
      have : 0 < ts.countP (isOpen t.readTs) := List.countP_pos_iff.mpr ⟨t, ht, by simp [isOpen, hopen]⟩
      omega
    omega
  have hle : w.doneUntil ≤ t.readTs := WmL.doneUntil_le_of_pos h.ok hpos
  have hlt : t.readTs < n := (h.txns t ht).lt
  have hb : ∀ x ∈ (w.bump t.readTs (-1)).pend, x.1 < n := by
    intro x hx
    rcases WmL.ins_mem hx with h1 | h1
    · omega
    · exact h.pendLt x h1
  refine ⟨WmL.done_ok h.ok _ hle, ?_, ?_, ?_, ?_⟩
  · exact until_lt_of (WmL.advance_until (w.bump t.readTs (-1))) h.untilLt hb
  · intro x hx
    rcases WmL.done_mem h.ok _ hle hx with h1 | h1
    · omega
    · exact h.pendLt x h1
  · intro i
    have h1 := openCount_replaced_mem ts t t' i ht hid
    have h2 := h.count i
    have h3 := WmL.done_sum h.ok t.readTs hle i
    have ho' : isOpen i t' = false := by simp [isOpen, hdone]
    simp only [ho'] at h1
    by_cases hi : i = t.readTs
    · have ho : isOpen i t = true := by simp [isOpen, hopen, hi]
      simp only [ho, if_true] at h1
      simp only [hi, if_true] at h3 h2 h1 ⊢
      simp at h1
      omega
    · simp only [hi, if_false] at h3
      split at h1 <;> simp at h1 <;> omega
  · intro x hx
    rcases mem_replaced hx with rfl | hx
    · exact hok
    · exact h.txns x hx

/-- a transaction that holds its read mark keeps `doneUntil` at or below its read timestamp -/
theorem InvW.until_le {w : Wm} {n : Nat} {ts : List TxnM} (h : InvW w n ts) {t : TxnM} (ht : t ∈ ts)
    (hopen : t.doneRead = false) : w.doneUntil ≤ t.readTs := by
  have h1 := h.count t.readTs
  have : 0 < ts.countP (isOpen t.readTs) := List.countP_pos_iff.mpr ⟨t, ht, by simp [isOpen, hopen]⟩
  apply WmL.doneUntil_le_of_pos h.ok
  unfold openCount at h1
  omega

end DbL
end Badger
