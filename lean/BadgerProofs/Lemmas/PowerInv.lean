import BadgerProofs.Lemmas.PowerFs
import BadgerProofs.Lemmas.PowerRecover
import BadgerProofs.Lemmas.CrashMain
/-!
# The invariant that ties the logical state of the protocol machine to the power-loss view
# (`PInv`), by region of the directory. It sits on top of the kill invariant `Inv` (stated on
# the `fv` component of the view).
-/
namespace Badger

/-! ## pointwise updates of the power view -/

def qupd (Q : QFs) (p : Path) (v : PV) : QFs := fun q => if q = p then v else Q q

@[simp] theorem qupd_same (Q : QFs) (p : Path) (v : PV) : qupd Q p v p = v := by simp [qupd]
theorem qupd_ne (Q : QFs) (p q : Path) (v : PV) (h : q ≠ p) : qupd Q p v q = Q q := by simp [qupd, h]

def memQ (Q : QFs) : Nat → PV := fun n => Q (.mem n)
def sstQ (Q : QFs) : Nat → PV := fun n => Q (.sst n)

@[simp] theorem memQ_qupd_sst (Q : QFs) (i : Nat) (v : PV) : memQ (qupd Q (.sst i) v) = memQ Q := by
  funext n; simp [memQ, qupd]
@[simp] theorem memQ_qupd_vlog (Q : QFs) (i : Nat) (v : PV) : memQ (qupd Q (.vlog i) v) = memQ Q := by
  funext n; simp [memQ, qupd]
@[simp] theorem memQ_qupd_manifest (Q : QFs) (v : PV) : memQ (qupd Q .manifest v) = memQ Q := by
  funext n; simp [memQ, qupd]
@[simp] theorem sstQ_qupd_mem (Q : QFs) (i : Nat) (v : PV) : sstQ (qupd Q (.mem i) v) = sstQ Q := by
  funext n; simp [sstQ, qupd]
@[simp] theorem sstQ_qupd_vlog (Q : QFs) (i : Nat) (v : PV) : sstQ (qupd Q (.vlog i) v) = sstQ Q := by
  funext n; simp [sstQ, qupd]
@[simp] theorem sstQ_qupd_manifest (Q : QFs) (v : PV) : sstQ (qupd Q .manifest v) = sstQ Q := by
  funext n; simp [sstQ, qupd]
theorem memQ_qupd_mem (Q : QFs) (i : Nat) (v : PV) :
    memQ (qupd Q (.mem i) v) = fun n => if n = i then v else memQ Q n := by
  funext n; simp [memQ, qupd]
theorem sstQ_qupd_sst (Q : QFs) (i : Nat) (v : PV) :
    sstQ (qupd Q (.sst i) v) = fun n => if n = i then v else sstQ Q n := by
  funext n; simp [sstQ, qupd]

/-- the view of a name after `z.MmapFile.Delete` (ftruncate(0) + unlink) -/
def delPV (v : PV) : PV :=
  { fv := none, fd := none, dv := if v.lk then v.fv.map (truncChunks 0) else v.dv, dd := v.dd,
    lk := (if v.lk then v.fv.map (truncChunks 0) else v.dv).isNone }

def syncDirQ (Q : QFs) : QFs := fun q => { Q q with dv := (Q q).fv, dd := (Q q).fd, lk := true }

theorem qrun_mkFile (Q : QFs) (p : Path) :
    qrun Q (mkFile p) = qupd Q p { fv := some { chunks := [], size := .alloc }, fd := some { chunks := [], size := .alloc },
                                   dv := (Q p).dv, dd := (Q p).dd, lk := false } := by
  funext q
  simp only [mkFile, qrun_cons, qrun_nil, qstep, qupd]
  by_cases h : q = p <;> simp [h, PV.setV, PV.setD]

theorem qrun_delFile (Q : QFs) (p : Path) : qrun Q (delFile p) = qupd Q p (delPV (Q p)) := by
  funext q
  simp only [delFile, qrun_cons, qrun_nil, qstep, qupd, delPV]
  by_cases h : q = p <;> simp [h, PV.setV]

theorem qrun_append1 (Q : QFs) (p : Path) (c : Chunk) :
    qrun Q [.append p c] = qupd Q p ((Q p).setV ((Q p).fv.map (appendChunk c))) := rfl
theorem qrun_truncate1 (Q : QFs) (p : Path) (n : Nat) :
    qrun Q [.truncate p n] = qupd Q p ((Q p).setV ((Q p).fv.map (truncChunks n))) := rfl
theorem qrun_sync1 (Q : QFs) (p : Path) : qrun Q [.sync p] = qupd Q p ((Q p).setD (Q p).fv) := rfl
@[simp] theorem qrun_zero1 (Q : QFs) (p : Path) : qrun Q [.zero p] = Q := rfl
theorem qrun_syncDir1 (Q : QFs) : qrun Q [.syncDir] = syncDirQ Q := rfl

theorem fvOf_qupd (Q : QFs) (p : Path) (v : PV) : fvOf (qupd Q p v) = upd (fvOf Q) p v.fv := by
  funext q; simp only [fvOf, qupd, upd]; by_cases h : q = p <;> simp [h]

/-! ## facts about the view that hold whatever the protocol does -/

def zcOk (o : Option Inode) : Prop := ∀ f, o = some f → f.size = .zero → f.chunks = []

structure PVOk (v : PV) : Prop where
  lkv : v.lk = true → v.dv = v.fv
  lkd : v.lk = true → v.dd = v.fd
  fvd : v.fv.isNone = v.fd.isNone
  dvd : v.dv.isNone = v.dd.isNone
  z1 : zcOk v.fv
  z2 : zcOk v.fd
  z3 : zcOk v.dv
  z4 : zcOk v.dd

def QOk (Q : QFs) : Prop := ∀ p, PVOk (Q p)

theorem zcOk_none : zcOk none := by intro f h; cases h
theorem zcOk_map_append (c : Chunk) (o : Option Inode) : zcOk (o.map (appendChunk c)) := by
  intro f h hz
  cases o with
  | none => cases h
  | some g =>
    simp only [Option.map_some, Option.some.injEq] at h
    subst h
    exact absurd hz (by unfold appendChunk; by_cases h : g.size = .alloc <;> simp [h])
theorem zcOk_map_trunc (n : Nat) (o : Option Inode) : zcOk (o.map (truncChunks n)) := by
  intro f h hz
  cases o with
  | none => cases h
  | some g =>
    simp only [Option.map_some, Option.some.injEq] at h
    subst h
    by_cases hn : n = 0
    · subst hn; simp [truncChunks]
    · simp [truncChunks, hn] at hz

theorem PVOk_setV (v : PV) (h : PVOk v) (f : Option Inode) (hf : f.isNone = v.fv.isNone) (hz : zcOk f) :
    PVOk (v.setV f) := by
  by_cases hl : v.lk = true
  · exact ⟨fun _ => by simp [PV.setV, hl], fun _ => by simpa [PV.setV] using h.lkd hl,
      by simpa [PV.setV, hf] using h.fvd,
      by simp only [PV.setV, hl, if_true]; rw [hf, h.fvd, ← h.lkd hl],
      hz, h.z2, by simpa [PV.setV, hl] using hz, h.z4⟩
  · have hl' : v.lk = false := by simpa using hl
    exact ⟨fun e => by simp [PV.setV, hl'] at e, fun e => by simp [PV.setV, hl'] at e,
      by simpa [PV.setV, hf] using h.fvd, by simpa [PV.setV, hl'] using h.dvd,
      hz, h.z2, by simpa [PV.setV, hl'] using h.z3, h.z4⟩

theorem PVOk_setD (v : PV) (h : PVOk v) (f : Option Inode) (hf : f.isNone = v.fd.isNone) (hz : zcOk f) :
    PVOk (v.setD f) := by
  by_cases hl : v.lk = true
  · exact ⟨fun _ => by simpa [PV.setD] using h.lkv hl, fun _ => by simp [PV.setD, hl],
      by simpa [PV.setD, hf] using h.fvd,
      by simp only [PV.setD, hl, if_true]; rw [hf, ← h.fvd, ← h.lkv hl],
      h.z1, hz, h.z3, by simpa [PV.setD, hl] using hz⟩
  · have hl' : v.lk = false := by simpa using hl
    exact ⟨fun e => by simp [PV.setD, hl'] at e, fun e => by simp [PV.setD, hl'] at e,
      by simpa [PV.setD, hf] using h.fvd, by simpa [PV.setD, hl'] using h.dvd,
      h.z1, hz, h.z3, by simpa [PV.setD, hl'] using h.z4⟩

theorem QOk_qstep (Q : QFs) (h : QOk Q) (op : FsOp) (hr : op.isRename = false) : QOk (qstep Q op) := by
  intro q
  cases op with
  | rename a b => cases hr
  | create p =>
    simp only [qstep]
    by_cases hq : q = p
    · subst hq
      simp only [if_true]
      have hv := h q
      exact ⟨(fun e => by cases e), (fun e => by cases e), rfl, hv.dvd,
        (by intro f hf _; cases hf; rfl), (by intro f hf _; cases hf; rfl), hv.z3, hv.z4⟩
    · simp only [hq, if_false]; exact h q
  | extend p =>
    simp only [qstep]
    by_cases hq : q = p
    · subst hq
      simp only [if_true]
      cases hf : (Q q).fv with
      | none => simp only; exact h q
      | some f =>
        simp only
        have h1 := PVOk_setV (Q q) (h q) (some { f with size := .alloc }) (by simp [hf]) (by
          intro g hg hz; cases hg; simp at hz)
        refine PVOk_setD _ h1 (some { chunks := [], size := .alloc }) ?_ (by intro g hg _; cases hg; rfl)
        have := h1.fvd
        simp only [PV.setV] at this ⊢
        rw [← this]; rfl
    · simp only [hq, if_false]; exact h q
  | append p c =>
    simp only [qstep]
    by_cases hq : q = p
    · subst hq; simp only [if_true]
      exact PVOk_setV _ (h q) _ (by cases (Q q).fv <;> rfl) (zcOk_map_append _ _)
    · simp only [hq, if_false]; exact h q
  | zero p => exact h q
  | truncate p n =>
    simp only [qstep]
    by_cases hq : q = p
    · subst hq; simp only [if_true]
      exact PVOk_setV _ (h q) _ (by cases (Q q).fv <;> rfl) (zcOk_map_trunc _ _)
    · simp only [hq, if_false]; exact h q
  | sync p =>
    simp only [qstep]
    by_cases hq : q = p
    · subst hq; simp only [if_true]
      exact PVOk_setD _ (h q) _ (h q).fvd (h q).z1
    · simp only [hq, if_false]; exact h q
  | unlink p =>
    simp only [qstep]
    by_cases hq : q = p
    · subst hq; simp only [if_true]
      have hv := h q
      refine ⟨?_, ?_, rfl, hv.dvd, zcOk_none, zcOk_none, hv.z3, hv.z4⟩
      · intro e
        have e' : (Q q).dv.isNone = true := e
        cases hd : (Q q).dv with
        | none => rfl
        | some _ => rw [hd] at e'; cases e'
      · intro e
        have e' : (Q q).dv.isNone = true := e
        have := hv.dvd
        rw [e'] at this
        cases hd : (Q q).dd with
        | none => rfl
        | some _ => rw [hd] at this; cases this
    · simp only [hq, if_false]; exact h q
  | syncDir =>
    simp only [qstep]
    have hv := h q
    exact ⟨fun _ => rfl, fun _ => rfl, hv.fvd, hv.fvd, hv.z1, hv.z2, hv.z1, hv.z2⟩

theorem QOk_qrun (Q : QFs) (h : QOk Q) (ops : List FsOp) (hr : ∀ op ∈ ops, op.isRename = false) :
    QOk (qrun Q ops) := by
  induction ops generalizing Q with
  | nil => exact h
  | cons op ops ih =>
    exact ih _ (QOk_qstep Q h op (hr op List.mem_cons_self)) (fun o ho => hr o (List.mem_cons_of_mem _ ho))

/-! ## the invariant -/

def isTable (o : Option Inode) (es : List CEnt) : Prop := ∃ f, o = some f ∧ f.chunks = [.table es]

def tablesEnts (tcont : List (Nat × List CEnt)) (t : List (Nat × Nat)) : List CEnt :=
  (t.map (fun x => entsOfTable tcont x.1)).flatten
def immsEnts (mtxns : List (Nat × List Txn)) (imm : List Nat) : List CEnt :=
  (imm.map (entsOfMem mtxns)).flatten

/-- the complete transactions in the active memtable's WAL -/
def PState.curT (s : PState) : List Txn := if s.curOpen then (aget s.cur s.mtxns).getD [] else []

/-- the MANIFEST: bound durably; its page-cache content replays to `tset`, its durable content to
    `tsetD` -/
structure PMan (tset tsetD : List (Nat × Nat)) (mdirty : Bool) (v : PV) : Prop where
  lk : v.lk = true
  vol : ∃ sets sz, v.fv = some { chunks := .mhdr :: sets, size := sz } ∧ replayMSets [] sets = some tset
  dur : ∃ sets sz, v.fd = some { chunks := .mhdr :: sets, size := sz } ∧ replayMSets [] sets = some tsetD
  clean : mdirty = false → tsetD = tset

/-- the `.sst` files -/
structure PSst (tset tsetD : List (Nat × Nat)) (tcont : List (Nat × List CEnt)) (imm : List Nat)
    (mtxns : List (Nat × List Txn)) (fpc fsst nextSst : Nat) (kout : List KOut) (kdir : Bool)
    (Qs : Nat → PV) : Prop where
  tables : ∀ id, ((aget id tset).isSome ∨ (aget id tsetD).isSome) →
    (Qs id).lk = true ∧ isTable (Qs id).fv (entsOfTable tcont id) ∧ isTable (Qs id).fd (entsOfTable tcont id)
  dLt : ∀ n, nextSst ≤ n → aget n tsetD = none
  fl3 : ∀ k, imm.head? = some k → 3 ≤ fpc → fpc ≤ 4 → isTable (Qs fsst).fd (entsOfMem mtxns k)
  fl4 : imm ≠ [] → fpc = 4 → (Qs fsst).lk = true
  fl6 : imm ≠ [] → 6 ≤ fpc → (aget fsst tsetD).isSome
  kout3 : ∀ o ∈ kout, o.stage = 3 → isTable (Qs o.id).fd o.ents
  kdirOk : kdir = true → ∀ o ∈ kout, 1 ≤ o.stage ∧ (Qs o.id).lk = true

/-- the `.mem` files -/
structure PMem (imm : List Nat) (curOpen : Bool) (cur nextMem : Nat) (mtxns : List (Nat × List Txn))
    (curDirty curDurEntry : Bool) (pendU : List (Nat × Nat)) (acked done : Nat)
    (tset tsetD : List (Nat × Nat)) (tcont : List (Nat × List CEnt)) (Qm : Nat → PV) : Prop where
  immP : ∀ k ∈ imm, (Qm k).lk = true ∧ ∃ f, (Qm k).fd = some f ∧ (replayLog f.chunks).ents = entsOfMem mtxns k
  curP : curOpen = true → ∃ f jd, (Qm cur).fd = some f ∧ jd ≤ ((aget cur mtxns).getD []).length ∧
    (replayLog f.chunks).ents = txnsEnts (((aget cur mtxns).getD []).take jd) ∧
    (curDirty = false → jd = ((aget cur mtxns).getD []).length) ∧
    acked + ((aget cur mtxns).getD []).length ≤ done + jd ∧
    (curDurEntry = true → (Qm cur).lk = true) ∧
    ((Qm cur).lk = false → (Qm cur).dv = none ∧ (Qm cur).dd = none ∧
      acked + ((aget cur mtxns).getD []).length ≤ done)
  deadP : ∀ n, n ∉ imm → ¬ (curOpen = true ∧ n = cur) →
    ((Qm n).dv = none ∧ (Qm n).dd = none) ∨
    ((∃ t, (n, t) ∈ pendU) ∧ ∀ f, ((Qm n).dv = some f ∨ (Qm n).dd = some f) →
      ∀ e ∈ (replayLog f.chunks).ents, e ∈ entsOfMem mtxns n)
  pend : ∀ x ∈ pendU, x.1 < nextMem ∧ x.1 ∉ imm ∧ (curOpen = true → x.1 ≠ cur) ∧
    ∀ e ∈ entsOfMem mtxns x.1, (aget x.2 tset).isSome ∧ (aget x.2 tsetD).isSome ∧ e ∈ entsOfTable tcont x.2

/-- the visible state without the active memtable, for both states of the MANIFEST -/
structure PLogic (R : ViewRel) (commits : List Txn) (done : Nat) (curT : List Txn)
    (tcont : List (Nat × List CEnt)) (tset tsetD : List (Nat × Nat)) (mtxns : List (Nat × List Txn))
    (imm : List Nat) : Prop where
  curLe : curT.length ≤ done
  link : commits.take done = commits.take (done - curT.length) ++ curT
  baseV : R.r (tablesEnts tcont tset ++ immsEnts mtxns imm) (txnsEnts (commits.take (done - curT.length)))
  baseD : R.r (tablesEnts tcont tsetD ++ immsEnts mtxns imm) (txnsEnts (commits.take (done - curT.length)))

structure PCore (R : ViewRel) (s : PState) (Q : QFs) : Prop where
  man : PMan s.tset s.tsetD s.mdirty (Q .manifest)
  sst : PSst s.tset s.tsetD s.tcont s.imm s.mtxns s.fpc s.fsst s.nextSst s.kout s.kdir (sstQ Q)
  mem : PMem s.imm s.curOpen s.cur s.nextMem s.mtxns s.curDirty s.curDurEntry s.pendU s.acked s.done
    s.tset s.tsetD s.tcont (memQ Q)
  logic : PLogic R s.commits s.done s.curT s.tcont s.tset s.tsetD s.mtxns s.imm

structure PInv (R : ViewRel) (s : PState) (Q : QFs) : Prop where
  fix : s.cfg.dirSyncFix = true
  sw : s.cfg.syncWrites = true
  qok : QOk Q
  core : PCore R s Q

end Badger
