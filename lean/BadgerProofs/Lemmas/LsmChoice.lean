import BadgerModel.Picker
import BadgerProofs.Lemmas.LsmReads
/-!
# The production pickers' structural constraints (`validChoice`, BadgerModel/Picker.lean) imply the
hypotheses of the compaction theorems: `CompactOk`, and — with the shape of L0 that the engine
maintains (`L0SF`) — `TopsOldest`.
-/
namespace Badger
namespace LL

theorem validChoice_cases {s : Lsm} {cd : CompactDef} (hv : validChoice s cd = true) (htop : cd.top ≠ []) :
    (cd.thisLevel = 0 ∧ cd.nextLevel = 0 ∧ cd.bot = [] ∧ 4 ≤ cd.top.length) ∨
    (cd.thisLevel = 0 ∧ cd.nextLevel ≠ 0 ∧
      cd.top = List.range (if cd.dropPrefixes.isEmpty then l0PickLen (cdThisT s cd) else (cdThisT s cd).length) ∧
      cd.bot = overlapIdx (cdNextT s cd) (rangeOfTables (cdTops s cd)) ∧
      ((List.range cd.nextLevel).drop 1).any (fun j => !(s.levels.getD j []).isEmpty) = false) ∨
    (cd.thisLevel ≠ 0 ∧ cd.thisLevel = cd.nextLevel ∧ ∃ i, cd.top = [i] ∧ isContiguousFrom cd.bot = true ∧
      (cd.bot = [] ∨ cd.bot.head? = some (i + 1))) ∨
    (cd.thisLevel ≠ 0 ∧ cd.nextLevel = cd.thisLevel + 1 ∧ ∃ i, cd.top = [i] ∧
      cd.bot = overlapIdx (cdNextT s cd) (rangeOfTables (cdTops s cd))) := by
  unfold validChoice choiceProblem at hv
  simp only at hv
  have he : cd.top.isEmpty = false := by cases h : cd.top with | nil => exact absurd h htop | cons _ _ => rfl
  rw [he] at hv
  simp only [Bool.false_eq_true, if_false] at hv
  by_cases h0 : cd.thisLevel = 0
  · by_cases hn : cd.nextLevel = 0
    · left
      simp only [h0, hn, beq_self_eq_true, Bool.and_self, if_true] at hv
      split at hv
      · simp at hv
      · split at hv
        · simp at hv
        · rename_i hb hl
          refine ⟨h0, hn, ?_, by omega⟩
          cases hbb : cd.bot with
          | nil => rfl
          | cons _ _ => rw [hbb] at hb; simp at hb
    · right; left
      have hn' : (cd.nextLevel == 0) = false := by simpa using hn
      simp only [h0, hn', beq_self_eq_true, Bool.and_false, Bool.false_eq_true, if_false, if_true] at hv
      unfold cdNextT cdTops cdThisT
      rw [h0]
      generalize (if cd.dropPrefixes.isEmpty then l0PickLen (s.levels.getD 0 [])
        else (s.levels.getD 0 []).length) = n at hv ⊢
      split at hv
      · simp at hv
      · split at hv
        · simp at hv
        · split at hv
          · simp at hv
          · rename_i ht hb hbt
            refine ⟨rfl, hn, ?_, ?_, ?_⟩
            · simpa using ht
            · simpa using hb
            · simpa using hbt
  · have h0' : (cd.thisLevel == 0) = false := by simpa using h0
    simp only [h0', Bool.false_and, Bool.false_eq_true, if_false] at hv
    by_cases hsame : cd.thisLevel = cd.nextLevel
    · right; right; left
      have : (cd.thisLevel == cd.nextLevel) = true := by simpa using hsame
      simp only [this, if_true] at hv
      split at hv
      · rename_i i htp
        split at hv
        · rename_i hc
          simp only [Bool.and_eq_true, Bool.or_eq_true, beq_iff_eq] at hc
          refine ⟨h0, hsame, i, htp, hc.1, ?_⟩
          rcases hc.2 with h1 | h1
          · left
            cases hbb : cd.bot with
            | nil => rfl
            | cons _ _ => rw [hbb] at h1; simp at h1
          · exact .inr h1
        · simp at hv
      · simp at hv
    · right; right; right
      have : (cd.thisLevel == cd.nextLevel) = false := by simpa using hsame
      simp only [this, Bool.false_eq_true, if_false] at hv
      split at hv
      · rename_i hnx
        split at hv
        · rename_i i htp
          split at hv
          · simp at hv
          · rename_i hb
            refine ⟨h0, by simpa using hnx, i, htp, ?_⟩
            unfold cdNextT cdTops cdThisT; simpa using hb
        · simp at hv
      · simp at hv


theorem foldl_sel_mem {α : Type} (p : α → α → Bool) (s : α) (ss : List α) :
    ss.foldl (fun a x => if p x a then x else a) s ∈ s :: ss := by
  induction ss generalizing s with
  | nil => simp
  | cons x ss ih =>
    simp only [List.foldl_cons]
    have := ih (if p x s then x else s)
    rcases List.mem_cons.mp this with h | h
    · rw [h]; split <;> simp
    · exact List.mem_cons_of_mem _ (List.mem_cons_of_mem _ h)

theorem keyRangeOf_mem {ts : List Tbl} {lo hi : Ent} (h : keyRangeOf ts = some (lo, hi)) :
    (∃ t ∈ ts, ∃ x ∈ t.ents, x.key = lo.key) ∧ (∃ t ∈ ts, ∃ x ∈ t.ents, x.key = hi.key) := by
  unfold keyRangeOf at h
  simp only at h
  split at h
  · rename_i s ss b bs hs hb
    have h := Option.some.inj h
    have hlo := congrArg Prod.fst h
    have hhi := congrArg Prod.snd h
    simp only at hlo hhi
    constructor
    · have hm := foldl_sel_mem (fun x a => entCmp x a == .lt) s ss
      rw [← hs] at hm
      obtain ⟨t, ht, hts⟩ := List.mem_filterMap.mp hm
      exact ⟨t, ht, _, smallest_mem hts, by rw [← hlo]⟩
    · have hm := foldl_sel_mem (fun x a => entCmp x a == .gt) b bs
      rw [← hb] at hm
      obtain ⟨t, ht, hts⟩ := List.mem_filterMap.mp hm
      exact ⟨t, ht, _, biggest_mem hts, by rw [← hhi]⟩
  · simp at h

/-- the two range computations (`keyRangeOf` on internal keys, `rangeOfTables` on user keys) agree -/
theorem rangeOfTables_eq {ts : List Tbl} (hok : ∀ t ∈ ts, TblOk t) {lo hi : Ent}
    (hkr : keyRangeOf ts = some (lo, hi)) : rangeOfTables ts = some (lo.key, hi.key) := by
  obtain ⟨_, _, hcov⟩ := keyRangeOf_cover hok hkr
  obtain ⟨⟨t1, ht1, x1, hx1, e1⟩, ⟨t2, ht2, x2, hx2, e2⟩⟩ := keyRangeOf_mem hkr
  have hsp := rangeOfTables_spec hok
  cases hr : rangeOfTables ts with
  | none =>
    rw [hr] at hsp; unfold RangeOf at hsp; subst hsp; simp at ht1
  | some p =>
    obtain ⟨klo, khi⟩ := p
    rw [hr] at hsp
    obtain ⟨h1, ⟨ta, hta, xa, hxa, ea⟩, ⟨tb, htb, xb, hxb, eb⟩⟩ := hsp
    have hlo : klo = lo.key := by
      apply kle_antisymm
      · rw [← e1]; exact (h1 t1 ht1 x1 hx1).1
      · rw [← ea]; exact (hcov ta hta xa hxa).1
    have hhi : khi = hi.key := by
      apply kle_antisymm
      · rw [← eb]; exact (hcov tb htb xb hxb).2
      · rw [← e2]; exact (h1 t2 ht2 x2 hx2).2
    rw [hlo, hhi]


theorem takeWhile_length_le {α : Type} (l : List α) (p : α → Bool) : (l.takeWhile p).length ≤ l.length :=
  (List.takeWhile_sublist p).length_le

theorem takeWhile_length_lt_iff {α : Type} (l : List α) (p : α → Bool)
    (hmono : ∀ i j (hi : i < l.length) (hj : j < l.length), i < j → p l[j] = true → p l[i] = true)
    (j : Nat) (hj : j < l.length) : j < (l.takeWhile p).length ↔ p l[j] = true := by
  induction l generalizing j with
  | nil => simp at hj
  | cons x xs ih =>
    rw [List.takeWhile_cons]
    by_cases hx : p x = true
    · rw [if_pos hx]
      cases j with
      | zero => simp [hx]
      | succ j =>
        simp only [List.length_cons, Nat.add_lt_add_iff_right, List.getElem_cons_succ]
        apply ih
        intro i j' hi hj' hlt hp
        exact hmono (i + 1) (j' + 1) (by simpa using hi) (by simpa using hj') (by omega) hp
    · rw [if_neg hx]
      simp only [List.length_nil, Nat.not_lt_zero, false_iff]
      intro hp
      cases j with
      | zero => exact hx hp
      | succ j => exact hx (hmono 0 (j + 1) (by simp) hj (by omega) hp)

theorem window_spec {α : Type} (l : List α) (p1 p2 : α → Bool) (A B : Nat → Prop)
    (hq1 : ∀ j (hj : j < l.length), p1 l[j] = true ↔ A j) (hq2 : ∀ j (hj : j < l.length), p2 l[j] = true ↔ B j)
    (monoA : ∀ i j, i < j → j < l.length → A j → A i) (monoB : ∀ i j, i < j → j < l.length → B j → B i) :
    (List.range (l.takeWhile p2).length).drop (l.takeWhile p1).length =
        List.range' (l.takeWhile p1).length ((l.takeWhile p2).length - (l.takeWhile p1).length) ∧
      (l.takeWhile p2).length ≤ l.length ∧
      ∀ j, j < l.length →
        (j ∈ (List.range (l.takeWhile p2).length).drop (l.takeWhile p1).length ↔ ¬ A j ∧ B j) := by
  have heq : (List.range (l.takeWhile p2).length).drop (l.takeWhile p1).length =
      List.range' (l.takeWhile p1).length ((l.takeWhile p2).length - (l.takeWhile p1).length) := by
    rw [List.range_eq_range', List.drop_range']; simp
  refine ⟨heq, takeWhile_length_le _ _, ?_⟩
  intro j hj
  have h1 := takeWhile_length_lt_iff l p1 (by
    intro i j' hi hj' hlt hp
    exact (hq1 i hi).mpr (monoA i j' hlt hj' ((hq1 j' hj').mp hp))) j hj
  have h2 := takeWhile_length_lt_iff l p2 (by
    intro i j' hi hj' hlt hp
    exact (hq2 i hi).mpr (monoB i j' hlt hj' ((hq2 j' hj').mp hp))) j hj
  rw [heq, List.mem_range'_1, ← hq1 j hj, ← hq2 j hj, ← h1, ← h2]
  omega

end LL

/-- what `validChoice` does not look at: the levels exist, the indices point at tables, `top` is
    listed in level order, and a same-level compaction on a level `≥ 1` is on the last level. (The
    driver computes the indices as positions of the implementation's tables.) -/
def ChoiceIdxOk (s : Lsm) (cd : CompactDef) : Prop :=
  cd.thisLevel < s.levels.length ∧ cd.nextLevel < s.levels.length ∧
  (∀ i ∈ cd.top, i < (cdThisT s cd).length) ∧ cd.top.Pairwise (· < ·) ∧
  (∀ j ∈ cd.bot, j < (cdNextT s cd).length) ∧
  (cd.thisLevel = cd.nextLevel → cd.thisLevel ≠ 0 → cd.thisLevel + 1 = s.levels.length)

instance (s : Lsm) (cd : CompactDef) : Decidable (ChoiceIdxOk s cd) := by unfold ChoiceIdxOk; infer_instance

namespace LL

def ovLeft (lo : Bytes) (t : Tbl) : Bool :=
  match t.biggest with
  | some b => cmpBytes b.key lo == .lt
  | none => true

def ovRight (hi : Bytes) (t : Tbl) : Bool :=
  match t.smallest with
  | some a => cmpBytes a.key hi != .gt
  | none => true

theorem overlapIdx_some (tbls : List Tbl) (lo hi : Bytes) :
    overlapIdx tbls (some (lo, hi)) =
      (List.range (tbls.takeWhile (ovRight hi)).length).drop (tbls.takeWhile (ovLeft lo)).length := by
  rfl

theorem range'_shape (a c : Nat) :
    List.range' a c = List.range' ((List.range' a c).headD 0) (List.range' a c).length := by
  cases c with
  | zero => simp
  | succ c => simp [List.range'_succ]

/-- on a level `≥ 1`, `overlapIdx` of the tops' user-key range is a contiguous in-range run and
    selects exactly the tables that `tblOverlaps` the tops' range -/
theorem overlapIdx_spec {s : Lsm} {cd : CompactDef} (h : LsmInv s) (hv : VerBound s)
    (hth : cd.thisLevel < s.levels.length) (hnx : cd.nextLevel < s.levels.length) (hn : 1 ≤ cd.nextLevel)
    (hne : cdTops s cd ≠ []) :
    ∃ lo hi a c, keyRangeOf (cdTops s cd) = some (lo, hi) ∧
      overlapIdx (cdNextT s cd) (rangeOfTables (cdTops s cd)) = List.range' a c ∧
      a + c ≤ (cdNextT s cd).length ∧
      ∀ j, j < (cdNextT s cd).length →
        (j ∈ overlapIdx (cdNextT s cd) (rangeOfTables (cdTops s cd)) ↔
          tblOverlaps lo hi ((cdNextT s cd).getD j default) = true) := by
  have hthis := levels_getD hth
  have hnext := levels_getD hnx
  have htok : ∀ t ∈ cdTops s cd, TblOk t := fun t ht => (h.level hthis).1 t (tops_mem ht)
  obtain ⟨lo, hi, hkr⟩ := keyRangeOf_some htok hne
  obtain ⟨hlo, hhi, _⟩ := keyRangeOf_cover htok hkr
  have hnok := h.level hnext
  have hkd := hnok.2 hn
  rw [rangeOfTables_eq htok hkr, overlapIdx_some]
  change LevelOk cd.nextLevel (cdNextT s cd) at hnok
  change KeyDisjoint (cdNextT s cd) at hkd
  change s.levels[cd.nextLevel]? = some (cdNextT s cd) at hnext
  generalize cdNextT s cd = nextT at *
  have hp := List.pairwise_iff_getElem.mp hkd
  -- per-index reading of the two scan predicates
  have hget : ∀ j (hj : j < nextT.length), ∃ a b, nextT[j].smallest = some a ∧ nextT[j].biggest = some b ∧
      a ∈ nextT[j].ents ∧ b ∈ nextT[j].ents := by
    intro j hj
    have hok := hnok.1 _ (List.getElem_mem hj)
    obtain ⟨a, ha⟩ := smallest_some hok.1
    obtain ⟨b, hb⟩ := biggest_some hok.1
    exact ⟨a, b, ha, hb, smallest_mem ha, biggest_mem hb⟩
  obtain ⟨e1, e2, e3⟩ := window_spec nextT (ovLeft lo.key) (ovRight hi.key)
    (fun j => ∀ b, (nextT.getD j default).biggest = some b → klt b.key lo.key)
    (fun j => ∀ a, (nextT.getD j default).smallest = some a → kle a.key hi.key)
    (by
      intro j hj
      obtain ⟨a, b, ha, hb, _, _⟩ := hget j hj
      have hg : nextT.getD j default = nextT[j] := by simp [List.getD_eq_getElem?_getD, List.getElem?_eq_getElem hj]
      rw [hg]
      unfold ovLeft; rw [hb]
      simp only [beq_iff_eq]
      constructor
      · intro hc b' hb'; cases hb'; exact hc
      · intro hA; exact hA b rfl)
    (by
      intro j hj
      obtain ⟨a, b, ha, hb, _, _⟩ := hget j hj
      have hg : nextT.getD j default = nextT[j] := by simp [List.getD_eq_getElem?_getD, List.getElem?_eq_getElem hj]
      rw [hg]
      unfold ovRight; rw [ha]
      simp only [bne_iff_ne, ne_eq]
      constructor
      · intro hc a' ha'; cases ha'; exact fun hlt => hc ((cmpBytes_gt_iff _ _).mpr hlt)
      · intro hB hc; exact hB a rfl ((cmpBytes_gt_iff _ _).mp hc))
    (by
      intro i j hlt hj hA b hb
      have hi : i < nextT.length := by omega
      obtain ⟨aj, bj, haj, hbj, _, hbjm⟩ := hget j hj
      have hg : nextT.getD j default = nextT[j] := by simp [List.getD_eq_getElem?_getD, List.getElem?_eq_getElem hj]
      have hgi : nextT.getD i default = nextT[i] := by simp [List.getD_eq_getElem?_getD, List.getElem?_eq_getElem hi]
      rw [hgi] at hb
      rw [hg] at hA
      exact klt_trans (hp i j hi hj hlt b (biggest_mem hb) bj hbjm) (hA bj hbj))
    (by
      intro i j hlt hj hB a ha
      have hi : i < nextT.length := by omega
      obtain ⟨aj, bj, haj, hbj, hajm, _⟩ := hget j hj
      have hg : nextT.getD j default = nextT[j] := by simp [List.getD_eq_getElem?_getD, List.getElem?_eq_getElem hj]
      have hgi : nextT.getD i default = nextT[i] := by simp [List.getD_eq_getElem?_getD, List.getElem?_eq_getElem hi]
      rw [hgi] at ha
      rw [hg] at hB
      exact kle_trans (kle_of_klt (hp i j hi hj hlt a (smallest_mem ha) aj hajm)) (hB aj haj))
  refine ⟨lo, hi, _, _, hkr, e1, ?_, ?_⟩
  · have := takeWhile_length_le nextT (ovLeft lo.key); omega
  · intro j hj
    rw [e3 j hj]
    obtain ⟨a, b, ha, hb, _, hbm⟩ := hget j hj
    have hg : nextT.getD j default = nextT[j] := by simp [List.getD_eq_getElem?_getD, List.getElem?_eq_getElem hj]
    rw [hg]
    unfold tblOverlaps
    rw [ha, hb]
    simp only [Bool.and_eq_true, bne_iff_ne, ne_eq]
    have hbv : b.ver ≤ maxU64 :=
      hv b (mem_allEntries.mpr (.inr (.inr ⟨cd.nextLevel, nextT, nextT[j], hnext, List.getElem_mem hj, hbm⟩)))
    constructor
    · rintro ⟨hA, hB⟩
      constructor
      · intro hgt
        rcases (entCmp_gt_iff _ _).mp hgt with h1 | ⟨_, h1⟩
        · exact hA (fun b' hb' => by cases hb'; exact h1)
        · omega
      · intro hlt
        rcases (entCmp_lt_iff _ _).mp hlt with h1 | ⟨_, h1⟩
        · exact hB a rfl h1
        · omega
    · rintro ⟨h1, h2⟩
      constructor
      · intro hA; exact h1 ((entCmp_gt_iff _ _).mpr (.inl (hA b rfl)))
      · intro a' ha' hlt; cases ha'; exact h2 ((entCmp_lt_iff _ _).mpr (.inl hlt))

theorem range'_bound {a c n : Nat} (h : a + c ≤ n) :
    (List.range' a c).headD 0 + (List.range' a c).length ≤ n := by
  cases c with
  | zero => simp
  | succ c => simp [List.range'_succ]; omega

theorem tops_ne_nil' {s : Lsm} {cd : CompactDef} (htr : ∀ i ∈ cd.top, i < (cdThisT s cd).length)
    (htop : cd.top ≠ []) : cdTops s cd ≠ [] := by
  obtain ⟨i, hi⟩ := List.exists_mem_of_ne_nil _ htop
  have hlt := htr i hi
  intro hnil
  have : (cdThisT s cd)[i] ∈ cdTops s cd := mem_pickIdx.mpr ⟨i, hi, List.getElem?_eq_getElem hlt⟩
  rw [hnil] at this; simp at this

theorem contiguous_shape {l : List Nat} (h : isContiguousFrom l = true) :
    l = List.range' (l.headD 0) l.length := by
  cases l with
  | nil => rfl
  | cons a t =>
    unfold isContiguousFrom at h
    simp only [beq_iff_eq] at h
    have e : List.map (fun x => x + a) (List.range (a :: t).length) = List.range' a (a :: t).length := by
      rw [List.range'_eq_map_range]
      apply List.map_congr_left
      intro x _; omega
    rw [e] at h
    simpa using h

theorem validChoice_compactOk {s : Lsm} {cd : CompactDef} (h : LsmInv s) (hv : VerBound s)
    (hi : ChoiceIdxOk s cd) (htop : cd.top ≠ []) (hvc : validChoice s cd = true) : CompactOk s cd := by
  obtain ⟨hth, hnx, htr, hinc, hbr, hlast⟩ := hi
  have htne := tops_ne_nil' htr htop
  have exact_case : 1 ≤ cd.nextLevel → cd.bot = overlapIdx (cdNextT s cd) (rangeOfTables (cdTops s cd)) →
      CdBase s cd ∧ BotExact s cd := by
    intro hn hb
    obtain ⟨lo, hi', a, c, hkr, hov, hbound, hex⟩ := overlapIdx_spec h hv hth hnx hn htne
    have hbot : cd.bot = List.range' a c := hb.trans hov
    refine ⟨⟨hth, hnx, htr, hinc, htop, ?_, ?_⟩, ?_⟩
    · rw [hbot]; exact range'_shape a c
    · rw [hbot]; exact range'_bound hbound
    · unfold BotExact
      rw [hkr]
      simp only
      intro j hj
      rw [hb]; exact hex j hj
  rcases validChoice_cases hvc htop with ⟨h0, hn, hb, _⟩ | ⟨h0, hn, ht, hb, hbt⟩ | ⟨h0, hsame, i, ht, hcont, hhead⟩ |
      ⟨h0, hn, i, ht, hb⟩
  · refine ⟨⟨hth, hnx, htr, hinc, htop, ?_, ?_⟩, .inr (.inr (.inl ⟨h0, hn, hb⟩))⟩
    · rw [hb]; rfl
    · rw [hb]; simp
  · obtain ⟨hbase, hexact⟩ := exact_case (by omega) hb
    refine ⟨hbase, .inl ⟨h0, by omega, ?_, ?_, hexact⟩⟩
    · have hl : cd.top.length = (if cd.dropPrefixes.isEmpty then l0PickLen (cdThisT s cd)
          else (cdThisT s cd).length) := by
        have := congrArg List.length ht
        simpa using this
      rw [hl]; exact ht
    · intro j hj hpos
      have hmem : j ∈ (List.range cd.nextLevel).drop 1 := by
        rw [List.range_eq_range', List.drop_range', List.mem_range'_1]; omega
      have := List.any_eq_false.mp hbt j hmem
      simp only [Bool.not_eq_true, Bool.not_eq_false'] at this
      simpa using this
  · have hshape := contiguous_shape hcont
    refine ⟨⟨hth, hnx, htr, hinc, htop, hshape, ?_⟩, .inr (.inr (.inr ⟨by omega, hsame.symm, hlast hsame h0, by rw [ht]; rfl, ?_⟩))⟩
    · by_cases hb0 : cd.bot = []
      · rw [hb0]; simp
      · have hlen : 0 < cd.bot.length := List.length_pos_iff.mpr hb0
        have hm : cd.bot.headD 0 + cd.bot.length - 1 ∈ cd.bot := by
          rw [hshape, List.mem_range'_1]
          simp only [List.length_range']
          have : (List.range' (cd.bot.headD 0) cd.bot.length).headD 0 = cd.bot.headD 0 := by rw [← hshape]
          omega
        have := hbr _ hm
        omega
    · rcases hhead with hb0 | hh
      · exact .inl hb0
      · right
        rw [ht]
        cases hbb : cd.bot with
        | nil => rw [hbb] at hh; simp at hh
        | cons a t => rw [hbb] at hh; simp at hh; simp [hh]
  · obtain ⟨hbase, hexact⟩ := exact_case (by omega) hb
    exact ⟨hbase, .inr (.inl ⟨by omega, hn, by rw [ht]; rfl, hexact⟩)⟩

end LL

/-- the shape of level 0 that the engine maintains: the first `m` tables are ordered by their
    smallest user key (what `replaceTables`' re-sort leaves after an L0 → L0 compaction), and every
    table from index `m` on (flushed afterwards) holds, per key, only versions at least as new as
    those of every table before it. `m = 0` is "L0 in age order". -/
def L0SFm (l0 : List Tbl) (m : Nat) : Prop :=
  m ≤ l0.length ∧
  (∀ (i j : Nat) (a b : Tbl) (x y : Ent), i < j → j < m → l0[i]? = some a → l0[j]? = some b →
    a.smallest = some x → b.smallest = some y → ¬ cmpBytes y.key x.key = .lt) ∧
  (∀ (j j' : Nat) (a b : Tbl), j' < j → m ≤ j → l0[j]? = some a → l0[j']? = some b →
    ∀ x ∈ a.ents, ∀ e ∈ b.ents, x.key = e.key → e.ver ≤ x.ver)

def L0SF (s : Lsm) : Prop := ∃ m, L0SFm (s.levels.getD 0 []) m

namespace LL

theorem l0PrefixLen_spec (l : List Tbl) (hok : ∀ t ∈ l, TblOk t) (S : List Tbl) (kr : Option (Bytes × Bytes))
    (hr : RangeOf S kr) :
    l0PrefixLen l kr ≤ l.length ∧
    ∃ krn, RangeOf (S ++ l.take (l0PrefixLen l kr)) krn ∧
      ∀ c d, l[l0PrefixLen l kr]? = some c → c.keyRange = some d → rangeOverlaps krn d = false := by
  induction l generalizing S kr with
  | nil => exact ⟨by simp [l0PrefixLen], kr, by simpa [l0PrefixLen] using hr, by simp⟩
  | cons t ts ih =>
    obtain ⟨a, b, ha, hb, hkr, _⟩ := keyRange_of_ok (hok t (by simp))
    unfold l0PrefixLen
    rw [hkr]
    simp only
    by_cases hov : rangeOverlaps kr (a.key, b.key) = true
    · rw [if_pos hov]
      obtain ⟨h1, krn, h2, h3⟩ := ih (fun t' ht' => hok t' (List.mem_cons_of_mem _ ht')) (S ++ [t]) _
        (rangeOf_extend hr (hok t (by simp)) ha hb)
      refine ⟨by simp; omega, krn, ?_, ?_⟩
      · have e : 1 + l0PrefixLen ts (rangeExtend kr (a.key, b.key)) =
            l0PrefixLen ts (rangeExtend kr (a.key, b.key)) + 1 := by omega
        rw [e, List.take_succ_cons]
        simpa using h2
      · intro c d hc hd
        have e : 1 + l0PrefixLen ts (rangeExtend kr (a.key, b.key)) =
            l0PrefixLen ts (rangeExtend kr (a.key, b.key)) + 1 := by omega
        rw [e, List.getElem?_cons_succ] at hc
        exact h3 c d hc hd
    · rw [if_neg hov]
      refine ⟨by simp, kr, by simpa using hr, ?_⟩
      intro c d hc hd
      simp at hc; subst hc
      rw [hkr] at hd; cases hd
      simpa using hov

/-- the maximal chain-overlapping prefix of an `L0SF`-shaped level 0 leaves behind only tables that
    share no user key with it or are newer -/
theorem topsOldest_of_prefix {s : Lsm} {cd : CompactDef} {m : Nat} (h : LsmInv s)
    (hsf : L0SFm (cdThisT s cd) m) (hth : cd.thisLevel < s.levels.length)
    (htop : cd.top = List.range (l0PrefixLen (cdThisT s cd) none)) (hne : cd.top ≠ []) :
    TopsOldest s cd := by
  have hthis := levels_getD hth
  have hok : ∀ t ∈ cdThisT s cd, TblOk t := (h.level hthis).1
  change s.levels[cd.thisLevel]? = some (cdThisT s cd) at hthis
  unfold TopsOldest cdTops
  generalize cdThisT s cd = l0 at *
  obtain ⟨hn_le, krn, hrn, hstop⟩ := l0PrefixLen_spec l0 hok [] none (by simp [RangeOf])
  generalize hn : l0PrefixLen l0 none = n at *
  have hnpos : 0 < n := by
    cases n with
    | zero => rw [htop] at hne; simp at hne
    | succ _ => omega
  obtain ⟨_, hsorted, haged⟩ := hsf
  intro t ht x hx t' ht' e he hk
  rw [htop, removeIdx_range] at ht
  rw [htop, pickIdx_range _ _ hn_le] at ht'
  obtain ⟨j0, hj0, rfl⟩ := List.getElem_of_mem ht
  obtain ⟨j', hj', rfl⟩ := List.getElem_of_mem ht'
  simp only [List.length_drop] at hj0
  simp only [List.length_take] at hj'
  rw [List.getElem_drop] at hx
  rw [List.getElem_take] at he
  have hjl : n + j0 < l0.length := by omega
  have hj'l : j' < l0.length := by omega
  by_cases hm : m ≤ n + j0
  · exact haged (n + j0) j' _ _ (by omega) hm (List.getElem?_eq_getElem hjl) (List.getElem?_eq_getElem hj'l)
      x hx e he hk
  · exfalso
    -- both tables are in the part ordered by smallest key; the first excluded table `C` lies above the range
    have hnl : n < l0.length := by omega
    obtain ⟨c1, c2, hc1, hc2, hckr, _⟩ := keyRange_of_ok (hok _ (List.getElem_mem hnl))
    have hstop' := hstop _ _ (List.getElem?_eq_getElem hnl) hckr
    simp only [List.nil_append] at hrn
    cases krn with
    | none =>
      unfold RangeOf at hrn
      have : (l0.take n).length = 0 := by rw [hrn]; rfl
      rw [List.length_take] at this; omega
    | some p =>
      obtain ⟨lo, hi⟩ := p
      obtain ⟨hcov, _, _⟩ := hrn
      have h0l : 0 < l0.length := by omega
      obtain ⟨f1, f2, hf1, hf2, _, _⟩ := keyRange_of_ok (hok _ (List.getElem_mem h0l))
      have hf1m : f1 ∈ l0[0].ents := smallest_mem hf1
      have hlo_f : kle lo f1.key := (hcov l0[0] (by
        rw [List.mem_take_iff_getElem]; exact ⟨0, by omega, rfl⟩) f1 hf1m).1
      have hf_c : kle f1.key c1.key := by
        by_cases hn1 : n = 0
        · omega
        · exact hsorted 0 n _ _ f1 c1 (by omega) (by omega) (List.getElem?_eq_getElem h0l)
            (List.getElem?_eq_getElem hnl) hf1 hc1
      have hc12 : kle c1.key c2.key := tbl_keys_ge_smallest (hok _ (List.getElem_mem hnl)).2 hc1 c2 (biggest_mem hc2)
      have hlo_c2 : kle lo c2.key := kle_trans hlo_f (kle_trans hf_c hc12)
      have hhi_c1 : klt hi c1.key := by
        unfold rangeOverlaps at hstop'
        simp only [Bool.and_eq_false_iff, bne_eq_false_iff_eq] at hstop'
        rcases hstop' with h1 | h1
        · exact absurd ((cmpBytes_gt_iff _ _).mp h1) hlo_c2
        · exact h1
      -- `x` lies at or above `C`'s smallest key, `e` inside the range
      have he_hi : kle e.key hi := (hcov _ (by
        rw [List.mem_take_iff_getElem]; exact ⟨j', by omega, rfl⟩) e he).2
      obtain ⟨g1, g2, hg1, hg2, _, _⟩ := keyRange_of_ok (hok _ (List.getElem_mem hjl))
      have hc_g : kle c1.key g1.key := by
        by_cases hj00 : j0 = 0
        · subst hj00
          have : g1 = c1 := by
            have e1 : l0[n + 0] = l0[n] := by congr 1
            rw [e1] at hg1; rw [hc1] at hg1; cases hg1; rfl
          rw [this]; exact kle_refl _
        · exact hsorted n (n + j0) _ _ c1 g1 (by omega) (by omega) (List.getElem?_eq_getElem hnl)
            (List.getElem?_eq_getElem hjl) hc1 hg1
      have hg_x : kle g1.key x.key := tbl_keys_ge_smallest (hok _ (List.getElem_mem hjl)).2 hg1 x hx
      have : klt e.key x.key := klt_of_kle_of_klt he_hi (klt_of_klt_of_kle hhi_c1 (kle_trans hc_g hg_x))
      exact klt_ne this hk.symm

/-- `a`'s smallest internal key is not above `b`'s -/
def SmLe (a b : Tbl) : Prop := ∀ x y, a.smallest = some x → b.smallest = some y → ¬ elt y x

theorem not_elt_trans {a b c : Ent} (h1 : ¬ elt b a) (h2 : ¬ elt c b) : ¬ elt c a := by
  intro h3
  rcases kvlt_tri a.key a.ver b.key b.ver with h | ⟨hk, hv⟩ | h
  · exact h2 (elt_trans h3 h)
  · apply h2
    unfold elt at h3 ⊢
    rw [← hk, ← hv]; exact h3
  · exact h1 h

theorem insertBySmallest_smLe {t : Tbl} {xs : List Tbl} (ht : t.ents ≠ []) (hne : ∀ x ∈ xs, x.ents ≠ [])
    (hp : xs.Pairwise SmLe) : (insertBySmallest t xs).Pairwise SmLe := by
  induction xs with
  | nil => simp [insertBySmallest]
  | cons x xs ih =>
    obtain ⟨hx, hp'⟩ := List.pairwise_cons.mp hp
    obtain ⟨a, ha⟩ := smallest_some ht
    obtain ⟨b, hb⟩ := smallest_some (hne x (by simp))
    unfold insertBySmallest
    rw [ha, hb]
    simp only
    by_cases hc : entCmp b a = .lt
    · rw [if_pos (by simp [hc])]
      refine List.pairwise_cons.mpr ⟨?_, ih (fun y hy => hne y (List.mem_cons_of_mem _ hy)) hp'⟩
      intro y hy
      rcases mem_insertBySmallest.mp hy with rfl | hy
      · intro x' y' hx' hy'
        rw [hb] at hx'; rw [ha] at hy'; cases hx'; cases hy'
        exact elt_asymm ((entCmp_lt_iff _ _).mp hc)
      · exact hx y hy
    · rw [if_neg (by simp [hc])]
      have htx : SmLe t x := by
        intro x' y' hx' hy'
        rw [ha] at hx'; rw [hb] at hy'; cases hx'; cases hy'
        exact fun h => hc ((entCmp_lt_iff _ _).mpr h)
      refine List.pairwise_cons.mpr ⟨?_, hp⟩
      intro y hy
      rcases List.mem_cons.mp hy with rfl | hy
      · exact htx
      · intro x' y' hx' hy'
        rw [ha] at hx'; cases hx'
        exact not_elt_trans (htx a b ha hb) (hx y hy b y' hb hy')

theorem sortBySmallest_smLe {l : List Tbl} (hne : ∀ x ∈ l, x.ents ≠ []) : (sortBySmallest l).Pairwise SmLe := by
  induction l with
  | nil => simp [sortBySmallest]
  | cons t l ih =>
    have : sortBySmallest (t :: l) = insertBySmallest t (sortBySmallest l) := rfl
    rw [this]
    apply insertBySmallest_smLe (hne t (by simp))
    · intro x hx; exact hne x (List.mem_cons_of_mem _ (mem_sortBySmallest.mp hx))
    · exact ih (fun x hx => hne x (List.mem_cons_of_mem _ hx))

theorem l0sf_flush {s : Lsm} (hl : LayeredX s) (hsf : L0SF s) (id : Nat) : L0SF (s.flush id) := by
  rcases flush_eq_self_or s id with he | ⟨l0, rest, hlv, _, he⟩
  · rw [he]; exact hsf
  · obtain ⟨m, hm, hsorted, haged⟩ := hsf
    rw [he]
    have hg : s.levels.getD 0 [] = l0 := by rw [hlv]; rfl
    rw [hg] at hm hsorted haged
    refine ⟨m, ?_⟩
    simp only [List.getD_cons_zero]
    obtain ⟨_, p2, _⟩ := (layeredX_iff s).mp hl
    refine ⟨by simp; omega, ?_, ?_⟩
    · intro i j a b x y hij hjm hi hj
      rw [List.getElem?_append_left (by omega)] at hi hj
      exact hsorted i j a b x y hij hjm hi hj
    · intro j j' a b hlt hmj hj hj'
      have hjl := (List.getElem?_eq_some_iff.mp hj).1
      simp at hjl
      have hb : l0[j']? = some b := by
        rw [List.getElem?_append_left (by omega)] at hj'; exact hj'
      by_cases hjl0 : j < l0.length
      · rw [List.getElem?_append_left hjl0] at hj
        exact haged j j' a b hlt hmj hj hb
      · have : j = l0.length := by omega
        subst this
        simp at hj; subst hj
        intro x hx e he' hk
        exact p2 x (mem_memEnts.mpr ⟨s.mem, by simp, hx⟩) 0 l0 b (by rw [hlv]; rfl) (List.mem_of_getElem? hb) e he' hk

theorem l0sf_compact {s s' : Lsm} {cd : CompactDef} {d n now : Nat} (h : LsmInv s) (hc : CompactOk s cd)
    (hsf : L0SF s) (hs : s.compact cd d n now = some s') : L0SF s' := by
  obtain ⟨new0, hsp, rfl⟩ := compact_some hs
  obtain ⟨m, hm, hsorted, haged⟩ := hsf
  have hget := newLevels_get (s := s) (cd := cd) new0 hc.1.1 hc.1.2.1 0
  have hunch : cd.thisLevel ≠ 0 → cd.nextLevel ≠ 0 → L0SF ({ s with levels := newLevels s cd new0 } : Lsm) := by
    intro h1 h2
    rw [if_neg (fun hh => h1 hh.1.symm), if_neg (fun hh => h2 hh.symm)] at hget
    refine ⟨m, ?_⟩
    have : (newLevels s cd new0).getD 0 [] = s.levels.getD 0 [] := by
      rw [List.getD_eq_getElem?_getD, hget, List.getD_eq_getElem?_getD]
    simp only [this]
    exact ⟨hm, hsorted, haged⟩
  rcases hc.2 with hh | hh | hh | hh
  · -- L0 → Lbase: a prefix of L0 is removed
    obtain ⟨h0, hpos, hr, _, _⟩ := hh
    rw [if_pos ⟨h0.symm, by omega⟩] at hget
    have hthisT : cdThisT s cd = s.levels.getD 0 [] := by unfold cdThisT; rw [h0]
    have hrem : removeIdx (cdThisT s cd) cd.top = (s.levels.getD 0 []).drop cd.top.length := by
      have : removeIdx (cdThisT s cd) cd.top = removeIdx (cdThisT s cd) (List.range cd.top.length) := by rw [← hr]
      rw [this, removeIdx_range, hthisT]
    refine ⟨m - cd.top.length, ?_⟩
    have : (newLevels s cd new0).getD 0 [] = (s.levels.getD 0 []).drop cd.top.length := by
      rw [List.getD_eq_getElem?_getD, hget, hrem]; rfl
    simp only [this]
    refine ⟨by rw [List.length_drop]; omega, ?_, ?_⟩
    · intro i j a b x y hij hjm hi hj
      rw [List.getElem?_drop] at hi hj
      exact hsorted _ _ a b x y (by omega) (by omega) hi hj
    · intro j j' a b hlt hmj hj hj'
      rw [List.getElem?_drop] at hj hj'
      exact haged _ _ a b (by omega) (by omega) hj hj'
  · exact hunch (by have := hh.1; omega) (by have := hh.1; have := hh.2.1; omega)
  · -- L0 → L0: the whole level is re-sorted by `Smallest`
    obtain ⟨h0, hn0, _⟩ := hh
    rw [if_neg (fun hh' => hh'.2 (h0.trans hn0.symm)), if_pos hn0.symm] at hget
    refine ⟨(newNext s cd new0).length, ?_⟩
    have : (newLevels s cd new0).getD 0 [] = newNext s cd new0 := by
      rw [List.getD_eq_getElem?_getD, hget]; rfl
    simp only [this]
    have hne : ∀ t ∈ removeIdx (cdNextT s cd) (keptIdx cd) ++ withIds new0 cd.outIds, t.ents ≠ [] := by
      intro t ht
      rcases List.mem_append.mp ht with h1 | h1
      · exact ((next_level h hc.1).2.1 t ((removeIdx_sublist _ _).subset h1)).1
      · exact ((new_tables h hc hsp).1 t h1).1.1
    have hpw := List.pairwise_iff_getElem.mp (sortBySmallest_smLe hne)
    rw [← newNext_eq] at hpw
    refine ⟨Nat.le_refl _, ?_, ?_⟩
    · intro i j a b x y hij hjm hi hj hx hy hlt
      obtain ⟨hil, rfl⟩ := List.getElem?_eq_some_iff.mp hi
      obtain ⟨hjl, rfl⟩ := List.getElem?_eq_some_iff.mp hj
      exact hpw i j hil hjl hij x y hx hy (elt_of_klt hlt)
    · intro j j' a b _ hmj hj
      have := (List.getElem?_eq_some_iff.mp hj).1
      omega
  · exact hunch (by have := hh.1; omega) (by have := hh.1; have := hh.2.1; omega)

theorem l0PrefixLen_le (l : List Tbl) (kr : Option (Bytes × Bytes)) : l0PrefixLen l kr ≤ l.length := by
  induction l generalizing kr with
  | nil => simp [l0PrefixLen]
  | cons t ts ih =>
    unfold l0PrefixLen
    split
    · simp
    · split
      · have := ih (rangeExtend kr ‹_›); simp; omega
      · simp

/-- the repaired picker (F28) never leaves behind an L0 table whose range overlaps the tops -/
theorem validChoice_noLeftBehind {s : Lsm} {cd : CompactDef} (hvc : validChoice s cd = true)
    (htop : cd.top ≠ []) (h0 : cd.thisLevel = 0) (hn : cd.nextLevel ≠ 0) : cdLeftBehind s cd = false := by
  unfold cdLeftBehind
  simp only [h0, beq_self_eq_true, Bool.true_and]
  have hall : ∀ (m : Nat), (cdThisT s cd).length ≤ m → cd.top = List.range m →
      ((removeIdx (cdThisT s cd) cd.top).any fun t =>
        match t.keyRange with
        | some d => rangeOverlaps (rangeOfTables (cdTops s cd)) d
        | none => false) = false := by
    intro m hm ht
    rw [ht, removeIdx_range, List.drop_eq_nil_of_le hm]; rfl
  rcases validChoice_cases hvc htop with ⟨_, hn', _⟩ | ⟨_, _, ht, _, _⟩ | ⟨hne, _⟩ | ⟨hne, _⟩
  · exact absurd hn' hn
  · by_cases hdp : cd.dropPrefixes.isEmpty = true
    · rw [if_pos hdp] at ht
      unfold l0PickLen at ht
      simp only at ht
      split at ht
      · exact hall _ (Nat.le_refl _) ht
      · rename_i hany
        have hle := l0PrefixLen_le (cdThisT s cd) none
        have htops : cdTops s cd = (cdThisT s cd).take (l0PrefixLen (cdThisT s cd) none) := by
          unfold cdTops; rw [ht, pickIdx_range _ _ hle]
        rw [htops]
        rw [ht, removeIdx_range]
        apply List.any_eq_false.mpr
        intro t htm
        have := List.any_eq_false.mp (by simpa using hany) t htm
        unfold overlapsRange at this
        cases hk : t.keyRange with
        | none => simp
        | some d => rw [hk] at this; simpa using this
    · rw [if_neg hdp] at ht
      exact hall _ (Nat.le_refl _) ht
  · exact absurd h0 hne
  · exact absurd h0 hne

end LL
end Badger
