import BadgerModel.Header
import BadgerProofs.Lemmas.Bytes
/-! Lemmas on the varint model: round trips of `uvarint` / `readUvarint` over `putUvarint`,
`sizeVarint`, and the behaviour of the stream reader on a strict prefix of an encoding. -/
namespace Badger

theorem putUvarintF_ne_nil (k n : Nat) : putUvarintF k n ≠ [] := by
  cases k <;> simp [putUvarintF] <;> split <;> simp

theorem putUvarintF_length_pos (k n : Nat) : 0 < (putUvarintF k n).length :=
  List.length_pos_iff.mpr (putUvarintF_ne_nil k n)

theorem putUvarintF_length_le (k : Nat) : ∀ n, (putUvarintF k n).length ≤ k + 1 := by
  induction k with
  | zero => intro n; simp [putUvarintF]
  | succ k ih =>
    intro n; simp only [putUvarintF]; split
    · simp
    · have := ih (n / 128); simp only [List.length_cons]; omega

theorem putUvarint_length_pos (n : Nat) : 0 < (putUvarint n).length := putUvarintF_length_pos 9 n
theorem putUvarint_length_le (n : Nat) : (putUvarint n).length ≤ 10 := putUvarintF_length_le 9 n

private theorem pow_step (i n : Nat) :
    n % 128 * 128 ^ i + n / 128 * 128 ^ (i + 1) = n * 128 ^ i := by
  have hpow : 128 ^ (i + 1) = 128 ^ i * 128 := Nat.pow_succ ..
  have hdm := Nat.div_add_mod n 128
  rw [hpow]
  generalize 128 ^ i = m
  have : n * m = (128 * (n / 128) + n % 128) * m := by rw [hdm]
  rw [this, Nat.add_mul, Nat.mul_comm m 128, ← Nat.mul_assoc, Nat.mul_comm 128 (n / 128)]
  omega

private theorem bound_step (i n : Nat) (hn : n * 128 ^ i < 2 ^ 64) :
    n / 128 * 128 ^ (i + 1) < 2 ^ 64 := by
  have hpow : 128 ^ (i + 1) = 128 ^ i * 128 := Nat.pow_succ ..
  rw [hpow]
  have : n / 128 * (128 ^ i * 128) = (n / 128 * 128) * 128 ^ i := by
    rw [Nat.mul_comm (128 ^ i) 128, Nat.mul_assoc]
  rw [this]
  exact Nat.lt_of_le_of_lt (Nat.mul_le_mul_right _ (by omega)) hn

private theorem pow9 : (128 : Nat) ^ 9 = 9223372036854775808 := by decide

/-- `binary.Uvarint` reads back what `binary.PutUvarint` wrote, whatever follows. -/
theorem uvarintAux_put (k : Nat) : ∀ (i x n : Nat) (rest : Bytes), i + k = 9 → n * 128 ^ i < 2 ^ 64 →
    uvarintAux i x (putUvarintF k n ++ rest) =
      (x + n * 128 ^ i, ((i + (putUvarintF k n).length : Nat) : Int)) := by
  induction k with
  | zero =>
    intro i x n rest hi hn
    have hi9 : i = 9 := by omega
    subst hi9
    have hn2 : n < 2 := by have := pow9; omega
    have hb : (UInt8.ofNat n).toNat = n := u8_ofNat_toNat n (by omega)
    simp only [putUvarintF, List.cons_append, List.nil_append, uvarintAux, hb]
    rw [if_neg (by omega), if_pos (by omega), if_neg (by omega)]
    simp
  | succ k ih =>
    intro i x n rest hi hn
    simp only [putUvarintF]
    split
    · rename_i hlt
      have hb : (UInt8.ofNat n).toNat = n := u8_ofNat_toNat n (by omega)
      simp only [List.cons_append, List.nil_append, uvarintAux, hb]
      rw [if_neg (by omega), if_pos hlt, if_neg (by omega)]
      simp
    · rename_i hge
      have hb : (UInt8.ofNat (n % 128 + 128)).toNat = n % 128 + 128 := u8_ofNat_toNat _ (by omega)
      simp only [List.cons_append, uvarintAux, hb]
      rw [if_neg (by omega), if_neg (by omega),
        ih (i + 1) _ (n / 128) rest (by omega) (bound_step i n hn)]
      have e1 : (n % 128 + 128) % 128 = n % 128 := by omega
      rw [e1, Nat.add_assoc, pow_step]
      simp only [List.length_cons]
      congr 1
      omega

theorem uvarint_put (n : Nat) (rest : Bytes) (hn : n < 2 ^ 64) :
    uvarint (putUvarint n ++ rest) = (n, ((putUvarint n).length : Int)) := by
  have := uvarintAux_put 9 0 0 n rest (by omega) (by simpa using hn)
  simpa [uvarint, putUvarint] using this

/-- `binary.ReadUvarint` reads back what `binary.PutUvarint` wrote and leaves the rest unread. -/
theorem readUvarintAux_put (k : Nat) : ∀ (i x n : Nat) (rest : Bytes), i + k = 9 →
    n * 128 ^ i < 2 ^ 64 →
    readUvarintAux (k + 1) i x (putUvarintF k n ++ rest) = .ok (x + n * 128 ^ i, rest) := by
  induction k with
  | zero =>
    intro i x n rest hi hn
    have hi9 : i = 9 := by omega
    subst hi9
    have hn2 : n < 2 := by have := pow9; omega
    have hb : (UInt8.ofNat n).toNat = n := u8_ofNat_toNat n (by omega)
    simp only [putUvarintF, List.cons_append, List.nil_append, readUvarintAux, hb]
    rw [if_pos (by omega), if_neg (by omega)]
  | succ k ih =>
    intro i x n rest hi hn
    simp only [putUvarintF]
    split
    · rename_i hlt
      have hb : (UInt8.ofNat n).toNat = n := u8_ofNat_toNat n (by omega)
      simp only [List.cons_append, List.nil_append, readUvarintAux, hb]
      rw [if_pos hlt, if_neg (by omega)]
    · rename_i hge
      have hb : (UInt8.ofNat (n % 128 + 128)).toNat = n % 128 + 128 := u8_ofNat_toNat _ (by omega)
      simp only [List.cons_append, readUvarintAux, hb]
      rw [if_neg (by omega), ih (i + 1) _ (n / 128) rest (by omega) (bound_step i n hn)]
      have e1 : (n % 128 + 128) % 128 = n % 128 := by omega
      rw [e1, Nat.add_assoc, pow_step]

theorem readUvarint_put (n : Nat) (rest : Bytes) (hn : n < 2 ^ 64) :
    readUvarint (putUvarint n ++ rest) = .ok (n, rest) := by
  have := readUvarintAux_put 9 0 0 n rest (by omega) (by simpa using hn)
  simpa [readUvarint, putUvarint] using this

theorem sizeVarintF_eq (k : Nat) : ∀ n, sizeVarintF k n = (putUvarintF k n).length := by
  induction k with
  | zero => intro n; simp [sizeVarintF, putUvarintF]
  | succ k ih =>
    intro n
    simp only [sizeVarintF, putUvarintF]
    by_cases h : n < 128
    · rw [if_pos (by omega), if_pos h]; simp
    · rw [if_neg (by omega), if_neg h, ih]; simp; omega

/-- The three "short read" outcomes; `logFile.iterate` stops quietly on each of them. -/
def TornErr (e : RErr) : Prop := e = .eof ∨ e = .unexpectedEof ∨ e = .truncate

def Torn {α : Type} (r : Except RErr α) : Prop := ∃ e, TornErr e ∧ r = .error e

/-- A strict prefix of a varint makes the stream reader fail with EOF / unexpected EOF. -/
theorem readUvarintAux_take (k : Nat) : ∀ (i x n j : Nat), j < (putUvarintF k n).length →
    Torn (readUvarintAux (k + 1) i x ((putUvarintF k n).take j)) := by
  induction k with
  | zero =>
    intro i x n j hj
    simp only [putUvarintF, List.length_cons, List.length_nil] at hj
    have : j = 0 := by omega
    subst this
    simp only [List.take_zero, readUvarintAux]
    by_cases h : i > 0
    · exact ⟨.unexpectedEof, Or.inr (Or.inl rfl), by simp [h]⟩
    · exact ⟨.eof, Or.inl rfl, by simp [h]⟩
  | succ k ih =>
    intro i x n j hj
    have hnil : Torn (readUvarintAux (k + 1 + 1) i x []) := by
      simp only [readUvarintAux]
      by_cases h : i > 0
      · exact ⟨.unexpectedEof, Or.inr (Or.inl rfl), by simp [h]⟩
      · exact ⟨.eof, Or.inl rfl, by simp [h]⟩
    simp only [putUvarintF] at hj ⊢
    split at hj
    · rename_i hlt
      simp only [List.length_cons, List.length_nil] at hj
      have : j = 0 := by omega
      subst this
      rw [if_pos hlt]; simpa using hnil
    · rename_i hge
      rw [if_neg hge]
      cases j with
      | zero => simpa using hnil
      | succ j =>
        have hb : (UInt8.ofNat (n % 128 + 128)).toNat = n % 128 + 128 :=
          u8_ofNat_toNat _ (by omega)
        simp only [List.take_succ_cons, readUvarintAux, hb]
        rw [if_neg (by omega)]
        simp only [List.length_cons] at hj
        exact ih (i + 1) _ (n / 128) j (by omega)

theorem readUvarint_take (n j : Nat) (hj : j < (putUvarint n).length) :
    Torn (readUvarint ((putUvarint n).take j)) :=
  readUvarintAux_take 9 0 0 n j hj

end Badger
