import BadgerProofs.Lemmas.Concat
/-!
`ConcatIterator.Seek` over tables with increasing, disjoint key ranges.
-/
namespace Badger.Tbl
open Badger

/-- `TabOK` plus what `OpenTable` computed: `Smallest()` and `Biggest()`. -/
structure TabOK2 (env : Env) (t : Table) (G : List (List Entry)) : Prop where
  base : TabOK env t G
  big : ∃ e, G.flatten[G.flatten.length - 1]? = some e ∧ t.biggest = e.key
  small : ∃ e, G.flatten[0]? = some e ∧ t.smallest = e.key

def TabsOK2 (env : Env) (ts : List Table) (Gs : List (List (List Entry))) : Prop :=
  ts.length = Gs.length ∧ ∀ (i : Nat) t G, ts[i]? = some t → Gs[i]? = some G → TabOK2 env t G

theorem TabsOK2.toTabsOK {env : Env} {ts : List Table} {Gs : List (List (List Entry))}
    (h : TabsOK2 env ts Gs) : TabsOK env ts Gs :=
  ⟨h.1, fun i t G ht hG => (h.2 i t G ht hG).base⟩

/-- Invariant of a concat iterator between operations. -/
structure CInv (ts : List Table) (s : CIter) : Prop where
  len : s.iters.length = ts.length
  revs : ∀ (k : Nat) x, s.iters[k]? = some (some x) → x.reversed = s.reversed

theorem cinv_new (ts : List Table) (rev : Bool) : CInv ts (newConcat ts rev) := by
  refine ⟨by simp [newConcat], ?_⟩
  intro k x hk
  simp only [newConcat, List.getElem?_map] at hk
  cases h : ts[k]? with
  | none => simp [h] at hk
  | some _ => simp [h] at hk

theorem flatAll_eq (Gs : List (List (List Entry))) : flatAll Gs = (Gs.map List.flatten).flatten := rfl

/-- Position of entry `p` of table `i` in the concatenation. -/
theorem flatAll_get {Gs : List (List (List Entry))} {i p : Nat} {G : List (List Entry)} {e : Entry}
    (hG : Gs[i]? = some G) (he : G.flatten[p]? = some e) :
    (flatAll Gs)[(flatAll (Gs.take i)).length + p]? = some e := by
  have := flatten_getElem? (Gs.map List.flatten) i p G.flatten e (by simp [hG]) he
  simpa [flatAll, List.map_take] using this

theorem flatAll_take_succ {Gs : List (List (List Entry))} {i : Nat} {G : List (List Entry)}
    (hG : Gs[i]? = some G) :
    (flatAll (Gs.take (i + 1))).length = (flatAll (Gs.take i)).length + G.flatten.length := by
  have := take_succ_flatten_length (Gs.map List.flatten) i G.flatten (by simp [hG])
  simpa [flatAll, List.map_take] using this

theorem flatAll_take_mono (Gs : List (List (List Entry))) {i i' : Nat} (h : i ≤ i') :
    (flatAll (Gs.take i)).length ≤ (flatAll (Gs.take i')).length := by
  have := take_flatten_length_mono (Gs.map List.flatten) i i' h
  simpa [flatAll, List.map_take] using this

theorem flatAll_split {Gs : List (List (List Entry))} {k : Nat} (hk : k < (flatAll Gs).length) :
    ∃ i p G, Gs[i]? = some G ∧ p < G.flatten.length ∧ k = (flatAll (Gs.take i)).length + p := by
  obtain ⟨i, p, g, hg, hp, hkk⟩ := flatten_index_split (Gs.map List.flatten) k hk
  simp only [List.getElem?_map] at hg
  cases hG : Gs[i]? with
  | none => simp [hG] at hg
  | some G =>
    simp only [hG, Option.map_some, Option.some.injEq] at hg
    subst hg
    exact ⟨i, p, G, hG, hp, by simpa [flatAll, List.map_take] using hkk⟩

theorem flatAll_take_all (Gs : List (List (List Entry))) : flatAll (Gs.take Gs.length) = flatAll Gs := by
  rw [List.take_length]

/-- An entry of table `i` is `≤` the table's biggest key (sorted concatenation). -/
theorem le_biggest {Gs : List (List (List Entry))} (hs : Sorted (flatAll Gs)) {i p : Nat}
    {G : List (List Entry)} {e eb : Entry} (hG : Gs[i]? = some G) (he : G.flatten[p]? = some e)
    (hb : G.flatten[G.flatten.length - 1]? = some eb) :
    e = eb ∨ compareKeys e.key eb.key = .lt := by
  have hp := lt_of_getElem?_some he
  rcases Nat.lt_or_ge p (G.flatten.length - 1) with h | h
  · exact Or.inr (hs.lt (by omega) (flatAll_get hG he) (flatAll_get hG hb))
  · have : p = G.flatten.length - 1 := by omega
    subst this; rw [he] at hb; exact Or.inl (Option.some.inj hb)

theorem ge_smallest {Gs : List (List (List Entry))} (hs : Sorted (flatAll Gs)) {i p : Nat}
    {G : List (List Entry)} {e e0 : Entry} (hG : Gs[i]? = some G) (he : G.flatten[p]? = some e)
    (h0 : G.flatten[0]? = some e0) :
    e = e0 ∨ compareKeys e0.key e.key = .lt := by
  rcases Nat.eq_zero_or_pos p with h | h
  · subst h; rw [he] at h0; exact Or.inl (Option.some.inj h0)
  · exact Or.inr (hs.lt (by omega) (flatAll_get hG h0) (flatAll_get hG he))

theorem cat_entry {ts : List Table} {s : CIter} {i : Nat} {it : TIter} {G : List (List Entry)}
    {j r : Nat} {g : List Entry} {e : Entry} (hc : CAt ts s i it) (hat : At G it j r g e)
    (hexp : e.vs.expiresAt < 2 ^ 64) : s.entry? = some e := by
  obtain ⟨hv, hd, hent⟩ := at_entry hat hexp
  unfold CIter.entry?
  rw [hc.cur_eq]
  simp [TIter.entry?, hv, hd, hent]

/-- Forward `Seek` of a concat iterator. -/
theorem cseek_fwd {env : Env} {ts : List Table} {Gs : List (List (List Entry))}
    (hts : TabsOK2 env ts Gs) (hs : Sorted (flatAll Gs)) (h8 : ∀ e ∈ flatAll Gs, 8 ≤ e.key.length)
    {s : CIter} (hinv : CInv ts s) (hfw : s.reversed = false) (key : Bytes) (hkey : 8 ≤ key.length) :
    ∃ s', s.seek env ts key = some s' ∧ CInv ts s' ∧ s'.reversed = false ∧
      s'.entry? = (flatAll Gs).find? (fun e => compareKeys e.key key != .lt) := by
  unfold CIter.seek
  simp only [hfw, Bool.not_false, if_true]
  -- the search over `Biggest()`
  let q : Nat → Bool := fun i =>
    match Gs[i]? with
    | some G => match G.flatten[G.flatten.length - 1]? with
      | some eb => compareKeys eb.key key != .lt
      | none => true
    | none => true
  let f : Nat → Unit → Option (Bool × Unit) := fun i (u : Unit) =>
      match ts[i]? with
      | none => none
      | some t => (compareKeysP t.biggest key).bind fun o => some (o != .lt, u)
  have hbig : ∀ (i : Nat) (t : Table) (G : List (List Entry)), ts[i]? = some t → Gs[i]? = some G →
      ∃ eb, G.flatten[G.flatten.length - 1]? = some eb ∧ t.biggest = eb.key ∧ 8 ≤ eb.key.length ∧
        0 < G.flatten.length := by
    intro i t G ht hG
    obtain ⟨eb, heb, hbk⟩ := (hts.2 i t G ht hG).big
    have hmem : eb ∈ flatAll Gs := List.mem_of_getElem? (flatAll_get hG heb)
    exact ⟨eb, heb, hbk, h8 eb hmem, by have := lt_of_getElem?_some heb; omega⟩
  have hf : ∀ h (u : Unit), h < ts.length → True → ∃ u', f h u = some (q h, u') ∧ True ∧ True := by
    intro h u hh _
    obtain ⟨t, ht⟩ := getElem?_some_of_lt ts h hh
    obtain ⟨G, hG⟩ := getElem?_some_of_lt Gs h (by rw [← hts.1]; exact hh)
    obtain ⟨eb, heb, hbk, hb8, _⟩ := hbig h t G ht hG
    refine ⟨(), ?_, trivial, trivial⟩
    simp only [f, ht, q, hG, heb, hbk, compareKeysP]
    have : ¬ (eb.key.length < 8 ∨ key.length < 8) := by omega
    simp [this]
  have hmono : ∀ a b, a ≤ b → b < ts.length → q a = true → q b = true := by
    intro a b hab hb hqa
    obtain ⟨tb, htb⟩ := getElem?_some_of_lt ts b hb
    obtain ⟨Gb, hGb⟩ := getElem?_some_of_lt Gs b (by rw [← hts.1]; exact hb)
    obtain ⟨ta, hta⟩ := getElem?_some_of_lt ts a (by omega)
    obtain ⟨Ga, hGa⟩ := getElem?_some_of_lt Gs a (by rw [← hts.1]; omega)
    obtain ⟨eb, heb, _, _, hposb⟩ := hbig b tb Gb htb hGb
    obtain ⟨ea, hea, _, _, hposa⟩ := hbig a ta Ga hta hGa
    simp only [q, hGa, hGb, hea, heb, bne_iff_ne, ne_eq] at hqa ⊢
    rcases Nat.lt_or_ge a b with hlt | hge
    · have h1 := flatAll_take_succ hGa
      have h2 := flatAll_take_mono Gs (show a + 1 ≤ b by omega)
      have hlt' := hs.lt (show (flatAll (Gs.take a)).length + (Ga.flatten.length - 1) <
          (flatAll (Gs.take b)).length + (Gb.flatten.length - 1) by omega)
        (flatAll_get hGa hea) (flatAll_get hGb heb)
      intro hbk
      exact hqa (compareKeys_lt_trans _ _ _ hlt' hbk)
    · have : a = b := by omega
      subst this
      rw [hGa] at hGb; cases hGb; rw [hea] at heb; cases heb; exact hqa
  obtain ⟨idx, _, hsearch, _, _, hidxn, hlo, hhi, _⟩ :=
    searchM_spec f (fun _ => True) (fun _ _ => True) q ts.length hf hmono
      ts.length 0 ts.length () rfl (Nat.zero_le _) (Nat.le_refl _) trivial
      (by intro k hk; omega) (by intro k hk hk'; omega)
  show ∃ s', (((searchM f 0 ts.length ()).bind fun x => some (x.1 : Int)).bind fun idx => _) = some s' ∧ _
  rw [hsearch]
  simp only [Option.bind_some]
  -- all entries of the tables before `idx` are below `key`
  have hbefore : ∀ k e, k < (flatAll (Gs.take idx)).length → (flatAll Gs)[k]? = some e →
      compareKeys e.key key = .lt := by
    intro k e hk he
    obtain ⟨i, p, G, hG, hp, hkk⟩ := flatAll_split (lt_of_getElem?_some he)
    have hi : i < idx := by
      rcases Nat.lt_or_ge i idx with h | h
      · exact h
      · have := flatAll_take_mono Gs h; omega
    obtain ⟨t, ht⟩ := getElem?_some_of_lt ts i (by omega)
    obtain ⟨eb, heb, _, _, _⟩ := hbig i t G ht hG
    have hqi := hlo i hi
    simp only [q, hG, heb, bne_eq_false_iff_eq] at hqi
    obtain ⟨e', he'⟩ := getElem?_some_of_lt G.flatten p hp
    have := flatAll_get hG he'
    rw [← hkk, he] at this
    cases this
    rcases le_biggest hs hG he' heb with h | h
    · rw [h]; exact hqi
    · exact compareKeys_lt_trans _ _ _ h hqi
  by_cases hend : idx = ts.length
  · -- beyond the last table
    have hcond : ((idx : Int) ≥ ((ts.length : Nat) : Int) ∨ (idx : Int) < 0) := Or.inl (by omega)
    simp only [hcond, if_true]
    have hout := setIdx_out (s := s) (-1) (Or.inl (by omega))
    refine ⟨s.setIdx (-1), rfl, ?_, ?_, ?_⟩
    · unfold CIter.setIdx
      have : ((-1 : Int) < 0 ∨ (-1 : Int) ≥ ((s.iters.length : Nat) : Int)) := Or.inl (by omega)
      simp only [this, if_true]
      exact ⟨hinv.len, hinv.revs⟩
    · unfold CIter.setIdx
      have : ((-1 : Int) < 0 ∨ (-1 : Int) ≥ ((s.iters.length : Nat) : Int)) := Or.inl (by omega)
      simp only [this, if_true]; exact hfw
    · unfold CIter.entry?
      rw [hout]
      symm
      rw [List.find?_eq_none]
      intro e he
      obtain ⟨k, hk⟩ := List.getElem?_of_mem he
      have hall : (flatAll (Gs.take idx)).length = (flatAll Gs).length := by
        rw [hend, hts.1, flatAll_take_all]
      have := hbefore k e (by rw [hall]; exact lt_of_getElem?_some hk) hk
      simp [this]
  · have hidx : idx < ts.length := by omega
    have hcond : ¬ ((idx : Int) ≥ ((ts.length : Nat) : Int) ∨ (idx : Int) < 0) := by omega
    simp only [hcond, if_false]
    obtain ⟨t, ht⟩ := getElem?_some_of_lt ts idx hidx
    obtain ⟨G, hG⟩ := getElem?_some_of_lt Gs idx (by rw [← hts.1]; exact hidx)
    have tok := (hts.2 idx t G ht hG).base
    obtain ⟨eb, heb, _, _, hGpos⟩ := hbig idx t G ht hG
    obtain ⟨it0, hc0, hrev0, hsr0⟩ := setIdx_in_range hinv.len hinv.revs idx hidx
    have hsub : Sorted G.flatten := by
      have : G.flatten ∈ Gs.map List.flatten := List.mem_map.mpr ⟨G, List.mem_of_getElem? hG, rfl⟩
      exact List.Pairwise.sublist (List.sublist_flatten_of_mem this) hs
    have h8' : ∀ g ∈ G, ∀ e ∈ g, 8 ≤ e.key.length := by
      intro g hg e he
      apply h8
      have h1 : e ∈ G.flatten := List.mem_flatten.mpr ⟨g, hg, he⟩
      exact List.mem_flatten.mpr ⟨G.flatten, List.mem_map.mpr ⟨G, List.mem_of_getElem? hG, rfl⟩, h1⟩
    obtain ⟨p, it1, hseek, hrev1, hpn, hA, hB, hin, hout⟩ :=
      seekFrom_ok tok.ok tok.ne tok.Gne hsub h8' it0 key hkey
    have hit0 : it0.reversed = false := by rw [hrev0, hfw]
    have hap : it0.apiSeek env t.core key = some it1 := by
      simp [TIter.apiSeek, hit0, TIter.seek, hseek]
    obtain ⟨hon, hc1, hsr1⟩ := onCur_ok hc0 ht (fun t it => it.apiSeek env t key) hap hrev1
    rw [hon]
    have hqidx := hhi idx (Nat.le_refl _) hidx
    simp only [q, hG, heb, bne_iff_ne, ne_eq] at hqidx
    have hp : p < G.flatten.length := by
      rcases Nat.lt_or_ge p G.flatten.length with h | h
      · exact h
      · exact absurd (hA (G.flatten.length - 1) eb (by omega) heb) hqidx
    obtain ⟨j, r, g, e, hat, hpe⟩ := hin hp
    have hfe : G.flatten[p]? = some e := by rw [hpe]; exact flatten_getElem? G j r g e hat.gj hat.gr
    have hglob := flatAll_get hG hfe
    have hexp := tok.exp g (List.mem_of_getElem? hat.gj) e (List.mem_of_getElem? hat.gr)
    refine ⟨_, rfl, ⟨hc1.len, hc1.revs⟩, by rw [hsr1, hsr0, hfw], ?_⟩
    rw [cat_entry hc1 hat hexp]
    symm
    rw [find?_index (fun e : Entry => compareKeys e.key key != .lt) (flatAll Gs)
      ((flatAll (Gs.take idx)).length + p) ?_ ?_, hglob]
    · intro k e' hk he'
      rcases Nat.lt_or_ge k (flatAll (Gs.take idx)).length with h | h
      · simp [hbefore k e' h he']
      · have hk' : G.flatten[k - (flatAll (Gs.take idx)).length]? = some e' := by
          obtain ⟨e'', he''⟩ := getElem?_some_of_lt G.flatten (k - (flatAll (Gs.take idx)).length) (by omega)
          have := flatAll_get hG he''
          have hkk : (flatAll (Gs.take idx)).length + (k - (flatAll (Gs.take idx)).length) = k := by omega
          rw [hkk, he'] at this
          cases this; exact he''
        simp [hA _ e' (by omega) hk']
    · intro e' he'
      rw [hglob] at he'; cases he'
      simpa using hB e hfe


/-- Reversed `Seek` of a concat iterator: the last entry `≤ key`. -/
theorem cseek_rev {env : Env} {ts : List Table} {Gs : List (List (List Entry))}
    (hts : TabsOK2 env ts Gs) (hs : Sorted (flatAll Gs)) (h8 : ∀ e ∈ flatAll Gs, 8 ≤ e.key.length)
    {s : CIter} (hinv : CInv ts s) (hbw : s.reversed = true) (key : Bytes) (hkey : 8 ≤ key.length) :
    ∃ s', s.seek env ts key = some s' ∧ CInv ts s' ∧ s'.reversed = true ∧
      s'.entry? = (flatAll Gs).reverse.find? (fun e => compareKeys e.key key != .gt) := by
  unfold CIter.seek
  simp only [hbw, Bool.not_true, Bool.false_eq_true, if_false]
  -- the search over `Smallest()`, from the last table backwards
  let q : Nat → Bool := fun i =>
    match Gs[ts.length - 1 - i]? with
    | some G => match G.flatten[0]? with
      | some e0 => compareKeys e0.key key != .gt
      | none => true
    | none => true
  let f : Nat → Unit → Option (Bool × Unit) := fun i (u : Unit) =>
      match ts[ts.length - 1 - i]? with
      | none => none
      | some t => (compareKeysP t.smallest key).bind fun o => some (o != .gt, u)
  have hsmall : ∀ (i : Nat) (t : Table) (G : List (List Entry)), ts[i]? = some t → Gs[i]? = some G →
      ∃ e0, G.flatten[0]? = some e0 ∧ t.smallest = e0.key ∧ 8 ≤ e0.key.length := by
    intro i t G ht hG
    obtain ⟨e0, he0, hsk⟩ := (hts.2 i t G ht hG).small
    have hmem : e0 ∈ flatAll Gs := List.mem_of_getElem? (flatAll_get hG he0)
    exact ⟨e0, he0, hsk, h8 e0 hmem⟩
  have hf : ∀ h (u : Unit), h < ts.length → True → ∃ u', f h u = some (q h, u') ∧ True ∧ True := by
    intro h u hh _
    obtain ⟨t, ht⟩ := getElem?_some_of_lt ts (ts.length - 1 - h) (by omega)
    obtain ⟨G, hG⟩ := getElem?_some_of_lt Gs (ts.length - 1 - h) (by rw [← hts.1]; omega)
    obtain ⟨e0, he0, hsk, h08⟩ := hsmall _ t G ht hG
    refine ⟨(), ?_, trivial, trivial⟩
    simp only [f, ht, q, hG, he0, hsk, compareKeysP]
    have : ¬ (e0.key.length < 8 ∨ key.length < 8) := by omega
    simp [this]
  have hmono : ∀ a b, a ≤ b → b < ts.length → q a = true → q b = true := by
    intro a b hab hb hqa
    obtain ⟨tb, htb⟩ := getElem?_some_of_lt ts (ts.length - 1 - b) (by omega)
    obtain ⟨Gb, hGb⟩ := getElem?_some_of_lt Gs (ts.length - 1 - b) (by rw [← hts.1]; omega)
    obtain ⟨ta, hta⟩ := getElem?_some_of_lt ts (ts.length - 1 - a) (by omega)
    obtain ⟨Ga, hGa⟩ := getElem?_some_of_lt Gs (ts.length - 1 - a) (by rw [← hts.1]; omega)
    obtain ⟨eb, heb, _, _⟩ := hsmall _ tb Gb htb hGb
    obtain ⟨ea, hea, _, _⟩ := hsmall _ ta Ga hta hGa
    simp only [q, hGa, hGb, hea, heb, bne_iff_ne, ne_eq] at hqa ⊢
    rcases Nat.lt_or_ge a b with hlt | hge
    · -- table (n-1-b) comes before table (n-1-a)
      have hposb : 0 < Gb.flatten.length := lt_of_getElem?_some heb
      have h1 := flatAll_take_succ hGb
      have h2 := flatAll_take_mono Gs (show ts.length - 1 - b + 1 ≤ ts.length - 1 - a by omega)
      have hlt' := hs.lt (show (flatAll (Gs.take (ts.length - 1 - b))).length + 0 <
          (flatAll (Gs.take (ts.length - 1 - a))).length + 0 by omega)
        (flatAll_get hGb heb) (flatAll_get hGa hea)
      intro hgt
      apply hqa
      rw [compareKeys_gt_iff] at hgt ⊢
      exact compareKeys_lt_trans _ _ _ hgt hlt'
    · have : a = b := by omega
      subst this
      rw [hGa] at hGb; cases hGb; rw [hea] at heb; cases heb; exact hqa
  obtain ⟨r, _, hsearch, _, _, hrn, hlo, hhi, _⟩ :=
    searchM_spec f (fun _ => True) (fun _ _ => True) q ts.length hf hmono
      ts.length 0 ts.length () rfl (Nat.zero_le _) (Nat.le_refl _) trivial
      (by intro k hk; omega) (by intro k hk hk'; omega)
  show ∃ s', (((searchM f 0 ts.length ()).bind fun x => some ((ts.length : Int) - 1 - (x.1 : Int))).bind fun idx => _) = some s' ∧ _
  rw [hsearch]
  simp only [Option.bind_some]
  -- all entries of the tables after table `n-1-r` are above `key`
  have hafter : ∀ k e, (flatAll (Gs.take (ts.length - r))).length ≤ k → (flatAll Gs)[k]? = some e →
      compareKeys key e.key = .lt := by
    intro k e hk he
    obtain ⟨i, p, G, hG, hp, hkk⟩ := flatAll_split (lt_of_getElem?_some he)
    have hil : i < Gs.length := lt_of_getElem?_some hG
    have hi : ts.length - r ≤ i := by
      rcases Nat.lt_or_ge i (ts.length - r) with h | h
      · have h1 := flatAll_take_succ hG
        have h2 := flatAll_take_mono Gs (show i + 1 ≤ ts.length - r by omega)
        omega
      · exact h
    obtain ⟨t, ht⟩ := getElem?_some_of_lt ts i (by rw [hts.1]; exact hil)
    obtain ⟨e0, he0, _, _⟩ := hsmall i t G ht hG
    have hqi := hlo (ts.length - 1 - i) (by rw [hts.1] at *; omega)
    have hidx : ts.length - 1 - (ts.length - 1 - i) = i := by rw [hts.1] at *; omega
    simp only [q, hidx, hG, he0, bne_eq_false_iff_eq] at hqi
    have hgt := (compareKeys_gt_iff _ _).mp hqi
    obtain ⟨e', he'⟩ := getElem?_some_of_lt G.flatten p hp
    have := flatAll_get hG he'
    rw [← hkk, he] at this
    cases this
    rcases ge_smallest hs hG he' he0 with h | h
    · rw [h]; exact hgt
    · exact compareKeys_lt_trans _ _ _ hgt h
  by_cases hend : r = ts.length
  · -- every table starts above key
    have hcond : (((ts.length : Int) - 1 - (r : Int)) ≥ ((ts.length : Nat) : Int) ∨
        ((ts.length : Int) - 1 - (r : Int)) < 0) := Or.inr (by omega)
    simp only [hcond, if_true]
    have hout := setIdx_out (s := s) (-1) (Or.inl (by omega))
    have hsi : (-1 : Int) < 0 ∨ (-1 : Int) ≥ ((s.iters.length : Nat) : Int) := Or.inl (by omega)
    refine ⟨s.setIdx (-1), rfl, ?_, ?_, ?_⟩
    · unfold CIter.setIdx; simp only [hsi, if_true]; exact ⟨hinv.len, hinv.revs⟩
    · unfold CIter.setIdx; simp only [hsi, if_true]; exact hbw
    · unfold CIter.entry?
      rw [hout]
      symm
      rw [List.find?_eq_none]
      intro e he
      rw [List.mem_reverse] at he
      obtain ⟨k, hk⟩ := List.getElem?_of_mem he
      have h0 : (flatAll (Gs.take (ts.length - r))).length = 0 := by
        rw [hend]; simp [flatAll]
      have := hafter k e (by omega) hk
      simp [(compareKeys_gt_iff _ _).mpr this]
  · have hr : r < ts.length := by omega
    have hcast : ((ts.length : Int) - 1 - (r : Int)) = ((ts.length - 1 - r : Nat) : Int) := by omega
    rw [hcast]
    have hcond : ¬ ((((ts.length - 1 - r : Nat) : Int)) ≥ ((ts.length : Nat) : Int) ∨
        (((ts.length - 1 - r : Nat) : Int)) < 0) := by omega
    simp only [hcond, if_false]
    have hidx : ts.length - 1 - r < ts.length := by omega
    obtain ⟨t, ht⟩ := getElem?_some_of_lt ts (ts.length - 1 - r) hidx
    obtain ⟨G, hG⟩ := getElem?_some_of_lt Gs (ts.length - 1 - r) (by rw [← hts.1]; exact hidx)
    have tok := (hts.2 _ t G ht hG).base
    obtain ⟨e0, he0, _, _⟩ := hsmall _ t G ht hG
    obtain ⟨it0, hc0, hrev0, hsr0⟩ := setIdx_in_range hinv.len hinv.revs (ts.length - 1 - r) hidx
    have hsub : Sorted G.flatten := by
      have : G.flatten ∈ Gs.map List.flatten := List.mem_map.mpr ⟨G, List.mem_of_getElem? hG, rfl⟩
      exact List.Pairwise.sublist (List.sublist_flatten_of_mem this) hs
    have h8' : ∀ g ∈ G, ∀ e ∈ g, 8 ≤ e.key.length := by
      intro g hg e he
      apply h8
      have h1 : e ∈ G.flatten := List.mem_flatten.mpr ⟨g, hg, he⟩
      exact List.mem_flatten.mpr ⟨G.flatten, List.mem_map.mpr ⟨G, List.mem_of_getElem? hG, rfl⟩, h1⟩
    obtain ⟨it1, hseek, hrev1, hcases⟩ :=
      seekForPrev_ok tok.ok tok.ne tok.Gne hsub h8' it0 key hkey
    have hit0 : it0.reversed = true := by rw [hrev0, hbw]
    have hap : it0.apiSeek env t.core key = some it1 := by
      simp [TIter.apiSeek, hit0, hseek]
    obtain ⟨hon, hc1, hsr1⟩ := onCur_ok hc0 ht (fun t it => it.apiSeek env t key) hap hrev1
    rw [hon]
    have hqr := hhi r (Nat.le_refl _) hr
    simp only [q, hG, he0, bne_iff_ne, ne_eq] at hqr
    rcases hcases with ⟨qq, e, j, rr, g, hfe, hle, hhi', hat, _⟩ | ⟨hall, _⟩
    · have hglob := flatAll_get hG hfe
      have hexp := tok.exp g (List.mem_of_getElem? hat.gj) e (List.mem_of_getElem? hat.gr)
      refine ⟨_, rfl, ⟨hc1.len, hc1.revs⟩, by rw [hsr1, hsr0, hbw], ?_⟩
      rw [cat_entry hc1 hat hexp]
      symm
      apply find?_reverse_index (fun e : Entry => compareKeys e.key key != .gt) (flatAll Gs) _ e hglob
      · simp only [bne_iff_ne, ne_eq]
        intro hgt; exact hle ((compareKeys_gt_iff _ _).mp hgt)
      · intro k e' hk he'
        have hnext := flatAll_take_succ hG
        have hsucc : ts.length - 1 - r + 1 = ts.length - r := by omega
        rw [hsucc] at hnext
        rcases Nat.lt_or_ge k (flatAll (Gs.take (ts.length - r))).length with h | h
        · have hk' : G.flatten[k - (flatAll (Gs.take (ts.length - 1 - r))).length]? = some e' := by
            obtain ⟨e'', he''⟩ := getElem?_some_of_lt G.flatten
              (k - (flatAll (Gs.take (ts.length - 1 - r))).length) (by omega)
            have := flatAll_get hG he''
            have hkk : (flatAll (Gs.take (ts.length - 1 - r))).length +
                (k - (flatAll (Gs.take (ts.length - 1 - r))).length) = k := by omega
            rw [hkk, he'] at this
            cases this; exact he''
          have := hhi' _ e' (by omega) hk'
          simp [(compareKeys_gt_iff _ _).mpr this]
        · have := hafter k e' h he'
          simp [(compareKeys_gt_iff _ _).mpr this]
    · exfalso
      have := hall e0 (List.mem_of_getElem? he0)
      exact hqr ((compareKeys_gt_iff _ _).mpr this)

end Badger.Tbl
