import BadgerProofs.Lemmas.CrashStep3
/-!
# Preservation of `Inv` by every scheduler step, and `Inv` of the freshly opened database
-/
namespace Badger

theorem truncChunks_size_ne_zero (n : Nat) (hn : 1 ≤ n) (f : Inode) : (truncChunks n f).size ≠ .zero := by
  unfold truncChunks
  have : n ≠ 0 := by omega
  simp [this]

theorem Inv_atom (R : ViewRel) (s : PState) (F : KFs) (h : Inv R s F) (a : Atom) :
    Inv R (a.eff s) (krun F (a.ops s)) := by
  unfold Atom.eff Atom.ops
  by_cases hg : a.guard s = true
  case neg => simp only [hg]; exact h
  simp only [hg, if_true]
  cases a with
  | sync p =>
    simp only [Atom.rawOps, Atom.rawEff, krun_sync1]
    cases p with
    | mem fid =>
      show Inv R (if fid = s.cur ∧ s.curOpen = true then _ else s) _
      by_cases hc : fid = s.cur ∧ s.curOpen = true
      · rw [if_pos hc]; exact Inv_of_eq R s _ F h (by constructor <;> rfl)
      · rw [if_neg hc]; exact h
    | manifest => exact Inv_of_eq R s _ F h (by constructor <;> rfl)
    | sst id => exact Inv_ksync R s F h id
    | vlog _ => exact h
    | manifestRewrite => exact h
    | keyRegistry => exact h
    | keyRegistryRewrite => exact h
  | syncDir =>
    simp only [Atom.rawOps, Atom.rawEff, krun_syncDir1]
    exact Inv_of_eq R s _ F h (by constructor <;> rfl)
  | zero p => exact h
  | vput k v =>
    simp only [Atom.rawOps, Atom.rawEff, krun_append1]
    have h1 := Inv_upd_vlog R s F h s.vfid ((F (.vlog s.vfid)).map (appendChunk (.vEnt k v))) (by
      intro f hf
      cases hF : F (.vlog s.vfid) with
      | none => simp [hF] at hf
      | some f0 => simp [hF] at hf; subst hf; exact appendChunk_size_ne_zero _ _)
    exact ⟨h1.logic, h1.manifest, h1.mem, h1.sst, h1.vlogNZ⟩
  | vtrunc =>
    simp only [Atom.rawOps, Atom.rawEff, krun_truncate1]
    have hv : 1 ≤ s.vchunks := by simpa [Atom.guard] using hg
    exact Inv_upd_vlog R s F h s.vfid _ (by
      intro f hf
      cases hF : F (.vlog s.vfid) with
      | none => simp [hF] at hf
      | some f0 => simp [hF] at hf; subst hf; exact truncChunks_size_ne_zero _ hv _)
  | vrot =>
    simp only [Atom.rawOps, Atom.rawEff, krun_mkFile]
    have h1 := Inv_upd_vlog R s F h (s.vfid + 1) (some { chunks := [], size := .alloc }) (by
      intro f hf; injection hf with hf; subst hf; simp)
    exact ⟨h1.logic, h1.manifest, h1.mem, h1.sst, h1.vlogNZ⟩
  | vhdr =>
    simp only [Atom.rawOps, Atom.rawEff, krun_append1]
    have h1 := Inv_upd_vlog R s F h s.vfid ((F (.vlog s.vfid)).map (appendChunk .hdr)) (by
      intro f hf
      cases hF : F (.vlog s.vfid) with
      | none => simp [hF] at hf
      | some f0 => simp [hF] at hf; subst hf; exact appendChunk_size_ne_zero _ _)
    exact ⟨h1.logic, h1.manifest, h1.mem, h1.sst, h1.vlogNZ⟩
  | pushImm =>
    simp only [Atom.rawOps, Atom.rawEff, krun_nil]
    have hg' : s.curOpen = true ∧ s.pending = [] := by
      simp only [Atom.guard, Bool.and_eq_true] at hg
      exact ⟨hg.1.1, by simpa using hg.1.2⟩
    exact Inv_pushImm R s F h hg'.1 hg'.2
  | newMem =>
    simp only [Atom.rawOps, Atom.rawEff, krun_mkFile]
    have hg' : s.curOpen = false ∧ s.pending = [] := by simpa [Atom.guard] using hg
    exact Inv_of_eq R _ _ _ (Inv_newMem R s F h hg'.1 hg'.2) (by constructor <;> rfl)
  | mhdr =>
    simp only [Atom.rawOps, Atom.rawEff, krun_append1]
    have hg' : s.curOpen = true ∧ s.curHdr = false := by simpa [Atom.guard] using hg
    exact Inv_mhdr R s F h hg'.1 hg'.2
  | wput e =>
    simp only [Atom.rawOps, Atom.rawEff, krun_append1]
    have hg' : (s.curOpen = true ∧ s.curHdr = true) ∧ s.inflight.isSome = true := by simpa [Atom.guard] using hg
    exact Inv_of_eq R _ _ _ (Inv_wput R s F h e hg'.1.1 hg'.1.2) (by constructor <;> rfl)
  | fin =>
    simp only [Atom.rawOps, Atom.rawEff, krun_append1]
    cases hinf : s.inflight with
    | none => simp [Atom.guard, hinf] at hg
    | some t =>
      have hg' : (((s.curOpen = true ∧ s.curHdr = true) ∧ s.pending = t.ents) ∧ ¬ t.ents = []) ∧ ¬ t.ts = 0 := by
        simpa [Atom.guard, hinf] using hg
      have := Inv_fin R s F h t hinf hg'.1.1.1.1 hg'.1.1.1.2 hg'.1.1.2 hg'.1.2 hg'.2
      have hpts : s.pts = t.ts := by simp [PState.pts, hinf]
      rw [hpts] at this
      simp only [Option.map_some, Option.getD_some]
      exact Inv_of_eq R _ _ _ this (by constructor <;> rfl)
  | ack =>
    simp only [Atom.rawOps, Atom.rawEff, krun_nil]
    have hg' : s.acked < s.done := by
      simp only [Atom.guard, Bool.and_eq_true] at hg
      simpa using hg.1
    have hl := h.logic
    exact ⟨⟨hl.view, by show s.acked + 1 ≤ s.done; omega, hl.done_le, hl.infl⟩, h.manifest, h.mem, h.sst, h.vlogNZ⟩
  | kmk id =>
    simp only [Atom.rawOps, Atom.rawEff, krun_mkFile]
    have hg' : ((s.kout.any (fun o => o.id == id && o.stage == 0) = true ∧ s.flusherHolds id = false) ∧
        (aget id s.tset).isNone = true) ∧ (aget id s.tsetD).isNone = true := by simpa [Atom.guard] using hg
    exact Inv_kmk R s F h id hg'.1.1.1 hg'.1.1.2 hg'.1.2
  | kwrite id =>
    have hg' : ((s.kout.any (fun o => o.id == id && o.stage == 1) = true ∧ s.flusherHolds id = false) ∧
        (aget id s.tset).isNone = true) ∧ (aget id s.tsetD).isNone = true := by simpa [Atom.guard] using hg
    obtain ⟨o, ho, hoid⟩ := List.any_eq_true.mp hg'.1.1.1
    have hoid' : o.id = id ∧ o.stage = 1 := by simpa using hoid
    have hfind : s.kout.find? (fun x => x.id == id) = some o := by
      rw [← hoid'.1]; exact find?_id_of_nodup _ h.sst.koutNodup o ho
    simp only [Atom.rawOps, Atom.rawEff, hfind, krun_append1]
    exact Inv_kwrite R s F h id o ho hoid'.1 hoid'.2 hg'.1.1.2 hg'.1.2
  | kmset =>
    simp only [Atom.rawOps, Atom.rawEff, krun_append1]
    have hg1 : s.kins ≠ [] := by
      intro e; simp [Atom.guard, e] at hg
    cases happ : applyMSet s.tset (kmsetChanges s) with
    | none => simp [Atom.guard, happ] at hg
    | some t' =>
      have hst : ∀ o ∈ s.kout, o.stage = 3 ∧ aget o.id s.tset = none := by
        intro o ho
        have : s.kout.all (fun o => o.stage == 3 && (aget o.id s.tset).isNone) = true := by
          simp only [Atom.guard, Bool.and_eq_true] at hg
          exact hg.1.1.1.1.1.1.1.1.2
        have := List.all_eq_true.mp this o ho
        simpa using this
      have hf5 : s.imm ≠ [] → 5 ≤ s.fpc → s.fsst ∉ s.kins := by
        intro hi h5 hin
        have : (!(!s.imm.isEmpty && decide (5 ≤ s.fpc) && s.kins.contains s.fsst)) = true := by
          simp only [Atom.guard, Bool.and_eq_true] at hg
          exact hg.2
        have hie : s.imm.isEmpty = false := by
          cases hx : s.imm with
          | nil => exact absurd hx hi
          | cons _ _ => rfl
        simp [hie, h5, hin] at this
      have := Inv_kmset R s F h t' hg1 hst happ hf5
      simp only [happ, Option.getD_some]
      exact Inv_of_eq R _ _ _ this (by constructor <;> rfl)
  | kdel id =>
    simp only [Atom.rawOps, Atom.rawEff, krun_delFile]
    have hg' : (((s.kdelq.contains id = true ∧ (aget id s.tset).isNone = true) ∧ s.flusherHolds id = false) ∧
        s.kout.any (fun o => o.id == id) = false) ∧ s.mdirty = false := by simpa [Atom.guard] using hg
    exact Inv_kdel R s F h id hg'.1.1.1.2 hg'.1.1.2 hg'.1.2

theorem Inv_flushAtom (R : ViewRel) (s s' : PState) (F : KFs) (h : Inv R s F) (ops : List FsOp)
    (hf : flushAtom s = some (ops, s')) : Inv R s' (krun F ops) := by
  unfold flushAtom at hf
  cases hi : s.imm with
  | nil => rw [hi] at hf; cases hf
  | cons k rest =>
    rw [hi] at hf
    simp only at hf
    have hne : s.imm ≠ [] := by rw [hi]; simp
    have hhead : s.imm.head? = some k := by rw [hi]; rfl
    by_cases hE : (s.memEnts k).isEmpty = true
    · rw [if_pos hE] at hf
      injection hf with hf; injection hf with h1 h2
      subst h1; subst h2
      rw [krun_delFile]
      have := Inv_flushDel R s F h k rest hi (by
        intro e he
        have : s.memEnts k = [] := by simpa using hE
        rw [this] at he; simp at he)
      exact Inv_of_eq R _ _ _ this (by constructor <;> rfl)
    · rw [if_neg hE] at hf
      -- case analysis on the flusher's program counter
      rcases Nat.lt_or_ge s.fpc 6 with hlt | hge
      · have : s.fpc = 0 ∨ s.fpc = 1 ∨ s.fpc = 2 ∨ s.fpc = 3 ∨ s.fpc = 4 ∨ s.fpc = 5 := by omega
        rcases this with hp | hp | hp | hp | hp | hp
        · rw [hp] at hf
          injection hf with hf; injection hf with h1 h2
          subst h1; subst h2
          rw [krun_mkFile]
          exact Inv_of_eq R _ _ _ (Inv_flush0 R s F h hne hp) (by constructor <;> first | rfl | exact hi.symm)
        · rw [hp] at hf
          simp only at hf
          by_cases hgd : ((aget s.fsst s.tset).isNone = true ∧ (!s.kout.any (fun o => o.id == s.fsst)) = true) ∧ (aget s.fsst s.tsetD).isNone = true
          · rw [if_pos hgd] at hf
            injection hf with hf; injection hf with h1 h2
            subst h1; subst h2
            rw [krun_append1]
            have hko : ∀ o ∈ s.kout, o.id ≠ s.fsst := by
              intro o ho e
              have : s.kout.any (fun o => o.id == s.fsst) = true := List.any_eq_true.mpr ⟨o, ho, by simp [e]⟩
              have h2 := hgd.1.2; rw [this] at h2; cases h2
            exact Inv_of_eq R _ _ _ (Inv_flush1 R s F h k rest hi hp (by simpa using hgd.1.1) hko)
              (by constructor <;> first | rfl | exact hi.symm)
          · rw [if_neg hgd] at hf; cases hf
        · rw [hp] at hf
          injection hf with hf; injection hf with h1 h2
          subst h1; subst h2
          exact Inv_of_eq R _ _ _ (Inv_flushMid R s F h (if s.cfg.dirSyncFix then 3 else 4) (by omega) (by omega)
            (by split <;> omega) (by split <;> omega)) (by constructor <;> first | rfl | exact hi.symm)
        · rw [hp] at hf
          injection hf with hf; injection hf with h1 h2
          subst h1; subst h2
          exact Inv_of_eq R _ _ _ (Inv_flushMid R s F h 4 (by omega) (by omega) (by omega) (by omega))
            (by constructor <;> first | rfl | exact hi.symm)
        · rw [hp] at hf
          simp only at hf
          by_cases hgd : (aget s.fsst s.tset).isNone = true ∧ (!s.mdirty) = true
          · rw [if_pos hgd] at hf
            injection hf with hf; injection hf with h1 h2
            subst h1; subst h2
            rw [krun_append1]
            exact Inv_of_eq R _ _ _ (Inv_flush4 R s F h k rest hi hp (by simpa using hgd.1))
              (by constructor <;> first | rfl | exact hi.symm)
          · rw [if_neg hgd] at hf; cases hf
        · rw [hp] at hf
          injection hf with hf; injection hf with h1 h2
          subst h1; subst h2
          exact Inv_of_eq R _ _ _ (Inv_flush5 R s F h hp) (by constructor <;> first | rfl | exact hi.symm)
      · -- fpc ≥ 6: the WAL is deleted
        have hf' : some (delFile (.mem k), { s with imm := rest, fpc := 0, pendU := (k, s.fsst) :: s.pendU }) = some (ops, s') := by
          have : ∃ m, s.fpc = m + 6 := ⟨s.fpc - 6, by omega⟩
          obtain ⟨m, hm⟩ := this
          rw [hm] at hf
          exact hf
        injection hf' with hf'; injection hf' with h1 h2
        subst h1; subst h2
        rw [krun_delFile]
        obtain ⟨h5a, h5b⟩ := h.sst.flush5 k hhead (by omega)
        refine Inv_of_eq R _ _ _ (Inv_flushDel R s F h k rest hi ?_) (by constructor <;> rfl)
        intro e he
        cases hg : aget s.fsst s.tset with
        | none => rw [hg] at h5a; cases h5a
        | some lvl =>
          rw [mem_flatten_map]
          exact ⟨(s.fsst, lvl), aget_mem _ _ _ hg, by show e ∈ entsOfTable s.tcont s.fsst; rw [h5b]; exact he⟩

/-- the side condition of `SchedHistOk` for one step -/
def StepOk (R : ViewRel) (p : PState) : Sched → Prop
  | .compact ins outs => R.r (outs.map (·.2)).flatten (ins.map p.tableEnts).flatten
  | _ => True

theorem Inv_step (R : ViewRel) (s : PState) (F : KFs) (h : Inv R s F) (x : Sched) (hx : StepOk R s x) :
    Inv R (s.step x).2 (krun F (s.step x).1) := by
  cases x with
  | commit ents rot =>
    simp only [PState.step]
    split
    · rename_i hc
      simp only [krun_nil]
      have hinf : s.inflight = none := by
        have := hc.2.1; cases hh : s.inflight with
        | none => rfl
        | some _ => simp [hh] at this
      have hp : s.pending = [] := by simpa using hc.2.2.1
      exact Inv_commitStart R s F h _ _ _ hinf hp
    · exact h
  | flushReq =>
    simp only [PState.step]
    split
    · exact Inv_wq R s F h _
    · exact h
  | compact ins outs =>
    simp only [PState.step]
    split
    · rename_i hc
      simp only [krun_nil]
      have hins : ∀ id ∈ ins, (aget id s.tset).isSome = true := by
        have := hc.2.2.2.2.2.1
        intro id hid
        exact (List.all_eq_true.mp this) id hid
      exact Inv_of_eq R _ _ _ (Inv_compactStart R s F h (compactProg ((List.range outs.length).map (· + s.nextSst)) ins) ins outs hins hx) (by constructor <;> rfl)
    · exact h
  | w =>
    simp only [PState.step]
    cases hw : s.wq with
    | nil => exact h
    | cons a rest =>
      simp only
      exact Inv_wq R _ _ (Inv_atom R s F h a) rest
  | f =>
    simp only [PState.step]
    cases hf : flushAtom s with
    | none => exact h
    | some r =>
      obtain ⟨ops, s'⟩ := r
      exact Inv_flushAtom R s s' F h ops hf

end Badger
