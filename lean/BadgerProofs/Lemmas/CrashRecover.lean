import BadgerModel.Protocol
import BadgerProofs.Lemmas.CrashFs
/-!
# Lemmas about `recover`: WAL replay keeps exactly the complete transactions, MANIFEST replay
# is a fold over the change sets, and `Open` succeeds on an image described pointwise.
-/
namespace Badger

/-! ## WAL -/

/-- the records of one committed transaction -/
def txnChunks (t : Txn) : List Chunk := t.ents.map (Chunk.walEnt t.ts) ++ [Chunk.walFin t.ts]

def txnsChunks (ts : List Txn) : List Chunk := (ts.map txnChunks).flatten

theorem scanWal_ents_in (ts : Nat) (hts : ts ≠ 0) (es : List CEnt) (pend : List CEnt) (pos valid : Nat)
    (acc : List CEnt) (rest : List Chunk) :
    scanWal ts pend pos valid acc (es.map (Chunk.walEnt ts) ++ rest) =
      scanWal ts (pend ++ es) (pos + es.length) valid acc rest := by
  induction es generalizing pend pos with
  | nil => simp
  | cons e es ih =>
    simp only [List.map, List.cons_append, scanWal, hts, if_false]
    simp only [ne_eq, not_true_eq_false, if_false]
    rw [ih]
    simp [Nat.add_assoc, Nat.add_comm 1]

theorem scanWal_txn (t : Txn) (hts : t.ts ≠ 0) (he : t.ents ≠ []) (pos valid : Nat)
    (acc : List CEnt) (rest : List Chunk) :
    scanWal 0 [] pos valid acc (txnChunks t ++ rest) =
      scanWal 0 [] (pos + t.ents.length + 1) (pos + t.ents.length + 1) (acc ++ t.ents) rest := by
  unfold txnChunks
  cases hE : t.ents with
  | nil => exact absurd hE he
  | cons e es =>
    simp only [List.map, List.cons_append, List.append_assoc, scanWal, if_true]
    simp only [ne_eq, not_true_eq_false, if_false]
    rw [scanWal_ents_in t.ts hts]
    simp only [List.cons_append, List.nil_append, scanWal, ne_eq, not_true_eq_false, if_false]
    simp [Nat.add_assoc, Nat.add_comm 1, Nat.add_left_comm]

def TxnsOk (ts : List Txn) : Prop := ∀ t ∈ ts, t.ts ≠ 0 ∧ t.ents ≠ []

theorem scanWal_txns (ts : List Txn) (hok : TxnsOk ts) (pos valid : Nat) (acc : List CEnt)
    (rest : List Chunk) :
    ∃ pos' valid', scanWal 0 [] pos valid acc (txnsChunks ts ++ rest) =
      scanWal 0 [] pos' valid' (acc ++ txnsEnts ts) rest := by
  induction ts generalizing pos valid acc with
  | nil => exact ⟨pos, valid, by simp [txnsChunks, txnsEnts]⟩
  | cons t ts ih =>
    have h1 := hok t (List.mem_cons_self)
    have hok' : TxnsOk ts := fun x hx => hok x (List.mem_cons_of_mem _ hx)
    simp only [txnsChunks, List.map, List.flatten_cons, List.append_assoc]
    rw [scanWal_txn t h1.1 h1.2]
    obtain ⟨p', v', h⟩ := ih hok' (pos + t.ents.length + 1) (pos + t.ents.length + 1) (acc ++ t.ents)
    refine ⟨p', v', ?_⟩
    simp only [txnsChunks] at h
    rw [h]
    simp [txnsEnts, List.append_assoc]

/-- an unfinished transaction at the end of the log is not delivered -/
theorem scanWal_partial (ts : Nat) (es : List CEnt) (pos valid : Nat) (acc : List CEnt) :
    (scanWal 0 [] pos valid acc (es.map (Chunk.walEnt ts))).ents = acc := by
  cases es with
  | nil => simp [scanWal]
  | cons e es =>
    by_cases hts : ts = 0
    · subst hts
      -- `lastCommit` stays 0: every record re-enters the "first record" case
      have key : ∀ (es : List CEnt) (pend : List CEnt) (pos : Nat),
          (scanWal 0 pend pos valid acc (es.map (Chunk.walEnt 0))).ents = acc := by
        intro es
        induction es with
        | nil => intro pend pos; simp [scanWal]
        | cons e es ih => intro pend pos; simp only [List.map, scanWal]; simpa using ih _ _
      exact key _ _ _
    · simp only [List.map, scanWal, if_true, ne_eq, not_true_eq_false, if_false]
      have := scanWal_ents_in ts hts es ([] ++ [e]) (pos + 1) valid acc []
      simp only [List.append_nil] at this
      rw [this]
      simp [scanWal]

/-- the shape of a WAL file the protocol maintains: header (once written), the complete
    transactions, the records of the transaction in flight -/
def walChunks (hdr : Bool) (ts : List Txn) (pts : Nat) (pend : List CEnt) : List Chunk :=
  if hdr then Chunk.hdr :: (txnsChunks ts ++ pend.map (Chunk.walEnt pts)) else []

theorem replayLog_walChunks (hdr : Bool) (ts : List Txn) (hok : TxnsOk ts) (pts : Nat) (pend : List CEnt)
    (hnh : hdr = false → ts = []) :
    (replayLog (walChunks hdr ts pts pend)).ents = txnsEnts ts := by
  unfold walChunks
  cases hdr with
  | false => simp [replayLog, hnh rfl, txnsEnts]
  | true =>
    simp only [if_true, replayLog]
    obtain ⟨p', v', h⟩ := scanWal_txns ts hok 1 1 [] (pend.map (Chunk.walEnt pts))
    rw [h, scanWal_partial]
    simp

/-! ## MANIFEST -/

theorem replayMSets_append (t : List (Nat × Nat)) (a b : List Chunk) :
    replayMSets t (a ++ b) = (replayMSets t a).bind (fun t' => replayMSets t' b) := by
  induction a generalizing t with
  | nil => simp [replayMSets]
  | cons c cs ih =>
    cases c with
    | mset m =>
      simp only [List.cons_append, replayMSets]
      cases applyMSet t m with
      | none => simp
      | some t' => simpa using ih t'
    | hdr => simp [replayMSets]
    | walEnt _ _ => simp [replayMSets]
    | walFin _ => simp [replayMSets]
    | walPlain _ => simp [replayMSets]
    | vEnt _ _ => simp [replayMSets]
    | table _ => simp [replayMSets]
    | mhdr => simp [replayMSets]
    | kreg => simp [replayMSets]

/-- the MANIFEST the protocol maintains -/
def ManifestOk (F : KFs) (tset : List (Nat × Nat)) : Prop :=
  ∃ sets sz, F .manifest = some { chunks := Chunk.mhdr :: sets, size := sz } ∧ replayMSets [] sets = some tset

theorem ManifestOk_append (F : KFs) (tset tset' : List (Nat × Nat)) (cs : List MChange)
    (h : ManifestOk F tset) (ha : applyMSet tset cs = some tset') :
    ManifestOk (kstep F (.append .manifest (.mset cs))) tset' := by
  obtain ⟨sets, sz, hf, hr⟩ := h
  refine ⟨sets ++ [.mset cs], (if sz = .alloc then .alloc else .tight), ?_, ?_⟩
  · simp [kstep, hf, appendChunk]
  · rw [replayMSets_append, hr]
    simp [replayMSets, ha]

/-! ## directory listings -/

theorem mem_listFiles (F : KFs) (mk : Nat → Path) (B : Nat) (x : Nat × Inode) :
    x ∈ listFiles F mk B ↔ x.1 < B ∧ F (mk x.1) = some x.2 := by
  unfold listFiles
  simp only [List.mem_filterMap, List.mem_range]
  constructor
  · rintro ⟨n, hn, h⟩
    cases hF : F (mk n) with
    | none => simp [hF] at h
    | some f => simp [hF] at h; subst h; exact ⟨hn, hF⟩
  · rintro ⟨hn, h⟩
    exact ⟨x.1, hn, by simp [h]⟩

/-! ## the pieces of `Open` -/

theorem openMems_ok (l : List (Nat × Inode)) (h : ∀ x ∈ l, x.2.size ≠ .zero) :
    ∃ imms ops, openMems false false l = .ok (imms, ops) ∧
      ∀ e, e ∈ (imms.map (·.2)).flatten ↔ ∃ x ∈ l, e ∈ (replayLog x.2.chunks).ents := by
  induction l with
  | nil => exact ⟨[], [], rfl, by simp⟩
  | cons x xs ih =>
    obtain ⟨fid, f⟩ := x
    have hx : f.size ≠ .zero := h (fid, f) List.mem_cons_self
    obtain ⟨imms, ops, he, hm⟩ := ih (fun y hy => h y (List.mem_cons_of_mem _ hy))
    by_cases hE : (replayLog f.chunks).ents.isEmpty
    · simp only [openMems, hx, if_false, Bool.false_eq_true, false_and, he, hE, if_true]
      refine ⟨_, _, rfl, ?_⟩
      intro e
      rw [hm]
      have : (replayLog f.chunks).ents = [] := by simpa using hE
      simp [this]
    · simp only [openMems, hx, if_false, Bool.false_eq_true, false_and, he, hE]
      refine ⟨_, _, rfl, ?_⟩
      intro e
      simp only [List.map, List.flatten_cons, List.mem_append, hm, List.mem_cons, exists_eq_or_imp]

theorem openTables_ok (F : KFs) (cont : Nat → List CEnt) (t : List (Nat × Nat))
    (h : ∀ x ∈ t, ∃ f, F (.sst x.1) = some f ∧ f.chunks = [.table (cont x.1)]) :
    openTables F t = .ok (t.map (fun x => { id := x.1, level := x.2, ents := cont x.1 })) := by
  induction t with
  | nil => rfl
  | cons x xs ih =>
    obtain ⟨id, lvl⟩ := x
    obtain ⟨f, hf, hc⟩ := h (id, lvl) List.mem_cons_self
    simp only [openTables, hf, hc, ih (fun y hy => h y (List.mem_cons_of_mem _ hy)), List.map]

theorem openVlogs_ok (ro : Bool) (m : Nat) (l : List (Nat × Inode)) (h : ∀ x ∈ l, x.2.size ≠ .zero) :
    ∃ ops, openVlogs false ro m l = .ok ops := by
  induction l with
  | nil => exact ⟨[], rfl⟩
  | cons x xs ih =>
    obtain ⟨fid, f⟩ := x
    have hx : f.size ≠ .zero := h (fid, f) List.mem_cons_self
    obtain ⟨ops, he⟩ := ih (fun y hy => h y (List.mem_cons_of_mem _ hy))
    simp only [openVlogs, hx, if_false, he]
    exact ⟨_, rfl⟩

theorem maxVer_ge (es : List CEnt) (e : CEnt) (h : e ∈ es) : e.ver ≤ maxVer es := by
  unfold maxVer
  have key : ∀ (l : List CEnt) (a : Nat), (a ≤ l.foldl (fun m e => max m e.ver) a) ∧
      (∀ e ∈ l, e.ver ≤ l.foldl (fun m e => max m e.ver) a) := by
    intro l
    induction l with
    | nil => intro a; simp
    | cons x xs ih =>
      intro a
      simp only [List.foldl_cons]
      obtain ⟨h1, h2⟩ := ih (max a x.ver)
      refine ⟨Nat.le_trans (Nat.le_max_left _ _) h1, ?_⟩
      intro e he
      rcases List.mem_cons.mp he with he | he
      · subst he; exact Nat.le_trans (Nat.le_max_right _ _) h1
      · exact h2 e he
  exact (key es 0).2 e h

/-- `Open` succeeds on a directory described pointwise, and returns exactly the tables of the
    MANIFEST and the complete transactions of every `.mem` file. -/
theorem recoverF_ok (F : KFs) (B : Nat) (tset : List (Nat × Nat)) (cont : Nat → List CEnt)
    (hm : ManifestOk F tset)
    (ht : ∀ x ∈ tset, ∃ f, F (.sst x.1) = some f ∧ f.chunks = [.table (cont x.1)])
    (hw : ∀ n f, F (.mem n) = some f → f.size ≠ .zero)
    (hv : ∀ n f, F (.vlog n) = some f → f.size ≠ .zero) :
    ∃ r, recoverF false F B = .ok r ∧
      r.tables = tset.map (fun x => { id := x.1, level := x.2, ents := cont x.1 }) ∧
      (∀ e, e ∈ (r.imms.map (·.2)).flatten ↔
        ∃ n f, n < B ∧ F (.mem n) = some f ∧ e ∈ (replayLog f.chunks).ents) ∧
      r.nextTxnTs = max (maxVer (r.imms.map (·.2)).flatten) (maxVer (r.tables.map (·.ents)).flatten) + 1 := by
  obtain ⟨sets, sz, hf, hr⟩ := hm
  have hmem : ∀ x ∈ listFiles F .mem B, x.2.size ≠ .zero := by
    intro x hx; exact hw x.1 x.2 ((mem_listFiles F .mem B x).mp hx).2
  have hvl : ∀ x ∈ listFiles F .vlog B, x.2.size ≠ .zero := by
    intro x hx; exact hv x.1 x.2 ((mem_listFiles F .vlog B x).mp hx).2
  obtain ⟨imms, mops, hom, himm⟩ := openMems_ok _ hmem
  obtain ⟨vops, hov⟩ := openVlogs_ok false (lastFid (listFiles F .vlog B)) _ hvl
  have hot := openTables_ok F cont tset ht
  unfold recoverF recoverG
  simp only [hf, replayManifest, hr, hom, hot, hov]
  refine ⟨_, rfl, ?_, ?_, ?_⟩
  · rfl
  · intro e
    rw [himm]
    constructor
    · rintro ⟨x, hx, he⟩
      have := (mem_listFiles F .mem B x).mp hx
      exact ⟨x.1, x.2, this.1, this.2, he⟩
    · rintro ⟨n, f, hn, hF, he⟩
      exact ⟨(n, f), (mem_listFiles F .mem B (n, f)).mpr ⟨hn, hF⟩, he⟩
  · rfl

end Badger
