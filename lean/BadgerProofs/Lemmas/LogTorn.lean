import BadgerProofs.Lemmas.LogUnits
/-!
Cutting a log at an arbitrary byte: `take c (encodeAll …)` is the complete units that fit, then
complete records of at most one open transaction, then a strict prefix of the next record.
-/
namespace Badger

/-- The longest prefix of the units `us` (written from `off`) that lies entirely within the first
    `c` bytes. -/
def unitsBefore (cipher : Nat → Nat → UInt8) : Nat → Nat → List LogUnit → List LogUnit
  | _, _, [] => []
  | off, c, u :: us =>
    if encLen cipher off u.entries ≤ c then
      u :: unitsBefore cipher (off + encLen cipher off u.entries) (c - encLen cipher off u.entries) us
    else []

/-- The torn candidate record: file offset of the first record that does not lie entirely within
    the first `c` bytes, and the bytes of it that survive the cut. -/
def tornAt (cipher : Nat → Nat → UInt8) : Nat → Nat → List Entry → Nat × Bytes
  | off, _, [] => (off, [])
  | off, c, e :: es =>
    if (encodeEntry (cipher off) e).length ≤ c then
      tornAt cipher (off + (encodeEntry (cipher off) e).length) (c - (encodeEntry (cipher off) e).length) es
    else (off, (encodeEntry (cipher off) e).take c)

section
variable (fid : Nat) (cipher : Nat → Nat → UInt8)

theorem encLen_cons (off : Nat) (e : Entry) (es : List Entry) :
    encLen cipher off (e :: es) = (encodeEntry (cipher off) e).length +
      encLen cipher (off + (encodeEntry (cipher off) e).length) es := by
  simp [encLen, encodeAll]

theorem encLen_append (off : Nat) (a b : List Entry) :
    encLen cipher off (a ++ b) = encLen cipher off a + encLen cipher (off + encLen cipher off a) b := by
  simp [encLen, encodeAll_append]

theorem tornAt_append (a : List Entry) : ∀ (off c : Nat) (b : List Entry), encLen cipher off a ≤ c →
    tornAt cipher off c (a ++ b) =
      tornAt cipher (off + encLen cipher off a) (c - encLen cipher off a) b := by
  induction a with
  | nil => intro off c b _; simp [encLen, encodeAll]
  | cons e es ih =>
    intro off c b h
    rw [encLen_cons] at h
    simp only [List.cons_append, tornAt]
    rw [if_pos (by omega), ih _ _ _ (by omega), encLen_cons]
    congr 1 <;> omega

/-- Cutting inside a list of records: complete records `p`, then a strict prefix of the next. -/
theorem take_entries (es : List Entry) : ∀ (off c : Nat) (more : List Entry), c < encLen cipher off es →
    ∃ p e q j, es = p ++ e :: q ∧ j < (encodeEntry (cipher (off + encLen cipher off p)) e).length ∧
      (encodeAll cipher off es).take c =
        encodeAll cipher off p ++ (encodeEntry (cipher (off + encLen cipher off p)) e).take j ∧
      tornAt cipher off c (es ++ more) =
        (off + encLen cipher off p, (encodeEntry (cipher (off + encLen cipher off p)) e).take j) := by
  induction es with
  | nil => intro off c more h; simp [encLen, encodeAll] at h
  | cons e es ih =>
    intro off c more h
    rw [encLen_cons] at h
    by_cases hc : (encodeEntry (cipher off) e).length ≤ c
    · obtain ⟨p, e', q, j, hes, hj, htake, htorn⟩ :=
        ih (off + (encodeEntry (cipher off) e).length) (c - (encodeEntry (cipher off) e).length) more
          (by omega)
      refine ⟨e :: p, e', q, j, by simp [hes], ?_, ?_, ?_⟩
      · rw [encLen_cons, ← Nat.add_assoc]; exact hj
      · simp only [encodeAll]
        rw [List.take_append, List.take_of_length_le hc, htake, encLen_cons, ← Nat.add_assoc]
        simp
      · simp only [List.cons_append, tornAt]
        rw [if_pos hc, htorn, encLen_cons, ← Nat.add_assoc]
    · refine ⟨[], e, es, c, rfl, by simp [encLen, encodeAll]; omega, ?_, ?_⟩
      · simp only [encodeAll, encLen, List.length_nil, Nat.add_zero, List.nil_append]
        rw [List.take_append_of_le_length (by omega)]
      · simp only [List.cons_append, tornAt]
        rw [if_neg hc]; simp [encLen, encodeAll]

theorem LogUnit.entries_WF (u : LogUnit) (wf : u.WF) : ∀ e ∈ u.entries, e.WF := by
  cases u with
  | single e => intro x hx; simp [LogUnit.entries] at hx; subst hx; exact wf.1
  | txn ts es fin =>
    obtain ⟨_, _, hes, wff, _⟩ := wf
    intro x hx
    simp only [LogUnit.entries, List.mem_append, List.mem_cons, List.mem_nil_iff, or_false] at hx
    rcases hx with hx | hx
    · exact (hes x hx).1
    · subst hx; exact wff

/-- A proper prefix of the records of a unit consists of records of its open transaction. -/
theorem LogUnit.prefix_txn (u : LogUnit) (wf : u.WF) (p : List Entry) (e : Entry) (q : List Entry)
    (h : u.entries = p ++ e :: q) : ∃ ts, ts ≠ 0 ∧ ∀ x ∈ p, TxnEntry ts x := by
  cases u with
  | single e0 =>
    refine ⟨1, by decide, ?_⟩
    simp only [LogUnit.entries] at h
    have : p = [] := by
      cases p with
      | nil => rfl
      | cons a as => simp at h
    subst this; simp
  | txn ts es fin =>
    obtain ⟨hts, _, hes, _⟩ := wf
    refine ⟨ts, hts, fun x hx => hes x ?_⟩
    simp only [LogUnit.entries] at h
    have hl : p.length ≤ es.length := by
      have := congrArg List.length h
      simp at this; omega
    have hp : p = (es ++ [fin]).take p.length := by rw [h]; simp
    rw [List.take_append_of_le_length hl] at hp
    rw [hp] at hx
    exact List.mem_of_mem_take hx

/-- The shape of a cut log: complete units, then complete records `p` of one open transaction,
    then the surviving bytes `tail` of the torn record (as located by `tornAt`), which are either
    nothing or a strict prefix of a well-formed record. -/
theorem take_units (us : List LogUnit) : ∀ (off c : Nat), (∀ u ∈ us, u.WF) →
    ∃ ts p tail, ts ≠ 0 ∧ (∀ e ∈ p, TxnEntry ts e) ∧
      (encodeAll cipher off (unitsEntries us)).take c =
        encodeAll cipher off (unitsEntries (unitsBefore cipher off c us) ++ p) ++ tail ∧
      tornAt cipher off c (unitsEntries us) =
        (off + encLen cipher off (unitsEntries (unitsBefore cipher off c us) ++ p), tail) ∧
      (tail = [] ∨ ∃ ks e j, e.WF ∧ j < (encodeEntry ks e).length ∧ tail = (encodeEntry ks e).take j) := by
  induction us with
  | nil =>
    intro off c _
    exact ⟨1, [], [], by decide, by simp, by simp [unitsEntries, unitsBefore, encodeAll],
      by simp [unitsEntries, unitsBefore, tornAt, encLen, encodeAll], Or.inl rfl⟩
  | cons u us ih =>
    intro off c wf
    have wfu := wf u (by simp)
    by_cases hc : encLen cipher off u.entries ≤ c
    · obtain ⟨ts, p, tail, hts, hp, htake, htorn, htail⟩ :=
        ih (off + encLen cipher off u.entries) (c - encLen cipher off u.entries)
          (fun x hx => wf x (by simp [hx]))
      refine ⟨ts, p, tail, hts, hp, ?_, ?_, htail⟩
      · rw [unitsEntries_cons, encodeAll_append, List.take_append,
          List.take_of_length_le (by unfold encLen at hc; exact hc)]
        simp only [unitsBefore, if_pos hc, unitsEntries_cons, List.append_assoc]
        rw [encodeAll_append, List.append_assoc]
        congr 1
      · rw [unitsEntries_cons, tornAt_append cipher _ _ _ _ hc, htorn]
        simp only [unitsBefore, if_pos hc, unitsEntries_cons, List.append_assoc]
        rw [encLen_append, encLen_append, encLen_append]
        congr 1; omega
    · obtain ⟨p, e, q, j, hes, hj, htake, htorn⟩ :=
        take_entries cipher u.entries off c (unitsEntries us) (by omega)
      obtain ⟨ts, hts, hp⟩ := LogUnit.prefix_txn u wfu p e q hes
      have hwfe : e.WF := LogUnit.entries_WF u wfu e (by rw [hes]; simp)
      refine ⟨ts, p, _, hts, hp, ?_, ?_, Or.inr ⟨_, e, j, hwfe, hj, rfl⟩⟩
      · rw [unitsEntries_cons, encodeAll_append,
          List.take_append_of_le_length (by unfold encLen at hc; omega), htake]
        simp [unitsBefore, if_neg hc, unitsEntries]
      · rw [unitsEntries_cons, htorn]
        simp [unitsBefore, if_neg hc, unitsEntries]

theorem unitsBefore_len (us : List LogUnit) : ∀ (off c : Nat),
    encLen cipher off (unitsEntries (unitsBefore cipher off c us)) ≤ c := by
  induction us with
  | nil => intro off c; simp [unitsBefore, unitsEntries, encLen, encodeAll]
  | cons u us ih =>
    intro off c
    simp only [unitsBefore]
    split
    · rename_i h
      rw [unitsEntries_cons, encLen_append]
      have := ih (off + encLen cipher off u.entries) (c - encLen cipher off u.entries)
      omega
    · simp [unitsEntries, encLen, encodeAll]

theorem unitsBefore_prefix (us : List LogUnit) : ∀ (off c : Nat),
    unitsBefore cipher off c us <+: us := by
  induction us with
  | nil => intro off c; simp [unitsBefore]
  | cons u us ih =>
    intro off c
    simp only [unitsBefore]
    split
    · obtain ⟨t, ht⟩ := ih (off + encLen cipher off u.entries) (c - encLen cipher off u.entries)
      exact ⟨t, by simp [ht]⟩
    · exact List.nil_prefix

end
end Badger
