import BadgerProofs.Lemmas.PowerStep4
/-!
# From `PInv` to the power-loss theorem: the freshly opened database satisfies it, every history
# preserves it, and every power-loss image of a state satisfying it is recovered to a commit
# prefix that holds every acknowledged commit.
-/
namespace Badger

/-! ## the file system after the first `Open` -/

def fs0 : Fs :=
  { next := 4,
    data := [(3, { chunks := [.hdr], size := .alloc }), (2, { chunks := [.hdr], size := .alloc }),
             (1, { chunks := [.kreg], size := .tight }), (0, { chunks := [.mhdr], size := .tight })],
    dir := [(.vlog 1, 3), (.mem 1, 2), (.keyRegistry, 1), (.manifest, 0)],
    ddata := [(3, { chunks := [], size := .alloc }), (2, { chunks := [], size := .alloc }),
              (0, { chunks := [.mhdr], size := .tight })],
    ddir := [(.vlog 1, 3), (.mem 1, 2), (.keyRegistry, 1), (.manifest, 0)] }

theorem init_fs : Fs.run {} firstOpenOps = fs0 := by
  rw [firstOpenOps_eq]; rfl

theorem pair_eq_of_nodup_snd {α : Type} (l : List (α × Nat)) (h : (l.map (·.2)).Nodup) (a b : α × Nat)
    (ha : a ∈ l) (hb : b ∈ l) (he : a.2 = b.2) : a = b := by
  induction l with
  | nil => simp at ha
  | cons x xs ih =>
    simp only [List.map, List.nodup_cons, List.mem_map, not_exists, not_and] at h
    rcases List.mem_cons.mp ha with ha | ha <;> rcases List.mem_cons.mp hb with hb | hb
    · rw [ha, hb]
    · rw [ha] at he; exact absurd he.symm (h.1 b hb)
    · rw [hb] at he; exact absurd he (h.1 a ha)
    · exact ih h.2 ha hb

theorem fs0_WF2 : fs0.WF2 where
  inj := by
    intro p q i hp hq
    have := pair_eq_of_nodup_snd fs0.dir (by decide) (p, i) (q, i) (aget_mem _ _ _ hp) (aget_mem _ _ _ hq) rfl
    exact congrArg Prod.fst this
  fresh := by
    intro p i hp
    have h : fs0.dir.all (fun x => decide (x.2 < fs0.next)) = true := by decide
    have := List.all_eq_true.mp h (p, i) (aget_mem _ _ _ hp)
    simpa using this
  dfresh := by
    intro p i hp
    have h : fs0.ddir.all (fun x => decide (x.2 < fs0.next)) = true := by decide
    have := List.all_eq_true.mp h (p, i) (aget_mem _ _ _ hp)
    simpa using this
  xinj := by
    intro p q i hp hq
    have := pair_eq_of_nodup_snd fs0.dir (by decide) (p, i) (q, i) (aget_mem _ _ _ hp) (aget_mem _ _ _ hq) rfl
    exact congrArg Prod.fst this
  ddfresh := by
    intro i hi
    rw [aget_none_iff]
    intro x hx
    have h : fs0.ddata.all (fun x => decide (x.1 < fs0.next)) = true := by decide
    have := List.all_eq_true.mp h x hx
    have h1 : x.1 < fs0.next := by simpa using this
    have h2 : fs0.next ≤ i := hi
    omega

def Q0 : QFs := fun q =>
  match q with
  | .manifest => { fv := some { chunks := [.mhdr], size := .tight }, fd := some { chunks := [.mhdr], size := .tight },
                   dv := some { chunks := [.mhdr], size := .tight }, dd := some { chunks := [.mhdr], size := .tight }, lk := true }
  | .keyRegistry => { fv := some { chunks := [.kreg], size := .tight }, fd := some {},
                      dv := some { chunks := [.kreg], size := .tight }, dd := some {}, lk := true }
  | .mem n => if n = 1 then { fv := some { chunks := [.hdr], size := .alloc }, fd := some { chunks := [], size := .alloc },
                              dv := some { chunks := [.hdr], size := .alloc }, dd := some { chunks := [], size := .alloc }, lk := true }
              else {}
  | .vlog n => if n = 1 then { fv := some { chunks := [.hdr], size := .alloc }, fd := some { chunks := [], size := .alloc },
                               dv := some { chunks := [.hdr], size := .alloc }, dd := some { chunks := [], size := .alloc }, lk := true }
               else {}
  | _ => {}

theorem fs0_quad : fs0.quad = Q0 := by
  funext q
  cases q with
  | mem n =>
    by_cases h : n = 1
    · simp [Fs.quad, fs0, Q0, aget, cOf, h]
    · have h' : ¬ 1 = n := fun e => h e.symm
      simp [Fs.quad, fs0, Q0, aget, h, h']
  | vlog n =>
    by_cases h : n = 1
    · simp [Fs.quad, fs0, Q0, aget, cOf, h]
    · have h' : ¬ 1 = n := fun e => h e.symm
      simp [Fs.quad, fs0, Q0, aget, h, h']
  | sst n => simp [Fs.quad, fs0, Q0, aget]
  | manifest => simp [Fs.quad, fs0, Q0, aget, cOf]
  | manifestRewrite => simp [Fs.quad, fs0, Q0, aget]
  | keyRegistry => simp [Fs.quad, fs0, Q0, aget, cOf]
  | keyRegistryRewrite => simp [Fs.quad, fs0, Q0, aget]

theorem fvOf_Q0 : fvOf Q0 = F0 := by
  funext q
  cases q with
  | mem n => by_cases h : n = 1 <;> simp [fvOf, Q0, F0, h]
  | vlog n => by_cases h : n = 1 <;> simp [fvOf, Q0, F0, h]
  | sst n => simp [fvOf, Q0, F0]
  | manifest => simp [fvOf, Q0, F0]
  | manifestRewrite => simp [fvOf, Q0, F0]
  | keyRegistry => simp [fvOf, Q0, F0]
  | keyRegistryRewrite => simp [fvOf, Q0, F0]

theorem zcOk_some (x : Inode) (h : x.size = .zero → x.chunks = []) : zcOk (some x) := by
  intro f hf hz; cases hf; exact h hz

theorem PVOk_default : PVOk {} :=
  ⟨fun _ => rfl, fun _ => rfl, rfl, rfl, zcOk_none, zcOk_none, zcOk_none, zcOk_none⟩

theorem QOk_Q0 : QOk Q0 := by
  intro p
  cases p with
  | mem n =>
    by_cases h : n = 1
    · simp only [Q0, h, if_true]
      exact ⟨fun _ => rfl, fun _ => rfl, rfl, rfl, zcOk_some _ (by decide), zcOk_some _ (by decide),
        zcOk_some _ (by decide), zcOk_some _ (by decide)⟩
    · simp only [Q0, h, if_false]; exact PVOk_default
  | vlog n =>
    by_cases h : n = 1
    · simp only [Q0, h, if_true]
      exact ⟨fun _ => rfl, fun _ => rfl, rfl, rfl, zcOk_some _ (by decide), zcOk_some _ (by decide),
        zcOk_some _ (by decide), zcOk_some _ (by decide)⟩
    · simp only [Q0, h, if_false]; exact PVOk_default
  | sst n => exact PVOk_default
  | manifest =>
    exact ⟨fun _ => rfl, fun _ => rfl, rfl, rfl, zcOk_some _ (by decide), zcOk_some _ (by decide),
      zcOk_some _ (by decide), zcOk_some _ (by decide)⟩
  | manifestRewrite => exact PVOk_default
  | keyRegistry =>
    exact ⟨fun _ => rfl, fun _ => rfl, rfl, rfl, zcOk_some _ (by decide), zcOk_some _ (by decide),
      zcOk_some _ (by decide), zcOk_some _ (by decide)⟩
  | keyRegistryRewrite => exact PVOk_default

theorem PInv_init (R : ViewRel) (c : Cfg) (hfix : c.dirSyncFix = true) (hsw : c.syncWrites = true) :
    PInv R { cfg := c } Q0 where
  fix := hfix
  sw := hsw
  qok := QOk_Q0
  core := {
    man := ⟨rfl, ⟨[], .tight, rfl, rfl⟩, ⟨[], .tight, rfl, rfl⟩, fun _ => rfl⟩
    sst := {
      tables := by intro id h; simp [aget] at h
      dLt := by intro n _; rfl
      fl3 := by intro k hk; cases hk
      fl4 := by intro h; exact absurd rfl h
      fl6 := by intro h; exact absurd rfl h
      kout3 := by intro o ho; cases ho
      kdirOk := by intro h; cases h }
    mem := {
      immP := by intro k hk; cases hk
      curP := by
        intro _
        refine ⟨{ chunks := [], size := .alloc }, 0, by simp [memQ, Q0], Nat.le_refl _, rfl, fun _ => rfl,
          Nat.le_refl _, fun _ => by simp [memQ, Q0], ?_⟩
        intro h; simp [memQ, Q0] at h
      deadP := by
        intro n _ h2
        have : n ≠ 1 := fun e => h2 ⟨rfl, e⟩
        left
        simp [memQ, Q0, this]
      pend := by intro x hx; cases hx }
    logic := ⟨Nat.le_refl _, rfl, R.refl _, R.refl _⟩ }

/-! ## every history preserves the invariants -/

theorem exec_pinv (R : ViewRel) (m : MState) (h : List Sched) (hwf : m.fs.WF2)
    (hI : Inv R m.p (fvOf m.fs.quad)) (hP : PInv R m.p m.fs.quad) (hok : SchedHistOk R m.p h) :
    (m.exec h).fs.WF2 ∧ Inv R (m.exec h).p (fvOf (m.exec h).fs.quad) ∧ PInv R (m.exec h).p (m.exec h).fs.quad := by
  induction h generalizing m with
  | nil => exact ⟨hwf, hI, hP⟩
  | cons x h ih =>
    rw [SchedHistOk_cons] at hok
    obtain ⟨hPs, hn⟩ := PInv_step R m.p m.fs.quad hI hP x
    obtain ⟨hwf', hq⟩ := Fs.quad_run m.fs hwf (m.p.step x).1 (noRen_spec _ hn)
    have hi := Inv_step R m.p (fvOf m.fs.quad) hI x hok.1
    rw [← fvOf_qrun] at hi
    show ((m.step x).exec h).fs.WF2 ∧ _
    apply ih (m.step x)
    · exact hwf'
    · show Inv R (m.p.step x).2 (fvOf (m.fs.run (m.p.step x).1).quad)
      rw [hq]; exact hi
    · show PInv R (m.p.step x).2 (m.fs.run (m.p.step x).1).quad
      rw [hq]; exact hPs
    · exact hok.2

theorem init_pinv (R : ViewRel) (c : Cfg) (hfix : c.dirSyncFix = true) (hsw : c.syncWrites = true) :
    (MState.init c).fs.WF2 ∧ Inv R (MState.init c).p (fvOf (MState.init c).fs.quad) ∧
      PInv R (MState.init c).p (MState.init c).fs.quad := by
  have hfs : (MState.init c).fs = fs0 := init_fs
  rw [hfs, fs0_quad, fvOf_Q0]
  exact ⟨fs0_WF2, Inv_init R c, PInv_init R c hfix hsw⟩

/-! ## recovery of a power-loss image -/

theorem four_linked (Q : QFs) (hq : QOk Q) (p : Path) (o : Option Inode)
    (h : o = (Q p).fv ∨ o = (Q p).fd ∨ o = (Q p).dv ∨ o = (Q p).dd) (hl : (Q p).lk = true) :
    o = (Q p).fv ∨ o = (Q p).fd := by
  rcases h with h | h | h | h
  · exact Or.inl h
  · exact Or.inr h
  · exact Or.inl (by rw [h, (hq p).lkv hl])
  · exact Or.inr (by rw [h, (hq p).lkd hl])

theorem take_add_of_link {α : Type} (l c : List α) (d b j : Nat) (hb : b ≤ d) (hd : d ≤ l.length)
    (hlink : l.take d = l.take b ++ c) (hj : b + j ≤ d) : l.take (b + j) = l.take b ++ c.take j := by
  have h1 : (l.take d).take (b + j) = l.take (b + j) := by
    rw [List.take_take]; congr 1; omega
  rw [← h1, hlink, List.take_append]
  have hlen : (l.take b).length = b := by rw [List.length_take]; omega
  rw [hlen, List.take_of_length_le (by omega)]
  congr 2; omega

theorem mem_tablesEnts (tcont : List (Nat × List CEnt)) (T : List (Nat × Nat)) (t : Nat) (e : CEnt)
    (h1 : (aget t T).isSome = true) (h2 : e ∈ entsOfTable tcont t) : e ∈ tablesEnts tcont T := by
  cases hg : aget t T with
  | none => rw [hg] at h1; cases h1
  | some lvl =>
    unfold tablesEnts
    rw [mem_flatten_map]
    exact ⟨(t, lvl), aget_mem _ _ _ hg, h2⟩

/-- every power-loss image of a state that satisfies the invariants is opened successfully, to a
    commit prefix that holds every acknowledged commit -/
theorem power_recover (R : ViewRel) (s : PState) (fs : Fs) (hI : Inv R s (fvOf fs.quad)) (hP : PInv R s fs.quad)
    (kd : Path → Bool) (ks : Nat → Bool) :
    ∃ r, recover false (crashPowerWith fs kd ks) = .ok r ∧
      ∃ k, s.acked ≤ k ∧ k ≤ s.commits.length ∧ R.r r.entries (txnsEnts (s.commits.take k)) := by
  have h4 := crashPowerWith_file fs kd ks
  generalize hPdef : Image.file (crashPowerWith fs kd ks) = P at h4
  generalize fs.quad = Q at hI hP h4
  have hC := hP.core
  have hq := hP.qok
  -- (a) the MANIFEST: page-cache or durable content
  obtain ⟨T, hTcase, hMan⟩ : ∃ T, (T = s.tset ∨ T = s.tsetD) ∧ ManifestOk P T := by
    rcases four_linked Q hq .manifest _ (h4 .manifest) hC.man.lk with h | h
    · obtain ⟨sets, sz, hf, hr⟩ := hC.man.vol
      exact ⟨s.tset, Or.inl rfl, sets, sz, by rw [h, hf], hr⟩
    · obtain ⟨sets, sz, hf, hr⟩ := hC.man.dur
      exact ⟨s.tsetD, Or.inr rfl, sets, sz, by rw [h, hf], hr⟩
  have hTsome : ∀ t, (aget t s.tset).isSome = true → (aget t s.tsetD).isSome = true → (aget t T).isSome = true := by
    intro t h1 h2
    rcases hTcase with e | e <;> subst e
    · exact h1
    · exact h2
  -- (b) its tables
  have hTab : ∀ x ∈ T, ∃ f, P (.sst x.1) = some f ∧ f.chunks = [.table (entsOfTable s.tcont x.1)] := by
    intro x hx
    have hsome : (aget x.1 s.tset).isSome = true ∨ (aget x.1 s.tsetD).isSome = true := by
      rcases hTcase with e | e <;> subst e
      · exact Or.inl (aget_isSome_of_mem _ _ hx)
      · exact Or.inr (aget_isSome_of_mem _ _ hx)
    obtain ⟨hl, hv, hd⟩ := hC.sst.tables x.1 hsome
    rcases four_linked Q hq (.sst x.1) _ (h4 (.sst x.1)) hl with h | h
    · obtain ⟨f, hf, hc⟩ := hv; exact ⟨f, by rw [h]; exact hf, hc⟩
    · obtain ⟨f, hf, hc⟩ := hd; exact ⟨f, by rw [h]; exact hf, hc⟩
  -- (c) zero-length files are empty
  have hz : ∀ n f, P (.mem n) = some f → f.size = .zero → f.chunks = [] := by
    intro n f hf
    have hv := hq (.mem n)
    rcases h4 (.mem n) with h | h | h | h
    · exact hv.z1 f (by rw [← h]; exact hf)
    · exact hv.z2 f (by rw [← h]; exact hf)
    · exact hv.z3 f (by rw [← h]; exact hf)
    · exact hv.z4 f (by rw [← h]; exact hf)
  obtain ⟨r, hr, hrt, hri⟩ := recoverF_total P (crashPowerWith fs kd ks).bound T (entsOfTable s.tcont) hMan hTab hz
  refine ⟨r, by unfold recover; rw [hPdef]; exact hr, ?_⟩
  have hbound : ∀ n f, P (.mem n) = some f → n < (crashPowerWith fs kd ks).bound := by
    intro n f hf
    exact Image.lt_bound (crashPowerWith fs kd ks) (.mem n) f (by rw [hPdef]; exact hf)
  -- (d) the immutable memtables
  have hImm : ∀ k ∈ s.imm, ∃ f, P (.mem k) = some f ∧ (replayLog f.chunks).ents = entsOfMem s.mtxns k := by
    intro k hk
    obtain ⟨hl, g, hg, hgr⟩ := hC.mem.immP k hk
    obtain ⟨f, hf, hfr⟩ := hI.mem.immFiles k hk
    rcases four_linked Q hq (.mem k) _ (h4 (.mem k)) hl with h | h
    · exact ⟨f, by rw [h]; exact hf, hfr⟩
    · exact ⟨g, by rw [h]; exact hg, hgr⟩
  -- (e) unlinked WALs whose name is still durable
  have hDead : ∀ n f, n ∉ s.imm → ¬ (s.curOpen = true ∧ n = s.cur) → P (.mem n) = some f →
      ∀ e ∈ (replayLog f.chunks).ents, e ∈ tablesEnts s.tcont T := by
    intro n f h1 h2 hf e he
    obtain ⟨hfv, hfd⟩ := fv_dead R s Q hI hq n h1 h2
    have hdv : (Q (.mem n)).dv = some f ∨ (Q (.mem n)).dd = some f := by
      rcases h4 (.mem n) with h | h | h | h
      · rw [h, hfv] at hf; cases hf
      · rw [h, hfd] at hf; cases hf
      · exact Or.inl (by rw [← h]; exact hf)
      · exact Or.inr (by rw [← h]; exact hf)
    rcases hC.mem.deadP n h1 h2 with ⟨a, b⟩ | ⟨⟨t, ht⟩, hcont⟩
    · rcases hdv with h | h
      · have a' : (Q (.mem n)).dv = none := a
        rw [a'] at h; cases h
      · have b' : (Q (.mem n)).dd = none := b
        rw [b'] at h; cases h
    · have hem := hcont f hdv e he
      obtain ⟨_, _, _, d⟩ := hC.mem.pend (n, t) ht
      obtain ⟨d1, d2, d3⟩ := d e hem
      exact mem_tablesEnts _ _ t e (hTsome t d1 d2) d3
  -- (f) the active memtable
  have hCur : ∃ j, j ≤ s.curT.length ∧ s.acked + s.curT.length ≤ s.done + j ∧
      (s.curOpen = true → ∀ e, (∃ f, P (.mem s.cur) = some f ∧ e ∈ (replayLog f.chunks).ents) ↔
        e ∈ txnsEnts (s.curT.take j)) := by
    by_cases ho : s.curOpen = true
    · have hcT : s.curT = (aget s.cur s.mtxns).getD [] := by simp [PState.curT, ho]
      rw [hcT]
      obtain ⟨g, jd, h1, h2, h3, _, h5, _, h7⟩ := hC.mem.curP ho
      obtain ⟨f, hf, hc⟩ := hI.mem.curFile ho
      have hfr : (replayLog f.chunks).ents = txnsEnts ((aget s.cur s.mtxns).getD []) := by
        rw [hc, replayLog_walChunks _ _ hI.mem.curTxns _ _ (fun e => (hI.mem.noHdr e).1)]
      have hf' : (Q (.mem s.cur)).fv = some f := hf
      have hg' : (Q (.mem s.cur)).fd = some g := h1
      have hcase : P (.mem s.cur) = some f ∨ P (.mem s.cur) = some g ∨
          (P (.mem s.cur) = none ∧ s.acked + ((aget s.cur s.mtxns).getD []).length ≤ s.done) := by
        by_cases hl : (Q (.mem s.cur)).lk = true
        · rcases four_linked Q hq (.mem s.cur) _ (h4 (.mem s.cur)) hl with h | h
          · exact Or.inl (by rw [h]; exact hf')
          · exact Or.inr (Or.inl (by rw [h]; exact hg'))
        · have hl' : (Q (.mem s.cur)).lk = false := by simpa using hl
          obtain ⟨a, b, c⟩ := h7 hl'
          have a' : (Q (.mem s.cur)).dv = none := a
          have b' : (Q (.mem s.cur)).dd = none := b
          rcases h4 (.mem s.cur) with h | h | h | h
          · exact Or.inl (by rw [h]; exact hf')
          · exact Or.inr (Or.inl (by rw [h]; exact hg'))
          · exact Or.inr (Or.inr ⟨by rw [h]; exact a', c⟩)
          · exact Or.inr (Or.inr ⟨by rw [h]; exact b', c⟩)
      rcases hcase with h | h | ⟨h, hle⟩
      · refine ⟨((aget s.cur s.mtxns).getD []).length, Nat.le_refl _, ?_, ?_⟩
        · have := hI.logic.acked_le; omega
        · intro _ e
          rw [List.take_length, ← hfr]
          constructor
          · rintro ⟨f0, hf0, he⟩
            rw [h] at hf0; injection hf0 with hf0; subst hf0; exact he
          · intro he; exact ⟨f, h, he⟩
      · refine ⟨jd, h2, h5, ?_⟩
        intro _ e
        rw [← h3]
        constructor
        · rintro ⟨f0, hf0, he⟩
          rw [h] at hf0; injection hf0 with hf0; subst hf0; exact he
        · intro he; exact ⟨g, h, he⟩
      · refine ⟨0, Nat.zero_le _, by omega, ?_⟩
        intro _ e
        constructor
        · rintro ⟨f0, hf0, _⟩
          rw [h] at hf0; cases hf0
        · intro he; simp [txnsEnts] at he
    · have ho' : s.curOpen = false := by simpa using ho
      have hcT : s.curT = [] := by simp [PState.curT, ho']
      rw [hcT]
      refine ⟨0, Nat.le_refl _, ?_, fun e => absurd e ho⟩
      have := hI.logic.acked_le; simp; omega
  obtain ⟨j, hj1, hj2, hj3⟩ := hCur
  have hl := hC.logic
  refine ⟨s.done - s.curT.length + j, ?_, ?_, ?_⟩
  · have := hl.curLe; omega
  · have := hl.curLe; have := hI.logic.done_le; omega
  · -- the entries found read like the base plus the surviving prefix of the active memtable
    have hset : ∀ e, e ∈ r.entries ↔
        e ∈ (tablesEnts s.tcont T ++ immsEnts s.mtxns s.imm) ++ txnsEnts (s.curT.take j) := by
      intro e
      have htab : (r.tables.map (·.ents)).flatten = tablesEnts s.tcont T := by
        rw [hrt, List.map_map]; rfl
      unfold RState.entries
      rw [htab]
      simp only [List.mem_append]
      rw [hri]
      constructor
      · rintro (⟨n, f, _, hf, he⟩ | h)
        · by_cases hn : n ∈ s.imm
          · left; right
            obtain ⟨f', hf', hr'⟩ := hImm n hn
            rw [hf] at hf'; injection hf' with hf'; subst hf'
            unfold immsEnts
            rw [mem_flatten_map]
            exact ⟨n, hn, by rw [← hr']; exact he⟩
          · by_cases hc : s.curOpen = true ∧ n = s.cur
            · right
              obtain ⟨ho, hnc⟩ := hc
              subst hnc
              exact (hj3 ho e).mp ⟨f, hf, he⟩
            · left; left
              exact hDead n f hn hc hf e he
        · exact Or.inl (Or.inl h)
      · rintro ((h | h) | h)
        · exact Or.inr h
        · left
          unfold immsEnts at h
          rw [mem_flatten_map] at h
          obtain ⟨k, hk, he⟩ := h
          obtain ⟨f, hf, hr'⟩ := hImm k hk
          exact ⟨k, f, hbound k f hf, hf, by rw [hr']; exact he⟩
        · left
          by_cases ho : s.curOpen = true
          · obtain ⟨f, hf, he⟩ := (hj3 ho e).mpr h
            exact ⟨s.cur, f, hbound _ f hf, hf, he⟩
          · have ho' : s.curOpen = false := by simpa using ho
            have hcT : s.curT = [] := by simp [PState.curT, ho']
            rw [hcT] at h; simp [txnsEnts] at h
    have hbase : R.r (tablesEnts s.tcont T ++ immsEnts s.mtxns s.imm)
        (txnsEnts (s.commits.take (s.done - s.curT.length))) := by
      rcases hTcase with e | e <;> subst e
      · exact hl.baseV
      · exact hl.baseD
    have htake := take_add_of_link s.commits s.curT s.done (s.done - s.curT.length) j (Nat.sub_le _ _)
      hI.logic.done_le hl.link (by have := hl.curLe; omega)
    rw [htake, txnsEnts_append]
    exact R.trans _ _ _ (R.of_mem_iff _ _ hset) (R.app_congr _ _ _ _ hbase (R.refl _))

end Badger
