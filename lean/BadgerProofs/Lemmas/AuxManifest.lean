import BadgerModel.Manifest
import BadgerProofs.Lemmas.Bytes
/-!
Lemmas about the MANIFEST model (`BadgerModel/Manifest.lean`) used by C17 and the manifest part
of C09: framing, the replay loop over a sequence of frames, manifests as finite maps.
-/
namespace Badger

/-! ## framing -/

theorem beNat_beBytes4 (n : Nat) (h : n < 2 ^ 32) : beNat (beBytes n 4) = n :=
  beNat_beBytes n 4 (by simpa using h)

theorem beNat_beBytes2 (n : Nat) (h : n < 2 ^ 16) : beNat (beBytes n 2) = n :=
  beNat_beBytes n 2 (by simpa using h)

@[simp] theorem frame_length (cd : Codec) (p : Bytes) : (frame cd p).length = 8 + p.length := by
  simp [frame]; omega

@[simp] theorem manifestHeader_length (ext : Nat) : (manifestHeader ext).length = 8 := by
  simp [manifestHeader, magicText]

/-- A raw frame: length field, CRC field, payload (not necessarily consistent). -/
def rawFrame (len crc : Nat) (payload : Bytes) : Bytes := beBytes len 4 ++ beBytes crc 4 ++ payload

theorem frame_eq_rawFrame (cd : Codec) (p : Bytes) : frame cd p = rawFrame p.length (cd.crc p) p := rfl

theorem rawFrame_take4 (l c : Nat) (p rest : Bytes) : (rawFrame l c p ++ rest).take 4 = beBytes l 4 := by
  simp [rawFrame]

theorem rawFrame_crc (l c : Nat) (p rest : Bytes) :
    ((rawFrame l c p ++ rest).drop 4).take 4 = beBytes c 4 := by
  simp [rawFrame]

theorem rawFrame_drop8 (l c : Nat) (p rest : Bytes) : (rawFrame l c p ++ rest).drop 8 = p ++ rest := by
  simp [rawFrame, List.drop_append]

/-! ## the replay loop -/

/-- The loop does not depend on the fuel as long as there is enough of it. -/
theorem replayLoop_fuel (cd : Codec) (f1 f2 : Nat) (rest : Bytes) (off : Nat) (b : Manifest)
    (h1 : rest.length ≤ f1) (h2 : rest.length ≤ f2) :
    replayLoop cd f1 rest off b = replayLoop cd f2 rest off b := by
  induction f1 generalizing f2 rest off b with
  | zero =>
    have : rest.length < 8 := by omega
    cases f2 with
    | zero => rfl
    | succ f2 => simp [replayLoop, this]
  | succ f1 ih =>
    cases f2 with
    | zero =>
      have : rest.length < 8 := by omega
      simp [replayLoop, this]
    | succ f2 =>
      simp only [replayLoop]
      split
      · rfl
      · split
        · rfl
        · split
          · rfl
          · split
            · rfl
            · split
              · rfl
              · apply ih
                · simp only [List.length_drop]; omega
                · simp only [List.length_drop]; omega

/-- The loop with the canonical amount of fuel. -/
def replayRest (cd : Codec) (rest : Bytes) (off : Nat) (b : Manifest) : ReplayResult :=
  replayLoop cd rest.length rest off b

theorem replayLoop_eq_replayRest (cd : Codec) (fuel : Nat) (rest : Bytes) (off : Nat) (b : Manifest)
    (h : rest.length ≤ fuel) : replayLoop cd fuel rest off b = replayRest cd rest off b :=
  replayLoop_fuel cd fuel rest.length rest off b h (Nat.le_refl _)

/-- Fewer than 8 bytes left: EOF / UnexpectedEOF on the length+CRC header, the loop stops. -/
theorem replayRest_short (cd : Codec) (rest : Bytes) (off : Nat) (b : Manifest)
    (h : rest.length < 8) : replayRest cd rest off b = .ok (b, off) := by
  unfold replayRest
  cases hl : rest.length with
  | zero => rfl
  | succ n => simp [replayLoop, h]

/-- One raw frame at the head of the unread bytes whose length field passes the sanity check and
    whose payload is complete. -/
theorem replayRest_rawFrame (cd : Codec) (l c : Nat) (p rest : Bytes) (off : Nat) (b : Manifest)
    (hl : l = p.length) (hl32 : l < 2 ^ 32) (hc32 : c < 2 ^ 32) :
    replayRest cd (rawFrame l c p ++ rest) off b =
      if cd.crc p ≠ c then .error .badChecksum
      else match cd.dec p with
        | none => .error .decode
        | some cs =>
          match applyChangeSet b cs with
          | (_, some e) => .error (.apply e)
          | (b', none) => replayRest cd rest (off + 8 + l) b' := by
  subst hl
  unfold replayRest
  have hlen : (rawFrame p.length c p ++ rest).length = 8 + p.length + rest.length := by
    simp [rawFrame]; omega
  rw [hlen]
  have h8 : 8 + p.length + rest.length = (7 + p.length + rest.length) + 1 := by omega
  rw [h8]
  simp only [replayLoop]
  rw [if_neg (by rw [hlen]; omega)]
  rw [rawFrame_take4, rawFrame_crc, rawFrame_drop8, beNat_beBytes4 _ hl32, beNat_beBytes4 _ hc32]
  rw [if_neg (by simp)]
  simp only [List.take_left' rfl, List.drop_left' rfl]
  by_cases hcrc : cd.crc p = c
  · simp only [hcrc, ne_eq, not_true_eq_false, if_false]
    cases hdec : cd.dec p with
    | none => rfl
    | some cs =>
      simp only
      rcases happ : applyChangeSet b cs with ⟨b', _ | e⟩
      · simp only
        apply replayLoop_eq_replayRest
        omega
      · rfl
  · simp [hcrc]

/-- A frame whose payload is cut short: the loop stops as on EOF. -/
theorem replayRest_tornPayload (cd : Codec) (l c : Nat) (body : Bytes) (off : Nat) (b : Manifest)
    (hl32 : l < 2 ^ 32) (hshort : body.length < l) :
    replayRest cd (rawFrame l c body) off b = .ok (b, off) := by
  unfold replayRest
  have hlen : (rawFrame l c body).length = 8 + body.length := by simp [rawFrame]; omega
  rw [hlen]
  have h8 : 8 + body.length = (7 + body.length) + 1 := by omega
  rw [h8]
  simp only [replayLoop]
  rw [if_neg (by rw [hlen]; omega)]
  have h4 := rawFrame_take4 l c body []
  have hd := rawFrame_drop8 l c body []
  simp only [List.append_nil] at h4 hd
  rw [h4, hd, beNat_beBytes4 _ hl32, if_pos hshort]

/-! ## sequences of frames -/

/-- Apply change sets in order; `none` as soon as one of them is rejected. -/
def applyAll (m : Manifest) : List ChangeSet → Option Manifest
  | [] => some m
  | cs :: rest =>
    match applyChangeSet m cs with
    | (m', none) => applyAll m' rest
    | (_, some _) => none

/-- The frames of a list of change sets, as `addChanges` / `helpRewrite` write them. -/
def framesOf (cd : Codec) (sets : List ChangeSet) : Bytes :=
  sets.flatMap (fun cs => frame cd (cd.enc cs))

@[simp] theorem framesOf_nil (cd : Codec) : framesOf cd [] = [] := rfl

theorem framesOf_cons (cd : Codec) (cs : ChangeSet) (sets : List ChangeSet) :
    framesOf cd (cs :: sets) = frame cd (cd.enc cs) ++ framesOf cd sets := by
  simp [framesOf]

theorem framesOf_append (cd : Codec) (a b : List ChangeSet) :
    framesOf cd (a ++ b) = framesOf cd a ++ framesOf cd b := by
  simp [framesOf]

theorem applyAll_append (m : Manifest) (a b : List ChangeSet) :
    applyAll m (a ++ b) = (applyAll m a).bind (fun m' => applyAll m' b) := by
  induction a generalizing m with
  | nil => rfl
  | cons cs a ih =>
    simp only [List.cons_append, applyAll]
    rcases applyChangeSet m cs with ⟨m', _ | e⟩
    · exact ih m'
    · rfl

/-- Complete, well-formed frames are consumed one by one and applied in order. -/
theorem replayRest_frames (cd : Codec) (hv : cd.Valid) (sets : List ChangeSet) (tail : Bytes)
    (off : Nat) (b m : Manifest)
    (hall : applyAll b sets = some m)
    (hrange : ∀ cs, cs ∈ sets → ChangeSet.InRange cs)
    (hsz : ∀ cs, cs ∈ sets → (cd.enc cs).length < 2 ^ 32) :
    replayRest cd (framesOf cd sets ++ tail) off b =
      replayRest cd tail (off + (framesOf cd sets).length) m := by
  induction sets generalizing off b with
  | nil =>
    simp only [applyAll] at hall
    cases hall
    simp
  | cons cs sets ih =>
    simp only [applyAll] at hall
    rw [framesOf_cons, List.append_assoc, frame_eq_rawFrame]
    have hlt : (cd.enc cs).length < 2 ^ 32 := hsz cs (by simp)
    rw [replayRest_rawFrame cd _ _ _ _ off b rfl hlt (hv.crc_lt _)]
    rw [if_neg (by simp), hv.dec_enc cs (hrange cs (by simp))]
    simp only
    rcases happ : applyChangeSet b cs with ⟨b', _ | e⟩
    · rw [happ] at hall
      simp only at hall ⊢
      rw [ih _ _ hall (fun c hc => hrange c (by simp [hc])) (fun c hc => hsz c (by simp [hc]))]
      congr 1
      simp only [List.length_append, ← frame_eq_rawFrame, frame_length]
      omega
    · rw [happ] at hall
      simp at hall

/-- The header checks of `ReplayManifestFile` on a file that starts with a proper header. -/
theorem replay_header (cd : Codec) (ext : Nat) (hext : ext < 2 ^ 16) (rest : Bytes) :
    replay cd (manifestHeader ext ++ rest) ext =
      replayRest cd rest 8 Manifest.empty := by
  unfold replay
  have hlen : (manifestHeader ext ++ rest).length = 8 + rest.length := by simp
  rw [hlen, if_neg (by omega)]
  have h4 : (manifestHeader ext ++ rest).take 4 = magicText := by
    simp [manifestHeader, magicText]
  have h46 : ((manifestHeader ext ++ rest).drop 4).take 2 = beBytes ext 2 := by
    simp [manifestHeader, magicText]
  have h68 : ((manifestHeader ext ++ rest).drop 6).take 2 = beBytes badgerMagicVersion 2 := by
    simp [manifestHeader, magicText]
  have h8 : (manifestHeader ext ++ rest).drop 8 = rest :=
    List.drop_left' (manifestHeader_length ext)
  rw [if_neg (by simp [h4])]
  simp only [h46, h68, h8]
  rw [beNat_beBytes2 _ hext, beNat_beBytes2 _ (by decide)]
  rw [if_neg (by simp), if_neg (by rw [Nat.mod_eq_of_lt hext]; simp)]
  apply replayLoop_eq_replayRest
  omega

/-! ## manifests as finite maps -/

theorem lookup_cons' (id k : Nat) (v : TableManifest) (l : List (Nat × TableManifest)) :
    List.lookup id ((k, v) :: l) = if id = k then some v else List.lookup id l := by
  rw [List.lookup_cons]
  by_cases h : id = k
  · subst h; simp
  · have : (id == k) = false := by simpa using h
    simp [this, h]

theorem lookup_filter_ne (id k : Nat) (l : List (Nat × TableManifest)) :
    List.lookup id (l.filter (fun e => e.1 ≠ k)) = if id = k then none else List.lookup id l := by
  induction l with
  | nil => simp
  | cons e l ih =>
    obtain ⟨k', v⟩ := e
    by_cases hk : k' = k
    · subst hk
      simp only [List.filter_cons, ne_eq, not_true_eq_false, decide_false, Bool.false_eq_true, if_false, ih,
        lookup_cons']
      by_cases h : id = k' <;> simp [h]
    · simp only [List.filter_cons, ne_eq, hk, not_false_eq_true, decide_true, if_true, lookup_cons', ih]
      by_cases h : id = k
      · subst h
        have : ¬ id = k' := fun h => hk h.symm
        simp [this]
      · simp [h]

theorem mem_of_lookup {id : Nat} {v : TableManifest} {l : List (Nat × TableManifest)}
    (h : List.lookup id l = some v) : (id, v) ∈ l := by
  induction l with
  | nil => simp at h
  | cons e l ih =>
    obtain ⟨k, w⟩ := e
    rw [lookup_cons'] at h
    by_cases hk : id = k
    · subst hk; simp at h; subst h; simp
    · simp [hk] at h; exact List.mem_cons_of_mem _ (ih h)

theorem lookup_of_mem_nodup {id : Nat} {v : TableManifest} {l : List (Nat × TableManifest)}
    (hnd : (l.map Prod.fst).Nodup) (h : (id, v) ∈ l) : List.lookup id l = some v := by
  induction l with
  | nil => cases h
  | cons e l ih =>
    obtain ⟨k, w⟩ := e
    simp only [List.map_cons, List.nodup_cons] at hnd
    rw [lookup_cons']
    rcases List.mem_cons.mp h with heq | hin
    · cases heq; simp
    · have : id ≠ k := by
        intro hk; subst hk
        exact hnd.1 (List.mem_map.mpr ⟨(id, v), hin, rfl⟩)
      simp [this, ih hnd.2 hin]

/-- Lookup in an association list with distinct keys only depends on its set of entries. -/
theorem lookup_perm {l1 l2 : List (Nat × TableManifest)} (hp : l1.Perm l2)
    (hnd : (l1.map Prod.fst).Nodup) (id : Nat) : List.lookup id l1 = List.lookup id l2 := by
  have hnd2 : (l2.map Prod.fst).Nodup := (List.Perm.nodup_iff (hp.map Prod.fst)).mp hnd
  cases h1 : List.lookup id l1 with
  | none =>
    symm
    rw [List.lookup_eq_none_iff] at h1 ⊢
    intro p hp2
    exact h1 p (hp.mem_iff.mpr hp2)
  | some v =>
    exact (lookup_of_mem_nodup hnd2 (hp.mem_iff.mp (mem_of_lookup h1))).symm

/-- Well-formed manifest: one entry per table id, levels are `uint8`s, the other fields fit
    their Go types. -/
structure Manifest.WF (m : Manifest) : Prop where
  nodup : (m.tables.map Prod.fst).Nodup
  level_lt : ∀ e, e ∈ m.tables → e.2.level < 256
  range : ∀ e, e ∈ m.tables → e.1 < 2 ^ 64 ∧ e.2.keyID < 2 ^ 64 ∧ e.2.compression < 2 ^ 32

theorem Manifest.WF_empty : Manifest.empty.WF :=
  ⟨by simp [Manifest.empty], by simp [Manifest.empty], by simp [Manifest.empty]⟩

/-- Same table map (id ↦ level, key id, compression) and same counters. -/
def Manifest.Equiv (a b : Manifest) : Prop :=
  (∀ id, a.lookup id = b.lookup id) ∧ a.creations = b.creations ∧ a.deletions = b.deletions

theorem Manifest.Equiv.refl (a : Manifest) : a.Equiv a := ⟨fun _ => rfl, rfl, rfl⟩

theorem Manifest.Equiv.symm {a b : Manifest} (h : a.Equiv b) : b.Equiv a :=
  ⟨fun id => (h.1 id).symm, h.2.1.symm, h.2.2.symm⟩

theorem Manifest.Equiv.trans {a b c : Manifest} (h1 : a.Equiv b) (h2 : b.Equiv c) : a.Equiv c :=
  ⟨fun id => (h1.1 id).trans (h2.1 id), h1.2.1.trans h2.2.1, h1.2.2.trans h2.2.2⟩

theorem lookup_eq_none_of_not_mem {id : Nat} {l : List (Nat × TableManifest)}
    (h : List.lookup id l = none) : id ∉ l.map Prod.fst := by
  intro hin
  obtain ⟨e, he, hid⟩ := List.mem_map.mp hin
  rw [List.lookup_eq_none_iff] at h
  have := h e he
  simp [hid] at this

/-- `applyManifestChange` only looks at the table map and the counters. -/
theorem applyChange_congr {a b a' : Manifest} (c : Change) (h : a.Equiv b)
    (ha : applyChange a c = .ok a') : ∃ b', applyChange b c = .ok b' ∧ a'.Equiv b' := by
  unfold applyChange at ha ⊢
  have hl := h.1 c.id
  rw [← hl]
  by_cases h0 : c.op = 0
  · simp only [h0, if_true] at ha ⊢
    cases hla : a.lookup c.id with
    | some tm => simp [hla] at ha
    | none =>
      simp only [hla] at ha ⊢
      refine ⟨_, rfl, ?_⟩
      cases ha
      refine ⟨?_, by simp [h.2.1], by simp [h.2.2]⟩
      intro id
      simp only [Manifest.lookup, lookup_cons']
      by_cases hid : id = c.id
      · simp [hid]
      · simp only [hid, if_false]; exact h.1 id
  · by_cases h1 : c.op = 1
    · simp only [h1, if_true] at ha ⊢
      cases hla : a.lookup c.id with
      | none =>
        simp only [hla] at ha ⊢
        refine ⟨_, rfl, ?_⟩
        cases ha
        exact ⟨fun id => h.1 id, by simp [h.2.1], by simp [h.2.2]⟩
      | some tm =>
        simp only [hla] at ha ⊢
        refine ⟨_, rfl, ?_⟩
        cases ha
        refine ⟨?_, by simp [h.2.1], by simp [h.2.2]⟩
        intro id
        simp only [Manifest.lookup, lookup_filter_ne]
        by_cases hid : id = c.id
        · simp [hid]
        · simp only [hid, if_false]; exact h.1 id
    · simp [h0, h1] at ha

theorem applyChangeSet_congr {a b a' : Manifest} (cs : ChangeSet) (h : a.Equiv b)
    (ha : applyChangeSet a cs = (a', none)) : ∃ b', applyChangeSet b cs = (b', none) ∧ a'.Equiv b' := by
  induction cs generalizing a b with
  | nil =>
    simp only [applyChangeSet] at ha ⊢
    cases ha
    exact ⟨b, rfl, h⟩
  | cons c cs ih =>
    simp only [applyChangeSet] at ha ⊢
    cases hc : applyChange a c with
    | error e => simp [hc] at ha
    | ok a1 =>
      obtain ⟨b1, hb1, he1⟩ := applyChange_congr c h hc
      simp only [hc] at ha
      simp only [hb1]
      exact ih he1 ha

/-- Same table map; the counters are compared only when `cn` is set (after a reopen the
    in-memory manifest is a clone whose counters restart from the number of tables). -/
def Manifest.EquivC (cn : Bool) (a b : Manifest) : Prop :=
  (∀ id, a.lookup id = b.lookup id) ∧ (cn = true → a.creations = b.creations ∧ a.deletions = b.deletions)

theorem Manifest.Equiv.toC {a b : Manifest} (h : a.Equiv b) (cn : Bool) : a.EquivC cn b :=
  ⟨h.1, fun _ => h.2⟩

theorem Manifest.EquivC.symm {cn : Bool} {a b : Manifest} (h : a.EquivC cn b) : b.EquivC cn a :=
  ⟨fun id => (h.1 id).symm, fun hc => ⟨(h.2 hc).1.symm, (h.2 hc).2.symm⟩⟩

theorem Manifest.EquivC.trans {cn : Bool} {a b c : Manifest} (h1 : a.EquivC cn b) (h2 : b.EquivC cn c) :
    a.EquivC cn c :=
  ⟨fun id => (h1.1 id).trans (h2.1 id), fun hc => ⟨(h1.2 hc).1.trans (h2.2 hc).1, (h1.2 hc).2.trans (h2.2 hc).2⟩⟩

theorem Manifest.EquivC.weaken {cn : Bool} {a b : Manifest} (h : a.EquivC cn b) : a.EquivC false b :=
  ⟨h.1, fun hc => by cases hc⟩

theorem applyChange_congrC {a b a' : Manifest} (c : Change) (cn : Bool) (h : a.EquivC cn b)
    (ha : applyChange a c = .ok a') : ∃ b', applyChange b c = .ok b' ∧ a'.EquivC cn b' := by
  unfold applyChange at ha ⊢
  have hl := h.1 c.id
  rw [← hl]
  by_cases h0 : c.op = 0
  · simp only [h0, if_true] at ha ⊢
    cases hla : a.lookup c.id with
    | some tm => simp [hla] at ha
    | none =>
      simp only [hla] at ha ⊢
      refine ⟨_, rfl, ?_⟩
      cases ha
      refine ⟨?_, fun hc => ⟨by simp [(h.2 hc).1], by simp [(h.2 hc).2]⟩⟩
      intro id
      simp only [Manifest.lookup, lookup_cons']
      by_cases hid : id = c.id
      · simp [hid]
      · simp only [hid, if_false]; exact h.1 id
  · by_cases h1 : c.op = 1
    · simp only [h1, if_true] at ha ⊢
      cases hla : a.lookup c.id with
      | none =>
        simp only [hla] at ha ⊢
        refine ⟨_, rfl, ?_⟩
        cases ha
        exact ⟨fun id => h.1 id, fun hc => ⟨by simp [(h.2 hc).1], by simp [(h.2 hc).2]⟩⟩
      | some tm =>
        simp only [hla] at ha ⊢
        refine ⟨_, rfl, ?_⟩
        cases ha
        refine ⟨?_, fun hc => ⟨by simp [(h.2 hc).1], by simp [(h.2 hc).2]⟩⟩
        intro id
        simp only [Manifest.lookup, lookup_filter_ne]
        by_cases hid : id = c.id
        · simp [hid]
        · simp only [hid, if_false]; exact h.1 id
    · simp [h0, h1] at ha

theorem applyChangeSet_congrC {a b a' : Manifest} (cs : ChangeSet) (cn : Bool) (h : a.EquivC cn b)
    (ha : applyChangeSet a cs = (a', none)) : ∃ b', applyChangeSet b cs = (b', none) ∧ a'.EquivC cn b' := by
  induction cs generalizing a b with
  | nil =>
    simp only [applyChangeSet] at ha ⊢
    cases ha
    exact ⟨b, rfl, h⟩
  | cons c cs ih =>
    simp only [applyChangeSet] at ha ⊢
    cases hc : applyChange a c with
    | error e => simp [hc] at ha
    | ok a1 =>
      obtain ⟨b1, hb1, he1⟩ := applyChange_congrC c cn h hc
      simp only [hc] at ha
      simp only [hb1]
      exact ih he1 ha

theorem applyChange_WF {a a' : Manifest} (c : Change) (hr : c.InRange) (hw : a.WF)
    (ha : applyChange a c = .ok a') : a'.WF := by
  unfold applyChange at ha
  by_cases h0 : c.op = 0
  · simp only [h0, if_true] at ha
    cases hla : a.lookup c.id with
    | some tm => simp [hla] at ha
    | none =>
      simp only [hla] at ha
      cases ha
      constructor
      · simp only [List.map_cons, List.nodup_cons]
        exact ⟨lookup_eq_none_of_not_mem hla, hw.nodup⟩
      · intro e he
        rcases List.mem_cons.mp he with rfl | hin
        · exact Nat.mod_lt _ (by decide)
        · exact hw.level_lt e hin
      · intro e he
        rcases List.mem_cons.mp he with rfl | hin
        · exact ⟨hr.1, hr.2.2.2.1, hr.2.2.2.2.2⟩
        · exact hw.range e hin
  · by_cases h1 : c.op = 1
    · simp only [h1, if_true] at ha
      cases hla : a.lookup c.id with
      | none =>
        simp only [hla] at ha
        cases ha
        exact ⟨hw.nodup, hw.level_lt, hw.range⟩
      | some tm =>
        simp only [hla] at ha
        cases ha
        constructor
        · exact List.Nodup.sublist (List.Sublist.map _ List.filter_sublist) hw.nodup
        · intro e he
          exact hw.level_lt e (List.mem_filter.mp he).1
        · intro e he
          exact hw.range e (List.mem_filter.mp he).1
    · simp [h0, h1] at ha

theorem applyChangeSet_WF {a a' : Manifest} (cs : ChangeSet) (hr : ChangeSet.InRange cs) (hw : a.WF)
    (ha : applyChangeSet a cs = (a', none)) : a'.WF := by
  induction cs generalizing a with
  | nil => simp only [applyChangeSet] at ha; cases ha; exact hw
  | cons c cs ih =>
    simp only [applyChangeSet] at ha
    cases hc : applyChange a c with
    | error e => simp [hc] at ha
    | ok a1 =>
      simp only [hc] at ha
      exact ih (fun x hx => hr x (by simp [hx])) (applyChange_WF c (hr c (by simp)) hw hc) ha

theorem applyAll_WF {a a' : Manifest} (sets : List ChangeSet) (hr : ∀ cs, cs ∈ sets → ChangeSet.InRange cs)
    (hw : a.WF) (ha : applyAll a sets = some a') : a'.WF := by
  induction sets generalizing a with
  | nil => simp only [applyAll] at ha; cases ha; exact hw
  | cons cs sets ih =>
    simp only [applyAll] at ha
    rcases hc : applyChangeSet a cs with ⟨a1, _ | e⟩
    · rw [hc] at ha
      exact ih (fun x hx => hr x (by simp [hx])) (applyChangeSet_WF cs (hr cs (by simp)) hw hc) ha
    · rw [hc] at ha; simp at ha

/-! ## the change set written by `helpRewrite` rebuilds the table map -/

/-- `newCreateChange` for a table entry. -/
def createOf (e : Nat × TableManifest) : Change := Change.create e.1 e.2.level e.2.keyID e.2.compression

/-- Applying one CREATE per entry (distinct fresh ids, `uint8` levels) conses the entries. -/
theorem applyChangeSet_creates (es : List (Nat × TableManifest)) (m0 : Manifest)
    (hnd : (es.map Prod.fst).Nodup)
    (hfresh : ∀ e, e ∈ es → m0.lookup e.1 = none)
    (hlv : ∀ e, e ∈ es → e.2.level < 256) :
    ∃ m1, applyChangeSet m0 (es.map createOf) = (m1, none) ∧
      m1.tables = es.reverse ++ m0.tables ∧
      m1.creations = m0.creations + es.length ∧ m1.deletions = m0.deletions := by
  induction es generalizing m0 with
  | nil => exact ⟨m0, rfl, by simp, by simp, rfl⟩
  | cons e es ih =>
    simp only [List.map_cons, List.nodup_cons] at hnd
    have hl0 : m0.lookup e.1 = none := hfresh e (by simp)
    have hstep : ∃ m0', applyChange m0 (createOf e) = .ok m0' ∧ m0'.tables = e :: m0.tables ∧
        m0'.creations = m0.creations + 1 ∧ m0'.deletions = m0.deletions := by
      refine ⟨{ levels := (growLevels m0.levels e.2.level).modify e.2.level (setInsert e.1)
                tables := e :: m0.tables
                creations := m0.creations + 1
                deletions := m0.deletions }, ?_, rfl, rfl, rfl⟩
      unfold applyChange createOf Change.create
      simp only [if_true, hl0]
      have : e.2.level % 256 = e.2.level := Nat.mod_eq_of_lt (hlv e (by simp))
      rw [this]
    obtain ⟨m0', hs, hs_t, hs_c, hs_d⟩ := hstep
    simp only [List.map_cons, applyChangeSet, hs]
    obtain ⟨m1, h1, ht, hc, hd⟩ := ih m0' hnd.2
      (by
        intro x hx
        simp only [Manifest.lookup, hs_t]
        rw [show (e :: m0.tables) = ((e.1, e.2) :: m0.tables) from rfl, lookup_cons']
        have hne : x.1 ≠ e.1 := by
          intro heq
          exact hnd.1 (heq ▸ List.mem_map.mpr ⟨x, hx, rfl⟩)
        simp only [hne, if_false]
        exact hfresh x (by simp [hx]))
      (fun x hx => hlv x (by simp [hx]))
    refine ⟨m1, h1, ?_, ?_, ?_⟩
    · rw [ht, hs_t]; simp
    · rw [hc, hs_c]; simp; omega
    · rw [hd, hs_d]

/-- Replaying the single change set of a rewritten file gives the same table map, with
    `Creations = len(Tables)` and `Deletions = 0` — for every iteration order of the Go map. -/
theorem asChanges_inRange (cd : Codec) (hv : cd.Valid) (m : Manifest) (hw : m.WF) :
    ChangeSet.InRange (asChanges cd m) := by
  intro c hc
  unfold asChanges at hc
  obtain ⟨e, he, rfl⟩ := List.mem_map.mp hc
  have hin : e ∈ m.tables := (hv.ord_perm m.tables).mem_iff.mp he
  have hl := hw.level_lt e hin
  have hr := hw.range e hin
  refine ⟨hr.1, ?_, ?_, hr.2.1, ?_, hr.2.2⟩
  · show 0 < 2 ^ 32
    decide
  · show e.2.level < 2 ^ 32
    omega
  · show 0 < 2 ^ 32
    decide

theorem applyChangeSet_asChanges (cd : Codec) (hv : cd.Valid) (m : Manifest) (hw : m.WF) :
    ∃ m1, applyChangeSet Manifest.empty (asChanges cd m) = (m1, none) ∧ m1.WF ∧
      m1.Equiv { m with creations := m.tables.length, deletions := 0 } := by
  have hperm := hv.ord_perm m.tables
  have hnd : ((cd.ord m.tables).map Prod.fst).Nodup :=
    (List.Perm.nodup_iff (hperm.map Prod.fst)).mpr hw.nodup
  obtain ⟨m1, h1, ht, hc, hd⟩ := applyChangeSet_creates (cd.ord m.tables) Manifest.empty hnd
    (by intro e _; rfl)
    (fun e he => hw.level_lt e (hperm.mem_iff.mp he))
  refine ⟨m1, h1, applyChangeSet_WF _ (asChanges_inRange cd hv m hw) Manifest.WF_empty h1, ?_, ?_, ?_⟩
  · intro id
    simp only [Manifest.lookup, ht, Manifest.empty, List.append_nil]
    have hp2 : (cd.ord m.tables).reverse.Perm m.tables := (List.reverse_perm _).trans hperm
    exact lookup_perm hp2 ((List.Perm.nodup_iff (hp2.map Prod.fst)).mpr hw.nodup) id
  · simp only [hc, Manifest.empty, Nat.zero_add]
    exact hperm.length_eq
  · simp [hd, Manifest.empty]

/-! ## the per-level id sets are determined by the table map -/

/-- The id set of level `l` (`[]` beyond `len(Levels)`). -/
def levelAt (L : List (List Nat)) (l : Nat) : List Nat := (L[l]?).getD []

theorem levelAt_grow (L : List (List Nat)) (k l : Nat) : levelAt (growLevels L k) l = levelAt L l := by
  unfold levelAt growLevels
  rw [List.getElem?_append]
  by_cases h : l < L.length
  · rw [if_pos h]
  · rw [if_neg h, List.getElem?_eq_none (Nat.le_of_not_lt h), List.getElem?_replicate]
    split <;> rfl

theorem growLevels_length (L : List (List Nat)) (k : Nat) : k < (growLevels L k).length := by
  unfold growLevels
  simp only [List.length_append, List.length_replicate]
  omega

theorem levelAt_modify (L : List (List Nat)) (k l : Nat) (f : List Nat → List Nat) (hk : k < L.length) :
    levelAt (L.modify k f) l = if k = l then f (levelAt L l) else levelAt L l := by
  unfold levelAt
  rw [List.getElem?_modify]
  by_cases h : k = l
  · subst h
    simp only [if_true]
    rw [List.getElem?_eq_getElem hk]
    rfl
  · simp only [h, if_false]
    cases L[l]? <;> rfl

theorem levelAt_map_erase (L : List (List Nat)) (id l : Nat) :
    levelAt (L.map (setErase id)) l = setErase id (levelAt L l) := by
  unfold levelAt
  rw [List.getElem?_map]
  cases L[l]? <;> rfl

theorem mem_setInsert (x id : Nat) (s : List Nat) : x ∈ setInsert id s ↔ x = id ∨ x ∈ s := by
  unfold setInsert
  split
  · rename_i h
    constructor
    · exact Or.inr
    · rintro (rfl | h') <;> assumption
  · simp

theorem mem_setErase (x id : Nat) (s : List Nat) : x ∈ setErase id s ↔ x ∈ s ∧ x ≠ id := by
  unfold setErase
  simp [List.mem_filter]

/-- `Levels[l]` is exactly the set of table ids whose `TableManifest.Level` is `l`. -/
def Manifest.LevelsOK (m : Manifest) : Prop :=
  ∀ l id, id ∈ levelAt m.levels l ↔ ∃ tm, m.lookup id = some tm ∧ tm.level = l

theorem Manifest.LevelsOK_empty : Manifest.empty.LevelsOK := by
  intro l id
  simp [levelAt, Manifest.empty, Manifest.lookup]

/-- Creates with a level below 256 (what badger emits: `TableManifest.Level` is a `uint8`). -/
def Change.SmallLevel (c : Change) : Prop := c.op = 0 → c.level < 256

theorem applyChange_LevelsOK {a a' : Manifest} (c : Change) (hs : c.SmallLevel) (hl : a.LevelsOK)
    (ha : applyChange a c = .ok a') : a'.LevelsOK := by
  unfold applyChange at ha
  by_cases h0 : c.op = 0
  · simp only [h0, if_true] at ha
    cases hla : a.lookup c.id with
    | some tm => simp [hla] at ha
    | none =>
      simp only [hla] at ha
      cases ha
      intro l id
      simp only [Manifest.lookup, lookup_cons']
      rw [levelAt_modify _ _ _ _ (growLevels_length _ _)]
      have hmod : c.level % 256 = c.level := Nat.mod_eq_of_lt (hs h0)
      by_cases hid : id = c.id
      · subst hid
        simp only [if_true, hmod]
        by_cases hlv : c.level = l
        · subst hlv
          simp [mem_setInsert]
        · simp only [hlv, if_false, levelAt_grow]
          constructor
          · intro hin
            obtain ⟨tm, htm, _⟩ := (hl l c.id).mp hin
            rw [hla] at htm; cases htm
          · rintro ⟨tm, htm, hlv'⟩
            cases htm
            exact absurd hlv' hlv
      · simp only [hid, if_false]
        by_cases hlv : c.level = l
        · subst hlv
          simp only [if_true, mem_setInsert, levelAt_grow, hid, false_or]
          exact hl _ id
        · simp only [hlv, if_false, levelAt_grow]
          exact hl l id
  · by_cases h1 : c.op = 1
    · simp only [h1, if_true] at ha
      cases hla : a.lookup c.id with
      | none =>
        simp only [hla] at ha
        cases ha
        intro l id
        simp only [levelAt_map_erase, mem_setErase]
        constructor
        · rintro ⟨hin, _⟩; exact (hl l id).mp hin
        · intro h
          refine ⟨(hl l id).mpr h, ?_⟩
          intro hid
          rw [hid] at h
          obtain ⟨tm, htm, _⟩ := h
          have htm' : a.lookup c.id = some tm := htm
          rw [hla] at htm'; cases htm'
      | some tm =>
        simp only [hla] at ha
        cases ha
        have hin : c.id ∈ levelAt a.levels tm.level := (hl tm.level c.id).mpr ⟨tm, hla, rfl⟩
        have hlen : tm.level < a.levels.length := by
          unfold levelAt at hin
          cases hq : a.levels[tm.level]? with
          | none => rw [hq] at hin; simp at hin
          | some s =>
            have := List.getElem?_eq_some_iff.mp hq
            exact this.1
        intro l id
        simp only [Manifest.lookup, lookup_filter_ne]
        rw [levelAt_modify _ _ _ _ hlen]
        by_cases hid : id = c.id
        · subst hid
          simp only [if_true]
          constructor
          · intro h
            split at h
            · simp [mem_setErase] at h
            · rename_i hne
              obtain ⟨tm', htm', hlv'⟩ := (hl l c.id).mp h
              rw [hla] at htm'; cases htm'
              exact absurd hlv' hne
          · rintro ⟨tm', h, _⟩; cases h
        · simp only [hid, if_false]
          by_cases hlv : tm.level = l
          · subst hlv
            simp only [if_true, mem_setErase, ne_eq, hid, not_false_eq_true, and_true]
            exact hl _ id
          · simp only [hlv, if_false]
            exact hl l id
    · simp [h0, h1] at ha

theorem applyChangeSet_LevelsOK {a a' : Manifest} (cs : ChangeSet) (hs : ∀ c, c ∈ cs → c.SmallLevel)
    (hl : a.LevelsOK) (ha : applyChangeSet a cs = (a', none)) : a'.LevelsOK := by
  induction cs generalizing a with
  | nil => simp only [applyChangeSet] at ha; cases ha; exact hl
  | cons c cs ih =>
    simp only [applyChangeSet] at ha
    cases hc : applyChange a c with
    | error e => simp [hc] at ha
    | ok a1 =>
      simp only [hc] at ha
      exact ih (fun x hx => hs x (by simp [hx])) (applyChange_LevelsOK c (hs c (by simp)) hl hc) ha

theorem applyAll_LevelsOK {a a' : Manifest} (sets : List ChangeSet)
    (hs : ∀ s, s ∈ sets → ∀ c, c ∈ s → c.SmallLevel)
    (hl : a.LevelsOK) (ha : applyAll a sets = some a') : a'.LevelsOK := by
  induction sets generalizing a with
  | nil => simp only [applyAll] at ha; cases ha; exact hl
  | cons cs sets ih =>
    simp only [applyAll] at ha
    rcases hc : applyChangeSet a cs with ⟨a1, _ | e⟩
    · rw [hc] at ha
      exact ih (fun x hx => hs x (by simp [hx])) (applyChangeSet_LevelsOK cs (hs cs (by simp)) hl hc) ha
    · rw [hc] at ha; simp at ha

theorem asChanges_smallLevel (cd : Codec) (hv : cd.Valid) (m : Manifest) (hw : m.WF) :
    ∀ c, c ∈ asChanges cd m → c.SmallLevel := by
  intro c hc _
  unfold asChanges at hc
  obtain ⟨e, he, rfl⟩ := List.mem_map.mp hc
  exact hw.level_lt e ((hv.ord_perm m.tables).mem_iff.mp he)

/-- Two manifests with the same table map and consistent level sets have the same level sets. -/
theorem levels_eq_of_lookup_eq {a b : Manifest} (ha : a.LevelsOK) (hb : b.LevelsOK)
    (h : ∀ id, a.lookup id = b.lookup id) (l id : Nat) :
    id ∈ levelAt a.levels l ↔ id ∈ levelAt b.levels l := by
  rw [ha l id, hb l id, h id]

/-! ## the file descriptor -/

theorem writeAt_end (file b : Bytes) : writeAt file file.length b = file ++ b := by
  unfold writeAt
  simp

/-- A torn tail: fewer than 8 bytes, or a frame header followed by fewer payload bytes than its
    length field announces. Exactly the situations in which the replay loop stops. -/
def TornTail (t : Bytes) : Prop :=
  t.length < 8 ∨ t.length - 8 < beNat (t.take 4)

theorem replayRest_torn (cd : Codec) (t : Bytes) (off : Nat) (b : Manifest)
    (ht : TornTail t) : replayRest cd t off b = .ok (b, off) := by
  rcases ht with h | h2
  · exact replayRest_short cd t off b h
  · by_cases h8 : t.length < 8
    · exact replayRest_short cd t off b h8
    · unfold replayRest
      obtain ⟨n, hn⟩ : ∃ n, t.length = n + 1 := ⟨t.length - 1, by omega⟩
      rw [hn]
      simp only [replayLoop]
      rw [if_neg h8, if_pos (by simp only [List.length_drop]; omega)]

end Badger
