import BadgerModel.Source
import BadgerProofs.Lemmas.Bytes
/-!
# `compareKeys` is a strict total order on byte strings; sorted entry lists.
Used by C21 (merge iterator) and C22 (skiplist).
-/
namespace Badger

theorem cmpBytes_trans_lt {a b c : Bytes} (h1 : cmpBytes a b = .lt) (h2 : cmpBytes b c = .lt) :
    cmpBytes a c = .lt := by
  induction a generalizing b c with
  | nil =>
    cases b with
    | nil => simp [cmpBytes] at h1
    | cons y ys => cases c with
      | nil => simp [cmpBytes] at h2
      | cons z zs => simp [cmpBytes]
  | cons x xs ih =>
    cases b with
    | nil => simp [cmpBytes] at h1
    | cons y ys =>
      cases c with
      | nil => simp [cmpBytes] at h2
      | cons z zs =>
        simp only [cmpBytes] at h1 h2 ⊢
        split at h1
        · split at h2
          · rw [if_pos (by omega)]
          · split at h2
            · cases h2
            · rw [if_pos (by omega)]
        · split at h1
          · cases h1
          · split at h2
            · rw [if_pos (by omega)]
            · split at h2
              · cases h2
              · rw [if_neg (by omega), if_neg (by omega)]
                exact ih h1 h2

/-- The laws of a strict total order presented as a three-way comparison. -/
structure TotalCmp (cmp : Bytes → Bytes → Ordering) : Prop where
  eq_iff : ∀ a b, cmp a b = .eq ↔ a = b
  swap : ∀ a b, (cmp a b).swap = cmp b a
  trans : ∀ {a b c}, cmp a b = .lt → cmp b c = .lt → cmp a c = .lt

namespace TotalCmp
variable {cmp : Bytes → Bytes → Ordering} (T : TotalCmp cmp)
include T

theorem refl (a : Bytes) : cmp a a = .eq := (T.eq_iff a a).mpr rfl

theorem gt_iff (a b : Bytes) : cmp a b = .gt ↔ cmp b a = .lt := by
  rw [← T.swap a b]; cases cmp a b <;> simp [Ordering.swap]

theorem lt_iff (a b : Bytes) : cmp a b = .lt ↔ cmp b a = .gt := by
  rw [← T.swap a b]; cases cmp a b <;> simp [Ordering.swap]

theorem lt_irrefl (a : Bytes) : cmp a a ≠ .lt := by rw [T.refl]; simp

theorem lt_asymm {a b : Bytes} (h : cmp a b = .lt) : cmp b a ≠ .lt := by
  rw [← T.swap a b, h]; simp [Ordering.swap]

theorem ne_of_lt {a b : Bytes} (h : cmp a b = .lt) : a ≠ b := by
  intro e; subst e; exact T.lt_irrefl a h

theorem flip : TotalCmp (fun a b => cmp b a) where
  eq_iff a b := by rw [T.eq_iff]; exact eq_comm
  swap a b := T.swap b a
  trans h1 h2 := T.trans h2 h1
end TotalCmp

theorem cmpBytes_total : TotalCmp cmpBytes where
  eq_iff := cmpBytes_eq_iff
  swap := cmpBytes_swap
  trans := cmpBytes_trans_lt

theorem take_drop_inj {a b : Bytes} (h1 : a.take (a.length - 8) = b.take (b.length - 8))
    (h2 : a.drop (a.length - 8) = b.drop (b.length - 8)) : a = b := by
  rw [← List.take_append_drop (a.length - 8) a, ← List.take_append_drop (b.length - 8) b, h1, h2]

theorem compareKeys_total : TotalCmp compareKeys where
  eq_iff a b := by
    unfold compareKeys
    constructor
    · intro h
      split at h
      · rename_i h1
        exact take_drop_inj ((cmpBytes_eq_iff _ _).mp h1) ((cmpBytes_eq_iff _ _).mp h)
      · rename_i h1; exact absurd h h1
    · intro h; subst h; simp [cmpBytes_refl]
  swap a b := by
    unfold compareKeys
    rw [← cmpBytes_swap (a.take _) (b.take _)]
    cases h : cmpBytes (a.take (a.length - 8)) (b.take (b.length - 8)) <;> simp [Ordering.swap]
    exact cmpBytes_swap _ _
  trans := by
    intro a b c h1 h2
    unfold compareKeys at *
    cases hab : cmpBytes (a.take (a.length - 8)) (b.take (b.length - 8)) <;> rw [hab] at h1 <;>
      simp at h1
    · cases hbc : cmpBytes (b.take (b.length - 8)) (c.take (c.length - 8)) <;> rw [hbc] at h2 <;>
        simp at h2
      · rw [cmpBytes_trans_lt hab hbc]
      · rw [← (cmpBytes_eq_iff _ _).mp hbc, hab]
    · cases hbc : cmpBytes (b.take (b.length - 8)) (c.take (c.length - 8)) <;> rw [hbc] at h2 <;>
        simp at h2
      · rw [(cmpBytes_eq_iff _ _).mp hab, hbc]
      · rw [(cmpBytes_eq_iff _ _).mp hab, hbc]
        simp
        exact cmpBytes_trans_lt h1 h2

theorem dcmp_total (rev : Bool) : TotalCmp (dcmp rev) := by
  cases rev
  · exact compareKeys_total
  · exact compareKeys_total.flip

end Badger
