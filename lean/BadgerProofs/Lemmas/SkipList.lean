import BadgerModel.Skiplist
import BadgerProofs.Lemmas.IterOrder
/-!
# Lemmas for C22 (sequential skiplist): key chains, `findNear`, `findLast`, `Put`.
-/
namespace Badger

/-- a key chain is strictly sorted under `compareKeys` -/
def KSorted (l : List Bytes) : Prop := l.Pairwise (fun a b => compareKeys a b = .lt)

theorem KSorted.tail {a : Bytes} {l : List Bytes} (h : KSorted (a :: l)) : KSorted l :=
  (List.pairwise_cons.mp h).2
theorem KSorted.head_lt {a : Bytes} {l : List Bytes} (h : KSorted (a :: l)) :
    ∀ x ∈ l, compareKeys a x = .lt := (List.pairwise_cons.mp h).1
theorem KSorted.sublist {l l' : List Bytes} (h : KSorted l) (hs : l'.Sublist l) : KSorted l' :=
  List.Pairwise.sublist hs h

theorem KSorted.append_lt {pre rest : List Bytes} (h : KSorted (pre ++ rest)) :
    ∀ a ∈ pre, ∀ b ∈ rest, compareKeys a b = .lt :=
  (List.pairwise_append.mp h).2.2
theorem KSorted.left {pre rest : List Bytes} (h : KSorted (pre ++ rest)) : KSorted pre :=
  (List.pairwise_append.mp h).1
theorem KSorted.right {pre rest : List Bytes} (h : KSorted (pre ++ rest)) : KSorted rest :=
  (List.pairwise_append.mp h).2.1

theorem ck_gt_of_lt {a b : Bytes} (h : compareKeys a b = .lt) : compareKeys b a = .gt :=
  (compareKeys_total.lt_iff a b).mp h
theorem ck_lt_of_gt {a b : Bytes} (h : compareKeys a b = .gt) : compareKeys b a = .lt :=
  (compareKeys_total.gt_iff a b).mp h
theorem ck_refl (a : Bytes) : compareKeys a a = .eq := compareKeys_total.refl a
theorem ck_eq {a b : Bytes} (h : compareKeys a b = .eq) : a = b := (compareKeys_total.eq_iff a b).mp h
theorem ck_ne_of_lt {a b : Bytes} (h : compareKeys a b = .lt) : a ≠ b := compareKeys_total.ne_of_lt h
theorem ck_ne_of_gt {a b : Bytes} (h : compareKeys a b = .gt) : a ≠ b :=
  fun e => compareKeys_total.ne_of_lt (ck_lt_of_gt h) e.symm
theorem ck_trans {a b c : Bytes} (h1 : compareKeys a b = .lt) (h2 : compareKeys b c = .lt) :
    compareKeys a c = .lt := compareKeys_total.trans h1 h2

namespace Skiplist

/-- `head` if the list is empty, else the node of its last key -/
def lastOf (pre : List Bytes) : SkRef := lastRef .head pre

@[simp] theorem lastOf_nil : lastOf [] = .head := rfl
@[simp] theorem lastOf_append_singleton (pre : List Bytes) (k : Bytes) :
    lastOf (pre ++ [k]) = .node k := by simp [lastOf, lastRef]

/-- the chain after the node of `k` when `k` occurs in a sorted chain -/
theorem after_sorted {pre rest : List Bytes} {k : Bytes} (h : KSorted (pre ++ k :: rest)) :
    after (.node k) (pre ++ k :: rest) = rest := by
  unfold after
  induction pre with
  | nil => simp
  | cons y ys ih =>
    have hy : compareKeys y k = .lt := h.head_lt k (by simp)
    have : (y != k) = true := by simpa using ck_ne_of_lt hy
    simp only [List.cons_append, List.dropWhile_cons, this, if_true]
    exact ih h.tail

theorem after_lastOf {pre rest : List Bytes} (h : KSorted (pre ++ rest)) :
    after (lastOf pre) (pre ++ rest) = rest := by
  rcases List.eq_nil_or_concat pre with rfl | ⟨pre', k, rfl⟩
  · rfl
  · rw [List.concat_eq_append] at h ⊢
    rw [lastOf_append_singleton]
    simp only [List.append_assoc, List.singleton_append] at h ⊢
    exact after_sorted h

/-! ### decomposition of a chain around `key` and the four bounds -/

theorem nearSpec_decomp {c lo mid hi : List Bytes} {key : Bytes} (hc : c = lo ++ (mid ++ hi))
    (hlo : ∀ a ∈ lo, compareKeys key a = .gt) (hmid : ∀ a ∈ mid, a = key)
    (hhi : ∀ b ∈ hi, compareKeys key b = .lt) :
    lowerBound key c = (mid ++ hi).head? ∧ upperBound key c = hi.head? ∧
    lastLE key c = (lo ++ mid).getLast? ∧ lastLT key c = lo.getLast? := by
  subst hc
  have hmid' : ∀ a ∈ mid, compareKeys key a = .eq := fun a ha => by rw [hmid a ha]; exact ck_refl _
  refine ⟨?_, ?_, ?_, ?_⟩
  · unfold lowerBound
    rw [List.find?_append, List.find?_eq_none.mpr (by intro a ha; simp [hlo a ha])]
    cases mid with
    | nil =>
      cases hi with
      | nil => simp
      | cons b bs => simp [hhi b (by simp)]
    | cons m ms => simp [hmid' m (by simp)]
  · unfold upperBound
    rw [List.find?_append, List.find?_eq_none.mpr (by intro a ha; simp [hlo a ha]),
      List.find?_append, List.find?_eq_none.mpr (by intro a ha; simp [hmid' a ha])]
    cases hi with
    | nil => simp
    | cons b bs => simp [hhi b (by simp)]
  · unfold lastLE
    rw [List.filter_append, List.filter_append,
      List.filter_eq_self.mpr (by intro a ha; simp [hlo a ha]),
      List.filter_eq_self.mpr (by intro a ha; simp [hmid' a ha]),
      List.filter_eq_nil_iff.mpr (by intro a ha; simp [hhi a ha])]
    simp
  · unfold lastLT
    rw [List.filter_append, List.filter_append,
      List.filter_eq_self.mpr (by intro a ha; simp [hlo a ha]),
      List.filter_eq_nil_iff.mpr (by intro a ha; simp [hmid' a ha]),
      List.filter_eq_nil_iff.mpr (by intro a ha; simp [hhi a ha])]
    simp

/-- `key` occurs in a sorted chain: the chain splits around it -/
theorem split_of_mem {c : List Bytes} {key : Bytes} (hs : KSorted c) (hm : key ∈ c) :
    ∃ lo hi, c = lo ++ key :: hi ∧ (∀ a ∈ lo, compareKeys key a = .gt) ∧
      (∀ b ∈ hi, compareKeys key b = .lt) := by
  obtain ⟨lo, hi, rfl⟩ := List.append_of_mem hm
  refine ⟨lo, hi, rfl, ?_, ?_⟩
  · intro a ha; exact ck_gt_of_lt (hs.append_lt a ha key (by simp))
  · intro b hb; exact hs.right.head_lt b hb

theorem refOfOpt_head? (l : List Bytes) : refOfOpt l.head? = refOfList l := by
  cases l <;> rfl

theorem refOfOpt_getLast? (pre : List Bytes) (h : pre ≠ []) : refOfOpt pre.getLast? = lastOf pre := by
  unfold lastOf lastRef
  cases hp : pre.getLast? with
  | none => exact absurd (List.getLast?_eq_none_iff.mp hp) h
  | some k => rfl

/-- the value `findNear` returns at the base level when it stops with `x = lastOf pre`
    and has to return `x` (or `nil` for the head) -/
def lastOrNil (pre : List Bytes) : SkRef := refOfOpt pre.getLast?

@[simp] theorem refOfOpt_none : refOfOpt none = .nil := rfl
@[simp] theorem refOfOpt_some (k : Bytes) : refOfOpt (some k) = .node k := rfl

theorem ite_last (pre : List Bytes) :
    (if lastOf pre = SkRef.head then (SkRef.nil, false) else (lastOf pre, false)) =
      (refOfOpt pre.getLast?, false) := by
  unfold lastOf lastRef
  cases pre.getLast? <;> simp

theorem lastOrNil_eq (pre : List Bytes) :
    lastOrNil pre = if lastOf pre == .head then .nil else lastOf pre := by
  unfold lastOrNil lastOf lastRef
  cases pre.getLast? <;> simp [refOfOpt]

/-! ### `findNear` -/

/-- spec result: node and `found` flag -/
def nearResult (c : List Bytes) (key : Bytes) (less ae : Bool) : SkRef × Bool :=
  (refOfOpt (nearSpec c key less ae), ae && c.contains key)

/-- base level: scanning `rest`, everything before (`pre`) is smaller than `key` -/
theorem scanNear_base (s : Skiplist) (key : Bytes) (less ae : Bool) (d : SkRef → SkRef × Bool)
    (pre rest : List Bytes) (hc : s.level 0 = pre ++ rest) (hs : KSorted (s.level 0))
    (hpre : ∀ a ∈ pre, compareKeys key a = .gt) :
    scanNear s key less ae 0 d (lastOf pre) rest = nearResult (s.level 0) key less ae := by
  induction rest generalizing pre with
  | nil =>
    simp only [List.append_nil] at hc
    have hd := nearSpec_decomp (c := s.level 0) (lo := pre) (mid := []) (hi := []) (key := key)
      (by simp [hc]) hpre (by simp) (by simp)
    have hnot : (s.level 0).contains key = false := by
      rw [hc]; simp only [List.contains_eq_mem, decide_eq_false_iff_not]
      intro hm; have := hpre key hm; rw [ck_refl] at this; cases this
    simp only [scanNear, Nat.lt_irrefl, if_false, nearResult, hnot, Bool.and_false]
    cases less <;> cases ae <;>
      simp [nearSpec, hd.1, hd.2.1, hd.2.2.1, hd.2.2.2, ite_last]
  | cons nk rest' ih =>
    have hs' : KSorted (pre ++ nk :: rest') := hc ▸ hs
    have hrest : ∀ b ∈ rest', compareKeys nk b = .lt := hs'.right.head_lt
    simp only [scanNear]
    cases hcmp : compareKeys key nk with
    | gt =>
      simp only
      have := ih (pre ++ [nk]) (by simp [hc]) (by
        intro a ha
        rcases List.mem_append.mp ha with h | h
        · exact hpre a h
        · simp at h; subst h; exact hcmp)
      rwa [lastOf_append_singleton] at this
    | eq =>
      have hk : key = nk := ck_eq hcmp
      subst hk
      have hd := nearSpec_decomp (c := s.level 0) (lo := pre) (mid := [key]) (hi := rest')
        (key := key) (by simp [hc]) hpre (by simp) hrest
      have hin : (s.level 0).contains key = true := by rw [hc]; simp
      have hnext : s.getNext (.node key) 0 = refOfList rest' := by
        unfold getNext; rw [hc, after_sorted hs']
      simp only [Nat.lt_irrefl, if_false, nearResult, hin, Bool.and_true]
      cases less <;> cases ae <;>
        simp [nearSpec, hd.1, hd.2.1, hd.2.2.1, hd.2.2.2, hnext, refOfOpt_head?, ite_last]
    | lt =>
      have hhi : ∀ b ∈ nk :: rest', compareKeys key b = .lt := by
        intro b hb
        rcases List.mem_cons.mp hb with h | h
        · subst h; exact hcmp
        · exact ck_trans hcmp (hrest b h)
      have hd := nearSpec_decomp (c := s.level 0) (lo := pre) (mid := []) (hi := nk :: rest')
        (key := key) (by simp [hc]) hpre (by simp) hhi
      have hnot : (s.level 0).contains key = false := by
        rw [hc]; simp only [List.contains_eq_mem, decide_eq_false_iff_not]
        intro hm
        rcases List.mem_append.mp hm with h | h
        · have := hpre key h; rw [ck_refl] at this; cases this
        · have := hhi key h; rw [ck_refl] at this; cases this
      simp only [Nat.lt_irrefl, if_false, nearResult, hnot, Bool.and_false]
      cases less <;> cases ae <;>
        simp [nearSpec, hd.1, hd.2.1, hd.2.2.1, hd.2.2.2, ite_last]

/-- `x` is the head or a node of level `l` whose key is smaller than `key` -/
def PosAt (s : Skiplist) (l : Nat) (key : Bytes) (x : SkRef) : Prop :=
  x = .head ∨ ∃ k, x = .node k ∧ k ∈ s.level l ∧ compareKeys key k = .gt

/-- a position on a sorted level splits the chain -/
theorem PosAt.split {s : Skiplist} {l : Nat} {key : Bytes} {x : SkRef} (hp : PosAt s l key x)
    (hs : KSorted (s.level l)) :
    ∃ pre rest, s.level l = pre ++ rest ∧ x = lastOf pre ∧ after x (s.level l) = rest ∧
      ∀ a ∈ pre, compareKeys key a = .gt := by
  rcases hp with rfl | ⟨k, rfl, hk, hlt⟩
  · exact ⟨[], s.level l, rfl, rfl, rfl, by simp⟩
  · obtain ⟨lo, hi, hc⟩ := List.append_of_mem hk
    refine ⟨lo ++ [k], hi, by simp [hc], by simp, ?_, ?_⟩
    · rw [hc]; exact after_sorted (hc ▸ hs)
    · intro a ha
      rcases List.mem_append.mp ha with h | h
      · have : compareKeys a k = .lt := (hc ▸ hs : KSorted (lo ++ k :: hi)).append_lt a h k (by simp)
        exact ck_gt_of_lt (ck_trans this (ck_lt_of_gt hlt))
      · simp at h; subst h; exact hlt

/-- upper levels: only membership in level 0 is needed -/
theorem scanNear_upper (s : Skiplist) (key : Bytes) (less ae : Bool) (l : Nat)
    (d : SkRef → SkRef × Bool) (hs : KSorted (s.level 0))
    (hd : ∀ x, PosAt s (l + 1) key x → d x = nearResult (s.level 0) key less ae)
    (hsub : ∀ k ∈ s.level (l + 1), k ∈ s.level 0)
    (x : SkRef) (rest : List Bytes) (hx : PosAt s (l + 1) key x)
    (hrest : ∀ k ∈ rest, k ∈ s.level (l + 1)) :
    scanNear s key less ae (l + 1) d x rest = nearResult (s.level 0) key less ae := by
  induction rest generalizing x with
  | nil => simp [scanNear, hd x hx]
  | cons nk rest' ih =>
    simp only [scanNear]
    cases hcmp : compareKeys key nk with
    | gt =>
      exact ih (.node nk) (.inr ⟨nk, rfl, hrest nk (by simp), hcmp⟩)
        (fun k hk => hrest k (List.mem_cons_of_mem _ hk))
    | lt => simp [hd x hx]
    | eq =>
      have hk : key = nk := ck_eq hcmp
      subst hk
      have hm0 : key ∈ s.level 0 := hsub key (hrest key (by simp))
      obtain ⟨lo, hi, hc, hlo, hhi⟩ := split_of_mem hs hm0
      have hdec := nearSpec_decomp (c := s.level 0) (lo := lo) (mid := [key]) (hi := hi)
        (key := key) (by simp [hc]) hlo (by simp) hhi
      have hin : (s.level 0).contains key = true := by simpa using hm0
      have hnext : s.getNext (.node key) 0 = refOfList hi := by
        unfold getNext; rw [hc, after_sorted (hc ▸ hs)]
      cases ae
      · cases less
        · simp [nearResult, nearSpec, hdec.2.1, hnext, refOfOpt_head?]
        · simp [hd x hx]
      · cases less <;> simp [nearResult, nearSpec, hm0, hdec.1, hdec.2.2.1]

/-- Structural invariant of the sequential skiplist. -/
structure Inv (s : Skiplist) : Prop where
  height_pos : 1 ≤ s.height
  height_le : s.height ≤ sklMaxHeight
  sorted : ∀ i, KSorted (s.level i)
  sublist : ∀ i, (s.level (i + 1)).Sublist (s.level i)
  above : ∀ i, s.height ≤ i → s.level i = []

theorem Inv.sub0 {s : Skiplist} (hi : Inv s) (l : Nat) : (s.level l).Sublist (s.level 0) := by
  induction l with
  | zero => exact List.Sublist.refl _
  | succ l ih => exact (hi.sublist l).trans ih

theorem Inv.mem_down {s : Skiplist} (hi : Inv s) {l : Nat} {k : Bytes} (h : k ∈ s.level (l + 1)) :
    k ∈ s.level l := (hi.sublist l).subset h

theorem findNearFrom_spec (s : Skiplist) (hi : Inv s) (key : Bytes) (less ae : Bool) (l : Nat)
    (x : SkRef) (hx : PosAt s l key x) :
    findNearFrom s key less ae l x = nearResult (s.level 0) key less ae := by
  induction l generalizing x with
  | zero =>
    obtain ⟨pre, rest, hc, rfl, hafter, hpre⟩ := hx.split (hi.sorted 0)
    simp only [findNearFrom, hafter]
    exact scanNear_base s key less ae _ pre rest hc (hi.sorted 0) hpre
  | succ l ih =>
    obtain ⟨pre, rest, hc, hxe, hafter, hpre⟩ := hx.split (hi.sorted (l + 1))
    simp only [findNearFrom, hafter]
    apply scanNear_upper s key less ae l _ (hi.sorted 0) _ (fun k hk => (hi.sub0 (l + 1)).subset hk)
      x rest hx (fun k hk => by rw [hc]; exact List.mem_append_right _ hk)
    intro x' hx'
    apply ih
    rcases hx' with rfl | ⟨k, rfl, hk, hlt⟩
    · exact .inl rfl
    · exact .inr ⟨k, rfl, hi.mem_down hk, hlt⟩

theorem findNear_spec (s : Skiplist) (hi : Inv s) (key : Bytes) (less ae : Bool) :
    s.findNear key less ae = nearResult (s.level 0) key less ae :=
  findNearFrom_spec s hi key less ae _ .head (.inl rfl)

/-! ### `findLast` -/

theorem findLastFrom_spec (s : Skiplist) (hi : Inv s) (l : Nat) (n : SkRef)
    (hn : n = .head ∨ ∃ k, n = .node k ∧ k ∈ s.level l) :
    findLastFrom s l n = refOfOpt (s.level 0).getLast? := by
  have key : ∀ l n, (n = .head ∨ ∃ k, n = .node k ∧ k ∈ s.level l) →
      (lastRef n (after n (s.level l)) = .head ∧ s.level l = []) ∨
      ∃ k, lastRef n (after n (s.level l)) = .node k ∧ (s.level l).getLast? = some k := by
    intro l n hn
    rcases hn with rfl | ⟨k, rfl, hk⟩
    · simp only [after]
      unfold lastRef
      cases h : (s.level l).getLast? with
      | none => exact .inl ⟨rfl, List.getLast?_eq_none_iff.mp h⟩
      | some k => exact .inr ⟨k, rfl, rfl⟩
    · obtain ⟨lo, hi', hc⟩ := List.append_of_mem hk
      right
      rw [hc, after_sorted (hc ▸ hi.sorted l)]
      unfold lastRef
      cases h : hi'.getLast? with
      | none =>
        have := List.getLast?_eq_none_iff.mp h; subst this
        exact ⟨k, rfl, by simp⟩
      | some k' =>
        refine ⟨k', rfl, ?_⟩
        rw [List.getLast?_append]
        simp [List.getLast?_cons, h]
  induction l generalizing n with
  | zero =>
    simp only [findLastFrom]
    rcases key 0 n hn with ⟨h1, h2⟩ | ⟨k, h1, h2⟩
    · rw [h1, h2]; simp
    · rw [h1, h2]; simp
  | succ l ih =>
    simp only [findLastFrom]
    apply ih
    rcases key (l + 1) n hn with ⟨h1, _⟩ | ⟨k, h1, h2⟩
    · exact .inl h1
    · exact .inr ⟨k, h1, hi.mem_down (List.mem_of_getLast? h2)⟩

/-! ### `Put` -/

/-- keys of a chain smaller than `key` -/
def kLo (key : Bytes) (c : List Bytes) : List Bytes := c.filter (fun k => compareKeys key k == .gt)
/-- keys of a chain greater than `key` -/
def kHi (key : Bytes) (c : List Bytes) : List Bytes := c.filter (fun k => compareKeys key k == .lt)
/-- the chain with `key` linked in at its sorted position -/
def kIns (key : Bytes) (c : List Bytes) : List Bytes := kLo key c ++ key :: kHi key c

theorem kLoHi_decomp {lo mid hi : List Bytes} {key : Bytes}
    (hlo : ∀ a ∈ lo, compareKeys key a = .gt) (hmid : ∀ a ∈ mid, a = key)
    (hhi : ∀ b ∈ hi, compareKeys key b = .lt) :
    kLo key (lo ++ (mid ++ hi)) = lo ∧ kHi key (lo ++ (mid ++ hi)) = hi := by
  have hmid' : ∀ a ∈ mid, compareKeys key a = .eq := fun a ha => by rw [hmid a ha]; exact ck_refl _
  unfold kLo kHi
  constructor
  · rw [List.filter_append, List.filter_append,
      List.filter_eq_self.mpr (by intro a ha; simp [hlo a ha]),
      List.filter_eq_nil_iff.mpr (by intro a ha; simp [hmid' a ha]),
      List.filter_eq_nil_iff.mpr (by intro a ha; simp [hhi a ha])]
    simp
  · rw [List.filter_append, List.filter_append,
      List.filter_eq_nil_iff.mpr (by intro a ha; simp [hlo a ha]),
      List.filter_eq_nil_iff.mpr (by intro a ha; simp [hmid' a ha]),
      List.filter_eq_self.mpr (by intro a ha; simp [hhi a ha])]
    simp

theorem mem_kLo {key a : Bytes} {c : List Bytes} : a ∈ kLo key c ↔ a ∈ c ∧ compareKeys key a = .gt := by
  simp [kLo]
theorem mem_kHi {key a : Bytes} {c : List Bytes} : a ∈ kHi key c ↔ a ∈ c ∧ compareKeys key a = .lt := by
  simp [kHi]

/-- a sorted chain without `key` is its lower part followed by its upper part -/
theorem kLo_append_kHi {c : List Bytes} {key : Bytes} (hs : KSorted c) (hk : key ∉ c) :
    kLo key c ++ kHi key c = c := by
  induction c with
  | nil => rfl
  | cons y ys ih =>
    have ih := ih hs.tail (fun h => hk (List.mem_cons_of_mem _ h))
    cases hc : compareKeys key y with
    | gt => simp only [kLo, kHi, List.filter_cons, hc] at ih ⊢; simpa using ih
    | eq => exact absurd (by rw [ck_eq hc]; simp) hk
    | lt =>
      have hall : ∀ b ∈ y :: ys, compareKeys key b = .lt := by
        intro b hb
        rcases List.mem_cons.mp hb with h | h
        · subst h; exact hc
        · exact ck_trans hc (hs.head_lt b h)
      have := kLoHi_decomp (lo := []) (mid := []) (hi := y :: ys) (key := key) (by simp) (by simp) hall
      simp only [List.nil_append] at this
      rw [this.1, this.2]; rfl

theorem kSorted_kIns {c : List Bytes} {key : Bytes} (hs : KSorted c) : KSorted (kIns key c) := by
  unfold kIns KSorted
  rw [List.pairwise_append]
  refine ⟨hs.sublist List.filter_sublist, ?_, ?_⟩
  · rw [List.pairwise_cons]
    exact ⟨fun b hb => (mem_kHi.mp hb).2, hs.sublist List.filter_sublist⟩
  · intro a ha b hb
    have ha' : compareKeys a key = .lt := ck_lt_of_gt (mem_kLo.mp ha).2
    rcases List.mem_cons.mp hb with h | h
    · subst h; exact ha'
    · exact ck_trans ha' (mem_kHi.mp h).2

theorem kIns_sublist {a b : List Bytes} {key : Bytes} (h : a.Sublist b) :
    (kIns key a).Sublist (kIns key b) := by
  unfold kIns kLo kHi
  exact List.Sublist.append (h.filter _) (List.Sublist.cons_cons _ (h.filter _))

theorem sublist_kIns {c : List Bytes} {key : Bytes} (hs : KSorted c) (hk : key ∉ c) :
    c.Sublist (kIns key c) := by
  have := kLo_append_kHi hs hk
  unfold kIns
  conv => lhs; rw [← this]
  exact List.Sublist.append (List.Sublist.refl _) (List.sublist_cons_self _ _)

theorem insertAfterKey_spec {lo hi : List Bytes} {a key : Bytes} (h : KSorted (lo ++ a :: hi)) :
    insertAfterKey a key (lo ++ a :: hi) = lo ++ a :: key :: hi := by
  induction lo with
  | nil => simp [insertAfterKey]
  | cons y ys ih =>
    have hy : compareKeys y a = .lt := h.head_lt a (by simp)
    have : (y == a) = false := by simpa using ck_ne_of_lt hy
    simp only [List.cons_append, insertAfterKey, this]
    simp only [Bool.false_eq_true, if_false]
    rw [ih h.tail]

theorem insertAfter_lastOf {lo hi : List Bytes} {key : Bytes} (h : KSorted (lo ++ hi)) :
    insertAfter (lastOf lo) key (lo ++ hi) = lo ++ key :: hi := by
  rcases List.eq_nil_or_concat lo with rfl | ⟨lo', a, rfl⟩
  · rfl
  · rw [List.concat_eq_append] at h ⊢
    rw [lastOf_append_singleton]
    simp only [List.append_assoc, List.singleton_append] at h ⊢
    exact insertAfterKey_spec h

/-- the splice `(prev[j], next[j])` that `Put` must find on level `j` when `key` is absent -/
def spliceOf (s : Skiplist) (key : Bytes) (j : Nat) : SkRef × SkRef :=
  (lastOf (kLo key (s.level j)), refOfList (kHi key (s.level j)))

theorem spliceScan_spec (key : Bytes) (L pre rest : List Bytes) (hc : L = pre ++ rest)
    (hs : KSorted L) (hpre : ∀ a ∈ pre, compareKeys key a = .gt) :
    spliceScan key (lastOf pre) rest =
      if key ∈ L then (.node key, .node key) else (lastOf (kLo key L), refOfList (kHi key L)) := by
  induction rest generalizing pre with
  | nil =>
    simp only [List.append_nil] at hc
    have hnot : key ∉ L := by
      rw [hc]; intro hm; have := hpre key hm; rw [ck_refl] at this; cases this
    have hd := kLoHi_decomp (lo := pre) (mid := []) (hi := []) (key := key) hpre (by simp) (by simp)
    simp only [List.append_nil] at hd
    rw [if_neg hnot, hc, hd.1, hd.2]; rfl
  | cons nk rest' ih =>
    have hs' : KSorted (pre ++ nk :: rest') := hc ▸ hs
    simp only [spliceScan]
    cases hcmp : compareKeys key nk with
    | gt =>
      simp only
      have := ih (pre ++ [nk]) (by simp [hc]) (by
        intro a ha
        rcases List.mem_append.mp ha with h | h
        · exact hpre a h
        · simp at h; subst h; exact hcmp)
      rwa [lastOf_append_singleton] at this
    | eq =>
      have hk : key = nk := ck_eq hcmp
      subst hk
      have : key ∈ L := by rw [hc]; simp
      simp [this]
    | lt =>
      have hhi : ∀ b ∈ nk :: rest', compareKeys key b = .lt := by
        intro b hb
        rcases List.mem_cons.mp hb with h | h
        · subst h; exact hcmp
        · exact ck_trans hcmp (hs'.right.head_lt b h)
      have hnot : key ∉ L := by
        rw [hc]; intro hm
        rcases List.mem_append.mp hm with h | h
        · have := hpre key h; rw [ck_refl] at this; cases this
        · have := hhi key h; rw [ck_refl] at this; cases this
      have hd := kLoHi_decomp (lo := pre) (mid := []) (hi := nk :: rest') (key := key) hpre
        (by simp) hhi
      simp only [List.nil_append] at hd
      rw [if_neg hnot, hc, hd.1, hd.2]; rfl

theorem findSplice_spec (s : Skiplist) (key : Bytes) (l : Nat) (before : SkRef)
    (hs : KSorted (s.level l)) (hp : PosAt s l key before) :
    s.findSpliceForLevel key before l =
      if key ∈ s.level l then (.node key, .node key) else spliceOf s key l := by
  obtain ⟨pre, rest, hc, rfl, hafter, hpre⟩ := hp.split hs
  unfold findSpliceForLevel
  rw [hafter]
  exact spliceScan_spec key _ pre rest hc hs hpre

theorem posAt_lastOf_kLo (s : Skiplist) (key : Bytes) (l : Nat) :
    PosAt s l key (lastOf (kLo key (s.level l))) := by
  unfold lastOf lastRef
  cases h : (kLo key (s.level l)).getLast? with
  | none => exact .inl rfl
  | some k =>
    have := mem_kLo.mp (List.mem_of_getLast? h)
    exact .inr ⟨k, rfl, this.1, this.2⟩

theorem spliceOf_ne (s : Skiplist) (key : Bytes) (l : Nat) :
    ((spliceOf s key l).1 == (spliceOf s key l).2) = false := by
  unfold spliceOf lastOf lastRef
  cases h1 : (kLo key (s.level l)).getLast? with
  | none => cases kHi key (s.level l) <;> simp [refOfList]
  | some a =>
    cases h2 : kHi key (s.level l) with
    | nil => simp [refOfList]
    | cons b bs =>
      have ha := (mem_kLo.mp (List.mem_of_getLast? h1)).2
      have hb := (mem_kHi.mp (h2 ▸ List.mem_cons_self : b ∈ kHi key (s.level l))).2
      have : a ≠ b := fun e => by rw [e, hb] at ha; cases ha
      simpa [refOfList] using this

theorem putDescend_spec (s : Skiplist) (hi : Inv s) (key : Bytes) (n : Nat) (before : SkRef)
    (acc : List (SkRef × SkRef)) (hp : ∀ i, n = i + 1 → PosAt s i key before) :
    match putDescend s key n before acc with
    | .inl k => k = key ∧ key ∈ s.level 0
    | .inr spl => spl = (List.range n).map (spliceOf s key) ++ acc ∧ ∀ j, j < n → key ∉ s.level j := by
  induction n generalizing before acc with
  | zero => simp [putDescend]
  | succ i ih =>
    have hfs := findSplice_spec s key i before (hi.sorted i) (hp i rfl)
    simp only [putDescend]
    by_cases hm : key ∈ s.level i
    · rw [if_pos hm] at hfs
      simp only [hfs, beq_self_eq_true, if_true]
      refine ⟨?_, (hi.sub0 i).subset hm⟩
      first | rfl | trivial
    · rw [if_neg hm] at hfs
      rw [hfs]
      simp only [spliceOf_ne, Bool.false_eq_true, if_false]
      have hp' : ∀ i', i = i' + 1 → PosAt s i' key (spliceOf s key i).1 := by
        intro i' hi'
        subst hi'
        rcases posAt_lastOf_kLo s key (i' + 1) with h | ⟨k, h1, h2, h3⟩
        · exact .inl h
        · exact .inr ⟨k, h1, hi.mem_down h2, h3⟩
      have := ih (spliceOf s key i).1 (spliceOf s key i :: acc) hp'
      split at this
      · exact this
      · refine ⟨?_, ?_⟩
        · rw [this.1, List.range_succ]; simp
        · intro j hj
          rcases Nat.lt_succ_iff_lt_or_eq.mp hj with h | h
          · exact this.2 j h
          · subst h; exact hm

theorem level_setLevel (ls : List (List Bytes)) (i j : Nat) (c : List Bytes) :
    (setLevel ls i c).getD j [] = if j = i then c else ls.getD j [] := by
  induction ls generalizing i j with
  | nil =>
    induction i generalizing j with
    | zero => cases j <;> simp [setLevel]
    | succ i ih =>
      cases j with
      | zero => simp [setLevel]
      | succ j => simp only [setLevel, List.getD_cons_succ, ih j]; simp
  | cons l ls ih =>
    cases i with
    | zero => cases j <;> simp [setLevel]
    | succ i =>
      cases j with
      | zero => simp [setLevel]
      | succ j => simp only [setLevel, List.getD_cons_succ, ih i j]; simp

theorem level_insertAt (s : Skiplist) (i j : Nat) (p : SkRef) (key : Bytes) :
    (s.insertAt i p key).level j = if j = i then insertAfter p key (s.level i) else s.level j := by
  unfold insertAt level
  exact level_setLevel _ _ _ _

/-- the second loop of `Put` links `key` into levels `i … i+n-1`; the CAS never fails -/
theorem linkFrom_spec (s0 : Skiplist) (hi : Inv s0) (key v : Bytes) (spl : List (SkRef × SkRef))
    (hspl : spl = (List.range s0.height).map (spliceOf s0 key)) (hk : ∀ j, key ∉ s0.level j)
    (n i : Nat) (s : Skiplist)
    (hlev : ∀ j, s.level j = if j < i then kIns key (s0.level j) else s0.level j) :
    ∃ s', linkFrom key v s0.height spl n i s = some s' ∧ s'.height = s.height ∧ s'.vals = s.vals ∧
      ∀ j, s'.level j = if j < i + n then kIns key (s0.level j) else s0.level j := by
  induction n generalizing i s with
  | zero => exact ⟨s, rfl, rfl, rfl, by simpa using hlev⟩
  | succ n ih =>
    have hli : s.level i = s0.level i := by rw [hlev i]; simp
    have hsorted : KSorted (s0.level i) := hi.sorted i
    have hdec := kLo_append_kHi hsorted (hk i)
    -- the splice used on level `i` is `spliceOf s0 key i`
    have hpn : (if i < s0.height then spl[i]?
        else if i == s0.height then some (SkRef.head, SkRef.nil)
        else if i > 1 then
          (let pn := s.findSpliceForLevel key .head i
           if pn.1 == pn.2 then none else some pn)
        else none) = some (spliceOf s0 key i) := by
      by_cases h1 : i < s0.height
      · rw [if_pos h1, hspl]; simp [h1]
      · have hemp : s0.level i = [] := hi.above i (by omega)
        have hsp : spliceOf s0 key i = (.head, .nil) := by
          unfold spliceOf; rw [hemp]; rfl
        rw [if_neg h1, hsp]
        by_cases h2 : i = s0.height
        · simp [h2]
        · have h3 : i > 1 := by have := hi.height_pos; omega
          have : (i == s0.height) = false := by simpa using h2
          rw [this]
          simp only [Bool.false_eq_true, if_false, if_pos h3]
          have : s.findSpliceForLevel key .head i = (.head, .nil) := by
            unfold findSpliceForLevel; rw [hli, hemp]; rfl
          rw [this]; rfl
    have hsorted' : KSorted (kLo key (s0.level i) ++ kHi key (s0.level i)) := by
      rw [hdec]; exact hsorted
    have hcas : s.getNext (spliceOf s0 key i).1 i = (spliceOf s0 key i).2 := by
      unfold getNext spliceOf
      rw [hli]
      have := after_lastOf hsorted'
      rw [hdec] at this
      simp only [this]
    have hins : insertAfter (spliceOf s0 key i).1 key (s.level i) = kIns key (s0.level i) := by
      unfold spliceOf kIns
      rw [hli]
      have := insertAfter_lastOf (key := key) hsorted'
      rw [hdec] at this
      simp only [this]
    simp only [linkFrom]
    rw [hpn]
    simp only [hcas, beq_self_eq_true, if_true]
    obtain ⟨s', h1, h2, h3, h4⟩ := ih (i + 1) (s.insertAt i (spliceOf s0 key i).1 key) (by
      intro j
      rw [level_insertAt, hins, hlev j]
      by_cases hj : j = i
      · subst hj; simp
      · have : (j < i + 1) = (j < i) := by apply propext; omega
        simp [hj, this])
    refine ⟨s', h1, h2, h3, ?_⟩
    intro j
    rw [h4 j]
    have : (j < i + 1 + n) = (j < i + (n + 1)) := by apply propext; omega
    simp [this]

/-- what `Put` does to the state -/
theorem put_spec (s : Skiplist) (hi : Inv s) (key v : Bytes) (h : Nat) (_h1 : 1 ≤ h) :
    ∃ s', s.put key v h = some s' ∧ s'.vals = (key, v) :: s.vals ∧
      ((key ∈ s.level 0 ∧ s'.height = s.height ∧ ∀ j, s'.level j = s.level j) ∨
       (key ∉ s.level 0 ∧ s'.height = max s.height h ∧
         ∀ j, s'.level j = if j < h then kIns key (s.level j) else s.level j)) := by
  unfold put
  have hd := putDescend_spec s hi key s.height .head [] (fun i _ => .inl rfl)
  split
  · rename_i k heq
    rw [heq] at hd
    obtain ⟨rfl, hm⟩ := hd
    exact ⟨_, rfl, rfl, .inl ⟨hm, rfl, fun _ => rfl⟩⟩
  · rename_i spl heq
    rw [heq] at hd
    obtain ⟨hspl, hnot⟩ := hd
    simp only [List.append_nil] at hspl
    have hk : ∀ j, key ∉ s.level j := by
      intro j
      by_cases hj : j < s.height
      · exact hnot j hj
      · rw [hi.above j (by omega)]; simp
    let s2 : Skiplist :=
      if h > (s.setValue key v).height then { s.setValue key v with height := h } else s.setValue key v
    have hlev2 : ∀ j, s2.level j = s.level j := by
      intro j; simp only [s2]; split <;> rfl
    obtain ⟨s', e1, e2, e3, e4⟩ := linkFrom_spec s hi key v spl hspl hk h 0 s2 (by
      intro j; rw [hlev2 j]; simp)
    refine ⟨s', e1, ?_, .inr ⟨hk 0, ?_, ?_⟩⟩
    · rw [e3]; simp only [s2]; split <;> rfl
    · rw [e2]; simp only [s2, setValue]
      by_cases hh : h > s.height
      · simp only [hh, ↓reduceIte]; omega
      · simp only [hh, ↓reduceIte]; omega
    · intro j; rw [e4 j]; simp

theorem inv_empty : Inv empty where
  height_pos := by simp [empty]
  height_le := by simp [empty, sklMaxHeight]
  sorted := by intro i; simp [empty, level, KSorted]
  sublist := by intro i; simp [empty, level]
  above := by intro i _; simp [empty, level]

theorem put_inv (s : Skiplist) (hi : Inv s) (key v : Bytes) (h : Nat) (h1 : 1 ≤ h)
    (h2 : h ≤ sklMaxHeight) {s' : Skiplist} (hput : s.put key v h = some s') : Inv s' := by
  obtain ⟨s'', e, _, hcase⟩ := put_spec s hi key v h h1
  rw [e] at hput
  injection hput with hput
  subst hput
  rcases hcase with ⟨_, hh, hl⟩ | ⟨hk0, hh, hl⟩
  · exact ⟨hh ▸ hi.height_pos, hh ▸ hi.height_le, fun i => hl i ▸ hi.sorted i,
      fun i => by rw [hl, hl]; exact hi.sublist i,
      fun i hle => by rw [hl]; exact hi.above i (hh ▸ hle)⟩
  · have hk : ∀ j, key ∉ s.level j := fun j hm => hk0 ((hi.sub0 j).subset hm)
    refine ⟨?_, ?_, ?_, ?_, ?_⟩
    · rw [hh]; have := hi.height_pos; omega
    · rw [hh]; have := hi.height_le; omega
    · intro i; rw [hl]; split
      · exact kSorted_kIns (hi.sorted i)
      · exact hi.sorted i
    · intro i; rw [hl, hl]
      by_cases c1 : i + 1 < h
      · rw [if_pos c1, if_pos (by omega)]; exact kIns_sublist (hi.sublist i)
      · rw [if_neg c1]
        by_cases c2 : i < h
        · rw [if_pos c2]; exact (hi.sublist i).trans (sublist_kIns (hi.sorted i) (hk i))
        · rw [if_neg c2]; exact hi.sublist i
    · intro i hle; rw [hl, hh] at *
      rw [if_neg (by omega)]; exact hi.above i (by omega)

/-! ### level 0 as a sorted association list -/

theorem sortedInsert_map (f : Bytes → Bytes) (key v : Bytes) (lo mid hi : List Bytes)
    (hlo : ∀ a ∈ lo, compareKeys key a = .gt) (hmid : mid = [] ∨ mid = [key])
    (hhi : ∀ b ∈ hi, compareKeys key b = .lt) :
    sortedInsert key v ((lo ++ (mid ++ hi)).map (fun k => ⟨k, f k⟩)) =
      lo.map (fun k => ⟨k, f k⟩) ++ ⟨key, v⟩ :: hi.map (fun k => ⟨k, f k⟩) := by
  induction lo with
  | nil =>
    rcases hmid with rfl | rfl
    · cases hi with
      | nil => rfl
      | cons b bs => simp [sortedInsert, hhi b (by simp)]
    · simp [sortedInsert, ck_refl]
  | cons a lo ih =>
    simp only [List.cons_append, List.map_cons, sortedInsert, hlo a (by simp)]
    rw [ih (fun x hx => hlo x (List.mem_cons_of_mem _ hx))]

theorem valueOf_setValue (s : Skiplist) (key v k : Bytes) :
    (s.setValue key v).valueOf k = if k = key then v else s.valueOf k := by
  unfold valueOf setValue
  simp only [List.lookup_cons]
  by_cases h : k = key
  · subst h; simp
  · have : (k == key) = false := by simpa using h
    simp [this, h]

theorem put_toList (s : Skiplist) (hi : Inv s) (key v : Bytes) (h : Nat) (h1 : 1 ≤ h)
    {s' : Skiplist} (hput : s.put key v h = some s') :
    s'.toList = sortedInsert key v s.toList := by
  obtain ⟨s'', e, hv, hcase⟩ := put_spec s hi key v h h1
  rw [e] at hput
  injection hput with hput
  subst hput
  have hval : ∀ k, s''.valueOf k = if k = key then v else s.valueOf k := by
    intro k
    have := valueOf_setValue s key v k
    unfold valueOf at this ⊢
    rw [hv]; exact this
  have hs0 := hi.sorted 0
  have hmapne : ∀ l : List Bytes, key ∉ l →
      l.map (fun k => (⟨k, s''.valueOf k⟩ : ItEntry)) = l.map (fun k => ⟨k, s.valueOf k⟩) := by
    intro l hl
    apply List.map_congr_left
    intro k hk
    rw [hval k, if_neg (fun (e : k = key) => hl (e ▸ hk))]
  unfold toList
  rcases hcase with ⟨hm, _, hl⟩ | ⟨hk0, _, hl⟩
  · obtain ⟨lo, hi', hc, hlo, hhi⟩ := split_of_mem hs0 hm
    rw [hl 0, hc]
    have := sortedInsert_map s.valueOf key v lo [key] hi' hlo (.inr rfl) hhi
    simp only [List.singleton_append] at this
    rw [this]
    have hnlo : key ∉ lo := fun hm' => by have := hlo key hm'; rw [ck_refl] at this; cases this
    have hnhi : key ∉ hi' := fun hm' => by have := hhi key hm'; rw [ck_refl] at this; cases this
    simp only [List.map_append, List.map_cons, hmapne lo hnlo, hmapne hi' hnhi, hval key, if_true]
  · rw [hl 0, if_pos (by omega)]
    have hdec := kLo_append_kHi hs0 hk0
    have hlo : ∀ a ∈ kLo key (s.level 0), compareKeys key a = .gt := fun a ha => (mem_kLo.mp ha).2
    have hhi : ∀ b ∈ kHi key (s.level 0), compareKeys key b = .lt := fun b hb => (mem_kHi.mp hb).2
    have := sortedInsert_map s.valueOf key v _ [] _ hlo (.inl rfl) hhi
    simp only [List.nil_append, hdec] at this
    rw [this]
    have hnlo : key ∉ kLo key (s.level 0) := fun hm' => hk0 (mem_kLo.mp hm').1
    have hnhi : key ∉ kHi key (s.level 0) := fun hm' => hk0 (mem_kHi.mp hm').1
    unfold kIns
    simp only [List.map_append, List.map_cons, hmapne _ hnlo, hmapne _ hnhi, hval key, if_true]

end Skiplist
end Badger
