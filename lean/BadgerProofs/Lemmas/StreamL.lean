import BadgerModel.Stream
import BadgerProofs.Lemmas.StreamOrd
/-!
# Lemmas for the Stream proofs (C25): byte order and prefixes, `sortBytes`, the key ranges,
list facts about `takeWhile`/`dropWhile`, forward seek in a sorted list, `produceLoop`.
Namespace `Badger.SL`; depends on `Lemmas/StreamOrd.lean` only.
-/
namespace Badger
namespace SL
open SO

instance (a b : Bytes) : Decidable (klt a b) := inferInstanceAs (Decidable (cmpBytes a b = .lt))

/-! ## byte order and prefixes -/
theorem klt_of_klt_of_le {a b c : Bytes} (h1 : klt a b) (h2 : ¬ klt c b) : klt a c := by
  rcases klt_tri b c with h | h | h
  · exact klt_trans h1 h
  · exact h ▸ h1
  · exact absurd h h2

theorem klt_of_le_of_klt {a b c : Bytes} (h1 : ¬ klt b a) (h2 : klt b c) : klt a c := by
  rcases klt_tri a b with h | h | h
  · exact klt_trans h h2
  · exact h ▸ h2
  · exact absurd h h1

theorem le_trans {a b c : Bytes} (h1 : ¬ klt b a) (h2 : ¬ klt c b) : ¬ klt c a :=
  fun h => h1 (klt_of_le_of_klt h2 h)

theorem not_klt_nil (a : Bytes) : ¬ klt a [] := by
  cases a <;> simp [klt, cmpBytes]

theorem ltb_iff (a b : Bytes) : (cmpBytes a b == .lt) = true ↔ klt a b := by
  unfold klt; simp

theorem prefix_ge {p k : Bytes} (h : p.isPrefixOf k = true) : ¬ klt k p := by
  induction p generalizing k with
  | nil => exact not_klt_nil k
  | cons x xs ih =>
    cases k with
    | nil => simp [List.isPrefixOf] at h
    | cons y ys =>
      simp only [List.isPrefixOf, Bool.and_eq_true, beq_iff_eq] at h
      obtain ⟨rfl, h⟩ := h
      have := ih h
      unfold klt at this ⊢
      simp only [cmpBytes, Nat.lt_irrefl, if_false]
      exact this

theorem prefix_between {p b c : Bytes} (hp : p.isPrefixOf c = true) (h1 : ¬ klt b p) (h2 : ¬ klt c b) :
    p.isPrefixOf b = true := by
  induction p generalizing b c with
  | nil => simp [List.isPrefixOf]
  | cons x xs ih =>
    cases c with
    | nil => simp [List.isPrefixOf] at hp
    | cons z zs =>
      simp only [List.isPrefixOf, Bool.and_eq_true, beq_iff_eq] at hp
      obtain ⟨rfl, hp⟩ := hp
      cases b with
      | nil => exfalso; apply h1; simp [klt, cmpBytes]
      | cons y ys =>
        unfold klt at h1 h2
        simp only [cmpBytes] at h1 h2
        have hxy : ¬ y.toNat < x.toNat := by
          intro h; simp [h] at h1
        have hyx : ¬ x.toNat < y.toNat := by
          intro h; simp [h] at h2
        have e : x = y := UInt8.toNat_inj.mp (by omega)
        subst e
        simp only [Nat.lt_irrefl, if_false] at h1 h2
        simp only [List.isPrefixOf, beq_self_eq_true, Bool.true_and]
        exact ih hp h1 h2

/-! ## `sortBytes` -/

/-- non-decreasing byte strings -/
def SortedB (l : List Bytes) : Prop := l.Pairwise (fun a b => ¬ klt b a)

theorem mem_insertBytes {b y : Bytes} {l : List Bytes} : y ∈ insertBytes b l ↔ y = b ∨ y ∈ l := by
  induction l with
  | nil => simp [insertBytes]
  | cons x xs ih =>
    simp only [insertBytes]
    split
    · simp
    · simp only [List.mem_cons, ih]
      constructor
      · rintro (h | h | h)
        · exact .inr (.inl h)
        · exact .inl h
        · exact .inr (.inr h)
      · rintro (h | h | h)
        · exact .inr (.inl h)
        · exact .inl h
        · exact .inr (.inr h)

theorem mem_sortBytes {y : Bytes} {l : List Bytes} : y ∈ sortBytes l ↔ y ∈ l := by
  induction l with
  | nil => simp [sortBytes]
  | cons x xs ih =>
    have : sortBytes (x :: xs) = insertBytes x (sortBytes xs) := rfl
    rw [this, mem_insertBytes, ih]; simp

theorem sorted_insertBytes {b : Bytes} {l : List Bytes} (h : SortedB l) : SortedB (insertBytes b l) := by
  induction l with
  | nil => simp [insertBytes, SortedB]
  | cons x xs ih =>
    unfold SortedB at h ih ⊢
    obtain ⟨h1, h2⟩ := List.pairwise_cons.mp h
    simp only [insertBytes]
    split
    · rename_i hc
      have hbx : klt b x := (cmpBytes_gt_iff _ _).mp (by simpa using hc)
      refine List.pairwise_cons.mpr ⟨?_, h⟩
      intro y hy
      rcases List.mem_cons.mp hy with rfl | hy
      · exact klt_asymm hbx
      · intro hyb; exact h1 y hy (klt_trans hyb hbx)
    · rename_i hc
      have hbx : ¬ klt b x := fun hh => hc (by simpa using (cmpBytes_gt_iff _ _).mpr hh)
      refine List.pairwise_cons.mpr ⟨?_, ih h2⟩
      intro y hy
      rcases mem_insertBytes.mp hy with rfl | hy
      · exact hbx
      · exact h1 y hy

theorem sorted_sortBytes (l : List Bytes) : SortedB (sortBytes l) := by
  induction l with
  | nil => simp [sortBytes, SortedB]
  | cons x xs ih => exact sorted_insertBytes ih

/-! ## the ranges partition the key space -/

theorem contains_iff (r : KeyRange) (k : Bytes) :
    r.contains k = true ↔ ¬ klt k r.left ∧ (r.right = [] ∨ klt k r.right) := by
  unfold KeyRange.contains klt
  simp [List.isEmpty_iff]

theorem rangesFrom_count (start : Bytes) (ss : List Bytes) (hs : SortedB ss)
    (hge : ∀ s ∈ ss, ¬ klt s start) (hne : ∀ s ∈ ss, s ≠ []) (k : Bytes) :
    ((rangesFrom start ss).filter (fun r => r.contains k)).length = if klt k start then 0 else 1 := by
  induction ss generalizing start with
  | nil =>
    simp only [rangesFrom]
    by_cases h : klt k start
    · have : KeyRange.contains { left := start, right := [] } k = false := by
        rw [Bool.eq_false_iff]; intro hc; exact ((contains_iff _ _).mp hc).1 h
      simp [List.filter, this, h]
    · have : KeyRange.contains { left := start, right := [] } k = true :=
        (contains_iff _ _).mpr ⟨h, .inl rfl⟩
      simp [List.filter, this, h]
  | cons s ss ih =>
    obtain ⟨h1, h2⟩ := List.pairwise_cons.mp hs
    have ihs := ih s h2 h1 (fun t ht => hne t (List.mem_cons_of_mem _ ht))
    have hss : ¬ klt s start := hge s (by simp)
    have hsne : s ≠ [] := hne s (by simp)
    simp only [rangesFrom, List.filter_cons]
    by_cases h : klt k start
    · have hks : klt k s := klt_of_klt_of_le h hss
      have : KeyRange.contains { left := start, right := s } k = false := by
        rw [Bool.eq_false_iff]; intro hc; exact ((contains_iff _ _).mp hc).1 h
      rw [this]; simp only [Bool.false_eq_true, if_false]
      rw [ihs]; simp [h, hks]
    · by_cases hks : klt k s
      · have : KeyRange.contains { left := start, right := s } k = true :=
          (contains_iff _ _).mpr ⟨h, .inr hks⟩
        rw [this]; simp only [if_true, List.length_cons]
        rw [ihs]; simp [h, hks]
      · have : KeyRange.contains { left := start, right := s } k = false := by
          rw [Bool.eq_false_iff]; intro hc
          rcases ((contains_iff _ _).mp hc).2 with e | e
          · exact hsne e
          · exact hks e
        rw [this]; simp only [Bool.false_eq_true, if_false]
        rw [ihs]; simp [h, hks]

theorem splitRanges_count (splits : List Bytes) (hne : ∀ s ∈ splits, s ≠ []) (k : Bytes) :
    ((splitRanges splits).filter (fun r => r.contains k)).length = 1 := by
  unfold splitRanges
  rw [rangesFrom_count [] _ (sorted_sortBytes _) (fun s _ => not_klt_nil s)
    (fun s hs => hne s (mem_sortBytes.mp hs))]
  simp [not_klt_nil]

/-! ## list facts -/

theorem dropWhile_append_all {α : Type} (p : α → Bool) (a b : List α) (h : ∀ x ∈ a, p x = true) :
    (a ++ b).dropWhile p = b.dropWhile p := by
  induction a with
  | nil => rfl
  | cons x xs ih =>
    simp only [List.cons_append, List.dropWhile_cons, h x (by simp), if_true]
    exact ih (fun y hy => h y (List.mem_cons_of_mem _ hy))

theorem dropWhile_none {α : Type} (p : α → Bool) (l : List α) (h : ∀ x ∈ l, p x = false) :
    l.dropWhile p = l := by
  cases l with
  | nil => rfl
  | cons x xs => simp [h x (by simp)]

theorem dropWhile_dropWhile {α : Type} (p q : α → Bool) (l : List α) (h : ∀ x, p x = true → q x = true) :
    (l.dropWhile p).dropWhile q = l.dropWhile q := by
  induction l with
  | nil => rfl
  | cons x xs ih =>
    by_cases hp : p x = true
    · simp only [List.dropWhile_cons, hp, h x hp, if_true]; exact ih
    · simp only [List.dropWhile_cons, hp, Bool.false_eq_true, if_false]

theorem takeWhile_all {α : Type} (p : α → Bool) (l : List α) (h : ∀ x ∈ l, p x = true) :
    l.takeWhile p = l := by
  induction l with
  | nil => rfl
  | cons x xs ih =>
    simp only [List.takeWhile_cons, h x (by simp), if_true]
    rw [ih (fun y hy => h y (List.mem_cons_of_mem _ hy))]

theorem mem_takeWhile_imp {α : Type} {p : α → Bool} {l : List α} {x : α} (h : x ∈ l.takeWhile p) : p x = true := by
  induction l with
  | nil => simp at h
  | cons y ys ih =>
    by_cases hp : p y = true
    · simp only [List.takeWhile_cons, hp, if_true] at h
      rcases List.mem_cons.mp h with rfl | h
      · exact hp
      · exact ih h
    · simp [hp] at h

/-! ## sorted entries: keys are non-decreasing -/

theorem elt_key_le {a b : Ent} (h : elt a b) : ¬ klt b.key a.key := by
  rcases h with h | ⟨h, _⟩
  · exact klt_asymm h
  · rw [h]; exact klt_irrefl _

/-- in a sorted list the entries that have the prefix `pfx` form a block: among entries `≥ pfx`,
    scanning up to the first key without the prefix finds them all -/
theorem takeWhile_prefix_filter (pfx : Bytes) (v : Ent → Bool) (R : List Ent) (hs : SortedEnts R)
    (hge : ∀ e ∈ R, ¬ klt e.key pfx) :
    (R.takeWhile (fun e => pfx.isPrefixOf e.key)).filter v =
      R.filter (fun e => pfx.isPrefixOf e.key && v e) := by
  induction R with
  | nil => rfl
  | cons e R ih =>
    obtain ⟨h1, h2⟩ := sorted_cons.mp hs
    have ih' := ih h2 (fun x hx => hge x (List.mem_cons_of_mem _ hx))
    by_cases hp : pfx.isPrefixOf e.key = true
    · simp only [List.takeWhile_cons, hp, if_true, List.filter_cons, Bool.true_and, ih']
    · simp only [List.takeWhile_cons, hp, Bool.false_eq_true, if_false, List.filter_cons, Bool.false_and,
        List.filter_nil]
      symm
      rw [List.filter_eq_nil_iff]
      intro y hy hc
      simp only [Bool.and_eq_true] at hc
      exact hp (prefix_between hc.1 (hge e (by simp)) (elt_key_le (h1 y hy)))

/-- after a forward seek to `(key, ts)` in a sorted list every remaining key is `≥ key` -/
theorem dropWhile_seek_ge (key : Bytes) (ts : Nat) (l : List Ent) (hs : SortedEnts l) :
    ∀ e ∈ l.dropWhile (fun e => kvCmp e.key e.ver key ts == .lt), ¬ klt e.key key := by
  induction l with
  | nil => simp
  | cons x xs ih =>
    obtain ⟨h1, h2⟩ := sorted_cons.mp hs
    by_cases hp : (kvCmp x.key x.ver key ts == .lt) = true
    · simp only [List.dropWhile_cons, hp, if_true]; exact ih h2
    · simp only [List.dropWhile_cons, hp, Bool.false_eq_true, if_false]
      have hx : ¬ klt x.key key := by
        intro hh; apply hp; simp [(kvCmp_lt_iff _ _ _ _).mpr (.inl hh)]
      intro e he
      rcases List.mem_cons.mp he with rfl | he
      · exact hx
      · exact le_trans hx (elt_key_le (h1 e he))

theorem dropWhile_sorted {p : Ent → Bool} {l : List Ent} (hs : SortedEnts l) : SortedEnts (l.dropWhile p) :=
  List.Pairwise.sublist (List.dropWhile_sublist p) hs

/-! ## `produceLoop` -/

/-- what the loop emits when it meets a new key at `e` -/
def emitKey (cfg : StreamCfg) (e : Ent) (rest : List Ent) : List Ent :=
  if cfg.choose e then (cfg.ktl e.key (e :: rest)).getD [] else []

theorem produceLoop_cons (cfg : StreamCfg) (right : Bytes) (prev : Option Bytes) (e : Ent) (rest : List Ent) :
    produceLoop cfg right prev (e :: rest) =
      if prev == some e.key then produceLoop cfg right prev rest
      else if !right.isEmpty && cmpBytes e.key right != .lt then []
      else emitKey cfg e rest ++ produceLoop cfg right (some e.key) rest := by
  simp only [produceLoop, emitKey]
  split
  · rfl
  · split
    · rfl
    · by_cases hc : cfg.choose e = true
      · simp only [hc, Bool.not_true, Bool.false_eq_true, if_false, if_true]
        cases cfg.ktl e.key (e :: rest) <;> simp
      · simp [hc]

/-- glue: a producer that stops at `r` followed by an unbounded producer started at `r` is the
    unbounded producer (no sortedness needed: both walk the same list) -/
theorem produceLoop_glue (cfg : StreamCfg) (r : Bytes) (hr : r ≠ []) (W : List Ent) (prev : Option Bytes)
    (hp : ∀ p, prev = some p → klt p r) :
    produceLoop cfg r prev W ++ produceLoop cfg [] none (W.dropWhile (fun e => cmpBytes e.key r == .lt)) =
      produceLoop cfg [] prev W := by
  have hre : r.isEmpty = false := by cases r <;> simp_all
  induction W generalizing prev with
  | nil => simp [produceLoop]
  | cons e rest ih =>
    by_cases h1 : (prev == some e.key) = true
    · have hlt : klt e.key r := hp e.key (by simpa using h1)
      have hlt' : (cmpBytes e.key r == .lt) = true := by unfold klt at hlt; simp [hlt]
      rw [produceLoop_cons, produceLoop_cons cfg [] prev]
      simp only [h1, if_true, List.dropWhile_cons, hlt']
      exact ih prev hp
    · by_cases h2 : klt e.key r
      · have hlt' : (cmpBytes e.key r == .lt) = true := by unfold klt at h2; simp [h2]
        have hnl : (cmpBytes e.key r != .lt) = false := by unfold klt at h2; simp [h2]
        rw [produceLoop_cons, produceLoop_cons cfg [] prev]
        simp only [h1, Bool.false_eq_true, if_false, hre, Bool.not_false, Bool.true_and, hnl,
          List.isEmpty_nil, Bool.not_true, Bool.false_and, List.dropWhile_cons, hlt', if_true, List.append_assoc]
        rw [ih (some e.key) (fun p hpe => by cases hpe; exact h2)]
      · have hlt' : (cmpBytes e.key r == .lt) = false := by
          unfold klt at h2; simp [h2]
        have hnl : (cmpBytes e.key r != .lt) = true := by unfold klt at h2; simp [h2]
        rw [produceLoop_cons, produceLoop_cons cfg [] prev]
        simp only [h1, Bool.false_eq_true, if_false, hre, Bool.not_false, Bool.true_and, hnl, if_true,
          List.nil_append, List.dropWhile_cons, hlt', List.isEmpty_nil, Bool.not_true, Bool.false_and]
        rw [produceLoop_cons]
        simp

theorem mem_rangesFrom_left {start : Bytes} {ss : List Bytes} {r : KeyRange} (h : r ∈ rangesFrom start ss) :
    r.left = start ∨ r.left ∈ ss := by
  induction ss generalizing start with
  | nil => simp [rangesFrom] at h; simp [h]
  | cons s ss ih =>
    simp only [rangesFrom, List.mem_cons] at h
    rcases h with rfl | h
    · exact .inl rfl
    · rcases ih h with h | h
      · exact .inr (by simp [h])
      · exact .inr (List.mem_cons_of_mem _ h)

/-- the producers of consecutive ranges over ONE view, concatenated = one unbounded producer -/
theorem ranges_concat (cfg : StreamCfg) (V : List Ent) (start : Bytes) (ss : List Bytes)
    (hs : SortedB ss) (hge : ∀ s ∈ ss, ¬ klt s start) (hne : ∀ s ∈ ss, s ≠ []) :
    ((rangesFrom start ss).map (fun r =>
        produceLoop cfg r.right none (V.dropWhile (fun e => cmpBytes e.key r.left == .lt)))).flatten =
      produceLoop cfg [] none (V.dropWhile (fun e => cmpBytes e.key start == .lt)) := by
  induction ss generalizing start with
  | nil => simp [rangesFrom]
  | cons s ss ih =>
    obtain ⟨h1, h2⟩ := List.pairwise_cons.mp hs
    have ihs := ih s h2 h1 (fun t ht => hne t (List.mem_cons_of_mem _ ht))
    simp only [rangesFrom, List.map_cons, List.flatten_cons, ihs]
    have hss : ¬ klt s start := hge s (by simp)
    rw [← dropWhile_dropWhile (fun e : Ent => cmpBytes e.key start == .lt) (fun e : Ent => cmpBytes e.key s == .lt) V
      (fun x hx => by
        have : klt x.key start := by simpa [klt] using hx
        have := klt_of_klt_of_le this hss
        simpa [klt] using this)]
    exact produceLoop_glue cfg s (hne s (by simp)) _ none (fun p hp => by cases hp)

/-! ## key-sorted lists -/

/-- keys non-decreasing -/
def KeySorted (l : List Ent) : Prop := l.Pairwise (fun a b => ¬ klt b.key a.key)

theorem keySorted_of_sorted {l : List Ent} (h : SortedEnts l) : KeySorted l :=
  ((sorted_iff l).mp h).imp elt_key_le

theorem head_dropWhile {α : Type} (p : α → Bool) (l : List α) (x : α) (h : (l.dropWhile p).head? = some x) :
    p x = false := by
  induction l with
  | nil => simp at h
  | cons y ys ih =>
    by_cases hp : p y = true
    · simp only [List.dropWhile_cons, hp, if_true] at h; exact ih h
    · simp only [List.dropWhile_cons, hp, Bool.false_eq_true, if_false, List.head?_cons, Option.some.injEq] at h
      subst h; simpa using hp

/-- in a key-sorted list whose keys are all `≥ k` the versions of `k` are the leading run -/
theorem filter_key_eq_takeWhile (k : Bytes) (l : List Ent) (hs : KeySorted l) (hge : ∀ e ∈ l, ¬ klt e.key k) :
    l.filter (fun e => e.key == k) = l.takeWhile (fun e => e.key == k) := by
  induction l with
  | nil => rfl
  | cons x xs ih =>
    obtain ⟨h1, h2⟩ := List.pairwise_cons.mp hs
    by_cases hx : (x.key == k) = true
    · simp only [List.filter_cons, List.takeWhile_cons, hx, if_true]
      rw [ih h2 (fun e he => hge e (List.mem_cons_of_mem _ he))]
    · simp only [List.filter_cons, List.takeWhile_cons, hx, Bool.false_eq_true, if_false]
      rw [List.filter_eq_nil_iff]
      intro y hy hyk
      have hyk' : y.key = k := by simpa using hyk
      have hxk : x.key ≠ k := by simpa using hx
      have hkx : klt k x.key := by
        rcases klt_tri k x.key with h | h | h
        · exact h
        · exact absurd h.symm hxk
        · exact absurd h (hge x (by simp))
      exact h1 y hy (hyk' ▸ hkx)

end SL
end Badger
