import BadgerModel.StreamWriter
import BadgerModel.Spec.Mvcc
import BadgerProofs.Lemmas.StreamOrd
/-!
# Lemmas on the StreamWriter model (stream_writer.go) used by C26

Namespace `Badger.SWL`. Depends on `Lemmas/StreamOrd.lean` only.
-/
namespace Badger
namespace SWL
open SO

/-! ## strictly sorted lists are determined by their members -/

theorem sorted_ext {a b : List Ent} (ha : SortedEnts a) (hb : SortedEnts b)
    (h : ∀ x, x ∈ a ↔ x ∈ b) : a = b := by
  induction a generalizing b with
  | nil =>
    cases b with
    | nil => rfl
    | cons y ys => exact absurd ((h y).mpr (by simp)) (by simp)
  | cons x xs ih =>
    cases b with
    | nil => exact absurd ((h x).mp (by simp)) (by simp)
    | cons y ys =>
      obtain ⟨hx1, hx2⟩ := sorted_cons.mp ha
      obtain ⟨hy1, hy2⟩ := sorted_cons.mp hb
      have hxy : x = y := by
        rcases List.mem_cons.mp ((h x).mp (by simp)) with e | hx
        · exact e
        · rcases List.mem_cons.mp ((h y).mpr (by simp)) with e | hy
          · exact e.symm
          · exact absurd (hx1 y hy) (elt_asymm (hy1 x hx))
      subst hxy
      congr 1
      apply ih hx2 hy2
      intro z
      constructor
      · intro hz
        rcases List.mem_cons.mp ((h z).mp (List.mem_cons_of_mem _ hz)) with e | hz'
        · exact absurd (e ▸ hx1 z hz) (elt_irrefl _)
        · exact hz'
      · intro hz
        rcases List.mem_cons.mp ((h z).mpr (List.mem_cons_of_mem _ hz)) with e | hz'
        · exact absurd (e ▸ hy1 z hz) (elt_irrefl _)
        · exact hz'

/-- `a ≤ b` on user keys, as implied by the internal-key order -/
theorem elt_kle {a b : Ent} (h : elt a b) : klt a.key b.key ∨ a.key = b.key := by
  rcases h with h | ⟨h, _⟩
  · exact .inl h
  · exact .inr h

theorem klt_elt {a b : Ent} (h : klt a.key b.key) : elt a b := .inl h

/-- sortedness of a concatenation of runs -/
theorem sorted_flatten {L : List (List Ent)} :
    SortedEnts L.flatten ↔
      (∀ l ∈ L, SortedEnts l) ∧ L.Pairwise (fun a b => ∀ x ∈ a, ∀ y ∈ b, elt x y) := by
  induction L with
  | nil => simp [sorted_nil]
  | cons l ls ih =>
    simp only [List.flatten_cons, sorted_append, ih, List.mem_cons, forall_eq_or_imp,
      List.pairwise_cons, List.mem_flatten]
    constructor
    · rintro ⟨h1, ⟨h2, h3⟩, h4⟩
      exact ⟨⟨h1, h2⟩, fun b hb x hx y hy => h4 x hx y ⟨b, hb, hy⟩, h3⟩
    · rintro ⟨⟨h1, h2⟩, h4, h3⟩
      exact ⟨h1, ⟨h2, h3⟩, fun x hx y ⟨b, hb, hy⟩ => h4 b hb x hx y hy⟩

/-! ## `sortStreams` -/

/-- stream `s` lies entirely below stream `t` in the user-key order -/
def sl (s t : List Ent) : Prop := ∀ x ∈ s, ∀ y ∈ t, klt x.key y.key

theorem sl_trans {s t u : List Ent} (ht : t ≠ []) (h1 : sl s t) (h2 : sl t u) : sl s u := by
  intro x hx y hy
  cases t with
  | nil => exact absurd rfl ht
  | cons z zs => exact klt_trans (h1 x hx z (by simp)) (h2 z (by simp) y hy)

theorem insertStream_perm (s : List Ent) (xs : List (List Ent)) :
    (insertStream s xs).Perm (s :: xs) := by
  induction xs with
  | nil => exact List.Perm.refl _
  | cons x xs ih =>
    unfold insertStream
    split
    · split
      · exact ((List.Perm.cons x ih).trans (List.Perm.swap s x xs))
      · exact List.Perm.refl _
    · exact ((List.Perm.cons x ih).trans (List.Perm.swap s x xs))

theorem sortStreams_perm (ss : List (List Ent)) : (sortStreams ss).Perm ss := by
  induction ss with
  | nil => exact List.Perm.refl _
  | cons s ss ih =>
    show (insertStream s (sortStreams ss)).Perm (s :: ss)
    exact (insertStream_perm s _).trans (List.Perm.cons s ih)

theorem insertStream_pairwise {s : List Ent} {xs : List (List Ent)} (hs : s ≠ [])
    (hne : ∀ x ∈ xs, x ≠ []) (hc : ∀ x ∈ xs, sl s x ∨ sl x s) (hp : xs.Pairwise sl) :
    (insertStream s xs).Pairwise sl := by
  induction xs with
  | nil => simp [insertStream]
  | cons x xs ih =>
    obtain ⟨hp1, hp2⟩ := List.pairwise_cons.mp hp
    cases s with
    | nil => exact absurd rfl hs
    | cons a as =>
      cases x with
      | nil => exact absurd rfl (hne [] (by simp))
      | cons b bs =>
        have ih' := ih (fun y hy => hne y (List.mem_cons_of_mem _ hy))
          (fun y hy => hc y (List.mem_cons_of_mem _ hy)) hp2
        simp only [insertStream, List.head?_cons]
        split
        · rename_i hlt
          have hlt' : elt b a := (entCmp_lt_iff _ _).mp (by simpa using hlt)
          have hxs : sl (b :: bs) (a :: as) := by
            rcases hc (b :: bs) (by simp) with h | h
            · exfalso
              have h1 : klt a.key b.key := h a (by simp) b (by simp)
              rcases hlt' with h2 | ⟨h2, _⟩
              · exact klt_asymm h1 h2
              · exact klt_irrefl _ (h2 ▸ h1)
            · exact h
          refine List.pairwise_cons.mpr ⟨?_, ih'⟩
          intro y hy
          rcases List.mem_cons.mp ((insertStream_perm _ _).mem_iff.mp hy) with e | hy'
          · exact e ▸ hxs
          · exact hp1 y hy'
        · rename_i hlt
          have hsx : sl (a :: as) (b :: bs) := by
            rcases hc (b :: bs) (by simp) with h | h
            · exact h
            · exfalso
              apply hlt
              have : elt b a := klt_elt (h b (by simp) a (by simp))
              simpa using (entCmp_lt_iff _ _).mpr this
          refine List.pairwise_cons.mpr ⟨?_, hp⟩
          intro y hy
          rcases List.mem_cons.mp hy with e | hy'
          · exact e ▸ hsx
          · exact sl_trans (by simp) hsx (hp1 y hy')

theorem sortStreams_pairwise {ss : List (List Ent)} (hne : ∀ x ∈ ss, x ≠ [])
    (hc : ss.Pairwise (fun s t => sl s t ∨ sl t s)) : (sortStreams ss).Pairwise sl := by
  induction ss with
  | nil => simp [sortStreams]
  | cons s ss ih =>
    obtain ⟨hc1, hc2⟩ := List.pairwise_cons.mp hc
    show (insertStream s (sortStreams ss)).Pairwise sl
    apply insertStream_pairwise (hne s (by simp))
    · intro x hx
      exact hne x (List.mem_cons_of_mem _ ((sortStreams_perm ss).mem_iff.mp hx))
    · intro x hx
      exact hc1 x ((sortStreams_perm ss).mem_iff.mp hx)
    · exact ih (fun x hx => hne x (List.mem_cons_of_mem _ hx)) hc2

/-- non-empty, individually sorted, pairwise key-separated streams: `sortStreams` followed by
    concatenation is strictly sorted. -/
theorem sortStreams_flatten_sorted {ss : List (List Ent)} (hne : ∀ x ∈ ss, x ≠ [])
    (hs : ∀ x ∈ ss, SortedEnts x) (hc : ss.Pairwise (fun s t => sl s t ∨ sl t s)) :
    SortedEnts (sortStreams ss).flatten := by
  rw [sorted_flatten]
  refine ⟨fun l hl => hs l ((sortStreams_perm ss).mem_iff.mp hl), ?_⟩
  exact (sortStreams_pairwise hne hc).imp (fun h x hx y hy => klt_elt (h x hx y hy))

theorem flatten_filter_nonempty (L : List (List Ent)) :
    (L.filter (!·.isEmpty)).flatten = L.flatten := by
  induction L with
  | nil => rfl
  | cons l ls ih =>
    cases l with
    | nil => simpa using ih
    | cons a as => simp [ih]

theorem mem_filter_nonempty {L : List (List Ent)} : ∀ x ∈ L.filter (!·.isEmpty), x ≠ [] := by
  intro x hx
  have := (List.mem_filter.mp hx).2
  cases x with
  | nil => simp at this
  | cons a as => simp

/-! ## `splitSizes`, `keyCutsOk`, `sortBySmallest`, `levelValid` -/

def tblEnts (ts : List Tbl) : List Ent := (ts.map (·.ents)).flatten

@[simp] theorem tblEnts_nil : tblEnts [] = [] := rfl
@[simp] theorem tblEnts_cons (t : Tbl) (ts : List Tbl) : tblEnts (t :: ts) = t.ents ++ tblEnts ts := rfl
theorem tblEnts_append (a b : List Tbl) : tblEnts (a ++ b) = tblEnts a ++ tblEnts b := by
  simp [tblEnts]

theorem splitSizes_some {sizes : List Nat} {es : List Ent} {ts : List Tbl}
    (h : splitSizes sizes es = some ts) : tblEnts ts = es ∧ ∀ t ∈ ts, t.ents ≠ [] := by
  induction sizes generalizing es ts with
  | nil =>
    cases es with
    | nil => simp [splitSizes] at h; subst h; simp
    | cons e es => simp [splitSizes] at h
  | cons n ns ih =>
    simp only [splitSizes] at h
    split at h
    · cases h
    · rename_i hn
      split at h
      · rename_i r hr
        cases h
        obtain ⟨h1, h2⟩ := ih hr
        have hn0 : n ≠ 0 := by intro e; apply hn; left; simp [e]
        have hlen : n ≤ es.length := by
          apply Nat.le_of_not_lt; intro e; apply hn; right; exact e
        refine ⟨by simp [h1], ?_⟩
        intro t ht
        rcases List.mem_cons.mp ht with e | ht'
        · subst e
          intro hnil
          have : (es.take n).length = 0 := by simp only [] at hnil; rw [hnil]; rfl
          rw [List.length_take] at this
          omega
        · exact h2 t ht'
      · cases h

/-- the chunks of a sorted run cut only between different user keys are pairwise disjoint and
    ordered by user key -/
theorem keyCuts_pairwise {ts : List Tbl} (hk : keyCutsOk ts = true)
    (hs : SortedEnts (tblEnts ts)) :
    ts.Pairwise (fun a b => ∀ x ∈ a.ents, ∀ y ∈ b.ents, klt x.key y.key) := by
  induction ts with
  | nil => exact List.Pairwise.nil
  | cons a rest ih =>
    cases rest with
    | nil => simp
    | cons b rest =>
      simp only [keyCutsOk, Bool.and_eq_true] at hk
      obtain ⟨hk1, hk2⟩ := hk
      rw [tblEnts_cons, sorted_append] at hs
      obtain ⟨hsa, hsr, hab⟩ := hs
      refine List.pairwise_cons.mpr ⟨?_, ih hk2 hsr⟩
      split at hk1
      · rename_i x0 y0 hx0 hy0
        have hne : x0.key ≠ y0.key := by simpa using hk1
        obtain ⟨ini, hini⟩ := List.getLast?_eq_some_iff.mp hx0
        obtain ⟨tl, htl⟩ := List.head?_eq_some_iff.mp hy0
        have hx0mem : x0 ∈ a.ents := by rw [hini]; simp
        have hy0mem : y0 ∈ tblEnts (b :: rest) := by rw [tblEnts_cons, htl]; simp
        have h00 : klt x0.key y0.key := by
          rcases elt_kle (hab x0 hx0mem y0 hy0mem) with h | h
          · exact h
          · exact absurd h hne
        have hxle : ∀ x ∈ a.ents, klt x.key x0.key ∨ x.key = x0.key := by
          intro x hx
          rw [hini] at hx hsa
          rcases List.mem_append.mp hx with hx | hx
          · exact elt_kle ((sorted_append.mp hsa).2.2 x hx x0 (by simp))
          · simp at hx; subst hx; exact .inr rfl
        have hyle : ∀ y ∈ tblEnts (b :: rest), klt y0.key y.key ∨ y0.key = y.key := by
          intro y hy
          rw [tblEnts_cons, htl] at hy hsr
          simp only [List.cons_append, List.mem_cons] at hy
          rcases hy with e | hy
          · subst e; exact .inr rfl
          · exact elt_kle ((sorted_cons.mp hsr).1 y hy)
        intro t ht x hx y hy
        have hymem : y ∈ tblEnts (b :: rest) := by
          unfold tblEnts
          exact List.mem_flatten.mpr ⟨t.ents, List.mem_map.mpr ⟨t, ht, rfl⟩, hy⟩
        have h1 : klt x.key y0.key := by
          rcases hxle x hx with h | h
          · exact klt_trans h h00
          · rw [h]; exact h00
        rcases hyle y hymem with h | h
        · exact klt_trans h1 h
        · rw [← h]; exact h1
      · simp at hk1

theorem insertBySmallest_perm (t : Tbl) (xs : List Tbl) : (insertBySmallest t xs).Perm (t :: xs) := by
  induction xs with
  | nil => exact List.Perm.refl _
  | cons x xs ih =>
    unfold insertBySmallest
    split
    · split
      · exact ((List.Perm.cons x ih).trans (List.Perm.swap t x xs))
      · exact List.Perm.refl _
    · exact ((List.Perm.cons x ih).trans (List.Perm.swap t x xs))

theorem sortBySmallest_perm (ts : List Tbl) : (sortBySmallest ts).Perm ts := by
  induction ts with
  | nil => exact List.Perm.refl _
  | cons t ts ih =>
    show (insertBySmallest t (sortBySmallest ts)).Perm (t :: ts)
    exact (insertBySmallest_perm t _).trans (List.Perm.cons t ih)

/-- tables already in order are left alone by the sort -/
theorem sortBySmallest_id {ts : List Tbl} (hne : ∀ t ∈ ts, t.ents ≠ [])
    (hp : ts.Pairwise (fun a b => ∀ x ∈ a.ents, ∀ y ∈ b.ents, elt x y)) : sortBySmallest ts = ts := by
  induction ts with
  | nil => rfl
  | cons t ts ih =>
    obtain ⟨hp1, hp2⟩ := List.pairwise_cons.mp hp
    show insertBySmallest t (sortBySmallest ts) = t :: ts
    rw [ih (fun u hu => hne u (List.mem_cons_of_mem _ hu)) hp2]
    cases ts with
    | nil => rfl
    | cons x xs =>
      have ht := hne t (by simp)
      have hx := hne x (by simp)
      cases hte : t.ents with
      | nil => exact absurd hte ht
      | cons a as =>
        cases hxe : x.ents with
        | nil => exact absurd hxe hx
        | cons b bs =>
          have hab : elt a b := hp1 x (by simp) a (by simp [hte]) b (by simp [hxe])
          have hnlt : ¬ entCmp b a = .lt := fun h => elt_asymm hab ((entCmp_lt_iff _ _).mp h)
          simp [insertBySmallest, Tbl.smallest, hte, hxe, hnlt]

theorem levelValid_of_sorted {ts : List Tbl} (hne : ∀ t ∈ ts, t.ents ≠ [])
    (hp : ts.Pairwise (fun a b => ∀ x ∈ a.ents, ∀ y ∈ b.ents, elt x y)) : levelValid ts = true := by
  induction ts with
  | nil => rfl
  | cons a rest ih =>
    cases rest with
    | nil => rfl
    | cons b rest =>
      obtain ⟨hp1, hp2⟩ := List.pairwise_cons.mp hp
      have ih' := ih (fun u hu => hne u (List.mem_cons_of_mem _ hu)) hp2
      have ha := hne a (by simp)
      have hb := hne b (by simp)
      obtain ⟨x, hx⟩ : ∃ x, a.ents.getLast? = some x := by
        cases h : a.ents.getLast? with
        | none => exact absurd (List.getLast?_eq_none_iff.mp h) ha
        | some x => exact ⟨x, rfl⟩
      obtain ⟨y, hy⟩ : ∃ y, b.ents.head? = some y := by
        cases h : b.ents.head? with
        | none => exact absurd (List.head?_eq_none_iff.mp h) hb
        | some y => exact ⟨y, rfl⟩
      have hxm : x ∈ a.ents := by
        obtain ⟨ini, e⟩ := List.getLast?_eq_some_iff.mp hx; rw [e]; simp
      have hym : y ∈ b.ents := by
        obtain ⟨tl, e⟩ := List.head?_eq_some_iff.mp hy; rw [e]; simp
      have hxy : entCmp x y = .lt := (entCmp_lt_iff _ _).mpr (hp1 b (by simp) x hxm y hym)
      simp [levelValid, Tbl.biggest, Tbl.smallest, hx, hy, hxy, ih']

/-! ## `withIds` touches only the `id` field -/

theorem withIds_ents (ts : List Tbl) (ids : List Nat) :
    (withIds ts ids).map (·.ents) = ts.map (·.ents) := by
  induction ts generalizing ids with
  | nil => cases ids <;> rfl
  | cons t ts ih =>
    cases ids with
    | nil => rfl
    | cons i is => simp [withIds, ih]

theorem pairwise_ents_congr {R : List Ent → List Ent → Prop} {a b : List Tbl}
    (h : a.map (·.ents) = b.map (·.ents)) (hp : a.Pairwise (fun x y => R x.ents y.ents)) :
    b.Pairwise (fun x y => R x.ents y.ents) := by
  have h1 : (a.map (·.ents)).Pairwise R := List.pairwise_map.mpr hp
  rw [h] at h1
  exact List.pairwise_map.mp h1

theorem forall_ents_congr {P : List Ent → Prop} {a b : List Tbl}
    (h : a.map (·.ents) = b.map (·.ents)) (hp : ∀ t ∈ a, P t.ents) : ∀ t ∈ b, P t.ents := by
  intro t ht
  have : t.ents ∈ a.map (·.ents) := by rw [h]; exact List.mem_map.mpr ⟨t, ht, rfl⟩
  obtain ⟨u, hu, e⟩ := List.mem_map.mp this
  rw [← e]; exact hp u hu

/-! ## the levels as a bag of entries -/

def lvlEnts (levels : List (List Tbl)) : List Ent := (levels.map tblEnts).flatten

theorem allEntries_perm (s : Lsm) :
    s.allEntries.Perm ((s.mem :: s.imm.reverse).flatten ++ lvlEnts s.levels) := by
  unfold Lsm.allEntries Lsm.sources
  rw [List.flatten_append]
  apply List.Perm.append (List.Perm.refl _)
  cases h : s.levels with
  | nil => exact List.Perm.refl _
  | cons l0 rest =>
    show ((l0.reverse.map (·.ents)) ++ rest.map (fun tbls => (tbls.map (·.ents)).flatten)).flatten.Perm
      (tblEnts l0 ++ (rest.map tblEnts).flatten)
    rw [List.flatten_append]
    apply List.Perm.append
    · exact ((List.reverse_perm l0).map _).flatten
    · exact List.Perm.refl _

theorem tblEnts_perm {a b : List Tbl} (h : a.Perm b) : (tblEnts a).Perm (tblEnts b) :=
  (h.map _).flatten

theorem lvlEnts_map_sort (levels : List (List Tbl)) :
    (lvlEnts (levels.map sortBySmallest)).Perm (lvlEnts levels) := by
  induction levels with
  | nil => exact List.Perm.refl _
  | cons l ls ih =>
    show (tblEnts (sortBySmallest l) ++ lvlEnts (ls.map sortBySmallest)).Perm (tblEnts l ++ lvlEnts ls)
    exact List.Perm.append (tblEnts_perm (sortBySmallest_perm l)) ih

theorem lvlEnts_set (levels : List (List Tbl)) (i : Nat) (tables : List Tbl) (hi : i < levels.length) :
    (lvlEnts (levels.set i (levels.getD i [] ++ tables))).Perm (tblEnts tables ++ lvlEnts levels) := by
  induction levels generalizing i with
  | nil => simp at hi
  | cons l ls ih =>
    cases i with
    | zero =>
      show (tblEnts (l ++ tables) ++ lvlEnts ls).Perm (tblEnts tables ++ (tblEnts l ++ lvlEnts ls))
      rw [tblEnts_append, ← List.append_assoc (tblEnts tables)]
      exact List.Perm.append List.perm_append_comm (List.Perm.refl _)
    | succ i =>
      have hi' : i < ls.length := by simpa using hi
      show (tblEnts l ++ lvlEnts (ls.set i (ls.getD i [] ++ tables))).Perm
        (tblEnts tables ++ (tblEnts l ++ lvlEnts ls))
      refine (List.Perm.append (List.Perm.refl _) (ih i hi')).trans ?_
      rw [← List.append_assoc, ← List.append_assoc]
      exact List.Perm.append List.perm_append_comm (List.Perm.refl _)

/-! ## `swFlush` taken apart -/

/-- the levels `swFlush` installs -/
def flushLevels (d : Db) (st : SwState) (tables : List Tbl) : List (List Tbl) :=
  (if tables.isEmpty then d.lsm.levels
   else d.lsm.levels.set (st.prevLevel - 1) (d.lsm.levels.getD (st.prevLevel - 1) [] ++ tables)).map
    sortBySmallest

def flushTs (d : Db) (st : SwState) : Nat :=
  if d.opts.managed then d.nextTs
  else (if d.nextTs - 1 ≥ st.maxVersion then d.nextTs - 1 else st.maxVersion) + 1

theorem swFlush_some {d : Db} {st : SwState} {sizes ids : List Nat} {d' : Db} {valid : Bool}
    (h : d.swFlush st sizes ids = some (d', valid)) :
    ∃ tables0, splitSizes sizes st.newEnts = some tables0 ∧ keyCutsOk tables0 = true ∧
      d'.lsm = { d.lsm with levels := flushLevels d st (withIds tables0 ids) } ∧
      d'.nextTs = flushTs d st := by
  unfold Db.swFlush cutTables at h
  split at h
  · cases h
  · rename_i tables0 hc
    split at hc
    · cases hc
    · rename_i ts hs
      split at hc
      · rename_i hk
        cases hc
        refine ⟨tables0, hs, hk, ?_⟩
        simp only [Option.some.injEq, Prod.mk.injEq] at h
        obtain ⟨h1, _⟩ := h
        subst h1
        unfold flushLevels flushTs
        cases hm : d.opts.managed <;> simp
      · cases hc

/-- `swFlush` is a function of `newEnts`, `prevLevel`, `maxVersion` only -/
theorem swFlush_congr (d : Db) (st1 st2 : SwState) (sizes ids : List Nat)
    (h1 : st1.newEnts = st2.newEnts) (h2 : st1.prevLevel = st2.prevLevel)
    (h3 : st1.maxVersion = st2.maxVersion) : d.swFlush st1 sizes ids = d.swFlush st2 sizes ids := by
  unfold Db.swFlush
  rw [h1, h2, h3]

/-! ## `swAdd` -/

theorem swAdd_sids (ws : List SWriter) (s : Nat) (e : Ent) :
    (swAdd ws s e).map (·.sid) =
      if s ∈ ws.map (·.sid) then ws.map (·.sid) else ws.map (·.sid) ++ [s] := by
  unfold swAdd
  have hany : (ws.any (·.sid == s) = true) ↔ s ∈ ws.map (·.sid) := by
    simp only [List.any_eq_true, List.mem_map, beq_iff_eq]
  by_cases h : s ∈ ws.map (·.sid)
  · rw [if_pos (hany.mpr h), if_pos h, List.map_map]
    apply List.map_congr_left
    intro w _
    simp only [Function.comp]
    split <;> rfl
  · have : ¬ (ws.any (·.sid == s) = true) := fun h' => h (hany.mp h')
    rw [if_neg this, if_neg h]
    simp

theorem swAdd_cons_eq (w : SWriter) (ws : List SWriter) (e : Ent) (h : w.sid ∉ ws.map (·.sid)) :
    swAdd (w :: ws) w.sid e = { w with ents := w.ents ++ [e] } :: ws := by
  unfold swAdd
  simp only [List.any_cons, beq_self_eq_true, Bool.true_or, if_true, List.map_cons]
  congr 1
  have : ∀ x ∈ ws, (if (x.sid == w.sid) = true then { x with ents := x.ents ++ [e] } else x) = x := by
    intro x hx
    rw [if_neg]
    intro hh
    apply h
    exact List.mem_map.mpr ⟨x, hx, by simpa using hh⟩
  rw [List.map_congr_left this, List.map_id']

theorem swAdd_cons_ne (w : SWriter) (ws : List SWriter) (s : Nat) (e : Ent) (h : w.sid ≠ s) :
    swAdd (w :: ws) s e = w :: swAdd ws s e := by
  unfold swAdd
  have h1 : (w.sid == s) = false := by simpa using h
  simp only [List.any_cons, h1, Bool.false_or, List.map_cons]
  split
  · simp
  · simp

theorem swAdd_perm (ws : List SWriter) (s : Nat) (e : Ent) (hn : (ws.map (·.sid)).Nodup) :
    (((swAdd ws s e).map (·.ents)).flatten).Perm ((ws.map (·.ents)).flatten ++ [e]) := by
  induction ws with
  | nil => simp [swAdd]
  | cons w ws ih =>
    simp only [List.map_cons, List.nodup_cons] at hn
    by_cases h : w.sid = s
    · subst h
      rw [swAdd_cons_eq w ws e hn.1]
      simp only [List.map_cons, List.flatten_cons, List.append_assoc]
      exact List.Perm.append (List.Perm.refl _) List.perm_append_comm
    · rw [swAdd_cons_ne w ws s e h]
      simp only [List.map_cons, List.flatten_cons, List.append_assoc]
      exact List.Perm.append (List.Perm.refl _) (ih hn.2)

theorem swAdd_mem {ws : List SWriter} {s : Nat} {e : Ent} {w' : SWriter} (h : w' ∈ swAdd ws s e) :
    (∃ w ∈ ws, w.sid = s ∧ w' = { w with ents := w.ents ++ [e] }) ∨ (w' ∈ ws ∧ w'.sid ≠ s) ∨
    (s ∉ ws.map (·.sid) ∧ w' = { sid := s, ents := [e] }) := by
  unfold swAdd at h
  split at h
  · obtain ⟨w, hw, e1⟩ := List.mem_map.mp h
    by_cases hs : w.sid = s
    · left
      refine ⟨w, hw, hs, ?_⟩
      rw [← e1, if_pos (by simpa using hs)]
    · right; left
      rw [if_neg (by simpa using hs)] at e1
      subst e1
      exact ⟨hw, hs⟩
  · rename_i hany
    have hnot : s ∉ ws.map (·.sid) := by
      intro hm
      apply hany
      obtain ⟨w, hw, e1⟩ := List.mem_map.mp hm
      exact List.any_eq_true.mpr ⟨w, hw, by simpa using e1⟩
    rcases List.mem_append.mp h with hw | hw
    · right; left
      refine ⟨hw, ?_⟩
      intro e1
      exact hnot (List.mem_map.mpr ⟨w', hw, e1⟩)
    · right; right
      exact ⟨hnot, by simpa using hw⟩

/-- content of every writer after one `Add` -/
theorem swAdd_ents (ws : List SWriter) (s : Nat) (e : Ent)
    (P : Nat → List Ent) (hP : ∀ w ∈ ws, w.ents = P w.sid) (hmiss : ∀ sid, sid ∉ ws.map (·.sid) → P sid = []) :
    ∀ w ∈ swAdd ws s e, w.ents = if w.sid = s then P s ++ [e] else P w.sid := by
  intro w' hw'
  rcases swAdd_mem hw' with ⟨w, hw, hs, e1⟩ | ⟨hw, hs⟩ | ⟨hnot, e1⟩
  · subst e1
    simp only [hs, if_true]
    rw [hP w hw, hs]
  · rw [if_neg hs]; exact hP w' hw
  · subst e1
    simp [hmiss s hnot]

/-! ## what the writers hold after a sequence of `Write`s -/

/-- entries of stream `sid` among the KVs, in arrival order -/
def proj (kvs : List SKV) (sid : Nat) : List Ent :=
  (kvs.filter (fun kv => !kv.done && kv.sid == sid)).map (·.e)

/-- all data entries among the KVs, in arrival order -/
def dataE (kvs : List SKV) : List Ent := (kvs.filter (fun kv => !kv.done)).map (·.e)

theorem proj_append (a b : List SKV) (sid : Nat) : proj (a ++ b) sid = proj a sid ++ proj b sid := by
  simp [proj, List.filter_append]

theorem dataE_append (a b : List SKV) : dataE (a ++ b) = dataE a ++ dataE b := by
  simp [dataE, List.filter_append]

theorem mem_dataE {kvs : List SKV} {e : Ent} : e ∈ dataE kvs ↔ ∃ sid, e ∈ proj kvs sid := by
  simp only [dataE, proj, List.mem_map, List.mem_filter, Bool.and_eq_true, beq_iff_eq]
  constructor
  · rintro ⟨kv, ⟨h1, h2⟩, rfl⟩
    exact ⟨kv.sid, kv, ⟨h1, h2, rfl⟩, rfl⟩
  · rintro ⟨sid, kv, ⟨h1, h2, _⟩, rfl⟩
    exact ⟨kv, ⟨h1, h2⟩, rfl⟩

/-- invariant of the writer list: distinct stream ids, the writer of `sid` holds `P sid` (in
    `handleRequests` form `f`), streams without writer have no data, and all together hold `D`. -/
structure Inv (f : Ent → Ent) (ws : List SWriter) (P : Nat → List Ent) (D : List Ent) : Prop where
  nodup : (ws.map (·.sid)).Nodup
  ents : ∀ w ∈ ws, w.ents = (P w.sid).map f
  miss : ∀ sid, sid ∉ ws.map (·.sid) → P sid = []
  perm : ((ws.map (·.ents)).flatten).Perm (D.map f)

theorem Inv.congr {f : Ent → Ent} {ws : List SWriter} {P P' : Nat → List Ent} {D D' : List Ent}
    (h : Inv f ws P D) (hP : ∀ sid, P sid = P' sid) (hD : D = D') : Inv f ws P' D' := by
  have : P = P' := funext hP
  subst this; subst hD; exact h

theorem Inv.nil (f : Ent → Ent) : Inv f [] (fun _ => []) [] :=
  ⟨by simp, by simp, by simp, by simp⟩

theorem Inv.add {f : Ent → Ent} {ws : List SWriter} {P : Nat → List Ent} {D : List Ent}
    (h : Inv f ws P D) (s : Nat) (e : Ent) :
    Inv f (swAdd ws s (f e)) (fun sid => if sid = s then P sid ++ [e] else P sid) (D ++ [e]) := by
  refine ⟨?_, ?_, ?_, ?_⟩
  · rw [swAdd_sids]
    split
    · exact h.nodup
    · rename_i hs
      refine List.nodup_append.mpr ⟨h.nodup, by simp, ?_⟩
      intro a ha b hb
      simp at hb; subst hb
      intro e1; subst e1; exact hs ha
  · intro w hw
    have := swAdd_ents ws s (f e) (fun sid => (P sid).map f) h.ents
      (fun sid hsid => by simp [h.miss sid hsid]) w hw
    rw [this]
    by_cases hs : w.sid = s
    · simp [hs]
    · simp [hs]
  · intro sid hsid
    rw [swAdd_sids] at hsid
    have h1 : sid ∉ ws.map (·.sid) := by
      intro hm; apply hsid; split
      · exact hm
      · exact List.mem_append_left _ hm
    have h2 : sid ≠ s := by
      intro e1; subst e1; apply hsid; split
      · rename_i hm; exact hm
      · simp
    simp only [if_neg h2]
    exact h.miss sid h1
  · refine (swAdd_perm ws s (f e) h.nodup).trans ?_
    rw [List.map_append]
    exact List.Perm.append h.perm (List.Perm.refl _)

theorem Inv.adds {f : Ent → Ent} (data : List SKV) {ws : List SWriter} {P : Nat → List Ent}
    {D : List Ent} (h : Inv f ws P D) :
    Inv f (data.foldl (fun ws kv => swAdd ws kv.sid (f kv.e)) ws)
      (fun sid => P sid ++ (data.filter (·.sid == sid)).map (·.e)) (D ++ data.map (·.e)) := by
  induction data generalizing ws P D with
  | nil => exact h.congr (by simp) (by simp)
  | cons kv rest ih =>
    rw [List.foldl_cons]
    refine (ih (h.add kv.sid kv.e)).congr ?_ (by simp)
    intro sid
    by_cases hs : sid = kv.sid
    · subst hs; simp
    · have hb : (kv.sid == sid) = false := beq_eq_false_iff_ne.mpr (fun e => hs e.symm)
      simp [hs, hb]

theorem Inv.close {f : Ent → Ent} {ws : List SWriter} {P : Nat → List Ent} {D : List Ent}
    (h : Inv f ws P D) (cl : List Nat) :
    Inv f (ws.map (fun w => if cl.contains w.sid then { w with closed := true } else w)) P D := by
  have h1 : (ws.map (fun w => if cl.contains w.sid then { w with closed := true } else w)).map (·.sid)
      = ws.map (·.sid) := by
    rw [List.map_map]; apply List.map_congr_left; intro w _; simp only [Function.comp]; split <;> rfl
  have h2 : (ws.map (fun w => if cl.contains w.sid then { w with closed := true } else w)).map (·.ents)
      = ws.map (·.ents) := by
    rw [List.map_map]; apply List.map_congr_left; intro w _; simp only [Function.comp]; split <;> rfl
  refine ⟨by rw [h1]; exact h.nodup, ?_, by rw [h1]; exact h.miss, by rw [h2]; exact h.perm⟩
  intro w hw
  obtain ⟨w0, hw0, e⟩ := List.mem_map.mp hw
  subst e
  split
  · exact h.ents w0 hw0
  · exact h.ents w0 hw0

/-- a successful `Write`, field by field -/
theorem swWrite_ok {d : Db} {st st' : SwState} {buf : List SKV} (h : d.swWrite st buf = (st', .ok)) :
    st'.prevLevel = (if dataE buf = [] then st.prevLevel
      else if st.prevLevel == 0 then d.lsm.levels.length else st.prevLevel) ∧
    st'.maxVersion = (buf.filter (!·.done)).foldl (fun m kv => if m < kv.e.ver then kv.e.ver else m) st.maxVersion ∧
    ∃ cl : List Nat, st'.writers =
      ((buf.filter (!·.done)).foldl (fun ws kv => swAdd ws kv.sid (d.swForm kv.e)) st.writers).map
        (fun w => if cl.contains w.sid then { w with closed := true } else w) := by
  unfold Db.swWrite at h
  split at h
  · rename_i he
    have hb : buf = [] := by simpa using he
    simp only [Prod.mk.injEq, and_true] at h
    subst h; subst hb
    refine ⟨by simp [dataE], by simp, [], by simp⟩
  · split at h
    · simp at h
    · rename_i closedNow _
      simp only [] at h
      split at h
      · simp at h
      · simp only [Prod.mk.injEq, and_true] at h
        subst h
        refine ⟨?_, rfl, closedNow, rfl⟩
        simp only [dataE]
        by_cases hd : List.filter (fun kv => !kv.done) buf = []
        · simp [hd]
        · by_cases hp : st.prevLevel = 0
          · simp [hd, hp]
          · simp [hd, hp]

theorem swWrite_inv {d : Db} {st st' : SwState} {buf : List SKV} {P : Nat → List Ent} {D : List Ent}
    (hI : Inv d.swForm st.writers P D) (h : d.swWrite st buf = (st', .ok)) :
    Inv d.swForm st'.writers (fun sid => P sid ++ proj buf sid) (D ++ dataE buf) := by
  obtain ⟨_, _, cl, hw⟩ := swWrite_ok h
  rw [hw]
  refine ((hI.adds (buf.filter (!·.done))).close cl).congr ?_ rfl
  intro sid
  simp [proj, List.filter_filter, Bool.and_comm]

theorem swWriteAll_cons {d : Db} {st0 st : SwState} {b : List SKV} {bs : List (List SKV)}
    (hw : d.swWriteAll st0 (b :: bs) = (st, .ok)) :
    ∃ st', d.swWrite st0 b = (st', .ok) ∧ d.swWriteAll st' bs = (st, .ok) := by
  unfold Db.swWriteAll at hw
  split at hw
  · rename_i st' heq
    exact ⟨st', heq, hw⟩
  · rename_i hno
    exact absurd hw (hno st)

theorem swWriteAll_inv {d : Db} {st0 st : SwState} {bufs : List (List SKV)} {P : Nat → List Ent}
    {D : List Ent} (hI : Inv d.swForm st0.writers P D) (hw : d.swWriteAll st0 bufs = (st, .ok)) :
    Inv d.swForm st.writers (fun sid => P sid ++ proj bufs.flatten sid) (D ++ dataE bufs.flatten) := by
  induction bufs generalizing st0 P D with
  | nil =>
    simp only [Db.swWriteAll, Prod.mk.injEq, and_true] at hw
    subst hw
    exact hI.congr (by simp [proj]) (by simp [dataE])
  | cons b bs ih =>
    obtain ⟨st', h1, h2⟩ := swWriteAll_cons hw
    refine (ih (swWrite_inv hI h1) h2).congr ?_ ?_
    · intro sid; simp [proj_append]
    · simp [dataE_append]

theorem maxFold (data : List SKV) (m : Nat) :
    m ≤ data.foldl (fun m kv => if m < kv.e.ver then kv.e.ver else m) m ∧
    (∀ kv ∈ data, kv.e.ver ≤ data.foldl (fun m kv => if m < kv.e.ver then kv.e.ver else m) m) ∧
    (data.foldl (fun m kv => if m < kv.e.ver then kv.e.ver else m) m = m ∨
      ∃ kv ∈ data, kv.e.ver = data.foldl (fun m kv => if m < kv.e.ver then kv.e.ver else m) m) := by
  induction data generalizing m with
  | nil => simp
  | cons kv rest ih =>
    simp only [List.foldl_cons, List.mem_cons, forall_eq_or_imp, exists_eq_or_imp]
    by_cases hlt : m < kv.e.ver
    · simp only [if_pos hlt]
      obtain ⟨h1, h2, h3⟩ := ih kv.e.ver
      refine ⟨by omega, ⟨h1, h2⟩, ?_⟩
      rcases h3 with h3 | h3
      · right; left; exact h3.symm
      · right; right; exact h3
    · simp only [if_neg hlt]
      obtain ⟨h1, h2, h3⟩ := ih m
      refine ⟨h1, ⟨by omega, h2⟩, ?_⟩
      rcases h3 with h3 | h3
      · left; exact h3
      · right; right; exact h3

/-- `prevLevel` and `maxVersion` after a successful sequence of `Write`s -/
theorem swWriteAll_scalars {d : Db} {st0 st : SwState} {bufs : List (List SKV)}
    (hw : d.swWriteAll st0 bufs = (st, .ok)) :
    st.prevLevel = (if dataE bufs.flatten = [] then st0.prevLevel
      else if st0.prevLevel == 0 then d.lsm.levels.length else st0.prevLevel) ∧
    st0.maxVersion ≤ st.maxVersion ∧ (∀ e ∈ dataE bufs.flatten, e.ver ≤ st.maxVersion) ∧
    (st.maxVersion = st0.maxVersion ∨ ∃ e ∈ dataE bufs.flatten, e.ver = st.maxVersion) := by
  induction bufs generalizing st0 with
  | nil =>
    simp only [Db.swWriteAll, Prod.mk.injEq, and_true] at hw
    subst hw
    simp [dataE]
  | cons b bs ih =>
    obtain ⟨st', h1, h2⟩ := swWriteAll_cons hw
    obtain ⟨hp, hm, _⟩ := swWrite_ok h1
    obtain ⟨ip, im1, im2, im3⟩ := ih h2
    obtain ⟨f1, f2, f3⟩ := maxFold (b.filter (!·.done)) st0.maxVersion
    rw [← hm] at f1 f2 f3
    have hmem : ∀ e ∈ dataE b, ∃ kv ∈ b.filter (!·.done), kv.e = e := by
      intro e he
      simpa [dataE] using he
    simp only [List.flatten_cons, dataE_append]
    refine ⟨?_, by omega, ?_, ?_⟩
    · rw [ip, hp]
      by_cases hb : dataE b = []
      · simp [hb]
      · by_cases hr : dataE bs.flatten = []
        · simp [hb, hr]
        · by_cases h0 : st0.prevLevel = 0
          · by_cases hL : d.lsm.levels.length = 0
            · simp [hb, hr, h0, hL]
            · simp [hb, hr, h0, hL]
          · simp [hb, hr, h0]
    · intro e he
      rcases List.mem_append.mp he with he | he
      · obtain ⟨kv, hkv, rfl⟩ := hmem e he
        have := f2 kv hkv
        omega
      · exact im2 e he
    · rcases im3 with im3 | ⟨e, he, hev⟩
      · rcases f3 with f3 | ⟨kv, hkv, hv⟩
        · left; omega
        · right
          refine ⟨kv.e, List.mem_append_left _ ?_, by omega⟩
          simp only [dataE, List.mem_map]
          exact ⟨kv, hkv, rfl⟩
      · right
        exact ⟨e, List.mem_append_right _ he, hev⟩

/-! ## `find?` on an indexed list returns the first hit -/

theorem find_zip_range' {α : Type} (q : Nat × α → Bool) (l : List α) (n i : Nat) (t : α)
    (h : ((List.range' n l.length).zip l).find? q = some (i, t)) :
    n ≤ i ∧ l[i - n]? = some t ∧ ∀ j u, j < i - n → l[j]? = some u → q (n + j, u) = false := by
  induction l generalizing n with
  | nil => simp at h
  | cons x xs ih =>
    simp only [List.length_cons, List.range'_succ, List.zip_cons_cons, List.find?_cons] at h
    split at h
    · simp only [Option.some.injEq, Prod.mk.injEq] at h
      obtain ⟨rfl, rfl⟩ := h
      refine ⟨Nat.le_refl _, by simp, ?_⟩
      intro j u hj; omega
    · rename_i hq
      obtain ⟨h1, h2, h3⟩ := ih (n + 1) h
      refine ⟨by omega, ?_, ?_⟩
      · have : i - n = (i - (n + 1)) + 1 := by omega
        rw [this]; simpa using h2
      · intro j u hj hu
        cases j with
        | zero =>
          simp at hu; subst hu
          simpa using hq
        | succ j =>
          have hu' : xs[j]? = some u := by simpa using hu
          have := h3 j u (by omega) hu'
          have e : n + (j + 1) = n + 1 + j := by omega
          rw [e]; exact this

theorem find_zipIdx {α : Type} (q : Nat × α → Bool) (l : List α) (i : Nat) (t : α)
    (h : (zipIdx l).find? q = some (i, t)) :
    l[i]? = some t ∧ ∀ j u, j < i → l[j]? = some u → q (j, u) = false := by
  unfold zipIdx at h
  rw [List.range_eq_range'] at h
  obtain ⟨_, h2, h3⟩ := find_zip_range' q l 0 i t h
  refine ⟨by simpa using h2, ?_⟩
  intro j u hj hu
  have := h3 j u (by omega) hu
  simpa using this

/-! ## the installed levels -/

theorem flushLevels_getD (d : Db) (st : SwState) (tables : List Tbl)
    (hi : st.prevLevel - 1 < d.lsm.levels.length)
    (hempty : d.lsm.levels.getD (st.prevLevel - 1) [] = []) :
    (flushLevels d st tables).getD (st.prevLevel - 1) [] = sortBySmallest tables := by
  have hsome : d.lsm.levels[st.prevLevel - 1]? = some [] := by
    rw [List.getD_eq_getElem?_getD, List.getElem?_eq_getElem hi] at hempty
    rw [List.getElem?_eq_getElem hi]
    simpa using hempty
  unfold flushLevels
  rw [List.getD_eq_getElem?_getD, List.getElem?_map]
  split
  · rename_i he
    have : tables = [] := by simpa using he
    subst this
    rw [hsome]; rfl
  · rw [List.getElem?_set, hempty]
    simp [hi]

theorem flushLevels_perm (d : Db) (st : SwState) (tables : List Tbl)
    (hi : tables ≠ [] → st.prevLevel - 1 < d.lsm.levels.length) :
    (lvlEnts (flushLevels d st tables)).Perm (tblEnts tables ++ lvlEnts d.lsm.levels) := by
  unfold flushLevels
  refine (lvlEnts_map_sort _).trans ?_
  split
  · rename_i he
    have : tables = [] := by simpa using he
    subst this
    exact List.Perm.refl _
  · rename_i he
    exact lvlEnts_set _ _ _ (hi (by intro e; apply he; simp [e]))

/-! ## `swForm` keeps key and version -/

theorem swForm_key (d : Db) (e : Ent) : (d.swForm e).key = e.key := by
  unfold Db.swForm; split <;> rfl

theorem swForm_ver (d : Db) (e : Ent) : (d.swForm e).ver = e.ver := by
  unfold Db.swForm; split <;> rfl

theorem sorted_map {f : Ent → Ent} (hk : ∀ e, (f e).key = e.key) (hv : ∀ e, (f e).ver = e.ver)
    {l : List Ent} (h : SortedEnts l) : SortedEnts (l.map f) := by
  rw [sorted_iff] at h ⊢
  rw [List.pairwise_map]
  exact h.imp (fun {a b} hab => by unfold elt at hab ⊢; rw [hk, hk, hv, hv]; exact hab)

theorem sl_map {f : Ent → Ent} (hk : ∀ e, (f e).key = e.key) {s t : List Ent} (h : sl s t) :
    sl (s.map f) (t.map f) := by
  intro x hx y hy
  obtain ⟨x0, hx0, rfl⟩ := List.mem_map.mp hx
  obtain ⟨y0, hy0, rfl⟩ := List.mem_map.mp hy
  rw [hk, hk]; exact h x0 hx0 y0 hy0

/-! ## `newEnts` under the writer invariant -/

theorem newEnts_perm {f : Ent → Ent} {st : SwState} {P : Nat → List Ent} {D : List Ent}
    (h : Inv f st.writers P D) : st.newEnts.Perm (D.map f) := by
  unfold SwState.newEnts
  refine ((sortStreams_perm _).flatten).trans ?_
  rw [flatten_filter_nonempty]
  exact h.perm

theorem newEnts_sorted {f : Ent → Ent} {st : SwState} {P : Nat → List Ent} {D : List Ent}
    (h : Inv f st.writers P D) (hk : ∀ e, (f e).key = e.key) (hv : ∀ e, (f e).ver = e.ver)
    (hs : ∀ sid, SortedEnts (P sid))
    (hd : ∀ s1 s2, s1 ≠ s2 → sl (P s1) (P s2) ∨ sl (P s2) (P s1)) : SortedEnts st.newEnts := by
  unfold SwState.newEnts
  apply sortStreams_flatten_sorted mem_filter_nonempty
  · intro x hx
    obtain ⟨w, hw, rfl⟩ := List.mem_map.mp (List.mem_filter.mp hx).1
    rw [h.ents w hw]
    exact sorted_map hk hv (hs w.sid)
  · apply List.Pairwise.filter
    rw [List.pairwise_map]
    have hn : st.writers.Pairwise (fun a b => a.sid ≠ b.sid) := List.pairwise_map.mp h.nodup
    refine hn.imp_of_mem ?_
    intro a b ha hb hab
    rw [h.ents a ha, h.ents b hb]
    rcases hd a.sid b.sid hab with h1 | h1
    · exact .inl (sl_map hk h1)
    · exact .inr (sl_map hk h1)

end SWL
end Badger
