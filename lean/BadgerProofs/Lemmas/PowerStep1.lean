import BadgerProofs.Lemmas.PowerInv
/-!
# Every step of the protocol machine preserves `PCore` (part 1: WAL atoms, syncs, starts)
-/
namespace Badger

/-! ### fields the power invariant does not look at -/

structure PEq (s1 s2 : PState) : Prop where
  imm : s2.imm = s1.imm
  curOpen : s2.curOpen = s1.curOpen
  cur : s2.cur = s1.cur
  nextMem : s2.nextMem = s1.nextMem
  mtxns : s2.mtxns = s1.mtxns
  fpc : s2.fpc = s1.fpc
  fsst : s2.fsst = s1.fsst
  nextSst : s2.nextSst = s1.nextSst
  tset : s2.tset = s1.tset
  tsetD : s2.tsetD = s1.tsetD
  mdirty : s2.mdirty = s1.mdirty
  tcont : s2.tcont = s1.tcont
  kout : s2.kout = s1.kout
  kdir : s2.kdir = s1.kdir
  curDirty : s2.curDirty = s1.curDirty
  curDurEntry : s2.curDurEntry = s1.curDurEntry
  pendU : s2.pendU = s1.pendU
  commits : s2.commits = s1.commits
  done : s2.done = s1.done
  acked : s2.acked = s1.acked

theorem PCore_of_eq (R : ViewRel) (s1 s2 : PState) (Q : QFs) (h : PCore R s1 Q) (e : PEq s1 s2) : PCore R s2 Q := by
  obtain ⟨e1, e2, e3, e4, e5, e6, e7, e8, e9, e10, e11, e12, e13, e14, e15, e16, e17, e18, e19, e20⟩ := e
  cases s1; cases s2
  simp only at e1 e2 e3 e4 e5 e6 e7 e8 e9 e10 e11 e12 e13 e14 e15 e16 e17 e18 e19 e20
  subst e1 e2 e3 e4 e5 e6 e7 e8 e9 e10 e11 e12 e13 e14 e15 e16 e17 e18 e19 e20
  exact ⟨h.man, h.sst, h.mem, h.logic⟩

/-- a `.vlog` file changes -/
theorem PCore_qupd_vlog (R : ViewRel) (s : PState) (Q : QFs) (h : PCore R s Q) (n : Nat) (v : PV) :
    PCore R s (qupd Q (.vlog n) v) where
  man := by rw [qupd_ne _ _ _ _ (by simp)]; exact h.man
  sst := by rw [sstQ_qupd_vlog]; exact h.sst
  mem := by rw [memQ_qupd_vlog]; exact h.mem
  logic := h.logic

/-! ### helpers -/

theorem entsOfMem_aset_ne (mtxns : List (Nat × List Txn)) (cur k : Nat) (ts : List Txn) (h : k ≠ cur) :
    entsOfMem (aset cur ts mtxns) k = entsOfMem mtxns k := by
  have : ¬ cur = k := fun e => h e.symm
  simp [entsOfMem, aget_aset, this]

theorem immsEnts_aset (mtxns : List (Nat × List Txn)) (cur : Nat) (ts : List Txn) (imm : List Nat)
    (h : cur ∉ imm) : immsEnts (aset cur ts mtxns) imm = immsEnts mtxns imm := by
  unfold immsEnts
  congr 1
  apply List.map_congr_left
  intro k hk
  exact entsOfMem_aset_ne _ _ _ _ (fun e => h (e ▸ hk))

theorem fv_dead (R : ViewRel) (s : PState) (Q : QFs) (hI : Inv R s (fvOf Q)) (hq : QOk Q) (n : Nat)
    (h1 : n ∉ s.imm) (h2 : ¬ (s.curOpen = true ∧ n = s.cur)) : (Q (.mem n)).fv = none ∧ (Q (.mem n)).fd = none := by
  have hfv : (Q (.mem n)).fv = none := by
    cases hf : (Q (.mem n)).fv with
    | none => rfl
    | some f =>
      have : (memView (fvOf Q) n).isSome := by simp [memView, fvOf, hf]
      rcases hI.mem.memKnown n this with h | h
      · exact absurd h h1
      · exact absurd h h2
  refine ⟨hfv, ?_⟩
  have := (hq (.mem n)).fvd
  rw [hfv] at this
  cases hd : (Q (.mem n)).fd with
  | none => rfl
  | some _ => rw [hd] at this; cases this

/-! ### appends to the active WAL: header and entry records -/

theorem PMem_setV_cur (imm : List Nat) (cur nextMem : Nat) (mtxns : List (Nat × List Txn))
    (curDirty b curDurEntry : Bool) (pendU : List (Nat × Nat)) (acked done : Nat)
    (tset tsetD : List (Nat × Nat)) (tcont : List (Nat × List CEnt)) (Qm : Nat → PV) (f : Option Inode)
    (h : PMem imm true cur nextMem mtxns curDirty curDurEntry pendU acked done tset tsetD tcont Qm)
    (hni : cur ∉ imm) (hb : b = false → curDirty = false) :
    PMem imm true cur nextMem mtxns b curDurEntry pendU acked done tset tsetD tcont
      (fun n => if n = cur then (Qm cur).setV f else Qm n) where
  immP := by
    intro k hk
    have : k ≠ cur := fun e => hni (e ▸ hk)
    simp only [this, if_false]
    exact h.immP k hk
  curP := by
    intro _
    obtain ⟨g, jd, h1, h2, h3, h4, h5, h6, h7⟩ := h.curP rfl
    simp only [if_true]
    refine ⟨g, jd, h1, h2, h3, fun e => h4 (hb e), h5, h6, ?_⟩
    intro hl
    have hl' : (Qm cur).lk = false := hl
    have := h7 hl'
    simp only [PV.setV, hl', Bool.false_eq_true, if_false]
    exact this
  deadP := by
    intro n h1 h2
    have : n ≠ cur := fun e => h2 ⟨rfl, e⟩
    simp only [this, if_false]
    exact h.deadP n h1 h2
  pend := h.pend

/-- `mhdr`, `wput`: one more record in the active WAL (not a transaction end) -/
theorem PC_curAppend (R : ViewRel) (s s' : PState) (Q : QFs) (hI : Inv R s (fvOf Q)) (hP : PCore R s Q)
    (ho : s.curOpen = true) (f : Option Inode) (e : PEq s { s' with curDirty := s.curDirty })
    (hb : s'.curDirty = false → s.curDirty = false) :
    PCore R s' (qupd Q (.mem s.cur) ((Q (.mem s.cur)).setV f)) := by
  have hm := hP.mem
  rw [ho] at hm
  have hm' := PMem_setV_cur _ _ _ _ _ s'.curDirty _ _ _ _ _ _ _ _ f hm (hI.mem.curNotImm ho) hb
  have hc : PCore R { s' with curDirty := s.curDirty } Q := PCore_of_eq R s _ Q hP e
  obtain ⟨e1, e2, e3, e4, e5, e6, e7, e8, e9, e10, e11, e12, e13, e14, e15, e16, e17, e18, e19, e20⟩ := e
  simp only at e1 e2 e3 e4 e5 e6 e7 e8 e9 e10 e11 e12 e13 e14 e16 e17 e18 e19 e20
  refine ⟨?_, ?_, ?_, hc.logic⟩
  · rw [qupd_ne _ _ _ _ (by simp)]; exact hc.man
  · rw [sstQ_qupd_mem]; exact hc.sst
  · rw [memQ_qupd_mem, e1, e2, e3, e4, e5, e16, e17, e20, e19, e9, e10, e12, ho]
    exact hm'

/-! ### `fin`: the end-of-transaction record -/

theorem take_append_of_le {α : Type} (a b : List α) (n : Nat) (h : n ≤ a.length) : (a ++ b).take n = a.take n := by
  rw [List.take_append]
  have : n - a.length = 0 := by omega
  simp [this]

theorem PC_fin (R : ViewRel) (s : PState) (Q : QFs) (hI : Inv R s (fvOf Q)) (hP : PCore R s Q)
    (t : Txn) (hinf : s.inflight = some t) (ho : s.curOpen = true) (f : Option Inode) :
    PCore R { s with mtxns := aset s.cur (s.memTxns s.cur ++ [t]) s.mtxns, pending := [],
                     inflight := none, done := s.done + 1, curDirty := true }
      (qupd Q (.mem s.cur) ((Q (.mem s.cur)).setV f)) := by
  have hni := hI.mem.curNotImm ho
  have hgetD : (aget s.cur (aset s.cur (s.memTxns s.cur ++ [t]) s.mtxns)).getD [] = s.memTxns s.cur ++ [t] := by
    simp [aget_aset]
  refine ⟨?_, ?_, ?_, ?_⟩
  · rw [qupd_ne _ _ _ _ (by simp)]; exact hP.man
  · rw [sstQ_qupd_mem]
    have hs := hP.sst
    exact {
      tables := hs.tables
      dLt := hs.dLt
      fl3 := by
        intro k hk h3 h4
        have hkm : k ∈ s.imm := head?_mem _ _ hk
        have : k ≠ s.cur := fun e => hni (e ▸ hkm)
        show isTable _ (entsOfMem (aset s.cur _ s.mtxns) k)
        rw [entsOfMem_aset_ne _ _ _ _ this]
        exact hs.fl3 k hk h3 h4
      fl4 := hs.fl4
      fl6 := hs.fl6
      kout3 := hs.kout3
      kdirOk := hs.kdirOk }
  · rw [memQ_qupd_mem]
    have hm := hP.mem
    rw [ho] at hm
    have hm' := PMem_setV_cur _ _ _ _ _ true _ _ _ _ _ _ _ _ f hm hni (by intro e; cases e)
    show PMem s.imm s.curOpen s.cur s.nextMem (aset s.cur (s.memTxns s.cur ++ [t]) s.mtxns) true s.curDurEntry
      s.pendU s.acked (s.done + 1) s.tset s.tsetD s.tcont _
    rw [ho]
    exact {
      immP := by
        intro k hk
        have : k ≠ s.cur := fun e => hni (e ▸ hk)
        rw [entsOfMem_aset_ne _ _ _ _ this]
        exact hm'.immP k hk
      curP := by
        intro _
        obtain ⟨g, jd, h1, h2, h3, _, h5, h6, h7⟩ := hm'.curP rfl
        have h2' : jd ≤ (s.memTxns s.cur).length := h2
        rw [hgetD]
        refine ⟨g, jd, h1, (by simp; omega), ?_, (by intro e; cases e), ?_, h6, ?_⟩
        · rw [take_append_of_le _ _ _ h2']; exact h3
        · have h5' : s.acked + (s.memTxns s.cur).length ≤ s.done + jd := h5
          simp; omega
        · intro hl
          obtain ⟨a, b, c⟩ := h7 hl
          have c' : s.acked + (s.memTxns s.cur).length ≤ s.done := c
          exact ⟨a, b, by simp; omega⟩
      deadP := by
        intro n h1 h2
        have hne : n ≠ s.cur := fun e => h2 ⟨rfl, e⟩
        rw [entsOfMem_aset_ne _ _ _ _ hne]
        exact hm'.deadP n h1 h2
      pend := by
        intro x hx
        obtain ⟨a, b, c, d⟩ := hm'.pend x hx
        refine ⟨a, b, c, ?_⟩
        rw [entsOfMem_aset_ne _ _ _ _ (c rfl)]
        exact d }
  · have hl := hP.logic
    have hcT : s.curT = s.memTxns s.cur := by simp [PState.curT, ho, PState.memTxns]
    have hcT' : ∀ s' : PState, s'.curOpen = true → s'.curT = (aget s'.cur s'.mtxns).getD [] := by
      intro s' h; simp [PState.curT, h]
    rw [hcT] at hl
    show PLogic R s.commits (s.done + 1) _ s.tcont s.tset s.tsetD (aset s.cur _ s.mtxns) s.imm
    rw [hcT' _ (by exact ho)]
    show PLogic R s.commits (s.done + 1) ((aget s.cur (aset s.cur (s.memTxns s.cur ++ [t]) s.mtxns)).getD [])
      s.tcont s.tset s.tsetD (aset s.cur _ s.mtxns) s.imm
    rw [hgetD]
    have hi := immsEnts_aset s.mtxns s.cur (s.memTxns s.cur ++ [t]) s.imm hni
    have hlen : (s.memTxns s.cur ++ [t]).length = (s.memTxns s.cur).length + 1 := by simp
    have hsub : s.done + 1 - (s.memTxns s.cur ++ [t]).length = s.done - (s.memTxns s.cur).length := by
      rw [hlen]; omega
    refine ⟨by rw [hlen]; have := hl.curLe; omega, ?_, by rw [hsub, hi]; exact hl.baseV, by rw [hsub, hi]; exact hl.baseD⟩
    rw [hsub]
    have hinfl := hI.logic.infl
    rw [hinf] at hinfl
    have hc : s.commits = s.commits.take s.done ++ [t] := hinfl
    have hlenc : s.commits.length = s.done + 1 := by
      have := congrArg List.length hc
      simp at this
      have hd := hI.logic.done_le
      omega
    have : s.commits.take (s.done + 1) = s.commits := by
      rw [← hlenc]; exact List.take_length
    rw [this]
    calc s.commits = s.commits.take s.done ++ [t] := hc
      _ = (s.commits.take (s.done - (s.memTxns s.cur).length) ++ s.memTxns s.cur) ++ [t] := by rw [← hl.link]
      _ = _ := by rw [List.append_assoc]

/-! ### `pushImm` -/

theorem immsEnts_append (mtxns : List (Nat × List Txn)) (a b : List Nat) :
    immsEnts mtxns (a ++ b) = immsEnts mtxns a ++ immsEnts mtxns b := by simp [immsEnts]

theorem PC_pushImm (R : ViewRel) (s : PState) (Q : QFs) (hI : Inv R s (fvOf Q)) (hP : PCore R s Q)
    (ho : s.curOpen = true) (hd : s.curDirty = false) (hde : s.curDurEntry = true) :
    PCore R { s with imm := s.imm ++ [s.cur], curOpen := false } Q := by
  have hni := hI.mem.curNotImm ho
  refine ⟨hP.man, ?_, ?_, ?_⟩
  · have hs := hP.sst
    have hhead : ∀ k, (s.imm ++ [s.cur]).head? = some k → s.imm ≠ [] → s.imm.head? = some k := by
      intro k hk hne; rw [head?_append_of_ne_nil _ _ hne] at hk; exact hk
    have hidle : s.imm = [] → s.fpc = 0 := hI.sst.idle
    show PSst s.tset s.tsetD s.tcont (s.imm ++ [s.cur]) s.mtxns s.fpc s.fsst s.nextSst s.kout s.kdir (sstQ Q)
    exact {
      tables := hs.tables
      dLt := hs.dLt
      fl3 := by
        intro k hk h3 h4
        by_cases hne : s.imm = []
        · have := hidle hne; omega
        · exact hs.fl3 k (hhead k hk hne) h3 h4
      fl4 := by
        intro _ h4
        by_cases hne : s.imm = []
        · have := hidle hne; omega
        · exact hs.fl4 hne h4
      fl6 := by
        intro _ h6
        by_cases hne : s.imm = []
        · have := hidle hne; omega
        · exact hs.fl6 hne h6
      kout3 := hs.kout3
      kdirOk := hs.kdirOk }
  · have hm := hP.mem
    show PMem (s.imm ++ [s.cur]) false s.cur s.nextMem s.mtxns s.curDirty s.curDurEntry s.pendU s.acked s.done
      s.tset s.tsetD s.tcont (memQ Q)
    exact {
      immP := by
        intro k hk
        rcases List.mem_append.mp hk with h1 | h1
        · exact hm.immP k h1
        · have : k = s.cur := by simpa using h1
          subst this
          obtain ⟨g, jd, h1, h2, h3, h4, _, h6, _⟩ := hm.curP ho
          refine ⟨h6 hde, g, h1, ?_⟩
          rw [h3, h4 hd, List.take_length]
          rfl
      curP := by intro e; cases e
      deadP := by
        intro n h1 _
        have h1' : n ∉ s.imm ∧ n ≠ s.cur := by simpa using h1
        exact hm.deadP n h1'.1 (fun e => h1'.2 e.2)
      pend := by
        intro x hx
        obtain ⟨a, b, c, d⟩ := hm.pend x hx
        refine ⟨a, ?_, (by intro e; cases e), d⟩
        intro hin
        rcases List.mem_append.mp hin with h1 | h1
        · exact b h1
        · exact c ho (by simpa using h1) }
  · have hl := hP.logic
    have hcT : s.curT = (aget s.cur s.mtxns).getD [] := by simp [PState.curT, ho]
    rw [hcT] at hl
    show PLogic R s.commits s.done [] s.tcont s.tset s.tsetD s.mtxns (s.imm ++ [s.cur])
    have hcur : immsEnts s.mtxns [s.cur] = txnsEnts ((aget s.cur s.mtxns).getD []) := by
      simp [immsEnts, entsOfMem]
    refine ⟨Nat.zero_le _, by simp, ?_, ?_⟩
    · show R.r (tablesEnts s.tcont s.tset ++ immsEnts s.mtxns (s.imm ++ [s.cur])) (txnsEnts (s.commits.take (s.done - 0)))
      rw [immsEnts_append, ← List.append_assoc, Nat.sub_zero, hl.link, txnsEnts_append, hcur]
      exact R.app_congr _ _ _ _ hl.baseV (R.refl _)
    · show R.r (tablesEnts s.tcont s.tsetD ++ immsEnts s.mtxns (s.imm ++ [s.cur])) (txnsEnts (s.commits.take (s.done - 0)))
      rw [immsEnts_append, ← List.append_assoc, Nat.sub_zero, hl.link, txnsEnts_append, hcur]
      exact R.app_congr _ _ _ _ hl.baseD (R.refl _)

/-! ### `newMem` -/

theorem PC_newMem (R : ViewRel) (s : PState) (Q : QFs) (hI : Inv R s (fvOf Q)) (hP : PCore R s Q)
    (ho : s.curOpen = false) :
    PCore R { s with cur := s.nextMem, curOpen := true, curHdr := false, nextMem := s.nextMem + 1,
                     curDirty := false, curDurEntry := false }
      (qupd Q (.mem s.nextMem) { fv := some { chunks := [], size := .alloc }, fd := some { chunks := [], size := .alloc },
                                 dv := (Q (.mem s.nextMem)).dv, dd := (Q (.mem s.nextMem)).dd, lk := false }) := by
  have hfresh : (aget s.nextMem s.mtxns).getD [] = [] := by
    rw [(hI.mem.memFresh s.nextMem (Nat.le_refl _)).2]; rfl
  have hm := hP.mem
  have hnotimm : s.nextMem ∉ s.imm := fun h => by have := hI.mem.immLt _ h; omega
  have hdead : (Q (.mem s.nextMem)).dv = none ∧ (Q (.mem s.nextMem)).dd = none := by
    rcases hm.deadP s.nextMem hnotimm (by rw [ho]; intro e; cases e.1) with h1 | ⟨⟨t, ht⟩, _⟩
    · exact h1
    · have := (hm.pend _ ht).1
      have : s.nextMem < s.nextMem := this
      omega
  refine ⟨?_, ?_, ?_, ?_⟩
  · rw [qupd_ne _ _ _ _ (by simp)]; exact hP.man
  · rw [sstQ_qupd_mem]; exact hP.sst
  · rw [memQ_qupd_mem]
    show PMem s.imm true s.nextMem (s.nextMem + 1) s.mtxns false false s.pendU s.acked s.done
      s.tset s.tsetD s.tcont _
    exact {
      immP := by
        intro k hk
        have : k ≠ s.nextMem := by have := hI.mem.immLt _ hk; omega
        simp only [this, if_false]
        exact hm.immP k hk
      curP := by
        intro _
        rw [hfresh]
        refine ⟨{ chunks := [], size := .alloc }, 0, by simp, Nat.le_refl _, rfl, fun _ => rfl, ?_, (by intro e; cases e), ?_⟩
        · have := hI.logic.acked_le; simp; omega
        · intro _
          simp only [if_true]
          refine ⟨hdead.1, hdead.2, ?_⟩
          have := hI.logic.acked_le; simp; omega
      deadP := by
        intro n h1 h2
        have hne : n ≠ s.nextMem := fun e => h2 ⟨rfl, e⟩
        simp only [hne, if_false]
        exact hm.deadP n h1 (by rw [ho]; intro e; cases e.1)
      pend := by
        intro x hx
        obtain ⟨a, b, _, d⟩ := hm.pend x hx
        refine ⟨(by omega), b, ?_, d⟩
        intro _ e
        have : x.1 < s.nextMem := a
        have e' : x.1 = s.nextMem := e
        omega }
  · have hl := hP.logic
    have hcT : s.curT = [] := by simp [PState.curT, ho]
    rw [hcT] at hl
    have hcT' : ∀ s' : PState, s'.curOpen = true → s'.curT = (aget s'.cur s'.mtxns).getD [] := by
      intro s' h; simp [PState.curT, h]
    show PLogic R s.commits s.done _ s.tcont s.tset s.tsetD s.mtxns s.imm
    rw [hcT' _ (by rfl)]
    show PLogic R s.commits s.done ((aget s.nextMem s.mtxns).getD []) s.tcont s.tset s.tsetD s.mtxns s.imm
    rw [hfresh]
    exact hl

/-! ### msync of a `.mem` file -/

theorem PC_syncMem (R : ViewRel) (s : PState) (Q : QFs) (hI : Inv R s (fvOf Q)) (hP : PCore R s Q) (hq : QOk Q)
    (fid : Nat) (b : Bool) (hb : (fid = s.cur ∧ s.curOpen = true) ∨ b = s.curDirty) :
    PCore R { s with curDirty := b } (qupd Q (.mem fid) ((Q (.mem fid)).setD (Q (.mem fid)).fv)) := by
  have hm := hP.mem
  refine ⟨?_, ?_, ?_, hP.logic⟩
  · rw [qupd_ne _ _ _ _ (by simp)]; exact hP.man
  · rw [sstQ_qupd_mem]; exact hP.sst
  · rw [memQ_qupd_mem]
    show PMem s.imm s.curOpen s.cur s.nextMem s.mtxns b s.curDurEntry s.pendU s.acked s.done
      s.tset s.tsetD s.tcont _
    exact {
      immP := by
        intro k hk
        by_cases hkf : k = fid
        · subst hkf
          simp only [if_true]
          obtain ⟨hl, _⟩ := hm.immP k hk
          obtain ⟨f, hf, hr⟩ := hI.mem.immFiles k hk
          have hf' : (Q (.mem k)).fv = some f := hf
          exact ⟨by simpa [PV.setD, memQ] using hl, f, by simpa [PV.setD, memQ] using hf', hr⟩
        · simp only [hkf, if_false]; exact hm.immP k hk
      curP := by
        intro ho
        obtain ⟨g, jd, h1, h2, h3, h4, h5, h6, h7⟩ := hm.curP ho
        by_cases hcf : s.cur = fid
        · subst hcf
          simp only [if_true]
          obtain ⟨f, hf, hc⟩ := hI.mem.curFile ho
          have hf' : (Q (.mem s.cur)).fv = some f := hf
          refine ⟨f, ((aget s.cur s.mtxns).getD []).length, by simpa [PV.setD, memQ] using hf', Nat.le_refl _, ?_,
            fun _ => rfl, by omega, by simpa [PV.setD, memQ] using h6, ?_⟩
          · rw [hc, replayLog_walChunks _ _ hI.mem.curTxns _ _ (fun e => (hI.mem.noHdr e).1), List.take_length]
          · intro hl
            have hl' : (Q (.mem s.cur)).lk = false := by simpa [PV.setD, memQ] using hl
            have := h7 hl'
            simpa [PV.setD, hl', memQ] using this
        · simp only [hcf, if_false]
          have hbb : b = s.curDirty := by
            rcases hb with ⟨e, _⟩ | e
            · exact absurd e.symm hcf
            · exact e
          rw [hbb]
          exact ⟨g, jd, h1, h2, h3, h4, h5, h6, h7⟩
      deadP := by
        intro n h1 h2
        by_cases hnf : n = fid
        · subst hnf
          simp only [if_true]
          have hfv := (fv_dead R s Q hI hq n h1 h2).1
          by_cases hl : (Q (.mem n)).lk = true
          · left
            have := (hq (.mem n)).lkv hl
            rw [hfv] at this
            simp [PV.setD, hl, hfv, memQ, this]
          · have hl' : (Q (.mem n)).lk = false := by simpa using hl
            have := hm.deadP n h1 h2
            simpa [PV.setD, hl', memQ] using this
        · simp only [hnf, if_false]; exact hm.deadP n h1 h2
      pend := hm.pend }

/-! ### fsync of the MANIFEST -/

theorem PC_syncManifest (R : ViewRel) (s : PState) (Q : QFs) (hI : Inv R s (fvOf Q)) (hP : PCore R s Q) :
    PCore R { s with mdirty := false, tsetD := s.tset }
      (qupd Q .manifest ((Q .manifest).setD (Q .manifest).fv)) := by
  refine ⟨?_, ?_, ?_, ?_⟩
  · rw [qupd_same]
    have h := hP.man
    exact ⟨by simpa [PV.setD] using h.lk, by simpa [PV.setD] using h.vol, by simpa [PV.setD, h.lk] using h.vol, fun _ => rfl⟩
  · rw [sstQ_qupd_manifest]
    have hs := hP.sst
    show PSst s.tset s.tset s.tcont s.imm s.mtxns s.fpc s.fsst s.nextSst s.kout s.kdir (sstQ Q)
    exact {
      tables := by
        intro id h
        exact hs.tables id (Or.inl (by rcases h with h | h <;> exact h))
      dLt := fun n hn => (hI.sst.sstFresh n hn).2
      fl3 := hs.fl3
      fl4 := hs.fl4
      fl6 := by
        intro hne h6
        cases hi : s.imm with
        | nil => exact absurd hi hne
        | cons k rest => exact (hI.sst.flush5 k (by rw [hi]; rfl) (by omega)).1
      kout3 := hs.kout3
      kdirOk := hs.kdirOk }
  · rw [memQ_qupd_manifest]
    have hm := hP.mem
    show PMem s.imm s.curOpen s.cur s.nextMem s.mtxns s.curDirty s.curDurEntry s.pendU s.acked s.done
      s.tset s.tset s.tcont _
    exact {
      immP := hm.immP
      curP := hm.curP
      deadP := hm.deadP
      pend := by
        intro x hx
        obtain ⟨a, b, c, d⟩ := hm.pend x hx
        exact ⟨a, b, c, fun e he => ⟨(d e he).1, (d e he).1, (d e he).2.2⟩⟩ }
  · have hl := hP.logic
    exact ⟨hl.curLe, hl.link, hl.baseV, hl.baseV⟩

/-! ### fsync of the directory -/

theorem PC_syncDir (R : ViewRel) (s : PState) (Q : QFs) (hI : Inv R s (fvOf Q)) (hP : PCore R s Q) (hq : QOk Q) :
    PCore R { s with curDurEntry := if s.curOpen then true else s.curDurEntry, pendU := [],
                     kdir := s.kdir || s.kout.all (fun o => 1 ≤ o.stage) } (syncDirQ Q) := by
  refine ⟨?_, ?_, ?_, hP.logic⟩
  · have h := hP.man
    exact ⟨rfl, h.vol, h.dur, h.clean⟩
  · have hs := hP.sst
    show PSst s.tset s.tsetD s.tcont s.imm s.mtxns s.fpc s.fsst s.nextSst s.kout
      (s.kdir || s.kout.all (fun o => 1 ≤ o.stage)) (sstQ (syncDirQ Q))
    exact {
      tables := by
        intro id h
        obtain ⟨_, b, c⟩ := hs.tables id h
        exact ⟨rfl, b, c⟩
      dLt := hs.dLt
      fl3 := hs.fl3
      fl4 := fun _ _ => rfl
      fl6 := hs.fl6
      kout3 := hs.kout3
      kdirOk := by
        intro hk o ho
        refine ⟨?_, rfl⟩
        rcases Bool.or_eq_true_iff.mp hk with h1 | h1
        · exact (hs.kdirOk h1 o ho).1
        · have := List.all_eq_true.mp h1 o ho
          simpa using this }
  · have hm := hP.mem
    show PMem s.imm s.curOpen s.cur s.nextMem s.mtxns s.curDirty (if s.curOpen then true else s.curDurEntry) []
      s.acked s.done s.tset s.tsetD s.tcont (memQ (syncDirQ Q))
    exact {
      immP := by
        intro k hk
        obtain ⟨_, b⟩ := hm.immP k hk
        exact ⟨rfl, b⟩
      curP := by
        intro ho
        obtain ⟨g, jd, h1, h2, h3, h4, h5, _, _⟩ := hm.curP ho
        exact ⟨g, jd, h1, h2, h3, h4, h5, fun _ => rfl, fun e => by cases e⟩
      deadP := by
        intro n h1 h2
        left
        have := fv_dead R s Q hI hq n h1 h2
        exact ⟨this.1, this.2⟩
      pend := by intro x hx; cases hx }

/-! ### the acknowledgement -/

theorem PC_ack (R : ViewRel) (s : PState) (Q : QFs) (hP : PCore R s Q)
    (hlt : s.acked < s.done) (ho : s.curOpen = true) (hd : s.curDirty = false) (hde : s.curDurEntry = true) :
    PCore R { s with acked := s.acked + 1 } Q := by
  refine ⟨hP.man, hP.sst, ?_, hP.logic⟩
  have hm := hP.mem
  show PMem s.imm s.curOpen s.cur s.nextMem s.mtxns s.curDirty s.curDurEntry s.pendU (s.acked + 1) s.done
    s.tset s.tsetD s.tcont (memQ Q)
  exact {
    immP := hm.immP
    curP := by
      intro _
      obtain ⟨g, jd, h1, h2, h3, h4, h5, h6, h7⟩ := hm.curP ho
      have := h4 hd
      refine ⟨g, jd, h1, h2, h3, h4, by omega, h6, ?_⟩
      intro hl
      rw [h6 hde] at hl; cases hl
    deadP := hm.deadP
    pend := hm.pend }

/-! ### a commit is issued -/

theorem PC_commitStart (R : ViewRel) (s s' : PState) (Q : QFs) (hI : Inv R s (fvOf Q)) (hP : PCore R s Q) (t : Txn)
    (e : PEq s { s' with commits := s.commits }) (hc : s'.commits = s.commits ++ [t]) : PCore R s' Q := by
  have h := PCore_of_eq R s _ Q hP e
  obtain ⟨e1, e2, e3, e4, e5, e6, e7, e8, e9, e10, e11, e12, e13, e14, e15, e16, e17, e18, e19, e20⟩ := e
  simp only at e1 e2 e3 e4 e5 e6 e7 e8 e9 e10 e11 e12 e13 e14 e15 e16 e17 e19 e20
  refine ⟨h.man, h.sst, h.mem, ?_⟩
  have hl := h.logic
  have hd : s'.done ≤ s.commits.length := by rw [e19]; exact hI.logic.done_le
  have hcT : s'.curT = ({ s' with commits := s.commits } : PState).curT := rfl
  have hl' : PLogic R s.commits s'.done s'.curT s'.tcont s'.tset s'.tsetD s'.mtxns s'.imm := hl
  rw [hc]
  have ht : ∀ n, n ≤ s'.done → (s.commits ++ [t]).take n = s.commits.take n := by
    intro n hn; exact take_append_of_le _ _ _ (by omega)
  refine ⟨hl'.curLe, ?_, ?_, ?_⟩
  · rw [ht _ (Nat.le_refl _), ht _ (Nat.sub_le _ _)]; exact hl'.link
  · rw [ht _ (Nat.sub_le _ _)]; exact hl'.baseV
  · rw [ht _ (Nat.sub_le _ _)]; exact hl'.baseD

end Badger
