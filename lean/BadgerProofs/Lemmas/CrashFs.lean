import BadgerModel.Fs
import BadgerModel.Recover
/-!
# The kill view of the file system as a function `Path → Option Inode`

`Fs.file s p` is what a process kill leaves in the file called `p`. Under the well-formedness
invariant `Fs.WF` (distinct names are bound to distinct inodes; every bound inode number is
below `next`) each `FsOp` acts on this view as the pointwise update `kstep`.
-/
namespace Badger

/-! ## association lists -/

theorem aget_filter_ne {α β : Type} [DecidableEq α] (k k' : α) (l : List (α × β)) :
    aget k (l.filter (fun x => x.1 ≠ k')) = if k = k' then none else aget k l := by
  induction l with
  | nil => simp [aget]
  | cons x xs ih =>
    obtain ⟨a, b⟩ := x
    by_cases h : a = k'
    · subst h
      simp only [List.filter, ne_eq, not_true_eq_false, decide_false]
      rw [ih]
      by_cases h2 : k = a
      · simp [h2]
      · have : ¬ a = k := fun e => h2 e.symm
        simp [aget, h2, this]
    · simp only [List.filter, ne_eq, h, not_false_eq_true, decide_true, aget]
      rw [ih]
      by_cases h2 : a = k
      · subst h2; simp [h]
      · simp [h2]

theorem aget_aset {α β : Type} [DecidableEq α] (k k' : α) (v : β) (l : List (α × β)) :
    aget k (aset k' v l) = if k' = k then some v else aget k l := by
  unfold aset
  simp only [aget]
  by_cases h : k' = k
  · simp [h]
  · have : ¬ k = k' := fun e => h e.symm
    simp only [h, if_false]
    rw [aget_filter_ne]
    simp [this]

theorem aget_aerase {α β : Type} [DecidableEq α] (k k' : α) (l : List (α × β)) :
    aget k (aerase k' l) = if k = k' then none else aget k l := by
  unfold aerase; exact aget_filter_ne k k' l

theorem aget_map_val {α β γ : Type} [DecidableEq α] (k : α) (g : β → γ) (l : List (α × β)) :
    aget k (l.map (fun x => (x.1, g x.2))) = (aget k l).map g := by
  induction l with
  | nil => simp [aget]
  | cons x xs ih =>
    obtain ⟨a, b⟩ := x
    simp only [List.map, aget]
    by_cases h : a = k <;> simp [h, ih]

theorem aget_mem {α β : Type} [DecidableEq α] (k : α) (v : β) (l : List (α × β))
    (h : aget k l = some v) : (k, v) ∈ l := by
  induction l with
  | nil => simp [aget] at h
  | cons x xs ih =>
    obtain ⟨a, b⟩ := x
    simp only [aget] at h
    by_cases h2 : a = k
    · simp [h2] at h; subst h2; subst h; simp
    · simp [h2] at h; exact List.mem_cons_of_mem _ (ih h)

/-! ## the kill view -/

abbrev KFs := Path → Option Inode

def appendChunk (c : Chunk) (f : Inode) : Inode :=
  { chunks := f.chunks ++ [c], size := if f.size = .alloc then .alloc else .tight }

def truncChunks (n : Nat) (f : Inode) : Inode :=
  { chunks := f.chunks.take n, size := if n = 0 then .zero else .tight }

def kstep (F : KFs) : FsOp → KFs
  | .create p => fun q => if q = p then some {} else F q
  | .extend p => fun q => if q = p then (F p).map (fun f => { f with size := .alloc }) else F q
  | .append p c => fun q => if q = p then (F p).map (appendChunk c) else F q
  | .zero _ => F
  | .truncate p n => fun q => if q = p then (F p).map (truncChunks n) else F q
  | .sync _ => F
  | .rename a b => fun q =>
    match F a with
    | some f => if q = b then some f else if q = a then none else F q
    | none => F q
  | .unlink p => fun q => if q = p then none else F q
  | .syncDir => F

def krun (F : KFs) (ops : List FsOp) : KFs := ops.foldl kstep F

@[simp] theorem krun_nil (F : KFs) : krun F [] = F := rfl
@[simp] theorem krun_cons (F : KFs) (op : FsOp) (ops : List FsOp) :
    krun F (op :: ops) = krun (kstep F op) ops := rfl
theorem krun_append (F : KFs) (a b : List FsOp) : krun F (a ++ b) = krun (krun F a) b := by
  simp [krun, List.foldl_append]

structure Fs.WF (s : Fs) : Prop where
  inj : ∀ p q i, aget p s.dir = some i → aget q s.dir = some i → p = q
  fresh : ∀ p i, aget p s.dir = some i → i < s.next

theorem Fs.file_def (s : Fs) (p : Path) :
    s.file p = (aget p s.dir).map (fun i => (aget i s.data).getD {}) := by
  unfold Fs.file; cases aget p s.dir <;> rfl

theorem crashKill_file (s : Fs) (p : Path) : Image.file (crashKill s) p = s.file p := by
  unfold Image.file crashKill
  rw [Fs.file_def]
  have := aget_map_val p (fun i => (aget i s.data).getD ({} : Inode)) s.dir
  simpa using this

/-- modifying the content of `p`'s inode changes the view at `p` only -/
theorem Fs.file_modify (s : Fs) (h : s.WF) (p : Path) (g : Inode → Inode) (q : Path) :
    (s.modify p g).file q = if q = p then (s.file p).map g else s.file q := by
  unfold Fs.modify
  cases hp : aget p s.dir with
  | none =>
    by_cases hq : q = p
    · subst hq; simp [Fs.file_def, hp]
    · simp [hq]
  | some i =>
    simp only [Fs.file_def, hp, Option.map_some]
    by_cases hq : q = p
    · subst hq; simp [hp, aget_aset]
    · simp only [hq, if_false]
      cases hq2 : aget q s.dir with
      | none => rfl
      | some j =>
        have : i ≠ j := fun e => hq (h.inj q p j hq2 (e ▸ hp))
        simp [aget_aset, this]

theorem Fs.WF_modify (s : Fs) (h : s.WF) (p : Path) (g : Inode → Inode) : (s.modify p g).WF := by
  unfold Fs.modify
  cases hp : aget p s.dir with
  | none => exact h
  | some i => exact ⟨h.inj, h.fresh⟩

theorem Fs.file_step (s : Fs) (h : s.WF) (op : FsOp) : (s.step op).file = kstep s.file op := by
  funext q
  cases op with
  | create p =>
    simp only [Fs.step, kstep]
    rw [Fs.file_def]
    simp only [aget_aset]
    by_cases hq : q = p
    · subst hq; simp [aget_aset]
    · have : ¬ p = q := fun e => hq e.symm
      simp only [this, hq, if_false]
      rw [Fs.file_def]
      cases hq2 : aget q s.dir with
      | none => rfl
      | some j =>
        have hj : s.next ≠ j := by have := h.fresh q j hq2; omega
        simp [aget_aset, hj]
  | extend p =>
    simp only [Fs.step, kstep]
    cases hp : aget p s.dir with
    | none =>
      by_cases hq : q = p
      · subst hq; simp [Fs.file_def, hp]
      · simp [hq]
    | some i =>
      have := Fs.file_modify s h p (fun f => { f with size := .alloc }) q
      unfold Fs.modify at this
      simp only [hp] at this
      rw [Fs.file_def] at this ⊢
      simpa using this
  | append p c => simp only [Fs.step, kstep]; exact Fs.file_modify s h p _ q
  | zero p => rfl
  | truncate p n => simp only [Fs.step, kstep]; exact Fs.file_modify s h p _ q
  | sync p =>
    simp only [Fs.step, kstep]
    cases aget p s.dir <;> rfl
  | rename a b =>
    simp only [Fs.step, kstep]
    cases ha : aget a s.dir with
    | none => simp [Fs.file_def, ha]
    | some i =>
      simp only [Fs.file_def, ha, Option.map_some, aget_aset, aget_aerase]
      by_cases hb : q = b
      · subst hb; simp
      · have : ¬ b = q := fun e => hb e.symm
        simp only [this, hb, if_false]
        by_cases hqa : q = a
        · simp [hqa]
        · simp [hqa]
  | unlink p =>
    simp only [Fs.step, kstep, Fs.file_def, aget_aerase]
    by_cases hq : q = p <;> simp [hq]
  | syncDir => rfl

theorem Fs.WF_step (s : Fs) (h : s.WF) (op : FsOp) : (s.step op).WF := by
  cases op with
  | create p =>
    refine ⟨?_, ?_⟩
    · intro a b i ha hb
      simp only [Fs.step, aget_aset] at ha hb
      by_cases h1 : p = a <;> by_cases h2 : p = b
      · rw [← h1, ← h2]
      · rw [if_pos h1] at ha; rw [if_neg h2] at hb
        injection ha with ha; subst ha
        have := h.fresh b _ hb; omega
      · rw [if_neg h1] at ha; rw [if_pos h2] at hb
        injection hb with hb; subst hb
        have := h.fresh a _ ha; omega
      · rw [if_neg h1] at ha; rw [if_neg h2] at hb; exact h.inj a b i ha hb
    · intro a i ha
      simp only [Fs.step, aget_aset] at ha ⊢
      by_cases h1 : p = a
      · rw [if_pos h1] at ha; injection ha with ha; omega
      · rw [if_neg h1] at ha; have := h.fresh a i ha; omega
  | extend p =>
    simp only [Fs.step]
    cases hp : aget p s.dir with
    | none => exact h
    | some i => exact ⟨h.inj, h.fresh⟩
  | append p c => simp only [Fs.step]; exact Fs.WF_modify s h p _
  | zero p => exact h
  | truncate p n => simp only [Fs.step]; exact Fs.WF_modify s h p _
  | sync p =>
    simp only [Fs.step]
    cases aget p s.dir with
    | none => exact h
    | some i => exact ⟨h.inj, h.fresh⟩
  | rename a b =>
    simp only [Fs.step]
    cases ha : aget a s.dir with
    | none => exact h
    | some i =>
      refine ⟨?_, ?_⟩
      · intro x y j hx hy
        simp only [aget_aset, aget_aerase] at hx hy
        by_cases h1 : b = x <;> by_cases h2 : b = y
        · rw [← h1, ← h2]
        · simp only [h1, if_true, Option.some.injEq] at hx
          simp only [h2, if_false] at hy
          by_cases h3 : y = a
          · simp [h3] at hy
          · simp [h3] at hy; subst hx
            exact absurd (h.inj y a i hy ha) h3
        · simp only [h2, if_true, Option.some.injEq] at hy
          simp only [h1, if_false] at hx
          by_cases h3 : x = a
          · simp [h3] at hx
          · simp [h3] at hx; subst hy
            exact absurd (h.inj x a i hx ha) h3
        · simp only [h1, h2, if_false] at hx hy
          by_cases h3 : x = a
          · simp [h3] at hx
          · by_cases h4 : y = a
            · simp [h4] at hy
            · simp [h3] at hx; simp [h4] at hy; exact h.inj x y j hx hy
      · intro x j hx
        simp only [aget_aset, aget_aerase] at hx
        by_cases h1 : b = x
        · simp [h1] at hx; subst hx; exact h.fresh a _ ha
        · simp only [h1, if_false] at hx
          by_cases h3 : x = a
          · simp [h3] at hx
          · simp [h3] at hx; exact h.fresh x j hx
  | unlink p =>
    refine ⟨?_, ?_⟩
    · intro x y j hx hy
      simp only [Fs.step, aget_aerase] at hx hy
      by_cases h1 : x = p
      · simp [h1] at hx
      · by_cases h2 : y = p
        · simp [h2] at hy
        · simp [h1] at hx; simp [h2] at hy; exact h.inj x y j hx hy
    · intro x j hx
      simp only [Fs.step, aget_aerase] at hx ⊢
      by_cases h1 : x = p
      · simp [h1] at hx
      · simp [h1] at hx; exact h.fresh x j hx
  | syncDir => exact ⟨h.inj, h.fresh⟩

theorem Fs.run_spec (s : Fs) (h : s.WF) (ops : List FsOp) :
    (s.run ops).WF ∧ (s.run ops).file = krun s.file ops := by
  induction ops generalizing s with
  | nil => exact ⟨h, rfl⟩
  | cons op ops ih =>
    have := ih (s.step op) (Fs.WF_step s h op)
    simp only [Fs.run, List.foldl_cons, krun] at this ⊢
    rw [← Fs.file_step s h op]
    exact this

theorem Fs.WF_empty : ({} : Fs).WF := ⟨by intro p q i h; simp [aget] at h, by intro p i h; simp [aget] at h⟩

/-- every name in an image is numbered below its bound -/
theorem Image.lt_bound (img : Image) (p : Path) (f : Inode) (h : Image.file img p = some f) :
    p.num < img.bound := by
  have hm := aget_mem p f img h
  unfold Image.bound
  have key : ∀ (l : List (Path × Inode)) (a : Nat), (p, f) ∈ l →
      p.num ≤ (l.map (fun x => x.1.num)).foldl max a := by
    intro l
    induction l with
    | nil => intro a h; simp at h
    | cons x xs ih =>
      intro a h
      simp only [List.map, List.foldl_cons]
      rcases List.mem_cons.mp h with h | h
      · subst h
        have mono : ∀ (l : List Nat) (a : Nat), a ≤ l.foldl max a := by
          intro l; induction l with
          | nil => intro a; simp
          | cons y ys ih2 => intro a; simp only [List.foldl_cons]; exact Nat.le_trans (Nat.le_max_left a y) (ih2 _)
        exact Nat.le_trans (Nat.le_max_right a _) (mono _ _)
      · exact ih _ h
  have := key img 0 hm
  omega

end Badger
