import BadgerProofs.Lemmas.TableSeek
/-!
`ConcatIterator` over tables that each satisfy `TableOK`.
-/
namespace Badger.Tbl
open Badger

/-- Entries from position `(j, r)` to the end of the table. -/
def restFwd (G : List (List Entry)) (j r : Nat) (g : List Entry) : List Entry :=
  g.drop r ++ (G.drop (j + 1)).flatten

/-- Entries from position `(j, r)` back to the start of the table, in reverse order. -/
def restRev (G : List (List Entry)) (j r : Nat) (g : List Entry) : List Entry :=
  ((G.take j).flatten ++ g.take (r + 1)).reverse

theorem drop_eq_cons_of_get {α : Type} {l : List α} {r : Nat} {e : α} (h : l[r]? = some e) :
    l.drop r = e :: l.drop (r + 1) := by
  have hr := lt_of_getElem?_some h
  rw [List.getElem?_eq_getElem hr] at h
  rw [List.drop_eq_getElem_cons hr, Option.some.inj h]

theorem next_global {env : Env} {t : TableCore} {G : List (List Entry)} (ok : TableOK env t G)
    (hne : ∀ g ∈ G, g ≠ []) {it : TIter} {j r : Nat} {g : List Entry} {e : Entry}
    (hat : At G it j r g e) :
    (∃ it' j' r' g' e', it.next env t = some it' ∧ it'.reversed = it.reversed ∧
      At G it' j' r' g' e' ∧ restFwd G j r g = e :: restFwd G j' r' g') ∨
    (∃ it', it.next env t = some it' ∧ it'.reversed = it.reversed ∧ it'.err = some .eof ∧
      restFwd G j r g = [e]) := by
  have hdrop := drop_eq_cons_of_get hat.gr
  have hr := lt_of_getElem?_some hat.gr
  rcases Nat.lt_or_ge (r + 1) g.length with hlt | hge
  · obtain ⟨e', he'⟩ := getElem?_some_of_lt g (r + 1) hlt
    obtain ⟨it', hnext, hat', hrev'⟩ := next_in_block ok hat he'
    exact Or.inl ⟨it', j, r + 1, g, e', hnext, hrev', hat', by simp [restFwd, hdrop]⟩
  · have hre : r + 1 = g.length := by omega
    have hnil : g.drop (r + 1) = [] := List.drop_of_length_le (by omega)
    rcases Nat.lt_or_ge (j + 1) G.length with hjl | hjg
    · obtain ⟨g', hg'⟩ := getElem?_some_of_lt G (j + 1) hjl
      have hg'ne := hne g' (List.mem_of_getElem? hg')
      obtain ⟨e', he'⟩ := getElem?_some_of_lt g' 0 (List.length_pos_iff.mpr hg'ne)
      obtain ⟨it', hnext, hat', hrev'⟩ := next_cross_block ok hat hre hg' he'
      refine Or.inl ⟨it', j + 1, 0, g', e', hnext, hrev', hat', ?_⟩
      simp [restFwd, hdrop, hnil, drop_flatten_of_get G (j + 1) g' hg']
    · have hje : j + 1 = G.length := by have := lt_of_getElem?_some hat.gj; omega
      obtain ⟨it', hnext, herr', hrev'⟩ := next_at_end ok hat hre hje
      refine Or.inr ⟨it', hnext, hrev', herr', ?_⟩
      simp [restFwd, hdrop, hnil, List.drop_of_length_le (show G.length ≤ j + 1 by omega)]

theorem prev_global_list {env : Env} {t : TableCore} {G : List (List Entry)} (ok : TableOK env t G)
    (hne : ∀ g ∈ G, g ≠ []) {it : TIter} {j r : Nat} {g : List Entry} {e : Entry}
    (hat : At G it j r g e) :
    (∃ it' j' r' g' e', it.prev env t = some it' ∧ it'.reversed = it.reversed ∧
      At G it' j' r' g' e' ∧ restRev G j r g = e :: restRev G j' r' g') ∨
    (∃ it', it.prev env t = some it' ∧ it'.reversed = it.reversed ∧ it'.err = some .eof ∧
      restRev G j r g = [e]) := by
  have htake : g.take (r + 1) = g.take r ++ [e] := by rw [List.take_succ, hat.gr]; rfl
  cases r with
  | succ r' =>
    obtain ⟨e', he'⟩ := getElem?_some_of_lt g r' (by have := lt_of_getElem?_some hat.gr; omega)
    obtain ⟨it', hprev, hat', hrev'⟩ := prev_in_block ok hat he'
    refine Or.inl ⟨it', j, r', g, e', hprev, hrev', hat', ?_⟩
    simp [restRev, htake]
  | zero =>
    cases j with
    | succ j' =>
      obtain ⟨g', hg'⟩ := getElem?_some_of_lt G j' (by have := lt_of_getElem?_some hat.gj; omega)
      have hg'pos := List.length_pos_iff.mpr (hne g' (List.mem_of_getElem? hg'))
      obtain ⟨e', he'⟩ := getElem?_some_of_lt g' (g'.length - 1) (by omega)
      obtain ⟨it', hprev, hat', hrev'⟩ := prev_cross_block ok hat hg' he'
      refine Or.inl ⟨it', j', g'.length - 1, g', e', hprev, hrev', hat', ?_⟩
      have htk : g'.take (g'.length - 1 + 1) = g' := List.take_of_length_le (by omega)
      simp [restRev, htake, htk, take_succ_flatten_of_get G j' g' hg']
    | zero =>
      obtain ⟨it', hprev, herr', hrev'⟩ := prev_at_start ok hat
      refine Or.inr ⟨it', hprev, hrev', herr', ?_⟩
      simp [restRev, htake]

/-! ## The concat iterator -/

/-- What is known about table `i` of a concat iterator. -/
structure TabOK (env : Env) (t : Table) (G : List (List Entry)) : Prop where
  ok : TableOK env t.core G
  ne : ∀ g ∈ G, g ≠ []
  Gne : G ≠ []
  exp : ∀ g ∈ G, ∀ e ∈ g, e.vs.expiresAt < 2 ^ 64

def TabsOK (env : Env) (ts : List Table) (Gs : List (List (List Entry))) : Prop :=
  ts.length = Gs.length ∧ ∀ (i : Nat) t G, ts[i]? = some t → Gs[i]? = some G → TabOK env t G

/-- The concat iterator is on table `i` with table iterator `it`. -/
structure CAt (ts : List Table) (s : CIter) (i : Nat) (it : TIter) : Prop where
  idx : s.idx = i
  cur : s.curNil = false
  len : s.iters.length = ts.length
  it : s.iters[i]? = some (some it)
  revs : ∀ (k : Nat) x, s.iters[k]? = some (some x) → x.reversed = s.reversed

theorem CAt.cur_eq {ts : List Table} {s : CIter} {i : Nat} {it : TIter} (h : CAt ts s i it) :
    s.cur = some it := by
  unfold CIter.cur
  simp only [h.cur, Bool.false_eq_true, if_false, h.idx, Int.toNat_natCast]
  rw [List.getD_eq_getElem?_getD, h.it]; rfl

theorem onCur_ok {ts : List Table} {s : CIter} {i : Nat} {it it' : TIter} {t : Table}
    (h : CAt ts s i it) (ht : ts[i]? = some t) (op : TableCore → TIter → Option TIter)
    (hop : op t.core it = some it') (hrev : it'.reversed = it.reversed) :
    s.onCur ts op = some (s.setCur it') ∧ CAt ts (s.setCur it') i it' ∧
      (s.setCur it').reversed = s.reversed := by
  have hi : i < s.iters.length := lt_of_getElem?_some h.it
  refine ⟨?_, ?_, rfl⟩
  · unfold CIter.onCur
    rw [h.cur_eq, h.idx]
    simp only [Int.toNat_natCast, ht, hop, Option.bind_some]
  · have hset : (s.setCur it').iters = s.iters.set i (some it') := by
      unfold CIter.setCur; rw [h.idx]; rfl
    refine ⟨h.idx, h.cur, ?_, ?_, ?_⟩
    · rw [hset]; simp [h.len]
    · rw [hset]; simp [hi]
    · intro k x hk
      rw [hset, List.getElem?_set] at hk
      split at hk
      · simp only [hi, if_true, Option.some.injEq] at hk
        rw [← hk, hrev]; exact h.revs i it h.it
      · exact h.revs k x hk

theorem setIdx_in_range {ts : List Table} {s : CIter} (hlen : s.iters.length = ts.length)
    (hrevs : ∀ (k : Nat) x, s.iters[k]? = some (some x) → x.reversed = s.reversed)
    (i : Nat) (hi : i < ts.length) :
    ∃ it0, CAt ts (s.setIdx (i : Int)) i it0 ∧ it0.reversed = s.reversed ∧
      (s.setIdx (i : Int)).reversed = s.reversed := by
  unfold CIter.setIdx
  have h1 : ¬ ((i : Int) < 0 ∨ (i : Int) ≥ ((s.iters.length : Nat) : Int)) := by omega
  simp only [h1, if_false, Int.toNat_natCast]
  have hil : i < s.iters.length := by omega
  cases hget : s.iters.getD i none with
  | none =>
    simp only [hget]
    refine ⟨{ reversed := s.reversed }, ⟨rfl, rfl, by simp [hlen], by simp [hil], ?_⟩, rfl, trivial⟩
    intro k x hk
    rw [List.getElem?_set] at hk
    split at hk
    · simp only [hil, if_true, Option.some.injEq] at hk
      rw [← hk]
    · exact hrevs k x hk
  | some it0 =>
    simp only [hget]
    have hget' : s.iters[i]? = some (some it0) := by
      rw [List.getD_eq_getElem?_getD] at hget
      rw [List.getElem?_eq_getElem hil] at hget ⊢
      simpa using hget
    exact ⟨it0, ⟨rfl, rfl, hlen, hget', hrevs⟩, hrevs i it0 hget', trivial⟩

theorem setIdx_out {s : CIter} (i : Int) (h : i < 0 ∨ i ≥ s.iters.length) :
    (s.setIdx i).cur = none := by
  unfold CIter.setIdx
  simp only [h, if_true]
  simp [CIter.cur]

/-- Forward `Next` of the concat iterator: either the next entry of the current table, or the
    first entry of the following table, or the end. -/
theorem cnext_fwd {env : Env} {ts : List Table} {Gs : List (List (List Entry))}
    (hts : TabsOK env ts Gs) {s : CIter} {i : Nat} {it : TIter} {t : Table} {G : List (List Entry)}
    {j r : Nat} {g : List Entry} {e : Entry}
    (hc : CAt ts s i it) (hfw : s.reversed = false) (ht : ts[i]? = some t) (hG : Gs[i]? = some G)
    (hat : At G it j r g e) :
    (∃ s' it' j' r' g' e', s.next env ts = some s' ∧ s'.reversed = false ∧ CAt ts s' i it' ∧
      At G it' j' r' g' e' ∧ restFwd G j r g = e :: restFwd G j' r' g') ∨
    (restFwd G j r g = [e] ∧
      ((∃ s' it' t' G' g' e', s.next env ts = some s' ∧ s'.reversed = false ∧ CAt ts s' (i + 1) it' ∧
          ts[i + 1]? = some t' ∧ Gs[i + 1]? = some G' ∧ At G' it' 0 0 g' e' ∧ G'[0]? = some g') ∨
       (i + 1 = ts.length ∧ ∃ s', s.next env ts = some s' ∧ s'.cur = none))) := by
  have tok := hts.2 i t G ht hG
  have hitrev : it.reversed = false := by rw [hc.revs i it hc.it, hfw]
  have hap : it.apiNext env t.core = it.next env t.core := by simp [TIter.apiNext, hitrev]
  unfold CIter.next
  rcases next_global tok.ok tok.ne hat with ⟨it', j', r', g', e', hnext, hrev', hat', hrest⟩ |
      ⟨it', hnext, hrev', herr', hrest⟩
  · obtain ⟨hon, hc', hsr⟩ := onCur_ok hc ht (fun t it => it.apiNext env t) (by simp only [hap, hnext]) hrev'
    rw [hon, Option.bind_some]
    have hvalid : (s.setCur it').valid = true := by
      unfold CIter.valid; rw [hc'.cur_eq]; simp [TIter.valid, hat'.err]
    simp only [hvalid, if_true]
    exact Or.inl ⟨_, it', j', r', g', e', rfl, by rw [hsr, hfw], hc', hat', hrest⟩
  · obtain ⟨hon, hc', hsr⟩ := onCur_ok hc ht (fun t it => it.apiNext env t) (by simp only [hap, hnext]) hrev'
    rw [hon, Option.bind_some]
    have hvalid : (s.setCur it').valid = false := by
      unfold CIter.valid; rw [hc'.cur_eq]; simp [TIter.valid, herr']
    simp only [hvalid, Bool.false_eq_true, if_false]
    refine Or.inr ⟨hrest, ?_⟩
    have hs'rev : (s.setCur it').reversed = false := by rw [hsr, hfw]
    simp only [CIter.nextLoop, hs'rev, Bool.not_false, if_true, hc'.idx]
    rcases Nat.lt_or_ge (i + 1) ts.length with hlt | hge
    · obtain ⟨it0, hc0, hrev0, hsr0⟩ := setIdx_in_range hc'.len hc'.revs (i + 1) hlt
      have hcast : ((i : Int) + 1) = ((i + 1 : Nat) : Int) := by omega
      rw [hcast]
      simp only [hc0.cur, Bool.false_eq_true, if_false]
      obtain ⟨t', ht'⟩ := getElem?_some_of_lt ts (i + 1) hlt
      obtain ⟨G', hG'⟩ := getElem?_some_of_lt Gs (i + 1) (by rw [← hts.1]; exact hlt)
      have tok' := hts.2 (i + 1) t' G' ht' hG'
      obtain ⟨g', hg'⟩ := getElem?_some_of_lt G' 0 (List.length_pos_iff.mpr tok'.Gne)
      obtain ⟨e', he'⟩ := getElem?_some_of_lt g' 0 (List.length_pos_iff.mpr (tok'.ne g' (List.mem_of_getElem? hg')))
      obtain ⟨it1, hrw, hat1, hrev1⟩ := seekToFirst_ok tok'.ok it0 g' e' hg' he'
      have hit0rev : it0.reversed = false := by rw [hrev0, hs'rev]
      have hrw' : it0.apiRewind env t'.core = some it1 := by simp [TIter.apiRewind, hit0rev, hrw]
      obtain ⟨hon1, hc1, hsr1⟩ := onCur_ok hc0 ht' (fun t it => it.apiRewind env t) hrw' hrev1
      rw [hon1, Option.bind_some]
      have hvalid1 : (((s.setCur it').setIdx ((i + 1 : Nat) : Int)).setCur it1).valid = true := by
        unfold CIter.valid; rw [hc1.cur_eq]; simp [TIter.valid, hat1.err]
      simp only [hvalid1, if_true]
      exact Or.inl ⟨_, it1, t', G', g', e', rfl, by rw [hsr1, hsr0, hs'rev], hc1, ht', hG', hat1, hg'⟩
    · have hout := setIdx_out (s := s.setCur it') ((i : Int) + 1) (Or.inr (by rw [hc'.len]; omega))
      have hnil : ((s.setCur it').setIdx ((i : Int) + 1)).curNil = true := by
        unfold CIter.setIdx
        have : ((i : Int) + 1 < 0 ∨ (i : Int) + 1 ≥ (((s.setCur it').iters.length : Nat) : Int)) :=
          Or.inr (by rw [hc'.len]; omega)
        simp [this]
      simp only [hnil, if_true]
      have hi := lt_of_getElem?_some ht
      exact Or.inr ⟨by omega, _, rfl, hout⟩

/-- Reverse `Next` of the concat iterator. -/
theorem cnext_rev {env : Env} {ts : List Table} {Gs : List (List (List Entry))}
    (hts : TabsOK env ts Gs) {s : CIter} {i : Nat} {it : TIter} {t : Table} {G : List (List Entry)}
    {j r : Nat} {g : List Entry} {e : Entry}
    (hc : CAt ts s i it) (hbw : s.reversed = true) (ht : ts[i]? = some t) (hG : Gs[i]? = some G)
    (hat : At G it j r g e) :
    (∃ s' it' j' r' g' e', s.next env ts = some s' ∧ s'.reversed = true ∧ CAt ts s' i it' ∧
      At G it' j' r' g' e' ∧ restRev G j r g = e :: restRev G j' r' g') ∨
    (restRev G j r g = [e] ∧
      ((∃ i' s' it' t' G' g' e', i = i' + 1 ∧ s.next env ts = some s' ∧ s'.reversed = true ∧
          CAt ts s' i' it' ∧ ts[i']? = some t' ∧ Gs[i']? = some G' ∧
          At G' it' (G'.length - 1) (g'.length - 1) g' e' ∧ G'[G'.length - 1]? = some g') ∨
       (i = 0 ∧ ∃ s', s.next env ts = some s' ∧ s'.cur = none))) := by
  have tok := hts.2 i t G ht hG
  have hitrev : it.reversed = true := by rw [hc.revs i it hc.it, hbw]
  have hap : it.apiNext env t.core = it.prev env t.core := by simp [TIter.apiNext, hitrev]
  unfold CIter.next
  rcases prev_global_list tok.ok tok.ne hat with ⟨it', j', r', g', e', hnext, hrev', hat', hrest⟩ |
      ⟨it', hnext, hrev', herr', hrest⟩
  · obtain ⟨hon, hc', hsr⟩ := onCur_ok hc ht (fun t it => it.apiNext env t) (by simp only [hap, hnext]) hrev'
    rw [hon, Option.bind_some]
    have hvalid : (s.setCur it').valid = true := by
      unfold CIter.valid; rw [hc'.cur_eq]; simp [TIter.valid, hat'.err]
    simp only [hvalid, if_true]
    exact Or.inl ⟨_, it', j', r', g', e', rfl, by rw [hsr, hbw], hc', hat', hrest⟩
  · obtain ⟨hon, hc', hsr⟩ := onCur_ok hc ht (fun t it => it.apiNext env t) (by simp only [hap, hnext]) hrev'
    rw [hon, Option.bind_some]
    have hvalid : (s.setCur it').valid = false := by
      unfold CIter.valid; rw [hc'.cur_eq]; simp [TIter.valid, herr']
    simp only [hvalid, Bool.false_eq_true, if_false]
    refine Or.inr ⟨hrest, ?_⟩
    have hs'rev : (s.setCur it').reversed = true := by rw [hsr, hbw]
    simp only [CIter.nextLoop, hs'rev, Bool.not_true, Bool.false_eq_true, if_false, hc'.idx]
    have hil := lt_of_getElem?_some ht
    cases i with
    | succ i' =>
      obtain ⟨it0, hc0, hrev0, hsr0⟩ := setIdx_in_range hc'.len hc'.revs i' (by omega)
      have hcast : (((i' + 1 : Nat) : Int) - 1) = (i' : Int) := by omega
      rw [hcast]
      simp only [hc0.cur, Bool.false_eq_true, if_false]
      obtain ⟨t', ht'⟩ := getElem?_some_of_lt ts i' (by omega)
      obtain ⟨G', hG'⟩ := getElem?_some_of_lt Gs i' (by rw [← hts.1]; omega)
      have tok' := hts.2 i' t' G' ht' hG'
      have hG'pos := List.length_pos_iff.mpr tok'.Gne
      obtain ⟨g', hg'⟩ := getElem?_some_of_lt G' (G'.length - 1) (by omega)
      have hg'pos := List.length_pos_iff.mpr (tok'.ne g' (List.mem_of_getElem? hg'))
      obtain ⟨e', he'⟩ := getElem?_some_of_lt g' (g'.length - 1) (by omega)
      obtain ⟨it1, hrw, hat1, hrev1⟩ := seekToLast_ok tok'.ok it0 g' e' hg' he'
      have hit0rev : it0.reversed = true := by rw [hrev0, hs'rev]
      have hrw' : it0.apiRewind env t'.core = some it1 := by simp [TIter.apiRewind, hit0rev, hrw]
      obtain ⟨hon1, hc1, hsr1⟩ := onCur_ok hc0 ht' (fun t it => it.apiRewind env t) hrw' hrev1
      rw [hon1, Option.bind_some]
      have hvalid1 : (((s.setCur it').setIdx (i' : Int)).setCur it1).valid = true := by
        unfold CIter.valid; rw [hc1.cur_eq]; simp [TIter.valid, hat1.err]
      simp only [hvalid1, if_true]
      exact Or.inl ⟨i', _, it1, t', G', g', e', rfl, rfl, by rw [hsr1, hsr0, hs'rev], hc1, ht', hG', hat1, hg'⟩
    | zero =>
      have hout := setIdx_out (s := s.setCur it') (((0 : Nat) : Int) - 1) (Or.inl (by omega))
      have hnil : ((s.setCur it').setIdx (((0 : Nat) : Int) - 1)).curNil = true := by
        unfold CIter.setIdx
        have : ((((0 : Nat) : Int) - 1 < 0) ∨ ((0 : Nat) : Int) - 1 ≥ (((s.setCur it').iters.length : Nat) : Int)) :=
          Or.inl (by omega)
        simp [this]
      simp only [hnil, if_true]
      exact Or.inr ⟨trivial, _, rfl, hout⟩

/-! ## scans -/

def flatAll (Gs : List (List (List Entry))) : List Entry := (Gs.map List.flatten).flatten

theorem cscan_done (env : Env) (ts : List Table) (fuel : Nat) (s : CIter) (h : s.cur = none) :
    CIter.scan env ts fuel s = some [] := by
  cases fuel with
  | zero => rfl
  | succ f => simp [CIter.scan, CIter.valid, h]

theorem restFwd_zero {G : List (List Entry)} {g : List Entry} (hg : G[0]? = some g) :
    restFwd G 0 0 g = G.flatten := by
  have := drop_flatten_of_get G 0 g hg
  simp only [List.drop_zero, Nat.zero_add] at this
  simp [restFwd, this]

theorem restRev_last {G : List (List Entry)} {g : List Entry} (hne : g ≠ [])
    (hg : G[G.length - 1]? = some g) :
    restRev G (G.length - 1) (g.length - 1) g = G.flatten.reverse := by
  have hl := lt_of_getElem?_some hg
  have hgpos := List.length_pos_iff.mpr hne
  have hsplit := take_succ_flatten_of_get G (G.length - 1) g hg
  have h1 : G.length - 1 + 1 = G.length := by omega
  rw [h1, List.take_length] at hsplit
  have htk : g.take (g.length - 1 + 1) = g := List.take_of_length_le (by omega)
  simp [restRev, htk, ← hsplit]

theorem cscan_fwd {env : Env} {ts : List Table} {Gs : List (List (List Entry))}
    (hts : TabsOK env ts Gs) :
    ∀ (n : Nat) (s : CIter) (i : Nat) (it : TIter) (t : Table) (G : List (List Entry))
      (j r : Nat) (g : List Entry) (e : Entry),
      CAt ts s i it → s.reversed = false → ts[i]? = some t → Gs[i]? = some G → At G it j r g e →
      (restFwd G j r g ++ flatAll (Gs.drop (i + 1))).length = n → ∀ fuel, n < fuel →
      CIter.scan env ts fuel s = some (restFwd G j r g ++ flatAll (Gs.drop (i + 1))) := by
  intro n
  induction n using Nat.strongRecOn with
  | _ n ih =>
    intro s i it t G j r g e hc hfw ht hG hat hlen fuel hfuel
    have tok := hts.2 i t G ht hG
    have hgm : g ∈ G := List.mem_of_getElem? hat.gj
    have hem : e ∈ g := List.mem_of_getElem? hat.gr
    obtain ⟨hv, hd, hent⟩ := at_entry hat (tok.exp g hgm e hem)
    obtain ⟨f, rfl⟩ : ∃ f, fuel = f + 1 := ⟨fuel - 1, by omega⟩
    have hsvalid : s.valid = true := by unfold CIter.valid; rw [hc.cur_eq]; exact hv
    simp only [CIter.scan, hsvalid, if_true, hc.cur_eq, hd, Option.bind_some]
    rw [hent]
    rcases cnext_fwd hts hc hfw ht hG hat with
      ⟨s', it', j', r', g', e', hnext, hrev', hc', hat', hrest⟩ | ⟨hrest, hcase⟩
    · rw [hnext, Option.bind_some, hrest]
      rw [hrest] at hlen
      simp only [List.cons_append, List.length_cons] at hlen
      rw [ih _ (by omega) s' i it' t G j' r' g' e' hc' hrev' ht hG hat' rfl f (by omega)]
      rfl
    · rw [hrest]
      rw [hrest] at hlen
      simp only [List.cons_append, List.nil_append, List.length_cons] at hlen ⊢
      rcases hcase with ⟨s', it', t', G', g', e', hnext, hrev', hc', ht', hG', hat', hg'⟩ | ⟨hend, s', hnext, hcur⟩
      · have hsplit : flatAll (Gs.drop (i + 1)) = restFwd G' 0 0 g' ++ flatAll (Gs.drop (i + 1 + 1)) := by
          unfold flatAll
          rw [List.drop_eq_getElem_cons (lt_of_getElem?_some hG')]
          have : Gs[i + 1]'(lt_of_getElem?_some hG') = G' := by
            have h := hG'
            rw [List.getElem?_eq_getElem (lt_of_getElem?_some hG')] at h
            exact Option.some.inj h
          rw [this, restFwd_zero hg']
          simp
        rw [hnext, Option.bind_some, hsplit]
        rw [hsplit] at hlen
        rw [ih _ (by omega) s' (i + 1) it' t' G' 0 0 g' e' hc' hrev' ht' hG' hat' rfl f (by omega)]
        rfl
      · have hnil : flatAll (Gs.drop (i + 1)) = [] := by
          unfold flatAll
          rw [List.drop_of_length_le (by rw [← hts.1]; omega)]; rfl
        rw [hnext, Option.bind_some, cscan_done env ts f s' hcur, hnil]
        rfl

theorem cscan_rev {env : Env} {ts : List Table} {Gs : List (List (List Entry))}
    (hts : TabsOK env ts Gs) :
    ∀ (n : Nat) (s : CIter) (i : Nat) (it : TIter) (t : Table) (G : List (List Entry))
      (j r : Nat) (g : List Entry) (e : Entry),
      CAt ts s i it → s.reversed = true → ts[i]? = some t → Gs[i]? = some G → At G it j r g e →
      (restRev G j r g ++ (flatAll (Gs.take i)).reverse).length = n → ∀ fuel, n < fuel →
      CIter.scan env ts fuel s = some (restRev G j r g ++ (flatAll (Gs.take i)).reverse) := by
  intro n
  induction n using Nat.strongRecOn with
  | _ n ih =>
    intro s i it t G j r g e hc hbw ht hG hat hlen fuel hfuel
    have tok := hts.2 i t G ht hG
    have hgm : g ∈ G := List.mem_of_getElem? hat.gj
    have hem : e ∈ g := List.mem_of_getElem? hat.gr
    obtain ⟨hv, hd, hent⟩ := at_entry hat (tok.exp g hgm e hem)
    obtain ⟨f, rfl⟩ : ∃ f, fuel = f + 1 := ⟨fuel - 1, by omega⟩
    have hsvalid : s.valid = true := by unfold CIter.valid; rw [hc.cur_eq]; exact hv
    simp only [CIter.scan, hsvalid, if_true, hc.cur_eq, hd, Option.bind_some]
    rw [hent]
    rcases cnext_rev hts hc hbw ht hG hat with
      ⟨s', it', j', r', g', e', hnext, hrev', hc', hat', hrest⟩ | ⟨hrest, hcase⟩
    · rw [hnext, Option.bind_some, hrest]
      rw [hrest] at hlen
      simp only [List.cons_append, List.length_cons] at hlen
      rw [ih _ (by omega) s' i it' t G j' r' g' e' hc' hrev' ht hG hat' rfl f (by omega)]
      rfl
    · rw [hrest]
      rw [hrest] at hlen
      simp only [List.cons_append, List.nil_append, List.length_cons] at hlen ⊢
      rcases hcase with ⟨i', s', it', t', G', g', e', hi, hnext, hrev', hc', ht', hG', hat', hg'⟩ | ⟨h0, s', hnext, hcur⟩
      · subst hi
        have tok' := hts.2 i' t' G' ht' hG'
        have hsplit : (flatAll (Gs.take (i' + 1))).reverse =
            restRev G' (G'.length - 1) (g'.length - 1) g' ++ (flatAll (Gs.take i')).reverse := by
          unfold flatAll
          rw [List.take_succ, hG']
          rw [restRev_last (tok'.ne g' (List.mem_of_getElem? hg')) hg']
          simp
        rw [hnext, Option.bind_some, hsplit]
        rw [hsplit] at hlen
        rw [ih _ (by omega) s' i' it' t' G' _ _ g' e' hc' hrev' ht' hG' hat' rfl f (by omega)]
        rfl
      · subst h0
        rw [hnext, Option.bind_some, cscan_done env ts f s' hcur]
        rfl

/-- `Rewind` then scan, both directions. -/
theorem concatEntries_ok {env : Env} {ts : List Table} {Gs : List (List (List Entry))}
    (hts : TabsOK env ts Gs) (fuel : Nat) (hfuel : (flatAll Gs).length < fuel) :
    concatEntries env ts false fuel = some (flatAll Gs) ∧
    concatEntries env ts true fuel = some (flatAll Gs).reverse := by
  unfold concatEntries CIter.rewind
  have hlen0 : ∀ rev, (newConcat ts rev).iters.length = ts.length := by intro rev; simp [newConcat]
  have hrevs0 : ∀ rev (k : Nat) x, (newConcat ts rev).iters[k]? = some (some x) → x.reversed = (newConcat ts rev).reversed := by
    intro rev k x hk
    simp only [newConcat, List.getElem?_map] at hk
    cases h : ts[k]? with
    | none => simp [h] at hk
    | some _ => simp [h] at hk
  cases hts0 : ts with
  | nil =>
    have hGs : Gs = [] := by
      have := hts.1; rw [hts0] at this
      exact List.eq_nil_of_length_eq_zero this.symm
    subst hGs
    simp [newConcat, flatAll, CIter.scan]
    constructor <;> (cases fuel <;> simp [CIter.scan, CIter.valid, CIter.cur])
  | cons t0 trest =>
    rw [← hts0]
    have hpos : 0 < ts.length := by rw [hts0]; simp
    have hne0 : ∀ rev, ¬ ((newConcat ts rev).iters.length = 0) := by intro rev; rw [hlen0]; omega
    constructor
    · simp only [hne0, if_false]
      have hrv : (newConcat ts false).reversed = false := rfl
      simp only [hrv, Bool.not_false, if_true]
      obtain ⟨it0, hc0, hrev0, hsr0⟩ := setIdx_in_range (hlen0 false) (hrevs0 false) 0 hpos
      obtain ⟨t, ht⟩ := getElem?_some_of_lt ts 0 hpos
      obtain ⟨G, hG⟩ := getElem?_some_of_lt Gs 0 (by rw [← hts.1]; exact hpos)
      have tok := hts.2 0 t G ht hG
      obtain ⟨g, hg⟩ := getElem?_some_of_lt G 0 (List.length_pos_iff.mpr tok.Gne)
      obtain ⟨e, he⟩ := getElem?_some_of_lt g 0 (List.length_pos_iff.mpr (tok.ne g (List.mem_of_getElem? hg)))
      obtain ⟨it1, hrw, hat1, hrev1⟩ := seekToFirst_ok tok.ok it0 g e hg he
      have hit0rev : it0.reversed = false := by rw [hrev0]; rfl
      have hrw' : it0.apiRewind env t.core = some it1 := by simp [TIter.apiRewind, hit0rev, hrw]
      obtain ⟨hon1, hc1, hsr1⟩ := onCur_ok hc0 ht (fun t it => it.apiRewind env t) hrw' hrev1
      rw [show ((0 : Int)) = ((0 : Nat) : Int) from rfl, hon1, Option.bind_some]
      have hsplit : flatAll Gs = restFwd G 0 0 g ++ flatAll (Gs.drop (0 + 1)) := by
        unfold flatAll
        conv => lhs; rw [← List.drop_zero (l := Gs), List.drop_eq_getElem_cons (lt_of_getElem?_some hG)]
        have : Gs[0]'(lt_of_getElem?_some hG) = G := by
          have h := hG
          rw [List.getElem?_eq_getElem (lt_of_getElem?_some hG)] at h
          exact Option.some.inj h
        rw [this, restFwd_zero hg]
        simp
      rw [hsplit]
      exact cscan_fwd hts _ _ 0 it1 t G 0 0 g e hc1 (by rw [hsr1, hsr0]; rfl) ht hG hat1 rfl fuel
        (by rw [← hsplit]; exact hfuel)
    · simp only [hne0, if_false]
      have hrv : (newConcat ts true).reversed = true := rfl
      simp only [hrv, Bool.not_true, Bool.false_eq_true, if_false]
      have hlast : (((newConcat ts true).iters.length : Int) - 1) = ((ts.length - 1 : Nat) : Int) := by
        rw [hlen0]; omega
      rw [hlast]
      obtain ⟨it0, hc0, hrev0, hsr0⟩ := setIdx_in_range (hlen0 true) (hrevs0 true) (ts.length - 1) (by omega)
      obtain ⟨t, ht⟩ := getElem?_some_of_lt ts (ts.length - 1) (by omega)
      obtain ⟨G, hG⟩ := getElem?_some_of_lt Gs (ts.length - 1) (by rw [← hts.1]; omega)
      have tok := hts.2 _ t G ht hG
      have hGpos := List.length_pos_iff.mpr tok.Gne
      obtain ⟨g, hg⟩ := getElem?_some_of_lt G (G.length - 1) (by omega)
      have hgne := tok.ne g (List.mem_of_getElem? hg)
      have hgpos := List.length_pos_iff.mpr hgne
      obtain ⟨e, he⟩ := getElem?_some_of_lt g (g.length - 1) (by omega)
      obtain ⟨it1, hrw, hat1, hrev1⟩ := seekToLast_ok tok.ok it0 g e hg he
      have hit0rev : it0.reversed = true := by rw [hrev0]; rfl
      have hrw' : it0.apiRewind env t.core = some it1 := by simp [TIter.apiRewind, hit0rev, hrw]
      obtain ⟨hon1, hc1, hsr1⟩ := onCur_ok hc0 ht (fun t it => it.apiRewind env t) hrw' hrev1
      rw [hon1, Option.bind_some]
      have hsplit : (flatAll Gs).reverse =
          restRev G (G.length - 1) (g.length - 1) g ++ (flatAll (Gs.take (ts.length - 1))).reverse := by
        unfold flatAll
        have h1 : Gs = Gs.take (ts.length - 1) ++ [G] := by
          have hl : ts.length - 1 + 1 = Gs.length := by rw [← hts.1]; omega
          have := List.take_succ (l := Gs) (i := ts.length - 1)
          rw [hG, hl, List.take_length] at this
          simpa using this
        conv => lhs; rw [h1]
        rw [restRev_last hgne hg]
        simp
      rw [hsplit]
      exact cscan_rev hts _ _ _ it1 t G _ _ g e hc1 (by rw [hsr1, hsr0]; rfl) ht hG hat1 rfl fuel
        (by rw [← hsplit]; simpa using hfuel)

end Badger.Tbl
