import BadgerModel.Bytes
namespace Badger

@[simp] theorem beBytes_length (n k : Nat) : (beBytes n k).length = k := by
  induction k generalizing n with
  | zero => rfl
  | succ k ih => simp [beBytes, ih]

@[simp] theorem leBytes_length (n k : Nat) : (leBytes n k).length = k := by
  induction k generalizing n with
  | zero => rfl
  | succ k ih => simp [leBytes, ih]

theorem u8_ofNat_toNat (x : Nat) (h : x < 256) : (UInt8.ofNat x).toNat = x := by
  simp [UInt8.toNat_ofNat']; omega

theorem beNat_beBytes (n k : Nat) (h : n < 256 ^ k) : beNat (beBytes n k) = n := by
  induction k generalizing n with
  | zero => simp at h; simp [beBytes, beNat, h]
  | succ k ih =>
    have hp : 0 < 256 ^ k := Nat.pow_pos (by decide)
    have h1 : n / 256 ^ k < 256 := by
      rw [Nat.div_lt_iff_lt_mul hp]; rw [Nat.pow_succ] at h; omega
    have h2 : n % 256 ^ k < 256 ^ k := Nat.mod_lt _ hp
    simp only [beBytes, beNat, beBytes_length]
    rw [ih _ h2, u8_ofNat_toNat _ (by rw [Nat.mod_eq_of_lt h1]; exact h1), Nat.mod_eq_of_lt h1]
    exact Nat.div_add_mod' n (256 ^ k)

theorem leNat_leBytes (n k : Nat) (h : n < 256 ^ k) : leNat (leBytes n k) = n := by
  induction k generalizing n with
  | zero => simp at h; simp [leBytes, leNat, h]
  | succ k ih =>
    have h1 : n / 256 < 256 ^ k := by
      rw [Nat.div_lt_iff_lt_mul (by decide)]; rw [Nat.pow_succ] at h; omega
    simp only [leBytes, leNat]
    rw [ih _ h1, u8_ofNat_toNat _ (Nat.mod_lt _ (by decide))]
    omega

theorem cmpBytes_refl (a : Bytes) : cmpBytes a a = .eq := by
  induction a with
  | nil => rfl
  | cons x xs ih => simp [cmpBytes, ih]

theorem cmpBytes_eq_iff (a b : Bytes) : cmpBytes a b = .eq ↔ a = b := by
  induction a generalizing b with
  | nil => cases b <;> simp [cmpBytes]
  | cons x xs ih =>
    cases b with
    | nil => simp [cmpBytes]
    | cons y ys =>
      simp only [cmpBytes]
      split
      · simp; intro h; subst h; omega
      · split
        · simp; intro h; subst h; omega
        · rw [ih]; simp
          intro _
          apply UInt8.toNat_inj.mp; omega

theorem cmpBytes_swap (a b : Bytes) : (cmpBytes a b).swap = cmpBytes b a := by
  induction a generalizing b with
  | nil => cases b <;> rfl
  | cons x xs ih =>
    cases b with
    | nil => rfl
    | cons y ys =>
      simp only [cmpBytes]
      split
      · have : ¬ y.toNat < x.toNat := by omega
        simp [*]
      · split
        · rfl
        · exact ih ys

/-- Big-endian encodings of equal width compare like the numbers. -/
theorem cmpBytes_beBytes (n m k : Nat) (hn : n < 256 ^ k) (hm : m < 256 ^ k) :
    cmpBytes (beBytes n k) (beBytes m k) = compare n m := by
  induction k generalizing n m with
  | zero =>
    simp at hn hm; subst hn; subst hm; simp [beBytes, cmpBytes]
  | succ k ih =>
    have hp : 0 < 256 ^ k := Nat.pow_pos (by decide)
    have h1 : n / 256 ^ k < 256 := by
      rw [Nat.div_lt_iff_lt_mul hp]; rw [Nat.pow_succ] at hn; omega
    have h2 : m / 256 ^ k < 256 := by
      rw [Nat.div_lt_iff_lt_mul hp]; rw [Nat.pow_succ] at hm; omega
    have hn2 : n % 256 ^ k < 256 ^ k := Nat.mod_lt _ hp
    have hm2 : m % 256 ^ k < 256 ^ k := Nat.mod_lt _ hp
    have en := Nat.div_add_mod' n (256 ^ k)
    have em := Nat.div_add_mod' m (256 ^ k)
    simp only [beBytes, cmpBytes]
    rw [u8_ofNat_toNat _ (by rw [Nat.mod_eq_of_lt h1]; exact h1), Nat.mod_eq_of_lt h1,
        u8_ofNat_toNat _ (by rw [Nat.mod_eq_of_lt h2]; exact h2), Nat.mod_eq_of_lt h2]
    split
    · rename_i hlt
      have : n < m := by
        have : (n / 256 ^ k + 1) * 256 ^ k ≤ m / 256 ^ k * 256 ^ k := Nat.mul_le_mul_right _ hlt
        rw [Nat.add_mul] at this; omega
      simp [Nat.compare_eq_lt.mpr this]
    · split
      · rename_i _ hlt
        have : m < n := by
          have : (m / 256 ^ k + 1) * 256 ^ k ≤ n / 256 ^ k * 256 ^ k := Nat.mul_le_mul_right _ hlt
          rw [Nat.add_mul] at this; omega
        simp [Nat.compare_eq_gt.mpr this]
      · have he : n / 256 ^ k = m / 256 ^ k := by omega
        rw [ih _ _ hn2 hm2]
        rw [he] at en
        rcases Nat.lt_trichotomy (n % 256 ^ k) (m % 256 ^ k) with h | h | h
        · rw [Nat.compare_eq_lt.mpr h, Nat.compare_eq_lt.mpr (by omega)]
        · rw [Nat.compare_eq_eq.mpr h, Nat.compare_eq_eq.mpr (by omega)]
        · rw [Nat.compare_eq_gt.mpr h, Nat.compare_eq_gt.mpr (by omega)]

end Badger
