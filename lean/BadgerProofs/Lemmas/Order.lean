import BadgerModel.Lsm
import BadgerProofs.Lemmas.Bytes
/-!
# `kvCmp` / `entCmp` is a strict total order on `(user key, version)` pairs

User key ascending (`cmpBytes`), then version descending. Self-contained (only
`Lemmas/Bytes.lean`); the names are chosen not to clash with `Lemmas/IterOrder.lean`.
-/
namespace Badger

/-! ## `cmpBytes` -/

theorem cmpBytes_lt_trans {a b c : Bytes} (h1 : cmpBytes a b = .lt) (h2 : cmpBytes b c = .lt) :
    cmpBytes a c = .lt := by
  induction a generalizing b c with
  | nil =>
    cases b with
    | nil => simp [cmpBytes] at h1
    | cons y ys => cases c with
      | nil => simp [cmpBytes] at h2
      | cons z zs => simp [cmpBytes]
  | cons x xs ih =>
    cases b with
    | nil => simp [cmpBytes] at h1
    | cons y ys =>
      cases c with
      | nil => simp [cmpBytes] at h2
      | cons z zs =>
        simp only [cmpBytes] at h1 h2 ⊢
        split at h1
        · split at h2
          · rw [if_pos (by omega)]
          · split at h2
            · cases h2
            · rw [if_pos (by omega)]
        · split at h1
          · cases h1
          · split at h2
            · rw [if_pos (by omega)]
            · split at h2
              · cases h2
              · rw [if_neg (by omega), if_neg (by omega)]
                exact ih h1 h2

theorem cmpBytes_gt_iff_lt (a b : Bytes) : cmpBytes a b = .gt ↔ cmpBytes b a = .lt := by
  rw [← cmpBytes_swap a b]; cases cmpBytes a b <;> simp [Ordering.swap]

theorem cmpBytes_lt_iff_gt (a b : Bytes) : cmpBytes a b = .lt ↔ cmpBytes b a = .gt := by
  rw [← cmpBytes_swap a b]; cases cmpBytes a b <;> simp [Ordering.swap]

theorem cmpBytes_lt_irrefl (a : Bytes) : cmpBytes a a ≠ .lt := by rw [cmpBytes_refl]; simp

theorem cmpBytes_lt_asymm {a b : Bytes} (h : cmpBytes a b = .lt) : cmpBytes b a ≠ .lt := by
  rw [← cmpBytes_swap a b, h]; simp [Ordering.swap]

theorem cmpBytes_lt_ne {a b : Bytes} (h : cmpBytes a b = .lt) : a ≠ b := by
  intro e; subst e; exact cmpBytes_lt_irrefl a h

theorem cmpBytes_gt_trans {a b c : Bytes} (h1 : cmpBytes a b = .gt) (h2 : cmpBytes b c = .gt) :
    cmpBytes a c = .gt := by
  rw [cmpBytes_gt_iff_lt] at *; exact cmpBytes_lt_trans h2 h1

/-- `≤` is antisymmetric. -/
theorem cmpBytes_antisymm {a b : Bytes} (h1 : cmpBytes a b ≠ .gt) (h2 : cmpBytes b a ≠ .gt) :
    a = b := by
  cases h : cmpBytes a b with
  | eq => exact (cmpBytes_eq_iff a b).mp h
  | gt => exact absurd h h1
  | lt => exact absurd ((cmpBytes_lt_iff_gt a b).mp h) h2

/-- `≤` is transitive. -/
theorem cmpBytes_le_trans {a b c : Bytes} (h1 : cmpBytes a b ≠ .gt) (h2 : cmpBytes b c ≠ .gt) :
    cmpBytes a c ≠ .gt := by
  intro h3
  cases hab : cmpBytes a b with
  | gt => exact h1 hab
  | eq =>
    have := (cmpBytes_eq_iff a b).mp hab; subst this; exact h2 h3
  | lt =>
    cases hbc : cmpBytes b c with
    | gt => exact h2 hbc
    | eq => have := (cmpBytes_eq_iff b c).mp hbc; subst this; rw [hab] at h3; cases h3
    | lt => rw [cmpBytes_lt_trans hab hbc] at h3; cases h3

/-! ## `kvCmp` -/

theorem kvCmp_lt_iff (k1 : Bytes) (v1 : Nat) (k2 : Bytes) (v2 : Nat) :
    kvCmp k1 v1 k2 v2 = .lt ↔ cmpBytes k1 k2 = .lt ∨ (k1 = k2 ∧ v2 < v1) := by
  unfold kvCmp
  cases h : cmpBytes k1 k2 with
  | lt => simp
  | gt => simp; intro e; subst e; rw [cmpBytes_refl] at h; cases h
  | eq =>
    have := (cmpBytes_eq_iff k1 k2).mp h
    simp [this, Nat.compare_eq_lt]

theorem kvCmp_gt_iff (k1 : Bytes) (v1 : Nat) (k2 : Bytes) (v2 : Nat) :
    kvCmp k1 v1 k2 v2 = .gt ↔ cmpBytes k1 k2 = .gt ∨ (k1 = k2 ∧ v1 < v2) := by
  unfold kvCmp
  cases h : cmpBytes k1 k2 with
  | gt => simp
  | lt => simp; intro e; subst e; rw [cmpBytes_refl] at h; cases h
  | eq =>
    have := (cmpBytes_eq_iff k1 k2).mp h
    simp [this, Nat.compare_eq_gt]

theorem kvCmp_eq_iff (k1 : Bytes) (v1 : Nat) (k2 : Bytes) (v2 : Nat) :
    kvCmp k1 v1 k2 v2 = .eq ↔ k1 = k2 ∧ v1 = v2 := by
  unfold kvCmp
  cases h : cmpBytes k1 k2 with
  | gt => simp; intro e; subst e; rw [cmpBytes_refl] at h; cases h
  | lt => simp; intro e; subst e; rw [cmpBytes_refl] at h; cases h
  | eq =>
    have := (cmpBytes_eq_iff k1 k2).mp h
    simp only [this, true_and]
    rw [Nat.compare_eq_eq]; exact eq_comm

theorem kvCmp_swap (k1 : Bytes) (v1 : Nat) (k2 : Bytes) (v2 : Nat) :
    (kvCmp k1 v1 k2 v2).swap = kvCmp k2 v2 k1 v1 := by
  unfold kvCmp
  rw [← cmpBytes_swap k1 k2]
  cases cmpBytes k1 k2 <;> simp only [Ordering.swap]
  exact Nat.compare_swap v2 v1

theorem kvCmp_refl (k : Bytes) (v : Nat) : kvCmp k v k v = .eq := (kvCmp_eq_iff _ _ _ _).mpr ⟨rfl, rfl⟩

theorem kvCmp_lt_trans {k1 k2 k3 : Bytes} {v1 v2 v3 : Nat}
    (h1 : kvCmp k1 v1 k2 v2 = .lt) (h2 : kvCmp k2 v2 k3 v3 = .lt) : kvCmp k1 v1 k3 v3 = .lt := by
  rw [kvCmp_lt_iff] at *
  rcases h1 with h1 | ⟨e1, h1⟩ <;> rcases h2 with h2 | ⟨e2, h2⟩
  · exact .inl (cmpBytes_lt_trans h1 h2)
  · subst e2; exact .inl h1
  · subst e1; exact .inl h2
  · subst e1; subst e2; exact .inr ⟨rfl, by omega⟩

theorem kvCmp_gt_iff_lt (k1 : Bytes) (v1 : Nat) (k2 : Bytes) (v2 : Nat) :
    kvCmp k1 v1 k2 v2 = .gt ↔ kvCmp k2 v2 k1 v1 = .lt := by
  rw [← kvCmp_swap k1 v1 k2 v2]; cases kvCmp k1 v1 k2 v2 <;> simp [Ordering.swap]

theorem kvCmp_lt_iff_gt (k1 : Bytes) (v1 : Nat) (k2 : Bytes) (v2 : Nat) :
    kvCmp k1 v1 k2 v2 = .lt ↔ kvCmp k2 v2 k1 v1 = .gt := by
  rw [← kvCmp_swap k1 v1 k2 v2]; cases kvCmp k1 v1 k2 v2 <;> simp [Ordering.swap]

/-! ## `entCmp` -/

theorem entCmp_lt_iff (a b : Ent) :
    entCmp a b = .lt ↔ cmpBytes a.key b.key = .lt ∨ (a.key = b.key ∧ b.ver < a.ver) :=
  kvCmp_lt_iff _ _ _ _

theorem entCmp_gt_iff (a b : Ent) :
    entCmp a b = .gt ↔ cmpBytes a.key b.key = .gt ∨ (a.key = b.key ∧ a.ver < b.ver) :=
  kvCmp_gt_iff _ _ _ _

/-- `entCmp` identifies exactly the entries with the same user key and version. -/
theorem entCmp_eq_iff (a b : Ent) : entCmp a b = .eq ↔ a.key = b.key ∧ a.ver = b.ver :=
  kvCmp_eq_iff _ _ _ _

theorem entCmp_refl (a : Ent) : entCmp a a = .eq := kvCmp_refl _ _

theorem entCmp_swap (a b : Ent) : (entCmp a b).swap = entCmp b a := kvCmp_swap _ _ _ _

theorem entCmp_lt_trans {a b c : Ent} (h1 : entCmp a b = .lt) (h2 : entCmp b c = .lt) :
    entCmp a c = .lt := kvCmp_lt_trans h1 h2

theorem entCmp_gt_iff_lt (a b : Ent) : entCmp a b = .gt ↔ entCmp b a = .lt := kvCmp_gt_iff_lt _ _ _ _

theorem entCmp_lt_iff_gt (a b : Ent) : entCmp a b = .lt ↔ entCmp b a = .gt := kvCmp_lt_iff_gt _ _ _ _

theorem entCmp_gt_trans {a b c : Ent} (h1 : entCmp a b = .gt) (h2 : entCmp b c = .gt) :
    entCmp a c = .gt := by
  rw [entCmp_gt_iff_lt] at *; exact entCmp_lt_trans h2 h1

theorem entCmp_lt_irrefl (a : Ent) : entCmp a a ≠ .lt := by rw [entCmp_refl]; simp

theorem entCmp_lt_asymm {a b : Ent} (h : entCmp a b = .lt) : entCmp b a ≠ .lt := by
  rw [← entCmp_swap a b, h]; simp [Ordering.swap]

theorem entCmp_lt_ne {a b : Ent} (h : entCmp a b = .lt) : a ≠ b := by
  intro e; subst e; exact entCmp_lt_irrefl a h

theorem entCmp_eq_symm {a b : Ent} (h : entCmp a b = .eq) : entCmp b a = .eq := by
  rw [entCmp_eq_iff] at *; exact ⟨h.1.symm, h.2.symm⟩

/-- `entCmp` only looks at `(key, ver)`: congruence in the left argument. -/
theorem entCmp_congr_left {a b : Ent} (h : entCmp a b = .eq) (c : Ent) : entCmp a c = entCmp b c := by
  rw [entCmp_eq_iff] at h; unfold entCmp; rw [h.1, h.2]

theorem entCmp_congr_right {a b : Ent} (h : entCmp a b = .eq) (c : Ent) : entCmp c a = entCmp c b := by
  rw [entCmp_eq_iff] at h; unfold entCmp; rw [h.1, h.2]

theorem entCmp_lt_of_lt_of_eq {a b c : Ent} (h1 : entCmp a b = .lt) (h2 : entCmp b c = .eq) :
    entCmp a c = .lt := by rw [← entCmp_congr_right h2]; exact h1

theorem entCmp_lt_of_eq_of_lt {a b c : Ent} (h1 : entCmp a b = .eq) (h2 : entCmp b c = .lt) :
    entCmp a c = .lt := by rw [entCmp_congr_left h1]; exact h2

/-- trichotomy, in the form used to split cases -/
theorem entCmp_trichotomy (a b : Ent) :
    entCmp a b = .lt ∨ (a.key = b.key ∧ a.ver = b.ver) ∨ entCmp b a = .lt := by
  cases h : entCmp a b with
  | lt => exact .inl rfl
  | eq => exact .inr (.inl ((entCmp_eq_iff a b).mp h))
  | gt => exact .inr (.inr ((entCmp_gt_iff_lt a b).mp h))

/-- same user key: the order is the reverse order of the versions -/
theorem entCmp_lt_same_key {a b : Ent} (hk : a.key = b.key) : entCmp a b = .lt ↔ b.ver < a.ver := by
  rw [entCmp_lt_iff]
  constructor
  · rintro (h | h)
    · rw [hk, cmpBytes_refl] at h; cases h
    · exact h.2
  · exact fun h => .inr ⟨hk, h⟩

/-- the user keys of an ordered pair are ordered (weakly) -/
theorem entCmp_lt_key_le {a b : Ent} (h : entCmp a b = .lt) : cmpBytes a.key b.key ≠ .gt := by
  rw [entCmp_lt_iff] at h
  rcases h with h | h
  · rw [h]; simp
  · rw [h.1, cmpBytes_refl]; simp

/-- three entries in order whose outer keys agree all have the same key -/
theorem entCmp_key_squeeze {a b c : Ent} (h1 : entCmp a b = .lt) (h2 : entCmp b c = .lt)
    (hk : a.key = c.key) : b.key = a.key := by
  have h1' := entCmp_lt_key_le h1
  have h2' := entCmp_lt_key_le h2
  rw [← hk] at h2'
  exact cmpBytes_antisymm h2' h1'

-- non-vacuity / sanity
example : entCmp ⟨[1], 5, 0, 0, 0, []⟩ ⟨[1], 3, 0, 0, 0, []⟩ = .lt := by decide
example : entCmp ⟨[1], 5, 0, 0, 0, []⟩ ⟨[1, 0], 9, 0, 0, 0, []⟩ = .lt := by decide

end Badger
